// respaths: path-table extractor for property C13 (tie T, fact table `Sonic/Gen/Resources.lean`).
//
// For a configured list of constructor / connect / accept / handshake functions and Close methods of the
// library it enumerates every control-flow path through the function body (Go AST, stdlib only) and records,
// per path, the resource events in program order:
//
//	acquire r   a call configured as returning a new descriptor / mapping / file name succeeded
//	call f rs   a call to one of the repo's own listed acquiring functions succeeded: the caller now owns
//	            what f's ok-returns own (interprocedural summary; the Lean side checks the summary against f's paths)
//	release r   syscall.Close(x) / x.Close() / x.Destroy() / os.Remove(x) / syscall.Munmap(x) on a value holding r
//	step s ok   a call that can fail but neither acquires nor releases (which failure point the path is)
//
// and how the path ends: `ok owned…` (the resources reachable from the returned values / the receiver) or
// `fail handed…` (a non-nil error; `handed` = resources still live that are reachable from what was returned).
//
// The enumerator is a small abstract interpreter over nil-ness / small constants / resource handles with a
// choice oracle: every undetermined condition is a choice point, every sequence of choices is replayed from
// the start, so closures, defers, named results and receiver fields have their real semantics.  Loops are only
// accepted when their body produces no resource event (then one iteration represents all).  Whatever is outside
// the supported subset makes the *function* untranslatable (reported in the table, never skipped): the Lean
// side then needs a hand-written step list for it, or the corresponding theorem fails.
//
// Usage: respaths <config.json> <repo root> <out dir> [-dump]
package main

import (
	"encoding/json"
	"fmt"
	"go/ast"
	"go/parser"
	"go/printer"
	"go/token"
	"os"
	"path/filepath"
	"sort"
	"strconv"
	"strings"
)

// ---- configuration --------------------------------------------------------------------------------

type PartSpec struct {
	Name  string `json:"name"`
	Class string `json:"class"`
}

type AcquirerSpec struct {
	Call    string     `json:"call"`
	Arg0    string     `json:"arg0"`    // optional: the first argument must print as this
	Class   string     `json:"class"`   // fd | path | mapping
	Parts   []PartSpec `json:"parts"`   // optional: several resources (os.CreateTemp: descriptor and name)
	Results int        `json:"results"` // number of results (default 2); resource = first, error = last
}

type InlineSpec struct {
	Sel    string `json:"sel"`    // callee as printed at the call site, e.g. "s.dial"
	Target string `json:"target"` // key of a definition
}

type DefSpec struct {
	Key      string            `json:"key"`  // display name, e.g. "internal.socket", "sonic.listener.accept"
	Pkg      string            `json:"pkg"`  // package identifier as importers write it
	File     string            `json:"file"` // relative to the repo root
	Recv     string            `json:"recv"` // receiver type ("" = plain function)
	Func     string            `json:"func"`
	Callback string            `json:"callback"` // name of the completion-callback parameter ("" = the function returns its result)
	Inline   []InlineSpec      `json:"inline"`
	Finally  []string          `json:"finally"` // receiver fields (std-library owners of a borrowed descriptor) that are closed by their owner after the calls
	Init     map[string]string `json:"init"` // receiver fields at entry: path -> "fd#0" | "mapping#0" | "int:0" | "bool:false" | "const:x" | "nil"
}

type Config struct {
	Acquirers    []AcquirerSpec `json:"acquirers"`
	Releasers    []string       `json:"releasers"`       // plain functions releasing what their first argument holds
	ReleaseMeths []string       `json:"release_methods"` // methods releasing what their receiver holds
	Wrappers     []string       `json:"wrappers"`        // calls whose result owns what the arguments hold
	NonNil       []string       `json:"nonnil_calls"`    // calls that always return a non-nil error
	Invokers     []string       `json:"invokers"`        // methods that may invoke their func-literal argument once (RawConn.Control)
	Constructors []DefSpec      `json:"constructors"`
	Closes       []DefSpec      `json:"closes"`
	Defs         []DefSpec      `json:"defs"` // bodies available for inlining only
}

// ---- abstract values --------------------------------------------------------------------------------

type Val interface{}

type vNil struct{}
type vNonNil struct{}
type vBool struct{ b bool }
type vInt struct{ n int64 }
type vStr struct{ s string }
type vConst struct{ name string }
type vRes struct{ id int }
type vInvalid struct{}
type vName struct{ id int } // the name of a path resource (a string): identifies it for os.Remove, does not own it
type vCallback struct{}
type Struct struct {
	fields map[string]Val
}
type Closure struct {
	lit   *ast.FuncLit
	scope *Scope
	fr    *frame
}
type Unknown struct{ origin string }

type Scope struct {
	vars   map[string]Val
	parent *Scope
}

func (s *Scope) find(name string) *Scope {
	for c := s; c != nil; c = c.parent {
		if _, ok := c.vars[name]; ok {
			return c
		}
	}
	return nil
}

// ---- events / paths ---------------------------------------------------------------------------------

type Event struct {
	Kind   string // acquire | call | release | releaseInvalid | step | mark
	R      int
	Class  string
	Via    string
	Ok     bool
	Callee int
	Rs     []int
	RsCls  []string
}

type Path struct {
	Evs   []Event
	Ok    bool
	Owned []int
	Line  int
}

type Result struct {
	def     *DefSpec
	paths   []Path
	untrans string
	line    int
	index   int // position in the constructors table (-1 = not a constructor)
	intRes  bool
}

type untrans struct{ why string }

// ---- analyzer -----------------------------------------------------------------------------------------

type fileInfo struct {
	file *ast.File
	pkg  string
}

type analyzer struct {
	cfg     *Config
	root    string
	fset    *token.FileSet
	files   map[string]*ast.File
	defs    map[string]*DefSpec
	results map[string]*Result
	busy    map[string]bool
	ctorIdx map[string]int
}

func die(format string, a ...any) {
	fmt.Fprintf(os.Stderr, "respaths: "+format+"\n", a...)
	os.Exit(2)
}

func (an *analyzer) parse(rel string) *ast.File {
	if f, ok := an.files[rel]; ok {
		return f
	}
	f, err := parser.ParseFile(an.fset, filepath.Join(an.root, rel), nil, 0)
	if err != nil {
		die("parse %s: %v", rel, err)
	}
	an.files[rel] = f
	return f
}

func recvTypeName(fd *ast.FuncDecl) string {
	if fd.Recv == nil || len(fd.Recv.List) != 1 {
		return ""
	}
	t := fd.Recv.List[0].Type
	if st, ok := t.(*ast.StarExpr); ok {
		t = st.X
	}
	if ix, ok := t.(*ast.IndexExpr); ok {
		t = ix.X
	}
	if ix, ok := t.(*ast.IndexListExpr); ok {
		t = ix.X
	}
	if id, ok := t.(*ast.Ident); ok {
		return id.Name
	}
	return "?"
}

func (an *analyzer) decl(d *DefSpec) *ast.FuncDecl {
	f := an.parse(d.File)
	for _, dd := range f.Decls {
		fd, ok := dd.(*ast.FuncDecl)
		if !ok || fd.Body == nil || fd.Name.Name != d.Func {
			continue
		}
		if recvTypeName(fd) == d.Recv {
			return fd
		}
	}
	return nil
}

func (an *analyzer) str(n ast.Node) string {
	var b strings.Builder
	_ = printer.Fprint(&b, an.fset, n)
	return b.String()
}

// ---- one run (= one path) -----------------------------------------------------------------------------

type deferred struct {
	call  *ast.CallExpr
	scope *Scope
}

type frame struct {
	def      *DefSpec
	pkg      string
	recvName string
	recvType string
	recvVal  Val
	named    []string
	nres     int
	hasErr   bool
	scope    *Scope // function scope
	defers   []deferred
	ret      []Val
	inline   map[string]string
	top      bool
	cbName   string
}

type run struct {
	an     *analyzer
	oracle []int
	arity  []int
	pos    int
	evs    []Event
	live   map[int]bool
	class  []string
	term   *Path
	steps  int
	depth  int
	top    *frame
	retLine int
}

const (
	ctlNext = iota
	ctlReturn
	ctlBreak
	ctlContinue
)

func (r *run) bad(format string, a ...any) {
	panic(untrans{fmt.Sprintf(format, a...)})
}

func (r *run) choose(n int) int {
	if n <= 1 {
		return 0
	}
	if r.pos < len(r.oracle) {
		c := r.oracle[r.pos]
		r.pos++
		return c
	}
	r.oracle = append(r.oracle, 0)
	r.arity = append(r.arity, n)
	r.pos++
	return 0
}

func (r *run) newRes(class string) int {
	id := len(r.class)
	r.class = append(r.class, class)
	r.live[id] = true
	return id
}

func held(v Val, acc map[int]bool, seen map[*Struct]bool) {
	switch x := v.(type) {
	case vRes:
		acc[x.id] = true
	case *Struct:
		if x == nil || seen[x] {
			return
		}
		seen[x] = true
		for _, f := range x.fields {
			held(f, acc, seen)
		}
	}
}

func heldIds(vs ...Val) []int {
	acc := map[int]bool{}
	seen := map[*Struct]bool{}
	for _, v := range vs {
		held(v, acc, seen)
	}
	var out []int
	for k := range acc {
		out = append(out, k)
	}
	sort.Ints(out)
	return out
}

func (r *run) liveHeld(vs ...Val) []int {
	var out []int
	for _, id := range heldIds(vs...) {
		if r.live[id] {
			out = append(out, id)
		}
	}
	return out
}

// release everything v holds; returns the value of the error result under the kernel assumption that closing a
// live descriptor succeeds and closing an invalid one fails.
func (r *run) release(v Val, via string) Val {
	ids := heldIds(v)
	if nm, ok := v.(vName); ok {
		ids = []int{nm.id}
	}
	if len(ids) == 0 {
		switch v.(type) {
		case vInvalid, vInt, vNil:
			r.evs = append(r.evs, Event{Kind: "releaseInvalid", Via: via})
			return vNonNil{}
		}
		// nothing known to be held: an ordinary call
		return &Unknown{origin: via}
	}
	allLive := true
	for _, id := range ids {
		if !r.live[id] {
			allLive = false
		}
		r.evs = append(r.evs, Event{Kind: "release", R: id, Via: via})
		delete(r.live, id)
	}
	if allLive {
		return vNil{}
	}
	return vNonNil{}
}

var convTypes = map[string]bool{"int": true, "int32": true, "int64": true, "uint": true, "uint8": true, "uint16": true, "uint32": true,
	"uint64": true, "uintptr": true, "string": true, "byte": true, "bool": true, "float64": true, "PollerEvent": true, "timerState": true}

var builtins = map[string]bool{"len": true, "cap": true, "make": true, "append": true, "new": true, "copy": true, "delete": true, "min": true, "max": true}

func contains(l []string, s string) bool {
	for _, x := range l {
		if x == s {
			return true
		}
	}
	return false
}

func (r *run) lookup(sc *Scope, name string) (Val, bool) {
	if o := sc.find(name); o != nil {
		return o.vars[name], true
	}
	return nil, false
}

func (r *run) eval(fr *frame, sc *Scope, e ast.Expr) Val {
	switch x := e.(type) {
	case nil:
		return vNil{}
	case *ast.Ident:
		switch x.Name {
		case "nil":
			return vNil{}
		case "true":
			return vBool{true}
		case "false":
			return vBool{false}
		case "_":
			return &Unknown{origin: "_"}
		}
		if v, ok := r.lookup(sc, x.Name); ok {
			return v
		}
		return vConst{x.Name}
	case *ast.BasicLit:
		switch x.Kind {
		case token.INT:
			n, err := strconv.ParseInt(x.Value, 0, 64)
			if err == nil {
				return vInt{n}
			}
		case token.STRING:
			s, err := strconv.Unquote(x.Value)
			if err == nil {
				return vStr{s}
			}
		}
		return &Unknown{origin: "literal"}
	case *ast.ParenExpr:
		return r.eval(fr, sc, x.X)
	case *ast.StarExpr:
		return r.eval(fr, sc, x.X)
	case *ast.TypeAssertExpr:
		return r.eval(fr, sc, x.X)
	case *ast.FuncLit:
		return &Closure{lit: x, scope: sc, fr: fr}
	case *ast.UnaryExpr:
		switch x.Op {
		case token.AND:
			return r.eval(fr, sc, x.X)
		case token.NOT:
			return vBool{!r.cond(fr, sc, x.X)}
		case token.SUB:
			if v, ok := r.eval(fr, sc, x.X).(vInt); ok {
				return vInt{-v.n}
			}
		case token.ARROW:
			return &Unknown{origin: "recv"}
		}
		return &Unknown{origin: "unary"}
	case *ast.BinaryExpr:
		switch x.Op {
		case token.LAND, token.LOR, token.EQL, token.NEQ, token.LSS, token.GTR, token.LEQ, token.GEQ:
			return vBool{r.cond(fr, sc, e)}
		}
		a, b := r.eval(fr, sc, x.X), r.eval(fr, sc, x.Y)
		ai, aok := a.(vInt)
		bi, bok := b.(vInt)
		if aok && bok {
			switch x.Op {
			case token.ADD:
				return vInt{ai.n + bi.n}
			case token.SUB:
				return vInt{ai.n - bi.n}
			case token.MUL:
				return vInt{ai.n * bi.n}
			}
		}
		return &Unknown{origin: "arith"}
	case *ast.SelectorExpr:
		// package-qualified name?
		if id, ok := x.X.(*ast.Ident); ok {
			if _, bound := r.lookup(sc, id.Name); !bound {
				return vConst{id.Name + "." + x.Sel.Name}
			}
		}
		base := r.eval(fr, sc, x.X)
		if st, ok := base.(*Struct); ok && st != nil {
			if v, ok := st.fields[x.Sel.Name]; ok {
				return v
			}
			u := &Unknown{origin: r.an.str(e)}
			st.fields[x.Sel.Name] = u
			return u
		}
		return &Unknown{origin: r.an.str(e)}
	case *ast.CompositeLit:
		st := &Struct{fields: map[string]Val{}}
		for i, el := range x.Elts {
			if kv, ok := el.(*ast.KeyValueExpr); ok {
				key := r.an.str(kv.Key)
				st.fields[key] = r.eval(fr, sc, kv.Value)
			} else {
				st.fields["_"+strconv.Itoa(i)] = r.eval(fr, sc, el)
			}
		}
		return st
	case *ast.IndexExpr:
		b := r.eval(fr, sc, x.X)
		switch b.(type) {
		case *Struct, vRes:
			return b
		}
		return &Unknown{origin: "index"}
	case *ast.SliceExpr:
		b := r.eval(fr, sc, x.X)
		switch b.(type) {
		case *Struct, vRes:
			return b
		}
		return &Unknown{origin: "slice"}
	case *ast.CallExpr:
		vs := r.call(fr, sc, x)
		if len(vs) == 0 {
			return &Unknown{origin: "void"}
		}
		return vs[0]
	case *ast.KeyValueExpr:
		return r.eval(fr, sc, x.Value)
	case *ast.ArrayType, *ast.MapType, *ast.ChanType, *ast.FuncType, *ast.InterfaceType, *ast.StructType:
		return vConst{"type"}
	}
	r.bad("expression %T not supported", e)
	return nil
}

func isZeroLike(v Val) (zero bool, known bool) {
	switch x := v.(type) {
	case vNil:
		return true, true
	case vInt:
		return x.n == 0, true
	case vNonNil, vRes, *Struct, *Closure, vCallback, vStr, vName:
		return false, true
	case vConst:
		return false, true
	case vInvalid:
		return false, true
	}
	return false, false
}

// refine stores a value at an lvalue expression if it is one (identifier / field selector).
func (r *run) refine(fr *frame, sc *Scope, e ast.Expr, v Val) {
	switch x := e.(type) {
	case *ast.Ident:
		if o := sc.find(x.Name); o != nil {
			o.vars[x.Name] = v
		}
	case *ast.SelectorExpr:
		if id, ok := x.X.(*ast.Ident); ok {
			if _, bound := r.lookup(sc, id.Name); !bound {
				return
			}
		}
		if st, ok := r.eval(fr, sc, x.X).(*Struct); ok && st != nil {
			st.fields[x.Sel.Name] = v
		}
	case *ast.ParenExpr:
		r.refine(fr, sc, x.X, v)
	}
}

func (r *run) stepEvent(u *Unknown, ok bool) {
	if u == nil || u.origin == "" || strings.HasPrefix(u.origin, "param ") || !strings.Contains(u.origin, "(") {
		return
	}
	r.evs = append(r.evs, Event{Kind: "step", Via: strings.TrimSuffix(u.origin, "()"), Ok: ok})
}

// cond evaluates a condition to a definite boolean, consuming a choice where the abstract value does not decide.
func (r *run) cond(fr *frame, sc *Scope, e ast.Expr) bool {
	switch x := e.(type) {
	case *ast.ParenExpr:
		return r.cond(fr, sc, x.X)
	case *ast.UnaryExpr:
		if x.Op == token.NOT {
			return !r.cond(fr, sc, x.X)
		}
	case *ast.BinaryExpr:
		switch x.Op {
		case token.LAND:
			if !r.cond(fr, sc, x.X) {
				return false
			}
			return r.cond(fr, sc, x.Y)
		case token.LOR:
			if r.cond(fr, sc, x.X) {
				return true
			}
			return r.cond(fr, sc, x.Y)
		case token.EQL, token.NEQ:
			a, b := r.eval(fr, sc, x.X), r.eval(fr, sc, x.Y)
			eq, known := r.equal(a, b)
			if !known {
				// comparison of an undetermined value with nil / 0: choose and remember
				if ua, ok := a.(*Unknown); ok {
					if z, k := isZeroLike(b); k && z {
						isNil := r.choose(2) == 0
						if _, n := b.(vNil); n {
							r.stepEvent(ua, isNil)
						}
						if isNil {
							r.refine(fr, sc, x.X, b)
						} else {
							r.refine(fr, sc, x.X, vNonNil{})
						}
						eq, known = isNil, true
					}
				}
				if ub, ok := b.(*Unknown); ok && !known {
					if z, k := isZeroLike(a); k && z {
						isNil := r.choose(2) == 0
						if _, n := a.(vNil); n {
							r.stepEvent(ub, isNil)
						}
						if isNil {
							r.refine(fr, sc, x.Y, a)
						} else {
							r.refine(fr, sc, x.Y, vNonNil{})
						}
						eq, known = isNil, true
					}
				}
				if !known {
					eq = r.choose(2) == 0
				}
			}
			if x.Op == token.EQL {
				return eq
			}
			return !eq
		case token.LSS, token.GTR, token.LEQ, token.GEQ:
			a, b := r.eval(fr, sc, x.X), r.eval(fr, sc, x.Y)
			ai, aok := asInt(a)
			bi, bok := asInt(b)
			if aok && bok {
				switch x.Op {
				case token.LSS:
					return ai < bi
				case token.GTR:
					return ai > bi
				case token.LEQ:
					return ai <= bi
				default:
					return ai >= bi
				}
			}
			return r.choose(2) == 0
		}
	}
	v := r.eval(fr, sc, e)
	switch b := v.(type) {
	case vBool:
		return b.b
	case *Unknown:
		t := r.choose(2) == 0
		r.refine(fr, sc, e, vBool{t})
		return t
	}
	return r.choose(2) == 0
}

// asInt: a live descriptor number is a non-negative integer; an invalid one is -1.
func asInt(v Val) (int64, bool) {
	switch x := v.(type) {
	case vInt:
		return x.n, true
	case vRes:
		return 3, true
	case vInvalid:
		return -1, true
	}
	return 0, false
}

func (r *run) equal(a, b Val) (eq bool, known bool) {
	za, ka := isZeroLike(a)
	zb, kb := isZeroLike(b)
	_, an := a.(vNil)
	_, bn := b.(vNil)
	if an || bn {
		if ka && kb {
			return za == zb, true
		}
		return false, false
	}
	switch x := a.(type) {
	case vInt:
		if y, ok := b.(vInt); ok {
			return x.n == y.n, true
		}
		if _, ok := b.(vNonNil); ok && x.n == 0 {
			return false, true
		}
	case vNonNil:
		if y, ok := b.(vInt); ok && y.n == 0 {
			return false, true
		}
	case vBool:
		if y, ok := b.(vBool); ok {
			return x.b == y.b, true
		}
	case vStr:
		if y, ok := b.(vStr); ok {
			return x.s == y.s, true
		}
	case vConst:
		if y, ok := b.(vConst); ok {
			return x.name == y.name, true
		}
	}
	return false, false
}

func (r *run) assign(fr *frame, sc *Scope, lhs ast.Expr, v Val, define bool) {
	switch x := lhs.(type) {
	case *ast.Ident:
		if x.Name == "_" {
			return
		}
		if define {
			if _, ok := sc.vars[x.Name]; !ok {
				sc.vars[x.Name] = v
				return
			}
		}
		if o := sc.find(x.Name); o != nil {
			o.vars[x.Name] = v
		} else {
			sc.vars[x.Name] = v
		}
	case *ast.SelectorExpr:
		base := r.eval(fr, sc, x.X)
		if st, ok := base.(*Struct); ok && st != nil {
			st.fields[x.Sel.Name] = v
			return
		}
		// the base is not a tracked struct: turn it into one if it is an lvalue and the value matters
		if len(heldIds(v)) > 0 {
			st := &Struct{fields: map[string]Val{x.Sel.Name: v}}
			r.refine(fr, sc, x.X, st)
		}
	case *ast.StarExpr:
		r.assign(fr, sc, x.X, v, false)
	case *ast.UnaryExpr:
		if x.Op != token.AND {
			r.bad("assignment target %s not supported", r.an.str(lhs))
		}
		r.assign(fr, sc, x.X, v, false)
	case *ast.ParenExpr:
		r.assign(fr, sc, x.X, v, define)
	case *ast.IndexExpr:
		// element store: keep resources reachable through the container
		if len(heldIds(v)) > 0 {
			r.bad("resource stored into an indexed element: %s", r.an.str(lhs))
		}
	default:
		r.bad("assignment target %T not supported", lhs)
	}
}

// ---- calls ------------------------------------------------------------------------------------------------

func (r *run) resultsOf(fd *ast.FuncType) (n int, names []string, hasErr bool, firstInt bool) {
	if fd.Results == nil {
		return 0, nil, false, false
	}
	for i, f := range fd.Results.List {
		k := len(f.Names)
		if k == 0 {
			k = 1
		}
		for j := 0; j < k; j++ {
			if len(f.Names) > 0 {
				names = append(names, f.Names[j].Name)
			}
			n++
		}
		if id, ok := f.Type.(*ast.Ident); ok {
			if i == len(fd.Results.List)-1 && id.Name == "error" {
				hasErr = true
			}
			if i == 0 && id.Name == "int" {
				firstInt = true
			}
		}
	}
	return
}

func (r *run) bindParams(ft *ast.FuncType, sc *Scope, args []Val, cbName string) {
	i := 0
	if ft.Params == nil {
		return
	}
	for _, f := range ft.Params.List {
		_, variadic := f.Type.(*ast.Ellipsis)
		names := f.Names
		if len(names) == 0 {
			i++
			continue
		}
		for _, nm := range names {
			var v Val
			switch {
			case cbName != "" && nm.Name == cbName:
				v = vCallback{}
			case variadic:
				v = &Unknown{origin: "param " + nm.Name}
			case args != nil && i < len(args):
				v = args[i]
			default:
				v = &Unknown{origin: "param " + nm.Name}
			}
			if nm.Name != "_" {
				sc.vars[nm.Name] = v
			}
			i++
		}
	}
}

// invoke runs a function body (declaration or literal) in a fresh frame and returns its results.
func (r *run) invoke(def *DefSpec, ft *ast.FuncType, body *ast.BlockStmt, recvField *ast.FieldList, recvVal Val, args []Val,
	parent *Scope, caller *frame, top bool) []Val {
	r.depth++
	if r.depth > 40 {
		r.bad("call depth exceeded (recursion?)")
	}
	defer func() { r.depth-- }()
	fr := &frame{def: def, scope: &Scope{vars: map[string]Val{}, parent: parent}, inline: map[string]string{}, top: top}
	if caller != nil {
		fr.pkg, fr.recvName, fr.recvType, fr.recvVal, fr.inline, fr.cbName = caller.pkg, caller.recvName, caller.recvType, caller.recvVal, caller.inline, ""
	}
	if def != nil {
		fr.pkg = def.Pkg
		fr.recvType = def.Recv
		fr.recvName = ""
		fr.recvVal = nil
		fr.inline = map[string]string{}
		if caller != nil {
			for k, v := range caller.inline {
				fr.inline[k] = v
			}
		}
		for _, in := range def.Inline {
			fr.inline[in.Sel] = in.Target
		}
		if top {
			fr.cbName = def.Callback
		}
		if recvField != nil && len(recvField.List) == 1 && len(recvField.List[0].Names) == 1 {
			fr.recvName = recvField.List[0].Names[0].Name
			fr.recvVal = recvVal
			fr.scope.vars[fr.recvName] = recvVal
		}
	}
	fr.nres, fr.named, fr.hasErr, _ = r.resultsOf(ft)
	for _, nm := range fr.named {
		if nm != "_" {
			fr.scope.vars[nm] = vNil{}
		}
	}
	r.bindParams(ft, fr.scope, args, fr.cbName)
	if top {
		r.top = fr
	}
	c := r.block(fr, &Scope{vars: map[string]Val{}, parent: fr.scope}, body.List)
	if c != ctlReturn {
		// fell off the end
		fr.ret = nil
		if len(fr.named) > 0 {
			for _, nm := range fr.named {
				v, _ := r.lookup(fr.scope, nm)
				fr.ret = append(fr.ret, v)
			}
		}
		r.runDefers(fr)
	}
	return fr.ret
}

func (r *run) runDefers(fr *frame) {
	for i := len(fr.defers) - 1; i >= 0; i-- {
		d := fr.defers[i]
		r.call(fr, d.scope, d.call)
	}
	fr.defers = nil
	if len(fr.named) > 0 && len(fr.ret) == len(fr.named) {
		// deferred functions may have changed the named results
		for i, nm := range fr.named {
			if nm == "_" {
				continue
			}
			if v, ok := r.lookup(fr.scope, nm); ok {
				fr.ret[i] = v
			}
		}
	}
}

func (r *run) matchDef(fr *frame, t string, list []DefSpec) *DefSpec {
	for i := range list {
		d := &list[i]
		if t == d.Key {
			return d
		}
		if d.Recv == "" {
			if t == d.Pkg+"."+d.Func || (t == d.Func && fr.pkg == d.Pkg) {
				return d
			}
		} else if fr.recvName != "" && fr.recvType == d.Recv && fr.pkg == d.Pkg && t == fr.recvName+"."+d.Func {
			return d
		}
	}
	return nil
}

func (r *run) callbackTerm(fr *frame, args []Val) {
	if r.term != nil {
		r.bad("the completion callback is invoked twice on one path")
	}
	ok := true
	if len(args) > 0 {
		switch e := args[0].(type) {
		case vNil:
		case vInt:
			ok = e.n == 0
		case *Unknown:
			ok = r.choose(2) == 0
			r.stepEvent(e, ok)
		default:
			ok = false
		}
	}
	roots := append([]Val{}, args...)
	if r.top != nil && r.top.recvVal != nil {
		roots = append(roots, r.top.recvVal)
	}
	r.term = &Path{Ok: ok, Owned: r.liveHeld(roots...)}
}

func (r *run) call(fr *frame, sc *Scope, c *ast.CallExpr) []Val {
	r.steps++
	if r.steps > 20000 {
		r.bad("path too long")
	}
	t := r.an.str(c.Fun)
	cfg := r.an.cfg
	// conversions and builtins
	switch f := c.Fun.(type) {
	case *ast.Ident:
		if convTypes[f.Name] && len(c.Args) == 1 {
			if _, bound := r.lookup(sc, f.Name); !bound {
				return []Val{r.eval(fr, sc, c.Args[0])}
			}
		}
		if builtins[f.Name] {
			for _, a := range c.Args {
				if _, isType := a.(*ast.ArrayType); !isType {
					r.eval(fr, sc, a)
				}
			}
			if f.Name == "append" && len(c.Args) > 0 {
				return []Val{r.eval(fr, sc, c.Args[0])}
			}
			return []Val{&Unknown{origin: f.Name}}
		}
		if f.Name == "panic" {
			r.bad("panic statement")
		}
	case *ast.ParenExpr, *ast.ArrayType, *ast.StarExpr:
		if len(c.Args) == 1 {
			return []Val{r.eval(fr, sc, c.Args[0])}
		}
	case *ast.FuncLit:
		cl := &Closure{lit: f, scope: sc, fr: fr}
		return r.callClosure(cl, r.evalArgs(fr, sc, c.Args))
	}
	// closure variable / completion callback
	if id, ok := c.Fun.(*ast.Ident); ok {
		if v, bound := r.lookup(sc, id.Name); bound {
			switch f := v.(type) {
			case *Closure:
				out := r.callClosure(f, r.evalArgs(fr, sc, c.Args))
				for i, v := range out {
					if _, unk := v.(*Unknown); unk {
						out[i] = &Unknown{origin: id.Name + "()"}
					}
				}
				return out
			case vCallback:
				r.callbackTerm(fr, r.evalArgs(fr, sc, c.Args))
				return nil
			}
		}
	}
	// inlined definitions
	if key, ok := fr.inline[t]; ok {
		d := r.an.defs[key]
		if d == nil {
			r.bad("inline target %s is not defined in the configuration", key)
		}
		fd := r.an.decl(d)
		if fd == nil {
			r.bad("inline target %s not found in %s", key, d.File)
		}
		var recv Val
		if sel, ok := c.Fun.(*ast.SelectorExpr); ok && d.Recv != "" {
			recv = r.eval(fr, sc, sel.X)
			if _, isSt := recv.(*Struct); !isSt {
				st := &Struct{fields: map[string]Val{}}
				r.refine(fr, sc, sel.X, st)
				recv = st
			}
		}
		return r.invoke(d, fd.Type, fd.Body, fd.Recv, recv, r.evalArgs(fr, sc, c.Args), nil, fr, false)
	}
	// the repo's own listed acquiring functions: summarised
	if d := r.matchDef(fr, t, cfg.Constructors); d != nil {
		res := r.an.analyze(d)
		if res.untrans != "" {
			r.bad("calls %s which is untranslatable (%s)", d.Key, res.untrans)
		}
		r.evalArgs(fr, sc, c.Args)
		fd := r.an.decl(d)
		n, _, hasErr, firstInt := r.resultsOf(fd.Type)
		var okPath *Path
		for i := range res.paths {
			if res.paths[i].Ok {
				okPath = &res.paths[i]
				break
			}
		}
		succeed := okPath != nil && (!hasErr || r.choose(2) == 0)
		out := make([]Val, n)
		for i := range out {
			out[i] = &Unknown{origin: "result of " + d.Key}
		}
		if succeed {
			ev := Event{Kind: "call", Via: d.Key, Callee: res.index}
			st := &Struct{fields: map[string]Val{}}
			var last Val
			for k, id := range okPath.Owned {
				cls := classOf(okPath, id)
				nid := r.newRes(cls)
				ev.Rs = append(ev.Rs, nid)
				ev.RsCls = append(ev.RsCls, cls)
				last = vRes{nid}
				st.fields["$"+strconv.Itoa(k)] = last
			}
			r.evs = append(r.evs, ev)
			if n > 0 {
				if firstInt && len(okPath.Owned) == 1 {
					out[0] = last
				} else {
					out[0] = st
				}
			}
			if hasErr {
				out[n-1] = vNil{}
			}
		} else {
			r.evs = append(r.evs, Event{Kind: "step", Via: d.Key, Ok: false})
			if n > 0 {
				if firstInt {
					out[0] = vInvalid{}
				} else {
					out[0] = vNil{}
				}
			}
			if hasErr {
				out[n-1] = vNonNil{}
			}
		}
		return out
	}
	// configured acquirers
	for i := range cfg.Acquirers {
		a := &cfg.Acquirers[i]
		if t != a.Call {
			continue
		}
		if a.Arg0 != "" && (len(c.Args) == 0 || r.an.str(c.Args[0]) != a.Arg0) {
			continue
		}
		r.evalArgs(fr, sc, c.Args)
		n := a.Results
		if n == 0 {
			n = 2
		}
		out := make([]Val, n)
		for i := range out {
			out[i] = &Unknown{origin: "result of " + t}
		}
		if r.choose(2) == 0 {
			if len(a.Parts) > 0 {
				st := &Struct{fields: map[string]Val{}}
				for _, p := range a.Parts {
					id := r.newRes(p.Class)
					r.evs = append(r.evs, Event{Kind: "acquire", R: id, Class: p.Class, Via: t + "#" + p.Name})
					st.fields["$"+p.Name] = vRes{id}
				}
				out[0] = st
			} else {
				id := r.newRes(a.Class)
				r.evs = append(r.evs, Event{Kind: "acquire", R: id, Class: a.Class, Via: t})
				out[0] = vRes{id}
			}
			out[n-1] = vNil{}
		} else {
			r.evs = append(r.evs, Event{Kind: "step", Via: t, Ok: false})
			out[0] = vInvalid{}
			out[n-1] = vNonNil{}
		}
		return out
	}
	if contains(cfg.Releasers, t) && len(c.Args) >= 1 {
		v := r.eval(fr, sc, c.Args[0])
		return []Val{r.release(v, t)}
	}
	if contains(cfg.NonNil, t) {
		r.evalArgs(fr, sc, c.Args)
		return []Val{vNonNil{}}
	}
	if contains(cfg.Wrappers, t) {
		args := r.evalArgs(fr, sc, c.Args)
		st := &Struct{fields: map[string]Val{}}
		for i, a := range args {
			if len(heldIds(a)) > 0 {
				st.fields["_"+strconv.Itoa(i)] = a
			}
		}
		return []Val{st}
	}
	switch t {
	case "atomic.CompareAndSwapUint32", "atomic.CompareAndSwapInt32":
		if len(c.Args) == 3 {
			cur := r.eval(fr, sc, c.Args[0])
			old := r.eval(fr, sc, c.Args[1])
			nw := r.eval(fr, sc, c.Args[2])
			eq, known := r.equal(cur, old)
			if !known {
				eq = r.choose(2) == 0
			}
			if eq {
				r.assign(fr, sc, c.Args[0], nw, false)
			} else if !known {
				r.assign(fr, sc, c.Args[0], nw, false) // the only other value the flag takes
			}
			return []Val{vBool{eq}}
		}
	case "atomic.LoadUint32", "atomic.LoadInt32", "atomic.LoadInt64":
		if len(c.Args) == 1 {
			return []Val{r.eval(fr, sc, c.Args[0])}
		}
	case "atomic.StoreUint32", "atomic.StoreInt32":
		if len(c.Args) == 2 {
			r.assign(fr, sc, c.Args[0], r.eval(fr, sc, c.Args[1]), false)
			return nil
		}
	}
	// method calls
	if sel, ok := c.Fun.(*ast.SelectorExpr); ok {
		m := sel.Sel.Name
		isPkg := false
		if id, ok := sel.X.(*ast.Ident); ok {
			if _, bound := r.lookup(sc, id.Name); !bound {
				isPkg = true
			}
		}
		if !isPkg {
			recv := r.eval(fr, sc, sel.X)
			if contains(cfg.Invokers, m) {
				for _, a := range c.Args {
					if fl, ok := a.(*ast.FuncLit); ok {
						if r.choose(2) == 0 {
							cl := &Closure{lit: fl, scope: sc, fr: fr}
							r.callClosure(cl, nil)
							return []Val{vNil{}}
						}
						r.evs = append(r.evs, Event{Kind: "step", Via: t, Ok: false})
						return []Val{vNonNil{}}
					}
				}
			}
			if st, ok := recv.(*Struct); ok && st != nil && m == "Close" && len(c.Args) == 0 {
				if v, ok := r.stdClose(st, t); ok {
					return []Val{v}
				}
			}
			if st, ok := recv.(*Struct); ok && st != nil {
				// accessors of multi-part resources (os.File): Name() -> the path, Fd() -> the descriptor
				if m == "Name" {
					if v, ok := st.fields["$path"].(vRes); ok {
						return []Val{vName{v.id}}
					}
				}
				if m == "Fd" {
					if v, ok := st.fields["$fd"]; ok {
						return []Val{v}
					}
				}
				if m == "Close" {
					if v, ok := st.fields["$fd"]; ok {
						r.evalArgs(fr, sc, c.Args)
						return []Val{r.release(v, t)}
					}
				}
			}
			if contains(cfg.ReleaseMeths, m) && len(c.Args) == 0 {
				if len(heldIds(recv)) > 0 {
					return []Val{r.release(recv, t)}
				}
				switch recv.(type) {
				case vInvalid, vNil:
					r.bad("%s on a value that is nil on this path", t)
				}
			}
		}
	}
	// anything else: an opaque call. A func literal handed to it is not run.
	for _, a := range c.Args {
		if _, ok := a.(*ast.FuncLit); ok {
			if len(r.liveSet()) > 0 || true {
				// a closure passed to unknown code could do anything with captured resources: only accept when it is inert
				if !r.an.inertNode(a, fr) {
					r.bad("function literal with resource-relevant body passed to %s, which is not configured", t)
				}
			}
			continue
		}
		r.eval(fr, sc, a)
	}
	return []Val{&Unknown{origin: t + "()"}, &Unknown{origin: t + "()"}, &Unknown{origin: t + "()"}, &Unknown{origin: t + "()"}}
}

// stdClose: Close of a standard-library object (net.Conn, os.File) that owns a descriptor and guards its own Close: the
// first call closes the number it believes it owns — whether or not somebody else already closed that number —, later
// calls do nothing.
func (r *run) stdClose(st *Struct, via string) (Val, bool) {
	flag, ok := st.fields["$stdclosed"].(vBool)
	if !ok {
		return nil, false
	}
	if flag.b {
		return vNonNil{}, true
	}
	st.fields["$stdclosed"] = vBool{true}
	return r.release(st, via), true
}

func (r *run) liveSet() []int {
	var out []int
	for k := range r.live {
		out = append(out, k)
	}
	sort.Ints(out)
	return out
}

func classOf(p *Path, id int) string {
	for _, e := range p.Evs {
		switch e.Kind {
		case "acquire":
			if e.R == id {
				return e.Class
			}
		case "call":
			for i, x := range e.Rs {
				if x == id {
					return e.RsCls[i]
				}
			}
		}
	}
	return "fd"
}

func (r *run) evalArgs(fr *frame, sc *Scope, args []ast.Expr) []Val {
	out := make([]Val, 0, len(args))
	for _, a := range args {
		out = append(out, r.eval(fr, sc, a))
	}
	return out
}

func (r *run) callClosure(cl *Closure, args []Val) []Val {
	return r.invoke(nil, cl.lit.Type, cl.lit.Body, nil, nil, args, cl.scope, cl.fr, false)
}

// ---- statements -----------------------------------------------------------------------------------------------

func (r *run) block(fr *frame, sc *Scope, list []ast.Stmt) int {
	for _, s := range list {
		if c := r.stmt(fr, sc, s); c != ctlNext {
			return c
		}
	}
	return ctlNext
}

func assignedIdents(n ast.Node) []string {
	var out []string
	ast.Inspect(n, func(x ast.Node) bool {
		switch s := x.(type) {
		case *ast.AssignStmt:
			for _, l := range s.Lhs {
				if id, ok := l.(*ast.Ident); ok && id.Name != "_" {
					out = append(out, id.Name)
				}
			}
		case *ast.IncDecStmt:
			if id, ok := s.X.(*ast.Ident); ok {
				out = append(out, id.Name)
			}
		case *ast.FuncLit:
			return false
		}
		return true
	})
	return out
}

func (r *run) havoc(sc *Scope, n ast.Node) {
	for _, nm := range assignedIdents(n) {
		if o := sc.find(nm); o != nil {
			if len(heldIds(o.vars[nm])) == 0 {
				if _, isCl := o.vars[nm].(*Closure); !isCl {
					o.vars[nm] = &Unknown{origin: nm}
				}
			}
		}
	}
}

// inertNode: the statement cannot return, branch, defer, or call anything the table cares about.
func (an *analyzer) inertNode(n ast.Node, fr *frame) bool {
	inert := true
	ast.Inspect(n, func(x ast.Node) bool {
		if !inert {
			return false
		}
		switch s := x.(type) {
		case *ast.ReturnStmt:
			// a return inside a nested function literal does not leave the enclosing function
			inert = false
		case *ast.BranchStmt, *ast.DeferStmt, *ast.GoStmt:
			inert = false
		case *ast.FuncLit:
			// judged separately: its returns are its own
			if !an.inertBody(s.Body, fr) {
				inert = false
			}
			return false
		case *ast.CallExpr:
			if !an.inertCall(s, fr) {
				inert = false
			}
		}
		return inert
	})
	return inert
}

func (an *analyzer) inertBody(b *ast.BlockStmt, fr *frame) bool {
	inert := true
	ast.Inspect(b, func(x ast.Node) bool {
		if !inert {
			return false
		}
		switch s := x.(type) {
		case *ast.DeferStmt, *ast.GoStmt:
			inert = false
		case *ast.CallExpr:
			if !an.inertCall(s, fr) {
				inert = false
			}
		}
		return inert
	})
	return inert
}

func (an *analyzer) inertCall(c *ast.CallExpr, fr *frame) bool {
	t := an.str(c.Fun)
	cfg := an.cfg
	if _, ok := fr.inline[t]; ok {
		return false
	}
	for i := range cfg.Acquirers {
		if cfg.Acquirers[i].Call == t {
			return false
		}
	}
	if contains(cfg.Releasers, t) || contains(cfg.Wrappers, t) || strings.HasPrefix(t, "atomic.CompareAndSwap") || strings.HasPrefix(t, "atomic.Store") {
		return false
	}
	if sel, ok := c.Fun.(*ast.SelectorExpr); ok {
		if contains(cfg.ReleaseMeths, sel.Sel.Name) || contains(cfg.Invokers, sel.Sel.Name) {
			return false
		}
	}
	for i := range cfg.Constructors {
		d := &cfg.Constructors[i]
		if t == d.Key || t == d.Pkg+"."+d.Func || (d.Recv == "" && t == d.Func && fr.pkg == d.Pkg) ||
			(d.Recv != "" && fr.recvName != "" && t == fr.recvName+"."+d.Func && fr.recvType == d.Recv) {
			return false
		}
	}
	if id, ok := c.Fun.(*ast.Ident); ok {
		// a local function value or the completion callback
		if fr.cbName != "" && id.Name == fr.cbName {
			return false
		}
		if id.Obj != nil && id.Obj.Kind == ast.Var {
			return false
		}
	}
	return true
}

func (r *run) stmt(fr *frame, sc *Scope, s ast.Stmt) int {
	r.steps++
	if r.steps > 20000 {
		r.bad("path too long")
	}
	switch x := s.(type) {
	case *ast.EmptyStmt:
		return ctlNext
	case *ast.BlockStmt:
		return r.block(fr, &Scope{vars: map[string]Val{}, parent: sc}, x.List)
	case *ast.ExprStmt:
		if c, ok := x.X.(*ast.CallExpr); ok {
			r.call(fr, sc, c)
		} else {
			r.eval(fr, sc, x.X)
		}
		return ctlNext
	case *ast.IncDecStmt:
		r.assign(fr, sc, x.X, &Unknown{origin: "incdec"}, false)
		return ctlNext
	case *ast.SendStmt:
		r.eval(fr, sc, x.Value)
		return ctlNext
	case *ast.DeclStmt:
		gd, ok := x.Decl.(*ast.GenDecl)
		if !ok {
			r.bad("declaration not supported")
		}
		for _, sp := range gd.Specs {
			vs, ok := sp.(*ast.ValueSpec)
			if !ok {
				continue
			}
			if len(vs.Values) == 1 && len(vs.Names) > 1 {
				if c, ok := vs.Values[0].(*ast.CallExpr); ok {
					res := r.call(fr, sc, c)
					for i, nm := range vs.Names {
						if i < len(res) && nm.Name != "_" {
							sc.vars[nm.Name] = res[i]
						}
					}
					continue
				}
			}
			for i, nm := range vs.Names {
				var v Val = vNil{}
				if i < len(vs.Values) {
					v = r.eval(fr, sc, vs.Values[i])
				} else if id, ok := vs.Type.(*ast.Ident); ok {
					switch id.Name {
					case "int", "int64", "uint32", "uint64", "uintptr":
						v = vInt{0}
					case "bool":
						v = vBool{false}
					case "string":
						v = vStr{""}
					}
				} else if _, ok := vs.Type.(*ast.SelectorExpr); ok {
					// a named type from another package: nil if it is an interface, a zero struct otherwise; neither holds a resource
					v = vNil{}
				}
				if nm.Name != "_" {
					sc.vars[nm.Name] = v
				}
			}
		}
		return ctlNext
	case *ast.AssignStmt:
		define := x.Tok == token.DEFINE
		if x.Tok != token.DEFINE && x.Tok != token.ASSIGN {
			// op-assignment: arithmetic on a non-resource
			for _, l := range x.Lhs {
				r.assign(fr, sc, l, &Unknown{origin: "arith"}, false)
			}
			return ctlNext
		}
		if len(x.Rhs) == 1 && len(x.Lhs) > 1 {
			var res []Val
			switch rh := x.Rhs[0].(type) {
			case *ast.CallExpr:
				res = r.call(fr, sc, rh)
			case *ast.TypeAssertExpr:
				v := r.eval(fr, sc, rh.X)
				var ok Val = &Unknown{origin: "type assertion"}
				if st, isSt := v.(*Struct); isSt && st != nil && rh.Type != nil && r.an.str(rh.Type) == "io.Closer" {
					// a configured receiver field: either a standard-library closer or explicitly not one
					if _, has := st.fields["$stdclosed"]; has {
						ok = vBool{true}
					} else if _, has := st.fields["$noncloser"]; has {
						ok = vBool{false}
					}
				}
				res = []Val{v, ok}
			case *ast.IndexExpr:
				res = []Val{r.eval(fr, sc, rh), &Unknown{origin: "map lookup"}}
			case *ast.UnaryExpr:
				res = []Val{&Unknown{origin: "recv"}, &Unknown{origin: "recv"}}
			default:
				r.bad("multi-value assignment from %T", rh)
			}
			for i, l := range x.Lhs {
				var v Val = &Unknown{origin: "result"}
				if i < len(res) {
					v = res[i]
				}
				r.assign(fr, sc, l, v, define)
			}
			return ctlNext
		}
		if len(x.Rhs) != len(x.Lhs) {
			r.bad("assignment shape not supported")
		}
		vals := make([]Val, len(x.Rhs))
		for i, e := range x.Rhs {
			vals[i] = r.eval(fr, sc, e)
		}
		for i, l := range x.Lhs {
			r.assign(fr, sc, l, vals[i], define)
		}
		return ctlNext
	case *ast.DeferStmt:
		fr.defers = append(fr.defers, deferred{call: x.Call, scope: sc})
		return ctlNext
	case *ast.GoStmt:
		r.bad("go statement")
	case *ast.ReturnStmt:
		var vals []Val
		if len(x.Results) == 1 && fr.nres > 1 {
			c, ok := x.Results[0].(*ast.CallExpr)
			if !ok {
				r.bad("return shape not supported")
			}
			vals = r.call(fr, sc, c)
			if len(vals) > fr.nres {
				vals = vals[:fr.nres]
			}
		} else if len(x.Results) == 0 {
			for _, nm := range fr.named {
				v, _ := r.lookup(fr.scope, nm)
				vals = append(vals, v)
			}
		} else {
			for _, e := range x.Results {
				vals = append(vals, r.eval(fr, sc, e))
			}
		}
		if len(fr.named) == len(vals) {
			for i, nm := range fr.named {
				if nm != "_" {
					fr.scope.vars[nm] = vals[i]
				}
			}
		}
		fr.ret = vals
		r.runDefers(fr)
		if fr.top {
			r.top.ret = fr.ret
			if r.term != nil {
				r.term.Line = r.an.fset.Position(x.Pos()).Line
			} else {
				r.retLine = r.an.fset.Position(x.Pos()).Line
			}
		}
		return ctlReturn
	case *ast.BranchStmt:
		if x.Label != nil {
			r.bad("labelled branch")
		}
		switch x.Tok {
		case token.BREAK:
			return ctlBreak
		case token.CONTINUE:
			return ctlContinue
		}
		r.bad("branch %s not supported", x.Tok)
	case *ast.LabeledStmt:
		return r.stmt(fr, sc, x.Stmt)
	case *ast.IfStmt:
		isc := &Scope{vars: map[string]Val{}, parent: sc}
		if x.Init != nil {
			if c := r.stmt(fr, isc, x.Init); c != ctlNext {
				return c
			}
		}
		// an undetermined condition over branches that cannot matter is skipped altogether
		if x.Init == nil && r.an.inertNode(x.Body, fr) && (x.Else == nil || r.an.inertNode(x.Else, fr)) && r.undetermined(fr, isc, x.Cond) {
			r.havoc(isc, x.Body)
			if x.Else != nil {
				r.havoc(isc, x.Else)
			}
			return ctlNext
		}
		if r.cond(fr, isc, x.Cond) {
			return r.block(fr, &Scope{vars: map[string]Val{}, parent: isc}, x.Body.List)
		}
		if x.Else != nil {
			return r.stmt(fr, isc, x.Else)
		}
		return ctlNext
	case *ast.ForStmt, *ast.RangeStmt:
		lsc := &Scope{vars: map[string]Val{}, parent: sc}
		var body *ast.BlockStmt
		if f, ok := x.(*ast.ForStmt); ok {
			if f.Init != nil {
				r.stmt(fr, lsc, f.Init)
			}
			body = f.Body
		} else {
			rg := x.(*ast.RangeStmt)
			r.eval(fr, sc, rg.X)
			if rg.Key != nil {
				r.assign(fr, lsc, rg.Key, &Unknown{origin: "range"}, true)
			}
			if rg.Value != nil {
				r.assign(fr, lsc, rg.Value, &Unknown{origin: "range"}, true)
			}
			body = rg.Body
		}
		r.havoc(lsc, body)
		before := len(r.evs)
		nlive := len(r.live)
		c := r.block(fr, &Scope{vars: map[string]Val{}, parent: lsc}, body.List)
		for _, e := range r.evs[before:] {
			if e.Kind != "step" {
				r.bad("loop body with a resource event (%s %s) at line %d", e.Kind, e.Via, r.an.fset.Position(x.Pos()).Line)
			}
		}
		if len(r.live) != nlive {
			r.bad("loop body changes the live set")
		}
		if c == ctlReturn {
			return c
		}
		r.havoc(lsc, body)
		return ctlNext
	case *ast.SwitchStmt:
		ssc := &Scope{vars: map[string]Val{}, parent: sc}
		if x.Init != nil {
			r.stmt(fr, ssc, x.Init)
		}
		var tag Val
		if x.Tag != nil {
			tag = r.eval(fr, ssc, x.Tag)
		}
		var clauses []*ast.CaseClause
		def := -1
		for _, st := range x.Body.List {
			cc := st.(*ast.CaseClause)
			if cc.List == nil {
				def = len(clauses)
			}
			clauses = append(clauses, cc)
		}
		pick := -1
		decided := false
		if tag != nil {
			if _, unk := tag.(*Unknown); !unk {
				decided = true
				for i, cc := range clauses {
					for _, e := range cc.List {
						eq, known := r.equal(tag, r.eval(fr, ssc, e))
						if !known {
							decided = false
						}
						if known && eq && pick < 0 {
							pick = i
						}
					}
				}
				if decided && pick < 0 {
					pick = def
				}
			}
		}
		if !decided {
			n := len(clauses)
			if def < 0 {
				n++
			}
			pick = r.choose(n)
			if pick >= len(clauses) {
				pick = -1
			}
			if x.Tag == nil && pick >= 0 && clauses[pick].List != nil {
				// tagless switch: the chosen guard holds
			}
		}
		if pick < 0 {
			return ctlNext
		}
		for _, st := range clauses[pick].Body {
			if b, ok := st.(*ast.BranchStmt); ok && b.Tok == token.FALLTHROUGH {
				r.bad("fallthrough")
			}
		}
		c := r.block(fr, &Scope{vars: map[string]Val{}, parent: ssc}, clauses[pick].Body)
		if c == ctlBreak {
			return ctlNext
		}
		return c
	case *ast.TypeSwitchStmt:
		ssc := &Scope{vars: map[string]Val{}, parent: sc}
		var bind string
		var subject Val
		switch a := x.Assign.(type) {
		case *ast.AssignStmt:
			bind = a.Lhs[0].(*ast.Ident).Name
			subject = r.eval(fr, ssc, a.Rhs[0].(*ast.TypeAssertExpr).X)
		case *ast.ExprStmt:
			subject = r.eval(fr, ssc, a.X.(*ast.TypeAssertExpr).X)
		}
		n := len(x.Body.List)
		hasDef := false
		for _, st := range x.Body.List {
			if st.(*ast.CaseClause).List == nil {
				hasDef = true
			}
		}
		if !hasDef {
			n++
		}
		pick := r.choose(n)
		if pick >= len(x.Body.List) {
			return ctlNext
		}
		csc := &Scope{vars: map[string]Val{}, parent: ssc}
		if bind != "" {
			csc.vars[bind] = subject
		}
		c := r.block(fr, csc, x.Body.List[pick].(*ast.CaseClause).Body)
		if c == ctlBreak {
			return ctlNext
		}
		return c
	}
	r.bad("statement %T not supported (line %d)", s, r.an.fset.Position(s.Pos()).Line)
	return ctlNext
}

// undetermined: the abstract values do not decide the condition (evaluated without choices; conditions that call
// anything the table cares about are never skipped).
func (r *run) undetermined(fr *frame, sc *Scope, e ast.Expr) bool {
	if !r.an.inertNode(e, fr) {
		return false
	}
	_, known := r.peek(fr, sc, e)
	return !known
}

func (r *run) hasCall(e ast.Expr) bool {
	found := false
	ast.Inspect(e, func(x ast.Node) bool {
		if c, ok := x.(*ast.CallExpr); ok {
			t := r.an.str(c.Fun)
			if !(builtins[t] || convTypes[t]) {
				found = true
			}
		}
		return !found
	})
	return found
}

func (r *run) peek(fr *frame, sc *Scope, e ast.Expr) (val bool, known bool) {
	switch x := e.(type) {
	case *ast.ParenExpr:
		return r.peek(fr, sc, x.X)
	case *ast.UnaryExpr:
		if x.Op == token.NOT {
			v, k := r.peek(fr, sc, x.X)
			return !v, k
		}
	case *ast.BinaryExpr:
		switch x.Op {
		case token.LAND:
			a, ka := r.peek(fr, sc, x.X)
			if ka && !a {
				return false, true
			}
			b, kb := r.peek(fr, sc, x.Y)
			if kb && !b {
				return false, true
			}
			return a && b, ka && kb
		case token.LOR:
			a, ka := r.peek(fr, sc, x.X)
			if ka && a {
				return true, true
			}
			b, kb := r.peek(fr, sc, x.Y)
			if kb && b {
				return true, true
			}
			return a || b, ka && kb
		case token.EQL, token.NEQ:
			if r.hasCall(e) {
				return false, false
			}
			eq, known := r.equal(r.eval(fr, sc, x.X), r.eval(fr, sc, x.Y))
			if x.Op == token.NEQ {
				eq = !eq
			}
			return eq, known
		case token.LSS, token.GTR, token.LEQ, token.GEQ:
			if r.hasCall(e) {
				return false, false
			}
			ai, aok := asInt(r.eval(fr, sc, x.X))
			bi, bok := asInt(r.eval(fr, sc, x.Y))
			if !(aok && bok) {
				return false, false
			}
			switch x.Op {
			case token.LSS:
				return ai < bi, true
			case token.GTR:
				return ai > bi, true
			case token.LEQ:
				return ai <= bi, true
			default:
				return ai >= bi, true
			}
		}
	}
	if r.hasCall(e) {
		return false, false
	}
	if b, ok := r.eval(fr, sc, e).(vBool); ok {
		return b.b, true
	}
	return false, false
}

// ---- driver -------------------------------------------------------------------------------------------------------

func (an *analyzer) initRecv(d *DefSpec, r *run) *Struct {
	root := &Struct{fields: map[string]Val{}}
	ids := map[string]int{}
	keys := make([]string, 0, len(d.Init))
	for k := range d.Init {
		keys = append(keys, k)
	}
	sort.Strings(keys)
	// allocate resources in the order of their index
	type rs struct {
		name, class string
		idx         int
	}
	var all []rs
	for _, k := range keys {
		v := d.Init[k]
		if i := strings.Index(v, "#"); i > 0 {
			n, _ := strconv.Atoi(v[i+1:])
			all = append(all, rs{v, v[:i], n})
		}
	}
	sort.Slice(all, func(i, j int) bool { return all[i].idx < all[j].idx })
	for _, x := range all {
		if _, ok := ids[x.name]; !ok {
			id := r.newRes(x.class)
			ids[x.name] = id
			r.evs = append(r.evs, Event{Kind: "acquire", R: id, Class: x.class, Via: "owned at entry"})
		}
	}
	for _, k := range keys {
		v := d.Init[k]
		var val Val
		switch {
		case strings.Contains(v, "#"):
			val = vRes{ids[v]}
		case strings.HasPrefix(v, "int:"):
			n, _ := strconv.ParseInt(v[4:], 10, 64)
			val = vInt{n}
		case strings.HasPrefix(v, "bool:"):
			val = vBool{v[5:] == "true"}
		case strings.HasPrefix(v, "const:"):
			val = vConst{v[6:]}
		case v == "nil":
			val = vNil{}
		default:
			die("bad init value %q for %s", v, d.Key)
		}
		parts := strings.Split(k, ".")
		cur := root
		for _, p := range parts[:len(parts)-1] {
			nx, ok := cur.fields[p].(*Struct)
			if !ok {
				nx = &Struct{fields: map[string]Val{}}
				cur.fields[p] = nx
			}
			cur = nx
		}
		cur.fields[parts[len(parts)-1]] = val
	}
	return root
}

// enumerate all paths of `times` consecutive calls of d.
func (an *analyzer) enumerate(d *DefSpec, times int) (paths []Path, why string) {
	fd := an.decl(d)
	if fd == nil {
		return nil, fmt.Sprintf("function %s not found in %s", d.Func, d.File)
	}
	var oracle, arity []int
	seen := map[string]bool{}
	for iter := 0; ; iter++ {
		if iter > 60000 {
			return nil, "too many paths"
		}
		r := &run{an: an, oracle: append([]int{}, oracle...), arity: append([]int{}, arity...), live: map[int]bool{}}
		var p *Path
		func() {
			defer func() {
				if e := recover(); e != nil {
					if u, ok := e.(untrans); ok {
						why = u.why
						return
					}
					panic(e)
				}
			}()
			var recv Val
			if d.Recv != "" {
				recv = an.initRecv(d, r)
			}
			var ret []Val
			for k := 0; k < times; k++ {
				if k > 0 {
					r.evs = append(r.evs, Event{Kind: "mark", Via: "returned; called again"})
					r.term = nil
				}
				ret = r.invoke(d, fd.Type, fd.Body, fd.Recv, recv, nil, nil, nil, true)
			}
			if times > 1 {
				for _, fpath := range d.Finally {
					cur, _ := recv.(*Struct)
					for _, part := range strings.Split(fpath, ".") {
						if cur == nil {
							break
						}
						cur, _ = cur.fields[part].(*Struct)
					}
					if cur != nil {
						r.evs = append(r.evs, Event{Kind: "mark", Via: "then its owner closes " + fpath})
						if _, ok := r.stdClose(cur, fpath+".Close (owner)"); !ok {
							r.bad("finally: %s is not a standard-library closer", fpath)
						}
					}
				}
			}
			p = r.finish(d, fd, ret, recv)
		}()
		if why != "" {
			return nil, why
		}
		key := fmt.Sprintf("%v|%v|%v", p.Evs, p.Ok, p.Owned)
		if !seen[key] {
			seen[key] = true
			paths = append(paths, *p)
		}
		// next choice vector (odometer over the choices actually consumed)
		oracle, arity = r.oracle[:r.pos], r.arity[:r.pos]
		i := len(oracle) - 1
		for i >= 0 && oracle[i]+1 >= arity[i] {
			i--
		}
		if i < 0 {
			break
		}
		oracle = append([]int{}, oracle[:i+1]...)
		arity = append([]int{}, arity[:i+1]...)
		oracle[i]++
	}
	sort.SliceStable(paths, func(i, j int) bool { return paths[i].Line < paths[j].Line })
	return paths, ""
}

func (r *run) finish(d *DefSpec, fd *ast.FuncDecl, ret []Val, recv Val) *Path {
	if d.Callback != "" {
		if r.term == nil {
			r.bad("a path ends without invoking the completion callback %q", d.Callback)
		}
		if len(r.term.Owned) > 0 || true {
			// ownership is judged when the function is done, not when the callback ran
			r.term.Owned = r.keepLive(r.term.Owned)
		}
		r.term.Evs = r.evs
		if r.term.Line == 0 {
			r.term.Line = r.an.fset.Position(fd.End()).Line
		}
		return r.term
	}
	_, _, hasErr, _ := r.resultsOf(fd.Type)
	ok := true
	if hasErr && len(ret) > 0 {
		switch e := ret[len(ret)-1].(type) {
		case vNil:
		case vInt:
			ok = e.n == 0
		case *Unknown:
			ok = r.choose(2) == 0
			r.stepEvent(e, ok)
		default:
			ok = false
		}
	}
	roots := append([]Val{}, ret...)
	if recv != nil {
		roots = append(roots, recv)
	}
	line := r.retLine
	if line == 0 {
		line = r.an.fset.Position(fd.End()).Line
	}
	return &Path{Evs: r.evs, Ok: ok, Owned: r.liveHeld(roots...), Line: line}
}

func (r *run) keepLive(ids []int) []int {
	var out []int
	for _, id := range ids {
		if r.live[id] {
			out = append(out, id)
		}
	}
	return out
}

func (an *analyzer) analyze(d *DefSpec) *Result {
	if res, ok := an.results[d.Key]; ok {
		return res
	}
	res := &Result{def: d, index: -1}
	if i, ok := an.ctorIdx[d.Key]; ok {
		res.index = i
	}
	if an.busy[d.Key] {
		res.untrans = "recursive"
		return res
	}
	an.busy[d.Key] = true
	if fd := an.decl(d); fd != nil {
		res.line = an.fset.Position(fd.Pos()).Line
	}
	res.paths, res.untrans = an.enumerate(d, 1)
	an.busy[d.Key] = false
	an.results[d.Key] = res
	return res
}

// ---- Lean output --------------------------------------------------------------------------------------------------------

func leanStr(s string) string {
	return strconv.Quote(s)
}

func leanNats(l []int) string {
	parts := make([]string, len(l))
	for i, x := range l {
		parts[i] = strconv.Itoa(x)
	}
	return "[" + strings.Join(parts, ", ") + "]"
}

func leanEv(e Event) string {
	switch e.Kind {
	case "acquire":
		return fmt.Sprintf(".acquire %d .%s %s", e.R, e.Class, leanStr(e.Via))
	case "call":
		parts := make([]string, len(e.Rs))
		for i := range e.Rs {
			parts[i] = fmt.Sprintf("(%d, .%s)", e.Rs[i], e.RsCls[i])
		}
		return fmt.Sprintf(".call %d %s [%s]", e.Callee, leanStr(e.Via), strings.Join(parts, ", "))
	case "release":
		return fmt.Sprintf(".release %d %s", e.R, leanStr(e.Via))
	case "releaseInvalid":
		return fmt.Sprintf(".releaseInvalid %s", leanStr(e.Via))
	case "step":
		return fmt.Sprintf(".step %s %v", leanStr(e.Via), e.Ok)
	case "mark":
		return fmt.Sprintf(".mark %s", leanStr(e.Via))
	}
	return "?"
}

func writeFuncs(b *strings.Builder, name, doc string, rs []*Result, pathsOf func(*Result) []Path) {
	var names []string
	for i, res := range rs {
		id := fmt.Sprintf("%s_%d", name, i)
		names = append(names, id)
		fmt.Fprintf(b, "def %s : Func :=\n  { name := %s, file := %s, line := %d, paths := [\n", id, leanStr(res.def.Key), leanStr(res.def.File), res.line)
		ps := pathsOf(res)
		for j, p := range ps {
			evs := make([]string, len(p.Evs))
			for k, e := range p.Evs {
				evs[k] = leanEv(e)
			}
			term := ".fail"
			if p.Ok {
				term = ".ok"
			}
			sep := ","
			if j == len(ps)-1 {
				sep = ""
			}
			fmt.Fprintf(b, "    { evs := [%s], term := %s %s, line := %d }%s\n", strings.Join(evs, ", "), term, leanNats(p.Owned), p.Line, sep)
		}
		fmt.Fprintf(b, "  ] }\n\n")
	}
	fmt.Fprintf(b, "/-- %s -/\ndef %s : List Func := [%s]\n\n", doc, name, strings.Join(names, ", "))
}

func main() {
	if len(os.Args) < 4 {
		die("usage: respaths <config.json> <repo root> <out dir> [-dump]")
	}
	raw, err := os.ReadFile(os.Args[1])
	if err != nil {
		die("%v", err)
	}
	var cfg Config
	if err := json.Unmarshal(raw, &cfg); err != nil {
		die("config: %v", err)
	}
	an := &analyzer{cfg: &cfg, root: os.Args[2], fset: token.NewFileSet(), files: map[string]*ast.File{}, defs: map[string]*DefSpec{},
		results: map[string]*Result{}, busy: map[string]bool{}, ctorIdx: map[string]int{}}
	for i := range cfg.Constructors {
		an.defs[cfg.Constructors[i].Key] = &cfg.Constructors[i]
		an.ctorIdx[cfg.Constructors[i].Key] = i
	}
	for i := range cfg.Closes {
		an.defs[cfg.Closes[i].Key] = &cfg.Closes[i]
	}
	for i := range cfg.Defs {
		an.defs[cfg.Defs[i].Key] = &cfg.Defs[i]
	}
	var ctors, closes []*Result
	twice := map[string][]Path{}
	type ut struct{ name, why string }
	var untr []ut
	for i := range cfg.Constructors {
		res := an.analyze(&cfg.Constructors[i])
		ctors = append(ctors, res)
		if res.untrans != "" {
			untr = append(untr, ut{res.def.Key, res.untrans})
		}
	}
	for i := range cfg.Closes {
		d := &cfg.Closes[i]
		res := &Result{def: d, index: -1}
		if fd := an.decl(d); fd != nil {
			res.line = an.fset.Position(fd.Pos()).Line
		}
		res.paths, res.untrans = an.enumerate(d, 1)
		if res.untrans == "" {
			twice[d.Key], res.untrans = an.enumerate(d, 2)
		}
		if res.untrans != "" {
			untr = append(untr, ut{d.Key, res.untrans})
			res.paths = nil
			twice[d.Key] = nil
		}
		closes = append(closes, res)
	}

	var b strings.Builder
	b.WriteString("-- GENERATED by tools/respaths from the Go sources. Do not edit; regenerated on every run.\n")
	b.WriteString("import Sonic.Model.ResPath\n\nnamespace Sonic.Gen.Resources\nopen Sonic.Model.ResPath\n\n")
	writeFuncs(&b, "constructors", "Every control-flow path of every configured constructor / connect / accept / handshake function.", ctors,
		func(r *Result) []Path { return r.paths })
	writeFuncs(&b, "closeOnce", "Every path of one call of every configured Close method, entered owning its resources.", closes,
		func(r *Result) []Path { return r.paths })
	writeFuncs(&b, "closeTwice", "Every path of two consecutive calls of every configured Close method on the same object.", closes,
		func(r *Result) []Path { return twice[r.def.Key] })
	b.WriteString("/-- Functions the extractor could not handle (name, reason): they need a hand-written step list. -/\n")
	b.WriteString("def untranslatable : List (String × String) := [")
	for i, u := range untr {
		if i > 0 {
			b.WriteString(", ")
		}
		fmt.Fprintf(&b, "(%s, %s)", leanStr(u.name), leanStr(u.why))
	}
	b.WriteString("]\n\n")
	var cfgNames []string
	for _, r := range ctors {
		cfgNames = append(cfgNames, leanStr(r.def.Key))
	}
	for _, r := range closes {
		cfgNames = append(cfgNames, leanStr(r.def.Key))
	}
	fmt.Fprintf(&b, "/-- Everything the configuration asked for. -/\ndef configured : List String := [%s]\n\n", strings.Join(cfgNames, ", "))
	b.WriteString("end Sonic.Gen.Resources\n")

	out := filepath.Join(os.Args[3], "Resources.lean")
	if err := os.MkdirAll(os.Args[3], 0o755); err != nil {
		die("%v", err)
	}
	old, _ := os.ReadFile(out)
	if string(old) != b.String() {
		if err := os.WriteFile(out, []byte(b.String()), 0o644); err != nil {
			die("%v", err)
		}
	}
	if len(os.Args) > 4 && os.Args[4] == "-dump" {
		dump := func(title string, rs []*Result, pathsOf func(*Result) []Path) {
			fmt.Printf("== %s\n", title)
			for _, res := range rs {
				fmt.Printf("%s (%s:%d)", res.def.Key, res.def.File, res.line)
				if res.untrans != "" {
					fmt.Printf("  UNTRANSLATABLE: %s", res.untrans)
				}
				fmt.Println()
				for _, p := range pathsOf(res) {
					var evs []string
					for _, e := range p.Evs {
						evs = append(evs, leanEv(e))
					}
					term := "FAIL handed"
					if p.Ok {
						term = "OK owned"
					}
					fmt.Printf("   line %d: %s => %s %v\n", p.Line, strings.Join(evs, "; "), term, p.Owned)
				}
			}
		}
		dump("constructors", ctors, func(r *Result) []Path { return r.paths })
		dump("closeOnce", closes, func(r *Result) []Path { return r.paths })
		dump("closeTwice", closes, func(r *Result) []Path { return twice[r.def.Key] })
	}
	for _, u := range untr {
		fmt.Fprintf(os.Stderr, "respaths: untranslatable: %s: %s\n", u.name, u.why)
	}
}
