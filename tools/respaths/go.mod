module respaths

go 1.24.1
