// go2lean: a deliberately tiny translator from first-order integer Go code to Lean 4 definitions.
//
// It is driven by a spec file (JSON, see /verif/tools/go2lean/spec.json) that names, per output
// module, the Go source file, the receiver type, the integer/bool fields kept in the Lean
// structure, how slice-typed fields are viewed (`len(x.f)` as an integer expression over the kept
// fields) and the methods / functions to translate. Everything else in the file is ignored.
//
// Supported statements: `x := e`, `var x T`, `x = e`, `x op= e`, `recv.f = e`, `recv.f op= e`,
// `if [init;] c {..} [else ..]`, `return ..`, expression statements that call a sibling method,
// `for cond {..}` (translated to a fuel loop).  Supported expressions: identifiers, integer
// literals, + - * / % & | << >> comparisons && || ! unary minus, parentheses, `recv.f`,
// `recv.M(args)`, `len(recv.f)`, slice expressions over a viewed field or a local slice value.
// Statements are translated by continuation: `if c {A}; rest` becomes
// `if c then [[A; rest]] else [[rest]]`.
//
// Byte slices, fixed-width unsigned integers, panics and typed constants are handled by a second translator in wsfext.go
// (modules whose spec entry has a `sources` list); pointer parameters, bit types and oracles by polext.go.
//
// Anything outside this subset makes the tool exit non-zero with "untranslatable: ...", which the
// orchestrator reports as a broken obligation (never skipped).
package main

import (
	"encoding/json"
	"fmt"
	"go/ast"
	"go/parser"
	"go/token"
	"os"
	"path/filepath"
	"sort"
	"strconv"
	"strings"
)

type FieldSpec struct {
	Name string `json:"name"`
	Type string `json:"type"` // Int | Bool
}

type ViewSpec struct {
	Field string `json:"field"` // Go field holding a []byte
	Len   string `json:"len"`   // Lean expression over the receiver variable `self` giving len(field)
}

type ModuleSpec struct {
	Module   string      `json:"module"`   // Lean module name below Sonic.Gen, e.g. "BipBuffer"
	File     string      `json:"file"`     // path relative to the repo root
	Type     string      `json:"type"`     // Go receiver type ("" for plain functions)
	Fields   []FieldSpec `json:"fields"`   // kept fields
	Ghost    []FieldSpec `json:"ghost"`    // extra Lean-only fields (e.g. size = len(data))
	Views    []ViewSpec  `json:"views"`    // slice fields viewed through their length
	Methods  []string    `json:"methods"`  // methods / functions to translate, in dependency order
	Structs  []string    `json:"structs"`  // additional plain structs (all fields int) to emit
	ConstPkg []string    `json:"consts"`   // files whose integer constants are emitted (Consts module)
	ConstSel []string    `json:"constsel"` // names to keep (empty = all evaluable)

	// Extensions used by the Poller module (see polext.go).
	BitTypes  []string          `json:"bittypes"`  // named unsigned integer types translated to `BitVec w` (w read from the declaration)
	BitConsts []string          `json:"bitconsts"` // constants of those types to emit (values evaluated from the source)
	PtrParams []PolPtrParamSpec `json:"ptrparams"` // pointer parameters whose kept fields are part of the threaded state
	Externs   []string          `json:"externs"`   // receiver methods that are NOT translated: each call takes its result from the oracle
	Opaque    []string          `json:"opaque"`    // plain functions f(x, ...) represented by their first argument (only inside extern arguments)
	Isolated  bool              `json:"isolated"`  // an untranslatable construct makes THIS module's file a non-compiling stub instead of failing the whole run

	// Byte-slice / fixed-width code (see wsfext.go): when present, the module is translated by wsfGenModule.
	Sources []WsfSourceSpec `json:"sources"`
}

type Spec struct {
	Modules []ModuleSpec `json:"modules"`
	Access  []AccessSpec `json:"access"`
}

func die(format string, a ...any) {
	if polIsolating {
		panic(polFailure{fmt.Sprintf(format, a...)})
	}
	fmt.Fprintf(os.Stderr, "go2lean: "+format+"\n", a...)
	os.Exit(2)
}

type tr struct {
	fset    *token.FileSet
	ms      ModuleSpec
	recv    string            // receiver variable name in the method being translated
	mut     map[string]bool   // method name -> mutates receiver
	rets    map[string]string // method name -> Lean return type ("" = Unit)
	isFn    map[string]bool   // plain functions (no receiver)
	kinds   map[string]string // local variable -> kind ("int","bool","view","struct:<T>")
	curMut  bool
	curRet  string
	named   []string // named results
	structs map[string][]string
	pol     *polState // nil unless the module uses the extensions of polext.go
}

func (t *tr) pos(n ast.Node) string { return t.fset.Position(n.Pos()).String() }

func (t *tr) untr(n ast.Node, what string) {
	die("untranslatable: %s at %s", what, t.pos(n))
}

func leanType(e ast.Expr) string {
	switch x := e.(type) {
	case *ast.Ident:
		switch x.Name {
		case "int", "int64", "uint64", "uint32", "uint16", "byte", "uint8", "int32":
			return "Int"
		case "bool":
			return "Bool"
		default:
			return x.Name
		}
	case *ast.ArrayType:
		return "Go.View"
	}
	return "?"
}

// ---- expressions -------------------------------------------------------------------------

// prop translates a Go boolean expression to a Lean Prop (decidable).
func (t *tr) prop(e ast.Expr) string {
	switch x := e.(type) {
	case *ast.ParenExpr:
		return "(" + t.prop(x.X) + ")"
	case *ast.UnaryExpr:
		if x.Op == token.NOT {
			return "(¬ " + t.prop(x.X) + ")"
		}
	case *ast.BinaryExpr:
		switch x.Op {
		case token.LAND:
			return "(" + t.prop(x.X) + " ∧ " + t.prop(x.Y) + ")"
		case token.LOR:
			return "(" + t.prop(x.X) + " ∨ " + t.prop(x.Y) + ")"
		case token.LSS, token.LEQ, token.GTR, token.GEQ:
			return "(" + t.expr(x.X) + " " + x.Op.String() + " " + t.expr(x.Y) + ")"
		case token.EQL:
			return "(" + t.expr(x.X) + " = " + t.expr(x.Y) + ")"
		case token.NEQ:
			return "(" + t.expr(x.X) + " ≠ " + t.expr(x.Y) + ")"
		}
	}
	// boolean-valued call / identifier
	return "(" + t.expr(e) + " = true)"
}

func (t *tr) isBoolExpr(e ast.Expr) bool {
	switch x := e.(type) {
	case *ast.ParenExpr:
		return t.isBoolExpr(x.X)
	case *ast.UnaryExpr:
		return x.Op == token.NOT
	case *ast.BinaryExpr:
		switch x.Op {
		case token.LAND, token.LOR, token.LSS, token.LEQ, token.GTR, token.GEQ, token.EQL, token.NEQ:
			return true
		}
	case *ast.Ident:
		return x.Name == "true" || x.Name == "false" || t.kinds[x.Name] == "bool"
	case *ast.CallExpr:
		if sel, ok := x.Fun.(*ast.SelectorExpr); ok {
			return t.rets[sel.Sel.Name] == "Bool"
		}
	}
	return false
}

func (t *tr) expr(e ast.Expr) string {
	switch x := e.(type) {
	case *ast.BasicLit:
		if x.Kind == token.INT {
			v, err := strconv.ParseInt(x.Value, 0, 64)
			if err != nil {
				t.untr(x, "integer literal "+x.Value)
			}
			return fmt.Sprintf("%d", v)
		}
	case *ast.Ident:
		switch x.Name {
		case "true", "false":
			return x.Name
		case "nil":
			if t.pol != nil {
				return "Go.Error.nil"
			}
			return "Go.View.nil"
		}
		if x.Name == t.recv {
			return "self"
		}
		return lname(x.Name)
	case *ast.ParenExpr:
		return "(" + t.expr(x.X) + ")"
	case *ast.StarExpr:
		if f, ok := t.polField(x); ok {
			return "self." + f
		}
	case *ast.UnaryExpr:
		switch x.Op {
		case token.SUB:
			if lit, ok := x.X.(*ast.BasicLit); ok && lit.Kind == token.INT && t.pol != nil {
				return "(-" + t.expr(x.X) + ")"
			}
			return "(Go.neg " + t.expr(x.X) + ")"
		case token.NOT:
			return "(decide " + t.prop(e) + ")"
		}
	case *ast.BinaryExpr:
		if t.isBoolExpr(e) {
			return "(decide " + t.prop(e) + ")"
		}
		if t.polIsBits(x.X) || t.polIsBits(x.Y) {
			if v, ok := polBitOp(x.Op, t.expr(x.X), t.expr(x.Y)); ok {
				return v
			}
			t.untr(x, "binary operator "+x.Op.String()+" on a bit value")
		}
		op := map[token.Token]string{
			token.ADD: "Go.add", token.SUB: "Go.sub", token.MUL: "Go.mul", token.QUO: "Go.div",
			token.REM: "Go.mod", token.AND: "Go.land", token.OR: "Go.lor", token.SHL: "Go.shl", token.SHR: "Go.shr",
		}[x.Op]
		if op == "" {
			t.untr(x, "binary operator "+x.Op.String())
		}
		return "(" + op + " " + t.expr(x.X) + " " + t.expr(x.Y) + ")"
	case *ast.SelectorExpr:
		if id, ok := x.X.(*ast.Ident); ok {
			if t.pol != nil && t.kinds[id.Name] == "ptr" {
				if f, ok := t.polField(x); ok {
					return "self." + f
				}
			}
			if id.Name == t.recv {
				for _, f := range t.ms.Fields {
					if f.Name == x.Sel.Name {
						return "self." + lname(f.Name)
					}
				}
				t.untr(x, "receiver field "+x.Sel.Name+" is not in the kept field list")
			}
			if k := t.kinds[id.Name]; strings.HasPrefix(k, "struct:") {
				return lname(id.Name) + "." + lname(x.Sel.Name)
			}
		}
	case *ast.CallExpr:
		return t.call(x)
	case *ast.SliceExpr:
		return t.sliceExpr(x)
	case *ast.CompositeLit:
		if id, ok := x.Type.(*ast.Ident); ok {
			if _, ok := t.structs[id.Name]; ok {
				parts := []string{}
				for _, el := range x.Elts {
					kv, ok := el.(*ast.KeyValueExpr)
					if !ok {
						t.untr(x, "positional composite literal")
					}
					parts = append(parts, lname(kv.Key.(*ast.Ident).Name)+" := "+t.expr(kv.Value))
				}
				return "({ " + strings.Join(parts, ", ") + " } : " + id.Name + ")"
			}
		}
	}
	t.untr(e, fmt.Sprintf("expression %T", e))
	return ""
}

func (t *tr) viewOf(e ast.Expr) (string, bool) {
	// recv.field where field is a viewed slice
	if sel, ok := e.(*ast.SelectorExpr); ok {
		if id, ok := sel.X.(*ast.Ident); ok && id.Name == t.recv {
			for _, v := range t.ms.Views {
				if v.Field == sel.Sel.Name {
					return "(Go.View.whole (" + v.Len + "))", true
				}
			}
		}
	}
	if id, ok := e.(*ast.Ident); ok && t.kinds[id.Name] == "view" {
		return lname(id.Name), true
	}
	return "", false
}

func (t *tr) sliceExpr(x *ast.SliceExpr) string {
	base, ok := t.viewOf(x.X)
	if !ok {
		t.untr(x, "slice of something that is not a viewed field or local slice")
	}
	if x.Slice3 {
		t.untr(x, "3-index slice")
	}
	lo, hi := "none", "none"
	if x.Low != nil {
		lo = "(some " + t.expr(x.Low) + ")"
	}
	if x.High != nil {
		hi = "(some " + t.expr(x.High) + ")"
	}
	return "(Go.View.slice " + base + " " + lo + " " + hi + ")"
}

func (t *tr) call(x *ast.CallExpr) string {
	switch f := x.Fun.(type) {
	case *ast.Ident:
		if f.Name == "len" && len(x.Args) == 1 {
			if sel, ok := x.Args[0].(*ast.SelectorExpr); ok {
				if id, ok := sel.X.(*ast.Ident); ok && id.Name == t.recv {
					for _, v := range t.ms.Views {
						if v.Field == sel.Sel.Name {
							return "(" + v.Len + ")"
						}
					}
				}
			}
			if v, ok := t.viewOf(x.Args[0]); ok {
				return "(Go.View.len " + v + ")"
			}
		}
		if t.isFn[f.Name] {
			args := []string{}
			for _, a := range x.Args {
				args = append(args, t.expr(a))
			}
			return "(" + f.Name + " " + strings.Join(args, " ") + ")"
		}
		if f.Name == "int" && len(x.Args) == 1 {
			return t.expr(x.Args[0])
		}
	case *ast.SelectorExpr:
		if id, ok := f.X.(*ast.Ident); ok && id.Name == t.recv {
			m := f.Sel.Name
			if _, known := t.mut[m]; !known {
				t.untr(x, "call of method "+m+" which is not in the translated list (or is listed later)")
			}
			if t.mut[m] {
				t.untr(x, "mutating method "+m+" used inside an expression")
			}
			args := t.polSiblingArgs(x, m)
			return "(" + t.ms.Type + "." + m + " " + strings.Join(args, " ") + ")"
		}
	}
	t.untr(x, "call")
	return ""
}

func lname(s string) string {
	switch s {
	case "end", "at", "from", "to", "open", "in", "do", "then", "else", "fun", "let", "have", "show", "with", "match", "where", "by", "local", "prefix", "instance", "structure", "def", "theorem":
		return s + "'"
	}
	return s
}

// ---- statements ----------------------------------------------------------------------------

// ret builds the Lean value returned by the current function from the Go results.
func (t *tr) ret(results []string) string {
	var v string
	switch len(results) {
	case 0:
		v = "()"
	case 1:
		v = results[0]
	default:
		v = "(" + strings.Join(results, ", ") + ")"
	}
	if t.curMut {
		if t.curRet == "" {
			return "self"
		}
		return "(self, " + v + ")"
	}
	return v
}

func (t *tr) block(stmts []ast.Stmt, rest func(ind string) string, ind string) string {
	if len(stmts) == 0 {
		return rest(ind)
	}
	s := stmts[0]
	kk := func(ind string) string { return t.block(stmts[1:], rest, ind) }
	k := func() string { return kk(ind) }
	switch x := s.(type) {
	case *ast.EmptyStmt:
		return k()
	case *ast.DeclStmt:
		gd, ok := x.Decl.(*ast.GenDecl)
		if !ok || gd.Tok != token.VAR {
			t.untr(x, "declaration")
		}
		out := ""
		for _, sp := range gd.Specs {
			vs := sp.(*ast.ValueSpec)
			for i, n := range vs.Names {
				val := "0"
				kind := "int"
				if vs.Type != nil {
					switch ty := t.ltype(vs.Type); {
					case ty == "Bool":
						val, kind = "false", "bool"
					case ty == "Go.View":
						val, kind = "Go.View.nil", "view"
					case ty == "Go.Error":
						val, kind = "Go.Error.nil", "err"
					case strings.HasPrefix(ty, "BitVec "):
						val, kind = "0", "bits"
					}
				}
				if i < len(vs.Values) {
					val = t.expr(vs.Values[i])
					if t.isBoolExpr(vs.Values[i]) {
						kind = "bool"
					}
				}
				t.kinds[n.Name] = kind
				out += ind + "let " + lname(n.Name) + " := " + val + "\n"
			}
		}
		return out + k()
	case *ast.AssignStmt:
		if out, ok := t.polAssign(x, ind, k); ok {
			return out
		}
		if len(x.Lhs) != 1 || len(x.Rhs) != 1 {
			t.untr(x, "multi-assignment")
		}
		rhs := x.Rhs[0]
		val := t.expr(rhs)
		compound := map[token.Token]string{
			token.ADD_ASSIGN: "Go.add", token.SUB_ASSIGN: "Go.sub", token.MUL_ASSIGN: "Go.mul",
			token.AND_ASSIGN: "Go.land", token.OR_ASSIGN: "Go.lor", token.REM_ASSIGN: "Go.mod",
		}
		switch l := x.Lhs[0].(type) {
		case *ast.Ident:
			if op, ok := compound[x.Tok]; ok {
				val = "(" + op + " " + lname(l.Name) + " " + val + ")"
			} else if x.Tok == token.DEFINE {
				kind := "int"
				if t.isBoolExpr(rhs) {
					kind = "bool"
				} else if _, ok := rhs.(*ast.SliceExpr); ok {
					kind = "view"
				} else if cl, ok := rhs.(*ast.CompositeLit); ok {
					kind = "struct:" + cl.Type.(*ast.Ident).Name
				}
				t.kinds[l.Name] = kind
			} else if x.Tok != token.ASSIGN {
				t.untr(x, "assignment operator "+x.Tok.String())
			}
			return ind + "let " + lname(l.Name) + " := " + val + "\n" + k()
		case *ast.SelectorExpr:
			id, ok := l.X.(*ast.Ident)
			if !ok || id.Name != t.recv {
				t.untr(x, "assignment to a field of something other than the receiver")
			}
			cur := t.expr(l)
			if op, ok := compound[x.Tok]; ok {
				val = "(" + op + " " + cur + " " + val + ")"
			} else if x.Tok != token.ASSIGN {
				t.untr(x, "assignment operator "+x.Tok.String())
			}
			return ind + "let self := { self with " + lname(l.Sel.Name) + " := " + val + " }\n" + k()
		}
		t.untr(x, "assignment target")
	case *ast.IncDecStmt:
		op := "Go.add"
		if x.Tok == token.DEC {
			op = "Go.sub"
		}
		switch l := x.X.(type) {
		case *ast.Ident:
			return ind + "let " + lname(l.Name) + " := (" + op + " " + lname(l.Name) + " 1)\n" + k()
		case *ast.SelectorExpr:
			return ind + "let self := { self with " + lname(l.Sel.Name) + " := (" + op + " " + t.expr(l) + " 1) }\n" + k()
		}
		t.untr(x, "inc/dec target")
	case *ast.ExprStmt:
		if out, ok := t.polExprStmt(x, ind, k); ok {
			return out
		}
		call, ok := x.X.(*ast.CallExpr)
		if !ok {
			t.untr(x, "expression statement")
		}
		sel, ok := call.Fun.(*ast.SelectorExpr)
		if !ok {
			t.untr(x, "expression statement call")
		}
		id, ok := sel.X.(*ast.Ident)
		if !ok || id.Name != t.recv {
			t.untr(x, "call on something other than the receiver")
		}
		m := sel.Sel.Name
		if _, known := t.mut[m]; !known {
			t.untr(x, "call of method "+m+" which is not in the translated list (or is listed later)")
		}
		if !t.mut[m] {
			return k() // pure call whose value is dropped
		}
		args := t.polSiblingArgs(call, m)
		c := "(" + t.ms.Type + "." + m + " " + strings.Join(args, " ") + ")"
		if t.rets[m] == "" {
			return ind + "let self := " + c + "\n" + k()
		}
		return ind + "let self := " + c + ".1\n" + k()
	case *ast.IfStmt:
		out := ""
		if x.Init != nil {
			// translate the init statement, then the if, inside the same continuation
			return t.block([]ast.Stmt{x.Init}, func(ind string) string {
				y := *x
				y.Init = nil
				return t.block([]ast.Stmt{&y}, kk, ind)
			}, ind)
		}
		saved := copyKinds(t.kinds)
		out += ind + "if " + t.prop(x.Cond) + " then\n"
		out += t.block(x.Body.List, kk, ind+"  ")
		t.kinds = copyKinds(saved)
		out += ind + "else\n"
		switch e := x.Else.(type) {
		case nil:
			out += t.block(nil, kk, ind+"  ")
		case *ast.BlockStmt:
			out += t.block(e.List, kk, ind+"  ")
		case *ast.IfStmt:
			out += t.block([]ast.Stmt{e}, kk, ind+"  ")
		}
		t.kinds = saved
		return out
	case *ast.ReturnStmt:
		if out, ok := t.polReturn(x, ind); ok {
			return out
		}
		res := []string{}
		if len(x.Results) == 0 {
			for _, n := range t.named {
				res = append(res, lname(n))
			}
		}
		for _, r := range x.Results {
			res = append(res, t.expr(r))
		}
		return ind + t.ret(res) + "\n"
	case *ast.BlockStmt:
		return t.block(x.List, kk, ind)
	}
	t.untr(s, fmt.Sprintf("statement %T", s))
	return ""
}

func copyKinds(m map[string]string) map[string]string {
	c := map[string]string{}
	for k, v := range m {
		c[k] = v
	}
	return c
}

// mutates reports whether the function body assigns to a receiver field or calls a mutating sibling.
func (t *tr) mutates(fd *ast.FuncDecl, recv string) bool {
	if t.pol != nil && t.polMutates(fd) {
		return true
	}
	found := false
	ast.Inspect(fd.Body, func(n ast.Node) bool {
		switch x := n.(type) {
		case *ast.AssignStmt:
			for _, l := range x.Lhs {
				if sel, ok := l.(*ast.SelectorExpr); ok {
					if id, ok := sel.X.(*ast.Ident); ok && id.Name == recv {
						found = true
					}
				}
			}
		case *ast.IncDecStmt:
			if sel, ok := x.X.(*ast.SelectorExpr); ok {
				if id, ok := sel.X.(*ast.Ident); ok && id.Name == recv {
					found = true
				}
			}
		case *ast.CallExpr:
			if sel, ok := x.Fun.(*ast.SelectorExpr); ok {
				if id, ok := sel.X.(*ast.Ident); ok && id.Name == recv && t.mut[sel.Sel.Name] {
					found = true
				}
			}
		}
		return true
	})
	return found
}

func (t *tr) fn(fd *ast.FuncDecl) string {
	t.kinds = map[string]string{}
	t.recv = ""
	isMethod := fd.Recv != nil && len(fd.Recv.List) == 1
	if isMethod && len(fd.Recv.List[0].Names) == 1 {
		t.recv = fd.Recv.List[0].Names[0].Name
	}
	name := fd.Name.Name
	params := []string{}
	if isMethod {
		params = append(params, "(self : "+t.ms.Type+")")
	}
	pidx := 0
	if t.pol != nil {
		t.pol.alias = map[string]*ast.SelectorExpr{}
		t.pol.ptrIdx[name] = nil
	}
	for _, p := range fd.Type.Params.List {
		ty := t.ltype(p.Type)
		for _, n := range p.Names {
			pidx++
			if t.polIsPtrParam(n.Name, p.Type) {
				t.kinds[n.Name] = "ptr"
				t.pol.ptrIdx[name] = append(t.pol.ptrIdx[name], pidx-1)
				continue
			}
			params = append(params, "("+lname(n.Name)+" : "+ty+")")
			switch {
			case strings.HasPrefix(ty, "BitVec "):
				t.kinds[n.Name] = "bits"
			case ty == "Go.Error":
				t.kinds[n.Name] = "err"
			case ty == "Bool":
				t.kinds[n.Name] = "bool"
			case ty == "Go.View":
				t.kinds[n.Name] = "view"
			case ty == "Int":
				t.kinds[n.Name] = "int"
			default:
				t.kinds[n.Name] = "struct:" + ty
			}
		}
	}
	rts := []string{}
	t.named = nil
	if fd.Type.Results != nil {
		for _, r := range fd.Type.Results.List {
			ty := t.ltype(r.Type)
			if len(r.Names) == 0 {
				rts = append(rts, ty)
			}
			for _, n := range r.Names {
				rts = append(rts, ty)
				t.named = append(t.named, n.Name)
			}
		}
	}
	ret := strings.Join(rts, " × ")
	if t.pol != nil {
		t.pol.nparams[name] = pidx
	}
	t.curMut = isMethod && t.mutates(fd, t.recv)
	t.curRet = ret
	t.mut[name] = t.curMut
	t.rets[name] = ret
	full := ret
	if t.curMut {
		if ret == "" {
			full = t.ms.Type
		} else {
			full = t.ms.Type + " × " + wrapProd(ret)
		}
	} else if ret == "" {
		full = "Unit"
	}
	qual := name
	if isMethod {
		qual = t.ms.Type + "." + name
	}
	out := fmt.Sprintf("/-- Translated from `%s` (%s). -/\n", name, filepath.Base(t.ms.File))
	out += "def " + qual + " " + strings.Join(params, " ") + " : " + full + " :=\n"
	pre := ""
	for _, n := range t.named {
		pre += "  let " + lname(n) + " := 0\n"
		t.kinds[n] = "int"
	}
	body := t.block(fd.Body.List, func(ind string) string {
		// falling off the end: return named results / unit
		res := []string{}
		for _, n := range t.named {
			res = append(res, lname(n))
		}
		return ind + t.ret(res) + "\n"
	}, "  ")
	return out + pre + body + "\n"
}

func wrapProd(s string) string {
	if strings.Contains(s, "×") {
		return "(" + s + ")"
	}
	return s
}

// ---- constants -----------------------------------------------------------------------------

func evalConst(e ast.Expr, env map[string]int64, iota int64) (int64, bool) {
	switch x := e.(type) {
	case *ast.BasicLit:
		if x.Kind == token.INT {
			v, err := strconv.ParseInt(x.Value, 0, 64)
			return v, err == nil
		}
		if x.Kind == token.CHAR {
			s, err := strconv.Unquote(x.Value)
			if err == nil && len(s) == 1 {
				return int64(s[0]), true
			}
		}
	case *ast.Ident:
		if x.Name == "iota" {
			return iota, true
		}
		v, ok := env[x.Name]
		return v, ok
	case *ast.SelectorExpr:
		if id, ok := x.X.(*ast.Ident); ok && id.Name == "syscall" {
			v, ok := polSyscallConsts[x.Sel.Name]
			return v, ok
		}
	case *ast.ParenExpr:
		return evalConst(x.X, env, iota)
	case *ast.CallExpr: // conversions byte(..), Opcode(..), uint16(..)
		if len(x.Args) == 1 {
			if _, ok := x.Fun.(*ast.Ident); ok {
				return evalConst(x.Args[0], env, iota)
			}
		}
	case *ast.UnaryExpr:
		v, ok := evalConst(x.X, env, iota)
		if ok && x.Op == token.SUB {
			return -v, true
		}
	case *ast.BinaryExpr:
		a, ok1 := evalConst(x.X, env, iota)
		b, ok2 := evalConst(x.Y, env, iota)
		if !ok1 || !ok2 {
			return 0, false
		}
		switch x.Op {
		case token.ADD:
			return a + b, true
		case token.SUB:
			return a - b, true
		case token.MUL:
			return a * b, true
		case token.SHL:
			return a << uint(b), true
		case token.SHR:
			return a >> uint(b), true
		case token.OR:
			return a | b, true
		case token.AND:
			return a & b, true
		case token.QUO:
			if b != 0 {
				return a / b, true
			}
		}
	}
	return 0, false
}

func constsOf(fset *token.FileSet, path string, env map[string]int64, order *[]string) {
	f, err := parser.ParseFile(fset, path, nil, 0)
	if err != nil {
		die("parse %s: %v", path, err)
	}
	for _, d := range f.Decls {
		gd, ok := d.(*ast.GenDecl)
		if !ok || gd.Tok != token.CONST {
			continue
		}
		var last []ast.Expr
		for i, sp := range gd.Specs {
			vs := sp.(*ast.ValueSpec)
			vals := vs.Values
			if len(vals) == 0 {
				vals = last
			} else {
				last = vals
			}
			for j, n := range vs.Names {
				if j >= len(vals) || n.Name == "_" {
					continue
				}
				if v, ok := evalConst(vals[j], env, int64(i)); ok {
					if _, dup := env[n.Name]; !dup {
						*order = append(*order, n.Name)
					}
					env[n.Name] = v
				}
			}
		}
	}
}

// ---- main ----------------------------------------------------------------------------------

func header(src string) string {
	return "-- GENERATED by /verif/tools/go2lean from " + src + " — do not edit; regenerated on every run.\n"
}

func main() {
	if len(os.Args) != 4 {
		die("usage: go2lean <spec.json> <repo-root> <out-dir>")
	}
	raw, err := os.ReadFile(os.Args[1])
	if err != nil {
		die("%v", err)
	}
	var spec Spec
	if err := json.Unmarshal(raw, &spec); err != nil {
		die("spec: %v", err)
	}
	root, out := os.Args[2], os.Args[3]
	if err := os.MkdirAll(out, 0o755); err != nil {
		die("%v", err)
	}
	for _, as := range spec.Access {
		genAccess(root, out, as)
	}
	for _, ms := range spec.Modules {
		polGuarded(ms, out, func() {
			if len(ms.Sources) > 0 {
				wsfGenModule(root, out, ms)
			} else {
				genModule(root, out, ms)
			}
		})
	}
}

func genModule(root, out string, ms ModuleSpec) {
	{
		fset := token.NewFileSet()
		var b strings.Builder
		if len(ms.ConstPkg) > 0 {
			env := map[string]int64{}
			order := []string{}
			for _, p := range ms.ConstPkg {
				constsOf(fset, filepath.Join(root, p), env, &order)
			}
			b.WriteString(header(strings.Join(ms.ConstPkg, ", ")))
			b.WriteString("namespace Sonic.Gen." + ms.Module + "\n\n")
			keep := map[string]bool{}
			for _, n := range ms.ConstSel {
				keep[n] = true
			}
			emitted := map[string]bool{}
			for _, n := range order {
				if len(keep) > 0 && !keep[n] {
					continue
				}
				fmt.Fprintf(&b, "def %s : Int := %d\n", lname(n), env[n])
				emitted[n] = true
			}
			missing := []string{}
			for n := range keep {
				if !emitted[n] {
					missing = append(missing, n)
				}
			}
			sort.Strings(missing)
			if len(missing) > 0 {
				die("untranslatable: constants not found or not evaluable: %s", strings.Join(missing, ", "))
			}
			b.WriteString("\nend Sonic.Gen." + ms.Module + "\n")
			write(filepath.Join(out, ms.Module+".lean"), b.String())
			return
		}
		path := filepath.Join(root, ms.File)
		f, err := parser.ParseFile(fset, path, nil, 0)
		if err != nil {
			die("parse %s: %v", path, err)
		}
		t := &tr{fset: fset, ms: ms, mut: map[string]bool{}, rets: map[string]string{}, isFn: map[string]bool{}, structs: map[string][]string{}}
		b.WriteString(header(ms.File))
		imports := "import Sonic.Go.Prelude\n"
		if polUses(ms) {
			imports += "import Sonic.Go.Error\n"
		}
		b.WriteString(imports + "set_option linter.unusedVariables false\n\nnamespace Sonic.Gen." + ms.Module + "\n\n")
		// plain structs
		for _, sn := range ms.Structs {
			found := false
			for _, d := range f.Decls {
				gd, ok := d.(*ast.GenDecl)
				if !ok || gd.Tok != token.TYPE {
					continue
				}
				for _, sp := range gd.Specs {
					ts := sp.(*ast.TypeSpec)
					st, ok := ts.Type.(*ast.StructType)
					if !ok || ts.Name.Name != sn {
						continue
					}
					found = true
					b.WriteString("structure " + sn + " where\n")
					for _, fl := range st.Fields.List {
						for _, n := range fl.Names {
							b.WriteString("  " + lname(n.Name) + " : " + leanType(fl.Type) + "\n")
							t.structs[sn] = append(t.structs[sn], n.Name)
						}
					}
					b.WriteString("  deriving Repr, DecidableEq\n\n")
				}
			}
			if !found {
				die("untranslatable: struct %s not found in %s", sn, ms.File)
			}
		}
		if polUses(ms) {
			polInit(t, root, f, &b)
		} else if ms.Type != "" {
			// check every kept field exists in the Go struct with an integer/bool type
			goFields := map[string]string{}
			for _, d := range f.Decls {
				gd, ok := d.(*ast.GenDecl)
				if !ok || gd.Tok != token.TYPE {
					continue
				}
				for _, sp := range gd.Specs {
					ts := sp.(*ast.TypeSpec)
					st, ok := ts.Type.(*ast.StructType)
					if !ok || ts.Name.Name != ms.Type {
						continue
					}
					for _, fl := range st.Fields.List {
						for _, n := range fl.Names {
							goFields[n.Name] = leanType(fl.Type)
						}
					}
				}
			}
			b.WriteString("structure " + ms.Type + " where\n")
			for _, g := range ms.Ghost {
				b.WriteString("  " + lname(g.Name) + " : " + g.Type + "\n")
			}
			for _, fl := range ms.Fields {
				if goFields[fl.Name] != fl.Type {
					die("untranslatable: field %s.%s has Go type %q, expected %s", ms.Type, fl.Name, goFields[fl.Name], fl.Type)
				}
				ghost := false
				for _, g := range ms.Ghost {
					if g.Name == fl.Name {
						ghost = true
					}
				}
				if !ghost {
					b.WriteString("  " + lname(fl.Name) + " : " + fl.Type + "\n")
				}
			}
			b.WriteString("  deriving Repr, DecidableEq\n\n")
		}
		for _, m := range ms.Methods {
			var fd *ast.FuncDecl
			for _, d := range f.Decls {
				x, ok := d.(*ast.FuncDecl)
				if !ok || x.Name.Name != m {
					continue
				}
				if ms.Type != "" && x.Recv != nil {
					rt := x.Recv.List[0].Type
					if st, ok := rt.(*ast.StarExpr); ok {
						rt = st.X
					}
					if id, ok := rt.(*ast.Ident); !ok || id.Name != ms.Type {
						continue
					}
				}
				fd = x
			}
			if fd == nil {
				die("untranslatable: function %s not found in %s", m, ms.File)
			}
			if fd.Recv == nil {
				t.isFn[m] = true
			}
			b.WriteString(t.fn(fd))
		}
		b.WriteString("end Sonic.Gen." + ms.Module + "\n")
		write(filepath.Join(out, ms.Module+".lean"), b.String())
	}
}

func write(path, content string) {
	old, err := os.ReadFile(path)
	if err == nil && string(old) == content {
		return // unchanged: keep the timestamp so lake does not rebuild
	}
	if err := os.WriteFile(path, []byte(content), 0o644); err != nil {
		die("%v", err)
	}
}
