package main

// Translation of byte-slice / fixed-width-integer code (module `WsFrameBits`: the websocket frame header accessors and
// setters of codec/websocket/frame.go, the opcode and close-code predicates of rfc6455.go, util.ExtendSlice).  All
// helper names carry the prefix `wsf`.  A module uses this translator when its spec has a `sources` list.
//
//   * types are read from the source: `type Frame []byte` (a `[]T` of any element type is treated as `[]byte`; the only
//     generic function translated is parametric in T) is `Go.Bytes` (backing array up to the capacity + length, see
//     Sonic/Go/Bytes.lean); `type Opcode byte`, `type CloseCode uint16`, `byte`, `uintN` are Lean's `UIntN`; `int` is `Int`
//     with 64-bit wrap (`Go.add` ...);
//   * constants are evaluated from the source's declarations (big integers, iota, typed and untyped); a named constant
//     used by a translated function is emitted as a Lean definition of its Go type and referred to by name, a compound
//     constant expression (`1<<16 - 1`, `bitmaskOpcode << 4`) is folded and emitted as a literal of the type Go gives it;
//   * `b[i]`, `b[lo:hi]`, `binary.BigEndian.Uint16/Uint64(s)`, `append(b, make([]T, n)...)` can panic: a function that
//     contains one (or calls such a function) is translated into the `Except Go.Panic` monad, each such operation
//     bound in Go's evaluation order before the statement that uses it; other functions stay pure;
//   * a method that writes through its slice receiver (`f[i] op= e`, `(*f)[i] op= e`, `*f = e`,
//     `binary.BigEndian.PutUintN(f[lo:], v)`, a call of such a method on the receiver) returns the receiver; a result of
//     type `*Recv` (`return f`) is that same value;
//   * `& | ^ &^ + - *` on `UIntN` are `&&& ||| ^^^ &&& ~~~ + - *`; shifts of a `UIntN` only by a constant below the width;
//   * conversions: `int(x)` is `Int.ofNat x.toNat` (for `uint64`: `Go.u64ToInt`, the two's-complement reading),
//     `uintN(i)` is `UIntN.ofInt i` (low N bits), `uintN(x)` between widths is `x.toUIntN`;
//   * statements: `:=`, `=`, `op=`, `var`, `if [init;] c {} else ..`, `switch [init;] [tag] {case ..}` (no fallthrough),
//     `return`, expression statements as above.  Statements are translated by continuation as in main.go.
//
// Anything else is "untranslatable: ..." (with `isolated`: a stub of this one file that does not compile).

import (
	"fmt"
	"go/ast"
	"go/parser"
	"go/token"
	"math/big"
	"path/filepath"
	"strings"
)

type WsfSourceSpec struct {
	File  string   `json:"file"`
	Funcs []string `json:"funcs"` // "Recv.Method" or "Func", in dependency order
}

type wsfConst struct {
	val  *big.Int
	kind string // "" = untyped
	file string
}

type wsfFn struct {
	key     string
	decl    *ast.FuncDecl
	file    string
	recv    string // receiver variable ("" for plain functions)
	recvK   string // kind of the receiver
	monadic bool
	mutates bool
	pkinds  []string
	ret     string // kind of the single result ("" = none, "self" = pointer to the receiver)
}

type wsfVal struct {
	code string
	kind string
}

type wsfState struct {
	fset   *token.FileSet
	ms     ModuleSpec
	types  map[string]string
	consts map[string]*wsfConst
	order  []string
	used   map[string]bool
	fns    map[string]*wsfFn
	byName map[string]*wsfFn // plain functions by bare name
	cur    *wsfFn
	vars   map[string]string
	pre    []string
	tmp    int
}

var wsfLeanTy = map[string]string{"int": "Int", "bool": "Bool", "u8": "UInt8", "u16": "UInt16", "u32": "UInt32", "u64": "UInt64", "bytes": "Go.Bytes"}
var wsfWidth = map[string]uint{"u8": 8, "u16": 16, "u32": 32, "u64": 64}

func (w *wsfState) pos(n ast.Node) string {
	if n == nil || !n.Pos().IsValid() {
		return "(generated)"
	}
	return w.fset.Position(n.Pos()).String()
}

func (w *wsfState) untr(n ast.Node, what string) {
	die("untranslatable: %s at %s", what, w.pos(n))
}

func wsfBuiltinKind(name string) string {
	switch name {
	case "int", "int64":
		return "int"
	case "bool":
		return "bool"
	case "byte", "uint8":
		return "u8"
	case "uint16":
		return "u16"
	case "uint32":
		return "u32"
	case "uint64":
		return "u64"
	}
	return ""
}

// kindOf: the kind of a Go type expression ("" = not representable).
func (w *wsfState) kindOf(e ast.Expr) string {
	switch x := e.(type) {
	case *ast.Ident:
		if k := wsfBuiltinKind(x.Name); k != "" {
			return k
		}
		return w.types[x.Name]
	case *ast.ArrayType:
		if x.Len == nil {
			return "bytes"
		}
	case *ast.StarExpr:
		if w.kindOf(x.X) == "bytes" {
			return "bytes"
		}
	case *ast.ParenExpr:
		return w.kindOf(x.X)
	}
	return ""
}

// ---- constants ---------------------------------------------------------------------------------------------------

func wsfFits(v *big.Int, kind string) bool {
	if wd, ok := wsfWidth[kind]; ok {
		return v.Sign() >= 0 && v.BitLen() <= int(wd)
	}
	if kind == "int" {
		return v.IsInt64()
	}
	return true
}

// eval: value and kind ("" = untyped) of a constant expression; ok=false if the expression is not constant.
func (w *wsfState) eval(e ast.Expr, iota int64) (*big.Int, string, bool) {
	switch x := e.(type) {
	case *ast.BasicLit:
		if x.Kind == token.INT {
			v, ok := new(big.Int).SetString(strings.ReplaceAll(x.Value, "_", ""), 0)
			return v, "", ok
		}
	case *ast.Ident:
		if x.Name == "iota" && iota >= 0 {
			return big.NewInt(iota), "", true
		}
		if _, shadow := w.vars[x.Name]; shadow {
			return nil, "", false
		}
		if c, ok := w.consts[x.Name]; ok {
			return c.val, c.kind, true
		}
	case *ast.ParenExpr:
		return w.eval(x.X, iota)
	case *ast.CallExpr:
		if len(x.Args) == 1 {
			if k := w.kindOf(x.Fun); k != "" && k != "bytes" && k != "bool" {
				v, _, ok := w.eval(x.Args[0], iota)
				if !ok {
					return nil, "", false
				}
				if !wsfFits(v, k) {
					w.untr(x, "constant "+v.String()+" overflows "+k)
				}
				return v, k, true
			}
		}
	case *ast.UnaryExpr:
		v, k, ok := w.eval(x.X, iota)
		if !ok {
			return nil, "", false
		}
		switch x.Op {
		case token.SUB:
			return new(big.Int).Neg(v), k, true
		case token.ADD:
			return v, k, true
		case token.XOR:
			if wd, ok := wsfWidth[k]; ok {
				m := new(big.Int).Sub(new(big.Int).Lsh(big.NewInt(1), wd), big.NewInt(1))
				return new(big.Int).Xor(v, m), k, true
			}
			return new(big.Int).Not(v), k, true
		}
	case *ast.BinaryExpr:
		a, ka, ok1 := w.eval(x.X, iota)
		b, kb, ok2 := w.eval(x.Y, iota)
		if !ok1 || !ok2 {
			return nil, "", false
		}
		k := ka
		r := new(big.Int)
		switch x.Op {
		case token.SHL, token.SHR:
			if !b.IsInt64() || b.Int64() < 0 || b.Int64() > 4096 {
				w.untr(x, "constant shift count")
			}
			if x.Op == token.SHL {
				r.Lsh(a, uint(b.Int64()))
			} else {
				r.Rsh(a, uint(b.Int64()))
			}
		default:
			if ka == "" {
				k = kb
			} else if kb != "" && ka != kb {
				w.untr(x, "constant operands of different types")
			}
			switch x.Op {
			case token.ADD:
				r.Add(a, b)
			case token.SUB:
				r.Sub(a, b)
			case token.MUL:
				r.Mul(a, b)
			case token.QUO:
				if b.Sign() == 0 {
					w.untr(x, "constant division by zero")
				}
				r.Quo(a, b)
			case token.REM:
				if b.Sign() == 0 {
					w.untr(x, "constant division by zero")
				}
				r.Rem(a, b)
			case token.AND:
				r.And(a, b)
			case token.OR:
				r.Or(a, b)
			case token.XOR:
				r.Xor(a, b)
			case token.AND_NOT:
				r.AndNot(a, b)
			default:
				return nil, "", false
			}
		}
		if k != "" && !wsfFits(r, k) {
			w.untr(x, "constant "+r.String()+" overflows "+k)
		}
		return r, k, true
	}
	return nil, "", false
}

func (w *wsfState) loadDecls(file string, f *ast.File) {
	for _, d := range f.Decls {
		gd, ok := d.(*ast.GenDecl)
		if !ok {
			continue
		}
		switch gd.Tok {
		case token.TYPE:
			for _, sp := range gd.Specs {
				ts := sp.(*ast.TypeSpec)
				switch ty := ts.Type.(type) {
				case *ast.Ident:
					if k := wsfBuiltinKind(ty.Name); k != "" {
						w.types[ts.Name.Name] = k
					}
				case *ast.ArrayType:
					if id, ok := ty.Elt.(*ast.Ident); ok && ty.Len == nil && wsfBuiltinKind(id.Name) == "u8" {
						w.types[ts.Name.Name] = "bytes"
					}
				}
			}
		}
	}
	for _, d := range f.Decls {
		gd, ok := d.(*ast.GenDecl)
		if !ok || gd.Tok != token.CONST {
			continue
		}
		var last []ast.Expr
		var lastTy ast.Expr
		for i, sp := range gd.Specs {
			vs := sp.(*ast.ValueSpec)
			vals, ty := vs.Values, vs.Type
			if len(vals) == 0 {
				vals, ty = last, lastTy
			} else {
				last, lastTy = vals, ty
			}
			for j, n := range vs.Names {
				if j >= len(vals) || n.Name == "_" {
					continue
				}
				func() {
					// a declaration this translator cannot evaluate is simply not a known constant
					defer func() {
						if r := recover(); r != nil {
							if _, isPol := r.(polFailure); !isPol {
								panic(r)
							}
						}
					}()
					saved := polIsolating
					polIsolating = true
					defer func() { polIsolating = saved }()
					v, k, ok := w.eval(vals[j], int64(i))
					if !ok {
						return
					}
					if ty != nil {
						k = w.kindOf(ty)
						if k == "" || !wsfFits(v, k) {
							return
						}
					}
					if _, dup := w.consts[n.Name]; !dup {
						w.order = append(w.order, n.Name)
					}
					w.consts[n.Name] = &wsfConst{val: v, kind: k, file: file}
				}()
			}
		}
	}
}

func wsfLit(v *big.Int, kind string) string {
	if kind == "" {
		kind = "int"
	}
	if v.Sign() < 0 {
		return "(" + v.String() + " : " + wsfLeanTy[kind] + ")"
	}
	return "(" + v.String() + " : " + wsfLeanTy[kind] + ")"
}

// ---- expressions -------------------------------------------------------------------------------------------------

func (w *wsfState) fresh() string {
	w.tmp++
	return fmt.Sprintf("t'%d", w.tmp)
}

func (w *wsfState) bind(term string) string {
	n := w.fresh()
	w.pre = append(w.pre, "let "+n+" ← "+term)
	return n
}

func (w *wsfState) flush(ind string) string {
	out := ""
	for _, l := range w.pre {
		out += ind + l + "\n"
	}
	w.pre = nil
	return out
}

// constVal: a constant expression as a value of kind `want` ("" = its own kind, untyped -> int).
func (w *wsfState) constVal(e ast.Expr, v *big.Int, k string, want string) wsfVal {
	if k == "" {
		k = want
		if k == "" || k == "bool" || k == "bytes" {
			k = "int"
		}
		if !wsfFits(v, k) {
			w.untr(e, "constant "+v.String()+" overflows "+k)
		}
		if id, ok := wsfStrip(e).(*ast.Ident); ok && k == "int" {
			w.used[id.Name] = true
			return wsfVal{lname(id.Name), k}
		}
		return wsfVal{wsfLit(v, k), k}
	}
	if id, ok := wsfStrip(e).(*ast.Ident); ok {
		w.used[id.Name] = true
		return wsfVal{lname(id.Name), k}
	}
	return wsfVal{wsfLit(v, k), k}
}

func wsfStrip(e ast.Expr) ast.Expr {
	for {
		p, ok := e.(*ast.ParenExpr)
		if !ok {
			return e
		}
		e = p.X
	}
}

// isRecv: `f` or `(*f)` where f is the receiver.
func (w *wsfState) isRecv(e ast.Expr) bool {
	e = wsfStrip(e)
	if st, ok := e.(*ast.StarExpr); ok {
		e = wsfStrip(st.X)
	}
	id, ok := e.(*ast.Ident)
	return ok && w.cur.recv != "" && id.Name == w.cur.recv
}

func (w *wsfState) isBool(e ast.Expr) bool {
	switch x := wsfStrip(e).(type) {
	case *ast.UnaryExpr:
		return x.Op == token.NOT
	case *ast.BinaryExpr:
		switch x.Op {
		case token.LAND, token.LOR, token.LSS, token.LEQ, token.GTR, token.GEQ, token.EQL, token.NEQ:
			return true
		}
	}
	return false
}

func (w *wsfState) prop(e ast.Expr) string {
	switch x := e.(type) {
	case *ast.ParenExpr:
		return "(" + w.prop(x.X) + ")"
	case *ast.UnaryExpr:
		if x.Op == token.NOT {
			return "(¬ " + w.prop(x.X) + ")"
		}
	case *ast.BinaryExpr:
		switch x.Op {
		case token.LAND, token.LOR:
			a := w.prop(x.X)
			n := len(w.pre)
			b := w.prop(x.Y)
			if len(w.pre) != n {
				w.untr(x, "operation that can panic on the right of a short-circuit operator")
			}
			if x.Op == token.LAND {
				return "(" + a + " ∧ " + b + ")"
			}
			return "(" + a + " ∨ " + b + ")"
		case token.LSS, token.LEQ, token.GTR, token.GEQ, token.EQL, token.NEQ:
			a, b := w.pair(x, x.X, x.Y)
			op := map[token.Token]string{token.LSS: "<", token.LEQ: "≤", token.GTR: ">", token.GEQ: "≥", token.EQL: "=", token.NEQ: "≠"}[x.Op]
			if a.kind == "bytes" {
				w.untr(x, "comparison of slices")
			}
			return "(" + a.code + " " + op + " " + b.code + ")"
		}
	}
	v := w.expr(e, "bool")
	if v.kind != "bool" {
		w.untr(e, "condition that is not a boolean")
	}
	return "(" + v.code + " = true)"
}

// pair translates two operands that must have the same kind; an untyped constant takes the kind of the other side.
func (w *wsfState) pair(at ast.Node, l, r ast.Expr) (wsfVal, wsfVal) {
	lv, lk, lc := w.eval(l, -1)
	rv, rk, rc := w.eval(r, -1)
	var a, b wsfVal
	switch {
	case lc && lk == "" && !(rc && rk == ""):
		b = w.expr(r, "")
		a = w.constVal(l, lv, lk, b.kind)
	case rc && rk == "":
		a = w.expr(l, "")
		b = w.constVal(r, rv, rk, a.kind)
	default:
		a = w.expr(l, "")
		b = w.expr(r, "")
	}
	if a.kind != b.kind {
		w.untr(at, "operands of different types ("+a.kind+", "+b.kind+")")
	}
	return a, b
}

func (w *wsfState) conv(at ast.Node, v wsfVal, to string) wsfVal {
	from := v.kind
	switch {
	case from == to:
		return wsfVal{v.code, to}
	case to == "int" && from == "u64":
		return wsfVal{"(Go.u64ToInt " + v.code + ")", to}
	case to == "int" && wsfWidth[from] > 0:
		return wsfVal{"(Int.ofNat " + v.code + ".toNat)", to}
	case wsfWidth[to] > 0 && from == "int":
		return wsfVal{"(" + wsfLeanTy[to] + ".ofInt " + v.code + ")", to}
	case wsfWidth[to] > 0 && wsfWidth[from] > 0:
		return wsfVal{"(" + wsfLeanTy[from] + ".to" + wsfLeanTy[to] + " " + v.code + ")", to}
	}
	w.untr(at, "conversion from "+from+" to "+to)
	return wsfVal{}
}

func (w *wsfState) expr(e ast.Expr, want string) wsfVal {
	if v, k, ok := w.eval(e, -1); ok {
		return w.constVal(e, v, k, want)
	}
	switch x := e.(type) {
	case *ast.Ident:
		switch x.Name {
		case "true", "false":
			return wsfVal{x.Name, "bool"}
		case "nil":
			return wsfVal{"Go.Bytes.nil", "bytes"}
		}
		if k, ok := w.vars[x.Name]; ok {
			return wsfVal{lname(x.Name), k}
		}
		w.untr(x, "identifier "+x.Name)
	case *ast.ParenExpr:
		v := w.expr(x.X, want)
		return wsfVal{"(" + v.code + ")", v.kind}
	case *ast.StarExpr:
		if w.isRecv(x) {
			return wsfVal{lname(w.cur.recv), w.cur.recvK}
		}
	case *ast.IndexExpr:
		b := w.expr(x.X, "")
		if b.kind != "bytes" {
			w.untr(x, "index of something that is not a byte slice")
		}
		i := w.expr(x.Index, "int")
		if i.kind != "int" {
			i = w.conv(x, i, "int")
		}
		return wsfVal{w.bind("Go.Bytes.idx " + b.code + " " + i.code), "u8"}
	case *ast.SliceExpr:
		if x.Slice3 {
			w.untr(x, "3-index slice")
		}
		b := w.expr(x.X, "")
		if b.kind != "bytes" {
			w.untr(x, "slice of something that is not a byte slice")
		}
		lo, hi := "none", "none"
		if x.Low != nil {
			v := w.expr(x.Low, "int")
			if v.kind != "int" {
				w.untr(x, "slice bound that is not an int")
			}
			lo = "(some " + v.code + ")"
		}
		if x.High != nil {
			v := w.expr(x.High, "int")
			if v.kind != "int" {
				w.untr(x, "slice bound that is not an int")
			}
			hi = "(some " + v.code + ")"
		}
		return wsfVal{w.bind("Go.Bytes.slice " + b.code + " " + lo + " " + hi), "bytes"}
	case *ast.UnaryExpr:
		switch x.Op {
		case token.NOT:
			return wsfVal{"(decide " + w.prop(e) + ")", "bool"}
		case token.SUB:
			v := w.expr(x.X, want)
			if v.kind == "int" {
				return wsfVal{"(Go.neg " + v.code + ")", "int"}
			}
			if wsfWidth[v.kind] > 0 {
				return wsfVal{"(-" + v.code + ")", v.kind}
			}
		case token.XOR:
			v := w.expr(x.X, want)
			if wsfWidth[v.kind] > 0 {
				return wsfVal{"(~~~" + v.code + ")", v.kind}
			}
		}
	case *ast.BinaryExpr:
		if w.isBool(e) {
			return wsfVal{"(decide " + w.prop(e) + ")", "bool"}
		}
		if x.Op == token.SHL || x.Op == token.SHR {
			a := w.expr(x.X, want)
			if a.kind == "int" {
				c := w.expr(x.Y, "int")
				if c.kind != "int" {
					c = w.conv(x, c, "int")
				}
				fn := map[token.Token]string{token.SHL: "Go.shl", token.SHR: "Go.shr"}[x.Op]
				return wsfVal{"(" + fn + " " + a.code + " " + c.code + ")", "int"}
			}
			wd := wsfWidth[a.kind]
			cv, _, ok := w.eval(x.Y, -1)
			if wd == 0 || !ok || cv.Sign() < 0 || cv.Cmp(big.NewInt(int64(wd))) >= 0 {
				w.untr(x, "shift of an unsigned value by something that is not a constant below its width")
			}
			op := map[token.Token]string{token.SHL: "<<<", token.SHR: ">>>"}[x.Op]
			return wsfVal{"(" + a.code + " " + op + " " + wsfLit(cv, a.kind) + ")", a.kind}
		}
		a, b := w.pair(x, x.X, x.Y)
		if a.kind == "int" {
			fn := map[token.Token]string{token.ADD: "Go.add", token.SUB: "Go.sub", token.MUL: "Go.mul", token.QUO: "Go.div",
				token.REM: "Go.mod", token.AND: "Go.land", token.OR: "Go.lor"}[x.Op]
			if fn == "" {
				w.untr(x, "binary operator "+x.Op.String()+" on int")
			}
			return wsfVal{"(" + fn + " " + a.code + " " + b.code + ")", "int"}
		}
		if wsfWidth[a.kind] > 0 {
			if v, ok := wsfUOp(x.Op, a.code, b.code); ok {
				return wsfVal{v, a.kind}
			}
		}
		w.untr(x, "binary operator "+x.Op.String()+" on "+a.kind)
	case *ast.CallExpr:
		return w.call(x, want)
	}
	w.untr(e, fmt.Sprintf("expression %T", e))
	return wsfVal{}
}

func wsfUOp(op token.Token, a, b string) (string, bool) {
	switch op {
	case token.AND, token.AND_ASSIGN:
		return "(" + a + " &&& " + b + ")", true
	case token.OR, token.OR_ASSIGN:
		return "(" + a + " ||| " + b + ")", true
	case token.XOR, token.XOR_ASSIGN:
		return "(" + a + " ^^^ " + b + ")", true
	case token.AND_NOT, token.AND_NOT_ASSIGN:
		return "(" + a + " &&& ~~~" + b + ")", true
	case token.ADD, token.ADD_ASSIGN:
		return "(" + a + " + " + b + ")", true
	case token.SUB, token.SUB_ASSIGN:
		return "(" + a + " - " + b + ")", true
	case token.MUL, token.MUL_ASSIGN:
		return "(" + a + " * " + b + ")", true
	}
	return "", false
}

// callee resolves a call to a translated function: `x.M(..)` (x of a named type), `F(..)`, `pkg.F(..)`.
func (w *wsfState) callee(x *ast.CallExpr) (fn *wsfFn, recvArg ast.Expr) {
	switch f := x.Fun.(type) {
	case *ast.Ident:
		if fn, ok := w.byName[f.Name]; ok {
			return fn, nil
		}
	case *ast.IndexExpr: // explicit instantiation F[T](..)
		if id, ok := f.X.(*ast.Ident); ok {
			if fn, ok := w.byName[id.Name]; ok {
				return fn, nil
			}
		}
	case *ast.SelectorExpr:
		if id, ok := f.X.(*ast.Ident); ok {
			if _, isVar := w.vars[id.Name]; !isVar {
				if _, isConst := w.consts[id.Name]; !isConst {
					// package-qualified function
					if fn, ok := w.byName[f.Sel.Name]; ok && (id.Name == "util") {
						return fn, nil
					}
					return nil, nil
				}
			}
		}
		// method: find by the receiver's named type — methods are keyed "Type.M"; the receiver kind must agree
		for key, fn := range w.fns {
			if fn.recv == "" && fn.decl.Recv == nil {
				continue
			}
			if strings.HasSuffix(key, "."+f.Sel.Name) && w.recvTypeMatches(fn, f.X) {
				return fn, f.X
			}
		}
	}
	return nil, nil
}

// recvTypeMatches: the static type of `e` is the receiver type of fn.  Known statically: the current receiver, a
// parameter or local whose declared type name was recorded, a constant of a named type.
func (w *wsfState) recvTypeMatches(fn *wsfFn, e ast.Expr) bool {
	want := wsfRecvTypeName(fn.decl)
	e = wsfStrip(e)
	if st, ok := e.(*ast.StarExpr); ok {
		e = wsfStrip(st.X)
	}
	if id, ok := e.(*ast.Ident); ok {
		if tn, ok := w.vars["type:"+id.Name]; ok {
			return tn == want
		}
	}
	if call, ok := e.(*ast.CallExpr); ok { // x.M().N(): the result type of M
		if inner, _ := w.callee(call); inner != nil && inner.decl.Type.Results != nil && len(inner.decl.Type.Results.List) == 1 {
			return wsfTypeName(inner.decl.Type.Results.List[0].Type) == want
		}
	}
	return false
}

func wsfTypeName(e ast.Expr) string {
	switch x := e.(type) {
	case *ast.Ident:
		return x.Name
	case *ast.StarExpr:
		return wsfTypeName(x.X)
	case *ast.ParenExpr:
		return wsfTypeName(x.X)
	}
	return ""
}

func wsfRecvTypeName(fd *ast.FuncDecl) string {
	if fd.Recv == nil || len(fd.Recv.List) != 1 {
		return ""
	}
	return wsfTypeName(fd.Recv.List[0].Type)
}

func (w *wsfState) callArgs(x *ast.CallExpr, fn *wsfFn, recvArg ast.Expr) string {
	args := []string{}
	if recvArg != nil {
		v := w.expr(recvArg, fn.recvK)
		args = append(args, v.code)
	}
	if len(x.Args) != len(fn.pkinds) {
		w.untr(x, "call of "+fn.key+" with a different number of arguments")
	}
	for i, a := range x.Args {
		v := w.expr(a, fn.pkinds[i])
		if v.kind != fn.pkinds[i] {
			w.untr(a, "argument of kind "+v.kind+" where "+fn.pkinds[i]+" is expected")
		}
		args = append(args, v.code)
	}
	return "(" + fn.key + " " + strings.Join(args, " ") + ")"
}

func (w *wsfState) call(x *ast.CallExpr, want string) wsfVal {
	// conversions
	if len(x.Args) == 1 {
		if k := w.kindOf(x.Fun); k != "" && k != "bool" {
			if k == "bytes" {
				v := w.expr(x.Args[0], "bytes")
				if v.kind != "bytes" {
					w.untr(x, "conversion to a slice type")
				}
				return v
			}
			return w.conv(x, w.expr(x.Args[0], k), k)
		}
	}
	if id, ok := x.Fun.(*ast.Ident); ok && len(x.Args) >= 1 {
		switch id.Name {
		case "len", "cap":
			v := w.expr(x.Args[0], "bytes")
			if v.kind != "bytes" {
				w.untr(x, id.Name+" of something that is not a byte slice")
			}
			return wsfVal{"(Go.Bytes." + map[string]string{"len": "length", "cap": "cap"}[id.Name] + " " + v.code + ")", "int"}
		case "append":
			// append(b, make([]T, n)...)
			if len(x.Args) == 2 && x.Ellipsis.IsValid() {
				if mk, ok := x.Args[1].(*ast.CallExpr); ok {
					if mid, ok := mk.Fun.(*ast.Ident); ok && mid.Name == "make" && len(mk.Args) == 2 && w.kindOf(mk.Args[0]) == "bytes" {
						b := w.expr(x.Args[0], "bytes")
						n := w.expr(mk.Args[1], "int")
						if b.kind != "bytes" || n.kind != "int" {
							w.untr(x, "append")
						}
						return wsfVal{w.bind("Go.Bytes.appendZeros " + b.code + " " + n.code), "bytes"}
					}
				}
			}
			w.untr(x, "append other than append(b, make([]T, n)...)")
		}
	}
	// binary.BigEndian.UintN(s)
	if name, ok := wsfBigEndian(x); ok {
		switch name {
		case "Uint16", "Uint64":
			if len(x.Args) != 1 {
				w.untr(x, "binary.BigEndian."+name)
			}
			s := w.expr(x.Args[0], "bytes")
			if s.kind != "bytes" {
				w.untr(x, "binary.BigEndian."+name+" of something that is not a byte slice")
			}
			if name == "Uint16" {
				return wsfVal{w.bind("Go.Bytes.uint16BE " + s.code), "u16"}
			}
			return wsfVal{w.bind("Go.Bytes.uint64BE " + s.code), "u64"}
		}
		w.untr(x, "binary.BigEndian."+name+" inside an expression")
	}
	fn, recvArg := w.callee(x)
	if fn == nil {
		w.untr(x, "call of a function that is not in the translated list (or is listed later)")
	}
	if fn.mutates {
		w.untr(x, "call of the writing method "+fn.key+" inside an expression")
	}
	if fn.ret == "" {
		w.untr(x, "call of "+fn.key+" (no result) inside an expression")
	}
	term := w.callArgs(x, fn, recvArg)
	if fn.monadic {
		return wsfVal{w.bind(term[1 : len(term)-1]), fn.ret}
	}
	return wsfVal{term, fn.ret}
}

func wsfBigEndian(x *ast.CallExpr) (string, bool) {
	sel, ok := x.Fun.(*ast.SelectorExpr)
	if !ok {
		return "", false
	}
	in, ok := sel.X.(*ast.SelectorExpr)
	if !ok {
		return "", false
	}
	id, ok := in.X.(*ast.Ident)
	if !ok || id.Name != "binary" || in.Sel.Name != "BigEndian" {
		return "", false
	}
	return sel.Sel.Name, true
}

// ---- statements --------------------------------------------------------------------------------------------------

func (w *wsfState) retLine(ind string, v string) string {
	if w.cur.monadic {
		return ind + "pure " + v + "\n"
	}
	return ind + v + "\n"
}

func (w *wsfState) retValue(x *ast.ReturnStmt) string {
	self := lname(w.cur.recv)
	switch {
	case w.cur.mutates && (w.cur.ret == "" || w.cur.ret == "self"):
		if len(x.Results) == 1 && !w.isRecv(x.Results[0]) {
			w.untr(x, "a writing method returning something other than its receiver")
		}
		return self
	case w.cur.mutates:
		w.untr(x, "a writing method with a result")
	case w.cur.ret == "":
		return "()"
	}
	if len(x.Results) != 1 {
		w.untr(x, "return without exactly one value")
	}
	v := w.expr(x.Results[0], w.cur.ret)
	if v.kind != w.cur.ret {
		w.untr(x, "returned value of kind "+v.kind+" where "+w.cur.ret+" is declared")
	}
	return v.code
}

func (w *wsfState) setVar(name, kind string, ty ast.Expr) {
	w.vars[name] = kind
	delete(w.vars, "type:"+name)
	if ty != nil {
		if tn := wsfTypeName(ty); tn != "" {
			w.vars["type:"+name] = tn
		}
	}
}

func (w *wsfState) block(stmts []ast.Stmt, rest func(ind string) string, ind string) string {
	if len(stmts) == 0 {
		return rest(ind)
	}
	s := stmts[0]
	kk := func(ind string) string { return w.block(stmts[1:], rest, ind) }
	switch x := s.(type) {
	case *ast.EmptyStmt:
		return kk(ind)
	case *ast.BlockStmt:
		return w.block(x.List, kk, ind)
	case *ast.DeclStmt:
		gd, ok := x.Decl.(*ast.GenDecl)
		if !ok || gd.Tok != token.VAR {
			w.untr(x, "declaration")
		}
		out := ""
		for _, sp := range gd.Specs {
			vs := sp.(*ast.ValueSpec)
			for i, n := range vs.Names {
				kind := "int"
				if vs.Type != nil {
					kind = w.kindOf(vs.Type)
					if kind == "" {
						w.untr(x, "variable of an unsupported type")
					}
				}
				val := map[string]string{"bool": "false", "bytes": "Go.Bytes.nil"}[kind]
				if val == "" {
					val = "(0 : " + wsfLeanTy[kind] + ")"
				}
				if i < len(vs.Values) {
					v := w.expr(vs.Values[i], kind)
					if vs.Type != nil && v.kind != kind {
						w.untr(x, "initialiser of a different type")
					}
					val, kind = v.code, v.kind
				}
				out += w.flush(ind) + ind + "let " + lname(n.Name) + " := " + val + "\n"
				w.setVar(n.Name, kind, vs.Type)
			}
		}
		return out + kk(ind)
	case *ast.AssignStmt:
		if len(x.Lhs) != 1 || len(x.Rhs) != 1 {
			w.untr(x, "multi-assignment")
		}
		self := lname(w.cur.recv)
		switch l := wsfStrip(x.Lhs[0]).(type) {
		case *ast.Ident:
			switch x.Tok {
			case token.DEFINE, token.ASSIGN:
				want := ""
				if x.Tok == token.ASSIGN {
					want = w.vars[l.Name]
					if want == "" {
						w.untr(x, "assignment to an unknown variable "+l.Name)
					}
					if w.cur.recv == l.Name && w.cur.recvK == "bytes" {
						w.untr(x, "the slice receiver itself is reassigned (the caller would not see later writes)")
					}
				}
				v := w.expr(x.Rhs[0], want)
				if x.Tok == token.ASSIGN && v.kind != want {
					w.untr(x, "assignment of a different type")
				}
				out := w.flush(ind) + ind + "let " + lname(l.Name) + " := " + v.code + "\n"
				if x.Tok == token.DEFINE {
					w.setVar(l.Name, v.kind, wsfConvType(x.Rhs[0], w))
				}
				return out + kk(ind)
			default:
				k := w.vars[l.Name]
				v := w.expr(x.Rhs[0], k)
				if v.kind != k {
					w.untr(x, "compound assignment of a different type")
				}
				val, ok := "", false
				if k == "int" {
					fn := map[token.Token]string{token.ADD_ASSIGN: "Go.add", token.SUB_ASSIGN: "Go.sub", token.MUL_ASSIGN: "Go.mul",
						token.AND_ASSIGN: "Go.land", token.OR_ASSIGN: "Go.lor", token.REM_ASSIGN: "Go.mod"}[x.Tok]
					if fn != "" {
						val, ok = "("+fn+" "+lname(l.Name)+" "+v.code+")", true
					}
				} else if wsfWidth[k] > 0 {
					val, ok = wsfUOp(x.Tok, lname(l.Name), v.code)
				}
				if !ok {
					w.untr(x, "assignment operator "+x.Tok.String()+" on "+k)
				}
				return w.flush(ind) + ind + "let " + lname(l.Name) + " := " + val + "\n" + kk(ind)
			}
		case *ast.StarExpr: // *f = e
			if !w.isRecv(l) || x.Tok != token.ASSIGN {
				w.untr(x, "assignment through a pointer other than `*recv = e`")
			}
			v := w.expr(x.Rhs[0], w.cur.recvK)
			if v.kind != w.cur.recvK {
				w.untr(x, "assignment of a different type")
			}
			return w.flush(ind) + ind + "let " + self + " := " + v.code + "\n" + kk(ind)
		case *ast.IndexExpr: // f[i] op= e
			if !w.isRecv(l.X) || w.cur.recvK != "bytes" {
				w.untr(x, "element assignment to something other than the receiver")
			}
			i := w.expr(l.Index, "int")
			if i.kind != "int" {
				w.untr(x, "index that is not an int")
			}
			v := w.expr(x.Rhs[0], "u8")
			if v.kind != "u8" {
				w.untr(x, "element assignment of a different type")
			}
			val := v.code
			if x.Tok != token.ASSIGN {
				cur := w.bind("Go.Bytes.idx " + self + " " + i.code)
				nv, ok := wsfUOp(x.Tok, cur, v.code)
				if !ok {
					w.untr(x, "assignment operator "+x.Tok.String()+" on a byte")
				}
				val = nv
			}
			return w.flush(ind) + ind + "let " + self + " ← Go.Bytes.set " + self + " " + i.code + " " + val + "\n" + kk(ind)
		}
		w.untr(x, "assignment target")
	case *ast.ExprStmt:
		call, ok := x.X.(*ast.CallExpr)
		if !ok {
			w.untr(x, "expression statement")
		}
		self := lname(w.cur.recv)
		if name, ok := wsfBigEndian(call); ok {
			k := map[string]int{"PutUint16": 2, "PutUint64": 8}[name]
			if k == 0 || len(call.Args) != 2 {
				w.untr(x, "binary.BigEndian."+name)
			}
			sl, ok := wsfStrip(call.Args[0]).(*ast.SliceExpr)
			if !ok || !w.isRecv(sl.X) || sl.High != nil || sl.Slice3 || sl.Low == nil {
				w.untr(x, "binary.BigEndian."+name+" into something other than `recv[lo:]`")
			}
			lo := w.expr(sl.Low, "int")
			wantK := map[int]string{2: "u16", 8: "u64"}[k]
			v := w.expr(call.Args[1], wantK)
			if lo.kind != "int" || v.kind != wantK {
				w.untr(x, "binary.BigEndian."+name+" arguments")
			}
			return w.flush(ind) + ind + fmt.Sprintf("let %s ← Go.Bytes.putBEAt %s %s %d %s.toNat\n", self, self, lo.code, k, v.code) + kk(ind)
		}
		fn, recvArg := w.callee(call)
		if fn == nil {
			w.untr(x, "call of a function that is not in the translated list (or is listed later)")
		}
		if !fn.mutates {
			if fn.monadic {
				term := w.callArgs(call, fn, recvArg)
				return w.flush(ind) + ind + "let _ ← " + term + "\n" + kk(ind)
			}
			return kk(ind)
		}
		if recvArg == nil || !w.isRecv(recvArg) {
			w.untr(x, "call of the writing method "+fn.key+" on something other than the receiver")
		}
		if fn.ret != "" && fn.ret != "self" {
			w.untr(x, "result of the writing method "+fn.key+" dropped")
		}
		term := w.callArgs(call, fn, recvArg)
		return w.flush(ind) + ind + "let " + self + " ← " + term + "\n" + kk(ind)
	case *ast.IfStmt:
		if x.Init != nil {
			return w.block([]ast.Stmt{x.Init}, func(ind string) string {
				y := *x
				y.Init = nil
				return w.block([]ast.Stmt{&y}, kk, ind)
			}, ind)
		}
		saved := copyKinds(w.vars)
		c := w.prop(x.Cond)
		out := w.flush(ind) + ind + "if " + c + " then\n"
		out += w.block(x.Body.List, kk, ind+"  ")
		w.vars = copyKinds(saved)
		out += ind + "else\n"
		switch e := x.Else.(type) {
		case nil:
			out += w.block(nil, kk, ind+"  ")
		case *ast.BlockStmt:
			out += w.block(e.List, kk, ind+"  ")
		case *ast.IfStmt:
			out += w.block([]ast.Stmt{e}, kk, ind+"  ")
		}
		w.vars = saved
		return out
	case *ast.SwitchStmt:
		return w.switchStmt(x, kk, ind)
	case *ast.ReturnStmt:
		v := w.retValue(x)
		return w.flush(ind) + w.retLine(ind, v)
	}
	w.untr(s, fmt.Sprintf("statement %T", s))
	return ""
}

// wsfConvType: for `x := T(e)` / `x := recv.M()` remember the named type, so that methods can be called on x.
func wsfConvType(e ast.Expr, w *wsfState) ast.Expr {
	if call, ok := wsfStrip(e).(*ast.CallExpr); ok {
		if len(call.Args) == 1 && w.kindOf(call.Fun) != "" {
			return call.Fun
		}
		if fn, _ := w.callee(call); fn != nil && fn.decl.Type.Results != nil && len(fn.decl.Type.Results.List) == 1 {
			return fn.decl.Type.Results.List[0].Type
		}
	}
	return nil
}

// switchStmt rewrites `switch [init;] [tag] { case a, b: A  default: D }` into an if-chain (the tag is evaluated once).
func (w *wsfState) switchStmt(x *ast.SwitchStmt, kk func(string) string, ind string) string {
	if x.Init != nil {
		return w.block([]ast.Stmt{x.Init}, func(ind string) string {
			y := *x
			y.Init = nil
			return w.block([]ast.Stmt{&y}, kk, ind)
		}, ind)
	}
	var tag ast.Expr
	pre := []ast.Stmt{}
	if x.Tag != nil {
		if id, ok := wsfStrip(x.Tag).(*ast.Ident); ok {
			tag = id
		} else {
			name := fmt.Sprintf("tag'%d", w.tmp+1)
			w.tmp++
			pre = append(pre, &ast.AssignStmt{Lhs: []ast.Expr{ast.NewIdent(name)}, Tok: token.DEFINE, Rhs: []ast.Expr{x.Tag}})
			tag = ast.NewIdent(name)
		}
	}
	var def *ast.CaseClause
	clauses := []*ast.CaseClause{}
	for _, c := range x.Body.List {
		cc := c.(*ast.CaseClause)
		for _, s := range cc.Body {
			if br, ok := s.(*ast.BranchStmt); ok {
				w.untr(br, "branch statement inside switch")
			}
		}
		if cc.List == nil {
			def = cc
		} else {
			clauses = append(clauses, cc)
		}
	}
	var chain ast.Stmt
	if def != nil {
		chain = &ast.BlockStmt{List: def.Body}
	}
	for i := len(clauses) - 1; i >= 0; i-- {
		cc := clauses[i]
		var cond ast.Expr
		for _, e := range cc.List {
			var one ast.Expr = e
			if tag != nil {
				one = &ast.BinaryExpr{X: tag, Op: token.EQL, Y: e}
			}
			if cond == nil {
				cond = one
			} else {
				cond = &ast.BinaryExpr{X: cond, Op: token.LOR, Y: one}
			}
		}
		chain = &ast.IfStmt{Cond: cond, Body: &ast.BlockStmt{List: cc.Body}, Else: chain}
	}
	if chain == nil {
		return w.block(pre, kk, ind)
	}
	return w.block(append(pre, chain), kk, ind)
}

// ---- functions ---------------------------------------------------------------------------------------------------

// scan: does the body write through the receiver / contain operations that can panic?
func (w *wsfState) scan(fn *wsfFn) {
	fd := fn.decl
	isRecv := func(e ast.Expr) bool {
		e = wsfStrip(e)
		if st, ok := e.(*ast.StarExpr); ok {
			e = wsfStrip(st.X)
		}
		id, ok := e.(*ast.Ident)
		return ok && fn.recv != "" && id.Name == fn.recv
	}
	ast.Inspect(fd.Body, func(n ast.Node) bool {
		switch x := n.(type) {
		case *ast.IndexExpr, *ast.SliceExpr:
			fn.monadic = true
		case *ast.AssignStmt:
			for _, l := range x.Lhs {
				switch y := wsfStrip(l).(type) {
				case *ast.IndexExpr:
					if isRecv(y.X) {
						fn.mutates = true
					}
				case *ast.StarExpr:
					if isRecv(y) {
						fn.mutates = true
					}
				}
			}
		case *ast.CallExpr:
			if name, ok := wsfBigEndian(x); ok {
				fn.monadic = true
				if strings.HasPrefix(name, "Put") {
					fn.mutates = true
				}
			}
			if id, ok := x.Fun.(*ast.Ident); ok && (id.Name == "append" || id.Name == "make") {
				fn.monadic = true
			}
			if sel, ok := x.Fun.(*ast.SelectorExpr); ok {
				for key, g := range w.fns {
					if g != fn && strings.HasSuffix("."+key, "."+sel.Sel.Name) {
						if g.monadic {
							fn.monadic = true
						}
						if g.mutates && isRecv(sel.X) {
							fn.mutates = true
						}
					}
				}
			}
			if id, ok := x.Fun.(*ast.Ident); ok {
				if g, ok := w.byName[id.Name]; ok && g.monadic {
					fn.monadic = true
				}
			}
		}
		return true
	})
	if fn.mutates {
		fn.monadic = true
	}
}

func (w *wsfState) fn(fn *wsfFn) string {
	fd := fn.decl
	w.cur = fn
	w.vars = map[string]string{}
	w.pre = nil
	w.tmp = 0
	params := []string{}
	if fn.recv != "" {
		w.setVar(fn.recv, fn.recvK, fd.Recv.List[0].Type)
		params = append(params, "("+lname(fn.recv)+" : "+wsfLeanTy[fn.recvK]+")")
	}
	i := 0
	for _, p := range fd.Type.Params.List {
		for _, n := range p.Names {
			k := fn.pkinds[i]
			i++
			w.setVar(n.Name, k, p.Type)
			params = append(params, "("+lname(n.Name)+" : "+wsfLeanTy[k]+")")
		}
	}
	res := "Unit"
	switch {
	case fn.mutates:
		res = wsfLeanTy[fn.recvK]
	case fn.ret != "":
		res = wsfLeanTy[fn.ret]
	}
	out := fmt.Sprintf("/-- Translated from `%s` (%s). -/\n", fn.key, filepath.Base(fn.file))
	if fn.monadic {
		out += "def " + fn.key + " " + strings.Join(params, " ") + " : Except Go.Panic " + res + " := do\n"
	} else {
		sep := " "
		if len(params) == 0 {
			sep = ""
		}
		out += "def " + fn.key + sep + strings.Join(params, " ") + " : " + res + " :=\n"
	}
	body := w.block(fd.Body.List, func(ind string) string {
		if fn.mutates || fn.ret == "" {
			return w.retLine(ind, w.retValue(&ast.ReturnStmt{}))
		}
		w.untr(fd, "function "+fn.key+" can fall off its end")
		return ""
	}, "  ")
	return out + body + "\n"
}

func wsfGenModule(root, out string, ms ModuleSpec) {
	w := &wsfState{fset: token.NewFileSet(), ms: ms, types: map[string]string{}, consts: map[string]*wsfConst{}, used: map[string]bool{},
		fns: map[string]*wsfFn{}, byName: map[string]*wsfFn{}, vars: map[string]string{}}
	files := map[string]*ast.File{}
	srcs := []string{}
	parse := func(rel string) *ast.File {
		if f, ok := files[rel]; ok {
			return f
		}
		f, err := parser.ParseFile(w.fset, filepath.Join(root, rel), nil, 0)
		if err != nil {
			die("parse %s: %v", rel, err)
		}
		files[rel] = f
		srcs = append(srcs, rel)
		return f
	}
	for _, c := range ms.ConstPkg {
		parse(c)
	}
	for _, s := range ms.Sources {
		parse(s.File)
	}
	for _, rel := range srcs { // types first (all files), then constants
		w.loadDecls(rel, files[rel])
	}
	for _, rel := range srcs { // a constant may refer to a type or constant of a file parsed later
		w.loadDecls(rel, files[rel])
	}
	var body strings.Builder
	for _, s := range ms.Sources {
		f := files[s.File]
		for _, key := range s.Funcs {
			rt, name := "", key
			if i := strings.Index(key, "."); i >= 0 {
				rt, name = key[:i], key[i+1:]
			}
			var fd *ast.FuncDecl
			for _, d := range f.Decls {
				x, ok := d.(*ast.FuncDecl)
				if ok && x.Name.Name == name && wsfRecvTypeName(x) == rt && x.Body != nil {
					fd = x
				}
			}
			if fd == nil {
				die("untranslatable: function %s not found in %s", key, s.File)
			}
			fn := &wsfFn{key: key, decl: fd, file: s.File}
			if fd.Recv != nil {
				fn.recvK = w.kindOf(fd.Recv.List[0].Type)
				if fn.recvK == "" {
					w.untr(fd, "receiver type of "+key)
				}
				if len(fd.Recv.List[0].Names) == 1 {
					fn.recv = fd.Recv.List[0].Names[0].Name
				} else {
					fn.recv = "self'"
				}
			}
			for _, p := range fd.Type.Params.List {
				k := w.kindOf(p.Type)
				if k == "" {
					w.untr(p, "parameter type of "+key)
				}
				if len(p.Names) == 0 {
					w.untr(p, "unnamed parameter of "+key)
				}
				for range p.Names {
					fn.pkinds = append(fn.pkinds, k)
				}
			}
			if fd.Type.Results != nil {
				if len(fd.Type.Results.List) != 1 || len(fd.Type.Results.List[0].Names) > 0 {
					w.untr(fd, "result list of "+key+" (exactly one unnamed result is supported)")
				}
				rty := fd.Type.Results.List[0].Type
				if _, isPtr := rty.(*ast.StarExpr); isPtr && wsfTypeName(rty) == rt && rt != "" {
					fn.ret = "self"
				} else {
					fn.ret = w.kindOf(rty)
					if fn.ret == "" {
						w.untr(fd, "result type of "+key)
					}
				}
			}
			w.scan(fn)
			if fn.ret == "self" && !fn.mutates {
				// `return f` of an unchanged receiver: still the receiver
				fn.mutates, fn.monadic = true, true
			}
			body.WriteString(w.fn(fn))
			w.fns[key] = fn
			if rt == "" {
				w.byName[name] = fn
			}
		}
	}
	var b strings.Builder
	names := []string{}
	for _, s := range ms.Sources {
		names = append(names, s.File)
	}
	b.WriteString(header(strings.Join(names, ", ")))
	b.WriteString("import Sonic.Go.Bytes\nset_option linter.unusedVariables false\n\nnamespace Sonic.Gen." + ms.Module + "\n\n")
	tnames := []string{}
	for n := range w.types {
		tnames = append(tnames, n)
	}
	sortStrings(tnames)
	b.WriteString("/-! Named types read from the source:")
	for _, n := range tnames {
		b.WriteString(" `" + n + "` = " + wsfLeanTy[w.types[n]] + ";")
	}
	b.WriteString(" -/\n\n")
	for _, sel := range ms.ConstSel {
		if _, ok := w.consts[sel]; !ok {
			die("untranslatable: constant %s not found or not evaluable", sel)
		}
		w.used[sel] = true
	}
	for _, n := range w.order {
		if !w.used[n] {
			continue
		}
		c := w.consts[n]
		k := c.kind
		if k == "" {
			k = "int"
		}
		if !wsfFits(c.val, k) {
			die("untranslatable: constant %s = %s overflows %s", n, c.val.String(), k)
		}
		fmt.Fprintf(&b, "/-- `%s` (%s). -/\ndef %s : %s := %s\n\n", n, filepath.Base(c.file), lname(n), wsfLeanTy[k], c.val.String())
	}
	b.WriteString(body.String())
	b.WriteString("end Sonic.Gen." + ms.Module + "\n")
	write(filepath.Join(out, ms.Module+".lean"), b.String())
}

func sortStrings(s []string) {
	for i := 1; i < len(s); i++ {
		for j := i; j > 0 && s[j] < s[j-1]; j-- {
			s[j], s[j-1] = s[j-1], s[j]
		}
	}
}
