module go2lean

go 1.24.1
