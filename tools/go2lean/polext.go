package main

// Extensions of the translator used by the `Poller` module (internal/poll_linux.go: setRW, SetRead, SetWrite,
// DelRead, DelWrite, Del).  All helper names carry the prefix `pol`.
//
//   * named unsigned integer types (`type PollerEvent uint32`) become `BitVec w`; `& | ^ &^` and their assignment
//     forms on such values become `&&& ||| ^^^` / `&&& ~~~`; constants of such types are evaluated from the source
//     (`syscall.X` is taken from the syscall package of the toolchain that builds this tool);
//   * a pointer parameter (`slot *Slot`) whose kept fields are listed in the spec is part of the threaded state:
//     `slot.Events` is the Lean field `self.slot_Events`; the parameter itself disappears from the signature and a
//     call must pass the same pointer on;
//   * `x := &slot.F` introduces an alias, `*x` reads and `*x = e` / `*x op= e` write the aliased field;
//   * `atomic.AddInt64(&recv.f, k)` is `recv.f = recv.f + k` (64-bit wrap);
//   * `error` is `Go.Error` (`nil` / `err code`);
//   * calls of receiver methods named in `externs` are NOT translated: the call is appended to the ghost field
//     `calls` (function and integer arguments) and its result is the head of the ghost field `oracle`
//     (`Go.Error.nil` when the oracle is exhausted), which is consumed.  Theorems quantify over every oracle.
//   * the result of a mutating call can be bound (`x := recv.M(..)`, `x = recv.M(..)`) or returned.

import (
	"fmt"
	"go/ast"
	"go/parser"
	"go/token"
	"os"
	"path/filepath"
	"strings"
	"syscall"
)

type PolFieldSpec struct {
	Name string `json:"name"`
	Type string `json:"type"` // Int | Bool | a name listed in bittypes
}

type PolPtrParamSpec struct {
	Name   string         `json:"name"`   // parameter name, e.g. "slot"
	Type   string         `json:"type"`   // pointee struct type, e.g. "Slot"
	File   string         `json:"file"`   // file declaring the struct
	Fields []PolFieldSpec `json:"fields"` // kept fields
}

type polState struct {
	bitW     map[string]int // bit type name -> width
	bitConst map[string]int // constant name -> width
	ptr      map[string]*PolPtrParamSpec
	fieldK   map[string]string // Lean field name -> kind
	alias    map[string]*ast.SelectorExpr
	externs  map[string]bool
	opaque   map[string]bool
	ptrIdx   map[string][]int // translated method -> indices of its pointer parameters
	nparams  map[string]int
}

// polSyscallConsts: the constants of package syscall the translated files refer to, as compiled into this tool.
var polSyscallConsts = map[string]int64{
	"EPOLLIN":       syscall.EPOLLIN,
	"EPOLLOUT":      syscall.EPOLLOUT,
	"EPOLLERR":      syscall.EPOLLERR,
	"EPOLLHUP":      syscall.EPOLLHUP,
	"EPOLLPRI":      syscall.EPOLLPRI,
	"EPOLLRDHUP":    syscall.EPOLLRDHUP,
	"EPOLL_CTL_ADD": syscall.EPOLL_CTL_ADD,
	"EPOLL_CTL_DEL": syscall.EPOLL_CTL_DEL,
	"EPOLL_CTL_MOD": syscall.EPOLL_CTL_MOD,
}

// ---- failure isolation -------------------------------------------------------------------------------------------

type polFailure struct{ msg string }

var polIsolating bool

// polGuarded runs the translation of one module. For a module marked `isolated`, an untranslatable construct does not
// stop the tool (which would break the regeneration step of every property): the module's file becomes a stub that
// does not compile and carries the message, so exactly the proofs that import it are reported as broken.
func polGuarded(ms ModuleSpec, out string, body func()) {
	if !ms.Isolated {
		body()
		return
	}
	polIsolating = true
	defer func() {
		polIsolating = false
		if r := recover(); r != nil {
			pf, ok := r.(polFailure)
			if !ok {
				panic(r)
			}
			fmt.Fprintf(os.Stderr, "go2lean: module %s: %s (stub written)\n", ms.Module, pf.msg)
			msg := strings.NewReplacer("\\", "/", "\"", "'", "\n", " ").Replace(pf.msg)
			stub := header(ms.File) + "-- " + msg + "\nnamespace Sonic.Gen." + ms.Module + "\n\n" +
				"#eval show IO Unit from throw (IO.userError \"go2lean: " + msg + "\")\n\nend Sonic.Gen." + ms.Module + "\n"
			write(filepath.Join(out, ms.Module+".lean"), stub)
		}
	}()
	body()
}

func polUses(ms ModuleSpec) bool {
	return len(ms.BitTypes)+len(ms.BitConsts)+len(ms.PtrParams)+len(ms.Externs)+len(ms.Opaque) > 0
}

func polUnsignedWidth(name string) int {
	switch name {
	case "uint8", "byte":
		return 8
	case "uint16":
		return 16
	case "uint32":
		return 32
	case "uint64":
		return 64
	}
	return 0
}

// polInit reads the declarations the extensions depend on and writes the module preamble (constants, the type of
// external calls, the state structure and the oracle step).
func polInit(t *tr, root string, f *ast.File, b *strings.Builder) {
	ms := t.ms
	p := &polState{bitW: map[string]int{}, bitConst: map[string]int{}, ptr: map[string]*PolPtrParamSpec{}, fieldK: map[string]string{},
		alias: map[string]*ast.SelectorExpr{}, externs: map[string]bool{}, opaque: map[string]bool{}, ptrIdx: map[string][]int{},
		nparams: map[string]int{}}
	t.pol = p
	for _, e := range ms.Externs {
		p.externs[e] = true
	}
	for _, e := range ms.Opaque {
		p.opaque[e] = true
	}
	// bit types: `type T uintN`
	for _, bt := range ms.BitTypes {
		for _, d := range f.Decls {
			gd, ok := d.(*ast.GenDecl)
			if !ok || gd.Tok != token.TYPE {
				continue
			}
			for _, sp := range gd.Specs {
				ts := sp.(*ast.TypeSpec)
				if id, ok := ts.Type.(*ast.Ident); ok && ts.Name.Name == bt {
					p.bitW[bt] = polUnsignedWidth(id.Name)
				}
			}
		}
		if p.bitW[bt] == 0 {
			die("untranslatable: %s is not declared as an unsigned integer type in %s", bt, ms.File)
		}
	}
	// constants of bit types
	env := map[string]int64{}
	order := []string{}
	constsOf(t.fset, filepath.Join(root, ms.File), env, &order)
	for _, cn := range ms.BitConsts {
		w := 0
		for _, d := range f.Decls {
			gd, ok := d.(*ast.GenDecl)
			if !ok || gd.Tok != token.CONST {
				continue
			}
			for _, sp := range gd.Specs {
				vs := sp.(*ast.ValueSpec)
				for j, n := range vs.Names {
					if n.Name != cn {
						continue
					}
					if id, ok := vs.Type.(*ast.Ident); ok {
						w = p.bitW[id.Name]
					}
					if j < len(vs.Values) {
						if call, ok := vs.Values[j].(*ast.CallExpr); ok {
							if id, ok := call.Fun.(*ast.Ident); ok && p.bitW[id.Name] > 0 {
								w = p.bitW[id.Name]
							}
						}
					}
				}
			}
		}
		v, ok := env[cn]
		if !ok || w == 0 {
			die("untranslatable: constant %s is not an evaluable constant of a bit type in %s", cn, ms.File)
		}
		if v < 0 || (w < 64 && v >= int64(1)<<uint(w)) {
			die("untranslatable: constant %s = %d does not fit %d bits", cn, v, w)
		}
		p.bitConst[cn] = w
		fmt.Fprintf(b, "/-- `%s` (%s). -/\ndef %s : BitVec %d := %d#%d\n\n", cn, filepath.Base(ms.File), lname(cn), w, v, w)
	}
	// external calls
	if len(ms.Externs) > 0 {
		b.WriteString("/-- Receiver methods that are not translated (system-call wrappers). -/\ninductive Ext where\n")
		for _, e := range ms.Externs {
			found := false
			for _, d := range f.Decls {
				if fd, ok := d.(*ast.FuncDecl); ok && fd.Name.Name == e && fd.Recv != nil {
					found = true
				}
			}
			if !found {
				die("untranslatable: external method %s not found in %s", e, ms.File)
			}
			b.WriteString("  | " + lname(e) + "\n")
		}
		b.WriteString("  deriving Repr, DecidableEq\n\n")
	}
	// the state structure
	goFields := map[string]ast.Expr{}
	for _, d := range f.Decls {
		gd, ok := d.(*ast.GenDecl)
		if !ok || gd.Tok != token.TYPE {
			continue
		}
		for _, sp := range gd.Specs {
			ts := sp.(*ast.TypeSpec)
			if st, ok := ts.Type.(*ast.StructType); ok && ts.Name.Name == ms.Type {
				for _, fl := range st.Fields.List {
					for _, n := range fl.Names {
						goFields[n.Name] = fl.Type
					}
				}
			}
		}
	}
	b.WriteString("structure " + ms.Type + " where\n")
	if len(ms.Externs) > 0 {
		b.WriteString("  oracle : List Go.Error\n  calls : List (Ext × List Int)\n")
	}
	for _, fl := range ms.Fields {
		ty, ok := goFields[fl.Name]
		if !ok || t.ltype(ty) != fl.Type {
			die("untranslatable: field %s.%s has Go type %q, expected %s", ms.Type, fl.Name, polTypeString(ty), fl.Type)
		}
		b.WriteString("  " + lname(fl.Name) + " : " + fl.Type + "\n")
		p.fieldK[fl.Name] = polKindOfLean(fl.Type)
	}
	for i := range ms.PtrParams {
		pp := &ms.PtrParams[i]
		p.ptr[pp.Name] = pp
		pf, err := parser.ParseFile(t.fset, filepath.Join(root, pp.File), nil, 0)
		if err != nil {
			die("parse %s: %v", pp.File, err)
		}
		sf := map[string]ast.Expr{}
		for _, d := range pf.Decls {
			gd, ok := d.(*ast.GenDecl)
			if !ok || gd.Tok != token.TYPE {
				continue
			}
			for _, sp := range gd.Specs {
				ts := sp.(*ast.TypeSpec)
				if st, ok := ts.Type.(*ast.StructType); ok && ts.Name.Name == pp.Type {
					for _, fl := range st.Fields.List {
						for _, n := range fl.Names {
							sf[n.Name] = fl.Type
						}
					}
				}
			}
		}
		for _, fl := range pp.Fields {
			want := fl.Type
			if w := p.bitW[fl.Type]; w > 0 {
				want = fmt.Sprintf("BitVec %d", w)
			}
			ty, ok := sf[fl.Name]
			if !ok || t.ltype(ty) != want {
				die("untranslatable: field %s.%s has Go type %q, expected %s", pp.Type, fl.Name, polTypeString(ty), fl.Type)
			}
			ln := pp.Name + "_" + fl.Name
			b.WriteString("  " + ln + " : " + want + "\n")
			p.fieldK[ln] = polKindOfLean(want)
		}
	}
	b.WriteString("  deriving Repr, DecidableEq\n\n")
	if len(ms.Externs) > 0 {
		b.WriteString("/-- An external call: recorded, and answered by the oracle (an exhausted oracle answers `nil`). -/\n")
		b.WriteString("def " + ms.Type + ".ext (self : " + ms.Type + ") (f : Ext) (args : List Int) : " + ms.Type + " × Go.Error :=\n")
		b.WriteString("  ({ self with oracle := self.oracle.tail, calls := (f, args) :: self.calls }, self.oracle.headD Go.Error.nil)\n\n")
	}
}

func polTypeString(e ast.Expr) string {
	switch x := e.(type) {
	case nil:
		return "<missing>"
	case *ast.Ident:
		return x.Name
	case *ast.StarExpr:
		return "*" + polTypeString(x.X)
	}
	return fmt.Sprintf("%T", e)
}

func polKindOfLean(ty string) string {
	switch {
	case ty == "Int":
		return "int"
	case ty == "Bool":
		return "bool"
	case ty == "Go.Error":
		return "err"
	case strings.HasPrefix(ty, "BitVec "):
		return "bits"
	}
	return "struct:" + ty
}

// ltype is leanType extended by bit types and `error`.
func (t *tr) ltype(e ast.Expr) string {
	if id, ok := e.(*ast.Ident); ok && t.pol != nil {
		if w := t.pol.bitW[id.Name]; w > 0 {
			return fmt.Sprintf("BitVec %d", w)
		}
		if id.Name == "error" {
			return "Go.Error"
		}
	}
	return leanType(e)
}

// polPtrParamOf: is this parameter (name, type) one of the configured pointer parameters?
func (t *tr) polIsPtrParam(name string, ty ast.Expr) bool {
	if t.pol == nil {
		return false
	}
	pp, ok := t.pol.ptr[name]
	if !ok {
		return false
	}
	st, ok := ty.(*ast.StarExpr)
	if !ok {
		return false
	}
	id, ok := st.X.(*ast.Ident)
	return ok && id.Name == pp.Type
}

// polField resolves `recv.f` / `ptr.f` / `*alias` to the Lean field name of the state structure.
func (t *tr) polField(e ast.Expr) (string, bool) {
	if t.pol == nil {
		return "", false
	}
	switch x := e.(type) {
	case *ast.ParenExpr:
		return t.polField(x.X)
	case *ast.StarExpr:
		if id, ok := x.X.(*ast.Ident); ok {
			if tgt, ok := t.pol.alias[id.Name]; ok {
				return t.polField(tgt)
			}
		}
	case *ast.SelectorExpr:
		id, ok := x.X.(*ast.Ident)
		if !ok {
			return "", false
		}
		if id.Name == t.recv && t.recv != "" {
			for _, f := range t.ms.Fields {
				if f.Name == x.Sel.Name {
					return lname(f.Name), true
				}
			}
			return "", false
		}
		if pp, ok := t.pol.ptr[id.Name]; ok && t.kinds[id.Name] == "ptr" {
			for _, f := range pp.Fields {
				if f.Name == x.Sel.Name {
					return pp.Name + "_" + f.Name, true
				}
			}
			t.untr(x, "field "+x.Sel.Name+" of "+id.Name+" is not in the kept field list")
		}
	}
	return "", false
}

func (t *tr) polIsBits(e ast.Expr) bool {
	if t.pol == nil {
		return false
	}
	switch x := e.(type) {
	case *ast.ParenExpr:
		return t.polIsBits(x.X)
	case *ast.Ident:
		return t.kinds[x.Name] == "bits" || t.pol.bitConst[x.Name] > 0
	case *ast.StarExpr, *ast.SelectorExpr:
		if f, ok := t.polField(e); ok {
			return t.pol.fieldK[f] == "bits"
		}
	case *ast.BinaryExpr:
		switch x.Op {
		case token.AND, token.OR, token.XOR, token.AND_NOT:
			return t.polIsBits(x.X) || t.polIsBits(x.Y)
		}
	}
	return false
}

func (t *tr) polIsErr(e ast.Expr) bool {
	if id, ok := e.(*ast.Ident); ok {
		return t.kinds[id.Name] == "err"
	}
	return false
}

// polBitOp translates a binary bit operation on `BitVec` operands.
func polBitOp(op token.Token, a, b string) (string, bool) {
	switch op {
	case token.AND, token.AND_ASSIGN:
		return "(" + a + " &&& " + b + ")", true
	case token.OR, token.OR_ASSIGN:
		return "(" + a + " ||| " + b + ")", true
	case token.XOR, token.XOR_ASSIGN:
		return "(" + a + " ^^^ " + b + ")", true
	case token.AND_NOT, token.AND_NOT_ASSIGN:
		return "(" + a + " &&& ~~~" + b + ")", true
	}
	return "", false
}

// polCallee classifies `recv.M(..)`: extern, or a translated sibling that threads the state and returns a value.
func (t *tr) polCallee(e ast.Expr) (call *ast.CallExpr, name string, extern bool, ok bool) {
	if t.pol == nil {
		return nil, "", false, false
	}
	call, isCall := e.(*ast.CallExpr)
	if !isCall {
		return nil, "", false, false
	}
	sel, isSel := call.Fun.(*ast.SelectorExpr)
	if !isSel {
		return nil, "", false, false
	}
	id, isId := sel.X.(*ast.Ident)
	if !isId || id.Name != t.recv || t.recv == "" {
		return nil, "", false, false
	}
	m := sel.Sel.Name
	if t.pol.externs[m] {
		return call, m, true, true
	}
	if mut, known := t.mut[m]; known && mut && t.rets[m] != "" {
		return call, m, false, true
	}
	return nil, "", false, false
}

// polExtArg: an argument of an external call, as an `Int`.
func (t *tr) polExtArg(e ast.Expr) string {
	if call, ok := e.(*ast.CallExpr); ok {
		if id, ok := call.Fun.(*ast.Ident); ok && t.pol.opaque[id.Name] && len(call.Args) >= 1 {
			return t.polExtArg(call.Args[0])
		}
	}
	if t.polIsBits(e) {
		return "(Int.ofNat " + t.expr(e) + ".toNat)"
	}
	return t.expr(e)
}

// polSiblingArgs: arguments of a call of a translated sibling; pointer parameters must be passed on unchanged.
func (t *tr) polSiblingArgs(call *ast.CallExpr, m string) []string {
	args := []string{"self"}
	skip := map[int]bool{}
	if t.pol != nil {
		if n, ok := t.pol.nparams[m]; ok && n != len(call.Args) {
			t.untr(call, fmt.Sprintf("call of %s with %d arguments (declared with %d)", m, len(call.Args), n))
		}
		for _, i := range t.pol.ptrIdx[m] {
			skip[i] = true
			if i >= len(call.Args) {
				t.untr(call, "missing pointer argument in call of "+m)
			}
			id, ok := call.Args[i].(*ast.Ident)
			if !ok || t.kinds[id.Name] != "ptr" {
				t.untr(call, "pointer argument of "+m+" is not the caller's own pointer parameter")
			}
		}
	}
	for i, a := range call.Args {
		if !skip[i] {
			args = append(args, t.expr(a))
		}
	}
	return args
}

// polCallTerm: the Lean term (of type `State × R`) of an external call or of a value-returning mutating sibling.
func (t *tr) polCallTerm(call *ast.CallExpr, m string, extern bool) (term string, kind string) {
	if extern {
		args := []string{}
		for _, a := range call.Args {
			args = append(args, t.polExtArg(a))
		}
		return "(" + t.ms.Type + ".ext self Ext." + lname(m) + " [" + strings.Join(args, ", ") + "])", "err"
	}
	return "(" + t.ms.Type + "." + m + " " + strings.Join(t.polSiblingArgs(call, m), " ") + ")", polKindOfLean(t.rets[m])
}

// polAtomicAdd recognises `atomic.AddInt64(&recv.f, k)`.
func (t *tr) polAtomicAdd(call *ast.CallExpr) (field string, delta string, ok bool) {
	if t.pol == nil {
		return "", "", false
	}
	sel, isSel := call.Fun.(*ast.SelectorExpr)
	if !isSel {
		return "", "", false
	}
	id, isId := sel.X.(*ast.Ident)
	if !isId || id.Name != "atomic" || (sel.Sel.Name != "AddInt64" && sel.Sel.Name != "AddInt32") || len(call.Args) != 2 {
		return "", "", false
	}
	u, isU := call.Args[0].(*ast.UnaryExpr)
	if !isU || u.Op != token.AND {
		return "", "", false
	}
	f, isF := t.polField(u.X)
	if !isF || t.pol.fieldK[f] != "int" {
		t.untr(call, "atomic add on something that is not a kept integer field")
	}
	return f, t.expr(call.Args[1]), true
}

// polAssign handles the assignment forms of the extensions; ok=false means "not mine".
func (t *tr) polAssign(x *ast.AssignStmt, ind string, k func() string) (string, bool) {
	if t.pol == nil || len(x.Lhs) != 1 || len(x.Rhs) != 1 {
		return "", false
	}
	// alias: x := &ptr.f
	if u, ok := x.Rhs[0].(*ast.UnaryExpr); ok && u.Op == token.AND && x.Tok == token.DEFINE {
		if sel, ok := u.X.(*ast.SelectorExpr); ok {
			if _, ok := t.polField(sel); ok {
				l, isId := x.Lhs[0].(*ast.Ident)
				if !isId {
					t.untr(x, "alias target")
				}
				t.pol.alias[l.Name] = sel
				t.kinds[l.Name] = "alias"
				return k(), true
			}
		}
		t.untr(x, "address-of something that is not a kept field")
	}
	// x := recv.M(..) / x = recv.M(..) where M threads the state
	if call, m, extern, ok := t.polCallee(x.Rhs[0]); ok {
		l, isId := x.Lhs[0].(*ast.Ident)
		if !isId || (x.Tok != token.DEFINE && x.Tok != token.ASSIGN) {
			t.untr(x, "result of a state-threading call assigned to something other than a local variable")
		}
		term, kind := t.polCallTerm(call, m, extern)
		out := ind + "let call' := " + term + "\n" + ind + "let self := call'.1\n"
		if l.Name != "_" {
			if x.Tok == token.DEFINE {
				t.kinds[l.Name] = kind
			}
			out += ind + "let " + lname(l.Name) + " := call'.2\n"
		}
		return out + k(), true
	}
	// *alias = e, *alias op= e, ptr.f = e, ptr.f op= e   (recv.f is handled by the generic code unless it is a bit field)
	if f, ok := t.polField(x.Lhs[0]); ok {
		if sel, isSel := x.Lhs[0].(*ast.SelectorExpr); isSel && t.pol.fieldK[f] != "bits" {
			if id, ok := sel.X.(*ast.Ident); ok && id.Name == t.recv {
				return "", false
			}
		}
		cur := "self." + f
		val := t.expr(x.Rhs[0])
		switch {
		case x.Tok == token.ASSIGN:
		case t.pol.fieldK[f] == "bits":
			v, ok := polBitOp(x.Tok, cur, val)
			if !ok {
				t.untr(x, "assignment operator "+x.Tok.String()+" on a bit field")
			}
			val = v
		default:
			op := map[token.Token]string{token.ADD_ASSIGN: "Go.add", token.SUB_ASSIGN: "Go.sub", token.MUL_ASSIGN: "Go.mul",
				token.AND_ASSIGN: "Go.land", token.OR_ASSIGN: "Go.lor", token.REM_ASSIGN: "Go.mod"}[x.Tok]
			if op == "" {
				t.untr(x, "assignment operator "+x.Tok.String())
			}
			val = "(" + op + " " + cur + " " + val + ")"
		}
		return ind + "let self := { self with " + f + " := " + val + " }\n" + k(), true
	}
	// local bit variable: x op= e
	if l, ok := x.Lhs[0].(*ast.Ident); ok && t.kinds[l.Name] == "bits" && x.Tok != token.ASSIGN && x.Tok != token.DEFINE {
		v, ok := polBitOp(x.Tok, lname(l.Name), t.expr(x.Rhs[0]))
		if !ok {
			t.untr(x, "assignment operator "+x.Tok.String()+" on a bit value")
		}
		return ind + "let " + lname(l.Name) + " := " + v + "\n" + k(), true
	}
	// x := e where e is a bit value or an error value: record the kind, let the generic code emit the `let`
	if l, ok := x.Lhs[0].(*ast.Ident); ok && x.Tok == token.DEFINE {
		if t.polIsBits(x.Rhs[0]) {
			val := t.expr(x.Rhs[0])
			t.kinds[l.Name] = "bits"
			return ind + "let " + lname(l.Name) + " := " + val + "\n" + k(), true
		}
		if t.polIsErr(x.Rhs[0]) {
			val := t.expr(x.Rhs[0])
			t.kinds[l.Name] = "err"
			return ind + "let " + lname(l.Name) + " := " + val + "\n" + k(), true
		}
	}
	return "", false
}

// polExprStmt handles `atomic.AddInt64(&recv.f, k)` and external calls whose result is dropped.
func (t *tr) polExprStmt(x *ast.ExprStmt, ind string, k func() string) (string, bool) {
	if t.pol == nil {
		return "", false
	}
	call, ok := x.X.(*ast.CallExpr)
	if !ok {
		return "", false
	}
	if f, d, ok := t.polAtomicAdd(call); ok {
		return ind + "let self := { self with " + f + " := (Go.add self." + f + " " + d + ") }\n" + k(), true
	}
	if c, m, extern, ok := t.polCallee(call); ok {
		term, _ := t.polCallTerm(c, m, extern)
		return ind + "let self := " + term + ".1\n" + k(), true
	}
	return "", false
}

// polReturn handles `return recv.M(..)` where M threads the state.
func (t *tr) polReturn(x *ast.ReturnStmt, ind string) (string, bool) {
	if t.pol == nil || len(x.Results) != 1 {
		return "", false
	}
	if call, m, extern, ok := t.polCallee(x.Results[0]); ok {
		term, _ := t.polCallTerm(call, m, extern)
		return ind + "let call' := " + term + "\n" + ind + "let self := call'.1\n" + ind + t.ret([]string{"call'.2"}) + "\n", true
	}
	return "", false
}

// polMutates: does the body write the threaded state (fields, aliases, atomics, external calls)?
func (t *tr) polMutates(fd *ast.FuncDecl) bool {
	found := false
	ast.Inspect(fd.Body, func(n ast.Node) bool {
		switch x := n.(type) {
		case *ast.AssignStmt:
			for _, l := range x.Lhs {
				switch y := l.(type) {
				case *ast.StarExpr:
					found = true
				case *ast.SelectorExpr:
					if id, ok := y.X.(*ast.Ident); ok {
						if _, isPtr := t.pol.ptr[id.Name]; isPtr {
							found = true
						}
					}
				}
			}
		case *ast.IncDecStmt:
			if _, ok := x.X.(*ast.StarExpr); ok {
				found = true
			}
		case *ast.CallExpr:
			if sel, ok := x.Fun.(*ast.SelectorExpr); ok {
				if id, ok := sel.X.(*ast.Ident); ok {
					if id.Name == "atomic" && strings.HasPrefix(sel.Sel.Name, "Add") {
						found = true
					}
					if id.Name == t.recv && t.pol.externs[sel.Sel.Name] {
						found = true
					}
				}
			}
		}
		return true
	})
	return found
}
