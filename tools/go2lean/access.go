package main

// Access-table extraction for C05 (tie T): every access to selected fields of a struct, with the enclosing
// function, whether it happens through sync/atomic, and which mutex is lexically held; plus, for selected
// functions, the order of the synchronisation-relevant statements.

import (
	"fmt"
	"go/ast"
	"go/parser"
	"go/token"
	"path/filepath"
	"sort"
	"strings"
)

type AccessSpec struct {
	Module string   `json:"module"`
	File   string   `json:"file"`
	Recv   string   `json:"recv"`   // receiver type, e.g. "poller"
	Fields []string `json:"fields"` // fields to track
	Mutex  string   `json:"mutex"`  // mutex field
	Seqs   []string `json:"seqs"`   // functions whose statement order is emitted
}

type access struct {
	fn     string
	field  string
	write  bool
	atomic bool
	locked bool
	line   int
}

func exprIsField(e ast.Expr, recv, field string) bool {
	sel, ok := e.(*ast.SelectorExpr)
	if !ok || sel.Sel.Name != field {
		return false
	}
	id, ok := sel.X.(*ast.Ident)
	return ok && id.Name == recv
}

func genAccess(root, out string, as AccessSpec) {
	fset := token.NewFileSet()
	f, err := parser.ParseFile(fset, filepath.Join(root, as.File), nil, 0)
	if err != nil {
		die("parse %s: %v", as.File, err)
	}
	var accs []access
	seqs := map[string][]string{}
	for _, d := range f.Decls {
		fd, ok := d.(*ast.FuncDecl)
		if !ok || fd.Recv == nil || len(fd.Recv.List) != 1 || fd.Body == nil {
			continue
		}
		rt := fd.Recv.List[0].Type
		if st, ok := rt.(*ast.StarExpr); ok {
			rt = st.X
		}
		if id, ok := rt.(*ast.Ident); !ok || id.Name != as.Recv {
			continue
		}
		if len(fd.Recv.List[0].Names) == 0 {
			continue
		}
		recv := fd.Recv.List[0].Names[0].Name
		wantSeq := false
		for _, s := range as.Seqs {
			if s == fd.Name.Name {
				wantSeq = true
			}
		}
		locked := false
		deferred := false
		var seq []string
		// walk statements in source order, tracking Lock()/Unlock() on the mutex lexically
		var walkStmt func(s ast.Stmt, inLoop bool)
		record := func(n ast.Node, atomicCtx bool, writeCtx map[ast.Expr]bool) {
			ast.Inspect(n, func(x ast.Node) bool {
				e, ok := x.(ast.Expr)
				if !ok {
					return true
				}
				for _, fld := range as.Fields {
					if exprIsField(e, recv, fld) {
						accs = append(accs, access{fn: fd.Name.Name, field: fld, write: writeCtx[e], atomic: atomicCtx,
							locked: locked || deferred, line: fset.Position(e.Pos()).Line})
					}
				}
				return true
			})
		}
		classifyCall := func(call *ast.CallExpr) string {
			sel, ok := call.Fun.(*ast.SelectorExpr)
			if !ok {
				if id, ok := call.Fun.(*ast.Ident); ok && id.Name == "handler" {
					return "run"
				}
				return ""
			}
			// p.lck.Lock() / Unlock()
			if inner, ok := sel.X.(*ast.SelectorExpr); ok && exprIsField(inner, recv, as.Mutex) {
				return strings.ToLower(sel.Sel.Name)
			}
			if inner, ok := sel.X.(*ast.SelectorExpr); ok && exprIsField(inner, recv, "waker") {
				if sel.Sel.Name == "Write" {
					return "wake"
				}
				if sel.Sel.Name == "Read" {
					return "drain"
				}
			}
			if id, ok := sel.X.(*ast.Ident); ok && id.Name == "atomic" {
				return "atomic:" + sel.Sel.Name
			}
			return ""
		}
		var walkExprCalls func(n ast.Node) // emits seq tokens + accesses for calls inside an expression/statement
		walkExprCalls = func(n ast.Node) {
			ast.Inspect(n, func(x ast.Node) bool {
				call, ok := x.(*ast.CallExpr)
				if !ok {
					return true
				}
				switch k := classifyCall(call); {
				case k == "lock":
					locked = true
					seq = append(seq, "lock")
					return false
				case k == "unlock":
					locked = false
					seq = append(seq, "unlock")
					return false
				case k == "wake" || k == "drain" || k == "run":
					seq = append(seq, k)
				case strings.HasPrefix(k, "atomic:"):
					// atomic.AddInt64(&p.pending, d) / LoadInt64 / ...
					w := map[ast.Expr]bool{}
					isWrite := !strings.HasPrefix(k, "atomic:Load")
					for _, a := range call.Args {
						if u, ok := a.(*ast.UnaryExpr); ok && u.Op == token.AND {
							w[u.X] = isWrite
							for _, fld := range as.Fields {
								if exprIsField(u.X, recv, fld) {
									tok := "atomic-load:" + fld
									if isWrite {
										tok = "atomic-rmw:" + fld
										if len(call.Args) == 2 {
											if ue, ok := call.Args[1].(*ast.UnaryExpr); ok && ue.Op == token.SUB {
												tok = "atomic-dec:" + fld
											} else {
												tok = "atomic-inc:" + fld
											}
										}
									}
									seq = append(seq, tok)
								}
							}
						}
					}
					record(call, true, w)
					return false
				}
				return true
			})
		}
		walkStmt = func(s ast.Stmt, inLoop bool) {
			switch x := s.(type) {
			case *ast.BlockStmt:
				for _, y := range x.List {
					walkStmt(y, inLoop)
				}
			case *ast.DeferStmt:
				if classifyCall(x.Call) == "unlock" {
					deferred = true
					seq = append(seq, "defer-unlock")
				}
			case *ast.ForStmt:
				seq = append(seq, "loop{")
				if x.Cond != nil {
					walkExprCalls(x.Cond)
					record(x.Cond, false, nil)
				}
				walkStmt(x.Body, true)
				seq = append(seq, "}")
			case *ast.RangeStmt:
				seq = append(seq, "range{")
				record(x.X, false, nil)
				walkStmt(x.Body, true)
				seq = append(seq, "}")
			case *ast.IfStmt:
				if x.Init != nil {
					walkStmt(x.Init, inLoop)
				}
				walkExprCalls(x.Cond)
				record(x.Cond, false, nil)
				walkStmt(x.Body, inLoop)
				if x.Else != nil {
					walkStmt(x.Else, inLoop)
				}
			case *ast.AssignStmt:
				w := map[ast.Expr]bool{}
				for _, l := range x.Lhs {
					w[l] = true
					for _, fld := range as.Fields {
						if exprIsField(l, recv, fld) {
							kind := "assign:" + fld
							if len(x.Rhs) == 1 {
								if id, ok := x.Rhs[0].(*ast.Ident); ok && id.Name == "nil" {
									kind = "clear:" + fld
								}
								if c, ok := x.Rhs[0].(*ast.CallExpr); ok {
									if id, ok := c.Fun.(*ast.Ident); ok && id.Name == "append" {
										kind = "append:" + fld
									}
								}
							}
							seq = append(seq, kind)
						}
					}
				}
				for _, r := range x.Rhs {
					for _, fld := range as.Fields {
						if exprIsField(r, recv, fld) {
							seq = append(seq, "take:"+fld)
						}
					}
				}
				for _, r := range x.Rhs {
					walkExprCalls(r)
				}
				// accesses: lhs are writes, everything on the rhs reads (atomic calls were recorded by walkExprCalls)
				for _, l := range x.Lhs {
					record(l, false, w)
				}
				for _, r := range x.Rhs {
					if c, ok := r.(*ast.CallExpr); ok && strings.HasPrefix(classifyCall(c), "atomic:") {
						continue
					}
					record(r, false, nil)
				}
			case *ast.ExprStmt:
				walkExprCalls(x.X)
				if c, ok := x.X.(*ast.CallExpr); ok {
					k := classifyCall(c)
					if k == "lock" || k == "unlock" || strings.HasPrefix(k, "atomic:") {
						return
					}
				}
				record(x.X, false, nil)
			case *ast.ReturnStmt:
				for _, r := range x.Results {
					walkExprCalls(r)
					if c, ok := r.(*ast.CallExpr); ok && strings.HasPrefix(classifyCall(c), "atomic:") {
						continue
					}
					record(r, false, nil)
				}
			case *ast.BranchStmt, *ast.EmptyStmt, *ast.DeclStmt, *ast.IncDecStmt:
				if ids, ok := s.(*ast.IncDecStmt); ok {
					record(ids.X, false, map[ast.Expr]bool{ids.X: true})
				}
			default:
				// other statements: still record accesses conservatively
				record(s, false, nil)
			}
		}
		walkStmt(fd.Body, false)
		if wantSeq {
			seqs[fd.Name.Name] = seq
		}
	}
	sort.SliceStable(accs, func(i, j int) bool { return accs[i].line < accs[j].line })
	var b strings.Builder
	b.WriteString(header(as.File))
	b.WriteString("namespace Sonic.Gen." + as.Module + "\n\n")
	b.WriteString("structure Access where\n  fn : String\n  field : String\n  write : Bool\n  atomic : Bool\n  locked : Bool\n  deriving Repr, DecidableEq\n\n")
	b.WriteString("/-- Every access to the tracked fields of `" + as.Recv + "` in " + as.File + ", in source order. -/\n")
	b.WriteString("def table : List Access := [\n")
	for i, a := range accs {
		sep := ","
		if i == len(accs)-1 {
			sep = ""
		}
		fmt.Fprintf(&b, "  { fn := %q, field := %q, write := %v, atomic := %v, locked := %v }%s\n", a.fn, a.field, a.write, a.atomic, a.locked, sep)
	}
	b.WriteString("]\n\n")
	names := make([]string, 0, len(seqs))
	for n := range seqs {
		names = append(names, n)
	}
	sort.Strings(names)
	for _, n := range names {
		fmt.Fprintf(&b, "/-- Order of the synchronisation-relevant statements of `%s`. -/\ndef seq%s : List String := [", n, strings.Title(n))
		for i, t := range seqs[n] {
			if i > 0 {
				b.WriteString(", ")
			}
			fmt.Fprintf(&b, "%q", t)
		}
		b.WriteString("]\n\n")
	}
	for _, s := range as.Seqs {
		if _, ok := seqs[s]; !ok {
			die("untranslatable: function %s.%s not found in %s", as.Recv, s, as.File)
		}
	}
	b.WriteString("end Sonic.Gen." + as.Module + "\n")
	write(filepath.Join(out, as.Module+".lean"), b.String())
}
