"""Per-property configuration of /verif/check (see DESIGN.md section 5)."""

LEAN_TB = [
    "Lean 4.33.0 kernel (axioms allowed: propext, Classical.choice, Quot.sound; no sorry/native_decide/bv_decide/own axioms)",
    "tools/go2lean (Go->Lean translator for first-order integer code) and Sonic/Go/Prelude.lean (int64 wrap, checked slices)",
    "correspondence check: harness (real code, in process) vs sonicdrv (model acceptor + property monitor)",
]

PROPS = {
    "C10": {
        "id": "C10",
        "lean_targets": ["Sonic.Props.C10"],
        "theorems": [
            "Sonic.Props.C10.C10_fifo_of_contiguous_chunks",
            "Sonic.Props.C10.C10_claim_disjoint",
            "Sonic.Props.C10.C10_empty_grants_full",
            "Sonic.Props.C10.C10_inv_reachable",
        ],
        "runs": [{
            "component": "bip",
            "quick": {"gen": [(3000, 40)], "enum": [(4, 3)]},
            "thorough": {"gen": [(60000, 60)], "enum": [(s, 4) for s in range(1, 10)] + [(4, 5)]},
        }],
        "rule": "scripts = NewBipBuffer(size) followed by random Claim/Commit/Head/Consume/Committed/Reset with boundary-biased "
                "arguments (0, size, size+k, 2^31, 2^62, MaxInt) or every sequence over {0,1,size/2,size} (exhaustive); a script is "
                "non-trivial when the model reached a non-default branch (wrapped region, promotion, clamped claim/commit, "
                "partial commit, over-consume, claim placed before the head); distinct = by SHA-1 of the implementation trace",
        "trusted_base": LEAN_TB + ["bip_buffer.go is translated (all methods), not hand-modelled; the byte array itself is modelled as cell positions"],
        "assumptions": [
            "arguments are non-negative Go ints (the property's quantifier); size <= MaxInt64",
            "slice offsets are observed through unsafe pointer arithmetic relative to the buffer's backing array",
        ],
    },
}
