from .common import LEAN_TB, TRANSLATOR_TB

LOOP_TB = LEAN_TB + [
    "Sonic/Model/Loop.lean is a hand-written model of the library's bookkeeping (poller interest bits and pending count, post queue, "
    "IO registry, IO.Dispatched, timer state machine, continuation frames); it is tied to the code by accepting the event traces of the "
    "real event loop (every event must be a transition of the model)",
    "the Linux kernel (epoll readiness, timerfd, eventfd, TCP/pipe semantics) is not modelled: every kernel decision is read off the trace",
]

# what C03 adds to the loop's trusted base through tie T for the poller bookkeeping
POLLER_TB = [
    TRANSLATOR_TB + "; for C03 it regenerates Sonic/Gen/Poller.lean from internal/poll_linux.go on every run: setRW, SetRead, "
    "SetWrite, DelRead, DelWrite, Del, with PollerEvent (uint32) as BitVec 32 and `& |= ^= &^=` as `&&& ||| ^^^ &&&~~~`, "
    "`events := &slot.Events` as an alias of the state field, atomic.AddInt64(&p.pending, k) as pending := pending + k "
    "(64-bit wrap; atomicity itself is C05's subject), PollerReadEvent / PollerWriteEvent evaluated from the source's constant "
    "declarations with syscall.EPOLLIN / EPOLLOUT taken from the syscall package of the Go toolchain that builds the translator",
    "the epoll_ctl wrappers p.add / p.modify / p.del and createEvent are NOT translated: each call of a wrapper is recorded "
    "(which wrapper, descriptor, mask) and answered by an oracle (nil or an error per call) over which every C03_poller_* theorem "
    "quantifies; that the wrappers do not touch slot.Events or p.pending is read off their source by eye (they only call "
    "syscall.Syscall6), and what the kernel does with the registration is part of the unmodelled kernel",
    "Sonic/Go/Error.lean (Go `error` as nil / err code; translated code only compares errors with nil and passes them on)",
    "the access table Sonic/Gen/PostAccess.lean (every write of poller.pending in internal/poll_linux.go, statement order of Post and "
    "dispatch), extracted from the AST on every run",
]

LOOP_RUNS = [{
    "component": "loop",
    "quick": {"gen": [(350, 25)], "enum": [["scenarios"]]},
    "thorough": {"gen": [(6000, 40)], "enum": [["scenarios"]]},
    "timeout": 1500,
}]

LOOP_RULE = ("scripts = 2-9 objects on one IO context (TCP connections against a std-library peer, FIFOs, AsyncAdapter-wrapped net.Conn, "
             "timers, listener, packet conn, regular file) and 4-40 random actions: start read/readall/write/writeall/accept/recvfrom/sendto "
             "(one per direction and object in flight), handler programs that re-issue, cancel, close or re-arm the same or another object, "
             "inline chains of up to 70 operations (chain=), IO.Dispatched forced to 31/32, Cancel, Close, ScheduleOnce/Repeating/Cancel, Post, "
             "peer writes / half-close / close / RST / FIFO hang-up, PollOne, RunOneFor / RunOne / RunPending with and without a signal aimed at the "
             "loop thread, Pending(); plus ~230 fixed scenario scripts (harness `loop enum scenarios`: an operation deferred only by the dispatch "
             "limit after one with another buffer, for every object kind and operation variant and limit 31/32/33; ReadAll/WriteAll meeting a "
             "partial transfer and then more data / close / half-close / RST; interrupted waits; RunOne/RunPending with every kind of operation "
             "in flight; close/cancel with both directions in flight; two completions of one epoll batch whose first handler closes or cancels "
             "the other object); a final drain phase makes every in-flight operation "
             "completable and polls until nothing moves; a script is non-trivial when the monitor saw a non-default situation (deferred "
             "completion, batch of several handlers, cancel/close in flight, nested start, depth at the limit, eof/error result, timer, post, "
             "partial transfer); distinct = by SHA-1 of the implementation trace")

PROP = {
    "id": "C03",
    "lean_targets": ["Sonic.Props.C03"],
    "theorems": [
        "Sonic.Props.C03.C03_pending_accounting",
        "Sonic.Props.C03.C03_pending_reported_exact",
        "Sonic.Props.C03.C03_runpending_exit_iff_idle",
        "Sonic.Props.C03.C03_poll_result",
        "Sonic.Props.C03.C03_eintr_not_an_error",
        "Sonic.Model.Loop.step_acct",
        "Sonic.Props.C03.C03_ledger_accepts_model",
        "Sonic.Props.C03.C03_pending_is_operations_in_flight",
        "Sonic.Props.C03.C03_owed_is_registered",
        "Sonic.Model.Loop.step_sim",
        # tie T: the poller bookkeeping regenerated from internal/poll_linux.go (Props/C03Poller.lean)
        "Sonic.Props.C03.C03_poller_flags_distinct",
        "Sonic.Props.C03.C03_poller_set_refines_model",
        "Sonic.Props.C03.C03_poller_set_failure_changes_nothing",
        "Sonic.Props.C03.C03_poller_del_refines_model",
        "Sonic.Props.C03.C03_poller_close_refines_model",
        "Sonic.Props.C03.C03_poller_pending_delta",
        "Sonic.Props.C03.C03_poller_bits_after",
        "Sonic.Props.C03.C03_poller_run_balanced",
        "Sonic.Props.C03.C03_poller_run_from_empty",
        "Sonic.Props.C03.C03_poller_syscall_follows_mask",
        "Sonic.Props.C03.C03_poller_pending_writers",
    ],
    "runs": LOOP_RUNS,
    # cancel-left-operation-in-flight: after Cancel returned nothing of that object is in flight for the application, yet the
    # operation is still counted by Pending() (and RunPending waits for it): "counting nothing that ... was cancelled"
    "keys": ["pending-differs-from-ledger", "posted-differs-from-ledger", "poll-*", "ledger-pending-differs-from-operations-in-flight",
             "cancel-left-operation-in-flight"],
    "secondary_keys": ["cancel-left-operation-in-flight", "pending-differs-from-ledger", "poll-run-did-not-return",
                       "poll-runpending-returned-with-operations-in-flight"],
    # RunPending against posts from other goroutines with one more operation in flight (part of the `post` direct monitor of C05)
    "direct": [{"component": "post", "args": ["only=runpending"], "keys": ["post.runpending-*"], "timeout": 600}],
    "rule": LOOP_RULE,
    "trusted_base": LOOP_TB + POLLER_TB,
    "assumptions": [
        "epoll_ctl failures are provoked only through descriptors epoll refuses (regular files); a wait interrupted by a signal is "
        "provoked with tgkill(SIGUSR1) aimed at the loop thread while it is blocked in RunOneFor / RunOne / RunPending (and its mapping is "
        "also proved as decision logic over a mirror of io.go's poll)",
        "RunOne / RunPending are called only when every operation in flight can complete without further stimulus (peers fed first, no "
        "repeating timer, no handler program that starts more work); a call that still has not returned after 4 s plus the longest timer "
        "delay is broken out of by a watchdog and reported as poll-run-did-not-return",
        "the ledger the monitor compares Pending() with counts operations by their API-level life cycle, not by interest bits",
    ],
    "manifest": {
        "level_text": "Partial. Proved (Lean, unbounded induction over event histories of the loop model): poller.pending = registered "
                      "interests + queued posts + running posted handlers in every reachable state (step_acct over all 17 transition "
                      "kinds incl. failing/absent registrations, cancel, close, timers, posts); hence Pending() is exact when no handler "
                      "runs, RunPending's loop exits iff nothing is in flight, a poll that dispatched reports a positive count, and "
                      "EINTR never maps to an error. The link from interest bits to the API-level ledger is proved too (Props/Ledger.lean, "
                      "step_sim: a coupling between model states and states of `Sonic.Spec.Ledger`, a shadow ledger that sees only calls, "
                      "callback entries and returns): for every history of the model that respects the documented usage (one operation "
                      "per direction and object in flight), every Pending()/Posted() reported while no handler executes equals the number "
                      "of operations / posted handlers the ledger owes — nothing counted that completed inline, was cancelled, was "
                      "closed, or failed to register (C03_pending_is_operations_in_flight, C03_ledger_accepts_model). The real loop's "
                      "traces must be accepted by the model, by that ledger and by the trace monitor (which also drives RunOne / "
                      "RunPending and interrupts waits with signals). "
                      "Tie T for the poller bookkeeping: setRW / SetRead / SetWrite / DelRead / DelWrite / Del of "
                      "internal/poll_linux.go are regenerated into Lean on every run (Sonic/Gen/Poller.lean: uint32 mask with the "
                      "source's bit operations and flag constants, pending with 64-bit wrap, epoll_ctl outcomes as an oracle) and "
                      "proved, for every slot state and every oracle, to do to (read interest, write interest, pending) exactly "
                      "what the model's setRead / setWrite / armTimer / delRead / delWrite / closeObj / unsetPending do "
                      "(C03_poller_*_refines_model; a failed registration changes neither mask nor pending); stated on the generated "
                      "code alone: pending moves +1 exactly on a first successful registration of a direction, -1 exactly on removal "
                      "of a set direction (C03_poller_pending_delta), pending minus the interests set in the slot's mask is constant "
                      "over every call sequence (C03_poller_run_balanced, unbounded induction), one epoll_ctl per change with "
                      "ADD/MOD/DEL chosen by the mask (C03_poller_syscall_follows_mask), and the only other writers of pending in "
                      "the file are Post (+1 once) and dispatch (-1 per handler, after it ran) (C03_poller_pending_writers, access "
                      "table). Still hand-written and tied by traces only: everything else of Model/Loop.lean - which helper a "
                      "transition calls and when (io.go, file.go, async_adapter.go, listen_conn.go, packet.go, timer.go, "
                      "internal/timer_linux.go, the dispatch loop of poller.Poll incl. its inline DelRead/DelWrite before a handler), "
                      "the handler slots and the IO registry, IO.Dispatched, the post queue and its frames, the timer state machine; "
                      "NewPoller's waker registration (SetRead followed by pending-1) is not translated.",
        "design_ref": "5/C03",
        "level_note": "Trusted: Lean kernel; hand-written loop model tied to the code by trace acceptance, its poller helpers "
                      "additionally by go2lean (translator + Go prelude trusted; epoll_ctl wrappers as an oracle); kernel behaviour "
                      "read off the trace. Not proven: that RunPending / RunOne return (liveness needs the kernel to report readiness).",
        "technique": "Lean 4 invariant and refinement proofs over a loop-model LTS (interest bits, and the API-level ledger) + Go->Lean "
                     "translation of the poller bookkeeping with refinement lemmas to the model + trace acceptance (model, ledger and "
                     "trace monitor) on the real event loop",
    },
}
