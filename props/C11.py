from .common import LEAN_TB, TRANSLATOR_TB

PROP = {
        "id": "C11",
        "lean_targets": ["Sonic.Props.C11"],
        "theorems": [
            "Sonic.Props.C11.C11_ring_for_every_accepted_size",
            "Sonic.Props.C11.C11_ring_for_every_positive_size",
            "Sonic.Props.C11.compact_sound",
            "Sonic.Props.C11.C11_inv_reachable",
            "Sonic.Props.C11.C11_claim_free",
            "Sonic.Props.C11.C11_commit_consecutive",
            "Sonic.Props.C11.C11_consume_oldest",
            "Sonic.Props.C11.C11_used_plus_free",
            "Sonic.Props.C11.C11_size_rounding",
        ],
        "runs": [{
            "component": "mirrored",
            "quick": {"gen": [(3000, 40)], "enum": [(3, 3)]},
            "thorough": {"gen": [(60000, 60)], "enum": [(1, 5), (2, 5), (3, 5), (5, 4), (8, 4)]},
        }],
        "direct": [{"component": "mirrored"}],
        "rule": "scripts = NewMirroredBuffer(req) with req in {1,2,3,5,8 pages, other page multiples, requests that are rounded up, "
                "0, negative, MaxInt, 2^62} followed by random Claim/Commit/Consume/UsedSpace/FreeSpace/Full/Size/Reset/Prefault/Destroy, "
                "`write` (a byte pattern stored through the slice the last Claim returned) and `read` (bytes at virtual offsets of the "
                "double mapping, aimed at the end of the ring, the second mapping and the last commit), amounts biased to 0, 1, free, "
                "free+-1, used, size, size+k, up-to-the-end-of-the-ring, 2^31, 2^62, MaxInt; or (exhaustive) every sequence of "
                "commit{1,page,size-1,size}/consume{1,page,size} on a buffer of 1,2,3,5,8 pages with the whole free space claimed and "
                "used/free/full read after each step; a script is non-trivial when the model reached a non-default branch (size rounded, "
                "size not a power of two, claim clamped/nil/crossing the end, commit clamped, tail or head wrapped, full, over-consume, "
                "write or read through the second mapping, refused request); distinct = by SHA-1 of the implementation trace. "
                "1 in 25 generated scripts is labelled `negative-amounts`: model and implementation are still compared, the property "
                "monitor is off (negative amounts are outside C11). Direct mode: create/destroy cycles with /proc/self/maps and file checks.",
        "trusted_base": LEAN_TB + [
            TRANSLATOR_TB,
            "bytes/mirrored_buffer.go: FreeSpace/UsedSpace/Claim/Commit/Consume/Full/Size/Reset are translated; the constructor's size "
            "rounding (Model.Mirrored.roundSize) and Prefault are modelled by hand and tied to the code only by the correspondence check",
            "the mmap double mapping: virtual position v of the 2*size mapping is physical cell v mod size (assumption of model and "
            "monitor; checked on the real mapping by `write`/`read` in every script and by the harness direct mode)",
            "Destroy releasing the mappings and the backing file is observed (/proc/self/maps, lstat), not proven",
        ],
        "assumptions": [
            "amounts are non-negative Go ints (the property's quantifier); negative amounts are modelled and compared but not monitored",
            "page size > 0; an accepted size has 2*size <= MaxInt64 (the constructor maps 2*size bytes)",
            "slice offsets are observed through unsafe pointer arithmetic relative to the first byte of Claim(1) on the fresh buffer",
            "virtual position v of the double mapping is physical cell v mod size (OS behaviour)",
        ],
        "manifest": {
        "level_text": "Partial. Proven (Lean, unbounded induction over the operation list, int64 wrap-around modelled), over the index "
                      "logic regenerated from bytes/mirrored_buffer.go: for every page size, every request the constructor accepts (any "
                      "positive multiple of the page size, power of two or not, rounded up or not - the ring theorem holds for every "
                      "size > 0) and every sequence of New/Claim/Commit/Consume/UsedSpace/FreeSpace/Full/Size/Reset with non-negative "
                      "amounts of any magnitude, the implementation's answers are accepted by a monitor whose state is the queue of used "
                      "physical cells of a ring of exactly Size() cells: a claim is min(n,free) contiguous bytes inside the double mapping "
                      "that start right after the newest committed byte and touch no used cell, a commit appends exactly min(n,free) "
                      "cells consecutively, a consume frees exactly the oldest min(n,used) cells, used+free=size; plus the constructor's "
                      "rounding arithmetic (hand model). NOT proven, checked by the harness on the real buffer in every run: that the two "
                      "mappings alias the same memory (bytes written through a claim crossing the end are read back at the start of the "
                      "ring; full sweeps in direct mode) and that Destroy removes the mappings from /proc/self/maps and leaves no backing "
                      "file - both are OS behaviour outside the model.",
        "design_ref": "5/C11",
        "level_note": "Trusted: Lean kernel; go2lean translator + Go prelude (exercised on every run by the differential trace check "
                      "against the real MirroredBuffer); hand model of the constructor's size rounding; the assumption virtual v -> "
                      "physical v mod size; the compact monitor the driver runs is proven sound for the reference cell-queue monitor "
                      "(compact_sound).",
        "technique": "Lean 4 refinement proof over translated code + differential trace correspondence + runtime mapping census",
    },
}
