from .common import RUN_WSHANDSHAKE_SMALL, RUN_WSWRITE_SMALL, LEAN_TB, WSFRAME_TB

PROP = {
        "id": "C07",
        "lean_targets": ["Sonic.Props.C07"],
        "theorems": [
            "Sonic.Props.C07.step_refines",
            "Sonic.Props.C07.run_refines",
            "Sonic.Props.C07.C07_total",
            "Sonic.Props.C07.C07_accepted",
            "Sonic.Props.C07.C07_bounded",
            "Sonic.Props.C07.C07_bounded_top_bit",
            "Sonic.Props.C07.C07_needmore_can_progress",
            "Sonic.Props.C07.C07_consumes_exactly",
            "Sonic.Props.C07.C07_frames_of_stream",
            "Sonic.Props.C07.C07_frames_of_stream_reads",
            "Sonic.Props.C07.C07_segmentation_independent",
            "Sonic.Props.C07.C07_decode_encode",
            "Sonic.Props.C07.C07_huge_max_panics",
            "Sonic.Spec.WsFrame.parse_encode",
            "Sonic.Spec.WsFrame.parse_append_frame",
            "Sonic.Spec.WsFrame.parse_append_tooBig",
            # tie T: the frame header logic regenerated from frame.go / rfc6455.go / util/bytes.go (Props/WsFrameTie.lean)
            "Sonic.Props.C07.C07_tie_header_accessors",
            "Sonic.Props.C07.C07_tie_constants",
            "Sonic.Props.C07.C07_tie_payload_length",
            "Sonic.Props.C07.C07_tie_payload_length_spare_capacity",
            "Sonic.Props.C07.C07_tie_payload_length_64",
        ],
        "runs": [{
            "component": "wsdecode",
            "quick": {"gen": [(8000, 40)], "enum": [(8,)]},
            "thorough": {"gen": [(50000, 40)], "enum": [(12,)]},
        }, {
            # the decoder under a Stream (component of C06): "stays in sync ... independent of how the bytes were split across reads"
            # with asynchronous reads in flight while the application touches the stream (SetMaxMessageSize on the live stream)
            "component": "wsmsg",
            "quick": {"gen": [(2500, 5)]},
            "thorough": {"gen": [(20000, 6)]},
        },
            # ... across a reconnect (what the previous session left in the read buffer) and for what the client's own encoder
            # produces on the wire (components of C18 and C16)
            RUN_WSHANDSHAKE_SMALL, RUN_WSWRITE_SMALL],
        "keys": ["wsdecode.*", "wsmsg.*", "wshandshake.bytes-after-blank-line", "wswrite.malformed", "wswrite.incomplete", "wswrite.trailing"],
        # a consumer that keeps decoded frames in the source buffer's save area (the model has no save area)
        "direct": [{"component": "wsdecode", "timeout": 600},
                   # frames of 1-4 MiB under a raised maximum, segments that end a few bytes into the next frame's header
                   {"component": "wsmsg", "timeout": 600}],
        "rule": "scripts = NewFrameCodec over a fresh ByteBuffer (max from {0,1,125,126,127,200,300,600,1000,65535,65536,70000,2^19,-1,-5,2^31}, "
                "optional Reserve) followed by a byte string made of frames in every length class relative to max "
                "(0,1,2,125,126,127,200,65535,65536,max-1,max,max+1, 2^32, 2^62, 2^63-1, 2^63, 2^63+k, 2^64-1; huge ones header-only), random header "
                "bits, non-minimal length forms, hostile random bytes, truncated tails and frames produced by the library's own encoder "
                "(encfeed), delivered in random segments by Write (feed) or by ReadFrom from a backlog (read), sometimes followed by a caller-side "
                "Commit (of part, all or more than what was received: bytes already in the read area), with Decode called 0..4 times "
                "after each segment; enum = 12 canonical strings at every split into 2 and 3 segments and every composition for strings up to "
                "the given length. A script is non-trivial when the model reached a non-default branch (lazy consume, each needmore stage, "
                "too big, top-bit length, 16/64-bit form, mask, Reserve growth, partial read, ...); distinct = by SHA-1 of the implementation trace",
        "trusted_base": LEAN_TB + WSFRAME_TB + [
            "of the hand-written models below, the Frame header accessors and constants of Model/WsFrame.lean are in addition proved equal to the "
            "code regenerated from the source (C07_tie_*); FrameCodec.Decode/resetDecode, the ByteBuffer methods and Mask()/Payload() are not",
            "Model/WsBuf.lean, Model/WsFrame.lean, Model/WsEncode.lean are hand-written models of byte_buffer.go (methods used by the codec), "
            "frame.go, frame_codec.go, util/bytes.go; they are tied to the source only by the correspondence check",
        ],
        "assumptions": [
            "2*maxMessageSize + 14 <= MaxInt64 (theorem C07_huge_max_panics shows the decoder can be made to panic otherwise: maxMessageSize = MaxInt64, "
            "declared length 2^63-1); negative maxima are covered",
            "memory exhaustion is outside the model: Reserve(n) for n <= max succeeds; the capacity chosen by Go's append is an environment value "
            "(any value that holds the requested bytes)",
            "the same ByteBuffer is passed to NewFrameCodec and to Decode (as websocket.Stream does); nothing else touches the buffer between calls "
            "except Write/ReadFrom (no Save/Discard)",
            "a slice expression past len(frame) but within cap(frame), which Go permits, is treated as a failure by the model (stricter than Go)",
        ],
        "manifest": {
        "level_text": "Full. Theorems about a hand-written model of FrameCodec.Decode (lazy reset, PrepareRead/Reserve/Consume, 7/16/64-bit lengths "
                      "with uint64->int as BitVec 64, mask) over a model of the ByteBuffer methods it uses, for EVERY list of operations "
                      "feed(bytes)/read(bytes)/decode, every byte content, every segmentation and every capacity answer of the Go runtime "
                      "(induction over the operation list): the decoder never panics and never interprets bytes beyond the read area; each "
                      "Decode outcome equals the pure RFC 6455 parse of the unconsumed bytes received so far; yielded frames and Reserve "
                      "requests are within max (lengths >= 2^63 are refused as soon as the length field is complete); ErrNeedMore always "
                      "leaves Reserved() > 0; a yielded frame consumes exactly its bytes; the yielded frame sequence and the final answer "
                      "depend only on the concatenation of the delivered bytes; decoding the reference encoder's output for any list of "
                      "frames (every FIN/RSV/opcode/mask/length) in any segmentation returns that list. Hypothesis: 2*max+14 <= MaxInt64 "
                      "(shown necessary). Out-of-memory is outside the model."
                      " Tie T (regenerated from the source on every run, Sonic/Gen/WsFrameBits.lean): the Frame accessors the decoder calls (ExtendedPayloadLengthBytes, PayloadLength, IsFIN/IsRSV1-3/Opcode/IsMasked, MaskBytes, maskOffset, payloadOffset) and the header constants are proved equal to the model's definitions for every slice content and length (all 2^16 header-byte combinations, every extended length, same panic on a short slice; PayloadLength exactly on slices without spare capacity and as a refinement with spare capacity), including that a 64-bit length with the top bit set becomes a negative int. Still hand-written and tied only by traces: FrameCodec.Decode itself (frame_codec.go) and the ByteBuffer methods (Model/WsBuf.lean).",
        "design_ref": "5/C07",
        "level_note": "Trusted: Lean kernel; the hand-written models of byte_buffer.go/frame.go/frame_codec.go (validated on every run by the "
                      "differential trace check against the real FrameCodec and ByteBuffer, including region lengths, capacities and the "
                      "library's own encoder output); Go prelude.",
        "technique": "Lean 4 refinement proof (model vs pure parser/monitor) + differential trace correspondence",
    },
}
