from .common import LEAN_TB

PROP = {
        "id": "C18",
        "lean_targets": ["Sonic.Props.C18"],
        "theorems": [
            "Sonic.Props.C18.C18_accept_iff",
            "Sonic.Props.C18.C18_segmentation_independent",
            "Sonic.Props.C18.C18_leftover_exact",
            "Sonic.Props.C18.C18_rehandshake_fresh",
            "Sonic.Props.C18.C18_handshake_leaves_nothing_stale",
            "Sonic.Props.C18.C18_request_wellformed",
            "Sonic.Props.C18.C18_observation_accepted",
        ],
        "runs": [{
            "component": "wshandshake",
            "quick": {"gen": [(400, 4)], "enum": [(3,)]},
            "thorough": {"gen": [(2500, 5)], "enum": [(1,)]},
            "timeout": 1500,
        }],
        # wss:// endpoints whose TLS dial fails; a first frame that arrives later than the dial timeout after connecting
    "direct": [{"component": "wshandshake", "timeout": 300}],
    "rule": "every script drives the real websocket.Stream (client role) through 1..4 handshakes against a raw scripted TCP server "
                "in the same process (127.0.0.1:0): the server checks the request (GET, Host, Upgrade: websocket, Connection: upgrade, "
                "Sec-WebSocket-Version: 13, base64 key of 16 bytes never seen before, the caller's extra headers spelled as given) and "
                "answers with a generated response head: conforming (header order, name/value letter case, optional whitespace, junk "
                "headers all varied) or non-conforming (status 200/400/100/301/..., Upgrade missing or different, accept missing / wrong / "
                "letter case swapped / followed by junk / wrong-then-right duplicate, malformed status line), written in 1..6 separate "
                "segments (single bytes, around the blank line, head|frames, random), with 0..2 frames piggy-backed, or closing inside "
                "the head / right after it; blocking Handshake or AsyncHandshake (IO loop polled); a `stale` step first leaves a pong "
                "pending from a previous session; observed: error class, State(), Pending(), first NextFrame, what the server received "
                "unasked, whether it saw the connection closed after a failure. enum = every two-write split of three canonical "
                "responses with a piggy-backed frame and the server closing at every offset (step 7 in the quick tier, every offset in the "
                "thorough tier). non-trivial = the model reached a non-default branch (segmented, head split, piggy-backed, refused, "
                "closed in head, stale session, async ...); distinct = by SHA-1 of the implementation trace",
        "trusted_base": LEAN_TB + [
            "hand-written model lean/Sonic/Model/WsHandshake.lean of Handshake/AsyncHandshake/handshake/upgrade/reset/init/IsUpgradeRes, tied to the code by the correspondence check",
            "NOT proven, parameters of every theorem: net/http (request serialisation, http.ReadResponse), crypto/sha1 + encoding/base64 (accept value), crypto/rand (key), append growth of the handshake buffer, Linux TCP",
            "the scripted server in harness/wshandshake.go (request checks, rendering of the response from the generator's description)",
        ],
        "assumptions": [
            "response head plus piggy-backed bytes shorter than maxHandshakeResponseLength (64 KiB); longer heads are refused by the code and are outside the theorems",
            "the server either completes the head or closes (a server that stalls forever blocks the blocking call; not a property of the library)",
            "Upgrade token compared with ASCII case folding in the model (Go's strings.EqualFold also folds non-ASCII letters such as the Kelvin sign)",
            "dial succeeds (refused connections belong to C13)",
            "AsyncHandshake runs the same handshake function on a goroutine and completes through Post: one model for both, both exercised",
        ],
        "manifest": {
        "category": "proof",
        "level_text": "Partial. Proved (Lean, for every response, every cut of it into transport reads, every previous state of the stream, "
                      "every buffer growth, with HTTP parsing / SHA-1 / base64 as uninterpreted parameters): the handshake ends without error iff "
                      "the complete head arrived, parses, has status 101, Upgrade = websocket ignoring case and the accept value derived from "
                      "the key sent - then the stream is active, otherwise error + terminated + connection released (C18_accept_iff); the result "
                      "does not depend on the segmentation (C18_segmentation_independent); read buffer + unread transport = exactly the bytes "
                      "after the blank line (C18_leftover_exact); reset restores every session field incl. pendingFrames "
                      "(C18_rehandshake_fresh, C18_handshake_leaves_nothing_stale); request headers (C18_request_wellformed); the model's "
                      "observations are accepted by the monitor (C18_observation_accepted). NOT proven: net/http parsing and serialisation, "
                      "SHA-1/base64, key randomness, TCP - exercised by the trace check against a raw scripted server.",
        "design_ref": "5/C18",
        "level_note": "Trusted: Lean kernel; hand model (validated on every run against the real Stream over real loopback TCP); Go's net/http, "
                      "crypto and the kernel's TCP are outside the theorems (parameters), which is why the label is partial.",
        "technique": "Lean 4 proof over a handshake model with uninterpreted HTTP/crypto + differential trace correspondence against a scripted raw TCP server",
    },
}
