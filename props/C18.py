from .common import LEAN_TB

PROP = {
        "id": "C18",
        "lean_targets": ["Sonic.Props.C18"],
        "theorems": [
        ],
        "runs": [{
            "component": "wshandshake",
            "quick": {"gen": [(150, 4)], "enum": [(7,)]},
            "thorough": {"gen": [(2000, 5)], "enum": [(1,)]},
            "timeout": 1500,
        }],
        "rule": "TBD",
        "trusted_base": LEAN_TB,
        "assumptions": [],
        "manifest": {
        "category": "proof",
        "level_text": "TBD",
        "design_ref": "5/C18",
        "level_note": "TBD",
        "technique": "Lean 4 proof over a handshake model + differential trace correspondence against a scripted raw server",
    },
}
