from .common import LEAN_TB

PROP = {
        "id": "C09",
        "lean_targets": ["Sonic.Props.C09"],
        "theorems": [
            "Sonic.Props.C09.C09_three_fifo_regions",
            "Sonic.Props.C09.C09_refines",
            "Sonic.Props.C09.C09_inv",
            "Sonic.Props.C09.C09_inv_reachable",
            "Sonic.Props.C09.C09_no_panic",
            "Sonic.Props.C09.C09_effect",
            "Sonic.Props.C09.C09_lengths_add_up",
            "Sonic.Props.C09.C09_readByte_value",
            "Sonic.Props.C09.C09_read_value",
            "Sonic.Props.C09.C09_writeTo_value",
            "Sonic.Props.C09.C09_saved_stable",
            "Sonic.Props.C09.C09_pending_invisible",
            "Sonic.Props.C09.C09_reserve_total_false",
            "Sonic.Props.C09.C09_reserve_panic_untouched",
            "Sonic.Props.C09.C09_held_completion_commutes",
            "Sonic.Lemmas.ByteBufferHeld.held_step",
        ],
        "runs": [{
            "component": "bytebuffer",
            "quick": {"gen": [(4000, 40)], "enum": [("full", 2)]},
            "thorough": {"gen": [(60000, 50)], "enum": [("full", 3), ("core", 4)]},
        }],
        # AsyncWriteTo / AsyncReadFrom whose callee completes later, with Write / Commit / PrepareRead in between (Go-only byte-list
        # oracle; the traced scripts run the asynchronous twins over callees that complete inside the call)
        "direct": [{"component": "bytebuffer"}],
        "rule": "scripts = NewByteBuffer() followed by random calls over the whole public API (Reserve, Commit, Consume, Save, Discard, "
                "DiscardAll, SavedSlot, Reset, Read, ReadByte, ReadFrom, UnreadByte, Write, WriteByte, WriteString, WriteTo, PrepareRead, "
                "Claim, ClaimFixed, ShrinkBy, ShrinkTo) mixed with the documented workflows; integer arguments are symbolic and resolved "
                "against the live buffer (region length, +-1, /2, Reserved()+-1) or hostile (0, -1, MinInt64.., MaxInt64.., 2^32, 2^62); "
                "callees of Claim/ReadFrom/WriteTo are scripted (count returned, error, short writes); exhaustive = every sequence of "
                "2/3/4 calls over a boundary alphabet from an empty and from a three-region buffer. After every call the three regions "
                "are read back as hex through Saved()/Data()/the slice behind Data(), with Len/Cap/Reserved. A script is non-trivial when "
                "the model reached a non-default branch (reallocation, clamp, partial commit/consume/save, discard in the middle or with "
                "a tail, EOF with a non-empty save area, rejected claim, short or failing writer, NeedMore, ...); distinct = by SHA-1 of "
                "the implementation trace",
        "trusted_base": LEAN_TB + [
            "lean/Sonic/Model/ByteBuffer.lean: byte_buffer.go is modelled by hand, method by method (tie D is what checks it against the code)",
            "memory behind len(data) is not modelled: callees/callers of Claim/ClaimFixed/ReadFrom fill what they are given with a position-dependent pattern",
        ],
        "assumptions": [
            "slots passed to Discard/SavedSlot lie inside the save area (ValidSlot; Discard ignores non-positive lengths) - the code does not validate slots",
            "callees follow the io.Reader / io.Writer contract (0 <= n <= len(p)); a writer that fails reports 0 bytes written",
            "finite memory: the buffer length stays within int; the capacity chosen by append is an input (>= what was needed, read off the trace)",
            "Reserve(n) whose growth exceeds the allocator limit (2^48) panics inside append (known finding bytebuffer.reserve.alloc-limit); "
            "the monitor accepts that panic only if the buffer reads back unchanged; sizes between 2^31 and 2^48 are never generated",
            "Prefault, AsyncReadFrom, AsyncWriteTo are outside C09's quantifier and not exercised",
        ],
        "manifest": {
        "level_text": "Theorems about a hand-written Lean model that mirrors byte_buffer.go method by method (int64 wrap-around, checked "
                      "slice expressions, capacity after reallocation and callee behaviour as universally quantified inputs): for every "
                      "sequence of calls over the whole public API with every int argument the model's answers are accepted by a three-list "
                      "monitor (saved, readable, pending) - every return value, the regions read back byte for byte after every call, EOF iff "
                      "nothing readable, lengths add up, 0<=si<=ri<=wi=len<=cap preserved, no panic. Unbounded induction over the call list. "
                      "Partial in three named respects: slot arguments are restricted to the decidable ValidSlot predicate; Reserve beyond "
                      "the allocator limit panics in append (known finding, refuted clause kept as C09_reserve_total_false; the buffer is "
                      "proved and checked to stay untouched); the model is tied to the Go code by the differential trace check, not by translation. "
                      "Also proved over the three-list monitor: a write-out whose completion is held back (AsyncWriteTo over a writer that "
                      "completes later) commutes with the Write/WriteByte/WriteString/Commit calls made meanwhile (C09_held_completion_commutes); "
                      "the code side of that, and regions of 256 KiB-3 MiB, are checked by a Go-only direct monitor with a byte-list oracle.",
        "design_ref": "5/C09",
        "level_note": "Trusted: Lean kernel; the hand-written model Sonic/Model/ByteBuffer.lean (compared with the real ByteBuffer on every run: "
                      "return values, error class and the hex contents of all three regions after every call, including invalid slots and "
                      "allocation-limit panics); Go prelude; harness. The io.Reader/io.Writer contract of scripted callees is built into the "
                      "operation type.",
        "technique": "Lean 4 refinement proof (coupling invariant, induction over call lists) + differential trace correspondence",
    },
}
