from .common import RUN_FDS_SMALL, LEAN_TB
from .C03 import LOOP_TB, LOOP_RUNS, LOOP_RULE

PROP = {
    "id": "C04",
    "lean_targets": ["Sonic.Props.C04"],
    "theorems": [
        "Sonic.Props.C04.C04_scheduled_flag",
        "Sonic.Props.C04.C04_single_schedule",
        "Sonic.Props.C04.C04_no_inline_unless_ready",
        "Sonic.Props.C04.C04_cancel_disarms",
        "Sonic.Props.C04.C04_cancel_on_closed_is_noop",
        "Sonic.Props.C04.C04_fire_disarms",
        "Sonic.Props.C04.C04_once_not_rearmed",
        "Sonic.Props.C04.C04_cancel_inside_own_callback_stops",
        "Sonic.Props.C04.C04_cancel_marks_running_repeat",
        "Sonic.Props.C04.C04_fire_keeps_cancel_count",
        "Sonic.Props.C04.C04_repeating_continues",
        "Sonic.Props.C04.C04_cancel_clears_ledger",
        "Sonic.Props.C04.C04_close_clears_ledger",
        "Sonic.Props.C04.C04_ledger_accepts_model",
        "Sonic.Props.C04.C04_closed_inside_own_callback_stops",
        "Sonic.Model.Loop.step_timer",
    ],
    # a timer closed twice must not close a descriptor that now belongs to another timer (descriptor-table component of C13)
    "runs": LOOP_RUNS + [RUN_FDS_SMALL],
    "keys": ["timer-*", "closed-timer-revived", "schedule-while-scheduled-accepted", "scheduled-flag-wrong", "fds.foreign-close",
             # a stale timer event must not put the loop to sleep: timers that come due meanwhile "run once the delay has passed if the loop keeps being polled"
             "poll-blocked"],
    "secondary_keys": ["timer-never-fired-although-due", "timer-early", "timer-callback-after-cancel-or-close", "closed-timer-revived", "scheduled-flag-wrong",
                       "schedule-while-scheduled-accepted"],
    "rule": LOOP_RULE + "; timers use ticks of 12 ms, the harness compares the monotonic clock at the scheduling call with the clock at "
                        "callback entry (early=true is a violation) and waits out every armed one-shot timer in the drain phase",
    "trusted_base": LOOP_TB,
    "assumptions": [
        "timerfd expires no earlier than programmed (kernel); 'fires once the delay has passed' is observed in the drain phase only",
        "inside a timer's own callback the schedule is in transition (Scheduled() is not checked there)",
    ],
    "manifest": {
        "level_text": "Partial. Proved (Lean, invariant over all event histories of the loop model + per-transition theorems): a timer's "
                      "interest is registered exactly while its state is scheduled (Scheduled() <-> a callback is due); Schedule* on a "
                      "scheduled or closed timer fails and changes nothing; firing clears the interest before the callback and a "
                      "one-shot schedule is not re-armed; Cancel disarms and stops a repeating schedule even from its own callback; "
                      "Cancel on a closed timer is a no-op (closed is final). 'Never early' and 'does fire' are timerfd behaviour: "
                      "checked on the real loop with a monotonic clock and the drain phase, not proven.",
        "design_ref": "5/C04",
        "level_note": "Trusted: Lean kernel; hand-written loop model tied to the code by trace acceptance; timerfd/epoll semantics.",
        "technique": "Lean 4 invariant + per-transition theorems over a loop-model LTS + trace acceptance and clock monitor on real timers",
    },
}
