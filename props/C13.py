from .common import LEAN_TB

PROP = {
    "id": "C13",
    "lean_targets": ["Sonic.Props.C13"],
    "theorems": [
        "Sonic.Props.C13.C13_no_leak",
        "Sonic.Props.C13.C13_no_leak_table",
        "Sonic.Props.C13.C13_handed_only_accept",
        "Sonic.Props.C13.C13_ok_owns_exactly",
        "Sonic.Props.C13.C13_calls_justified",
        "Sonic.Props.C13.C13_table_complete",
        "Sonic.Props.C13.C13_close_exact",
        "Sonic.Props.C13.C13_close_twice_safe",
        "Sonic.Props.C13.C13_no_foreign_close",
        "Sonic.Props.C13.C13_model_accepted",
        "Sonic.Props.C13.C13_close_exact_model",
        "Sonic.Props.C13.C13_unguarded_closes_foreign",
        "Sonic.Props.C13.C13_lowest_free",
        "Sonic.Props.C13.C13_registered_while_interested",
        "Sonic.Model.Loop.step_reg",
        "Sonic.Model.Resources.step_inv",
        "Sonic.Model.Resources.step_refines",
        "Sonic.Model.Resources.runFds_restores",
    ],
    "runs": [{
        "component": "fds",
        "quick": {"gen": [(700, 16)], "enum": [(3,)]},
        "thorough": {"gen": [(12000, 24)], "enum": [(5,)]},
        "timeout": 900,
    }],
    "direct": [{"component": "fds", "timeout": 600}],
    "rule": "trace scripts = one IO context, then random `new <kind>` (io, timer, listener, packet, conn, adapter, udppeer, file, "
            "socket, pipe; conn/adapter come with the peer's accepted socket as a separate object) and `close k` of open and of "
            "already closed objects, biased towards close; new pipe; close again x1-3 (the freed numbers go to the pipe), or every "
            "sequence of the given length over {close 1, new pipe, new timer, close 2} after `new K 1` for every kind K (exhaustive); "
            "observations = descriptor numbers found by a /proc/self/fd census around the constructor and fcntl(F_GETFD) liveness of "
            "every script-created descriptor after every operation; non-trivial = a closed object's number was handed out again, an "
            "object was closed again, or closed again while its old number belonged to another object; distinct = by SHA-1 of the "
            "trace. Direct monitor (harness fds direct): /proc/self/fd census with link targets around every constructor success+Close "
            "and around every provoked failure (refused / unroutable / bad address / unknown network / failing option / bind conflict "
            "for Dial, Listen, NewPacketConn, NewUDPPeer, Open, accept; websocket handshake against a raw server answering garbage, a "
            "non-101 status, a wrong accept key, nothing, or a valid response cut at every byte offset, synchronous and asynchronous), "
            "RLIMIT_NOFILE lowered so that the k-th allocation fails for k = 1.. until the constructor succeeds, Close / pipe / Close "
            "x3 per kind, Close after the IO context was closed, NewMirroredBuffer with the re-mapping failing (mapping-count exhaustion in a child process; address-space size and mapping count must return to their values), and GC x3 with reads and/or writes deferred (registry hook "
            "VerifRegistered, sentinel finalizer, completion must still arrive).",
    "trusted_base": LEAN_TB + [
        "tools/respaths (Go AST path enumerator) and its configuration tools/respaths/config.json: which library / system calls "
        "acquire (syscall.Socket, Open, EpollCreate1, eventfd, TimerfdCreate, Accept, net.DialTimeout, tls.DialWithDialer, "
        "os.CreateTemp, syscall.Mmap) or release (syscall.Close, x.Close(), x.Destroy(), os.Remove, syscall.Munmap) a resource, "
        "which constructors wrap a descriptor (newConn, newFile), and that an unlisted call neither acquires nor releases; "
        "cross-checked on every run by the descriptor census around each constructor and each provoked failure point",
        "kernel: closing a live descriptor succeeds and releases exactly that number; a number that is open is never handed out "
        "(the trace acceptor additionally checks every observed number against lowest-free allocation)",
        "Sonic/Model/Loop.lean (hand-written loop model, tied to the code by the `loop` component's trace acceptance) for the registry invariant",
    ],
    "assumptions": [
        "Go's garbage collector frees only unreachable objects and an interior pointer (the registered slot) keeps its object alive: "
        "the registry invariant is the library's part of the argument, exercised by the GC trials of the direct monitor",
        "failure points that cannot be provoked from outside (SetNonblock / getsockname / epoll_ctl failing on a fresh descriptor) are "
        "covered by the path-table theorem only",
    ],
    "manifest": {
        "level_text": "Partial. Proved in Lean: (1) over the path table regenerated from the Go sources on every run (tools/respaths: "
                      "every control-flow path of NewEventFd, NewPoller, NewIO, NewTimer, socket, CreateSocketTCP/UDP, ConnectTCP/UDP, "
                      "ConnectTimeout, DialTimeout, Listen, ListenUDP, accept, NewPacketConn, NewSocket, NewUDPPeer, Open, mmapAllocate, "
                      "NewMirroredBuffer and the websocket handshake with dial/upgrade/NewAsyncAdapter inlined, and of 11 Close "
                      "methods, once and twice): every failure path has released everything it acquired (one named exception: "
                      "accept returns the connection together with SetNonblock's error), every success path leaves exactly the "
                      "returned object's resources, interprocedural summaries are justified by the callee's own paths, every "
                      "function was translated, each Close releases exactly the owned resources and a second Close releases "
                      "nothing (decide over the finite table = the quantifier's domain); (2) over a descriptor-table model with "
                      "guarded Close and arbitrary kernel allocation: for all interleavings of creation and repeated Close no "
                      "close(fd) targets a descriptor the closing object does not own (unbounded induction), the unguarded variant "
                      "provably does, lowest-free allocation is an instance; (3) over the event-loop model: in every reachable "
                      "state an object with a read or write interest is held by the IO registry. Outside the theorems: which calls "
                      "acquire or release is a configured, trusted list (cross-checked per failure point by a /proc/self/fd "
                      "census on the real code, including EMFILE at the k-th allocation); Go's collector is assumed to honour "
                      "reachability (GC trials with deferred operations check the completion still arrives).",
        "design_ref": "5/C13",
        "level_note": "Trusted: Lean kernel; tools/respaths + its acquire/release configuration; the hand-written loop model (tied by "
                      "trace acceptance); kernel close/allocation semantics; Go GC. Not proven: the link between the path table's "
                      "per-function summaries and whole-program executions beyond the listed call edges; failure points of "
                      "unlisted library calls.",
        "technique": "Lean 4: decide over an AST-extracted path table + invariant proofs over a descriptor-table LTS and the loop "
                     "model; descriptor census, RLIMIT_NOFILE fault injection and GC trials on the real code",
    },
}
