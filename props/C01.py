from .common import LEAN_TB
from .C03 import LOOP_TB, LOOP_RUNS, LOOP_RULE

PROP = {
    "id": "C01",
    "lean_targets": ["Sonic.Props.C01"],
    "theorems": [
        "Sonic.Props.C01.C01_at_most_once",
        "Sonic.Props.C01.C01_no_callback_without_start",
        "Sonic.Props.C01.C01_completed_leaves_no_reference",
        "Sonic.Model.Loop.step_refs",
        "Sonic.Model.Loop.run_refs",
        "Sonic.Props.C01.C01_inline_xor_deferred",
        "Sonic.Props.C01.C01_no_second_inline",
        "Sonic.Props.C01.C01_dispatch_clears_interest",
        "Sonic.Props.C01.C01_cancel_completes_all",
        "Sonic.Props.C01.C01_cancel_result",
        "Sonic.Props.C01.C01_close_silences",
        "Sonic.Props.C01.C01_start_on_closed_not_registered",
        "Sonic.Props.C01.C01_ledger_accepts_model",
        "Sonic.Props.C01.C01_callback_only_when_owed",
        "Sonic.Model.Loop.step_sim",
        "Sonic.Model.Loop.step_linv",
    ],
    "runs": LOOP_RUNS,
    # owners of in-flight operations stay registered (and so alive) until the last operation completes: collector trials of C13
    "direct": [{"component": "fds", "keys": ["fds.gc.*"], "timeout": 900}],
    "keys": ["callback-twice", "callback-after-close", "callback-of-starting-op-outside-its-call", "deferred-callback-outside-poll",
             "cancelled-result-without-cancel", "cancel-completed-with-success", "cancel-left-operation-in-flight",
             "operation-never-completed-although-ready", "callback-of-unknown-op", "handler-nesting-broken", "return-without-call",
             "op-id-reused", "panic", "ledger-callback-not-owed", "ledger-structure", "datagram-boundary"],
    "secondary_keys": ["operation-never-completed-although-ready", "cancel-left-operation-in-flight", "callback-twice", "callback-after-close",
                       "ledger-callback-not-owed"],
    "rule": LOOP_RULE,
    "trusted_base": LOOP_TB,
    "assumptions": [
        "documented usage: at most one read and one write in flight per object (enforced by the harness at run time)",
        "liveness needs the kernel to report readiness: observed with poll(2) as an independent oracle in the drain phase",
    ],
    "manifest": {
        "level_text": "Partial. Proved (Lean): for EVERY event history the loop model accepts (any objects, poll batches, handler "
                      "behaviours, inline or deferred paths) the callback of a non-repeating operation is entered at most once per "
                      "start (C01_at_most_once, by a reference-counting invariant over all 17 transition kinds), never without a "
                      "start, and after it no reference to it is left; and for every state and event: an operation completes inline inside its "
                      "start call or is registered, never both; a completed start frame admits no second callback; the poller and "
                      "Cancel clear the interest before running the handler; Cancel cannot return while an interest of the object is "
                      "registered and delivers only cancellation/de-registration errors; Close leaves no interest and no registry "
                      "entry behind; a start on a closed object registers nothing. And over the API-level ledger `Sonic.Spec.Ledger` (sees only "
                      "calls, callback entries and returns): every history of the model that respects the documented usage is accepted "
                      "by the ledger (C01_ledger_accepts_model, by the coupling step_sim over all transitions): a callback is entered "
                      "only inline in its own starting call or for an operation that is owed — never twice, never after Close, never "
                      "after a successful Cancel, never for a schedule that was cancelled or replaced (C01_callback_only_when_owed). The real "
                      "loop's traces must be accepted by the model, by the ledger and by the trace monitor; 'eventually, if ready' "
                      "(liveness) is decided on real traces only (kernel-dependent).",
        "design_ref": "5/C01",
        "level_note": "Trusted: Lean kernel; hand-written loop model tied to the code by trace acceptance; kernel readiness read off the "
                      "trace and cross-checked with poll(2). Not proven: liveness ('never zero times'), which needs the kernel to "
                      "report readiness.",
        "technique": "Lean 4 per-transition theorems over a loop-model LTS + ledger monitor and model acceptance on real event-loop traces",
    },
}
