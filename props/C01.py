from .common import LEAN_TB
from .C03 import LOOP_TB, LOOP_RUNS, LOOP_RULE

PROP = {
    "id": "C01",
    "lean_targets": ["Sonic.Props.C01"],
    "theorems": [
        "Sonic.Props.C01.C01_inline_xor_deferred",
        "Sonic.Props.C01.C01_no_second_inline",
        "Sonic.Props.C01.C01_dispatch_clears_interest",
        "Sonic.Props.C01.C01_cancel_completes_all",
        "Sonic.Props.C01.C01_cancel_result",
        "Sonic.Props.C01.C01_close_silences",
        "Sonic.Props.C01.C01_start_on_closed_not_registered",
    ],
    "runs": LOOP_RUNS,
    "keys": ["callback-twice", "callback-after-close", "callback-of-starting-op-outside-its-call", "deferred-callback-outside-poll",
             "cancelled-result-without-cancel", "cancel-completed-with-success", "cancel-left-operation-in-flight",
             "operation-never-completed-although-ready", "callback-of-unknown-op", "handler-nesting-broken", "return-without-call",
             "op-id-reused", "panic"],
    "rule": LOOP_RULE,
    "trusted_base": LOOP_TB,
    "assumptions": [
        "documented usage: at most one read and one write in flight per object (enforced by the harness at run time)",
        "liveness needs the kernel to report readiness: observed with poll(2) as an independent oracle in the drain phase",
    ],
    "manifest": {
        "level_text": "Partial. Proved (Lean, for every state and event of the loop model): an operation completes inline inside its "
                      "start call or is registered, never both; a completed start frame admits no second callback; the poller and "
                      "Cancel clear the interest before running the handler; Cancel cannot return while an interest of the object is "
                      "registered and delivers only cancellation/de-registration errors; Close leaves no interest and no registry "
                      "entry behind; a start on a closed object registers nothing. The trace-level statement 'every op id is entered "
                      "at most once, never after Close, exactly once by Cancel, and eventually if ready' is decided by the ledger "
                      "monitor on the real loop's traces (which the model must also accept); liveness is kernel-dependent.",
        "design_ref": "5/C01",
        "level_note": "Trusted: Lean kernel; hand-written loop model tied to the code by trace acceptance; kernel readiness read off the "
                      "trace and cross-checked with poll(2). Not proven: the global at-most-once theorem over histories (only its "
                      "per-transition ingredients), liveness.",
        "technique": "Lean 4 per-transition theorems over a loop-model LTS + ledger monitor and model acceptance on real event-loop traces",
    },
}
