from .common import RUN_WSCONC_SMALL, RUN_WSHANDSHAKE_SMALL, LEAN_TB

WS_TB = LEAN_TB + [
    "hand-written frame-level model lean/Sonic/Model/WsStream.lean of codec/websocket/stream.go (not translated): tied to "
    "the source only by the correspondence check, which compares every return value, State(), Pending() and every frame "
    "on the transport",
    "harness: scripted in-memory transport (harness/memstream.go), independent RFC 6455 frame encoder/parser "
    "(harness/wsstream.go), hook (*Stream).VerifAttach",
    "the byte-level frame decoder/encoder is abstracted as 'next frame / decode error' and 'frame on the wire' "
    "(their correctness is C07/C16)",
]

PROP = {
        "id": "C08",
        "lean_targets": ["Sonic.Props.C08"],
        "theorems": [
            "Sonic.Props.C08.C08_refines",
            "Sonic.Props.C08.C08_pong",
            "Sonic.Props.C08.C08_peer_close",
            "Sonic.Props.C08.C08_local_close",
            "Sonic.Props.C08.C08_abnormal",
            "Sonic.Props.C08.C08_one_close_on_wire",
            "Sonic.Props.C08.C08_no_close_while_active",
            "Sonic.Props.C08.C08_state_reflects",
            "Sonic.Props.C08.closed_refuses",
            "Sonic.Props.C08.C08_no_panic",
        ],
        "runs": [{
            "component": "wsstream",
            "quick": {"gen": [(20000, 30)], "enum": [(4, 0), (3, 1), (3, 2), (4, 3)]},
            "thorough": {"gen": [(60000, 40)], "enum": [(5, 0), (4, 1), (5, 3)]},
        }, RUN_WSHANDSHAKE_SMALL,  # a control reply queued for the previous connection must not open the next session
            # the asynchronous API over a real transport with writes parked by the peer: AsyncClose completes once and only after its
            # Close frame is out, and the read that waits behind a flush in flight starts when it completes (otherwise the peer's
            # Close is never consumed and Pings go unanswered) — component of C17
            RUN_WSCONC_SMALL],
        "keys": ["wsstream.*", "wshandshake.stale-session", "wsconc.callback-never-invoked", "wsconc.callback-twice", "wshandshake.second-session-close",
                 "wsconc.wire-*"],
        # sessions with ValidateUTF8(true) (outside the model): the wire-level clauses of the closing handshake
        "direct": [{"component": "wsstream", "timeout": 600},
                   # the closing handshake of a second session on the same Stream (real servers)
                   {"component": "wshandshake", "args": ["only=second-session"], "keys": ["wshandshake.second-session-close"], "timeout": 300}],
        "rule": "scripts = a client Stream attached to a scripted transport (max message size from {0,1,2,8,16,64,125,126,130,300}) "
                "followed by up to 30-40 events: peer frames (data, fragments, ping, pong, valid/invalid close, every framing-violation "
                "class, frames over the maximum), transport EOF/error, and local calls NextFrame/NextMessage/Write/WriteFrame/Flush/Close, "
                "each blocking or asynchronous, and windows in which the transport holds asynchronous writes back while further write-type calls are made (a Close or a data frame still in flight); half of the scripts are single-violation mutations of conforming sessions; exhaustive = "
                "every sequence of 3-5 events over alphabets of 10, 21, 15 and 12 (held-back writes) events; a script is non-trivial when the model reached a "
                "non-default branch (pong queued, close reply, Close(1002), violation after our own close, close acked, abnormal 1006, "
                "gated EOF sync/async, fragmentation error, too big, refused write, ...); distinct = by SHA-1 of the implementation trace",
        "trusted_base": WS_TB,
        "assumptions": [
            "OpsOk: the application writes text/binary messages and does not send Close frames itself through WriteFrame/Write "
            "(explicit hypothesis of the history theorems; Close() is the API for that)",
            "transport writes succeed (write errors are outside the model); one frame per transport chunk (segmentation is C07)",
            "UTF-8 validation of text payloads is off (library default); RoleClient",
        ],
        "manifest": {
        "level_text": "Theorems over a hand-written Lean model that mirrors stream.go branch by branch at frame granularity (blocking and "
                      "asynchronous paths), for every maximum size and every unbounded sequence of peer frames, transport EOF/error and "
                      "local calls: the model's return values, State(), Pending() and frames on the wire are accepted by an RFC 6455 "
                      "monitor (one Pong per Ping received while open, same payload, in order, ahead of later writes; Pongs unanswered; "
                      "one Close reply echoing the code / 1000 / 1002; reads end, writes refused afterwards; local Close stops writes "
                      "while reads continue; transport EOF surfaces 1006; never a second Close nor a frame behind it; State() per stage), "
                      "plus each clause stated outright. Partial in one respect: the model is hand-written, so its agreement with the Go "
                      "source rests on the differential trace check (every observable compared on random, mutated and exhaustively "
                      "enumerated scripts), and transport write failures are not modelled.",
        "design_ref": "5/C08",
        "level_note": "Trusted: Lean kernel; the hand-written model (validated on every run against the real Stream over a scripted "
                      "transport, with an independent frame encoder/parser); frame codec abstracted (C07/C16).",
        "technique": "Lean 4 refinement proof (model of stream.go vs RFC 6455 monitor) + differential trace correspondence",
    },
}
