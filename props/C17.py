from .common import RUN_LOOP_SCENARIOS, RUN_WSSTREAM_SMALL, LEAN_TB

PROP = {
    "id": "C17",
    "lean_targets": ["Sonic.Props.C17"],
    "theorems": [
        "Sonic.Props.C17.C17_single_write_in_flight",
        "Sonic.Props.C17.C17_callbacks_at_most_once",
        "Sonic.Props.C17.C17_callbacks_exactly_once",
        "Sonic.Props.C17.C17_pending_callback_has_reactor",
        "Sonic.Props.C17.C17_one_reader",
        "Sonic.Props.C17.C17_enter_only_owed",
        "Sonic.Props.C17.C17_wire_order",
        "Sonic.Props.C17.C17_wire_complete",
        "Sonic.Props.C17.C17_unserialised_drops_callback",
        "Sonic.Props.C17.C17_unserialised_repeats_bytes",
        "Sonic.Props.C17.run_reach",
        "Sonic.Model.WsAsync.step_inv",
        "Sonic.Model.WsAsync.reach_inv",
        "Sonic.Props.C17.C17_monitor_accepts_model",
        "Sonic.Props.C17.C17_observed_steps_are_model_steps",
        "Sonic.Model.WsAsyncObs.step_sim",
        "Sonic.Model.WsAsyncObs.run_sim",
        "Sonic.Model.WsAsyncObs.sim_onframe",
        "Sonic.Model.WsAsyncObs.outcome",
    ],
    "runs": [{
        "component": "wsconc",
        "quick": {"gen": [(1500, 16)], "enum": [(3,), ("scenarios",)]},
        "thorough": {"gen": [(20000, 22)], "enum": [(4,), ("scenarios",)]},
    }, {
        # callbacks of a session that follows one whose asynchronous flush never completed (the application dropped the transport
        # with the write in flight and handshakes again on the same Stream): component of C18, clause "behaves like a fresh one"
        "component": "wshandshake",
        "quick": {"gen": [(150, 4)]},
        "thorough": {"gen": [(1200, 5)]},
        "timeout": 1500,
    },
        # a read and a write in flight on one descriptor at poller level (the second interest must not replace the first), and reads
        # that complete with an error while the stream is closing (components of C01 and C08)
        RUN_LOOP_SCENARIOS, RUN_WSSTREAM_SMALL],
    "keys": ["wsconc.*", "wshandshake.bytes-after-blank-line", "wshandshake.rehandshake", "loop.operation-never-completed-although-ready", "loop.callback-twice",
             "wsstream.state", "wsstream.hang", "wsstream.delivery"],
    "direct": [{"component": "wsconc", "timeout": 900},
               # two asynchronous writes back to back in a second session of a Stream whose first session ended with a failed write
               {"component": "wshandshake", "args": ["only=second-session"], "keys": ["wshandshake.rehandshake"], "timeout": 300}],
    "rule": "scripts = one client websocket.Stream attached (hook VerifAttach) to a real sonic.AsyncAdapter over a real loopback TCP "
            "connection whose other end is a std-library connection driven by the harness (independent RFC 6455 encoder for what the peer "
            "sends, independent parser for everything the client writes); application calls AsyncNextFrame / AsyncNextMessage / AsyncWrite "
            "(0,1,125-127,300,1000,1001,65535,65536, 7000-100000 bytes, above the maximum) / AsyncWriteFrame (data, continuation, ping, pong; "
            "FIN on/off) / AsyncFlush / AsyncClose at top level and from inside completion callbacks (handler programs, nested up to 3 deep, "
            "reads that re-arm themselves), peer frames (pings with 0-125 bytes, pongs, text/binary whole and fragmented, Close with and "
            "without code, frames that violate the framing rules, half-close), each placed in a chosen poll cycle (poll = ioc.PollOne()); "
            "transport writability is controlled by socket buffers of 4096 bytes (set before connect) and the peer not reading: a write(2) then "
            "accepts about 6 KB and the adapter's write reactor keeps the write in flight across poll cycles until the peer drains; rw=raw hands "
            "the adapter an io.ReadWriter doing non-blocking read(2)/write(2) on the same socket (short writes), rw=conn the net.Conn's own "
            "Write; a final phase flushes, lets the peer drain and feed pending reads, and polls until nothing moves. What the kernel decides "
            "(bytes accepted per write, bytes / complete frames per read, readiness) is reported as '?' lines and fed to the model, never "
            "predicted. enum = every sequence of 3 (4) events over {self-re-arming read, small write, write that blocks half-way, ping, data "
            "frame, poll, flush, message read whose callback writes}. Non-trivial = the model reached a non-default branch (flush queued "
            "behind a flush in flight, waiters released, flush going on with a frame queued meanwhile, partial write, read and write in flight "
            "together, reply queued by the read path while a write is in flight, read completed from a buffered frame, message read re-issued, "
            "call left out by the usage precondition, ...); direct mode (real goroutine and kernel timing, nothing placed): the raw peer sends "
            "1-30 Pings at random moments from its own goroutine and parses what it receives in another, while the loop goroutine keeps a "
            "self-re-arming AsyncNextFrame outstanding and issues 1-30 AsyncWrite calls (4 bytes to 20 KB, also while earlier ones are in "
            "flight) between polls, 40 (600) rounds; checked: every write callback exactly once with nil, reads deliver the peer's frames in "
            "order, the peer parses exactly the data frames in call order and one Pong per Ping in order, nothing left over",
    "trusted_base": LEAN_TB + [
        "Model/WsAsync.lean: hand-written labelled transition system of stream.go (AsyncNextFrame/asyncNextFrame, AsyncNextMessage/"
        "asyncNextMessage, AsyncWrite, AsyncWriteFrame, prepareWrite, AsyncClose, AsyncFlush/asyncFlush with asyncFlushing and "
        "asyncFlushWaiters, handleFrame/handleControlFrame at the level of 'which frame is queued'), codec.go AsyncReadNext/AsyncWriteNext, "
        "byte_buffer.go AsyncReadFrom/AsyncWriteTo and the two reactors of async_adapter.go, at frame-identity granularity (frame bytes are "
        "C16, decoding is C07, the closing handshake is C08); tied to the source only by the correspondence check, which compares every "
        "call/return nesting, every callback entry with its result (inline or deferred, and in which order), State(), Pending(), the size of "
        "every buffer handed to the transport, the frames that reached the peer and what is still owed at the end",
        "harness/wsconc.go: real AsyncAdapter and poller over real sockets; the io.ReadWriter given to the adapter reports what read(2)/"
        "write(2) did; the independent wire parser and frame encoder of harness/wsstream.go; hook (*Stream).VerifAttach",
        "the property monitor Spec/WsAsync.lean (ledger of callback ids, submission-order matching of the parsed wire) is independent of the model",
        "Model/WsAsyncObs.lean: the observation function of the refinement theorem (which monitor events a model run produces). It "
        "gives every frame identity of the model the content its submitter gave it (frame bytes are C16) and places the peer's "
        "reports (`drain`) and the end of the run (`finish`) where the harness places them; the trace driver reads `call` lines and "
        "peer frames through the same functions (Call.action / Call.ev / absFrame) and rejects a trace on which the model driver and "
        "the monitor driver disagree about a call",
    ],
    "assumptions": [
        "usage as documented: one AsyncNextFrame/AsyncNextMessage outstanding at a time (the next one is started from the callback or later), "
        "callback ids name one call each, PollOne is not re-entered from a callback; the harness enforces it at run time (a call that would "
        "break it is left out and reported as 'skip'), the model's `callOk` is the same predicate",
        "transport errors are outside the property's quantifier: they are modelled (wrErr/rdErr/rdEof; the callback theorems hold with them) "
        "but not injected by the harness, except the peer's orderly half-close",
        "real kernel and thread timing is observed, not modelled: in which poll cycle the socket is reported ready and how many bytes a write "
        "accepts are inputs of the acceptor; only the loop goroutine touches the stream (the API is single-threaded by contract)",
        "Encode never fails for frames built by the library or by AcquireFrame/SetPayload (so AsyncWriteNext always reaches the adapter), and "
        "the adapter is not closed while operations are in flight",
    ],
    "manifest": {
        "level_text": "Partial. Proved (Lean, by an invariant over ALL label sequences of the transition system of the asynchronous API: any "
                      "program of calls issued at top level or from inside callbacks to any depth, any interleaving with peer frames, any split "
                      "of every write into partial writes, transport failures included): the adapter's single write reactor is never "
                      "re-initialised while in use - a write is in flight exactly while asyncFlushing is set, callers arriving meanwhile wait in "
                      "the queue, the buffer handed to the transport is one frame; every callback handed to AsyncNextFrame, AsyncNextMessage, "
                      "AsyncWrite, AsyncWriteFrame, AsyncFlush or AsyncClose has been invoked at most once in every reachable state, only such "
                      "callbacks are invoked, and exactly once whenever nothing is executing and no reactor is armed; a callback not yet run is "
                      "always either the reader the read reactor is armed for or waits on a write in flight (so writes never swallow a read "
                      "continuation and control replies never swallow a write completion); while the transport has not failed, wire ++ frame in "
                      "flight ++ pendingFrames = the submitted frames in order (application frames in call order, a Pong/Close reply behind what "
                      "was queued before the Ping/Close was read) and byte for byte the transport has received whole frames followed by a "
                      "prefix of the frame in flight (no interleaved or repeated bytes). Refinement (C17_monitor_accepts_model): the property "
                      "monitor the real traces are checked with accepts EVERY history of the model - for every sequence of observed labels "
                      "(model labels with the concrete data of a trace line, plus the peer sending frames, the peer reporting the frames it "
                      "parsed, the end of the run) the events a process would observe of it are accepted, by a coupling invariant between "
                      "model, observer and monitor states kept by every step (step_sim; 21 clauses: callback ledger, nesting, frames owed to "
                      "the wire = submitted minus reported, peer stream = frames not yet delivered, which read is outstanding) and induction "
                      "over the run, transport failures included; the observation is total on model transitions "
                      "(C17_observed_steps_are_model_steps). Proving it showed the monitor rejected legitimate histories after a transport "
                      "failure (an error completion of a write, and the wire after a lost frame): the monitor is now told of transport "
                      "failures (event transportErr, fed from the '? write err' / '? read err' lines) and compares the wire only while the "
                      "transport is healthy, as the property states; and the model now distinguishes protocol errors from transport errors "
                      "in read results (compared with the implementation on every run). The model with the serialisation flag ignored (the code "
                      "before 54ea8af) is shown by concrete runs (decide) to overwrite the reactor, drop the continuation of a read, and repeat "
                      "bytes after a partial write; both scripts are in the corpus and are reported again when the fix is reverted. Outside the "
                      "theorems, exercised by the correspondence check only: the real adapter, poller and kernel (readiness, bytes accepted per "
                      "write, thread timing are observed and fed to the model), frame bytes (C16), decoding (C07); liveness is stated as 'nothing "
                      "is parked without an armed reactor', not as eventual completion; transport errors are modelled but not injected.",
        "design_ref": "5/C17",
        "level_note": "Trusted: Lean kernel; the hand-written transition system of stream.go / codec.go / byte_buffer.go / async_adapter.go "
                      "(validated on every run by the differential trace check against a real websocket.Stream on a real AsyncAdapter over TCP, "
                      "including callback order, inline vs deferred completion, State(), Pending(), buffer sizes handed to the transport and the "
                      "frames parsed by an independent RFC 6455 parser on the peer side); the monitor of callback ids and wire order is "
                      "independent of the model and accepts every model history (proved); the observation function Model/WsAsyncObs.lean "
                      "(content of frame identities, placement of the peer's reports); Linux TCP loopback, epoll, the Go runtime.",
        "technique": "Lean 4 invariant proof over a labelled transition system (callback ledger by counting, wire order by list equations, "
                     "historical witness by decide) + refinement proof (model histories accepted by the property monitor, coupling invariant) "
                     "+ differential trace correspondence on a real adapter/socket with an independent wire parser",
    },
}
