from .common import LEAN_TB
from .C03 import LOOP_TB, LOOP_RUNS, LOOP_RULE

PROP = {
    "id": "C14",
    "lean_targets": ["Sonic.Props.C14", "Sonic.Props.C02"],
    "theorems": [
        "Sonic.Props.C14.C14_dispatch_accounting",
        "Sonic.Props.C14.C14_inline_depth_bounded",
        "Sonic.Props.C14.C14_counter_restored",
        "Sonic.Props.C14.C14_counter_zero_when_idle",
        "Sonic.Props.C14.C14_deferred_at_limit",
        "Sonic.Model.Loop.step_disp_core",
        # over the transfer model of C02 (tied to file.go / async_adapter.go by the `xfer` component, deferred issues included)
        "Sonic.Props.C02.C14_deferred_read_same_result",
        "Sonic.Props.C02.C14_deferred_write_same_result",
        "Sonic.Props.C02.C02_read_would_block_irrelevant",
        "Sonic.Props.C02.C02_write_would_block_irrelevant",
    ],
    # second run: datagram reads and writes of packet conns and multicast peers issued at the dispatch limit (component of C12, whose
    # monitor knows which datagram must reach which socket): "still completes with the result it would have had inline"
    "runs": LOOP_RUNS + [{
        "component": "mcast",
        "quick": {"gen": [(1500, 30)]},
        "thorough": {"gen": [(15000, 45)]},
        "timeout": 1500,
    }, {
        # third run: the transfer model of C02 (`readOp` / `writeOp`) against reads and writes on pipes that were issued with
        # IO.Dispatched at the limit (script lines ending in `d`): deferred to the poller, never completed inline, and completing with
        # exactly the result class, count and bytes the model computes for that schedule — which does not depend on the deferral
        "component": "xfer",
        "quick": {"gen": [(3000, 6)]},
        "thorough": {"gen": [(40000, 8)]},
    }],
    "keys": ["xfer.*", "nesting-deeper-than-limit", "dispatch-depth-not-restored", "regular-file-not-deferrable",
             "operation-deferred-at-limit-never-completed", "completed-inline-at-the-dispatch-limit",
             "mcast.write-wrong-destination", "mcast.write-lost", "mcast.write-duplicated", "mcast.write-length", "mcast.read-stale-buffer",
             "mcast.read-not-completed", "mcast.read-bytes", "mcast.panic",
             # a panic inside the poller's dispatch loop: what was deferred to it (at the limit or on would-block) never completes
             "panic"],
    "secondary_keys": ["nesting-deeper-than-limit", "operation-deferred-at-limit-never-completed", "completed-inline-at-the-dispatch-limit"],
    "rule": LOOP_RULE,
    "trusted_base": LOOP_TB,
    "assumptions": [
        "the program stores into the public field IO.Dispatched only at top level and only non-negative values (hypothesis EvOk)",
        "callbacks delivered by Cancel, timer callbacks and posted handlers are not 'immediately completed operations' and are not counted",
    ],
    "manifest": {
        "level_text": "Partial. Proved (Lean, over all event histories of the loop model, any mix of objects, chains of any length): "
                      "IO.Dispatched = base + number of nested inline completions; an inline completion is taken only below "
                      "MaxCallbackDispatch, so at most MaxCallbackDispatch are nested (the poller contributes one uncounted frame per "
                      "poll frame); at the limit a start can only be deferred; after unwinding the counter is back at its base (zero "
                      "without an explicit store). 'The deferred operation completes with the same result as inline': proved for stream reads and writes over "
                      "the transfer model of C02 (C14_deferred_{read,write}_same_result, and would-blocks anywhere in the schedule are "
                      "irrelevant to result class, count and bytes), that model being executed against file.go on pipes with operations "
                      "issued at the limit (`xfer`, script lines ending in d: deferred, never inline, same result); for the other "
                      "descriptor kinds it is kernel behaviour, checked by the trace monitor's data/ledger clauses and the drain phase; "
                      "known finding: regular files cannot be deferred (epoll returns EPERM).",
        "design_ref": "5/C14",
        "level_note": "Trusted: Lean kernel; hand-written loop model tied to the code by trace acceptance. The five copies of the counter "
                      "logic (file, listener, packet conn, multicast peer) are one reactor in the model with per-kind flags; multicast "
                      "peer is exercised by C12's harness only.",
        "technique": "Lean 4 invariant proof over a loop-model LTS + induction over kernel schedules of the transfer model + trace acceptance on the real event loop and differential execution of the transfer model",
    },
}
