from .common import LEAN_TB, TRANSLATOR_TB, RUN_LOOP_SCENARIOS

PROP = {
    "id": "C05",
    "lean_targets": ["Sonic.Props.C05"],
    "theorems": [
        "Sonic.Props.C05.C05_exactly_once_in_order",
        "Sonic.Props.C05.C05_executed_is_prefix",
        "Sonic.Props.C05.C05_all_executed_when_drained",
        "Sonic.Props.C05.C05_on_loop_thread",
        "Sonic.Props.C05.C05_no_lost_wakeup",
        "Sonic.Props.C05.C05_mutex_discipline",
        "Sonic.Props.C05.C05_no_deadlock",
        "Sonic.Props.C05.C05_pending_exact",
        "Sonic.Props.C05.C05_pending_zero_when_done",
        "Sonic.Props.C05.C05_race_free",
        "Sonic.Props.C05.C05_source_order",
        "Sonic.Model.Post.step_inv",
    ],
    "runs": [{
        "component": "post",
        "quick": {"gen": [(1500, 25)], "enum": [(5,)]},
        "thorough": {"gen": [(30000, 40)], "enum": [(7,)]},
    },
        # "leaves Pending() and Posted() exact" next to everything else that moves the counter (arming, disarming — also on
        # descriptors that were closed underneath —, cancelling, closing): the accounting clauses of the event-loop component
        RUN_LOOP_SCENARIOS],
    "keys": ["post.*", "loop.pending-differs-from-ledger", "loop.posted-differs-from-ledger", "loop.ledger-pending-differs-from-operations-in-flight",
             "wshandshake.data-race"],
    # "free of data races": the stress monitor once more under Go's race detector (harness built with -race), and the library's own
    # user of Post from another goroutine — AsyncHandshake, which dials on a goroutine and posts the completion — with the failure
    # callback handshaking again at once: the dialling goroutine must be done with the Stream when it posts
    "direct": [{"component": "post", "timeout": 1500},
               {"component": "post", "race": True, "keys": ["post.data-race"], "timeout": 1500},
               {"component": "wshandshake", "race": True, "args": ["only=async-failure"], "keys": ["wshandshake.data-race"], "timeout": 900}],
    "rule": "trace mode: linearised schedules - goroutine k (k=0..3) calls ioc.Post(h) from its own goroutine and returns, handlers "
            "registered to post further handlers when they run (chains), PollOne on the loop's locked OS thread; observations: which "
            "handlers ran in which order, on which OS thread, Pending()/Posted() after every call; every sequence of 5 (7) steps over "
            "{post by 0, post by 1, nest, poll} exhaustively; non-trivial = a batch of several handlers, a nested Post, a queue of "
            "several, an idle poll; direct mode: 8 (16) goroutines x 200 (400) posts with 0-3 nested generations against the running loop, "
            "1500 (20000) bursts of 12 goroutines x 4 posts released together, 8 goroutines posting while the loop goroutine arms and cancels a read, "
            "(every handler exactly once, on the loop thread, per-poster order, Pending() counts the running handler, counters zero at "
            "quiescence), a ping-pong stage in which every Post finds the loop blocked in its wait, and the library's own hand-off: "
            "AsyncHandshake (conforming mock server / refused dial) with the loop stopped - until the queued completion is dispatched the "
            "stream is untouched and the callback has not run; it then runs on the loop thread",
    "trusted_base": LEAN_TB + [TRANSLATOR_TB + " (access table: every access to poller.posts / poller.pending with lock-held and "
                               "atomic flags; statement order of Post, dispatch, Posted, Pending)",
                               "Sonic/Model/Post.lean: hand-written interleaving model whose step order is checked against the extracted "
                               "statement order (C05_source_order) and whose linearised behaviour is compared with the real Post"],
    "assumptions": [
        "atomic steps of the model = the synchronisation-relevant statements; sync.Mutex, sync/atomic and the Go memory model are assumed",
        "eventfd is level-triggered: epoll_wait returns while the counter is non-zero",
        "a data race in the binary cannot be exhibited by a theorem: the stress harness (and its -race build in the thorough tier) searches",
    ],
    "manifest": {
        "level_text": "Partial. Proved (Lean, invariant over ALL interleavings of any number of posting threads with the loop thread, "
                      "handlers that post again, unbounded programs): executed ++ batch ++ queue = append log (exactly once, global "
                      "hence per-goroutine FIFO, nothing lost), handlers start only on the loop thread, no lost wake-up, mutex held only "
                      "in non-blocking sections and never while a handler runs, no deadlock (a state where nobody can step has "
                      "everything executed), Pending/Posted exact; and over the access table regenerated from poll_linux.go: every "
                      "pair of conflicting accesses is both-atomic or both-under-lock, and the statement order of Post/dispatch is the "
                      "model's. Real thread interleavings below statement granularity and the memory model are assumed; linearised "
                      "schedules are compared exactly with the model, a concurrent stress run searches for failing schedules.",
        "design_ref": "5/C05",
        "level_note": "Trusted: Lean kernel; access-table/statement-order extractor; hand-written interleaving model; Go runtime "
                      "(mutex, atomics, scheduler), Linux eventfd/epoll.",
        "technique": "Lean 4 invariant proof over an interleaving model + extracted access table (decide) + linearised trace "
                     "correspondence and concurrent stress search",
    },
}
