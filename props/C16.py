from .common import RUN_WSCONC_SMALL, LEAN_TB, WSFRAME_TB

PROP = {
        "id": "C16",
        "lean_targets": ["Sonic.Props.C16"],
        "theorems": [
            "Sonic.Props.C16.C16_wire_format",
            "Sonic.Props.C16.C16_wire_format_no_payload",
            "Sonic.Props.C16.C16_mask_involution",
            "Sonic.Props.C16.C16_refuse_above_max",
            "Sonic.Props.C16.step_ok",
            "Sonic.Props.C16.C16_order_complete",
            "Sonic.Props.C16.C16_order_complete_init",
            "Sonic.Props.C16.C16_wire_parses",
            # tie T: the frame header logic regenerated from frame.go / rfc6455.go / util/bytes.go (Props/WsFrameTie.lean)
            "Sonic.Props.C16.C16_tie_setters",
            "Sonic.Props.C16.C16_tie_named_opcode_setters",
            "Sonic.Props.C16.C16_tie_offsets",
            "Sonic.Props.C16.C16_tie_extend_slice",
            "Sonic.Props.C16.C16_tie_set_payload_length",
            "Sonic.Props.C16.C16_tie_length_class_boundaries",
        ],
        "runs": [{
            "component": "wswrite",
            "quick": {"gen": [(2500, 12)], "enum": [(2,)]},
            "thorough": {"gen": [(25000, 14)], "enum": [(3,)]},
        }, {
            # "no trailing bytes left over from earlier frames" across a reconnect: a session whose flush failed leaves an encoded
            # frame in the write buffer; the next handshake on the same Stream must start with a clean wire (component of C18)
            "component": "wshandshake",
            "quick": {"gen": [(150, 4)]},
            "thorough": {"gen": [(1200, 5)]},
            "timeout": 1500,
        },
            # submission order on a real adapter, with automatic replies queued while application frames are in flight (component of C17)
            RUN_WSCONC_SMALL],
        "keys": ["wswrite.*", "wshandshake.stale-session", "wsconc.wire-*"],
        # blocking writes on a transport that fails once and works again (outside the model: the wire monitor is stated for a
        # transport that accepts every write)
        "direct": [{"component": "wswrite", "timeout": 600}],
        "rule": "scripts = a client websocket.Stream attached (hook VerifAttach) to the in-memory transport; max from {0,1,5,125,126,127,200,300,"
                "1000,4096,65535,65536,66000}; operations Write/WriteFrame/Flush/Close or their Async variants (one mode per script: the stream "
                "allows one write in flight) with payload sizes 0,1,125,126,127,300,65535,65536,max-1,max,max+1 and random small ones, caller-built "
                "frames (ping/pong/text/binary/continuation, FIN on/off) with payload, with empty payload and WITHOUT SetPayload, long->short->none "
                "sequences so that pooled frames are reused, partial-write plans (1..15, 100, 4096 bytes per write, 0 = would block in async mode), "
                "deferred completion with pump; enum = every sequence of k operations over a 10-operation alphabet with a whole-write and a "
                "byte-at-a-time transport. crypto/rand.Reader is replaced by a seeded generator so that the masking keys are reproducible; they are "
                "environment values for the model. Non-trivial = the model reached a non-default branch (length form 16/64, empty payload, no "
                "SetPayload, stale pooled length, partial writes, would-block, in-flight, waiters, cancelled, above max, ...)",
        "trusted_base": LEAN_TB + WSFRAME_TB + [
            "of the hand-written models below, the bit setters, maskOffset/payloadOffset, ExtendSlice and setPayloadLength of Model/WsEncode.lean are in "
            "addition proved equal to the code regenerated from the source (C16_tie_*); SetPayload's copy, MaskPayload, Encode and the stream write path are not",
            "Model/WsEncode.lean, Model/WsWritePath.lean are hand-written models of frame.go (SetPayload/setPayloadLength/MaskPayload/...), util.go Mask, "
            "util/bytes.go ExtendSlice, frame_codec.go Encode, stream.go (Write/WriteFrame/AsyncWrite/AsyncWriteFrame/prepareWrite/Flush/AsyncFlush/"
            "Close/prepareClose) and codec.go WriteNext/AsyncWriteNext at frame granularity; tied to the source only by the correspondence check",
            "harness/memstream.go (scripted transport: partial-write plan, deferral) is modelled in Model/WsWritePath.lean (accept/writeAll/pumpWrite)",
        ],
        "assumptions": [
            "one write in flight: a blocking Write/WriteFrame/Flush/Close is not issued while an asynchronous flush is in flight (that overlap is C17); "
            "the generator respects it and the model reports a script that does not as outside the modelled usage",
            "transport errors are outside the property's quantifier (no error injection); a blocking transport that accepts 0 bytes forever is excluded",
            "payloads are shorter than 2^61 bytes; caller-built frames come from AcquireFrame of a client stream (slice of >= 6 bytes, backing array "
            ">= 14 bytes, first header byte zero after Reset)",
            "sync.Pool is the runtime's: which pooled slice AcquireFrame returns is an environment value (its length is reported for caller-built "
            "frames); C16_wire_format holds for EVERY pooled slice",
            "automatically generated Pong frames are built by the same AcquireFrame/SetPayload/prepareWrite path (handleControlFrame); they are "
            "exercised by the C08 harness, not by this one; the server role is not exercised here",
        ],
        "manifest": {
        "level_text": "Full for the write path as modelled. Frame level (theorems over the model of AcquireFrame..SetPayload..MaskPayload..Encode): "
                      "for EVERY pooled slice (any length >= 2, any stale contents, first byte zero), FIN, opcode, payload < 2^63 bytes and key, "
                      "the bytes handed to the transport are exactly the RFC 6455 reference encoding of a frame with the mask bit set, a 4-byte key, the "
                      "shortest length form and a payload that un-masks to the caller's bytes, nothing after it; a frame built without SetPayload "
                      "writes exactly 6 bytes whatever the pooled length; Mask is an involution. Stream level (induction over arbitrary operation "
                      "lists: Write/WriteFrame/Flush/Close and asynchronous variants, any partial-write plan, deferred completion): the accepted "
                      "bytes are always a prefix of the concatenation of the queued frames in submission order (each complete before the next), a "
                      "blocking call returning nil leaves nothing queued, a message above the maximum is refused with nothing written or queued, and "
                      "at quiescence the independent RFC 6455 parser recovers exactly one well-formed masked frame per accepted submission. Outside "
                      "the theorems: overlap of blocking and asynchronous writes (C17), transport errors, the server role."
                      " Tie T (regenerated from the source on every run, Sonic/Gen/WsFrameBits.lean): SetFIN/SetRSV1-3/SetIsMasked/SetOpcode (and the named opcode setters), maskOffset/payloadOffset, util.ExtendSlice and setPayloadLength are proved equal to the model's definitions for every pooled frame (array + length, any stale contents) and every length, with the length-class boundaries 125/126 and 65535/65536 also evaluated on the generated code itself. Still hand-written and tied only by traces: SetPayload's copy, MaskPayload/Mask/GenMask, Encode, and the stream write path (Model/WsEncode.lean beyond the functions named, Model/WsWritePath.lean).",
        "design_ref": "5/C16",
        "level_note": "Trusted: Lean kernel; the hand-written models of frame.go/util.go/util/bytes.go/frame_codec.go Encode/stream.go write path and "
                      "of the harness transport (validated on every run by the differential trace check against a real websocket.Stream with "
                      "seeded masking keys, including write segmentation, callbacks, Pending() and write-buffer residue); the wire monitor parses "
                      "the complete outgoing stream with the independent parser of Spec/WsFrame.lean.",
        "technique": "Lean 4 proofs (frame layout lemmas, stream invariant by induction) + differential trace correspondence with an independent wire parser",
    },
}
