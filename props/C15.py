from .C08 import WS_TB
from .common import WSFRAME_TB

PROP = {
        "id": "C15",
        "lean_targets": ["Sonic.Props.C15"],
        "theorems": [
            "Sonic.Props.C15.C15_refines",
            "Sonic.Props.C15.C15_frame_violation_is_error",
            "Sonic.Props.C15.C15_fragmentation",
            "Sonic.Props.C15.C15_unexpected_continuation",
            "Sonic.Props.C15.C15_expected_continuation",
            "Sonic.Props.C15.C15_too_big",
            "Sonic.Props.C15.isViolation_iff",
            "Sonic.Props.C15.C15_no_panic",
            # tie T: the frame header logic regenerated from frame.go / rfc6455.go / util/bytes.go (Props/WsFrameTie.lean)
            "Sonic.Props.C15.C15_tie_opcode_reserved",
            "Sonic.Props.C15.C15_tie_opcode_control",
            "Sonic.Props.C15.C15_tie_opcode_table",
            "Sonic.Props.C15.C15_tie_control_payload_limit",
            "Sonic.Props.C15.C15_tie_valid_close_code",
        ],
        "runs": [{
            "component": "wsstream",
            "quick": {"gen": [(20000, 24)], "enum": [(4, 2), (3, 1)]},
            "thorough": {"gen": [(60000, 36)], "enum": [(4, 2), (5, 2), (4, 1)]},
        }, {
            # byte level: declared lengths in every header form, including 64-bit lengths far over the maximum and with the top
            # bit set (the frame-level component above always declares the real payload length)
            "component": "wsdecode",
            "quick": {"gen": [(3000, 30)]},
            "thorough": {"gen": [(30000, 40)]},
        }],
        "keys": ["wsstream.*", "wsdecode.bounded", "wsdecode.panic", "wsdecode.frame", "wshandshake.second-session-close"],
        # a Stream that is handshaken again answers violations like a fresh one (real servers, two sessions per Stream)
        "direct": [{"component": "wshandshake", "args": ["only=second-session"], "keys": ["wshandshake.second-session-close"], "timeout": 300}],
        "rule": "same component as C08; half of the generated scripts are single-violation mutations of conforming sessions (reserved "
                "bits, reserved opcode 3-7/0xB-0xF, masked frame, control frame without FIN, control payload > 125, continuation "
                "with nothing to continue, new data frame inside a fragmented message, frame over the maximum) injected at a random "
                "position, possibly behind queued conforming frames, read through NextFrame/AsyncNextFrame/NextMessage/AsyncNextMessage "
                "with caller buffers of size 0, 1, small, max, 2*max+8, then followed by writes/flush/close/reads; exhaustive = every "
                "sequence of 3-5 events over a 15-event alphabet of violations, fragments and message reads; non-trivial/distinct as in C08; plus the "
                "byte-level decoder component of C07 (`wsdecode`: declared lengths in every header form relative to the maximum, incl. 2^32, 2^62, "
                "2^63-1, 2^63, 2^63+k, 2^64-1) for the clause that a frame larger than the maximum is refused (keys wsdecode.bounded/frame/panic)",
        "trusted_base": WS_TB + WSFRAME_TB,
        "assumptions": [
            "OpsOk: the application writes text/binary messages and does not send Close frames itself through WriteFrame/Write",
            "frame granularity: 'under every segmentation' is discharged by C07 (decoder is segmentation independent); here one frame "
            "= one transport chunk",
            "transport writes succeed; UTF-8 validation of text payloads is off (library default); RoleClient",
        ],
        "manifest": {
        "level_text": "Theorems over the same hand-written frame-level model of stream.go as C08, for every state in which the client may "
                      "read and for all unbounded histories: a frame with a reserved bit, a reserved opcode, a mask, a control frame "
                      "without FIN or with more than 125 payload bytes makes NextFrame, AsyncNextFrame, NextMessage and AsyncNextMessage "
                      "return a protocol error with nothing of it copied to the caller, queues Close(1002) exactly when no Close is out "
                      "yet, and makes Write/WriteFrame/Close fail afterwards; continuation with nothing to continue and a new data frame "
                      "inside a fragmented message give ErrUnexpectedContinuation/ErrExpectedContinuation from the message API; frames "
                      "over the maximum and messages over the maximum or the caller's buffer are errors; no call panics. Partial in that "
                      "the model is hand-written (tied to the source by the differential trace check) and segmentation is delegated to C07."
                      " Tie T (regenerated from the source on every run, Sonic/Gen/WsFrameBits.lean): Opcode.IsReserved and Opcode.IsControl with the source's opcode constants are proved equal to the model's isReserved / isControl for all 256 byte values (reserved = 3-7, 11-15; control = 8, 9, 10), MaxControlFramePayloadLength = 125, and ValidCloseCode with the source's close-code constants equal to the specification's validCloseCode for all 65536 codes; the header bits the violations are read from (RSV1-3, opcode, mask, FIN) are covered by C07_tie_header_accessors. Still hand-written and tied only by traces: verifyFrame / handleFrame / handleControlFrame / the message assembly of stream.go (Model/WsStream.lean).",
        "design_ref": "5/C15",
        "level_note": "Trusted: Lean kernel; the hand-written model (validated on every run against the real Stream); frame decoder "
                      "abstracted as 'next frame or decode error' (C07).",
        "technique": "Lean 4 refinement proof + clause theorems over the model of stream.go; mutation-based differential trace correspondence",
    },
}
