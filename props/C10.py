from .common import LEAN_TB, TRANSLATOR_TB

PROP = {
        "id": "C10",
        "lean_targets": ["Sonic.Props.C10"],
        "theorems": [
            "Sonic.Props.C10.C10_fifo_of_contiguous_chunks",
            "Sonic.Props.C10.C10_claim_disjoint",
            "Sonic.Props.C10.C10_empty_grants_full",
            "Sonic.Props.C10.C10_inv_reachable",
        ],
        "runs": [{
            "component": "bip",
            # ("huge", k): two buffers of 2 GiB + 4 KiB and 4 GiB + 4 KiB (offsets beyond 31 / 32 bits; address space only, nothing is
            # stored; not produced with less than 12 GiB available). The cell-list monitor is not followed above 2^24 cells: these
            # scripts are decided by equality with the model (tag huge-size-model-only) and by the direct monitor below.
            "quick": {"gen": [(3000, 40)], "enum": [(4, 3), ("huge", 40)]},
            "thorough": {"gen": [(60000, 60)], "enum": [(s, 4) for s in range(1, 10)] + [(4, 5), ("huge", 2000)]},
        }],
        # the monitor of Spec/Bip.lean re-stated over intervals (Go), replayed on the huge buffers
        "direct": [{"component": "bip"}],
        "rule": "scripts = NewBipBuffer(size) followed by random Claim/Commit/Head/Consume/Committed/Reset with boundary-biased "
                "arguments (0, size, size+k, 2^31, 2^62, MaxInt) or every sequence over {0,1,size/2,size} (exhaustive); a script is "
                "non-trivial when the model reached a non-default branch (wrapped region, promotion, clamped claim/commit, "
                "partial commit, over-consume, claim placed before the head); distinct = by SHA-1 of the implementation trace",
        "trusted_base": LEAN_TB + [TRANSLATOR_TB, "bip_buffer.go is translated (all methods), not hand-modelled; the byte array itself is modelled as cell positions"],
        "assumptions": [
            "arguments are non-negative Go ints (the property's quantifier); size <= MaxInt64",
            "slice offsets are observed through unsafe pointer arithmetic relative to the buffer's backing array",
        ],
        "manifest": {
        "level_text": "Theorems over the definitions regenerated from bip_buffer.go: for every size and every sequence of "
                      "Claim/Commit/Head/Consume/Committed/Reset with non-negative arguments the implementation's answers are accepted by an "
                      "abstract byte-queue monitor (claims disjoint from queued cells, empty buffer grants min(n,size), commits append the "
                      "claimed prefix as one chunk, Head is the maximal contiguous run, Consume frees the oldest cells, Committed is the queue "
                      "length). Unbounded induction over the operation list; int64 wrap-around modelled.",
        "design_ref": "5/C10",
        "level_note": "Trusted: Lean kernel; go2lean translator + Go prelude (both exercised on every run by the differential trace check "
                      "against the real BipBuffer); memory modelled as cell positions.",
        "technique": "Lean 4 refinement proof over translated code + differential trace correspondence",
    },
}
