from .common import LEAN_TB, TRANSLATOR_TB

PROP = {
        "id": "C20",
        "lean_targets": ["Sonic.Props.C20"],
        "theorems": [
            "Sonic.Props.C20.C20_addresses_saved_bytes",
        "Sonic.Props.C20.step_resetAll",
            "Sonic.Props.C20.C20_offsetter_addresses_saved_bytes",
            "Sonic.Props.C20.C20_inv_reachable",
            "Sonic.Props.C20.C20_pop_addresses",
            "Sonic.Props.C20.C20_discard_exact",
            "Sonic.Props.C20.C20_duplicates",
            "Sonic.Props.C20.C20_capacity_errors_preserve_state",
            "Sonic.Props.C20.C20_park_verdict",
            "Sonic.Props.C20.C20_totals",
            "Sonic.Props.C20.fenwick_prefix_sum",
            "Sonic.Props.C20.fenwick_sum",
        ],
        "runs": [{
            "component": "slots",
            "quick": {"gen": [(12000, 60)], "enum": [(2, 4, 4), (3, 3, 4, "z")]},
            "thorough": {"gen": [(150000, 80)], "enum": [(2, 4, 5), (3, 3, 5, "z"), (1, 2, 5), (3, 64, 4, "z"), (3, 5, 5)]},
        }],
        # SlotSequencer.Reset with packets still parked, then reuse (outside the modelled workflow; own oracle)
        "direct": [{"component": "slots", "timeout": 600}],
        "rule": "scripts = NewByteBuffer + NewSlotSequencer(maxSlots, maxBytes) followed by the documented workflow pairs "
                "park = Write/Commit/Save(n)/Push(seq)/Discard-on-rejection and take = Pop(seq)/SavedSlot/Discard, in four styles "
                "(batches that drain to empty out of order; a pinned packet so that the sequencer never drains; free mix; pressure on "
                "the byte and slot limits with duplicates), sequence numbers around 0, negative, 1000, MinInt64/MaxInt64, packet sizes "
                "0..40 biased to the remaining byte capacity +-1, Save arguments len, 0, -1, len+-1, 2^40, Min/MaxInt64; one script in "
                "five drives a bare SlotOffsetter (add/off/reset) instead; exhaustive = every sequence of park seq in {1,2,3} x len in "
                "{(0,)1,2} and take seq in {1,2,3} of the given length. A script is non-trivial when the model reached a non-default "
                "branch (insert before an existing number, duplicate, byte/slot limit, index space used up, take shifted by earlier "
                "discards, take in a never-drained sequencer, drain after out-of-order takes, clamped Save, empty packet, miss); "
                "distinct = by SHA-1 of the implementation trace",
        "trusted_base": LEAN_TB + [
            TRANSLATOR_TB + " (slot.go: OffsetSlot)",
            "Sonic/Model/Slots.lean: hand-written model of fenwick_tree.go, slot_offsetter.go, sequenced_slots.go, slot_sequencer.go and "
            "the save-area methods of byte_buffer.go (sort.Search by its contract; buffer capacity not modelled), compared with the real "
            "code on every run",
        ],
        "assumptions": [
            "0 <= maxBytes <= MaxInt64; indices and lengths stay far below 2^63 (the model adds them without wrap-around)",
            "the documented workflow: every Save is followed by Push (and Discard of that slot if Push rejects it), every Pop by Discard "
            "before the next Push/Pop; a Push between a Pop and its Discard is outside the contract and is not generated",
            "sort.Search is modelled by its contract (first index whose predicate holds on the sorted slice); the buffer's capacity is "
            "not modelled (SavedSlot of a range beyond len(data) is reported as 'out')",
        ],
        "manifest": {
        "level_text": "Theorems over a hand-written Lean model that mirrors fenwick_tree.go, slot_offsetter.go, sequenced_slots.go, "
                      "slot_sequencer.go and ByteBuffer.Write/Commit/Save/SavedSlot/Discard (OffsetSlot is regenerated from slot.go): for all "
                      "limits and every interleaving of park (any sequence numbers, duplicates, every size including empty packets and clamped "
                      "Save arguments, limits hit or not) and take (any order, draining or never draining), and likewise for the bare "
                      "SlotOffsetter (add/off/reset by handle), the model's answers are accepted by a monitor that keeps a map seq -> bytes: "
                      "the slot Pop/Offset returns addresses exactly the bytes saved under that number whatever was discarded before, Discard "
                      "removes exactly those bytes and leaves every other packet in place, duplicates and limit errors change nothing, "
                      "Bytes()/Size()/Saved() equal the parked totals, nothing panics; Fenwick SumUntil/Sum = prefix sums after any Adds and "
                      "both loops terminate (bit recurrences proved in core Lean). Unbounded induction over the operation list. Modelling "
                      "assumptions outside the theorems (carried by the differential check): sort.Search by its contract, buffer capacity, no "
                      "int overflow in index arithmetic, the documented workflow (no Push between a Pop and its Discard). Observed limitation "
                      "(accepted by the monitor, not a violation): the offsetter's index space of maxBytes cells is consumed by discards, so a "
                      "sequencer that never drains eventually answers every Push with ErrNoSpaceLeftForSlot although Bytes()/Size() are small; "
                      "the error is reported, the state is unchanged and addressing stays exact; draining to empty resets it.",
        "design_ref": "5/C20",
        "level_note": "Trusted: Lean kernel; the hand-written model (exercised on every run by the differential trace check against the real "
                      "ByteBuffer + SlotSequencer/SlotOffsetter, including exhaustive small scopes); go2lean for OffsetSlot.",
        "technique": "Lean 4 refinement proof over a hand-written model + differential trace correspondence",
    },
}
