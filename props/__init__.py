"""Per-property configuration of /verif/check: one module per property, `PROP` dict each."""
import importlib
import os
import re

PROPS = {}
for _fn in sorted(os.listdir(os.path.dirname(__file__))):
    if re.fullmatch(r"C[0-9]+\.py", _fn):
        _m = importlib.import_module("props." + _fn[:-3])
        PROPS[_m.PROP["id"]] = _m.PROP
