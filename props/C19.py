from .common import LEAN_TB

PROP = {
        "id": "C19",
        "lean_targets": ["Sonic.Props.C19"],
        "theorems": [
        ],
        "runs": [{
            "component": "codec",
            "quick": {"gen": [(1500, 40)], "enum": [(9,)]},
            "thorough": {"gen": [(30000, 60)], "enum": [(13,)]},
        }],
        "rule": "TBD",
        "trusted_base": LEAN_TB,
        "assumptions": [],
        "manifest": {
        "level_text": "TBD",
        "design_ref": "5/C19",
        "level_note": "TBD",
        "technique": "Lean 4 refinement proof + differential trace correspondence",
    },
}
