from .common import LEAN_TB

PROP = {
        "id": "C19",
        "lean_targets": ["Sonic.Props.C19"],
        "theorems": [
            "Sonic.Props.C19.C19_trace_accepted",
            "Sonic.Props.C19.C19_roundtrip",
            "Sonic.Props.C19.C19_segmentation_independent",
            "Sonic.Props.C19.C19_overflow_rejected",
            "Sonic.Props.C19.C19_total",
            "Sonic.Props.C19.C19_nothing_left",
        ],
        "runs": [{
            "component": "codec",
            "quick": {"gen": [(1500, 40)], "enum": [(9,)]},
            "thorough": {"gen": [(30000, 60)], "enum": [(16,)]},
            "timeout": 1500,
        }],
        "direct": [{"component": "codec", "timeout": 900}],
        "rule": "scripts drive the real sonic.CodecConn[[]byte,[]byte] with the real codec/frame.Codec over the scripted in-memory "
                "transport (harness/memstream.go), both directions, blocking and asynchronous APIs: payload sequences with sizes "
                "0,1,2,3,4,5,255..257, around the 512-byte initial capacity, 1020..2000 / 65535..70000, framed by the generator and cut "
                "into segments at random places (one segment, single bytes, 1..7-byte pieces, a few cuts), delivered before, between "
                "or after the read calls; writes under partial-write / would-block plans and deferred completion; scripts end with "
                "hostile bytes, an over-limit prefix, a truncated item + EOF, or a prefix declaring exactly limit / limit-1; "
                "enum = every one of the 2^(n-1) segmentations of 9 short streams x 4 delivery modes (exhaustive). A script is "
                "non-trivial when the model reached a non-default branch (item over several transport reads, coalesced items, "
                "would-block/pending inside prefix or payload, buffer growth, segment truncated by the buffer, over-limit, EOF "
                "mid-item, partial write, would-block write, leftover flushed first, pending asynchronous write ...); "
                "distinct = by SHA-1 of the implementation trace",
        "trusted_base": LEAN_TB + [
            "hand-written model lean/Sonic/Model/FrameCodec.lean of codec.go, codec/frame/frame.go and the ByteBuffer methods they call "
            "(save area never used: si = 0), tied to the code only by the correspondence check",
            "scripted transport harness/memstream.go + codecStream wrapper (0-byte write = ErrWouldBlock, nothing queued = ErrWouldBlock)",
        ],
        "assumptions": [
            "frame.Codec and CodecConn are wired with the same source buffer (NewCodec(src), NewCodecConn(.., src, dst)), as the package documents",
            "at most one read and one write in flight per connection (a second call is refused by the harness and reported as busy)",
            "the capacity append() chooses when Reserve grows a buffer is an environment value (read off the trace, universally quantified in the theorems)",
            "payloads of exactly limit / limit-1 bytes (1 GiB) cannot travel through a hex trace: in scripts they are exercised through their prefix (acceptance + reservation); the thorough tier adds a direct in-process round trip of limit-1 and limit bytes and the refusal of limit+1 by WriteNext (harness codec direct)",
            "lengths are below 2^63, so Go int arithmetic is exact (Nat in the model)",
        ],
        "manifest": {
        "level_text": "Theorems about a hand-written executable model of CodecConn + frame.Codec + the ByteBuffer methods they use: for every "
                      "script of feed/eof/plan/ReadNext/AsyncReadNext/WriteNext/AsyncWriteNext/pump operations, every segmentation (also inside "
                      "the 4-byte prefix), every buffer capacity the runtime may choose and every limit, the model's answers are accepted by a "
                      "monitor that is a pure parser of len32be++payload sequences (C19_trace_accepted, unbounded induction); spelled out: "
                      "round trip of every payload sequence through every partial-write plan and every segmentation (C19_roundtrip), "
                      "segmentation independence for arbitrary input (C19_segmentation_independent), over-limit prefix rejected with the "
                      "source capacity unchanged (C19_overflow_rejected), no panic / endless loop on any input (C19_total), destination "
                      "buffer empty after every successful write (C19_nothing_left). The model is tied to the real code by the "
                      "differential trace check.",
        "design_ref": "5/C19",
        "level_note": "Trusted: Lean kernel; the hand model (validated on every run against the real CodecConn/frame.Codec/ByteBuffer by the "
                      "correspondence check: thousands of scripts + exhaustive segmentations of short streams); scripted transport instead of "
                      "a kernel socket; 1 GiB payloads only through their prefix.",
        "technique": "Lean 4 refinement proof (model vs parser monitor) + differential trace correspondence",
    },
}
