from .common import LEAN_TB

PROP = {
    "id": "C12",
    "lean_targets": ["Sonic.Props.C12"],
    "theorems": [
        "Sonic.Props.C12.C12_trace_accepted",
        "Sonic.Props.C12.C12_monitor_accepts",
        "Sonic.Props.C12.C12_inv_reachable",
        "Sonic.Props.C12.C12_one_read_per_datagram",
        "Sonic.Props.C12.C12_poll_leaves_nothing_completable",
        "Sonic.Props.C12.C12_one_datagram_per_write",
        "Sonic.Props.C12.C12_getters_full_false",
        "Sonic.Props.C12.C12_getters_partial",
        "Sonic.Props.C12.C12_getters_cache_inv",
        "Sonic.Props.C12.C12_delivery_only",
        "Sonic.Props.C12.C12_delivery",
        "Sonic.Props.C12.C12_join_delivers_all",
        "Sonic.Props.C12.C12_leave_stops_delivery",
        "Sonic.Props.C12.C12_block_stops_source",
        "Sonic.Lemmas.Datagram.kMemb_refines",
        "Sonic.Lemmas.Datagram.step_refines",
    ],
    "runs": [{
        "component": "mcast",
        "quick": {"gen": [(2500, 30)], "enum": [(2,)]},
        "thorough": {"gen": [(30000, 45)], "enum": [(3,)]},
        "timeout": 1500,
    }, {
        # datagram reads woken up with nothing to read (an earlier handler of the same poll batch took the datagram): the read
        # stays in flight with its buffer; needs handler programs, which only the event-loop component has (scenario scripts;
        # only the datagram-boundary clause of its driver is attributed to C12)
        "component": "loop",
        "quick": {"enum": [["scenarios"]]},
        "thorough": {"enum": [["scenarios"]]},
        "timeout": 1500,
    }],
    "direct": [{"component": "mcast", "timeout": 300}],
    "keys": ["mcast.*", "loop.datagram-boundary"],
    "rule": "scripts = 2-8 real sockets on one IO context: sonic.NewPacketConn (bind forms 127.0.0.1:0, :0, empty), "
            "multicast.NewUDPPeer (bind forms :P, :0, 192.0.2.2:P, 192.0.2.2:0, 127.0.0.1:0, <group>:P, <group>:0; receivers share the "
            "port P with SO_REUSEPORT), harness raw sockets (plain receivers on 127.0.0.1 / 192.0.2.2 and an IP_TRANSPARENT sender bound "
            "to 192.0.2.3 = second source address on eth0), then 3-45 operations: send (AsyncWrite / AsyncWriteTo / sendto) of 0, 1 ... "
            "1372/1373/1400/1472/1473/9000/65507 bytes and 65508 (EMSGSIZE) to a group or to another socket, in bursts and from several "
            "senders; read (AsyncRead / AsyncReadFrom / AsyncReadAllFrom / recvfrom) with buffer lengths 1, len-1, len, len+1, 64 ... 70000 "
            "started before or after the datagram arrives; SetAsyncReadBuffer while a read is pending or not; poll; Join/JoinOn/"
            "JoinSource/JoinSourceOn/Leave/LeaveSource/BlockSource/UnblockSource with groups g0..g2 (and non-multicast / unparsable "
            "arguments, interfaces eth0/lo/unknown) and sources 192.0.2.2, 192.0.2.3, 127.0.0.1, 10.9.9.9; SetLoop/SetTTL/SetOutboundIPv4; "
            "break/mend (the peer's descriptor number refers to /dev/null for a while so that every setsockopt fails with ENOTSOCK while "
            "the socket lives on); close; getters and getsockopt(IP_MULTICAST_LOOP/TTL/IF/ALL)+getsockname on a duplicate of RawFd() after "
            "every constructor and setter. Group addresses (239.x.y.z) and the port P are chosen at run time from pid and script number and "
            "appear in the trace only as g<k> / port ids. Arrival of a datagram is observed: the sockets whose SO_MEMINFO receive memory "
            "grew by the time a sentinel datagram sent afterwards on the same (pinned) CPU was looped back. enum <d> = every membership "
            "script of length d over 8 calls on one receiver, each followed by one datagram from either source. A script is non-trivial "
            "when a non-default situation was reached (truncation, fragmentation, max datagram, burst, several senders queued, deferred "
            "read, buffer replaced while pending, multicast fan-out / filtered / second source, loop off, join-source, block, unblock, "
            "leave, mode clash, mode switched by a failing call, failing setter, EMSGSIZE, EINVAL route, empty datagram ...); "
            "distinct = by SHA-1 of the implementation trace",
    "trusted_base": LEAN_TB + [
        "Sonic/Model/Datagram.lean is a hand-written model of packet.go, multicast/peer.go, multicast/reactor.go and net/ipv4/multicast*.go "
        "at API granularity (one recvfrom / sendto / setsockopt per call, cached settings, the reactor's replaceable buffer); it is tied to "
        "the code by the correspondence check only (every event of the real sockets must be the model's event)",
        "the Linux kernel is modelled, not verified: per-socket receive queues in arrival order, IP_MULTICAST_* options, the IGMPv3 "
        "per-socket source filters (ip_mc_join_group/ip_mc_leave_group/ip_mc_source incl. its mode switch and errno values, "
        "ip_mc_sf_allow with IP_MULTICAST_ALL=0), loop-back delivery of multicast (sender's IP_MULTICAST_LOOP, receiver's bound address "
        "and port), source-address and outgoing-interface selection for the two interfaces of this host; each of these is exercised "
        "against the real kernel in every run (arrivals, errno classes, getsockopt records are compared line by line)",
        "harness observations: arrival = growth of SO_MEMINFO rmem_alloc after a same-CPU sentinel round trip; port numbers and group "
        "addresses are canonicalised to ids",
    ],
    "assumptions": [
        "multi-homed behaviour (JoinOn / JoinSourceOn on a named interface, SetOutboundIPv4 incl. its failure on an interface without an IPv4 address) is checked by the direct monitor in a private network namespace with three veth interfaces (unshare -rn); where such a namespace cannot be created the monitor reports itself skipped",
        "buffers handed to a read are not empty (OpOk); a zero-length datagram completes with EOF (modelled as is, outside the property)",
        "one read in flight per socket (the library's documented usage; the harness refuses a second one)",
        "this host: `lo` (127.0.0.1) has no MULTICAST flag, so JoinOn/SetOutboundIPv4(\"lo\") fail in resolveMulticastInterface and every "
        "membership the library can create lives on eth0 (192.0.2.2); a sender bound to 127.0.0.1 transmits multicast through lo and never "
        "reaches those memberships; with IP_MULTICAST_IF=eth0 such a sender gets EINVAL",
        "a second deliverable source address needs privileges: the harness' raw sender uses IP_TRANSPARENT (root / CAP_NET_ADMIN) to bind "
        "192.0.2.3 and sends through eth0; without the capability those sends are skipped by the harness",
        "receive buffers are enlarged by the harness (SO_RCVBUF 4 MiB) and bursts are bounded by the generator: receive-buffer overflow "
        "is not modelled (a dropped datagram is reported as `overflow` = environment outside the model)",
        "unicast datagrams to several SO_REUSEPORT sockets on one port: the kernel's choice is read off the trace (parameter `pick`)",
        "memberships per socket and sources per membership stay below the kernel limits (20 / 10): 4 groups and 4 sources are used",
    ],
    "manifest": {
        "level_text": "Partial. Proven (Lean 4, unbounded induction over arbitrary scripts of the model: any number of packet "
                      "connections, multicast peers and raw peers; any interleaving of sends, reads, SetAsyncReadBuffer, polls, setters "
                      "that succeed or fail, membership calls that are well-formed or not and succeed or fail, closes): the property "
                      "monitor accepts every trace of the model (C12_trace_accepted by a coupling invariant, 18 operation kinds) - i.e. "
                      "each completed read carries exactly one datagram queued to that socket and not read before, its bytes truncated "
                      "to the buffer, n = min(len, buffer), the sender's IP and port, in the buffer most recently designated; each "
                      "accepted write queues exactly one datagram with exactly the caller's bytes to exactly the sockets the "
                      "destination allows and a refused write changes nothing (C12_one_datagram_per_write); a multicast datagram is "
                      "delivered only to sockets whose group is joined, not left and whose filter passes the source, and - when the "
                      "last membership call for that group did not fail - to all of them (C12_delivery_only / C12_delivery over all "
                      "membership scripts; kMemb_refines: the Linux source-filter machine incl. its mode switch and errno values refines "
                      "the RFC 3376 style abstract filters); local address, TTL and outbound interface reported by the getters equal "
                      "the kernel record after any sequence of setters, successful or failing (C12_getters_partial). The full getter "
                      "statement is FALSE on this tree and proved so (C12_getters_full_false: Loop() of a fresh peer is false while "
                      "IP_MULTICAST_LOOP=1, known finding mcast.loop-getter-inverted, pinned by the repo's TestUDPPeerIPv4_SetLoop1); "
                      "the partial theorem excludes exactly Loop() before the first successful SetLoop. NOT proven: that the Linux "
                      "kernel's multicast filtering, loop-back delivery and routing behave as modelled (RFC 3376 / igmp.c model) and "
                      "that the hand-written model is the code - both are carried by the correspondence check on real sockets of this "
                      "host (lo, eth0) with getsockopt/getsockname on RawFd() as oracle.",
        "design_ref": "5/C12",
        "level_note": "Trusted: Lean kernel; hand-written model of the datagram reactors and of the kernel's datagram/multicast "
                      "behaviour, tied to the real code and the real kernel by trace acceptance in every run; arrival observation by "
                      "SO_MEMINFO after a sentinel round trip on a pinned CPU.",
        "technique": "Lean 4 refinement proof (model trace accepted by the property monitor) + differential trace correspondence on "
                     "real UDP/multicast sockets with kernel oracles",
    },
}
