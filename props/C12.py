from .common import LEAN_TB

PROP = {
    "id": "C12",
    "lean_targets": ["Sonic.Props.C12"],
    "theorems": [
        "Sonic.Props.C12.placeholder",
    ],
    "runs": [{
        "component": "mcast",
        "quick": {"gen": [(500, 30)], "enum": [(2,)]},
        "thorough": {"gen": [(12000, 45)], "enum": [(3,)]},
        "timeout": 1500,
    }],
    "rule": "TODO",
    "trusted_base": LEAN_TB,
    "assumptions": [],
    "manifest": {
        "level_text": "TODO",
        "design_ref": "5/C12",
        "level_note": "TODO",
        "technique": "TODO",
    },
}
