from .common import RUN_WSSTREAM_SMALL, RUN_WSCONC_SMALL, LEAN_TB

PROP = {
        "id": "C06",
        "lean_targets": ["Sonic.Props.C06"],
        "theorems": [
            "Sonic.Props.C06.C06_delivery",
            "Sonic.Props.C06.C06_frame_api",
            "Sonic.Props.C06.C06_monitor_accepts",
            "Sonic.Props.C06.C06_sync_async_agree",
            "Sonic.Props.C06.C06_segmentation_independent",
            "Sonic.Props.C06.C06_control_callback",
            "Sonic.Props.C06.C06_frame_message_consistent",
            "Sonic.Props.C06.C06_segments_flatten",
            "Sonic.Lemmas.WsMsg.readNextFuel_frame",
            "Sonic.Lemmas.WsMsg.readNextFuel_drained",
            "Sonic.Lemmas.WsMsg.nextFrame_head",
            "Sonic.Lemmas.WsMsg.nextFrame_end",
            "Sonic.Lemmas.WsMsg.nm_ctls",
            "Sonic.Lemmas.WsMsg.nm_parts",
            "Sonic.Lemmas.WsMsg.runMsgs_session",
            "Sonic.Lemmas.WsMsg.runFrames_frames",
            "Sonic.Lemmas.WsMsg.assemble_session",
        ],
        "runs": [{
            "component": "wsmsg",
            "quick": {"gen": [(6000, 5)], "enum": [(40,)]},
            "thorough": {"gen": [(60000, 6)], "enum": [(300,)]},
        }, {
            # "delivered exactly once, in order" across a reconnect: frames that arrive in the same segment as the 101 response of a
            # second handshake on the same Stream (after a session that delivered frames) are the first frames of the new session
            # (component of C18; only the clause about the bytes after the blank line is attributed to C06)
            "component": "wshandshake",
            "quick": {"gen": [(150, 4)]},
            "thorough": {"gen": [(1200, 5)]},
            "timeout": 1500,
        },
            # delivery while the closing handshake is under way (our Close is out, the peer still sends) and with writes in flight
            # (a read requested while a flush is in flight must start once it completes): components of C08 and C17
            RUN_WSSTREAM_SMALL, RUN_WSCONC_SMALL],
        # messages of 1..4 MiB under a raised maximum, sharing transport segments with small ones (Go-only oracle: the traced scripts
        # print every payload and stop at 512 KiB)
        "direct": [{"component": "wsmsg"},
                   # the first messages of a second session on the same Stream, whatever the first session left behind (an open
                   # fragmented message, a failed write, a long response head)
                   {"component": "wshandshake", "args": ["only=second-session"], "keys": ["wshandshake.bytes-after-blank-line"], "timeout": 300}],
        "keys": ["wsmsg.*", "wshandshake.bytes-after-blank-line", "wsstream.delivery", "wsstream.violation-not-reported", "wsstream.read-after-close",
                 "wsstream.state", "wsconc.read-result-differs-from-peer-stream", "wsconc.callback-never-invoked", "wsconc.callback-twice"],
        "rule": "scripts = a session of a conforming server at message level (0-6 text/binary messages; payload sizes 0, 1, 125, 126, 127, "
                "max-1, max, random, rarely 65535/65536/65537 with max in {65535, 65536, 70000, 524288}; max otherwise from "
                "{2,16,125,126,127,300,1000,4096}), each message cut into 1-6 fragments at random and boundary-biased points (empty "
                "fragments included), Ping/Pong frames (payload 0..125) inserted in front of fragments and after the last message, the "
                "caller's buffer = largest payload (+0/+1/2*max+8); about 4% of the scripts are outside the property's hypotheses (buffer or "
                "maximum smaller than a message) so that model and code are compared there too. The byte stream is produced by an encoder "
                "that is independent of the library and cut into transport reads: one segment, byte by byte, around/inside frame headers, "
                "equal pieces, random points. The same session is read by four fresh streams: NextFrame, AsyncNextFrame, NextMessage, "
                "AsyncNextMessage (asynchronous readers with 0..all segments queued in advance, the others arriving while the read is "
                "pending), each until it reports an error. enum = 7 short sessions (whole text, fragments, control frames between fragments, "
                "empty first/final fragments, message = maximum, 16-bit and 64-bit lengths, longest control frame) at every 2-way split and "
                "every 3-way split (streams longer than the limit: every split point within 12 bytes of a frame start). A script is "
                "non-trivial when the model reached one of: fragmented, control-between-fragments, empty(-final)-fragment, len16, len64, "
                "msg=max, msg=buf, split-in-header, split-in-length-field, late-arrival, read-fills-room, reserve-grow, msg-too-big, "
                "frame-over-max ...; distinct = by SHA-1 of the implementation trace",
        "trusted_base": LEAN_TB + [
            "hand-written models, tied to the source only by the correspondence check: Model/WsMsg.lean (CodecConn.ReadNext/AsyncReadNext, "
            "NextFrame/AsyncNextFrame, NextMessage/asyncNextMessage of codec.go / stream.go) over Model/WsFrame.lean + Model/WsBuf.lean "
            "(frame_codec.go, frame.go, byte_buffer.go; C07) and handleFrame/Flush/canRead of Model/WsStream.lean (stream.go; C08)",
            "harness: scripted in-memory transport (harness/memstream.go, one segment per read, truncated to the room offered), independent "
            "RFC 6455 frame encoder (wsEncodePeer in harness/wsstream.go; its output is compared with the Lean reference encoder on every "
            "`encode` operation), hook (*Stream).VerifAttach",
        ],
        "assumptions": [
            "InScope (explicit, decidable hypothesis of the theorems): text/binary messages with at least one fragment, total payload <= "
            "configured maximum and <= the caller's buffer; Ping/Pong payload <= 125 and <= maximum; the peer sends no Close frame, no "
            "protocol violation and the transport does not fail or end (those are C08/C15)",
            "InitOk: 2*max + 14 <= MaxInt64 (C07's hypothesis) and initial read-buffer capacity >= 14 (NewWebsocketStream reserves 4096)",
            "the capacity the Go runtime gives the read buffer when Reserve grows it is an environment value (any admissible value; observed "
            "through the room offered to each transport read); memory exhaustion is outside the model",
            "UTF-8 validation of text payloads is off (library default); client role (server frames unmasked)",
            "leftover bytes that arrive together with the handshake response are exercised by C18's harness, not here (VerifAttach starts "
            "with an empty read buffer)",
        ],
        "manifest": {
        "level_text": "Theorems about a composed executable Lean model of the whole read path (transport segments -> ByteBuffer.ReadFrom -> "
                      "FrameCodec.Decode [the C07 model] -> CodecConn.ReadNext/AsyncReadNext loop -> handleFrame [the C08 model] -> "
                      "NextFrame/AsyncNextFrame -> NextMessage/asyncNextMessage), proved by induction, for EVERY session of a conforming peer "
                      "(any list of text/binary messages with payload <= max and <= caller buffer, any fragmentation into >= 1 fragments "
                      "including empty ones, any placement of Ping/Pong frames in front of fragments and after the last message), EVERY "
                      "segmentation of the resulting byte stream into transport reads (any split point, inside headers and length fields) "
                      "- transport reads of zero bytes included, which tie D also executes (`cut 0`); C06_segments_flatten: the harness's "
                      "segmentation concatenates to the stream, so the theorems' hypothesis holds for every script - "
                      "and every buffer capacity the Go runtime may choose: the message API, blocking or asynchronous, delivers exactly the "
                      "message list - each once, in order, same type, byte-identical payload, n = payload length - then reports that the "
                      "transport has nothing more; the frame API delivers exactly the frame list; the control callback receives exactly the "
                      "control frames, in order, with their payloads, each in the call of the message it was sent with; all four APIs and "
                      "all segmentations observe the same sequence (C06_delivery, C06_frame_api, C06_sync_async_agree, "
                      "C06_segmentation_independent, C06_control_callback, C06_monitor_accepts); reassembling the frame API's deliveries per RFC 6455 5.4 gives the message API's deliveries (C06_frame_message_consistent). The composition with the C07 decoder is "
                      "proved (not assumed): readNextFuel_frame/readNextFuel_drained use C07's decode_frame/decode_needMore/decode_tooBig "
                      "and prefix monotonicity of the parser. Partial in these respects: the models are hand-written, so their agreement "
                      "with the Go source rests on the differential trace check (four readers per session compared line by line with the "
                      "model and with the monitor, including every transport read's size); that nothing is written outside b[:n] is checked "
                      "on the implementation only (sentinel bytes); bytes arriving together with the handshake response are covered by "
                      "C18's harness; a real-socket variant is not part of this check.",
        "design_ref": "5/C06",
        "level_note": "Trusted: Lean kernel; the hand-written models of byte_buffer.go/frame.go/frame_codec.go/codec.go/stream.go (validated on "
                      "every run against the real Stream over a scripted transport, with an encoder independent of the library); Go prelude.",
        "technique": "Lean 4 proof by induction over message list / fragment list / segment queue on a composed model + differential trace correspondence",
    },
}
