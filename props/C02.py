from .common import LEAN_TB
from .C03 import LOOP_TB, LOOP_RUNS, LOOP_RULE

PROP = {
    "id": "C02",
    "lean_targets": ["Sonic.Props.C02"],
    "theorems": [
        "Sonic.Props.C02.C02_read",
        "Sonic.Props.C02.C02_read_prefix",
        "Sonic.Props.C02.C02_write",
        "Sonic.Props.C02.C02_monitor_accepts_read",
        "Sonic.Props.C02.C02_monitor_accepts_write",
        "Sonic.Props.C02.C02_monitor_accepts_model",
        "Sonic.Props.C02.C02_accepted_reads_are_the_stream",
        "Sonic.Props.C02.C02_accepted_writes_are_the_wire",
        "Sonic.Props.C02.C02_read_would_block_irrelevant",
        "Sonic.Props.C02.C02_write_would_block_irrelevant",
        "Sonic.Props.C02.readOp_spec",
        "Sonic.Props.C02.writeOp_spec",
    ],
    "runs": LOOP_RUNS + [{
        # byte_buffer.go is one of the property's anchors: ByteBuffer.WriteTo / ReadFrom are how CodecConn and the websocket
        # stream move bytes between a buffer and the transport (partial writes and errors after partial progress included)
        "component": "bytebuffer",
        "quick": {"gen": [(1500, 30)]},
        "thorough": {"gen": [(15000, 40)]},
    }, {
        # the transfer model itself (`readOp` / `writeOp`, what the C02 theorems are about) run on the schedule of per-call
        # transport results the harness fixes: a scripted io.ReadWriter behind a real AsyncAdapter, fed FIFOs behind sonic.Open
        "component": "xfer",
        "quick": {"gen": [(4000, 6)], "enum": [(3,)]},
        "thorough": {"gen": [(60000, 8)], "enum": [(4,)]},
    }],
    "keys": ["read-*", "readall-*", "write-*", "writeall-*", "peer-received-*", "bytebuffer.writeto", "bytebuffer.readfrom",
             "bytebuffer.asyncwriteto", "bytebuffer.asyncreadfrom", "xfer.*",
             # bytes received into the buffer (ReadFrom / AsyncReadFrom / Claim) and not yet committed or read must survive the
             # save-area calls made meanwhile unchanged: a Discard that shifts them wrongly loses / duplicates stream bytes
             "bytebuffer.discard", "bytebuffer.discardall"],
    "secondary_keys": ["read-count-*", "read-success-*", "readall-*", "write-count-*", "write-success-*", "writeall-*", "peer-received-*"],
    "rule": LOOP_RULE + "; payloads are position-dependent (byte i of the stream to object k is (7i+13k+1) mod 251, byte j of write op id "
                        "is (11j+17id+3) mod 251) so a lost, duplicated, reordered or invented byte is visible at the first wrong offset; plus the "
                        "`bytebuffer` component of C09 for ByteBuffer.WriteTo/ReadFrom (scripted writers that accept n bytes and/or fail); plus the `xfer` "
                        "component: one AsyncRead/AsyncReadAll/AsyncWrite/AsyncWriteAll per operation with buffer lengths 1..1000 on a schedule of "
                        "per-call results (moves of 1, need-1, need, need+k bytes, would-block, EOF, failure first / in the middle / last), "
                        "exhaustive = every schedule of length 3 (quick) or 4 (thorough) over {m1,m2,m3,e,f} for a 3-byte buffer",
    "trusted_base": LOOP_TB + ["Sonic/Model/Xfer.lean: hand-written model of the transfer loops (asyncReadNow/asyncWriteNow + continuation) "
                               "as a function of per-syscall kernel results; tied to the code through the data clauses of the trace monitor "
                               "(exact bytes and counts of every completion on real TCP connections, FIFOs and adapted net.Conns), and directly by the "
                               "`xfer` component: `readOp`/`writeOp` are executed by `sonicdrv xfer` on the same per-call schedule that a scripted "
                               "io.ReadWriter behind a real AsyncAdapter (async_adapter.go) or a fed FIFO / a drained one-page pipe behind sonic.Open (file.go, both directions) or a fed loopback connection from sonic.Dial (conn.go) was given, and "
                               "result class, count and bytes of every completion must be equal (Sonic/Model/XferStep.lean)"],
    "assumptions": [
        "the kernel delivers a TCP/pipe byte stream in order (FIFO); which bytes a single syscall moves is arbitrary (the theorem's schedule)",
        "one read and one write in flight per object",
    ],
    "manifest": {
        "level_text": "Partial. Proved (Lean, for every buffer length, stream content and kernel schedule of partial transfers / "
                      "would-block / EOF / error, by induction over the schedule): the callback's buffer prefix b[:n] is exactly the "
                      "next n stream bytes, n is exact, ReadAll/WriteAll succeed only with the full buffer, a write puts exactly b[:n] "
                      "on the wire, and any sequence of reads delivers a prefix of the stream (nothing lost, duplicated or invented). "
                      "That the real reactors follow the modelled loops and the kernel stream is FIFO is checked by the trace monitor on "
                      "real sockets with position-dependent payloads (every completion's bytes and count, and what the peer received), and by "
                      "running the model itself (`xfer`): readOp/writeOp executed on the same per-call schedule as a scripted transport behind "
                      "a real AsyncAdapter and as FIFOs fed chunk by chunk behind sonic.Open, every completion compared exactly; the monitor "
                      "of that comparison is proved to accept the model for every operation list (C02_monitor_accepts_model).",
        "design_ref": "5/C02",
        "level_note": "Trusted: Lean kernel; hand-written transfer model (not regenerated from the source); Linux TCP/pipe stream semantics.",
        "technique": "Lean 4 induction over kernel schedules of a transfer-loop model + differential execution of that model against the real reactors on scripted per-call schedules + data-checking trace monitor on real sockets",
    },
}
