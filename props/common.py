"""Shared pieces of the per-property configuration."""

LEAN_TB = [
    "Lean 4.33.0 kernel (axioms allowed: propext, Classical.choice, Quot.sound; no sorry/native_decide/bv_decide/own axioms)",
    "Sonic/Go/Prelude.lean (Go int64 wrap-around, checked slices)",
    "correspondence check: harness (real code, in process) vs sonicdrv (model acceptor + property monitor)",
]
TRANSLATOR_TB = "tools/go2lean (Go->Lean translator for first-order integer code), itself exercised by the correspondence check"
