"""Shared pieces of the per-property configuration."""

LEAN_TB = [
    "Lean 4.33.0 kernel (axioms allowed: propext, Classical.choice, Quot.sound; no sorry/native_decide/bv_decide/own axioms)",
    "Sonic/Go/Prelude.lean (Go int64 wrap-around, checked slices)",
    "correspondence check: harness (real code, in process) vs sonicdrv (model acceptor + property monitor)",
]
TRANSLATOR_TB = "tools/go2lean (Go->Lean translator for first-order integer code), itself exercised by the correspondence check"

# tie T for the websocket frame header (C07, C15, C16): Sonic/Gen/WsFrameBits.lean, Lemmas/WsFrameTie.lean, Props/WsFrameTie.lean
WSFRAME_TB = [
    TRANSLATOR_TB + "; for C07/C15/C16 it regenerates Sonic/Gen/WsFrameBits.lean on every run (tools/go2lean/wsfext.go) from "
    "codec/websocket/frame.go (ExtendedPayloadLengthBytes, PayloadLength, IsFIN, IsRSV1-3, Opcode, IsMasked, SetIsMasked, UnsetIsMasked, "
    "MaskBytes, SetFIN, SetRSV1-3, clearOpcode, SetOpcode, SetContinuation/Text/Binary/Close/Ping/Pong, extendedPayloadLengthOffset, "
    "maskOffset, payloadOffset, setPayloadLength), codec/websocket/rfc6455.go (Opcode.IsContinuation..IsPong, IsReserved, IsControl, "
    "ValidCloseCode, and every constant these functions mention, evaluated from the const declarations: bit masks, header/mask/max-header "
    "lengths, opcodes, close codes, MaxControlFramePayloadLength) and util/bytes.go (ExtendSlice; generic in T, translated for bytes)",
    "Sonic/Go/Bytes.lean (trusted reading of Go's slice semantics: a []byte value = backing array from the slice start to its capacity + "
    "length; b[i] needs 0 <= i < len, b[lo:hi] needs 0 <= lo <= hi <= cap, a violated rule is a panic value; byte/uint16/uint64 = Lean "
    "UInt8/16/64 with & | ^ &^ as &&& ||| ^^^ &&&~~~, int(uint64) as two's complement, uintN(int) as the low N bits; "
    "binary.BigEndian.Uint16/Uint64/PutUint16/PutUint64 and append(b, make([]T, n)...) are prelude functions, i.e. the standard library "
    "and the append built-in are read off their documentation, not translated; writes through the receiver slice are threaded as the "
    "returned receiver (no other alias of the frame is written in the translated functions: read off the source by the translator, "
    "which refuses element assignment to anything but the receiver)",
]


# ---- components borrowed by sibling properties (a change to shared code usually breaks several properties at once; each check
# looks for its own clauses — "keys" — in what the shared component's monitor reports) -------------------------------------------
RUN_WSHANDSHAKE_SMALL = {"component": "wshandshake", "quick": {"gen": [(150, 4)]}, "thorough": {"gen": [(1200, 5)]}, "timeout": 1500}
RUN_WSSTREAM_SMALL = {"component": "wsstream", "quick": {"gen": [(8000, 30)], "enum": [(3, 1)]}, "thorough": {"gen": [(40000, 40)], "enum": [(4, 1)]}}
RUN_WSCONC_SMALL = {"component": "wsconc", "quick": {"gen": [(700, 16)], "enum": [("scenarios",)]}, "thorough": {"gen": [(8000, 22)], "enum": [("scenarios",)]}}
RUN_WSWRITE_SMALL = {"component": "wswrite", "quick": {"gen": [(1500, 12)]}, "thorough": {"gen": [(12000, 14)]}}
RUN_LOOP_SCENARIOS = {"component": "loop", "quick": {"enum": [["scenarios"]]}, "thorough": {"enum": [["scenarios"]]}, "timeout": 1500}
RUN_FDS_SMALL = {"component": "fds", "quick": {"gen": [(400, 16)], "enum": [(3,)]}, "thorough": {"gen": [(6000, 24)], "enum": [(4,)]}, "timeout": 900}
