#!/bin/sh
# usage: sweep.sh "<seeds>" <props...> : runs quick checks over several seeds on the unchanged tree, prints non-passing ones.
SEEDS=$1; shift
for s in $SEEDS; do for p in "$@"; do
  VERIF_SEED=$s ./check $p > /tmp/sweep_$p_$s.out 2>&1; rc=$?
  if [ $rc -ne 0 ] || grep -q VIOLATION /tmp/sweep_$p_$s.out; then echo "FAIL seed=$s $p rc=$rc"; grep -E "VIOLATION" /tmp/sweep_$p_$s.out | head -3; else echo "ok seed=$s $p $(tail -1 /tmp/sweep_$p_$s.out | grep -o '[0-9.]*s$')"; fi
done; done
