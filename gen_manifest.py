#!/usr/bin/env python3
"""Regenerate /verif/MANIFEST.json from props/*.py (claimed checks) and properties.jsonl."""
import json
import os
import sys

sys.path.insert(0, os.path.dirname(os.path.abspath(__file__)))
from props import PROPS

# properties not claimed, with the reason (kept current by hand)
NOT_CLAIMED_REASON = {}
DEFAULT_REASON = "check not built yet (work in progress; see DESIGN.md section 10)"

HOOK_COMMITS = ["1edd194"]   # commits in /repo that add `//go:build verif` hook files


def main():
    here = os.path.dirname(os.path.abspath(__file__))
    ids = [json.loads(l)["id"] for l in open(os.path.join(here, "properties.jsonl"))]
    man = {
        "version": 1,
        "setup_cmd": "./setup.sh",
        "hooks": {
            "guard": "verif",
            "enable": "go build -tags verif (the harness module /verif/harness replaces github.com/talostrading/sonic with /repo)",
            "baseline_off_cmd": "cd /repo && go test -mod=mod -vet=off -count=1 -timeout 25m ./...",
            "source_commits": HOOK_COMMITS,
            "add_only": True,
        },
        "engines": [
            {"name": "lean4-proofs", "path": "lean/Sonic", "serves_properties": sorted(PROPS),
             "kind_free_text": "Lean 4 models, specs and theorems; Sonic/Gen regenerated from /repo by tools/go2lean on every run"},
            {"name": "correspondence", "path": "harness + lean/Driver", "serves_properties": sorted(PROPS),
             "kind_free_text": "differential trace check: real Go code vs executable Lean model and property monitor"},
        ],
        "checks": [],
        "notes": "See DESIGN.md. Every check is ./check <id>; VERIF_SEED / VERIF_TIER are honoured.",
        "not_applicable": [],
    }
    for pid in ids:
        if pid in PROPS:
            m = PROPS[pid]["manifest"]
            man["checks"].append({
                "property_id": pid,
                "quick_cmd": "./check %s --tier quick" % pid,
                "thorough_cmd": "./check %s --tier thorough" % pid,
                "evidence_file": "/verif/evidence/%s.json" % pid,
                "replay_cmd_template": "./check %s --replay {path}" % pid,
                "engine": "lean4-proofs",
                "level_claimed": {"category": m.get("category", "proof"), "text": m["level_text"], "design_ref": m.get("design_ref", "5/" + pid)},
                "level_note": m["level_note"],
                "technique": m["technique"],
            })
        else:
            man["not_applicable"].append({"property_id": pid, "reason": NOT_CLAIMED_REASON.get(pid, DEFAULT_REASON)})
    with open(os.path.join(here, "MANIFEST.json"), "w") as f:
        json.dump(man, f, indent=1)
        f.write("\n")


if __name__ == "__main__":
    main()
