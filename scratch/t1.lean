import Sonic.Lemmas.WsOut
open Sonic.Spec.WsStream
theorem u16_code (a b : UInt8) : u16 (a.toNat * 256 + b.toNat) = [a, b] := by
  have hb : b.toNat < 256 := UInt8.toNat_lt b
  have h1 : (a.toNat * 256 + b.toNat) / 256 = a.toNat := by omega
  have h2 : (a.toNat * 256 + b.toNat) % 256 = b.toNat := by omega
  simp [u16, h1, h2]
