import Sonic.Props.C08
#print axioms Sonic.Props.C08.C08_refines
#print axioms Sonic.Props.C08.C08_one_close_on_wire
#print axioms Sonic.Props.C08.C08_pong
#print axioms Sonic.Props.C08.C08_peer_close
#print axioms Sonic.Props.C08.C08_local_close
#print axioms Sonic.Props.C08.C08_abnormal
#print axioms Sonic.Props.C08.C08_state_reflects
#print axioms Sonic.Props.C08.C08_no_panic
