import Sonic.Go.Prelude
import Sonic.Props.C08
import Sonic.Props.C09
import Sonic.Props.C10
import Sonic.Props.C11
import Sonic.Props.C15
