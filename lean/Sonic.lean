import Sonic.Go.Prelude
import Sonic.Props.C10
