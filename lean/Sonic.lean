import Sonic.Go.Prelude
