import Sonic.Go.Prelude
import Sonic.Props.C10
import Sonic.Props.C19
