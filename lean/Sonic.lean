import Sonic.Go.Prelude
import Sonic.Props.C10
import Sonic.Props.C19
import Sonic.Props.C18
