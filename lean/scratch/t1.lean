set_option maxRecDepth 100000 in
theorem and7f : ∀ n : Nat, n < 256 → ((UInt8.ofNat n) &&& 0x7f).toNat = n % 128 := by decide
theorem t2 (b : UInt8) : (b &&& 0x7f).toNat = b.toNat % 128 := by
  have := and7f b.toNat b.toNat_lt
  simpa using this
set_option maxRecDepth 100000 in
theorem t3 (b : UInt8) : ((b &&& 0x80) != 0) = decide (b.toNat ≥ 128) := by
  have h : ∀ n : Nat, n < 256 → (((UInt8.ofNat n) &&& 0x80) != 0) = decide (n ≥ 128) := by decide
  have := h b.toNat b.toNat_lt
  simpa using this
theorem t4 (b : UInt8) : (b &&& 0x7f).toNat = b.toNat % 128 := by
  rw [UInt8.toNat_and]
  exact Nat.and_two_pow_sub_one_eq_mod b.toNat 7
#check @BitVec.toInt_ofNat'
open List in
#check @getD_append
