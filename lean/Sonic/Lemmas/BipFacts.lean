/-
Helper lemmas for C10: the index invariant of `Sonic.Gen.BipBuffer` (regenerated from bip_buffer.go)
and, per method, the linear-arithmetic facts it guarantees under that invariant.
-/
import Sonic.Model.Bip
import Sonic.Lemmas.Cells

namespace Sonic.Props.C10
open Sonic.Gen.BipBuffer Sonic.Spec.Bip Sonic.Model.Bip

/-- Index invariant of the implementation state. -/
def Inv (b : BipBuffer) : Prop :=
  0 ≤ b.size ∧ b.size ≤ Go.I64MAX ∧
  0 ≤ b.head ∧ b.head ≤ b.tail ∧ b.tail ≤ b.size ∧
  b.wrappedHead = 0 ∧ 0 ≤ b.wrappedTail ∧
  (b.wrappedTail > 0 → b.wrappedTail ≤ b.head ∧ b.head < b.tail) ∧
  (b.head = b.tail → b.head = 0) ∧
  0 ≤ b.claimHead ∧ b.claimHead ≤ b.claimTail ∧ b.claimTail ≤ b.size ∧
  (b.claimHead < b.claimTail → b.head < b.tail →
     (b.claimHead = b.tail ∧ b.wrappedTail = 0) ∨ (b.claimHead = b.wrappedTail ∧ b.claimTail ≤ b.head))

theorem inv_new (size : Int) (h0 : 0 ≤ size) (h1 : size ≤ Go.I64MAX) : Inv (new size) := by
  unfold Inv new; simp; omega

/-- Everything `Claim` guarantees, as arithmetic facts about the generated definition. -/
theorem claim_facts (b : BipBuffer) (n : Int) (hi : Inv b) (hn : 0 ≤ n) (hn' : n ≤ Go.I64MAX)
    (r : BipBuffer × Go.View) (hr : b.Claim n = r) :
    Inv r.1 ∧ r.2.valid = true ∧
    r.1.size = b.size ∧ r.1.head = b.head ∧ r.1.tail = b.tail ∧ r.1.wrappedTail = b.wrappedTail ∧
    r.2.hi - r.2.lo ≤ n ∧ r.1.claimTail - r.1.claimHead = (if r.2.hi - r.2.lo ≤ 0 then 0 else r.2.hi - r.2.lo) ∧
    (0 < r.2.hi - r.2.lo → r.2.lo = r.1.claimHead ∧ 0 ≤ r.2.lo ∧ r.2.hi ≤ b.size ∧
        (r.2.hi ≤ b.head ∨ b.tail ≤ r.2.lo) ∧ (b.wrappedTail ≤ r.2.lo)) ∧
    (b.head = b.tail → r.2.hi - r.2.lo = (if n ≤ b.size then n else b.size)) := by
  unfold Inv at *
  simp only [BipBuffer.Claim, BipBuffer.Wrapped, BipBuffer.Size, decide_eq_true_eq] at hr
  repeat' isplit
  all_goals go_close

set_option maxHeartbeats 2000000 in
/-- Everything `Commit` guarantees.  `k` is the number of bytes committed: `min n claimed`. -/
theorem commit_facts (b : BipBuffer) (n : Int) (hi : Inv b) (hn : 0 ≤ n) (hn' : n ≤ Go.I64MAX)
    (r : BipBuffer × Go.View) (hr : b.Commit n = r) :
    Inv r.1 ∧ r.2.valid = true ∧ r.1.size = b.size ∧ r.1.claimHead = 0 ∧ r.1.claimTail = 0 ∧
    r.2.hi - r.2.lo = (if n ≤ b.claimTail - b.claimHead then n else b.claimTail - b.claimHead) ∧
    (0 < r.2.hi - r.2.lo → r.2.lo = b.claimHead) ∧
    (r.2.hi - r.2.lo = 0 → r.1.head = b.head ∧ r.1.tail = b.tail ∧ r.1.wrappedTail = b.wrappedTail) ∧
    (0 < r.2.hi - r.2.lo → b.head = b.tail →
         b.wrappedTail = 0 ∧ r.1.head = b.claimHead ∧ r.1.tail = b.claimHead + (r.2.hi - r.2.lo) ∧ r.1.wrappedTail = 0) ∧
    (0 < r.2.hi - r.2.lo → b.head < b.tail → b.claimHead = b.tail →
         b.wrappedTail = 0 ∧ r.1.head = b.head ∧ r.1.tail = b.tail + (r.2.hi - r.2.lo) ∧ r.1.wrappedTail = 0) ∧
    (0 < r.2.hi - r.2.lo → b.head < b.tail → b.claimHead ≠ b.tail →
         b.claimHead = b.wrappedTail ∧ r.1.head = b.head ∧ r.1.tail = b.tail ∧
         r.1.wrappedTail = b.wrappedTail + (r.2.hi - r.2.lo)) := by
  unfold Inv at *
  simp only [BipBuffer.Commit, BipBuffer.Committed] at hr
  repeat' isplit
  all_goals go_close

/-- Everything `Consume` guarantees. -/
theorem consume_facts (b : BipBuffer) (n : Int) (hi : Inv b) (hn : 0 ≤ n) (hn' : n ≤ Go.I64MAX)
    (r : BipBuffer) (hr : b.Consume n = r) :
    Inv r ∧ r.size = b.size ∧ r.claimHead = b.claimHead ∧ r.claimTail = b.claimTail ∧
    (b.tail - b.head ≤ n → r.head = 0 ∧ r.tail = b.wrappedTail ∧ r.wrappedTail = 0) ∧
    (n < b.tail - b.head → r.head = b.head + n ∧ r.tail = b.tail ∧ r.wrappedTail = b.wrappedTail) := by
  unfold Inv at *
  simp only [BipBuffer.Consume] at hr
  repeat' isplit
  all_goals go_close

theorem head_facts (b : BipBuffer) (hi : Inv b) (r : Go.View) (hr : b.Head = r) :
    r.valid = true ∧ r.hi - r.lo = b.tail - b.head ∧ (b.head < b.tail → r.lo = b.head) := by
  unfold Inv at *
  simp only [BipBuffer.Head] at hr
  repeat' isplit
  all_goals go_close

theorem committed_facts (b : BipBuffer) (hi : Inv b) :
    b.Committed = b.tail - b.head + b.wrappedTail := by
  unfold Inv at *
  simp only [BipBuffer.Committed, Go.add, Go.sub, Go.wrap64, Go.I64MAX] at *
  omega

theorem reset_facts (b : BipBuffer) (hi : Inv b) :
    Inv b.Reset ∧ b.Reset.size = b.size ∧ b.Reset.head = 0 ∧ b.Reset.tail = 0 ∧ b.Reset.wrappedTail = 0 ∧
    b.Reset.claimHead = 0 ∧ b.Reset.claimTail = 0 := by
  unfold Inv at *
  simp only [BipBuffer.Reset, Go.I64MAX] at *
  and_intros <;> first | trivial | omega


end Sonic.Props.C10
