/-
Facts about the frame building model (`Model/WsEncode.lean`): what `AcquireFrame … SetPayload … MaskPayload … Encode`
put on the wire, for an arbitrary pooled slice.
-/
import Sonic.Model.WsWritePath
import Sonic.Spec.WsWire
import Sonic.Lemmas.WsDecode
import Sonic.Lemmas.WsEncodeSpec

namespace Sonic.Model.WsEncode
open Sonic.Model.WsBuf Sonic.Model.WsFrame Sonic.Spec.WsFrame

/-- First header byte after `SetFIN?` and `SetOpcode(c)` on a zero byte. -/
def hb0 (fin : Bool) (c : UInt8) : UInt8 := (((if fin then (0 : UInt8) ||| 0x80 else 0) &&& 0xf0) ||| (c &&& 0x0f))

theorem modify0 (a0 a1 : UInt8) (rest : List UInt8) (len : Nat) (g : UInt8 → UInt8) (h : 0 < len) :
    PFrame.modify ⟨a0 :: a1 :: rest, len⟩ 0 g = .ok ⟨g a0 :: a1 :: rest, len⟩ := by
  unfold PFrame.modify
  rw [if_pos ⟨h, by simp⟩]; rfl

theorem modify1 (a0 a1 : UInt8) (rest : List UInt8) (len : Nat) (g : UInt8 → UInt8) (h : 1 < len) :
    PFrame.modify ⟨a0 :: a1 :: rest, len⟩ 1 g = .ok ⟨a0 :: g a1 :: rest, len⟩ := by
  unfold PFrame.modify
  rw [if_pos ⟨h, by simp⟩]; rfl

/-- `AcquireFrame` (client), `SetFIN?`, `SetOpcode`. -/
theorem header_eq (a1 : UInt8) (rest : List UInt8) (len : Nat) (fin : Bool) (c : UInt8) (h : 2 ≤ len) :
    (do let f ← PFrame.SetIsMasked ⟨0 :: a1 :: rest, len⟩
        let f ← if fin then f.SetFIN else pure f
        f.SetOpcode c) = (.ok ⟨hb0 fin c :: (a1 ||| 0x80) :: rest, len⟩ : M PFrame) := by
  unfold PFrame.SetIsMasked PFrame.SetFIN PFrame.SetOpcode hb0
  rw [modify1 _ _ _ _ _ (by omega)]
  cases fin <;> simp only [ebind_ok, epure, if_true, if_false, Bool.false_eq_true, modify0 _ _ _ _ _ (show 0 < len by omega)]

/-- Extended-length bytes for a payload of `n` bytes. -/
def extBytes (n : Nat) : List UInt8 :=
  if n > 65535 then beBytes 8 (n % 2 ^ 64) else if n > 125 then beBytes 2 n else []

/-- Low seven bits of the second header byte. -/
def len7 (n : Nat) : UInt8 := if n > 65535 then 127 else if n > 125 then 126 else UInt8.ofNat n

theorem length_extBytes (n : Nat) : (extBytes n).length = if n > 65535 then 8 else if n > 125 then 2 else 0 := by
  unfold extBytes; split
  · exact length_beBytes _ _
  · split
    · exact length_beBytes _ _
    · rfl

theorem length_extBytes_le (n : Nat) : (extBytes n).length ≤ 8 := by
  rw [length_extBytes]; split
  · omega
  · split <;> omega

theorem copyAt2 (b0 b1 : UInt8) (rest src : List UInt8) (len : Nat) (h14 : 14 ≤ len) (hlen : len ≤ 2 + rest.length)
    (hs : src.length ≤ 8) :
    PFrame.copyAt ⟨b0 :: b1 :: rest, len⟩ 2 src = .ok ⟨b0 :: b1 :: (src ++ rest.drop src.length), len⟩ := by
  unfold PFrame.copyAt
  dsimp only
  rw [if_pos ⟨by omega, by simp only [List.length_cons]; omega⟩]
  have hk : min (len - 2) src.length = src.length := by omega
  rw [hk, List.take_length]
  have hd : List.drop (2 + src.length) (b0 :: b1 :: rest) = List.drop src.length rest := by
    rw [Nat.add_comm]; rfl
  rw [hd]; rfl

theorem setPayloadLength_eq (b0 b1 : UInt8) (rest : List UInt8) (len n : Nat) (h2 : 2 ≤ len) (hlen : len ≤ 2 + rest.length)
    (h12 : 12 ≤ rest.length) :
    PFrame.setPayloadLength ⟨b0 :: b1 :: rest, len⟩ n =
      .ok ⟨b0 :: ((b1 &&& 0x80) ||| len7 n) :: (extBytes n ++ rest.drop (extBytes n).length), if len < 14 then 14 else len⟩ := by
  unfold PFrame.setPayloadLength
  have hext : (if len < frameMaxHeaderLength then PFrame.extend ⟨b0 :: b1 :: rest, len⟩ frameMaxHeaderLength else ⟨b0 :: b1 :: rest, len⟩)
      = ⟨b0 :: b1 :: rest, if len < 14 then 14 else len⟩ := by
    unfold frameMaxHeaderLength PFrame.extend
    by_cases hl : len < 14
    · rw [if_pos hl, if_pos hl]
      dsimp only
      rw [if_neg (by simp only [List.length_cons]; omega)]
    · rw [if_neg hl, if_neg hl]
  simp only [hext]
  have hl' : 14 ≤ (if len < 14 then 14 else len) := by split <;> omega
  have hl'' : (if len < 14 then 14 else len) ≤ 2 + rest.length := by split <;> omega
  rw [modify1 _ _ _ _ _ (by omega)]
  simp only [ebind_ok]
  unfold len7 extBytes
  by_cases c1 : n > 65535
  · rw [if_pos c1, if_pos c1, if_pos c1, modify1 _ _ _ _ _ (by omega)]
    simp only [ebind_ok]
    unfold PFrame.putBE
    dsimp only
    rw [if_pos ⟨by omega, by omega⟩, copyAt2 _ _ _ _ _ hl' hl'' (by rw [length_beBytes]; omega)]
  · rw [if_neg c1, if_neg c1, if_neg c1]
    by_cases c2 : n > 125
    · rw [if_pos c2, if_pos c2, if_pos c2, modify1 _ _ _ _ _ (by omega)]
      simp only [ebind_ok]
      unfold PFrame.putBE
      dsimp only
      rw [if_pos ⟨by omega, by omega⟩, copyAt2 _ _ _ _ _ hl' hl'' (by rw [length_beBytes]; omega)]
    · rw [if_neg c2, if_neg c2, if_neg c2, modify1 _ _ _ _ _ (by omega)]
      simp

theorem copyAt_mid (A B C src : List UInt8) (len off : Nat) (hoff : off = A.length) (hs : src.length = B.length)
    (hl : A.length + B.length ≤ len) (hl2 : len ≤ (A ++ B ++ C).length) :
    PFrame.copyAt ⟨A ++ B ++ C, len⟩ off src = .ok ⟨A ++ src ++ C, len⟩ := by
  subst hoff
  unfold PFrame.copyAt
  dsimp only
  rw [if_pos ⟨by omega, hl2⟩]
  have hk : min (len - A.length) src.length = src.length := by omega
  have ht : (A ++ B ++ C).take A.length = A := by rw [List.append_assoc]; exact List.take_left' rfl
  have hd : (A ++ B ++ C).drop (A.length + src.length) = C := by
    rw [hs]; exact List.drop_left' (by rw [List.length_append])
  rw [hk, List.take_length, ht, hd]
  rfl

/-! ### Accessors on a frame laid out as header ++ extended length ++ key ++ payload -/

theorem byteAt1 (b0 b1 : UInt8) (X : List UInt8) : byteAt (b0 :: b1 :: X) 1 = b1.toNat := by simp [byteAt]

/-- The header is consistent: `E` are the extended length bytes announced by `b1`, the mask bit is set, and the
declared length is `n`. -/
structure HdrOk (b1 : UInt8) (E : List UInt8) (n : Nat) : Prop where
  ext : extLen b1.toNat = E.length
  masked : b1.toNat ≥ 128
  decl : (if extLen b1.toNat = 0 then b1.toNat % 128 else beNat E) = n
  small : n < 2 ^ 63

theorem layout_bytes (b0 b1 : UInt8) (E M P T : List UInt8) (hM : M.length = 4) :
    (PFrame.mk (b0 :: b1 :: (E ++ M ++ P ++ T)) (2 + E.length + 4 + P.length)).bytes = b0 :: b1 :: (E ++ M ++ P) := by
  unfold PFrame.bytes
  dsimp only
  have : 2 + E.length + 4 + P.length = (b0 :: b1 :: (E ++ M ++ P)).length := by
    simp only [List.length_cons, List.length_append, hM]; omega
  rw [this]
  have e : b0 :: b1 :: (E ++ M ++ P ++ T) = (b0 :: b1 :: (E ++ M ++ P)) ++ T := by simp
  rw [e, List.take_left' rfl]

theorem layout_offsets (b0 b1 : UInt8) (E M P : List UInt8) (n : Nat) (h : HdrOk b1 E n) :
    maskOffset (b0 :: b1 :: (E ++ M ++ P)) = .ok (2 + E.length) ∧
    payloadOffset (b0 :: b1 :: (E ++ M ++ P)) = .ok (2 + E.length + 4) := by
  have h2 : 2 ≤ (b0 :: b1 :: (E ++ M ++ P)).length := by simp only [List.length_cons, List.length_append]; omega
  have hm : decide (b1.toNat ≥ 128) = true := by simpa using h.masked
  unfold maskOffset payloadOffset MaskBytes
  rw [ext_eq h2, isMasked_eq h2, byteAt1, h.ext, hm]
  exact ⟨rfl, rfl⟩

theorem layout_declLen (b0 b1 : UInt8) (E X : List UInt8) (n : Nat) (h : HdrOk b1 E n) :
    declLen (b0 :: b1 :: (E ++ X)) = n := by
  unfold declLen
  rw [byteAt1, ← h.decl]
  split
  · rfl
  · simp only [List.cons_append, List.drop_succ_cons, List.drop_zero]
    rw [h.ext, List.take_left' rfl]

theorem layout_payloadLength (b0 b1 : UInt8) (E M P : List UInt8) (n : Nat) (h : HdrOk b1 E n) :
    PayloadLength (b0 :: b1 :: (E ++ M ++ P)) = .ok (n : Int) := by
  have h2 : 2 ≤ (b0 :: b1 :: (E ++ M ++ P)).length := by simp only [List.length_cons, List.length_append]; omega
  have hd : declLen (b0 :: b1 :: (E ++ M ++ P)) = n := by
    have := layout_declLen b0 b1 E (M ++ P) n h
    simpa only [List.cons_append, List.append_assoc] using this
  rw [payloadLength_eq h2 (by rw [byteAt1, h.ext]; simp only [List.length_cons, List.length_append]; omega)]
  have : plOf (b0 :: b1 :: (E ++ M ++ P)) = (n : Int) := by
    have hmx : ((4611686018427387904 : Int)) ≤ Go.I64MAX := by unfold Go.I64MAX; omega
    have := @plOf_eq (b0 :: b1 :: (E ++ M ++ P)) Go.I64MAX (Int.le_refl _)
      (by rw [hd]; have := h.small; unfold Go.I64MAX; omega)
    rw [this, hd]
  rw [this]

/-! ### Bit facts about the second header byte -/

set_option maxRecDepth 100000 in
theorem or80_and80 (a : UInt8) : ((a ||| 0x80) &&& 0x80) = 0x80 := by
  have h : ∀ n : Nat, n < 256 → ((UInt8.ofNat n ||| 0x80) &&& 0x80) = 0x80 := by decide
  simpa using h a.toNat a.toNat_lt

set_option maxRecDepth 100000 in
theorem or80_idem (a : UInt8) : ((0x80 ||| a) ||| 0x80) = (0x80 ||| a) := by
  have h : ∀ n : Nat, n < 256 → ((0x80 ||| UInt8.ofNat n) ||| 0x80) = (0x80 ||| UInt8.ofNat n) := by decide
  simpa using h a.toNat a.toNat_lt

set_option maxRecDepth 100000 in
theorem toNat_or80 (a : UInt8) (h : a.toNat < 128) : ((0x80 : UInt8) ||| a).toNat = 128 + a.toNat := by
  have h' : ∀ n : Nat, n < 128 → ((0x80 : UInt8) ||| UInt8.ofNat n).toNat = 128 + n := by decide
  have := h' a.toNat h
  simpa using this

set_option maxRecDepth 100000 in
theorem or80_ofNat (n : Nat) (h : n < 128) : ((0x80 : UInt8) ||| UInt8.ofNat n) = UInt8.ofNat (128 + n) := by
  have h' : ∀ n : Nat, n < 128 → ((0x80 : UInt8) ||| UInt8.ofNat n) = UInt8.ofNat (128 + n) := by decide
  exact h' n h

theorem len7_toNat (n : Nat) : (len7 n).toNat = if n > 65535 then 127 else if n > 125 then 126 else n := by
  unfold len7
  split
  · rfl
  · split
    · rfl
    · rw [UInt8.toNat_ofNat']; exact Nat.mod_eq_of_lt (by omega)

theorem hdrOk (n : Nat) (hn : n < 2 ^ 63) : HdrOk ((0x80 : UInt8) ||| len7 n) (extBytes n) n := by
  have hl := len7_toNat n
  have hlt : (len7 n).toNat < 128 := by
    rw [hl]; split
    · omega
    · split <;> omega
  have ht := toNat_or80 (len7 n) hlt
  have hE := length_extBytes n
  by_cases c1 : n > 65535
  · rw [if_pos c1] at hl hE
    have hv : ((0x80 : UInt8) ||| len7 n).toNat = 255 := by omega
    have hx : extLen 255 = 8 := by decide
    have hb : beNat (extBytes n) = n := by
      unfold extBytes; rw [if_pos c1, beNat_beBytes]
      have : n % 2 ^ 64 = n := Nat.mod_eq_of_lt (Nat.lt_trans hn (by decide))
      rw [this]; exact Nat.mod_eq_of_lt (Nat.lt_trans hn (by decide))
    exact ⟨by rw [hv, hx, hE], by omega, by rw [hv, hx, if_neg (by omega), hb], hn⟩
  · rw [if_neg c1] at hl hE
    by_cases c2 : n > 125
    · rw [if_pos c2] at hl hE
      have hv : ((0x80 : UInt8) ||| len7 n).toNat = 254 := by omega
      have hx : extLen 254 = 2 := by decide
      have hb : beNat (extBytes n) = n := by
        unfold extBytes; rw [if_neg c1, if_pos c2, beNat_beBytes]
        exact Nat.mod_eq_of_lt (by omega)
      exact ⟨by rw [hv, hx, hE], by omega, by rw [hv, hx, if_neg (by omega), hb], hn⟩
    · rw [if_neg c2] at hl hE
      have hv : ((0x80 : UInt8) ||| len7 n).toNat = 128 + n := by omega
      have hx : extLen (128 + n) = 0 := by unfold extLen; rw [if_neg (by omega), if_neg (by omega)]
      exact ⟨by rw [hv, hx, hE], by omega, by rw [hv, hx, if_pos rfl]; omega, hn⟩

theorem offsets2 (b0 b1 : UInt8) (X : List UInt8) :
    maskOffset (b0 :: b1 :: X) = .ok (2 + extLen b1.toNat) ∧
    payloadOffset (b0 :: b1 :: X) = .ok (2 + extLen b1.toNat + maskLen b1.toNat) := by
  have h2 : 2 ≤ (b0 :: b1 :: X).length := by simp only [List.length_cons]; omega
  unfold maskOffset payloadOffset MaskBytes
  rw [ext_eq h2, isMasked_eq h2, byteAt1]
  refine ⟨rfl, ?_⟩
  simp only [ebind_ok, epure]
  unfold maskLen frameMaskLength frameHeaderLength
  by_cases hm : b1.toNat ≥ 128
  · rw [if_pos (by simpa using hm), if_pos hm]; rfl
  · rw [if_neg (by simpa using hm), if_neg hm]; rfl

theorem bytes_cons2 (b0 b1 : UInt8) (X : List UInt8) (len : Nat) (h : 2 ≤ len) :
    (PFrame.mk (b0 :: b1 :: X) len).bytes = b0 :: b1 :: X.take (len - 2) := by
  unfold PFrame.bytes
  obtain ⟨k, rfl⟩ : ∃ k, len = k + 2 := ⟨len - 2, by omega⟩
  simp

/-- `SetPayload(b)` on a frame whose mask bit is set: header, some 4 bytes where the key will go, the payload. -/
theorem setPayload_eq (b0 a1 : UInt8) (rest b : List UInt8) (len : Nat) (h2 : 2 ≤ len) (hlen : len ≤ 2 + rest.length)
    (h12 : 12 ≤ rest.length) (hm : (a1 &&& 0x80) = 0x80) (hn : b.length < 2 ^ 63) :
    ∃ M0 C0 : List UInt8, M0.length = 4 ∧
      PFrame.SetPayload ⟨b0 :: a1 :: rest, len⟩ b =
        .ok ⟨b0 :: ((0x80 : UInt8) ||| len7 b.length) :: (extBytes b.length ++ M0 ++ b ++ C0),
             2 + (extBytes b.length).length + 4 + b.length⟩ := by
  have hok := hdrOk b.length hn
  have hE8 := length_extBytes_le b.length
  have hml : maskLen ((0x80 : UInt8) ||| len7 b.length).toNat = 4 := by unfold maskLen; rw [if_pos hok.masked]
  unfold PFrame.SetPayload
  rw [setPayloadLength_eq _ _ _ _ _ h2 hlen h12, hm]
  simp only [ebind_ok]
  have hl' : 14 ≤ (if len < 14 then 14 else len) := by split <;> omega
  rw [bytes_cons2 _ _ _ _ (by omega), (offsets2 _ _ _).2, hok.ext, hml]
  simp only [ebind_ok]
  -- the extended slice: header, extended length, and at least 4 + n more bytes
  obtain ⟨RZ, hRZ, hlenRZ⟩ : ∃ RZ : List UInt8,
      (PFrame.extend ⟨b0 :: ((0x80 : UInt8) ||| len7 b.length) :: (extBytes b.length ++ rest.drop (extBytes b.length).length),
          if len < 14 then 14 else len⟩ (2 + (extBytes b.length).length + 4 + b.length)).arr =
        b0 :: ((0x80 : UInt8) ||| len7 b.length) :: (extBytes b.length ++ RZ) ∧ 4 + b.length ≤ RZ.length := by
    unfold PFrame.extend
    dsimp only
    split
    · rename_i hgt
      refine ⟨rest.drop (extBytes b.length).length ++ List.replicate
        (2 + (extBytes b.length).length + 4 + b.length -
          (b0 :: ((0x80 : UInt8) ||| len7 b.length) :: (extBytes b.length ++ rest.drop (extBytes b.length).length)).length) 0,
        by simp only [List.cons_append, List.append_assoc], ?_⟩
      simp only [List.length_append, List.length_drop, List.length_replicate, List.length_cons] at hgt ⊢
      omega
    · rename_i hle
      refine ⟨rest.drop (extBytes b.length).length, rfl, ?_⟩
      simp only [List.length_append, List.length_drop, List.length_cons] at hle ⊢
      omega
  have hf3 : PFrame.extend ⟨b0 :: ((0x80 : UInt8) ||| len7 b.length) :: (extBytes b.length ++ rest.drop (extBytes b.length).length),
          if len < 14 then 14 else len⟩ (2 + (extBytes b.length).length + 4 + b.length) =
      ⟨b0 :: ((0x80 : UInt8) ||| len7 b.length) :: (extBytes b.length ++ RZ), 2 + (extBytes b.length).length + 4 + b.length⟩ := by
    rw [← hRZ]; rfl
  rw [hf3, bytes_cons2 _ _ _ _ (by omega), (offsets2 _ _ _).2, hok.ext, hml]
  simp only [ebind_ok]
  rw [if_neg (by omega)]
  -- split RZ into the key slot, the payload slot and the rest
  refine ⟨RZ.take 4, (RZ.drop 4).drop b.length, by rw [List.length_take]; omega, ?_⟩
  have hsplit : b0 :: ((0x80 : UInt8) ||| len7 b.length) :: (extBytes b.length ++ RZ) =
      (b0 :: ((0x80 : UInt8) ||| len7 b.length) :: (extBytes b.length ++ RZ.take 4)) ++ (RZ.drop 4).take b.length ++ (RZ.drop 4).drop b.length := by
    simp only [List.cons_append, List.append_assoc, List.take_append_drop]
  have hA : (b0 :: ((0x80 : UInt8) ||| len7 b.length) :: (extBytes b.length ++ RZ.take 4)).length = 2 + (extBytes b.length).length + 4 := by
    simp only [List.length_cons, List.length_append, List.length_take]; omega
  rw [hsplit, copyAt_mid _ _ _ _ _ _ hA.symm (by rw [List.length_take, List.length_drop]; omega)
    (by rw [hA, List.length_take, List.length_drop]; omega)
    (by rw [← hsplit]; simp only [List.length_cons, List.length_append]; omega)]
  simp only [List.cons_append, List.append_assoc]

/-- `Mask(mask, b)` of util.go, as the model writes it. -/
def maskBytes (key b : List UInt8) : List UInt8 := b.zipIdx.map fun (x, i) => x ^^^ key.getD (i % 4) 0

theorem length_maskBytes (key b : List UInt8) : (maskBytes key b).length = b.length := by
  unfold maskBytes; simp

/-- `MaskPayload()` on a frame laid out as header, 4 key bytes, a payload *slice* `S` (which for a frame built
without `SetPayload` is whatever the pooled slice held) and the rest of the backing array. -/
theorem maskPayload_eq (b0 b1 : UInt8) (E M0 S C0 key : List UInt8) (n : Nat) (hok : HdrOk b1 E n) (hb1 : (b1 ||| 0x80) = b1)
    (hM : M0.length = 4) (hk : S.length > 0 → key.length = 4) :
    PFrame.MaskPayload ⟨b0 :: b1 :: (E ++ M0 ++ S ++ C0), 2 + E.length + 4 + S.length⟩ key =
      .ok ⟨b0 :: b1 :: (E ++ (if S.length > 0 then key else M0) ++ (if S.length > 0 then maskBytes key S else S) ++ C0),
           2 + E.length + 4 + S.length⟩ := by
  unfold PFrame.MaskPayload PFrame.SetIsMasked
  rw [modify1 _ _ _ _ _ (by omega), hb1]
  simp only [ebind_ok]
  rw [layout_bytes _ _ _ _ _ _ hM]
  obtain ⟨ho1, ho2⟩ := layout_offsets b0 b1 E M0 S n hok
  rw [ho1, ho2]
  simp only [ebind_ok]
  have hbl : (b0 :: b1 :: (E ++ M0 ++ S)).length = 2 + E.length + 4 + S.length := by
    simp only [List.length_cons, List.length_append, hM]; omega
  rw [slice_ok (by omega) (by rw [hbl]; unfold frameMaskLength; omega)]
  simp only [ebind_ok]
  rw [slice_ok (by omega) (by rw [hbl]; exact Nat.le_refl _)]
  simp only [ebind_ok]
  have hpay : ((b0 :: b1 :: (E ++ M0 ++ S)).drop (2 + E.length + 4)).take (2 + E.length + 4 + S.length - (2 + E.length + 4)) = S := by
    have e : b0 :: b1 :: (E ++ M0 ++ S) = (b0 :: b1 :: (E ++ M0)) ++ S := by simp
    rw [e, List.drop_left' (by simp only [List.length_cons, List.length_append, hM]; omega)]
    rw [show 2 + E.length + 4 + S.length - (2 + E.length + 4) = S.length by omega, List.take_length]
  rw [hpay]
  by_cases hpos : S.length > 0
  · rw [if_pos hpos, if_pos hpos, if_pos hpos]
    have hk' := hk hpos
    have hk4 : key.take 4 = key := by rw [← hk', List.take_length]
    rw [hk4]
    have s1 : b0 :: b1 :: (E ++ M0 ++ S ++ C0) = (b0 :: b1 :: E) ++ M0 ++ (S ++ C0) := by simp
    rw [s1, copyAt_mid _ _ _ _ _ _ (by simp only [List.length_cons]; omega) (by rw [hk', hM])
      (by simp only [List.length_cons, hM]; omega)
      (by simp only [List.length_cons, List.length_append, hM]; omega)]
    simp only [ebind_ok]
    have s2 : (b0 :: b1 :: E) ++ key ++ (S ++ C0) = ((b0 :: b1 :: E) ++ key) ++ S ++ C0 := by simp
    rw [s2, copyAt_mid _ _ _ _ _ _ (by simp only [List.length_cons, List.length_append, hk']; omega)
      (by simp)
      (by simp only [List.length_cons, List.length_append, hk']; omega)
      (by simp only [List.length_cons, List.length_append, hk']; omega)]
    unfold maskBytes
    simp
  · rw [if_neg hpos, if_neg hpos, if_neg hpos]
    rfl

/-- `Encode`: the bytes handed to the write buffer are the header, the key and the *declared* payload — nothing of
what the slice holds beyond them. -/
theorem wire_eq (b0 b1 : UInt8) (E M S C0 : List UInt8) (n : Nat) (hok : HdrOk b1 E n) (hM : M.length = 4) (hn : n ≤ S.length) :
    PFrame.wire ⟨b0 :: b1 :: (E ++ M ++ S ++ C0), 2 + E.length + 4 + S.length⟩ = .ok (b0 :: b1 :: (E ++ M ++ S.take n)) := by
  unfold PFrame.wire
  rw [layout_bytes _ _ _ _ _ _ hM, (layout_offsets b0 _ _ M S n hok).2, layout_payloadLength b0 _ _ M S n hok]
  simp only [ebind_ok]
  rw [if_pos ⟨by omega, by simp only [List.length_cons, List.length_append, hM]; omega⟩]
  have e : b0 :: b1 :: (E ++ M ++ S ++ C0) = (b0 :: b1 :: (E ++ M ++ S.take n)) ++ (S.drop n ++ C0) := by
    simp only [List.cons_append, List.append_assoc]
    rw [← List.append_assoc (List.take n S), List.take_append_drop]
  rw [e]
  have : (((2 + E.length + 4 : Nat) : Int) + (n : Int)).toNat = (b0 :: b1 :: (E ++ M ++ S.take n)).length := by
    simp only [List.length_cons, List.length_append, hM, List.length_take]; omega
  rw [this, List.take_left' rfl]
  rfl

theorem getElem_maskBytes (key b : List UInt8) (i : Nat) (h : i < (maskBytes key b).length) :
    (maskBytes key b)[i] = b[i]'(by rw [length_maskBytes] at h; exact h) ^^^ key.getD (i % 4) 0 := by
  simp only [maskBytes, List.getElem_map, List.getElem_zipIdx]
  simp

/-- Masking is an involution: applying `Mask` twice with the same key gives the original bytes back. -/
theorem maskBytes_involution (key b : List UInt8) : maskBytes key (maskBytes key b) = b := by
  apply List.ext_getElem
  · rw [length_maskBytes, length_maskBytes]
  · intro i h1 h2
    rw [getElem_maskBytes, getElem_maskBytes, UInt8.xor_assoc, UInt8.xor_self, UInt8.xor_zero]

theorem xorKey_eq_maskBytes (key b : List UInt8) : Sonic.Spec.WsWire.xorKey key b = maskBytes key b := rfl

set_option maxRecDepth 100000 in
theorem hb0_eq (fin : Bool) (c : UInt8) :
    hb0 fin c = UInt8.ofNat (128 * b2n fin + 64 * b2n false + 32 * b2n false + 16 * b2n false + c.toNat % 16 % 16) := by
  have h : ∀ n : Nat, n < 256 → ∀ fin : Bool,
      hb0 fin (UInt8.ofNat n) = UInt8.ofNat (128 * b2n fin + 64 * b2n false + 32 * b2n false + 16 * b2n false + n % 16 % 16) := by
    decide
  have := h c.toNat c.toNat_lt fin
  simpa using this

theorem lenBytes_eq (n : Nat) (hn : n < 2 ^ 63) : lenBytes true n = ((0x80 : UInt8) ||| len7 n) :: extBytes n := by
  have hb : b2n true = 1 := rfl
  unfold lenBytes len7 extBytes
  dsimp only
  rw [hb]
  by_cases c1 : n ≤ 125
  · have n1 : ¬ n > 65535 := by omega
    have n2 : ¬ n > 125 := by omega
    rw [if_pos c1, if_neg n1, if_neg n2, if_neg n1, if_neg n2, or80_ofNat n (by omega)]
  · have p2 : n > 125 := by omega
    rw [if_neg c1]
    by_cases c2 : n ≤ 65535
    · have n1 : ¬ n > 65535 := by omega
      rw [if_pos c2, if_neg n1, if_pos p2, if_neg n1, if_pos p2]
      rfl
    · have p1 : n > 65535 := by omega
      rw [if_neg c2, if_pos p1, if_pos p1]
      have : n % 2 ^ 64 = n := Nat.mod_eq_of_lt (Nat.lt_trans hn (by decide))
      rw [this]
      rfl

/-- The reference encoding of a masked frame without reserved bits, spelled out. -/
theorem encode_masked (fin : Bool) (c : UInt8) (M P : List UInt8) (hn : P.length < 2 ^ 63) :
    encode { fin := fin, rsv1 := false, rsv2 := false, rsv3 := false, opcode := c.toNat % 16, masked := true, mask := M, payload := P } =
      hb0 fin c :: ((0x80 : UInt8) ||| len7 P.length) :: (extBytes P.length ++ M ++ P) := by
  unfold encode
  dsimp only
  rw [← hb0_eq, lenBytes_eq _ hn]
  simp

end Sonic.Model.WsEncode
