/-
The frame sequence of a byte string (`Spec.WsFrame.frames`) and traces accepted by the C07 monitor:
whatever the segmentation and wherever `Decode` was called, the frames yielded along an accepted trace
are the first frames of the byte string delivered so far.
-/
import Sonic.Lemmas.WsParse

namespace Sonic.Spec.WsFrame

theorem framesFuel_stable (max : Int) : ∀ (k1 k2 : Nat) (bs : List UInt8), bs.length < k1 → bs.length < k2 →
    framesFuel max k1 bs = framesFuel max k2 bs := by
  intro k1
  induction k1 with
  | zero => intro k2 bs h; omega
  | succ k1 ih =>
    intro k2 bs h1 h2
    cases k2 with
    | zero => omega
    | succ k2 =>
      unfold framesFuel
      cases hp : parse max bs with
      | needMore => rfl
      | tooBig => rfl
      | frame f n =>
        obtain ⟨h2', hn, hle, _, _⟩ := parse_frame hp
        have hge := hdrLen_ge bs
        dsimp only
        rw [ih k2 (bs.drop n) (by rw [List.length_drop]; omega) (by rw [List.length_drop]; omega)]

theorem frames_frame {max : Int} {bs : List UInt8} {f : Frame} {n : Nat} (hp : parse max bs = .frame f n) :
    frames max bs = (f :: (frames max (bs.drop n)).1, (frames max (bs.drop n)).2) := by
  obtain ⟨h2', hn, hle, _, _⟩ := parse_frame hp
  have hge := hdrLen_ge bs
  unfold frames
  conv => lhs; unfold framesFuel
  rw [hp]
  dsimp only
  rw [framesFuel_stable max bs.length ((bs.drop n).length + 1) (bs.drop n) (by rw [List.length_drop]; omega) (by omega)]

theorem frames_needMore {max : Int} {bs : List UInt8} (hp : parse max bs = .needMore) : frames max bs = ([], .needMore) := by
  unfold frames framesFuel; rw [hp]

theorem frames_tooBig {max : Int} {bs : List UInt8} (hp : parse max bs = .tooBig) : frames max bs = ([], .tooBig) := by
  unfold frames framesFuel; rw [hp]

/-- Every frame of the sequence is within the maximum. -/
theorem framesFuel_bounded (max : Int) : ∀ (k : Nat) (bs : List UInt8), ∀ f ∈ (framesFuel max k bs).1, (f.payload.length : Int) ≤ max := by
  intro k
  induction k with
  | zero => intro bs f hf; simp [framesFuel] at hf
  | succ k ih =>
    intro bs f hf
    unfold framesFuel at hf
    cases hp : parse max bs with
    | needMore => rw [hp] at hf; simp at hf
    | tooBig => rw [hp] at hf; simp at hf
    | frame g n =>
      rw [hp] at hf
      dsimp only at hf
      rcases List.mem_cons.mp hf with h | h
      · rw [h]; exact parse_frame_bounded hp
      · exact ih _ f h

/-! ## Accepted traces -/

/-- What an accepted observation says (one case per clause of the monitor). -/
theorem step_cases {s s' : S} {op : Op} {ob : Obs} (h : step s op ob = some s') :
    (∃ bs, op = .feed bs ∧ ob.out = .ok ∧ ob.len = ((s.held + (s.pending ++ bs).length : Nat) : Int) ∧
        s' = { s with pending := s.pending ++ bs }) ∨
    (∃ bs n, op = .read bs ∧ ob.out = .took n ∧ n ≤ (s.backlog ++ bs).length ∧
        ob.len = ((s.held + (s.pending ++ (s.backlog ++ bs).take n).length : Nat) : Int) ∧
        s' = { s with pending := s.pending ++ (s.backlog ++ bs).take n, backlog := (s.backlog ++ bs).drop n }) ∨
    (op = .decode ∧ ob.out = .needMore ∧ parse s.max s.pending = .needMore ∧ ob.len = (s.pending.length : Nat) ∧
        0 < ob.reserved ∧ s' = { s with held := 0 }) ∨
    (op = .decode ∧ ob.out = .tooBig ∧ parse s.max s.pending = .tooBig ∧ ob.len = (s.pending.length : Nat) ∧
        s' = { s with held := 0 }) ∨
    (∃ f size, op = .decode ∧ ob.out = .frame f size ∧ parse s.max s.pending = .frame f size ∧
        (f.payload.length : Int) ≤ s.max ∧ ob.len = (s.pending.length : Nat) ∧
        s' = { s with pending := s.pending.drop size, held := size }) := by
  unfold step at h
  split at h
  · dsimp only at h
    split at h
    · rename_i hc; left; exact ⟨_, rfl, rfl, hc, (Option.some.inj h).symm⟩
    · cases h
  · dsimp only at h
    split at h
    · rename_i hc; right; left; exact ⟨_, _, rfl, rfl, hc.1, hc.2, (Option.some.inj h).symm⟩
    · cases h
  · split at h
    · split at h
      · rename_i hc; right; right; left; exact ⟨rfl, rfl, ‹parse s.max s.pending = Parse.needMore›, hc.1, hc.2, (Option.some.inj h).symm⟩
      · cases h
    · split at h
      · rename_i hc; right; right; right; left; exact ⟨rfl, rfl, ‹parse s.max s.pending = Parse.tooBig›, hc, (Option.some.inj h).symm⟩
      · cases h
    · split at h
      · rename_i hc
        have hp := ‹parse s.max s.pending = Parse.frame _ _›
        obtain ⟨hf, hsz, hb, hl⟩ := hc
        subst hf; subst hsz
        right; right; right; right; exact ⟨_, _, rfl, rfl, hp, hb, hl, (Option.some.inj h).symm⟩
      · cases h
    · cases h
  · cases h

theorem step_max {s s' : S} {op : Op} {ob : Obs} (h : step s op ob = some s') : s'.max = s.max := by
  rcases step_cases h with ⟨_, _, _, _, e⟩ | ⟨_, _, _, _, _, _, e⟩ | ⟨_, _, _, _, _, e⟩ | ⟨_, _, _, _, e⟩ | ⟨_, _, _, _, _, _, _, e⟩ <;>
    rw [e]

/-- The monitor's state after a trace (it stops at the first rejected observation). -/
def endState : S → List (Op × Obs) → S
  | s, [] => s
  | s, (op, ob) :: r => match step s op ob with
      | some s' => endState s' r
      | none => s

/-- The bytes that entered the decoder's buffer along a trace. -/
def delivered : S → List (Op × Obs) → List UInt8
  | _, [] => []
  | s, (op, ob) :: r => match step s op ob with
      | some s' =>
          (match op, ob.out with
            | .feed bs, _ => bs
            | .read bs, .took n => (s.backlog ++ bs).take n
            | _, _ => []) ++ delivered s' r
      | none => []

/-- The frames `Decode` returned along a trace. -/
def yielded : List (Op × Obs) → List Frame
  | [] => []
  | (_, ⟨.frame f _, _, _⟩) :: r => f :: yielded r
  | _ :: r => yielded r

theorem frames_trace : ∀ (tr : List (Op × Obs)) (s : S), accepts s tr = true → ∀ x : List UInt8,
    frames s.max (s.pending ++ delivered s tr ++ x) =
      (yielded tr ++ (frames s.max ((endState s tr).pending ++ x)).1, (frames s.max ((endState s tr).pending ++ x)).2) := by
  intro tr
  induction tr with
  | nil => intro s _ x; simp [delivered, yielded, endState]
  | cons e r ih =>
    intro s h x
    obtain ⟨op, ob⟩ := e
    unfold accepts at h
    cases hs : step s op ob with
    | none => rw [hs] at h; cases h
    | some s' =>
      rw [hs] at h
      dsimp only at h
      have hmax := step_max hs
      have ih' := ih s' h x
      rw [hmax] at ih'
      unfold delivered endState
      rw [hs]
      dsimp only
      rcases step_cases hs with ⟨bs, e1, e2, _, e⟩ | ⟨bs, n, e1, e2, _, _, e⟩ | ⟨e1, e2, hp, _, _, e⟩ | ⟨e1, e2, hp, _, e⟩ |
        ⟨f, size, e1, e2, hp, _, _, e⟩
      · subst e1; subst e
        obtain ⟨o, l, rs⟩ := ob
        dsimp only at e2; subst e2
        dsimp only at ih' ⊢
        unfold yielded
        rw [← ih']; simp [List.append_assoc]
      · subst e1; subst e
        obtain ⟨o, l, rs⟩ := ob
        dsimp only at e2; subst e2
        dsimp only at ih' ⊢
        unfold yielded
        rw [← ih']; simp [List.append_assoc]
      · subst e1; subst e
        obtain ⟨o, l, rs⟩ := ob
        dsimp only at e2; subst e2
        dsimp only at ih' ⊢
        unfold yielded
        simpa using ih'
      · subst e1; subst e
        obtain ⟨o, l, rs⟩ := ob
        dsimp only at e2; subst e2
        dsimp only at ih' ⊢
        unfold yielded
        simpa using ih'
      · subst e1; subst e
        obtain ⟨o, l, rs⟩ := ob
        dsimp only at e2; subst e2
        dsimp only at ih' ⊢
        unfold yielded
        obtain ⟨_, hn, hle, _, _⟩ := parse_frame hp
        have hp' := @parse_append_frame s.max s.pending ([] ++ delivered { s with pending := s.pending.drop size, held := size } r ++ x) f size hp
        simp only [List.nil_append, List.append_assoc] at hp' ⊢
        rw [frames_frame hp', List.drop_append_of_le_length hle]
        simp only [List.append_assoc] at ih'
        rw [ih']
        simp

/-- What the monitor guarantees about a single accepted observation. -/
def Good (max : Int) (ob : Obs) : Prop :=
  ob.out ≠ .panic ∧ ob.out ≠ .other ∧ (∀ f n, ob.out = .frame f n → (f.payload.length : Int) ≤ max) ∧
  (ob.out = .needMore → 0 < ob.reserved)

theorem step_good {s s' : S} {op : Op} {ob : Obs} (h : step s op ob = some s') : Good s.max ob := by
  rcases step_cases h with ⟨_, _, e2, _, _⟩ | ⟨_, _, _, e2, _, _, _⟩ | ⟨_, e2, _, _, hr, _⟩ | ⟨_, e2, _, _, _⟩ |
    ⟨f, n, _, e2, _, hb, _, _⟩ <;>
  refine ⟨by rw [e2]; simp, by rw [e2]; simp, fun f' n' h' => ?_, fun h' => ?_⟩ <;> rw [e2] at h' <;> try cases h'
  · exact hr
  · exact hb

theorem accepts_good : ∀ (tr : List (Op × Obs)) (s : S), accepts s tr = true → ∀ e ∈ tr, Good s.max e.2 := by
  intro tr
  induction tr with
  | nil => intro s _ e he; cases he
  | cons e0 r ih =>
    intro s h e he
    obtain ⟨op, ob⟩ := e0
    unfold accepts at h
    cases hs : step s op ob with
    | none => rw [hs] at h; cases h
    | some s' =>
      rw [hs] at h
      rcases List.mem_cons.mp he with h1 | h1
      · rw [h1]; exact step_good hs
      · have := ih s' h e h1; rw [step_max hs] at this; exact this

/-- When the last call of an accepted trace is a `Decode` that did not return a frame, no complete frame is
left: the parser gives the same answer on the unconsumed bytes. -/
theorem accepts_last : ∀ (tr : List (Op × Obs)) (s : S), accepts s tr = true → ∀ ob, tr.getLast? = some (.decode, ob) →
    (ob.out = .needMore → parse s.max (endState s tr).pending = .needMore) ∧
    (ob.out = .tooBig → parse s.max (endState s tr).pending = .tooBig) := by
  intro tr
  induction tr with
  | nil => intro s _ ob h; cases h
  | cons e0 r ih =>
    intro s h ob hl
    obtain ⟨op, ob0⟩ := e0
    unfold accepts at h
    cases hs : step s op ob0 with
    | none => rw [hs] at h; cases h
    | some s' =>
      rw [hs] at h
      dsimp only at h
      unfold endState
      rw [hs]
      dsimp only
      cases r with
      | nil =>
        simp only [List.getLast?_singleton, Option.some.injEq, Prod.mk.injEq] at hl
        obtain ⟨h1, h2⟩ := hl
        subst h1; subst h2
        unfold endState
        rcases step_cases hs with ⟨_, e1, _⟩ | ⟨_, _, e1, _⟩ | ⟨_, e2, hp, _, _, e⟩ | ⟨_, e2, hp, _, e⟩ | ⟨f, n, _, e2, _, _, _, _⟩
        · cases e1
        · cases e1
        · subst e; exact ⟨fun _ => hp, fun h' => (by rw [e2] at h'; cases h')⟩
        · subst e; exact ⟨fun h' => (by rw [e2] at h'; cases h'), fun _ => hp⟩
        · exact ⟨fun h' => (by rw [e2] at h'; cases h'), fun h' => (by rw [e2] at h'; cases h')⟩
      | cons e1 r' =>
        rw [List.getLast?_cons_cons] at hl
        have := ih s' h ob hl
        rw [step_max hs] at this
        exact this

theorem frames_drained {tr : List (Op × Obs)} {s : S} (h : accepts s tr = true) {ob : Obs}
    (hl : tr.getLast? = some (.decode, ob)) :
    (ob.out = .needMore → frames s.max (s.pending ++ delivered s tr) = (yielded tr, .needMore)) ∧
    (ob.out = .tooBig → frames s.max (s.pending ++ delivered s tr) = (yielded tr, .tooBig)) := by
  have hf := frames_trace tr s h []
  simp only [List.append_nil] at hf
  obtain ⟨h1, h2⟩ := accepts_last tr s h ob hl
  constructor
  · intro ho; rw [hf, frames_needMore (h1 ho)]; simp
  · intro ho; rw [hf, frames_tooBig (h2 ho)]; simp

/-- The bytes of the `feed` operations of a trace, in order. -/
def fedBytes : List (Op × Obs) → List UInt8
  | [] => []
  | (.feed bs, _) :: r => bs ++ fedBytes r
  | _ :: r => fedBytes r

def NoRead (tr : List (Op × Obs)) : Prop := ∀ e ∈ tr, ∀ bs, e.1 ≠ .read bs

theorem delivered_noRead : ∀ (tr : List (Op × Obs)) (s : S), accepts s tr = true → NoRead tr → delivered s tr = fedBytes tr := by
  intro tr
  induction tr with
  | nil => intro s _ _; rfl
  | cons e0 r ih =>
    intro s h hn
    obtain ⟨op, ob⟩ := e0
    unfold accepts at h
    cases hs : step s op ob with
    | none => rw [hs] at h; cases h
    | some s' =>
      rw [hs] at h
      dsimp only at h
      have ih' := ih s' h (fun e he => hn e (List.mem_cons_of_mem _ he))
      unfold delivered
      rw [hs]
      dsimp only
      rw [ih']
      cases op with
      | feed bs => rfl
      | read bs => exact absurd rfl (hn (.read bs, ob) (List.mem_cons_self ..) bs)
      | decode => simp [fedBytes]

end Sonic.Spec.WsFrame
