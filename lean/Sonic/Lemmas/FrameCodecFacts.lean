/-
Facts about the frame codec model (`Sonic.Model.FrameCodec`) against the pure parser
(`Sonic.Spec.FrameCodec.front`): what one `Decode` call does to a source buffer, in terms of the
unparsed bytes only.
-/
import Sonic.Model.FrameCodec

namespace Sonic.Lemmas.FrameCodec
open Sonic.Spec.FrameCodec Sonic.Model.FrameCodec

/-! ## the pure parser -/

theorem front_short {limit : Nat} {u : Bytes} (h : u.length < 4) : front limit u = .incomplete := by
  match u, h with
  | [], _ => rfl
  | [_], _ => rfl
  | [_, _], _ => rfl
  | [_, _, _], _ => rfl
  | _ :: _ :: _ :: _ :: _, h => simp at h; omega

theorem front_cons4 (limit : Nat) (a b c d : UInt8) (r : Bytes) :
    front limit (a :: b :: c :: d :: r) =
      if len32 a b c d > limit then .tooBig
      else if len32 a b c d ≤ r.length then .item (r.take (len32 a b c d)) (r.drop (len32 a b c d))
      else .incomplete := rfl

/-- More bytes never change an item that is already complete. -/
theorem front_item_append {limit : Nat} {u p rest : Bytes} (v : Bytes) (h : front limit u = .item p rest) :
    front limit (u ++ v) = .item p (rest ++ v) := by
  match u with
  | [] | [_] | [_, _] | [_, _, _] => simp [front] at h
  | a :: b :: c :: d :: r =>
    rw [front_cons4] at h
    simp only [List.cons_append, front_cons4]
    split at h
    · cases h
    · rename_i h1
      split at h
      · rename_i h2
        rw [if_neg h1, if_pos (by rw [List.length_append]; omega)]
        injection h with hp hr
        rw [← hp, ← hr, List.take_append_of_le_length h2, List.drop_append_of_le_length h2]
      · cases h

theorem front_tooBig_append {limit : Nat} {u : Bytes} (v : Bytes) (h : front limit u = .tooBig) :
    front limit (u ++ v) = .tooBig := by
  match u with
  | [] | [_] | [_, _] | [_, _, _] => simp [front] at h
  | a :: b :: c :: d :: r =>
    rw [front_cons4] at h
    simp only [List.cons_append, front_cons4]
    split at h
    · rename_i h1; rw [if_pos h1]
    · split at h <;> cases h

/-- With at least the four prefix bytes present, "too big" is already decided. -/
theorem front_tooBig_of_append {limit : Nat} {u v : Bytes} (hu : 4 ≤ u.length) (h : front limit (u ++ v) = .tooBig) :
    front limit u = .tooBig := by
  match u, hu with
  | a :: b :: c :: d :: r, _ =>
    simp only [List.cons_append, front_cons4] at h
    rw [front_cons4]
    split at h
    · rename_i h1; rw [if_pos h1]
    · split at h <;> cases h

theorem frame_front {limit : Nat} (p rest : Bytes) (h1 : p.length ≤ limit) (h2 : p.length < 4294967296) :
    front limit (frame p ++ rest) = .item p rest := by
  have hl : len32 (UInt8.ofNat (p.length / 16777216 % 256)) (UInt8.ofNat (p.length / 65536 % 256))
      (UInt8.ofNat (p.length / 256 % 256)) (UInt8.ofNat (p.length % 256)) = p.length := by
    simp only [len32, UInt8.toNat_ofNat']
    omega
  simp only [frame, be32, List.cons_append, List.nil_append, front_cons4, hl]
  rw [if_neg (by omega), if_pos (by rw [List.length_append]; omega)]
  simp

/-! ## the source buffer between `Decode` calls -/

/-- The bytes of the source buffer that have not been returned as an item yet. -/
def clean (d : Dec) (b : BB) : Bytes := if d.decodeReset then b.data.drop d.decodeBytes else b.data

/-- Invariant of the source buffer and decoder between calls. -/
structure SrcInv (d : Dec) (b : BB) : Prop where
  ri_le : b.ri ≤ b.data.length
  le_cap : b.data.length ≤ b.cap
  cap4 : 4 ≤ b.cap
  reset_ri : d.decodeReset = true → b.ri = d.decodeBytes
  clean_ri : d.decodeReset = false → b.ri = 0 ∨ b.ri = 4

theorem srcInv_new : SrcInv {} BB.new := by
  constructor <;> simp [BB.new, initialCap]

/-- `resetDecode` leaves exactly the unparsed bytes, with an empty or header-sized read area. -/
theorem resetDecode_spec {d : Dec} {b : BB} (h : SrcInv d b) :
    (resetDecode d b).1.decodeReset = false ∧ (resetDecode d b).2.data = clean d b ∧
    ((resetDecode d b).2.ri = 0 ∨ (resetDecode d b).2.ri = 4) ∧ (resetDecode d b).2.cap = b.cap ∧
    (resetDecode d b).2.ri ≤ (resetDecode d b).2.data.length := by
  unfold resetDecode clean
  by_cases hr : d.decodeReset = true
  · have hri := h.reset_ri hr
    have hle := h.ri_le
    simp only [hr, if_true]
    unfold BB.consume BB.readLen
    by_cases h0 : d.decodeBytes = 0
    · simp [h0]; omega
    · rw [if_neg h0]
      have : min d.decodeBytes b.ri = d.decodeBytes := by omega
      rw [this, if_pos (by omega)]
      simp; omega
  · have hr' : d.decodeReset = false := by simpa using hr
    have := h.clean_ri hr'
    have hle := h.ri_le
    simp [hr', this, hle]

/-! ## one `Decode` call -/

theorem decodeBody_short (limit slack : Nat) (d : Dec) (b : BB) (hri : b.ri = 0 ∨ b.ri = 4)
    (hle : b.ri ≤ b.data.length) (hs : b.data.length < 4) :
    decodeBody limit slack d b = (d, b, .needMore) := by
  have h0 : b.ri = 0 := by omega
  have hp : b.prepareRead headerLen = (b, true) := by
    simp [BB.prepareRead, BB.readLen, BB.writeLen, headerLen, h0]; omega
  unfold decodeBody
  rw [hp]; rfl

theorem prepareRead_payload (a0 a1 a2 a3 : UInt8) (r : Bytes) (cap n : Nat) :
    ({ data := a0 :: a1 :: a2 :: a3 :: r, ri := 4, cap := cap } : BB).prepareRead (headerLen + n) =
      if n ≤ r.length then ({ data := a0 :: a1 :: a2 :: a3 :: r, ri := 4 + n, cap := cap }, false)
      else ({ data := a0 :: a1 :: a2 :: a3 :: r, ri := 4, cap := cap }, true) := by
  simp only [BB.prepareRead, BB.readLen, BB.writeLen, BB.commit, headerLen, List.length_cons]
  by_cases h0 : n = 0
  · subst h0; simp
  · have e1 : 4 + n > 4 := by omega
    have e2 : 4 + n - 4 = n := by omega
    have e3 : r.length + 1 + 1 + 1 + 1 - 4 = r.length := by omega
    simp only [e1, e2, e3, if_true, h0, if_false]
    by_cases h : n ≤ r.length
    · have e4 : min n r.length = n := by omega
      simp [h, e4]
    · simp [h]

theorem consume_header (a0 a1 a2 a3 : UInt8) (r : Bytes) (cap n : Nat) :
    ({ data := a0 :: a1 :: a2 :: a3 :: r, ri := 4 + n, cap := cap } : BB).consume headerLen =
      { data := r, ri := n, cap := cap } := by
  have e1 : min 4 (4 + n) = 4 := by omega
  simp [BB.consume, BB.readLen, headerLen, e1]

theorem decodeBody_long (limit slack : Nat) (d : Dec) (b : BB) (a0 a1 a2 a3 : UInt8) (r : Bytes)
    (hdata : b.data = a0 :: a1 :: a2 :: a3 :: r) (hri : b.ri = 0 ∨ b.ri = 4) :
    decodeBody limit slack d b =
      if len32 a0 a1 a2 a3 > limit then (d, { b with ri := 4 }, .tooBig)
      else if len32 a0 a1 a2 a3 ≤ r.length then
        ({ decodeReset := true, decodeBytes := len32 a0 a1 a2 a3 },
         { data := r, ri := len32 a0 a1 a2 a3, cap := b.cap }, .item (r.take (len32 a0 a1 a2 a3)))
      else (d, ({ b with ri := 4 } : BB).reserve (4 + len32 a0 a1 a2 a3) slack, .needMore) := by
  have hp : b.prepareRead headerLen = ({ b with ri := 4 }, false) := by
    rcases hri with h | h
    · simp [BB.prepareRead, BB.readLen, BB.writeLen, BB.commit, headerLen, h, hdata]
    · cases b; simp_all [BB.prepareRead, BB.readLen, headerLen]
  unfold decodeBody
  rw [hp]
  simp only [BB.view, hdata, List.take, Bool.false_eq_true, if_false]
  by_cases h1 : len32 a0 a1 a2 a3 > limit
  · simp [h1]
  · simp only [h1, if_false]
    by_cases h2 : len32 a0 a1 a2 a3 ≤ r.length
    · simp only [h2, if_true]
      rw [prepareRead_payload, if_pos h2]
      simp only [Bool.false_eq_true, if_false, consume_header]
      rw [if_pos (by simp; omega)]
      simp [List.take_take]
    · rw [prepareRead_payload, if_neg h2]
      simp [headerLen]; omega

theorem reserve_data (b : BB) (n slack : Nat) : (b.reserve n slack).data = b.data := by
  unfold BB.reserve; split <;> rfl

theorem reserve_ri (b : BB) (n slack : Nat) : (b.reserve n slack).ri = b.ri := by
  unfold BB.reserve; split <;> rfl

theorem reserve_cap_ge (b : BB) (n slack : Nat) : b.cap ≤ (b.reserve n slack).cap := by
  unfold BB.reserve; split
  · show b.cap ≤ b.cap + _ + slack; omega
  · exact Nat.le_refl _

theorem reserve_room (b : BB) (n slack : Nat) (h : b.data.length ≤ b.cap) :
    b.data.length + n ≤ (b.reserve n slack).cap := by
  unfold BB.reserve; split
  · show _ ≤ b.cap + (n - (b.cap - b.data.length)) + slack; omega
  · show _ ≤ b.cap; omega

theorem shape4 {u : Bytes} (h : ¬ u.length < 4) : ∃ a0 a1 a2 a3 r, u = a0 :: a1 :: a2 :: a3 :: r := by
  match u, h with
  | [], h | [_], h | [_, _], h | [_, _, _], h => simp at h
  | a0 :: a1 :: a2 :: a3 :: r, _ => exact ⟨a0, a1, a2, a3, r, rfl⟩

/-- What one `Decode` call does, in terms of the unparsed bytes of the buffer only. -/
theorem decode_spec (limit slack : Nat) {d : Dec} {b : BB} (h : SrcInv d b) :
    SrcInv (decode limit slack d b).1 (decode limit slack d b).2.1 ∧
    (∀ p rest, front limit (clean d b) = .item p rest →
      (decode limit slack d b).2.2 = .item p ∧ clean (decode limit slack d b).1 (decode limit slack d b).2.1 = rest ∧
      (decode limit slack d b).2.1.cap = b.cap) ∧
    (front limit (clean d b) = .tooBig →
      (decode limit slack d b).2.2 = .tooBig ∧ clean (decode limit slack d b).1 (decode limit slack d b).2.1 = clean d b ∧
      (decode limit slack d b).2.1.cap = b.cap) ∧
    (front limit (clean d b) = .incomplete →
      (decode limit slack d b).2.2 = .needMore ∧ (decode limit slack d b).2.1.data = clean d b ∧
      (decode limit slack d b).1.decodeReset = false ∧
      (decode limit slack d b).2.1.data.length < (decode limit slack d b).2.1.cap ∧
      b.cap ≤ (decode limit slack d b).2.1.cap ∧
      ((clean d b).length < 4 → (decode limit slack d b).2.1.cap = b.cap)) := by
  obtain ⟨r1, r2, r3, r4, r5⟩ := resetDecode_spec h
  have hcapL : (clean d b).length ≤ b.cap := by
    have := h.le_cap
    unfold clean; split
    · rw [List.length_drop]; omega
    · exact this
  have h4 := h.cap4
  unfold decode
  generalize (resetDecode d b).1 = d0 at *
  generalize (resetDecode d b).2 = b0 at *
  generalize hu : clean d b = u at *
  by_cases hs : u.length < 4
  · rw [decodeBody_short limit slack d0 b0 r3 r5 (by rw [r2]; exact hs)]
    rw [front_short hs]
    refine ⟨⟨r5, (by rw [r2, r4]; exact hcapL), (by rw [r4]; exact h4), (fun hh => by rw [r1] at hh; cases hh), fun _ => r3⟩, ?_, ?_, ?_⟩
    · intro p rest hh; cases hh
    · intro hh; cases hh
    · intro _
      exact ⟨rfl, r2, r1, by rw [r2, r4]; omega, by rw [r4]; exact Nat.le_refl _, fun _ => r4⟩
  · obtain ⟨a0, a1, a2, a3, r, rfl⟩ := shape4 hs
    · rw [decodeBody_long limit slack d0 b0 a0 a1 a2 a3 r r2 r3, front_cons4]
      simp only [List.length_cons] at hcapL
      by_cases h1 : len32 a0 a1 a2 a3 > limit
      · simp only [h1, if_true]
        refine ⟨⟨(by simp [r2]), (by simp [r2, r4]; omega), (by simp [r4]; exact h4), (fun hh => by rw [r1] at hh; cases hh), fun _ => Or.inr rfl⟩, ?_, ?_, ?_⟩
        · intro p rest hh; cases hh
        · intro _; exact ⟨trivial, by simp [clean, r1, r2], r4⟩
        · intro hh; cases hh
      · simp only [h1, if_false]
        by_cases h2 : len32 a0 a1 a2 a3 ≤ r.length
        · simp only [h2, if_true]
          refine ⟨⟨h2, (by simp [r4]; omega), (by simp [r4]; exact h4), (fun _ => rfl), (fun hh => by cases hh)⟩, ?_, ?_, ?_⟩
          · intro p rest hh
            injection hh with hp hr
            exact ⟨by rw [hp], by simp [clean, hr], r4⟩
          · intro hh; cases hh
          · intro hh; cases hh
        · simp only [h2, if_false]
          have hb : ({ b0 with ri := 4 } : BB).data.length ≤ ({ b0 with ri := 4 } : BB).cap := by
            simp [r2, r4]; omega
          have hroom := reserve_room ({ b0 with ri := 4 } : BB) (4 + len32 a0 a1 a2 a3) slack hb
          have hge := reserve_cap_ge ({ b0 with ri := 4 } : BB) (4 + len32 a0 a1 a2 a3) slack
          have e_data := reserve_data ({ b0 with ri := 4 } : BB) (4 + len32 a0 a1 a2 a3) slack
          have e_ri := reserve_ri ({ b0 with ri := 4 } : BB) (4 + len32 a0 a1 a2 a3) slack
          generalize ({ b0 with ri := 4 } : BB).reserve (4 + len32 a0 a1 a2 a3) slack = bb at *
          simp only [r2, r4, List.length_cons] at hroom hge e_data e_ri
          refine ⟨⟨?_, ?_, ?_, ?_, ?_⟩, ?_, ?_, ?_⟩
          · simp [e_ri, e_data]
          · simp [e_data]; omega
          · show 4 ≤ bb.cap; omega
          · intro hh; rw [r1] at hh; cases hh
          · intro _; right; exact e_ri
          · intro p rest hh; cases hh
          · intro hh; cases hh
          · intro _
            refine ⟨trivial, e_data, r1, ?_, ?_, ?_⟩
            · simp [e_data]; omega
            · show b.cap ≤ bb.cap; omega
            · intro hh; simp at hh; omega

end Sonic.Lemmas.FrameCodec
