/-
Reference counting for exactly-once completion (C01): `refs w op` is the number of places from which the loop
model could still invoke the callback of operation `op` — an unfinished start/schedule frame, a registered
interest whose stored handler belongs to `op`, an entry of the post queue.  Every `enter op` consumes one
reference, references are created only by the call that starts `op` (whose id must be fresh), and never
duplicated; hence the callback of a non-repeating operation is entered at most once in every history.
-/
import Sonic.Lemmas.LoopInv

namespace Sonic.Model.Loop
open Sonic.Spec.Loop (Ev Ret Res OpKind ObjKind maxDispatch)

def frameRef (op : Nat) : K → Int
  | .startCall op' _ _ false => if op' = op then 1 else 0
  | .schedCall op' _ _ _ false => if op' = op then 1 else 0
  | .postCall op' => if op' = op then 1 else 0
  | _ => 0

def frameRefs (op : Nat) : List K → Int
  | [] => 0
  | k :: r => frameRef op k + frameRefs op r

def objRef (op : Nat) (o : Obj) : Int :=
  (if o.evR ∧ o.hR = op then 1 else 0) + (if o.evW ∧ o.hW = op then 1 else 0)

def objRefs (op : Nat) : List Obj → Int
  | [] => 0
  | o :: r => objRef op o + objRefs op r

def postRefs (op : Nat) : List Nat → Int
  | [] => 0
  | p :: r => (if p = op then 1 else 0) + postRefs op r

/-- Number of places from which the callback of `op` can still be invoked. -/
def refs (w : World) (op : Nat) : Int := frameRefs op w.stack + objRefs op w.objs + postRefs op w.posts

theorem objRef_nonneg (op : Nat) (o : Obj) : 0 ≤ objRef op o := by
  unfold objRef; split <;> split <;> omega

theorem objRefs_nonneg (op : Nat) : ∀ l : List Obj, 0 ≤ objRefs op l
  | [] => by simp [objRefs]
  | o :: r => by have := objRefs_nonneg op r; have := objRef_nonneg op o; simp only [objRefs]; omega

theorem frameRef_nonneg (op : Nat) (k : K) : 0 ≤ frameRef op k := by
  cases k <;> simp only [frameRef] <;> first | omega | (split <;> first | omega | (split <;> omega))

theorem frameRefs_nonneg (op : Nat) : ∀ l : List K, 0 ≤ frameRefs op l
  | [] => by simp [frameRefs]
  | k :: r => by have := frameRefs_nonneg op r; have := frameRef_nonneg op k; simp only [frameRefs]; omega

theorem postRefs_nonneg (op : Nat) : ∀ l : List Nat, 0 ≤ postRefs op l
  | [] => by simp [postRefs]
  | p :: r => by have := postRefs_nonneg op r; simp only [postRefs]; split <;> omega

theorem postRefs_append (op : Nat) (a b : List Nat) : postRefs op (a ++ b) = postRefs op a + postRefs op b := by
  induction a with
  | nil => simp [postRefs]
  | cons x r ih => simp only [List.cons_append, postRefs, ih]; omega

/-- Replacing one object (unique id) changes the reference count by the difference of its own contribution. -/
theorem objRefs_map_set (op : Nat) (l : List Obj) (o o' : Obj) (hn : (ids l).Nodup) (hm : o ∈ l) (hid : o'.id = o.id) :
    objRefs op (l.map fun x => if x.id == o'.id then o' else x) = objRefs op l - objRef op o + objRef op o' := by
  induction l with
  | nil => cases hm
  | cons x r ih =>
    simp only [ids, List.map_cons, List.nodup_cons] at hn
    simp only [List.map_cons, objRefs]
    by_cases hx : x.id == o'.id
    · have hxid : x.id = o.id := by rw [← hid]; simpa using hx
      have hxo : x = o := by
        rcases List.mem_cons.1 hm with h | h
        · exact h.symm
        · exact absurd (List.mem_map.2 ⟨o, h, hxid.symm⟩) hn.1
      have htail : (r.map fun y => if y.id == o'.id then o' else y) = r := by
        have : ∀ y ∈ r, (if y.id == o'.id then o' else y) = y := by
          intro y hy
          have h1 : y.id ≠ x.id := fun e => hn.1 (List.mem_map.2 ⟨y, hy, e⟩)
          have h2 : ¬ (y.id == o'.id) = true := by
            intro e; apply h1; rw [hxid, ← hid]; simpa using e
          simp [h2]
        calc (r.map fun y => if y.id == o'.id then o' else y) = r.map id := List.map_congr_left this
          _ = r := List.map_id r
      subst hxo
      rw [htail, if_pos hx]; omega
    · have hmr : o ∈ r := by
        rcases List.mem_cons.1 hm with h | h
        · exact absurd (by rw [← h, hid]; simp : (x.id == o'.id) = true) hx
        · exact h
      rw [if_neg hx, ih hn.2 hmr]
      omega

theorem setObj_refs (op : Nat) (w : World) (o o' : Obj) (hn : (ids w.objs).Nodup) (hg : getObj w o.id = some o) (hid : o'.id = o.id) :
    objRefs op (setObj w o').objs = objRefs op w.objs - objRef op o + objRef op o' := by
  unfold setObj
  exact objRefs_map_set op _ o o' hn (find_mem hg).1 hid

/-- An object found in the list contributes at most the whole count. -/
theorem objRef_le_objRefs (op : Nat) (w : World) (o : Obj) (hg : getObj w o.id = some o) : objRef op o ≤ objRefs op w.objs := by
  have hm := (find_mem hg).1
  generalize w.objs = l at hm
  induction l with
  | nil => cases hm
  | cons x r ih =>
    simp only [objRefs]
    rcases List.mem_cons.1 hm with h | h
    · subst h; have := objRefs_nonneg op r; omega
    · have := ih h; have := objRef_nonneg op x; omega

/-! ### How the helpers change the count for a fixed operation `x` -/

theorem refs_setRead_le (x : Nat) (w : World) (o : Obj) (op : Nat) (hn : (ids w.objs).Nodup) (hg : getObj w o.id = some o) :
    objRefs x (setRead w o op).objs ≤ objRefs x w.objs + (if op = x then 1 else 0) := by
  unfold setRead
  split
  · rw [setObj_refs x w o { o with hR := op, registered := true } hn hg rfl]
    simp only [objRef]; repeat' split
    all_goals first | omega | (simp_all <;> omega)
  · rw [setObj_refs x { w with pending := w.pending + 1 } o { o with hR := op, evR := true, registered := true } hn hg rfl]
    simp only [objRef]; repeat' split
    all_goals first | omega | (simp_all <;> omega)

theorem refs_setWrite_le (x : Nat) (w : World) (o : Obj) (op : Nat) (hn : (ids w.objs).Nodup) (hg : getObj w o.id = some o) :
    objRefs x (setWrite w o op).objs ≤ objRefs x w.objs + (if op = x then 1 else 0) := by
  unfold setWrite
  split
  · rw [setObj_refs x w o { o with hW := op, registered := true } hn hg rfl]
    simp only [objRef]; repeat' split
    all_goals first | omega | (simp_all <;> omega)
  · rw [setObj_refs x { w with pending := w.pending + 1 } o { o with hW := op, evW := true, registered := true } hn hg rfl]
    simp only [objRef]; repeat' split
    all_goals first | omega | (simp_all <;> omega)

/-- Removing the read interest removes exactly the reference of the stored read handler. -/
theorem refs_delRead (x : Nat) (w : World) (o : Obj) (hn : (ids w.objs).Nodup) (hg : getObj w o.id = some o) :
    objRefs x (delRead w o).objs = objRefs x w.objs - (if o.evR ∧ o.hR = x then 1 else 0) := by
  unfold delRead
  split
  · rename_i h
    rw [setObj_refs x { w with pending := w.pending - 1 } o { o with evR := false, registered := o.evW } hn hg rfl]
    simp only [objRef, h]; repeat' split
    all_goals first | omega | (simp_all <;> omega)
  · rename_i h
    have : ¬ (o.evR = true ∧ o.hR = x) := fun hh => h hh.1
    simp [this]

theorem refs_delWrite (x : Nat) (w : World) (o : Obj) (hn : (ids w.objs).Nodup) (hg : getObj w o.id = some o) :
    objRefs x (delWrite w o).objs = objRefs x w.objs - (if o.evW ∧ o.hW = x then 1 else 0) := by
  unfold delWrite
  split
  · rename_i h
    rw [setObj_refs x { w with pending := w.pending - 1 } o { o with evW := false, registered := o.evR } hn hg rfl]
    simp only [objRef, h]; repeat' split
    all_goals first | omega | (simp_all <;> omega)
  · rename_i h
    have : ¬ (o.evW = true ∧ o.hW = x) := fun hh => h hh.1
    simp [this]

theorem refs_closeObj_le (x : Nat) (w : World) (o : Obj) (hn : (ids w.objs).Nodup) (hg : getObj w o.id = some o) :
    objRefs x (closeObj w o).objs ≤ objRefs x w.objs := by
  unfold closeObj
  split
  · have := setObj_refs x (unsetPending w o) o { o with evR := false, tstate := .closed } hn hg rfl
    rw [this]
    simp only [objRef, unsetPending_objs]; repeat' split
    all_goals first | omega | (simp_all <;> omega)
  · have := setObj_refs x { w with pending := w.pending - ((if o.evR then 1 else 0) + (if o.evW then 1 else 0)) } o
      { o with evR := false, evW := false, closed := true, registered := false } hn hg rfl
    rw [this]
    have h0 := objRef_nonneg x o
    simp only [objRef] at h0 ⊢; simp; omega

theorem refs_armTimer_le (x : Nat) (w : World) (o : Obj) (op : Nat) (rep : Bool) (hn : (ids w.objs).Nodup)
    (hg : getObj w o.id = some o) :
    objRefs x (armTimer w o op rep).objs ≤ objRefs x w.objs + (if op = x then 1 else 0) := by
  unfold armTimer
  have e : (setObj (if o.evR then w else { w with pending := w.pending + 1 })
              { o with evR := true, hR := op, tstate := .scheduled, cancelled := false, rep := rep }).objs =
           (setObj w { o with evR := true, hR := op, tstate := .scheduled, cancelled := false, rep := rep }).objs := by
    split <;> rfl
  rw [e, setObj_refs x w o { o with evR := true, hR := op, tstate := .scheduled, cancelled := false, rep := rep } hn hg rfl]
  simp only [objRef]; repeat' split
  all_goals first | omega | (simp_all <;> omega)

/-- Updating fields other than the interest bits and stored handlers leaves the count unchanged. -/
theorem refs_setObj_same (x : Nat) (w : World) (o o' : Obj) (hn : (ids w.objs).Nodup) (hg : getObj w o.id = some o)
    (hid : o'.id = o.id) (h : objRef x o' = objRef x o) : objRefs x (setObj w o').objs = objRefs x w.objs := by
  rw [setObj_refs x w o o' hn hg hid, h]; omega

end Sonic.Model.Loop
