/-
Tie T for the websocket frame header (C07, C15, C16).

`Sonic.Gen.WsFrameBits` is regenerated on every run from `codec/websocket/frame.go`, `codec/websocket/rfc6455.go` and
`util/bytes.go` (`Frame.ExtendedPayloadLengthBytes … Frame.setPayloadLength`, `Opcode.IsReserved/IsControl`,
`ValidCloseCode`, `ExtendSlice`; bytes are `UInt8`, a slice is `Go.Bytes` = backing array up to the capacity + length,
index and slice expressions are checked as Go checks them).  This file proves that those functions coincide with the
definitions of the hand-written models over which C07 / C15 / C16 are proved:

* decoder side (`Sonic.Model.WsFrame`, a frame is the list of its `len(f)` bytes): for every slice value the accessors
  that only index (`ExtendedPayloadLengthBytes`, `IsFIN`, `IsRSV1..3`, `Opcode`, `IsMasked`, `MaskBytes`, `maskOffset`,
  `payloadOffset`) agree exactly, including the panic on a too short slice; `PayloadLength` agrees exactly on every
  slice without spare capacity, and whenever the model yields a value the generated code yields the same one (the model
  refuses to read between `len` and `cap`, Go does not);
* writer side (`Sonic.Model.WsEncode.PFrame` = array + length, the same representation): the bit setters,
  `ExtendSlice` and `setPayloadLength` agree exactly;
* `Opcode.IsReserved / IsControl` = `Model.WsStream.isReserved / isControl`, `ValidCloseCode` = `Spec.WsStream.validCloseCode`.
-/
import Sonic.Gen.WsFrameBits
import Sonic.Model.WsEncode
import Sonic.Model.WsStream
import Sonic.Lemmas.WsDecode

set_option linter.unusedSimpArgs false

namespace Sonic.Lemmas.WsFrameTie
open Sonic.Gen.WsFrameBits
open Sonic.Model.WsBuf (M)
open Sonic.Model

/-! ### Panics and results -/

/-- The model's name for a Go panic. -/
def liftP : Go.Panic → WsBuf.Panic
  | .indexRange => .indexRange
  | .sliceBounds => .sliceBounds
  | .makeLen => .allocRange

/-- A result of generated code, read as a result of the model's monad. -/
def lift {α : Type} : Except Go.Panic α → M α
  | .ok a => .ok a
  | .error e => .error (liftP e)

@[simp] theorem lift_ok {α : Type} (a : α) : lift (.ok a : Except Go.Panic α) = .ok a := rfl
@[simp] theorem lift_error {α : Type} (e : Go.Panic) : lift (.error e : Except Go.Panic α) = .error (liftP e) := rfl

/-! ### Slices and lists -/

theorem toList_length (b : Go.Bytes) : b.toList.length = min b.len b.arr.length := by
  simp [Go.Bytes.toList, List.length_take]

theorem toList_getD (b : Go.Bytes) (i : Nat) (h : i < b.len) : b.toList.getD i 0 = b.arr.getD i 0 := by
  simp [Go.Bytes.toList, List.getD_eq_getElem?_getD, h]

@[simp] theorem toList_ofList (l : List UInt8) : (Go.Bytes.ofList l).toList = l := by
  simp [Go.Bytes.toList, Go.Bytes.ofList]

/-- `b[i]` in the generated code and in the decoder model: the same byte, or the same panic. -/
theorem idx_cases (b : Go.Bytes) (i : Nat) :
    (∃ x, Go.Bytes.idx b (i : Int) = .ok x ∧ WsFrame.idx b.toList i = .ok x ∧ i < b.len ∧ i < b.arr.length ∧ x = b.arr.getD i 0) ∨
    (Go.Bytes.idx b (i : Int) = .error .indexRange ∧ WsFrame.idx b.toList i = .error .indexRange ∧ ¬ (i < b.len ∧ i < b.arr.length)) := by
  unfold Go.Bytes.idx WsFrame.idx
  rw [toList_length]
  by_cases h : i < b.len ∧ i < b.arr.length
  · left
    refine ⟨b.arr.getD i 0, ?_, ?_, h.1, h.2, rfl⟩
    · rw [if_pos ⟨by omega, by simpa using h.1, by simpa using h.2⟩]; simp [pure, Except.pure]
    · rw [if_pos (by omega), toList_getD b i h.1]; rfl
  · right
    refine ⟨?_, ?_, h⟩
    · rw [if_neg (by intro hh; apply h; exact ⟨by simpa using hh.2.1, by simpa using hh.2.2⟩)]; rfl
    · rw [if_neg (by omega)]; rfl

theorem idx_cases0 (b : Go.Bytes) :
    (∃ x, Go.Bytes.idx b (0 : Int) = .ok x ∧ WsFrame.idx b.toList 0 = .ok x ∧ 0 < b.len ∧ 0 < b.arr.length ∧ x = b.arr.getD 0 0) ∨
    (Go.Bytes.idx b (0 : Int) = .error .indexRange ∧ WsFrame.idx b.toList 0 = .error .indexRange ∧ ¬ (0 < b.len ∧ 0 < b.arr.length)) :=
  idx_cases b 0

theorem idx_cases1 (b : Go.Bytes) :
    (∃ x, Go.Bytes.idx b (1 : Int) = .ok x ∧ WsFrame.idx b.toList 1 = .ok x ∧ 1 < b.len ∧ 1 < b.arr.length ∧ x = b.arr.getD 1 0) ∨
    (Go.Bytes.idx b (1 : Int) = .error .indexRange ∧ WsFrame.idx b.toList 1 = .error .indexRange ∧ ¬ (1 < b.len ∧ 1 < b.arr.length)) :=
  idx_cases b 1

/-! ### Decoder side: accessors that only index -/

theorem dec_ne_zero (y : UInt8) : (decide ¬ y = 0) = !(y == 0) := by
  by_cases h : y = 0 <;> simp [h]

/-- How results of the model that are natural numbers are compared with Go `int` results. -/
def natM (r : M Nat) : M Int := (fun n : Nat => (n : Int)) <$> r

theorem extLenBytes_eq (b : Go.Bytes) :
    lift (Frame.ExtendedPayloadLengthBytes b) = natM (WsFrame.ExtendedPayloadLengthBytes b.toList) := by
  unfold Frame.ExtendedPayloadLengthBytes WsFrame.ExtendedPayloadLengthBytes natM
  rcases idx_cases1 b with ⟨x, h1, h2, -⟩ | ⟨h1, h2, -⟩
  · rw [h1, h2]
    simp only [bind, Except.bind, pure, Except.pure, bitmaskPayloadLength, Functor.map, Except.map]
    by_cases h127 : (x &&& 127) = 127
    · simp [h127]
    · by_cases h126 : (x &&& 127) = 126
      · simp [h126]
      · simp [h127, h126]
  · rw [h1, h2]; rfl

theorem isFIN_eq (b : Go.Bytes) : lift (Frame.IsFIN b) = WsFrame.IsFIN b.toList := by
  unfold Frame.IsFIN WsFrame.IsFIN
  rcases idx_cases0 b with ⟨x, h1, h2, -⟩ | ⟨h1, h2, -⟩
  · rw [h1, h2]; simp [bind, Except.bind, pure, Except.pure, bitFIN, bne]; exact dec_ne_zero _
  · rw [h1, h2]; rfl

theorem isRSV1_eq (b : Go.Bytes) : lift (Frame.IsRSV1 b) = WsFrame.IsRSV1 b.toList := by
  unfold Frame.IsRSV1 WsFrame.IsRSV1
  rcases idx_cases0 b with ⟨x, h1, h2, -⟩ | ⟨h1, h2, -⟩
  · rw [h1, h2]; simp [bind, Except.bind, pure, Except.pure, bitRSV1, bne]; exact dec_ne_zero _
  · rw [h1, h2]; rfl

theorem isRSV2_eq (b : Go.Bytes) : lift (Frame.IsRSV2 b) = WsFrame.IsRSV2 b.toList := by
  unfold Frame.IsRSV2 WsFrame.IsRSV2
  rcases idx_cases0 b with ⟨x, h1, h2, -⟩ | ⟨h1, h2, -⟩
  · rw [h1, h2]; simp [bind, Except.bind, pure, Except.pure, bitRSV2, bne]; exact dec_ne_zero _
  · rw [h1, h2]; rfl

theorem isRSV3_eq (b : Go.Bytes) : lift (Frame.IsRSV3 b) = WsFrame.IsRSV3 b.toList := by
  unfold Frame.IsRSV3 WsFrame.IsRSV3
  rcases idx_cases0 b with ⟨x, h1, h2, -⟩ | ⟨h1, h2, -⟩
  · rw [h1, h2]; simp [bind, Except.bind, pure, Except.pure, bitRSV3, bne]; exact dec_ne_zero _
  · rw [h1, h2]; rfl

theorem opcode_eq (b : Go.Bytes) : lift (Frame.Opcode b) = WsFrame.Opcode b.toList := by
  unfold Frame.Opcode WsFrame.Opcode
  rcases idx_cases0 b with ⟨x, h1, h2, -⟩ | ⟨h1, h2, -⟩
  · rw [h1, h2]; simp [bind, Except.bind, pure, Except.pure, bitmaskOpcode]
  · rw [h1, h2]; rfl

theorem isMasked_eq (b : Go.Bytes) : lift (Frame.IsMasked b) = WsFrame.IsMasked b.toList := by
  unfold Frame.IsMasked WsFrame.IsMasked
  rcases idx_cases1 b with ⟨x, h1, h2, -⟩ | ⟨h1, h2, -⟩
  · rw [h1, h2]; simp [bind, Except.bind, pure, Except.pure, bitIsMasked, bne]; exact dec_ne_zero _
  · rw [h1, h2]; rfl

/-- Two results that correspond stay corresponding under corresponding continuations. -/
theorem lift_bind {α β α' β' : Type} (r : Except Go.Panic α) (r' : M α') (k : α → Except Go.Panic β) (k' : α' → M β')
    (g : α' → α) (h : β' → β) (hr : lift r = g <$> r') (hk : ∀ a', lift (k (g a')) = h <$> k' a') :
    lift (r >>= k) = h <$> (r' >>= k') := by
  cases r' with
  | error e =>
    cases r with
    | error e0 => simp [lift, Functor.map, Except.map, bind, Except.bind] at hr ⊢; exact hr
    | ok a => simp [lift, Functor.map, Except.map] at hr
  | ok a' =>
    cases r with
    | error e0 => simp [lift, Functor.map, Except.map] at hr
    | ok a =>
      simp [lift, Functor.map, Except.map] at hr
      subst hr
      simpa [bind, Except.bind] using hk a'

theorem maskBytes_eq (b : Go.Bytes) : lift (Frame.MaskBytes b) = natM (WsFrame.MaskBytes b.toList) := by
  unfold Frame.MaskBytes WsFrame.MaskBytes natM
  refine lift_bind _ _ _ _ id _ (by simpa using isMasked_eq b) (fun m => ?_)
  cases m <;> rfl

theorem maskOffset_eq (b : Go.Bytes) : lift (Frame.maskOffset b) = natM (WsFrame.maskOffset b.toList) := by
  unfold Frame.maskOffset WsFrame.maskOffset natM
  unfold Frame.ExtendedPayloadLengthBytes WsFrame.ExtendedPayloadLengthBytes
  rcases idx_cases1 b with ⟨x, h1, h2, -⟩ | ⟨h1, h2, -⟩
  · rw [h1, h2]
    simp only [bind, Except.bind, pure, Except.pure, bitmaskPayloadLength, Functor.map, Except.map]
    by_cases h127 : (x &&& 127) = 127
    · simp [h127, frameHeaderLength, WsFrame.frameHeaderLength]; decide
    · by_cases h126 : (x &&& 127) = 126
      · simp [h126, frameHeaderLength, WsFrame.frameHeaderLength]; decide
      · simp [h127, h126, frameHeaderLength, WsFrame.frameHeaderLength]; decide
  · rw [h1, h2]; rfl

theorem payloadOffset_eq (b : Go.Bytes) : lift (Frame.payloadOffset b) = natM (WsFrame.payloadOffset b.toList) := by
  unfold Frame.payloadOffset WsFrame.payloadOffset Frame.MaskBytes WsFrame.MaskBytes Frame.IsMasked WsFrame.IsMasked
    Frame.ExtendedPayloadLengthBytes WsFrame.ExtendedPayloadLengthBytes natM
  rcases idx_cases1 b with ⟨x, h1, h2, -⟩ | ⟨h1, h2, -⟩
  · rw [h1, h2]
    simp only [bind, Except.bind, pure, Except.pure, bitmaskPayloadLength, bitIsMasked, Functor.map, Except.map]
    by_cases hm : (x &&& 128) = 0 <;> by_cases h127 : (x &&& 127) = 127
    · simp [hm, h127, frameHeaderLength, WsFrame.frameHeaderLength, frameMaskLength, WsFrame.frameMaskLength]; decide
    · by_cases h126 : (x &&& 127) = 126
      · simp [hm, h126, frameHeaderLength, WsFrame.frameHeaderLength, frameMaskLength, WsFrame.frameMaskLength]; decide
      · simp [hm, h127, h126, frameHeaderLength, WsFrame.frameHeaderLength, frameMaskLength, WsFrame.frameMaskLength]; decide
    · simp [hm, h127, frameHeaderLength, WsFrame.frameHeaderLength, frameMaskLength, WsFrame.frameMaskLength]; decide
    · by_cases h126 : (x &&& 127) = 126
      · simp [hm, h126, frameHeaderLength, WsFrame.frameHeaderLength, frameMaskLength, WsFrame.frameMaskLength]; decide
      · simp [hm, h127, h126, frameHeaderLength, WsFrame.frameHeaderLength, frameMaskLength, WsFrame.frameMaskLength]; decide
  · rw [h1, h2]; rfl

/-! ### Decoder side: `PayloadLength` -/

theorem u64_conv (n : Nat) : Go.u64ToInt (UInt64.ofNat n) = WsFrame.u64ToInt n := by
  unfold Go.u64ToInt WsFrame.u64ToInt; rw [UInt64.toBitVec_ofNat']

theorem beNat_eq (l : List UInt8) : Go.beNat l = WsFrame.beUint l := rfl

theorem beNat_lt (l : List UInt8) : Go.beNat l < 256 ^ l.length := by
  have := Sonic.Model.WsFrame.foldl_lt l 0
  simpa [Go.beNat] using this

theorem u16_conv (l : List UInt8) (h : l.length ≤ 2) : Int.ofNat (UInt16.ofNat (Go.beNat l)).toNat = (WsFrame.beUint l : Int) := by
  have h1 := beNat_lt l
  have h2 : 256 ^ l.length ≤ 256 ^ 2 := Nat.pow_le_pow_right (by decide) h
  rw [← beNat_eq]
  have : (UInt16.ofNat (Go.beNat l)).toNat = Go.beNat l := by
    rw [UInt16.toNat_ofNat']; omega
  rw [this]; rfl

/-- The bytes of a window `[lo, lo+k)` that lies inside `len`: the same through the slice and through the list. -/
theorem window (b : Go.Bytes) (lo k : Nat) (h : lo + k ≤ b.len) :
    ((b.toList.drop lo).take k) = (b.arr.drop lo).take k := by
  unfold Go.Bytes.toList
  rw [List.drop_take, List.take_take]
  congr 1; omega

/-- What the generated `PayloadLength` computes, spelled out. -/
theorem payloadLength_gen (b : Go.Bytes) (x : UInt8) (h1 : Go.Bytes.idx b (1 : Int) = .ok x) :
    Frame.PayloadLength b =
      if (x &&& 127) = 127 then
        (if 10 ≤ b.arr.length then .ok (WsFrame.u64ToInt (WsFrame.beUint ((b.arr.drop 2).take 8))) else .error .sliceBounds)
      else if (x &&& 127) = 126 then
        (if 4 ≤ b.arr.length then .ok (WsFrame.beUint ((b.arr.drop 2).take 2) : Int) else .error .sliceBounds)
      else .ok ((x &&& 127).toNat : Int) := by
  unfold Frame.PayloadLength
  rw [h1, show bitmaskPayloadLength = (127 : UInt8) from rfl, show frameHeaderLength = (2 : Int) from rfl]
  simp only [bind, Except.bind, pure, Except.pure]
  by_cases h127 : (x &&& 127) = 127
  · rw [if_pos h127, if_pos h127]
    by_cases hc : 10 ≤ b.arr.length
    · rw [if_pos hc]
      have hs : Go.Bytes.slice b (some 2) (some 10) = .ok ⟨b.arr.drop 2, 8⟩ := by
        unfold Go.Bytes.slice
        simp only [Option.getD_some]
        rw [if_pos ⟨by decide, by decide, by omega⟩]; rfl
      rw [hs]
      have hu : Go.Bytes.uint64BE ⟨b.arr.drop 2, 8⟩ = .ok (UInt64.ofNat (Go.beNat ((b.arr.drop 2).take 8))) := by
        unfold Go.Bytes.uint64BE
        rw [if_pos ⟨Nat.le_refl 8, by simp; omega⟩]; rfl
      simp only [hu, u64_conv, beNat_eq]
    · rw [if_neg hc]
      have hs : Go.Bytes.slice b (some 2) (some 10) = .error .sliceBounds := by
        unfold Go.Bytes.slice
        simp only [Option.getD_some]
        rw [if_neg (by omega)]; rfl
      rw [hs]
  · rw [if_neg h127, if_neg h127]
    by_cases h126 : (x &&& 127) = 126
    · rw [if_pos h126, if_pos h126]
      by_cases hc : 4 ≤ b.arr.length
      · rw [if_pos hc]
        have hs : Go.Bytes.slice b (some 2) (some 4) = .ok ⟨b.arr.drop 2, 2⟩ := by
          unfold Go.Bytes.slice
          simp only [Option.getD_some]
          rw [if_pos ⟨by decide, by decide, by omega⟩]; rfl
        rw [hs]
        have hu : Go.Bytes.uint16BE ⟨b.arr.drop 2, 2⟩ = .ok (UInt16.ofNat (Go.beNat ((b.arr.drop 2).take 2))) := by
          unfold Go.Bytes.uint16BE
          rw [if_pos ⟨Nat.le_refl 2, by simp; omega⟩]; rfl
        simp only [hu]
        rw [u16_conv _ (by simp; omega)]
      · rw [if_neg hc]
        have hs : Go.Bytes.slice b (some 2) (some 4) = .error .sliceBounds := by
          unfold Go.Bytes.slice
          simp only [Option.getD_some]
          rw [if_neg (by omega)]; rfl
        rw [hs]
    · rw [if_neg h126, if_neg h126]; rfl

theorem model_slice (l : List UInt8) (k : Nat) :
    WsFrame.slice l 2 (2 + k) = if 2 + k ≤ l.length then .ok ((l.drop 2).take k) else .error .sliceBounds := by
  unfold WsFrame.slice
  by_cases hc : 2 + k ≤ l.length
  · rw [if_pos hc, if_pos ⟨by omega, hc⟩]; simp [pure, Except.pure]
  · rw [if_neg hc, if_neg (fun hh => hc hh.2)]; rfl

/-- What the model's `PayloadLength` computes, spelled out. -/
theorem payloadLength_model (l : List UInt8) (x : UInt8) (h2 : WsFrame.idx l 1 = .ok x) :
    WsFrame.PayloadLength l =
      if (x &&& 127) = 127 then
        (if 10 ≤ l.length then .ok (WsFrame.u64ToInt (WsFrame.beUint ((l.drop 2).take 8))) else .error .sliceBounds)
      else if (x &&& 127) = 126 then
        (if 4 ≤ l.length then .ok (WsFrame.beUint ((l.drop 2).take 2) : Int) else .error .sliceBounds)
      else .ok ((x &&& 127).toNat : Int) := by
  unfold WsFrame.PayloadLength
  rw [h2, show WsFrame.frameHeaderLength = 2 from rfl, model_slice, model_slice]
  simp only [bind, Except.bind, pure, Except.pure]
  by_cases h127 : (x &&& 127) = 127
  · rw [if_pos h127, if_pos (by simpa using h127)]
    by_cases hc : 10 ≤ l.length
    · rw [if_pos hc, if_pos (by omega)]
    · rw [if_neg hc, if_neg (by omega)]
  · rw [if_neg h127, if_neg (by simpa using h127)]
    by_cases h126 : (x &&& 127) = 126
    · rw [if_pos h126, if_pos (by simpa using h126)]
      by_cases hc : 4 ≤ l.length
      · rw [if_pos hc, if_pos (by omega)]
      · rw [if_neg hc, if_neg (by omega)]
    · rw [if_neg h126, if_neg (by simpa using h126)]

/-- On a slice without spare capacity the generated `PayloadLength` is the model's, value or panic. -/
theorem payloadLength_eq (l : List UInt8) :
    lift (Frame.PayloadLength (Go.Bytes.ofList l)) = WsFrame.PayloadLength l := by
  rcases idx_cases1 (Go.Bytes.ofList l) with ⟨x, h1, h2, -⟩ | ⟨h1, h2, -⟩
  · rw [toList_ofList] at h2
    rw [payloadLength_gen _ x h1, payloadLength_model l x h2]
    rw [show (Go.Bytes.ofList l).arr = l from rfl]
    by_cases h127 : (x &&& 127) = 127
    · rw [if_pos h127, if_pos h127]
      by_cases hc : 10 ≤ l.length
      · rw [if_pos hc, if_pos hc]; rfl
      · rw [if_neg hc, if_neg hc]; rfl
    · rw [if_neg h127, if_neg h127]
      by_cases h126 : (x &&& 127) = 126
      · rw [if_pos h126, if_pos h126]
        by_cases hc : 4 ≤ l.length
        · rw [if_pos hc, if_pos hc]; rfl
        · rw [if_neg hc, if_neg hc]; rfl
      · rw [if_neg h126, if_neg h126]; rfl
  · rw [toList_ofList] at h2
    unfold Frame.PayloadLength WsFrame.PayloadLength
    rw [h1, h2]; rfl

/-- With spare capacity: whenever the model yields a length, the generated code yields the same. -/
theorem payloadLength_refines (b : Go.Bytes) (v : Int) (h : WsFrame.PayloadLength b.toList = .ok v) :
    Frame.PayloadLength b = .ok v := by
  rcases idx_cases1 b with ⟨x, h1, h2, -⟩ | ⟨h1, h2, -⟩
  · rw [payloadLength_model _ x h2] at h
    rw [payloadLength_gen _ x h1]
    have hl := toList_length b
    by_cases h127 : (x &&& 127) = 127
    · rw [if_pos h127] at h ⊢
      by_cases hc : 10 ≤ b.toList.length
      · rw [if_pos hc] at h
        rw [if_pos (by omega), ← window b 2 8 (by omega)]; cases h; rfl
      · rw [if_neg hc] at h; cases h
    · rw [if_neg h127] at h ⊢
      by_cases h126 : (x &&& 127) = 126
      · rw [if_pos h126] at h ⊢
        by_cases hc : 4 ≤ b.toList.length
        · rw [if_pos hc] at h
          rw [if_pos (by omega), ← window b 2 2 (by omega)]; cases h; rfl
        · rw [if_neg hc] at h; cases h
      · rw [if_neg h126] at h ⊢; cases h; rfl
  · unfold WsFrame.PayloadLength at h
    rw [h2] at h; cases h

/-- A 64-bit length with the top bit set is a negative `int`. -/
theorem u64ToInt_neg (n : Nat) (h1 : 2 ^ 63 ≤ n) (h2 : n < 2 ^ 64) : WsFrame.u64ToInt n < 0 := by
  unfold WsFrame.u64ToInt
  rw [BitVec.toInt_eq_toNat_cond]; simp only [BitVec.toNat_ofNat]
  have : n % 2 ^ 64 = n := Nat.mod_eq_of_lt h2
  rw [this]; split <;> omega

/-- … and below it, the `int` is the length itself. -/
theorem u64ToInt_id (n : Nat) (h1 : n < 2 ^ 63) : WsFrame.u64ToInt n = n := by
  unfold WsFrame.u64ToInt
  rw [BitVec.toInt_eq_toNat_cond]; simp only [BitVec.toNat_ofNat]
  have : n % 2 ^ 64 = n := Nat.mod_eq_of_lt (by omega)
  rw [this]; split <;> omega

/-! ### Opcode and close-code predicates -/

set_option maxRecDepth 100000 in
theorem isReserved_eq (c : UInt8) : Opcode.IsReserved c = WsStream.isReserved c.toNat := by
  have h : ∀ n : Nat, n < 256 → Opcode.IsReserved (UInt8.ofNat n) = WsStream.isReserved (UInt8.ofNat n).toNat := by decide
  simpa using h c.toNat c.toNat_lt

set_option maxRecDepth 100000 in
theorem isControl_eq (c : UInt8) : Opcode.IsControl c = WsStream.isControl c.toNat := by
  have h : ∀ n : Nat, n < 256 → Opcode.IsControl (UInt8.ofNat n) = WsStream.isControl (UInt8.ofNat n).toNat := by decide
  simpa using h c.toNat c.toNat_lt

theorem u16_eq (c : UInt16) (k : Nat) (hk : k < 65536) : (c = UInt16.ofNat k) ↔ c.toNat = k := by
  rw [← UInt16.toNat_inj, UInt16.toNat_ofNat']
  have : k % 2 ^ 16 = k := Nat.mod_eq_of_lt (by omega)
  rw [this]

theorem validCloseCode_eq (c : UInt16) : ValidCloseCode c = Sonic.Spec.WsStream.validCloseCode c.toNat := by
  unfold ValidCloseCode Sonic.Spec.WsStream.validCloseCode
  have e : ∀ k : Nat, k < 65536 → ((c = UInt16.ofNat k) ↔ c.toNat = k) := fun k hk => u16_eq c k hk
  have e0 := e 1000 (by decide); have e1 := e 1001 (by decide); have e2 := e 1002 (by decide); have e3 := e 1003 (by decide)
  have e7 := e 1007 (by decide); have e8 := e 1008 (by decide); have e9 := e 1009 (by decide); have e10 := e 1010 (by decide)
  have e11 := e 1011 (by decide); have e12 := e 1012 (by decide); have e13 := e 1013 (by decide)
  have g : (c ≥ (3000 : UInt16)) ↔ 3000 ≤ c.toNat := by
    show (3000 : UInt16) ≤ c ↔ _
    rw [UInt16.le_iff_toNat_le]; rfl
  have l : (c ≤ (4999 : UInt16)) ↔ c.toNat ≤ 4999 := by
    rw [UInt16.le_iff_toNat_le]; rfl
  simp only [CloseNormal, CloseGoingAway, CloseProtocolError, CloseUnknownData, CloseBadPayload, ClosePolicyError, CloseTooBig,
    CloseNeedsExtension, CloseInternalError, CloseServiceRestart, CloseTryAgainLater]
  change (if (((((((((((((c = UInt16.ofNat 1000) ∨ (c = UInt16.ofNat 1001)) ∨ (c = UInt16.ofNat 1002)) ∨ (c = UInt16.ofNat 1003)) ∨
      (c = UInt16.ofNat 1007)) ∨ (c = UInt16.ofNat 1008)) ∨ (c = UInt16.ofNat 1009)) ∨ (c = UInt16.ofNat 1010)) ∨
      (c = UInt16.ofNat 1011)) ∨ (c = UInt16.ofNat 1012)) ∨ (c = UInt16.ofNat 1013)) ∨ ((c ≥ (3000 : UInt16)) ∧ (c ≤ (4999 : UInt16))))) then true else false) = _
  simp only [e0, e1, e2, e3, e7, e8, e9, e10, e11, e12, e13, g, l]
  generalize c.toNat = n
  by_cases h0 : n = 1000 <;> by_cases h1 : n = 1001 <;> by_cases h2 : n = 1002 <;> by_cases h3 : n = 1003 <;>
    by_cases h7 : n = 1007 <;> by_cases h8 : n = 1008 <;> by_cases h9 : n = 1009 <;> by_cases h10 : n = 1010 <;>
    by_cases h11 : n = 1011 <;> by_cases h12 : n = 1012 <;> by_cases h13 : n = 1013 <;> first | omega | skip
  all_goals simp [*]

/-! ### Writer side: the pooled frame of `Model.WsEncode` is the same representation -/

open Sonic.Model.WsEncode (PFrame)

/-- A model frame as a slice value. -/
def toB (f : PFrame) : Go.Bytes := { arr := f.arr, len := f.len }

@[simp] theorem toB_toList (f : PFrame) : (toB f).toList = f.bytes := rfl

/-- `f[i] = g(f[i])`, as the generated code does it (read, then write) and as the model does it. -/
theorem modify_eq (f : PFrame) (i : Nat) (g : UInt8 → UInt8) :
    lift (Go.Bytes.idx (toB f) (i : Int) >>= fun x => Go.Bytes.set (toB f) (i : Int) (g x)) = toB <$> f.modify i g := by
  unfold Go.Bytes.idx Go.Bytes.set PFrame.modify toB
  by_cases h : i < f.len ∧ i < f.arr.length
  · have h' : (0 : Int) ≤ (i : Int) ∧ (i : Int).toNat < f.len ∧ (i : Int).toNat < f.arr.length := ⟨by omega, by simpa using h.1, by simpa using h.2⟩
    simp only [if_pos h', if_pos h]
    simp [bind, Except.bind, pure, Except.pure, Functor.map, Except.map]
  · have h' : ¬ ((0 : Int) ≤ (i : Int) ∧ (i : Int).toNat < f.len ∧ (i : Int).toNat < f.arr.length) := by
      intro hh; exact h ⟨by simpa using hh.2.1, by simpa using hh.2.2⟩
    simp only [if_neg h', if_neg h]
    rfl

theorem modify0_eq (f : PFrame) (g : UInt8 → UInt8) :
    lift (Go.Bytes.idx (toB f) (0 : Int) >>= fun x => Go.Bytes.set (toB f) (0 : Int) (g x)) = toB <$> f.modify 0 g :=
  modify_eq f 0 g

theorem modify1_eq (f : PFrame) (g : UInt8 → UInt8) :
    lift (Go.Bytes.idx (toB f) (1 : Int) >>= fun x => Go.Bytes.set (toB f) (1 : Int) (g x)) = toB <$> f.modify 1 g :=
  modify_eq f 1 g

theorem bind_pure_self {α : Type} (r : Except Go.Panic α) : (r >>= fun a => pure a) = r := by
  cases r <;> rfl

theorem setFIN_eq (f : PFrame) : lift (Frame.SetFIN (toB f)) = toB <$> f.SetFIN := by
  have h := modify0_eq f (· ||| 0x80)
  unfold Frame.SetFIN PFrame.SetFIN
  simpa [bitFIN, bind_assoc, bind_pure_self] using h

theorem setRSV1_eq (f : PFrame) : lift (Frame.SetRSV1 (toB f)) = toB <$> f.SetRSV1 := by
  have h := modify0_eq f (· ||| 0x40)
  unfold Frame.SetRSV1 PFrame.SetRSV1
  simpa [bitRSV1, bind_assoc, bind_pure_self] using h

theorem setRSV2_eq (f : PFrame) : lift (Frame.SetRSV2 (toB f)) = toB <$> f.SetRSV2 := by
  have h := modify0_eq f (· ||| 0x20)
  unfold Frame.SetRSV2 PFrame.SetRSV2
  simpa [bitRSV2, bind_assoc, bind_pure_self] using h

theorem setRSV3_eq (f : PFrame) : lift (Frame.SetRSV3 (toB f)) = toB <$> f.SetRSV3 := by
  have h := modify0_eq f (· ||| 0x10)
  unfold Frame.SetRSV3 PFrame.SetRSV3
  simpa [bitRSV3, bind_assoc, bind_pure_self] using h

theorem setIsMasked_eq (f : PFrame) : lift (Frame.SetIsMasked (toB f)) = toB <$> f.SetIsMasked := by
  have h := modify1_eq f (· ||| 0x80)
  unfold Frame.SetIsMasked PFrame.SetIsMasked
  simpa [bitIsMasked, bind_assoc, bind_pure_self] using h

/-- `lift_bind` where the continuation may use that the first step succeeded. -/
theorem lift_bind' {α β α' β' : Type} (r : Except Go.Panic α) (r' : M α') (k : α → Except Go.Panic β) (k' : α' → M β')
    (g : α' → α) (h : β' → β) (hr : lift r = g <$> r') (hk : ∀ a', r' = .ok a' → lift (k (g a')) = h <$> k' a') :
    lift (r >>= k) = h <$> (r' >>= k') := by
  cases r' with
  | error e =>
    cases r with
    | error e0 => simp [lift, Functor.map, Except.map, bind, Except.bind] at hr ⊢; exact hr
    | ok a => simp [lift, Functor.map, Except.map] at hr
  | ok a' =>
    cases r with
    | error e0 => simp [lift, Functor.map, Except.map] at hr
    | ok a =>
      simp [lift, Functor.map, Except.map] at hr
      subst hr
      simpa [bind, Except.bind] using hk a' rfl

theorem modify_ok {f f2 : PFrame} {i : Nat} {g : UInt8 → UInt8} (h : f.modify i g = .ok f2) :
    f2.len = f.len ∧ f2.arr.length = f.arr.length ∧ i < f.len := by
  unfold PFrame.modify at h
  by_cases hc : i < f.len ∧ i < f.arr.length
  · rw [if_pos hc] at h
    cases h
    exact ⟨rfl, by simp, hc.1⟩
  · rw [if_neg hc] at h; cases h

theorem clearOpcode_eq (f : PFrame) : lift (Frame.clearOpcode (toB f)) = toB <$> f.modify 0 (· &&& 0xf0) := by
  have h := modify0_eq f (· &&& 0xf0)
  unfold Frame.clearOpcode
  simpa [bind_assoc, bind_pure_self] using h

theorem setOpcode_eq (f : PFrame) (c : UInt8) : lift (Frame.SetOpcode (toB f) c) = toB <$> f.SetOpcode c := by
  unfold Frame.SetOpcode PFrame.SetOpcode
  refine lift_bind _ _ _ _ toB toB (clearOpcode_eq f) (fun f2 => ?_)
  have h := modify0_eq f2 (· ||| (c &&& 0x0f))
  simpa [bind_assoc, bind_pure_self] using h

/-! ### `util.ExtendSlice` and `setPayloadLength` -/

theorem beBytes_eq : ∀ (k n : Nat), Go.beBytes k n = Sonic.Spec.WsFrame.beBytes k n
  | 0, _ => rfl
  | k + 1, n => by unfold Go.beBytes Sonic.Spec.WsFrame.beBytes; rw [beBytes_eq k n]

theorem beBytes_length : ∀ (k n : Nat), (Go.beBytes k n).length = k
  | 0, _ => rfl
  | k + 1, n => by unfold Go.beBytes; simp [beBytes_length k n]

/-- `ExtendSlice(f, need)` re-slices to the capacity, appends zeros if that is not enough, and cuts to `need`: the
model's `extend` (a slice holds fewer than 2^63 elements). -/
theorem extendSlice_eq (f : PFrame) (need : Nat) (hc : (f.arr.length : Int) ≤ Go.I64MAX) (hn : (need : Int) ≤ Go.I64MAX) :
    ExtendSlice (toB f) need = .ok (toB (f.extend need)) := by
  unfold ExtendSlice
  have hs : Go.Bytes.slice (toB f) none (some (Go.Bytes.cap (toB f))) = .ok ⟨f.arr, f.arr.length⟩ := by
    unfold Go.Bytes.slice Go.Bytes.cap toB
    simp only [Option.getD_some, Option.getD_none]
    rw [if_pos ⟨by omega, by omega, by omega⟩]
    simp [pure, Except.pure]
  rw [hs]
  simp only [bind, Except.bind, pure, Except.pure]
  have hcap : Go.Bytes.cap ⟨f.arr, f.arr.length⟩ = (f.arr.length : Int) := rfl
  rw [hcap]
  have hsub : Go.sub (need : Int) (f.arr.length : Int) = (need : Int) - f.arr.length := by
    apply Go.sub_id; unfold Go.InI64 Go.I64MIN Go.I64MAX; unfold Go.I64MAX at hc hn; omega
  rw [hsub]
  unfold PFrame.extend toB
  by_cases hgt : need > f.arr.length
  · rw [if_pos (by omega), if_pos hgt]
    have ha : Go.Bytes.appendZeros ⟨f.arr, f.arr.length⟩ ((need : Int) - f.arr.length) =
        .ok ⟨f.arr ++ List.replicate (need - f.arr.length) 0, need⟩ := by
      unfold Go.Bytes.appendZeros
      rw [if_neg (by omega)]
      have : ((need : Int) - (f.arr.length : Int)).toNat = need - f.arr.length := by omega
      simp only [this, pure, Except.pure]
      congr 2
      · simp
      · omega
    rw [ha]
    simp only []
    unfold Go.Bytes.slice
    simp only [Option.getD_some, Option.getD_none]
    rw [if_pos ⟨by omega, by omega, by simp; omega⟩]
    simp [pure, Except.pure]
  · rw [if_neg (by omega), if_neg hgt]
    unfold Go.Bytes.slice
    simp only [Option.getD_some, Option.getD_none]
    rw [if_pos ⟨by omega, by omega, by omega⟩]
    simp [pure, Except.pure]

/-- `binary.BigEndian.PutUint<8k>(f[2:], v)` on a frame of at least two bytes. -/
theorem putBE_eq (f : PFrame) (k v : Nat) (h2 : 2 ≤ f.len) :
    lift (Go.Bytes.putBEAt (toB f) (2 : Int) k v) = toB <$> f.putBE k v := by
  unfold Go.Bytes.putBEAt PFrame.putBE PFrame.copyAt toB
  have e2 : (2 : Int).toNat = 2 := rfl
  simp only [e2]
  have hmin : k ≤ f.len - 2 → min (f.len - 2) (Sonic.Spec.WsFrame.beBytes k v).length = k := by
    intro hk; rw [← beBytes_eq, beBytes_length]; omega
  have htake : List.take k (Sonic.Spec.WsFrame.beBytes k v) = Sonic.Spec.WsFrame.beBytes k v := by
    apply List.take_of_length_le; rw [← beBytes_eq, beBytes_length]; exact Nat.le_refl _
  have c1 : ((0 : Int) ≤ 2 ∧ (2 : Int) ≤ (f.len : Int)) := ⟨by decide, by omega⟩
  by_cases hk : k ≤ f.len - 2 <;> by_cases hl : f.len ≤ f.arr.length
  · have c2 : ¬ (f.len - 2 < k) := by omega
    simp only [c1, c2, hk, hl, h2, not_true, not_false_eq_true, if_true, if_false, and_self, hmin hk, htake, beBytes_eq]
    rfl
  · have c2 : ¬ (f.len - 2 < k) := by omega
    simp only [c1, c2, hk, hl, h2, not_true, not_false_eq_true, if_true, if_false, and_self, and_false, and_true]
    rfl
  · have c2 : (f.len - 2 < k) := by omega
    simp only [c1, c2, hk, hl, h2, not_true, not_false_eq_true, if_true, if_false, and_self, and_false, and_true]
    rfl
  · have c2 : (f.len - 2 < k) := by omega
    simp only [c1, c2, hk, hl, h2, not_true, not_false_eq_true, if_true, if_false, and_self, and_false, and_true]
    rfl

theorem u64_ofInt (n : Nat) : (UInt64.ofInt (n : Int)).toNat = n % 2 ^ 64 := by
  unfold UInt64.ofInt; rw [UInt64.toNat_ofNat']; omega

theorem u16_ofInt (n : Nat) (h : n ≤ 65535) : (UInt16.ofInt (n : Int)).toNat = n := by
  unfold UInt16.ofInt; rw [UInt16.toNat_ofNat']; omega

theorem u8_ofInt (n : Nat) : UInt8.ofInt (n : Int) = UInt8.ofNat n := by
  rw [← UInt8.toNat_inj]; unfold UInt8.ofInt; rw [UInt8.toNat_ofNat', UInt8.toNat_ofNat']; omega

/-- **`setPayloadLength`**: the generated function is the model's, for every pooled frame (whatever an earlier use left
in it, however short it was cut) and every length a Go slice can have. -/
theorem setPayloadLength_eq (f : PFrame) (n : Nat) (hc : (f.arr.length : Int) ≤ Go.I64MAX) :
    lift (Frame.setPayloadLength (toB f) n) = toB <$> f.setPayloadLength n := by
  have rest : ∀ f1 : PFrame,
      lift (do
        let t ← Go.Bytes.idx (toB f1) (1 : Int)
        let f ← Go.Bytes.set (toB f1) (1 : Int) (t &&& (128 : UInt8))
        if ((n : Int) > (65535 : Int)) then
          let t ← Go.Bytes.idx f (1 : Int)
          let f ← Go.Bytes.set f (1 : Int) (t ||| (127 : UInt8))
          let f ← Go.Bytes.putBEAt f (2 : Int) 8 (UInt64.ofInt n).toNat
          pure f
        else
          if ((n : Int) > (125 : Int)) then
            let t ← Go.Bytes.idx f (1 : Int)
            let f ← Go.Bytes.set f (1 : Int) (t ||| (126 : UInt8))
            let f ← Go.Bytes.putBEAt f (2 : Int) 2 (UInt16.ofInt n).toNat
            pure f
          else
            let t ← Go.Bytes.idx f (1 : Int)
            let f ← Go.Bytes.set f (1 : Int) (t ||| (UInt8.ofInt n))
            pure f) =
      toB <$> (do
        let f ← f1.modify 1 (· &&& 0x80)
        if n > 65535 then
          let f ← f.modify 1 (· ||| 127)
          f.putBE 8 (n % 2 ^ 64)
        else if n > 125 then
          let f ← f.modify 1 (· ||| 126)
          f.putBE 2 n
        else f.modify 1 (· ||| UInt8.ofNat n)) := by
    intro f1
    rw [← bind_assoc]
    refine lift_bind' _ _ _ _ toB toB (modify1_eq f1 _) (fun f2 hf2 => ?_)
    by_cases h1 : n > 65535
    · rw [if_pos (by omega), if_pos h1, ← bind_assoc]
      refine lift_bind' _ _ _ _ toB toB (modify1_eq f2 _) (fun f3 hf3 => ?_)
      have := modify_ok hf3
      rw [u64_ofInt]
      exact putBE_eq f3 8 _ (by omega)
    · rw [if_neg (by omega), if_neg h1]
      by_cases h2 : n > 125
      · rw [if_pos (by omega), if_pos h2, ← bind_assoc]
        refine lift_bind' _ _ _ _ toB toB (modify1_eq f2 _) (fun f3 hf3 => ?_)
        have := modify_ok hf3
        rw [u16_ofInt n (by omega)]
        exact putBE_eq f3 2 _ (by omega)
      · rw [if_neg (by omega), if_neg h2, u8_ofInt]
        have h := modify1_eq f2 (· ||| UInt8.ofNat n)
        simpa [bind_assoc, bind_pure_self] using h
  unfold Frame.setPayloadLength PFrame.setPayloadLength
  have hlenB : Go.Bytes.length (toB f) = (f.len : Int) := rfl
  rw [hlenB, show frameMaxHeaderLength = (14 : Int) from rfl, show WsFrame.frameMaxHeaderLength = 14 from rfl]
  by_cases hlen : f.len < 14
  · have hE : ExtendSlice (toB f) (14 : Int) = .ok (toB (f.extend 14)) := extendSlice_eq f 14 hc (by unfold Go.I64MAX; omega)
    rw [if_pos (by omega), hE]
    simp only [if_pos hlen]
    exact rest (f.extend 14)
  · rw [if_neg (by omega)]
    simp only [if_neg hlen]
    exact rest f

end Sonic.Lemmas.WsFrameTie
