/-
C12, membership layer: the per-socket multicast source filters of the kernel model (`Model.Datagram.kMemb`,
`kAllow`: Linux `ip_mc_source` with its mode switch and error numbers, `ip_mc_sf_allow`) refine the abstract
RFC 3376 style filters of the monitor (`Spec.Datagram.mstep`, `passes`), for every membership call.
-/
import Sonic.Model.Datagram

set_option linter.unusedSimpArgs false
set_option linter.unnecessarySimpa false

namespace Sonic.Lemmas.Datagram
open Sonic.Spec.Datagram Sonic.Model.Datagram

theorem upd_same {α : Type} (f : Nat → α) (i : Nat) (v : α) : upd f i v i = v := by simp [upd]
theorem upd_other {α : Type} (f : Nat → α) {i j : Nat} (v : α) (h : j ≠ i) : upd f i v j = f j := by simp [upd, h]

/-- What the abstract filter of a kernel entry is. -/
def absF (f : KFilt) : Filter := if f.incl && f.hasList then .include f.srcs else .exclude f.srcs

/-- The state a failing `IP_DROP_SOURCE_MEMBERSHIP` leaves an any-source membership in: include mode, no list. -/
def quirk (f : KFilt) : Bool := f.incl && !f.hasList

structure MembR (k : KMembs) (a : Memb) : Prop where
  filt : ∀ g, a.filt g = (k g).map absF
  unsure : ∀ g f, k g = some f → quirk f = true → a.unsure g = true
  nolist : ∀ g f, k g = some f → f.hasList = false → f.srcs = []

theorem MembR.init : MembR (fun _ => none) Memb.empty :=
  ⟨fun _ => rfl, fun _ _ h => by simp at h, fun _ _ h => by simp at h⟩

/-- A failed call that leaves the kernel state alone. -/
theorem MembR.fail {k : KMembs} {a : Memb} (h : MembR k a) (op : MOp) : MembR k (mstep a op false) := by
  refine ⟨fun g => ?_, fun g f hk hq => ?_, h.nolist⟩
  · simp [mstep, h.filt g]
  · simp only [mstep, Bool.false_eq_true, if_false]
    by_cases hg : g = op.group
    · subst hg; simp [upd]
    · simp [upd, hg, h.unsure g f hk hq]

/-- Replacing the entry of one group: the relation is re-established from facts about that group only. -/
theorem MembR.set {k : KMembs} {a : Memb} (h : MembR k a) (g : Ip) (e : Option KFilt) (fa : Option Filter) (u : Bool)
    (hf : fa = e.map absF) (hu : ∀ f, e = some f → quirk f = true → u = true)
    (hn : ∀ f, e = some f → f.hasList = false → f.srcs = []) :
    MembR (upd k g e) { filt := upd a.filt g fa, unsure := upd a.unsure g u } := by
  refine ⟨fun g' => ?_, fun g' f hk hq => ?_, fun g' f hk hl => ?_⟩
  · by_cases hg : g' = g
    · subst hg; simp [upd, hf]
    · simp [upd, hg, h.filt g']
  · by_cases hg : g' = g
    · subst hg; simp only [upd, if_true] at hk ⊢; exact hu f hk hq
    · simp only [upd, hg, if_false] at hk ⊢; exact h.unsure g' f hk hq
  · by_cases hg : g' = g
    · subst hg; simp only [upd, if_true] at hk; exact hn f hk hl
    · simp only [upd, hg, if_false] at hk; exact h.nolist g' f hk hl

theorem upd_self {α : Type} (f : Nat → α) (i : Nat) : upd f i (f i) = f := by
  funext j; by_cases h : j = i <;> simp [upd, h]

/-- A failed call after which the kernel entry of `g` is `e` with the same abstract filter. -/
theorem MembR.failSet {k : KMembs} {a : Memb} (h : MembR k a) (op : MOp) (e : Option KFilt)
    (hf : a.filt op.group = e.map absF) (hn : ∀ f, e = some f → f.hasList = false → f.srcs = []) :
    MembR (upd k op.group e) (mstep a op false) := by
  have := h.set op.group e (a.filt op.group) true hf (fun _ _ _ => rfl) hn
  rw [upd_self] at this
  simpa [mstep] using this

theorem refines_join {k : KMembs} {a : Memb} (h : MembR k a) (g : Ip) :
    MembR (kMemb k (.join g)).1 (mstep a (.join g) ((kMemb k (.join g)).2 == .nil)) := by
  simp only [kMemb, joinGroup]
  cases hk : k g with
  | some f => exact h.fail _
  | none =>
    exact h.set g (some ⟨false, [], false⟩) (some (.exclude [])) false (by simp [absF]) (by simp [quirk]) (by simp)


theorem refines_leave {k : KMembs} {a : Memb} (h : MembR k a) (g : Ip) :
    MembR (kMemb k (.leave g)).1 (mstep a (.leave g) ((kMemb k (.leave g)).2 == .nil)) := by
  simp only [kMemb, leaveGroup]
  cases hk : k g with
  | none => exact h.fail _
  | some f => exact h.set g none none false rfl (by simp) (by simp)

theorem filt_of {k : KMembs} {a : Memb} (h : MembR k a) {g : Ip} {f : KFilt} (hk : k g = some f) :
    a.filt g = some (absF f) := by rw [h.filt g, hk]; rfl

theorem beq_nil_nil : (Errc.nil == Errc.nil) = true := by decide
theorem beq_ana_nil : (Errc.addrnotavail == Errc.nil) = false := by decide
theorem beq_inval_nil : (Errc.inval == Errc.nil) = false := by decide

theorem MembR.failSet' {k : KMembs} {a : Memb} (h : MembR k a) (op : MOp) (g : Ip) (hg : op.group = g) (e : Option KFilt)
    (hf : a.filt g = e.map absF) (hn : ∀ f, e = some f → f.hasList = false → f.srcs = []) :
    MembR (upd k g e) (mstep a op false) := by
  subst hg; exact h.failSet op e hf hn

theorem MembR.okSet {k : KMembs} {a : Memb} (h : MembR k a) (op : MOp) (g : Ip) (hg : op.group = g) (e : Option KFilt)
    (fa : Option Filter) (hap : applyOp a.filt op = upd a.filt g fa) (hf : fa = e.map absF)
    (hu : ∀ f, e = some f → quirk f = false) (hn : ∀ f, e = some f → f.hasList = false → f.srcs = []) :
    MembR (upd k g e) (mstep a op true) := by
  subst hg
  have := h.set op.group e fa false hf (fun f hf hq => by simp [hu f hf] at hq) hn
  simpa [mstep, hap] using this

theorem refines_block {k : KMembs} {a : Memb} (h : MembR k a) (g s : Ip) :
    MembR (kMemb k (.block g s)).1 (mstep a (.block g s) ((kMemb k (.block g s)).2 == .nil)) := by
  simp only [kMemb, mcSource]
  cases hk : k g with
  | none => exact h.fail _
  | some f =>
    have hfg := filt_of h hk
    have hnl := h.nolist g f hk
    rcases f with ⟨incl, srcs, hasList⟩
    cases incl <;> cases hasList <;> simp only [Bool.and_true, Bool.and_false, Bool.true_and, Bool.false_and, bne_self_eq_false,
      Bool.false_eq_true, if_false, if_true, Bool.not_true, Bool.not_false, Bool.or_false, Bool.or_true, bne_iff_ne, ne_eq] <;>
      by_cases hc : srcs.contains s = true <;>
      simp only [hc, if_true, if_false, beq_nil_nil, beq_ana_nil, beq_inval_nil, not_true_eq_false, not_false_eq_true, Bool.false_eq_true]
    all_goals first
      | exact h.fail _
      | (refine h.failSet' (.block g s) g rfl _ ?_ ?_
         · simpa [absF] using hfg
         · intro f hf; cases hf; simpa using hnl)
      | (refine h.okSet (.block g s) g rfl _ (some (.exclude (s :: srcs))) ?_ ?_ ?_ ?_
         · simp [applyOp, hfg, absF]
         · simp [absF]
         · intro f hf; cases hf; simp [quirk]
         · intro f hf; cases hf; simp)

theorem refines_unblock {k : KMembs} {a : Memb} (h : MembR k a) (g s : Ip) :
    MembR (kMemb k (.unblock g s)).1 (mstep a (.unblock g s) ((kMemb k (.unblock g s)).2 == .nil)) := by
  simp only [kMemb, mcSource]
  cases hk : k g with
  | none => exact h.fail _
  | some f =>
    have hfg := filt_of h hk
    have hnl := h.nolist g f hk
    rcases f with ⟨incl, srcs, hasList⟩
    cases incl <;> cases hasList <;> simp only [Bool.and_true, Bool.and_false, Bool.true_and, Bool.false_and, bne_self_eq_false,
      Bool.false_eq_true, if_false, if_true, Bool.not_true, Bool.not_false, Bool.or_false, Bool.or_true, bne_iff_ne, ne_eq,
      Bool.false_or, Bool.true_or] <;>
      by_cases hc : srcs.contains s = true <;>
      simp only [hc, if_true, if_false, beq_nil_nil, beq_ana_nil, beq_inval_nil, not_true_eq_false, not_false_eq_true, Bool.false_eq_true,
        Bool.not_true, Bool.not_false]
    all_goals first
      | exact h.fail _
      | (refine h.failSet' (.unblock g s) g rfl _ ?_ ?_
         · simpa [absF] using hfg
         · intro f hf; cases hf; simpa using hnl)
      | (refine h.okSet (.unblock g s) g rfl _ (some (.exclude (srcs.erase s))) ?_ ?_ ?_ ?_
         · simp [applyOp, hfg, absF]
         · simp [absF]
         · intro f hf; cases hf; simp [quirk]
         · intro f hf; cases hf; simp)

theorem erase_nil_of_len_one {l : List Ip} {s : Ip} (hm : l.contains s = true) (hl : l.length = 1) : l.erase s = [] := by
  have hm' : s ∈ l := by simpa using hm
  have := List.length_erase_of_mem hm'
  rw [hl] at this
  exact List.eq_nil_of_length_eq_zero (by simpa using this)

theorem erase_ne_nil_of_len_ne_one {l : List Ip} {s : Ip} (hm : l.contains s = true) (hl : l.length ≠ 1) : l.erase s ≠ [] := by
  have hm' : s ∈ l := by simpa using hm
  have h1 := List.length_erase_of_mem hm'
  have h2 : 0 < l.length := List.length_pos_of_mem hm'
  intro h0
  rw [h0] at h1
  simp at h1
  omega

theorem refines_leaveSrc {k : KMembs} {a : Memb} (h : MembR k a) (g s : Ip) :
    MembR (kMemb k (.leaveSrc g s)).1 (mstep a (.leaveSrc g s) ((kMemb k (.leaveSrc g s)).2 == .nil)) := by
  simp only [kMemb, mcSource, leaveGroup]
  cases hk : k g with
  | none => exact h.fail _
  | some f =>
    have hfg := filt_of h hk
    have hnl := h.nolist g f hk
    rcases f with ⟨incl, srcs, hasList⟩
    cases incl <;> cases hasList <;> simp only [Bool.and_true, Bool.and_false, Bool.true_and, Bool.false_and, bne_self_eq_false,
      Bool.false_eq_true, if_false, if_true, Bool.not_true, Bool.not_false, Bool.or_false, Bool.or_true, bne_iff_ne, ne_eq,
      Bool.false_or, Bool.true_or] <;>
      by_cases hc : srcs.contains s = true <;> by_cases hl : srcs.length = 1 <;>
      simp only [hc, hl, if_true, if_false, beq_nil_nil, beq_ana_nil, beq_inval_nil, not_true_eq_false, not_false_eq_true, Bool.false_eq_true,
        Bool.not_true, Bool.not_false, beq_self_eq_true, beq_iff_eq]
    all_goals first
      | exact h.fail _
      | (refine h.failSet' (.leaveSrc g s) g rfl _ ?_ ?_
         · simpa [absF] using hfg
         · intro f hf; cases hf; simpa using hnl)
      | (refine h.okSet (.leaveSrc g s) g rfl none none ?_ rfl ?_ ?_
         · simp [applyOp, hfg, absF, erase_nil_of_len_one hc hl]
         · intro f hf; cases hf
         · intro f hf; cases hf)
      | (refine h.okSet (.leaveSrc g s) g rfl _ (some (.include (srcs.erase s))) ?_ ?_ ?_ ?_
         · simp [applyOp, hfg, absF, erase_ne_nil_of_len_ne_one hc hl]
         · simp [absF]
         · intro f hf; cases hf; simp [quirk]
         · intro f hf; cases hf; simp)

theorem upd_upd {α : Type} (f : Nat → α) (i : Nat) (v w : α) : upd (upd f i v) i w = upd f i w := by
  funext j; by_cases h : j = i <;> simp [upd, h]

theorem refines_joinSrc {k : KMembs} {a : Memb} (h : MembR k a) (g s : Ip) :
    MembR (kMemb k (.joinSrc g s)).1 (mstep a (.joinSrc g s) ((kMemb k (.joinSrc g s)).2 == .nil)) := by
  simp only [kMemb, joinGroup]
  cases hk : k g with
  | none =>
    have hfg : a.filt g = none := by rw [h.filt g, hk]; rfl
    simp only [mcSource, upd_same, Bool.false_and, Bool.false_eq_true, if_false, Bool.not_true, List.contains_nil, upd_upd, beq_nil_nil]
    refine h.okSet (.joinSrc g s) g rfl _ (some (.include [s])) ?_ ?_ ?_ ?_
    · simp [applyOp, hfg]
    · simp [absF]
    · intro f hf; cases hf; simp [quirk]
    · intro f hf; cases hf; simp
  | some f =>
    simp only [mcSource, hk]
    have hfg := filt_of h hk
    have hnl := h.nolist g f hk
    rcases f with ⟨incl, srcs, hasList⟩
    cases incl <;> cases hasList <;> simp only [Bool.and_true, Bool.and_false, Bool.true_and, Bool.false_and, bne_self_eq_false,
      Bool.false_eq_true, if_false, if_true, Bool.not_true, Bool.not_false, Bool.or_false, Bool.or_true, bne_iff_ne, ne_eq,
      Bool.false_or, Bool.true_or] <;>
      by_cases hc : srcs.contains s = true <;>
      simp only [hc, if_true, if_false, beq_nil_nil, beq_ana_nil, beq_inval_nil, not_true_eq_false, not_false_eq_true, Bool.false_eq_true,
        Bool.not_true, Bool.not_false]
    all_goals first
      | exact h.fail _
      | (refine h.failSet' (.joinSrc g s) g rfl _ ?_ ?_
         · simpa [absF] using hfg
         · intro f hf; cases hf; simpa using hnl)
      | (have hs : srcs = [] := by simpa using hnl
         subst hs
         refine h.okSet (.joinSrc g s) g rfl _ (some (.include [s])) ?_ ?_ ?_ ?_
         · simp [applyOp, hfg, absF]
         · simp [absF]
         · intro f hf; cases hf; simp [quirk]
         · intro f hf; cases hf; simp)
      | (refine h.okSet (.joinSrc g s) g rfl _ (some (.include (s :: srcs))) ?_ ?_ ?_ ?_
         · simp [applyOp, hfg, absF]
         · simp [absF]
         · intro f hf; cases hf; simp [quirk]
         · intro f hf; cases hf; simp)


/-- Every well-formed membership call: the kernel's new filter state is the abstract one after `mstep`, fed with
whether the call succeeded. -/
theorem kMemb_refines {k : KMembs} {a : Memb} (h : MembR k a) (op : MOp) :
    MembR (kMemb k op).1 (mstep a op ((kMemb k op).2 == .nil)) := by
  cases op with
  | join g => exact refines_join h g
  | joinSrc g s => exact refines_joinSrc h g s
  | leave g => exact refines_leave h g
  | leaveSrc g s => exact refines_leaveSrc h g s
  | block g s => exact refines_block h g s
  | unblock g s => exact refines_unblock h g s

/-- Safety: whatever the kernel's filter lets through, the abstract filter lets through (group joined and not
left, source not blocked / source joined). -/
theorem kAllow_sound {k : KMembs} {a : Memb} (h : MembR k a) (g src : Ip) (hk : kAllow k g src = true) :
    passes a g src = true := by
  unfold kAllow at hk
  unfold passes
  cases hg : k g with
  | none => simp [hg] at hk
  | some f =>
    rw [filt_of h hg]
    rw [hg] at hk
    have hn := h.nolist g f hg
    rcases f with ⟨incl, srcs, hasList⟩
    cases incl <;> cases hasList <;> simp_all [absF]

/-- Completeness, when the last membership call for the group did not fail. -/
theorem kAllow_complete {k : KMembs} {a : Memb} (h : MembR k a) (g src : Ip) (hs : a.unsure g = false) :
    kAllow k g src = passes a g src := by
  unfold kAllow passes
  cases hg : k g with
  | none => simp [h.filt g, hg]
  | some f =>
    rw [filt_of h hg]
    have hq := h.unsure g f hg
    have hn := h.nolist g f hg
    rcases f with ⟨incl, srcs, hasList⟩
    cases incl <;> cases hasList <;> simp_all [absF, quirk]

end Sonic.Lemmas.Datagram
