/-
The reference count of every operation evolves as it should under every transition of the loop model:
it grows only at the call that starts the operation (and when a repeating timer is re-armed after its callback),
and every callback entry consumes one reference.
-/
import Sonic.Lemmas.LoopOnce

namespace Sonic.Model.Loop
open Sonic.Spec.Loop (Ev Ret Res OpKind ObjKind maxDispatch)

/-- 1 if the event enters the callback of `x`. -/
def entersOf (x : Nat) : Ev → Int
  | .enter op _ _ _ _ => if op = x then 1 else 0
  | _ => 0

/-- 1 if the event is the call that starts operation `x`. -/
def startsOf (x : Nat) : Ev → Int
  | .callStart op _ _ _ => if op = x then 1 else 0
  | .callSched op _ _ _ => if op = x then 1 else 0
  | .callPost op => if op = x then 1 else 0
  | _ => 0

/-- 1 if the event is the return of the callback of the repeating timer operation `x` (which may re-arm it). -/
def rearmsOf (x : Nat) (w : World) : Ev → Int
  | .exit op => match w.stack with
    | .user op' (.timerDone _ true _) :: _ => if op = x ∧ op' = x then 1 else 0
    | _ => 0
  | _ => 0

theorem objRef_clear_le (x : Nat) (o o' : Obj) (hR : o'.evR = false ∨ (o'.evR = o.evR ∧ o'.hR = o.hR))
    (hW : o'.evW = false ∨ (o'.evW = o.evW ∧ o'.hW = o.hW)) : objRef x o' ≤ objRef x o := by
  unfold objRef
  rcases hR with h1 | ⟨h1, h1'⟩ <;> rcases hW with h2 | ⟨h2, h2'⟩ <;> simp only [h1, h2, *] <;> repeat' split
  all_goals first | omega | (simp_all <;> omega)

theorem setObj_refs_le (x : Nat) (w : World) (o o' : Obj) (hn : (ids w.objs).Nodup) (hg : getObj w o.id = some o)
    (hid : o'.id = o.id) (h : objRef x o' ≤ objRef x o) : objRefs x (setObj w o').objs ≤ objRefs x w.objs := by
  rw [setObj_refs x w o o' hn hg hid]; omega

theorem applyAfter_refs (x : Nat) (w : World) (op : Nat) (a : After) (hn : (ids w.objs).Nodup) :
    objRefs x (applyAfter w op a).objs ≤ objRefs x w.objs +
      (match a with | .timerDone _ true _ => if op = x then 1 else 0 | _ => 0) ∧
    (applyAfter w op a).posts = w.posts ∧ (applyAfter w op a).stack = w.stack := by
  cases a with
  | none => simp [applyAfter]
  | decDisp => simp [applyAfter]
  | postDone => simp [applyAfter]
  | timerDone k rep cb =>
    simp only [applyAfter]
    cases hg : getObj w k with
    | none => simp only; refine ⟨?_, by simp, by simp⟩; split <;> (try split) <;> omega
    | some o =>
      have hg' : getObj w o.id = some o := by rw [getObj_id hg]; exact hg
      simp only
      cases rep with
      | false => simp
      | true =>
        simp only [Bool.not_true, Bool.false_or]
        repeat' split
        all_goals first
          | exact ⟨by omega, by simp, by simp⟩
          | (refine ⟨?_, by simp, by simp⟩
             have := refs_setObj_same x w o { o with cancelled := false } hn hg' rfl (by simp [objRef])
             omega)
          | (refine ⟨?_, by simp, by simp⟩
             have := refs_armTimer_le x w o op true hn hg'
             omega)

theorem le_add_two_nonneg (a b c : Int) (hb : 0 ≤ b) (hc : 0 ≤ c) : a ≤ a + b + c := by omega

theorem startsOf_nonneg (x : Nat) (e : Ev) : 0 ≤ startsOf x e := by
  cases e <;> simp only [startsOf] <;> first | omega | (split <;> omega)

theorem rearmsOf_nonneg (x : Nat) (w : World) (e : Ev) : 0 ≤ rearmsOf x w e := by
  cases e <;> simp only [rearmsOf] <;> first | omega | (repeat' split) <;> omega

theorem frameRefs_cons (x : Nat) (k : K) (r : List K) : frameRefs x (k :: r) = frameRef x k + frameRefs x r := rfl

theorem cancelStep_refs (x : Nat) (w w' : World) (k : Nat) (phase : Phase) (rest : List K) (e : Ev)
    (hst : w.stack = .cancelCall k phase :: rest) (hn : (ids w.objs).Nodup) (h : cancelStep w k phase rest e = some w') :
    refs w' x + entersOf x e ≤ refs w x := by
  unfold cancelStep at h
  cases hg : getObj w k with
  | none => simp [hg] at h
  | some o =>
    simp only [hg] at h
    have hg' : getObj w o.id = some o := by rw [getObj_id hg]; exact hg
    cases e with
    | enter op res n data early =>
      simp only at h
      repeat' split at h
      all_goals first
        | (cases h; done)
        | (rename_i hc1 hc2
           cases h
           simp only [Bool.and_eq_true, beq_iff_eq, Bool.or_eq_true] at hc1 hc2
           have := refs_delRead x w o hn hg'
           simp only [refs, hst, frameRefs_cons, frameRef, entersOf, delRead_posts] at this ⊢
           rw [this]
           by_cases hx : op = x
           · have : (o.evR = true ∧ o.hR = x) := ⟨hc1.1.2, by rw [← hx]; exact hc2.1.symm⟩
             simp [hx, this]; omega
           · simp only [hx, if_false]; split <;> omega)
        | (rename_i _ hc1 hc2
           cases h
           simp only [Bool.and_eq_true, beq_iff_eq, Bool.or_eq_true] at hc1 hc2
           have := refs_delWrite x w o hn hg'
           simp only [refs, hst, frameRefs_cons, frameRef, entersOf, delWrite_posts] at this ⊢
           rw [this]
           by_cases hx : op = x
           · have : (o.evW = true ∧ o.hW = x) := ⟨hc1.1.2, by rw [← hx]; exact hc2.1.symm⟩
             simp [hx, this]; omega
           · simp only [hx, if_false]; split <;> omega)
    | ret r =>
      simp only at h
      repeat' split at h
      all_goals first
        | (cases h; done)
        | (cases h; simp only [refs, hst, frameRefs_cons, frameRef, entersOf]; omega)
    | _ => simp at h

theorem pollDispatch_refs (x : Nat) (w w' : World) (op : Nat) (any : Bool) (rest : List K)
    (hst : w.stack = .pollCall any :: rest) (hn : (ids w.objs).Nodup) (h : pollDispatch w op rest = some w') :
    refs w' x + (if op = x then 1 else 0) ≤ refs w x := by
  unfold pollDispatch at h
  cases hop : getOp w op with
  | none => simp [hop] at h
  | some info =>
    simp only [hop] at h
    split at h
    · repeat' split at h
      all_goals first
        | (cases h; done)
        | (rename_i p ps hps heq
           cases h
           have hp : p = op := by simpa using heq
           simp only [refs, hst, hps, frameRefs_cons, frameRef, postRefs, hp]
           split <;> omega)
    · cases hg : getObj w info.obj with
      | none => simp [hg] at h
      | some o =>
        simp only [hg] at h
        have hg' : getObj w o.id = some o := by rw [getObj_id hg]; exact hg
        repeat' split at h
        all_goals first
          | (cases h; done)
          | (rename_i hc
             cases h
             simp only [Bool.and_eq_true, beq_iff_eq] at hc
             have := setObj_refs x { w with pending := w.pending - 1 } o { o with evR := false, tstate := .ready } hn hg' rfl
             simp only [refs, hst, frameRefs_cons, frameRef, setObj_posts] at this ⊢
             rw [this]
             have h0 := objRef_nonneg x o
             simp only [objRef, hc.1.2, hc.2, true_and] at h0 ⊢
             simp; split <;> omega)
          | (rename_i _ _ hc
             cases h
             simp only [Bool.and_eq_true, beq_iff_eq] at hc
             have := refs_delRead x w o hn hg'
             simp only [refs, hst, frameRefs_cons, frameRef, delRead_posts] at this ⊢
             rw [this]
             simp only [hc.1, hc.2, true_and]; split <;> omega)
          | (rename_i _ _ hc
             cases h
             simp only [Bool.and_eq_true, beq_iff_eq] at hc
             have := refs_delWrite x w o hn hg'
             simp only [refs, hst, frameRefs_cons, frameRef, delWrite_posts] at this ⊢
             rw [this]
             simp only [hc.1, hc.2, true_and]; split <;> omega)

set_option hygiene false in
/-- a branch that only pops / swaps / pushes reference-free frames and leaves objects and posts alone -/
macro "refs_frames" : tactic =>
  `(tactic| first
    | (cases h; done)
    | (cases h
       simp only [refs, hst, frameRefs_cons, frameRef, entersOf, startsOf, rearmsOf, postRefs_append, postRefs,
         setObj_posts, unsetPending_posts, unsetPending_objs, push]
       repeat' split
       all_goals omega))

/-- **Reference accounting under every transition.** For every operation `x`: the references after the step, plus
one if the step entered `x`'s callback, are at most the references before, plus one if the step is the call that
starts `x`, plus one if it is the return of a repeating timer's callback (which re-arms it). -/
theorem step_refs (x : Nat) (w w' : World) (e : Ev) (hn : (ids w.objs).Nodup) (h : step w e = some w') :
    refs w' x + entersOf x e ≤ refs w x + startsOf x e + rearmsOf x w e := by
  unfold step at h
  split at h
  · -- object creation
    rename_i k kind hst
    repeat' split at h
    all_goals first
      | (cases h; done)
      | (cases h
         simp only [refs, hst, frameRefs, objRefs, objRef, entersOf, startsOf, rearmsOf]
         simp)
  · -- handler returns
    rename_i op after rest op' hst
    split at h
    · rename_i heq
      cases h
      have hop : op = op' := by simpa using heq
      obtain ⟨h1, h2, h3⟩ := applyAfter_refs x { w with stack := rest } op after hn
      simp only [refs, hst, frameRefs_cons, frameRef, entersOf, startsOf, rearmsOf, h2, h3]
      cases after with
      | timerDone k rep cb =>
        cases rep with
        | true => simp only at h1 ⊢; rw [← hop]; split at h1 <;> simp_all <;> omega
        | false => simp only at h1 ⊢; omega
      | _ => simp only at h1 ⊢; omega
    · cases h
  · rename_i k phase rest hst
    have hc := cancelStep_refs x w w' k phase rest _ hst hn h
    have h1 := startsOf_nonneg x
    have h2 := rearmsOf_nonneg x w
    exact Int.le_trans hc (le_add_two_nonneg _ _ _ (h1 _) (h2 _))
  · -- inline callback inside a start call
    rename_i op k kind rest op' res n data early hst
    cases hg : getObj w k with
    | none => simp [hg] at h
    | some o =>
      simp only [hg] at h
      split at h
      · cases h
      · rename_i hne
        have hop : op = op' := by simpa using hne
        repeat' split at h
        all_goals first
          | (cases h; done)
          | (cases h
             simp only [refs, hst, frameRefs_cons, frameRef, entersOf, startsOf, rearmsOf, ← hop]
             repeat' split
             all_goals omega)
  · -- start call returns
    rename_i op k kind completed rest r hst
    cases hg : getObj w k with
    | none =>
      simp only [hg] at h
      repeat' split at h
      all_goals refs_frames
    | some o =>
      simp only [hg] at h
      have hg' : getObj w o.id = some o := by rw [getObj_id hg]; exact hg
      cases completed with
      | true =>
        simp only [if_true] at h
        refs_frames
      | false =>
        simp only [Bool.false_eq_true, if_false] at h
        repeat' split at h
        all_goals first
          | (cases h; done)
          | (cases h
             have := refs_setRead_le x w o op hn hg'
             simp only [refs, hst, frameRefs_cons, frameRef, entersOf, startsOf, rearmsOf, setRead_posts] at this ⊢
             repeat' split at this
             all_goals (repeat' split) <;> omega)
          | (cases h
             have := refs_setWrite_le x w o op hn hg'
             simp only [refs, hst, frameRefs_cons, frameRef, entersOf, startsOf, rearmsOf, setWrite_posts] at this ⊢
             repeat' split at this
             all_goals (repeat' split) <;> omega)
  · -- Close
    rename_i k rest isNil hst
    cases hg : getObj w k with
    | none => simp [hg] at h
    | some o =>
      simp only [hg] at h
      have hg' : getObj w o.id = some o := by rw [getObj_id hg]; exact hg
      repeat' split at h
      all_goals first
        | refs_frames
        | (cases h
           have := refs_closeObj_le x w o hn hg'
           have hp : (closeObj w o).posts = w.posts := by unfold closeObj; split <;> rfl
           simp only [refs, hst, frameRefs_cons, frameRef, entersOf, startsOf, rearmsOf, hp] at this ⊢
           omega)
  · -- zero-delay ScheduleOnce runs the callback inline
    rename_i op k rep ticks rest op' res n data early hst
    cases hg : getObj w k with
    | none => simp [hg] at h
    | some o =>
      simp only [hg] at h
      have hg' : getObj w o.id = some o := by rw [getObj_id hg]; exact hg
      repeat' split at h
      all_goals first
        | (cases h; done)
        | (rename_i hc
           cases h
           simp only [Bool.and_eq_true, beq_iff_eq] at hc
           have hop : op = op' := hc.1.1.1.1
           have := refs_setObj_same x w o { o with cancelled := false } hn hg' rfl (by simp [objRef])
           simp only [refs, hst, frameRefs_cons, frameRef, entersOf, startsOf, rearmsOf, setObj_posts, ← hop] at this ⊢
           rw [this]
           repeat' split
           all_goals omega)
  · -- Schedule* returns
    rename_i op k rep ticks completed rest isNil hst
    cases hg : getObj w k with
    | none => simp [hg] at h
    | some o =>
      simp only [hg] at h
      have hg' : getObj w o.id = some o := by rw [getObj_id hg]; exact hg
      cases completed with
      | true =>
        simp only [if_true] at h
        repeat' split at h
        all_goals refs_frames
      | false =>
        simp only [Bool.false_eq_true, if_false] at h
        repeat' split at h
        all_goals first
          | refs_frames
          | (cases h
             have := refs_armTimer_le x w o op rep hn hg'
             simp only [refs, hst, frameRefs_cons, frameRef, entersOf, startsOf, rearmsOf, armTimer_posts] at this ⊢
             repeat' split at this
             all_goals (repeat' split) <;> omega)
  · -- Timer.Cancel
    rename_i k rest isNil hst
    cases hg : getObj w k with
    | none => simp [hg] at h
    | some o =>
      simp only [hg] at h
      have hg' : getObj w o.id = some o := by rw [getObj_id hg]; exact hg
      repeat' split at h
      all_goals first
        | refs_frames
        | (cases h
           have := setObj_refs_le x (unsetPending w o) o { o with evR := false, cancelled := true, cancels := o.cancels + 1, tstate := .ready } hn hg' rfl
             (objRef_clear_le x o _ (Or.inl rfl) (Or.inr ⟨rfl, rfl⟩))
           simp only [refs, hst, frameRefs_cons, frameRef, entersOf, startsOf, rearmsOf, setObj_posts, unsetPending_posts,
             unsetPending_objs] at this ⊢
           omega)
  · -- Scheduled()
    rename_i k rest b hst
    cases hg : getObj w k with
    | none => simp [hg] at h
    | some o =>
      simp only [hg] at h
      repeat' split at h
      all_goals refs_frames
  · -- Post returns
    rename_i op rest isNil hst
    repeat' split at h
    all_goals refs_frames
  · -- the poller dispatches a handler
    rename_i any rest op res n data early hst
    have := pollDispatch_refs x w w' op any rest hst hn h
    simp only [entersOf, startsOf, rearmsOf]
    omega
  · rename_i any rest n res hst
    repeat' split at h
    all_goals refs_frames
  · rename_i any rest n hst
    repeat' split at h
    all_goals refs_frames
  · rename_i rest p q d hst
    repeat' split at h
    all_goals refs_frames
  · rename_i rest r hst
    refs_frames
  · -- calls made from user code
    repeat' split at h
    all_goals first
      | (cases h; done)
      | (cases h
         simp only [refs, frameRefs_cons, frameRef, entersOf, startsOf, rearmsOf, push]
         repeat' split
         all_goals omega)
      | (cases h
         rename_i hst
         simp only [refs, hst, frameRefs_cons, frameRef, entersOf, startsOf, rearmsOf]
         repeat' split
         all_goals omega)

end Sonic.Model.Loop
