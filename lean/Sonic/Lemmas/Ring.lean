/-
Helper lemmas for C11: arithmetic modulo an arbitrary positive `size` (omega does not take `%` by a
variable) and the lists of ring cells of `Sonic.Spec.Mirrored`.
-/
import Sonic.Spec.Mirrored
import Sonic.Lemmas.Cells

namespace Sonic.Spec.Mirrored
open Sonic.Spec.Bip (cells imin mem_cells cells_append drop_cells cells_nonpos length_cells)

theorem imin_eq (a b : Int) : imin a b = if a ≤ b then a else b := rfl

theorem imin_nonneg {a b : Int} (ha : 0 ≤ a) (hb : 0 ≤ b) : 0 ≤ imin a b := by
  rw [imin_eq]; split <;> omega

theorem imin_le_right (a b : Int) : imin a b ≤ b := by rw [imin_eq]; split <;> omega
theorem imin_le_left (a b : Int) : imin a b ≤ a := by rw [imin_eq]; split <;> omega

/-- Two ring positions less than `size` apart are different cells. -/
theorem emod_ne_of_lt {size a d : Int} (h1 : 0 < d) (h2 : d < size) : (a + d) % size ≠ a % size := by
  intro h
  rw [Int.emod_eq_emod_iff_emod_sub_eq_zero] at h
  rw [show a + d - a = d by omega, Int.emod_eq_of_lt (by omega) h2] at h
  omega

theorem emod_congr_add {size a b : Int} (h : a % size = b % size) (i : Int) :
    (a + i) % size = (b + i) % size := by
  rw [← Int.emod_add_emod a, h, Int.emod_add_emod]

theorem length_ringCells (size start k : Int) : (ringCells size start k).length = k.toNat := by
  simp [ringCells]

theorem ringCells_nonpos {size start k : Int} (h : k ≤ 0) : ringCells size start k = [] := by
  simp [ringCells, cells_nonpos h]

theorem mem_ringCells {size start k c : Int} :
    c ∈ ringCells size start k ↔ ∃ i, 0 ≤ i ∧ i < k ∧ c = (start + i) % size := by
  unfold ringCells
  simp only [List.mem_map, mem_cells]
  constructor
  · rintro ⟨v, ⟨h1, h2⟩, rfl⟩
    exact ⟨v - start, by omega, by omega, by rw [show start + (v - start) = v by omega]⟩
  · rintro ⟨i, h1, h2, rfl⟩
    exact ⟨start + i, ⟨by omega, by omega⟩, rfl⟩

/-- The cells depend on the start position only modulo `size`. -/
theorem ringCells_congr {size a b : Int} (k : Int) (h : a % size = b % size) :
    ringCells size a k = ringCells size b k := by
  unfold ringCells cells
  simp only [List.map_map]
  apply List.map_congr_left
  intro i _
  exact emod_congr_add h _

theorem ringCells_append {size a k j : Int} (hk : 0 ≤ k) (hj : 0 ≤ j) :
    ringCells size a k ++ ringCells size (a + k) j = ringCells size a (k + j) := by
  unfold ringCells
  rw [← List.map_append, cells_append hk hj]

theorem drop_ringCells {size a u k : Int} (hk : 0 ≤ k) (hu : k ≤ u) :
    (ringCells size a u).drop k.toNat = ringCells size (a + k) (u - k) := by
  unfold ringCells
  rw [← List.map_drop, drop_cells hk hu]

/-- `u` used cells ending just before ring position `next` and `len` claimed cells starting at
`next` share no cell as long as `u + len ≤ size`. -/
theorem ring_disjoint {size next u len lo : Int} (hl : u + len ≤ size)
    (hlo : lo % size = next % size) :
    ∀ c ∈ ringCells size (next - u) u, ∀ v ∈ cells lo len, v % size ≠ c := by
  intro c hc v hv heq
  rw [mem_ringCells] at hc
  rw [mem_cells] at hv
  obtain ⟨i, hi0, hi1, rfl⟩ := hc
  have h1 : v % size = (next + (v - lo)) % size := by
    have := emod_congr_add hlo (v - lo)
    rw [show lo + (v - lo) = v by omega] at this
    exact this
  rw [h1, show next + (v - lo) = (next - u + i) + (u - i + (v - lo)) by omega] at heq
  exact emod_ne_of_lt (by omega) (by omega) heq

end Sonic.Spec.Mirrored
