/-
Invariant of the stream write-path model (`Model/WsWritePath.lean`): the concatenation of all frames ever queued, in
submission order, equals the bytes the transport has accepted so far, followed by the unwritten rest of the frame
in flight, followed by the frames still pending. Hence the wire is always a prefix of the submitted frames in order,
each frame complete before the next one starts.
-/
import Sonic.Model.WsWritePath
import Sonic.Lemmas.WsDecode

namespace Sonic.Model.WsWritePath
open Sonic.Model.WsBuf Sonic.Model.WsFrame

/-- The unwritten rest of the frame in flight. -/
def WS.rem (s : WS) : List UInt8 := match s.inflight with | some w => w.bytes.drop w.done | none => []

def WS.Inv (s : WS) : Prop :=
  s.hist.flatten = s.out ++ s.rem ++ s.pending.flatten ∧
  (∀ w, s.inflight = some w → w.done ≤ w.bytes.length) ∧
  (s.flushing = false → s.inflight = none)

/-- Nothing queued, nothing in flight. -/
def WS.Quiescent (s : WS) : Prop := s.pending = [] ∧ s.inflight = none

theorem inv_quiescent {s : WS} (h : s.Inv) (hq : s.Quiescent) : s.out = s.hist.flatten := by
  obtain ⟨h1, _, _⟩ := h
  obtain ⟨hp, hi⟩ := hq
  unfold WS.rem at h1
  rw [hp, hi] at h1
  simpa using h1.symm

theorem inv_prefix {s : WS} (h : s.Inv) : s.out <+: s.hist.flatten := by
  obtain ⟨h1, _, _⟩ := h
  rw [h1, List.append_assoc]
  exact List.prefix_append _ _

theorem init_inv (max : Int) : (WS.init max).Inv := ⟨rfl, (fun w h => by cases h), fun _ => rfl⟩

/-! ### Blocking flush -/

theorem flushSync_aux : ∀ (frs : List (List UInt8)) (s : WS) (o : Out) (s' : WS) (o' : Out),
    frs.foldlM (init := (s, o)) (fun (p : WS × Out) fr =>
      match writeAll (fr.length + p.1.plan.length + 1) p.1.plan fr [] with
      | none => none
      | some (plan', segs) => some ({ p.1 with plan := plan', out := p.1.out ++ fr }, { p.2 with wire := p.2.wire ++ fr, segs := p.2.segs ++ segs }))
      = some (s', o') →
    s'.out = s.out ++ frs.flatten ∧ o'.wire = o.wire ++ frs.flatten ∧ s'.pending = s.pending ∧ s'.hist = s.hist ∧
    s'.inflight = s.inflight ∧ s'.flushing = s.flushing ∧ s'.max = s.max ∧ s'.active = s.active ∧ o'.res = o.res ∧ o'.cbs = o.cbs := by
  intro frs
  induction frs with
  | nil =>
    intro s o s' o' h
    simp only [List.foldlM_nil, pure, Option.some.injEq, Prod.mk.injEq] at h
    obtain ⟨rfl, rfl⟩ := h
    simp
  | cons fr rest ih =>
    intro s o s' o' h
    simp only [List.foldlM_cons] at h
    cases hw : writeAll (fr.length + s.plan.length + 1) s.plan fr [] with
    | none => simp [hw, bind, Option.bind] at h
    | some r =>
      obtain ⟨plan', segs⟩ := r
      simp only [hw, bind, Option.bind] at h
      have := ih _ _ s' o' h
      dsimp only at this
      obtain ⟨a1, a2, a3, a4, a5, a6, a7, a8, a9, a10⟩ := this
      refine ⟨?_, ?_, a3, a4, a5, a6, a7, a8, a9, a10⟩
      · rw [a1]; simp [List.append_assoc]
      · rw [a2]; simp [List.append_assoc]

theorem flushSync_spec {s : WS} {o : Out} {s' : WS} {o' : Out} (h : flushSync s o = some (s', o')) :
    s'.out = s.out ++ s.pending.flatten ∧ o'.wire = o.wire ++ s.pending.flatten ∧ s'.pending = [] ∧ s'.hist = s.hist ∧
    s'.inflight = s.inflight ∧ s'.flushing = s.flushing ∧ s'.max = s.max ∧ s'.active = s.active ∧ o'.res = o.res ∧ o'.cbs = o.cbs := by
  unfold flushSync at h
  exact flushSync_aux s.pending { s with pending := [] } o s' o' h

theorem flushSync_inv {s : WS} {o : Out} {s' : WS} {o' : Out} (hI : s.Inv) (hq : s.inflight = none)
    (h : flushSync s o = some (s', o')) : s'.Inv ∧ s'.Quiescent := by
  obtain ⟨a1, _, a3, a4, a5, a6, _⟩ := flushSync_spec h
  obtain ⟨h1, h2, h3⟩ := hI
  have hrem : s.rem = [] := by unfold WS.rem; rw [hq]
  have hrem' : s'.rem = [] := by unfold WS.rem; rw [a5, hq]
  refine ⟨⟨?_, ?_, ?_⟩, a3, by rw [a5, hq]⟩
  · rw [a4, h1, a1, hrem, hrem', a3]; simp
  · intro w hw; rw [a5, hq] at hw; cases hw
  · intro _; rw [a5, hq]

/-! ### The transport's partial writes -/

theorem pumpWrite_spec : ∀ (fuel : Nat) (plan : List Nat) (w : InFlight) (segs : List Nat), w.done ≤ w.bytes.length →
    let r := pumpWrite fuel plan w segs
    r.2.1.bytes = w.bytes ∧ w.done ≤ r.2.1.done ∧ r.2.1.done ≤ w.bytes.length ∧ (r.2.2.2 = true → r.2.1.done = w.bytes.length) := by
  intro fuel
  induction fuel with
  | zero => intro plan w segs h; simp [pumpWrite, h]
  | succ fuel ih =>
    intro plan w segs h
    unfold pumpWrite
    have hacc : (accept plan (w.bytes.length - w.done)).1 ≤ w.bytes.length - w.done := by
      unfold accept; cases plan with
      | nil => exact Nat.le_refl _
      | cons p rest => exact Nat.min_le_left _ _
    dsimp only
    split
    · rename_i hc
      dsimp only
      exact ⟨rfl, by omega, by omega, fun _ => hc⟩
    · split
      · dsimp only
        exact ⟨rfl, by omega, by omega, fun hc => by cases hc⟩
      · have := ih (accept plan (w.bytes.length - w.done)).2 { w with done := w.done + (accept plan (w.bytes.length - w.done)).1 }
          (segs ++ [(accept plan (w.bytes.length - w.done)).1]) (by dsimp only; omega)
        dsimp only at this
        obtain ⟨b1, b2, b3, b4⟩ := this
        exact ⟨b1, by omega, b3, b4⟩

/-! ### Asynchronous flush -/

theorem flushing_of_inflight {s : WS} (hI : s.Inv) {w : InFlight} (h : s.inflight = some w) : s.flushing = true := by
  obtain ⟨_, _, h3⟩ := hI
  cases hf : s.flushing with
  | true => rfl
  | false => rw [h3 hf] at h; cases h

theorem asyncRun_inv : ∀ (fuel : Nat) (s : WS) (o : Out) (start : Bool), s.Inv →
    (start = true → s.inflight = none ∧ s.flushing = true) →
    (asyncRun fuel s o start).1.Inv ∧ (asyncRun fuel s o start).1.hist = s.hist ∧ (asyncRun fuel s o start).1.max = s.max ∧
    (asyncRun fuel s o start).1.active = s.active := by
  intro fuel
  induction fuel with
  | zero => intro s o start hI _; exact ⟨hI, rfl, rfl, rfl⟩
  | succ fuel ih =>
    intro s o start hI hst
    have hI' := hI
    obtain ⟨h1, h2, h3⟩ := hI'
    unfold asyncRun
    cases start with
    | true =>
      obtain ⟨hnone, hfl⟩ := hst rfl
      have hrem : s.rem = [] := by unfold WS.rem; rw [hnone]
      simp only [if_true]
      cases hp : s.pending with
      | nil =>
        dsimp only
        refine ⟨⟨?_, ?_, ?_⟩, rfl, rfl, rfl⟩
        · show s.hist.flatten = s.out ++ s.rem ++ ([] : List (List UInt8)).flatten
          rw [h1, hp]
        · intro w hw; exact h2 w hw
        · intro _; exact hnone
      | cons fr rest =>
        dsimp only
        have hI1 : ({ s with pending := rest, inflight := some { bytes := fr, done := 0 } } : WS).Inv := by
          refine ⟨?_, ?_, ?_⟩
          · show s.hist.flatten = s.out ++ fr.drop 0 ++ rest.flatten
            rw [h1, hrem, hp]; simp
          · intro w hw; cases hw; exact Nat.zero_le _
          · intro hf; rw [hfl] at hf; cases hf
        by_cases hd : s.deferW = true
        · rw [if_pos hd]; exact ⟨hI1, rfl, rfl, rfl⟩
        · rw [if_neg hd]
          exact ih _ o false hI1 (fun h => by cases h)
    | false =>
      simp only [Bool.false_eq_true, if_false]
      cases hi : s.inflight with
      | none => exact ⟨hI, rfl, rfl, rfl⟩
      | some w =>
        dsimp only
        have hwd := h2 w hi
        have hfl := flushing_of_inflight hI hi
        obtain ⟨p1, p2, p3, p4⟩ := pumpWrite_spec (w.bytes.length + s.plan.length + 1) s.plan w [] hwd
        generalize pumpWrite (w.bytes.length + s.plan.length + 1) s.plan w [] = r at p1 p2 p3 p4
        obtain ⟨plan', w', segs, complete⟩ := r
        dsimp only at p1 p2 p3 p4 ⊢
        have hrem : s.rem = w.bytes.drop w.done := by unfold WS.rem; rw [hi]
        have hsplit : w.bytes.drop w.done = (w.bytes.drop w.done).take (w'.done - w.done) ++ w.bytes.drop w'.done := by
          conv => lhs; rw [← List.take_append_drop (w'.done - w.done) (w.bytes.drop w.done)]
          rw [List.drop_drop, show w.done + (w'.done - w.done) = w'.done by omega]
        cases complete with
        | true =>
          simp only [if_true]
          have hdone := p4 rfl
          have hI2 : ({ s with plan := plan', inflight := none, out := s.out ++ (w.bytes.drop w.done).take (w'.done - w.done) } : WS).Inv := by
            refine ⟨?_, ?_, ?_⟩
            · show s.hist.flatten = (s.out ++ (w.bytes.drop w.done).take (w'.done - w.done)) ++ [] ++ s.pending.flatten
              have ht : (w.bytes.drop w.done).take (w'.done - w.done) = w.bytes.drop w.done :=
                List.take_of_length_le (by rw [List.length_drop]; omega)
              rw [h1, hrem, ht]; simp
            · intro w0 hw0; cases hw0
            · intro _; rfl
          have := ih _ { o with wire := o.wire ++ (w.bytes.drop w.done).take (w'.done - w.done), segs := o.segs ++ segs } true hI2
            (fun _ => ⟨rfl, hfl⟩)
          exact this
        | false =>
          simp only [Bool.false_eq_true, if_false]
          refine ⟨⟨?_, ?_, ?_⟩, trivial, trivial, trivial⟩
          · show s.hist.flatten = (s.out ++ (w.bytes.drop w.done).take (w'.done - w.done)) ++ w'.bytes.drop w'.done ++ s.pending.flatten
            rw [h1, hrem, p1]
            conv => lhs; rw [hsplit]
            simp
          · intro w0 hw0; cases hw0; rw [p1]; exact p3
          · intro hf; rw [hfl] at hf; cases hf

theorem asyncFlush_inv {s : WS} (o : Out) (id : Nat) (hI : s.Inv) :
    (asyncFlush s o id).1.Inv ∧ (asyncFlush s o id).1.hist = s.hist ∧ (asyncFlush s o id).1.max = s.max ∧
    (asyncFlush s o id).1.active = s.active := by
  obtain ⟨h1, h2, h3⟩ := hI
  unfold asyncFlush
  by_cases hf : s.flushing = true
  · rw [if_pos hf]
    exact ⟨⟨h1, h2, h3⟩, rfl, rfl, rfl⟩
  · rw [if_neg hf]
    have hf' : s.flushing = false := by simpa using hf
    have hI1 : ({ s with flushing := true, owner := id } : WS).Inv := ⟨h1, h2, fun h => by cases h⟩
    exact asyncRun_inv _ _ o true hI1 (fun _ => ⟨h3 hf', rfl⟩)

theorem asyncRun_res : ∀ (fuel : Nat) (s : WS) (o : Out) (start : Bool), (asyncRun fuel s o start).2.res = o.res := by
  intro fuel
  induction fuel with
  | zero => intro s o start; rfl
  | succ fuel ih =>
    intro s o start
    unfold asyncRun
    cases start with
    | true =>
      simp only [if_true]
      cases s.pending with
      | nil => rfl
      | cons fr rest =>
        dsimp only
        split
        · rfl
        · exact ih _ _ _
    | false =>
      simp only [Bool.false_eq_true, if_false]
      cases s.inflight with
      | none => rfl
      | some w =>
        dsimp only
        split
        · rw [ih]
        · rfl

theorem asyncFlush_res (s : WS) (o : Out) (id : Nat) : (asyncFlush s o id).2.res = o.res := by
  unfold asyncFlush
  split
  · rfl
  · exact asyncRun_res _ _ _ _

/-! ### Operations -/

/-- Scripts: every operation gets its index as callback id. -/
def runOps : WS → Nat → List WOp → M (Option WS)
  | s, _, [] => pure (some s)
  | s, id, op :: rest => do
      match (← step s id op) with
      | none => pure none
      | some (s', _) => runOps s' (id + 1) rest

theorem submit_inv {s : WS} (o : Out) (async : Bool) (id : Nat) (fr : List UInt8) (hI : s.Inv) {s' : WS} {o' : Out}
    (h : submit s o async id fr = some (s', o')) :
    s'.Inv ∧ s'.hist = s.hist ++ [fr] ∧ s'.max = s.max ∧ (async = false → s'.Quiescent ∧ o'.res = some .nil) ∧
    (async = true → o'.res = o.res) := by
  have hI' := hI
  obtain ⟨h1, h2, h3⟩ := hI'
  have hI1 : ({ s with pending := s.pending ++ [fr], hist := s.hist ++ [fr] } : WS).Inv := by
    refine ⟨?_, h2, h3⟩
    show (s.hist ++ [fr]).flatten = s.out ++ s.rem ++ (s.pending ++ [fr]).flatten
    rw [List.flatten_append, List.flatten_append, h1]; simp [List.append_assoc]
  unfold submit at h
  dsimp only at h
  cases async with
  | true =>
    simp only [if_true, Option.some.injEq] at h
    have := asyncFlush_inv o id hI1
    have hr := asyncFlush_res { s with pending := s.pending ++ [fr], hist := s.hist ++ [fr] } o id
    rw [h] at this hr
    exact ⟨this.1, this.2.1, this.2.2.1, (fun hc => by cases hc), fun _ => hr⟩
  | false =>
    simp only [Bool.false_eq_true, if_false] at h
    split at h
    · cases h
    · rename_i hnf
      have hnone : s.inflight = none := by
        cases hi : s.inflight with
        | none => rfl
        | some w => exact absurd (Or.inl (by rw [hi]; rfl)) hnf
      cases hfs : flushSync { s with pending := s.pending ++ [fr], hist := s.hist ++ [fr] } o with
      | none => rw [hfs] at h; cases h
      | some r =>
        obtain ⟨s2, o2⟩ := r
        rw [hfs] at h
        simp only [Option.map_some, Option.some.injEq, Prod.mk.injEq] at h
        obtain ⟨rfl, rfl⟩ := h
        obtain ⟨hi2, hq2⟩ := flushSync_inv hI1 hnone hfs
        obtain ⟨_, _, _, a4, _, _, a7, _⟩ := flushSync_spec hfs
        exact ⟨hi2, a4, a7, (fun _ => ⟨hq2, rfl⟩), fun hc => by cases hc⟩

end Sonic.Model.WsWritePath
