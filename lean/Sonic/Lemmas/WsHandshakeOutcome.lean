/-
`upgrade` and `handshake` of the model as functions of the delivered bytes only.
-/
import Sonic.Lemmas.WsHandshakeFacts

namespace Sonic.Lemmas.WsHandshake
open Sonic.Spec.WsHandshake Sonic.Model.WsHandshake

/-- `IsUpgradeRes` and the accept comparison, on the parsed response. -/
def goodRes (P : Params) (key : String) (res : HttpResp) : Bool :=
  isUpgradeRes res && res.accept == some (P.acceptOf key)

/-- The outcome of a handshake as a function of the delivered bytes only (no segmentation, no buffer sizes). -/
def outcome (P : Params) (key : String) (rest : Bytes) (closed : Bool) : Err :=
  match headEnd rest with
  | none => if closed then .eof else .other
  | some k =>
    match P.parse (rest.take k) with
    | none => .malformed
    | some res => if goodRes P key res then .nil else .cannotUpgrade

theorem upgrade_spec (P : Params) (hgrow : ∀ c, c < P.grow c) (s : St) (key : String) (w : Wire)
    (hsmall : w.rest.length < maxHandshakeResponseLength) :
    (upgrade P s key w).2.1 = outcome P key w.rest w.closed ∧
    (upgrade P s key w).1.state = s.state ∧ (upgrade P s key w).1.conn = s.conn ∧
    (upgrade P s key w).1.pending = s.pending ∧ (upgrade P s key w).1.stream = s.stream ∧
    (upgrade P s key w).1.dst = s.dst ∧ (upgrade P s key w).1.asyncFlushing = s.asyncFlushing ∧
    (upgrade P s key w).1.flushWaiters = s.flushWaiters ∧
    (∀ k, headEnd w.rest = some k → (P.parse (w.rest.take k)).isSome →
      (upgrade P s key w).1.src ++ (upgrade P s key w).2.2.rest = s.src ++ w.rest.drop k ∧
      (upgrade P s key w).2.2.closed = w.closed ∧ (upgrade P s key w).1.hbLen = 0) := by
  obtain ⟨hf, hn⟩ := readLoop_spec P hgrow (w.rest.length + 1) [] s.hbCap w rfl (Nat.zero_le _)
    (by simpa using hsmall) (Nat.lt_succ_self _)
  simp only [List.nil_append] at hf hn
  unfold upgrade outcome
  cases hh : headEnd w.rest with
  | none =>
    rw [hn hh]
    cases w.closed <;> simp
  | some k =>
    obtain ⟨buf', cap', w', hr, hcat, hk, hcl⟩ := hf k hh
    rw [hr]
    have htake : buf'.take k = w.rest.take k := by
      rw [← hcat, List.take_append_of_le_length hk]
    have hdrop : buf'.drop k ++ w'.rest = w.rest.drop k := by
      rw [← hcat, List.drop_append_of_le_length hk]
    simp only [htake]
    cases hp : P.parse (w.rest.take k) with
    | none => simp [hp]
    | some res =>
      simp only
      simp only [goodRes]
      by_cases hu : isUpgradeRes res = true <;> by_cases ha : (res.accept == some (P.acceptOf key)) = true <;>
        (try simp only [Bool.not_eq_true] at hu) <;> (try simp only [Bool.not_eq_true] at ha) <;>
        simp [hu, ha, hp, List.append_assoc, hdrop, hcl]

theorem outcome_nil {P : Params} {key : String} {rest : Bytes} {closed : Bool} (h : outcome P key rest closed = .nil) :
    ∃ k res, headEnd rest = some k ∧ P.parse (rest.take k) = some res ∧ goodRes P key res = true := by
  unfold outcome at h
  cases hh : headEnd rest with
  | none => rw [hh] at h; simp only at h; split at h <;> cases h
  | some k =>
    rw [hh] at h; simp only at h
    cases hp : P.parse (rest.take k) with
    | none => rw [hp] at h; cases h
    | some res =>
      rw [hp] at h; simp only at h
      cases hg : goodRes P key res with
      | false => rw [hg] at h; cases h
      | true => exact ⟨k, res, rfl, hp, hg⟩

/-- `Handshake` / `AsyncHandshake`: the result is a function of the delivered bytes only. -/
theorem handshake_spec (P : Params) (hgrow : ∀ c, c < P.grow c) (s : St) (key : String) (w : Wire)
    (hsmall : w.rest.length < maxHandshakeResponseLength) :
    (handshake P s key w).2.1 = outcome P key w.rest w.closed ∧
    (handshake P s key w).1.pending = 0 ∧ (handshake P s key w).1.dst = [] ∧
    (handshake P s key w).1.asyncFlushing = false ∧ (handshake P s key w).1.flushWaiters = 0 ∧
    ((handshake P s key w).2.1 = .nil →
      (handshake P s key w).1.state = .active ∧ (handshake P s key w).1.conn = true ∧
      (handshake P s key w).1.stream = true ∧ (handshake P s key w).2.2.closed = w.closed ∧
      ∀ k, headEnd w.rest = some k → frameStream (handshake P s key w).1 (handshake P s key w).2.2 = w.rest.drop k) ∧
    ((handshake P s key w).2.1 ≠ .nil →
      (handshake P s key w).1.state = .terminated ∧ (handshake P s key w).1.conn = false) := by
  obtain ⟨u1, u2, u3, u4, u5, u6, u7, u8, u9⟩ := upgrade_spec P hgrow ({ reset s with conn := true }) key w hsmall
  unfold handshake
  simp only
  generalize hup : upgrade P ({ reset s with conn := true }) key w = r at *
  obtain ⟨s1, e, w1⟩ := r
  simp only at u1 u2 u3 u4 u5 u6 u7 u8 u9
  have hsrc0 : ({ reset s with conn := true } : St).src = [] := rfl
  cases e with
  | nil =>
    simp only
    refine ⟨u1, u4, u6, u7, u8, fun _ => ⟨trivial, u3, trivial, ?_, ?_⟩, fun h => absurd rfl h⟩
    · obtain ⟨k, res, hk, hp, _⟩ := outcome_nil u1.symm
      exact (u9 k hk (by rw [hp]; rfl)).2.1
    · intro k hk
      obtain ⟨k', res, hk', hp, _⟩ := outcome_nil u1.symm
      rw [hk] at hk'; injection hk' with hk'; subst hk'
      have := (u9 k hk (by rw [hp]; rfl)).1
      simp only [frameStream]
      rw [this, hsrc0]; rfl
  | eof => simp only; refine ⟨u1, u4, u6, u7, u8, ?_, ?_⟩ <;> simp
  | cannotUpgrade => simp only; refine ⟨u1, u4, u6, u7, u8, ?_, ?_⟩ <;> simp
  | malformed => simp only; refine ⟨u1, u4, u6, u7, u8, ?_, ?_⟩ <;> simp
  | other => simp only; refine ⟨u1, u4, u6, u7, u8, ?_, ?_⟩ <;> simp

end Sonic.Lemmas.WsHandshake
