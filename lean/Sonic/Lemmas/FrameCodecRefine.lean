/-
Refinement: every step of the CodecConn model is accepted by the frame-stream monitor
(`Sonic.Spec.FrameCodec.step`) and preserves the coupling between the two states.
-/
import Sonic.Lemmas.FrameCodecWrite

namespace Sonic.Lemmas.FrameCodec
open Sonic.Spec.FrameCodec Sonic.Model.FrameCodec

/-! ## coupling between the model and the monitor -/

/-- Reading half: the monitor's unparsed input is exactly what the model still holds. -/
structure RR (limit : Nat) (c : Conn) (s : S) : Prop where
  lim : s.limit = limit
  inv : RInv limit c
  inb : s.inb = unparsed c
  eof : s.eof = c.tr.eof
  rpend : s.rpend = c.rpend
  cap : s.cap = c.src.cap
  rej : s.rejected = true → front limit (unparsed c) = .tooBig

/-- Writing half: what the monitor says is owed to the peer is exactly what the destination buffer
(or the pending asynchronous write) still holds. -/
structure RW (c : Conn) (s : S) : Prop where
  ri : c.dst.ri = c.dst.data.length
  cap : c.dst.data.length ≤ c.dst.cap
  idle : c.wpend = none → s.wpend = none ∧ s.owed = c.dst.data
  busy : ∀ pw, c.wpend = some pw →
    s.wpend = some pw.buf.length ∧ pw.buf = c.dst.data ∧ pw.done ≤ pw.buf.length ∧ s.owed = pw.buf.drop pw.done

/-- The parts of a connection the write side never touches. -/
def SameR (c c' : Conn) : Prop :=
  c'.src = c.src ∧ c'.dec = c.dec ∧ c'.tr.inq = c.tr.inq ∧ c'.tr.eof = c.tr.eof ∧ c'.rpend = c.rpend

theorem RW_of_sameW {c c' : Conn} {s s' : S} (h : RW c s) (hs : SameW c c') (ho : s'.owed = s.owed)
    (hw : s'.wpend = s.wpend) : RW c' s' := by
  obtain ⟨a1, a2, _, _, _⟩ := hs
  refine ⟨by rw [a1]; exact h.ri, by rw [a1]; exact h.cap, ?_, ?_⟩
  · intro hn; rw [a2] at hn; rw [ho, hw, a1]; exact h.idle hn
  · intro pw hp; rw [a2] at hp; rw [ho, hw, a1]; exact h.busy pw hp

theorem RR_of_sameR {limit : Nat} {c c' : Conn} {s s' : S} (h : RR limit c s) (hs : SameR c c')
    (e1 : s'.limit = s.limit) (e2 : s'.inb = s.inb) (e3 : s'.eof = s.eof) (e4 : s'.rpend = s.rpend)
    (e5 : s'.cap = s.cap) (e6 : s'.rejected = s.rejected) : RR limit c' s' := by
  obtain ⟨a1, a2, a3, a4, a5⟩ := hs
  have hu : unparsed c' = unparsed c := by simp only [unparsed, a1, a2, a3]
  refine ⟨e1.trans h.lim, ⟨?_, ?_, ?_⟩, ?_, ?_, ?_, ?_, ?_⟩
  · rw [a1, a2]; exact h.inv.src
  · rw [a3]; exact h.inv.chunks
  · rw [a1, a2, a5]; exact h.inv.pend
  · rw [e2, hu]; exact h.inb
  · rw [e3, a4]; exact h.eof
  · rw [e4, a5]; exact h.rpend
  · rw [e5, a1]; exact h.cap
  · rw [e6, hu]; exact h.rej

/-- A read call that ran (postcondition `ROut`) is accepted by the monitor's `readDone`. -/
theorem readDone_refines {limit : Nat} {async : Bool} {c c' : Conn} {s : S} {st : RStat}
    (hR : RR limit c s) (hout : ROut limit async c c' st) (hnp : async = false → c.rpend = false) :
    ∃ s', readDone s async (robs c' st) = some s' ∧ RR limit c' s' ∧ s'.owed = s.owed ∧ s'.wpend = s.wpend ∧
      st ≠ .busy ∧ st ≠ .none := by
  have hlim := hR.lim
  have hinb := hR.inb
  cases hf : front limit (unparsed c) with
  | item p rest =>
    obtain ⟨h1, h2, h3⟩ := hout.item p rest hf
    subst h1
    have hrej : s.rejected = false := by
      cases hr : s.rejected
      · rfl
      · have := hR.rej hr; rw [hf] at this; cases this
    refine ⟨{ s with inb := rest, rpend := false, cap := c'.src.cap }, ?_, ⟨hlim, hout.inv, h2.symm, ?_, h3.symm, rfl, ?_⟩, rfl, rfl, by simp, by simp⟩
    · simp only [readDone, robs, hlim, hinb, hf, hrej]
      simp
    · show s.eof = c'.tr.eof; rw [hout.same.2.2.2.1]; exact hR.eof
    · intro hh; rw [hrej] at hh; cases hh
  | tooBig =>
    obtain ⟨h1, h2, h3, h4⟩ := hout.big hf
    subst h1
    refine ⟨{ s with rejected := true, rpend := false }, ?_, ⟨hlim, hout.inv, ?_, ?_, h4.symm, ?_, ?_⟩, rfl, rfl, by simp, by simp⟩
    · simp only [readDone, robs, hlim, hinb, hf, hR.cap, h3]
      simp
    · show s.inb = unparsed c'; rw [h2]; exact hinb
    · show s.eof = c'.tr.eof; rw [hout.same.2.2.2.1]; exact hR.eof
    · show s.cap = c'.src.cap; rw [h3]; exact hR.cap
    · intro _; rw [h2]; exact hf
  | incomplete =>
    obtain ⟨h1, h2, h3⟩ := hout.inc hf
    have hrej : s.rejected = false := by
      cases hr : s.rejected
      · rfl
      · have := hR.rej hr; rw [hf] at this; cases this
    have hst : Starved s := Or.inr (by rw [hlim, hinb]; exact hf)
    have heof' : s.eof = c'.tr.eof := by rw [hout.same.2.2.2.1]; exact hR.eof
    have hinb' : s.inb = unparsed c' := by rw [h1]; exact hinb
    have hrej' : s.rejected = true → front limit (unparsed c') = .tooBig := by
      intro hh; rw [hrej] at hh; cases hh
    cases he : c.tr.eof
    · rw [he] at h3
      cases async
      · simp only [Bool.false_eq_true, if_false] at h3
        obtain ⟨h4, h5⟩ := h3
        subst h4
        refine ⟨{ s with cap := c'.src.cap }, ?_, ⟨hlim, hout.inv, hinb', heof', ?_, rfl, hrej'⟩, rfl, rfl, by simp, by simp⟩
        · simp only [readDone, robs]; rw [if_pos ⟨trivial, hst⟩]
        · show s.rpend = c'.rpend; rw [h5, hR.rpend]; exact hnp rfl
      · simp only [Bool.false_eq_true, if_false, if_true] at h3
        obtain ⟨h4, h5⟩ := h3
        subst h4
        refine ⟨{ s with rpend := true, cap := c'.src.cap }, ?_, ⟨hlim, hout.inv, hinb', heof', h5.symm, rfl, hrej'⟩, rfl, rfl, by simp, by simp⟩
        simp only [readDone, robs]; rw [if_pos ⟨trivial, hst⟩]
    · rw [he] at h3
      simp only [if_true] at h3
      obtain ⟨h4, h5⟩ := h3
      subst h4
      refine ⟨{ s with rpend := false, cap := c'.src.cap }, ?_, ⟨hlim, hout.inv, hinb', heof', h5.symm, rfl, hrej'⟩, rfl, rfl, by simp, by simp⟩
      simp only [readDone, robs]; rw [if_pos ⟨by rw [hR.eof]; exact he, hst⟩]

theorem readNext_spec (limit : Nat) (async : Bool) (env : List Nat) (c : Conn) (hinv : RInv limit c)
    (hrp : c.rpend = false) :
    ∃ c' st, readNext limit async env c = (c', robs c' st) ∧ ROut limit async c c' st := by
  have h := readLoop_spec limit async (fuelFor c) env c hinv hrp (by simp [fuelFor, total])
  refine ⟨(readLoop limit async (fuelFor c) env c).1, (readLoop limit async (fuelFor c) env c).2, ?_, h⟩
  simp [readNext, hrp]

theorem pumpRead_spec (limit : Nat) (env : List Nat) (c : Conn) (hinv : RInv limit c) (hrp : c.rpend = true) :
    ∃ c' st, pumpRead limit env c = (c', robs c' st) ∧ ROut limit true c c' st := by
  obtain ⟨hres, hroom, hfc⟩ := hinv.pend hrp
  unfold pumpRead
  rw [if_pos hrp]
  by_cases hq : c.tr.inq = []
  · have hU : unparsed c = clean c.dec c.src := by simp [unparsed, hq]
    have hfU : front limit (unparsed c) = .incomplete := by rw [hU]; exact hfc
    rw [transportRead_empty true c hq]
    cases he : c.tr.eof
    · simp only [Bool.false_eq_true, if_false, if_true]
      refine ⟨_, _, rfl, rout_empty limit true c _ _ ⟨hinv.src, hinv.chunks, fun _ => hinv.pend hrp⟩
        ⟨rfl, rfl, rfl, rfl, rfl⟩ rfl hq hfU (by simp [he])⟩
    · simp only [if_true]
      refine ⟨_, _, rfl, rout_empty limit true c _ _ ⟨hinv.src, hinv.chunks, fun hh => by cases hh⟩
        ⟨rfl, rfl, rfl, rfl, rfl⟩ rfl hq hfU (by simp [he])⟩
  · obtain ⟨c2, hrd, hinv2, hrp2, hun2, _, hsame2, hcap2⟩ :=
      transportRead_some limit true c hinv.src hres hroom hinv.chunks hq
    rw [hrd]
    simp only
    have hout := readLoop_spec limit true (fuelFor c2) env c2 hinv2 hrp2 (by simp [fuelFor, total])
    refine ⟨_, _, rfl, hout.inv, sameW_trans hsame2 hout.same, ?_, ?_, ?_⟩
    · intro p rest hh; exact hout.item p rest (by rw [hun2]; exact hh)
    · intro hh
      obtain ⟨o1, o2, o3, o4⟩ := hout.big (by rw [hun2]; exact hh)
      exact ⟨o1, o2.trans hun2, o3.trans hcap2, o4⟩
    · intro hh
      obtain ⟨o1, o2, o3⟩ := hout.inc (by rw [hun2]; exact hh)
      rw [hsame2.2.2.2.1] at o3
      exact ⟨o1.trans hun2, o2, o3⟩

end Sonic.Lemmas.FrameCodec
