/-
Refinement: every step of the CodecConn model is accepted by the frame-stream monitor
(`Sonic.Spec.FrameCodec.step`) and preserves the coupling between the two states.
-/
import Sonic.Lemmas.FrameCodecWrite

namespace Sonic.Lemmas.FrameCodec
open Sonic.Spec.FrameCodec Sonic.Model.FrameCodec

/-! ## coupling between the model and the monitor -/

/-- Reading half: the monitor's unparsed input is exactly what the model still holds. -/
structure RR (limit : Nat) (c : Conn) (s : S) : Prop where
  lim : s.limit = limit
  inv : RInv limit c
  inb : s.inb = unparsed c
  eof : s.eof = c.tr.eof
  rpend : s.rpend = c.rpend
  cap : s.cap = c.src.cap
  rej : s.rejected = true → front limit (unparsed c) = .tooBig

/-- Writing half: what the monitor says is owed to the peer is exactly what the destination buffer
(or the pending asynchronous write) still holds. -/
structure RW (c : Conn) (s : S) : Prop where
  ri : c.dst.ri = c.dst.data.length
  cap : c.dst.data.length ≤ c.dst.cap
  idle : c.wpend = none → s.wpend = none ∧ s.owed = c.dst.data
  busy : ∀ pw, c.wpend = some pw →
    s.wpend = some pw.buf.length ∧ pw.buf = c.dst.data ∧ pw.done ≤ pw.buf.length ∧ s.owed = pw.buf.drop pw.done

/-- The parts of a connection the write side never touches. -/
def SameR (c c' : Conn) : Prop :=
  c'.src = c.src ∧ c'.dec = c.dec ∧ c'.tr.inq = c.tr.inq ∧ c'.tr.eof = c.tr.eof ∧ c'.rpend = c.rpend

theorem RW_of_sameW {c c' : Conn} {s s' : S} (h : RW c s) (hs : SameW c c') (ho : s'.owed = s.owed)
    (hw : s'.wpend = s.wpend) : RW c' s' := by
  obtain ⟨a1, a2, _, _, _⟩ := hs
  refine ⟨by rw [a1]; exact h.ri, by rw [a1]; exact h.cap, ?_, ?_⟩
  · intro hn; rw [a2] at hn; rw [ho, hw, a1]; exact h.idle hn
  · intro pw hp; rw [a2] at hp; rw [ho, hw, a1]; exact h.busy pw hp

theorem RR_of_sameR {limit : Nat} {c c' : Conn} {s s' : S} (h : RR limit c s) (hs : SameR c c')
    (e1 : s'.limit = s.limit) (e2 : s'.inb = s.inb) (e3 : s'.eof = s.eof) (e4 : s'.rpend = s.rpend)
    (e5 : s'.cap = s.cap) (e6 : s'.rejected = s.rejected) : RR limit c' s' := by
  obtain ⟨a1, a2, a3, a4, a5⟩ := hs
  have hu : unparsed c' = unparsed c := by simp only [unparsed, a1, a2, a3]
  refine ⟨e1.trans h.lim, ⟨?_, ?_, ?_⟩, ?_, ?_, ?_, ?_, ?_⟩
  · rw [a1, a2]; exact h.inv.src
  · rw [a3]; exact h.inv.chunks
  · rw [a1, a2, a5]; exact h.inv.pend
  · rw [e2, hu]; exact h.inb
  · rw [e3, a4]; exact h.eof
  · rw [e4, a5]; exact h.rpend
  · rw [e5, a1]; exact h.cap
  · rw [e6, hu]; exact h.rej

/-- A read call that ran (postcondition `ROut`) is accepted by the monitor's `readDone`. -/
theorem readDone_refines {limit : Nat} {async : Bool} {c c' : Conn} {s : S} {st : RStat}
    (hR : RR limit c s) (hout : ROut limit async c c' st) (hnp : async = false → c.rpend = false) :
    ∃ s', readDone s async (robs c' st) = some s' ∧ RR limit c' s' ∧ s'.owed = s.owed ∧ s'.wpend = s.wpend ∧
      st ≠ .busy ∧ st ≠ .none := by
  have hlim := hR.lim
  have hinb := hR.inb
  cases hf : front limit (unparsed c) with
  | item p rest =>
    obtain ⟨h1, h2, h3⟩ := hout.item p rest hf
    subst h1
    have hrej : s.rejected = false := by
      cases hr : s.rejected
      · rfl
      · have := hR.rej hr; rw [hf] at this; cases this
    refine ⟨{ s with inb := rest, rpend := false, cap := c'.src.cap }, ?_, ⟨hlim, hout.inv, h2.symm, ?_, h3.symm, rfl, ?_⟩, rfl, rfl, by simp, by simp⟩
    · simp only [readDone, robs, hlim, hinb, hf, hrej]
      simp
    · show s.eof = c'.tr.eof; rw [hout.same.2.2.2.1]; exact hR.eof
    · intro hh; rw [hrej] at hh; cases hh
  | tooBig =>
    obtain ⟨h1, h2, h3, h4⟩ := hout.big hf
    subst h1
    refine ⟨{ s with rejected := true, rpend := false }, ?_, ⟨hlim, hout.inv, ?_, ?_, h4.symm, ?_, ?_⟩, rfl, rfl, by simp, by simp⟩
    · simp only [readDone, robs, hlim, hinb, hf, hR.cap, h3]
      simp
    · show s.inb = unparsed c'; rw [h2]; exact hinb
    · show s.eof = c'.tr.eof; rw [hout.same.2.2.2.1]; exact hR.eof
    · show s.cap = c'.src.cap; rw [h3]; exact hR.cap
    · intro _; rw [h2]; exact hf
  | incomplete =>
    obtain ⟨h1, h2, h3⟩ := hout.inc hf
    have hrej : s.rejected = false := by
      cases hr : s.rejected
      · rfl
      · have := hR.rej hr; rw [hf] at this; cases this
    have hst : Starved s := Or.inr (by rw [hlim, hinb]; exact hf)
    have heof' : s.eof = c'.tr.eof := by rw [hout.same.2.2.2.1]; exact hR.eof
    have hinb' : s.inb = unparsed c' := by rw [h1]; exact hinb
    have hrej' : s.rejected = true → front limit (unparsed c') = .tooBig := by
      intro hh; rw [hrej] at hh; cases hh
    cases he : c.tr.eof
    · rw [he] at h3
      cases async
      · simp only [Bool.false_eq_true, if_false] at h3
        obtain ⟨h4, h5⟩ := h3
        subst h4
        refine ⟨{ s with cap := c'.src.cap }, ?_, ⟨hlim, hout.inv, hinb', heof', ?_, rfl, hrej'⟩, rfl, rfl, by simp, by simp⟩
        · simp only [readDone, robs]; rw [if_pos ⟨trivial, hst⟩]
        · show s.rpend = c'.rpend; rw [h5, hR.rpend]; exact hnp rfl
      · simp only [Bool.false_eq_true, if_false, if_true] at h3
        obtain ⟨h4, h5⟩ := h3
        subst h4
        refine ⟨{ s with rpend := true, cap := c'.src.cap }, ?_, ⟨hlim, hout.inv, hinb', heof', h5.symm, rfl, hrej'⟩, rfl, rfl, by simp, by simp⟩
        simp only [readDone, robs]; rw [if_pos ⟨trivial, hst⟩]
    · rw [he] at h3
      simp only [if_true] at h3
      obtain ⟨h4, h5⟩ := h3
      subst h4
      refine ⟨{ s with rpend := false, cap := c'.src.cap }, ?_, ⟨hlim, hout.inv, hinb', heof', h5.symm, rfl, hrej'⟩, rfl, rfl, by simp, by simp⟩
      simp only [readDone, robs]; rw [if_pos ⟨by rw [hR.eof]; exact he, hst⟩]

theorem readNext_spec (limit : Nat) (async : Bool) (env : List Nat) (c : Conn) (hinv : RInv limit c)
    (hrp : c.rpend = false) :
    ∃ c' st, readNext limit async env c = (c', robs c' st) ∧ ROut limit async c c' st := by
  have h := readLoop_spec limit async (fuelFor c) env c hinv hrp (by simp [fuelFor, total])
  refine ⟨(readLoop limit async (fuelFor c) env c).1, (readLoop limit async (fuelFor c) env c).2, ?_, h⟩
  simp [readNext, hrp]

theorem pumpRead_spec (limit : Nat) (env : List Nat) (c : Conn) (hinv : RInv limit c) (hrp : c.rpend = true) :
    ∃ c' st, pumpRead limit env c = (c', robs c' st) ∧ ROut limit true c c' st := by
  obtain ⟨hres, hroom, hfc⟩ := hinv.pend hrp
  unfold pumpRead
  rw [if_pos hrp]
  by_cases hq : c.tr.inq = []
  · have hU : unparsed c = clean c.dec c.src := by simp [unparsed, hq]
    have hfU : front limit (unparsed c) = .incomplete := by rw [hU]; exact hfc
    rw [transportRead_empty true c hq]
    cases he : c.tr.eof
    · simp only [Bool.false_eq_true, if_false, if_true]
      refine ⟨_, _, rfl, rout_empty limit true c _ _ ⟨hinv.src, hinv.chunks, fun _ => hinv.pend hrp⟩
        ⟨rfl, rfl, rfl, rfl, rfl⟩ rfl hq hfU (by simp [he])⟩
    · simp only [if_true]
      refine ⟨_, _, rfl, rout_empty limit true c _ _ ⟨hinv.src, hinv.chunks, fun hh => by cases hh⟩
        ⟨rfl, rfl, rfl, rfl, rfl⟩ rfl hq hfU (by simp [he])⟩
  · obtain ⟨c2, hrd, hinv2, hrp2, hun2, _, hsame2, hcap2⟩ :=
      transportRead_some limit true c hinv.src hres hroom hinv.chunks hq
    rw [hrd]
    simp only
    have hout := readLoop_spec limit true (fuelFor c2) env c2 hinv2 hrp2 (by simp [fuelFor, total])
    refine ⟨_, _, rfl, hout.inv, sameW_trans hsame2 hout.same, ?_, ?_, ?_⟩
    · intro p rest hh; exact hout.item p rest (by rw [hun2]; exact hh)
    · intro hh
      obtain ⟨o1, o2, o3, o4⟩ := hout.big (by rw [hun2]; exact hh)
      exact ⟨o1, o2.trans hun2, o3.trans hcap2, o4⟩
    · intro hh
      obtain ⟨o1, o2, o3⟩ := hout.inc (by rw [hun2]; exact hh)
      rw [hsame2.2.2.2.1] at o3
      exact ⟨o1.trans hun2, o2, o3⟩

/-! ## write side -/

theorem consume_cap (b : BB) (n : Nat) : (b.consume n).cap = b.cap := by
  simp only [BB.consume]; split <;> (try split) <;> rfl

/-- Consuming `n` bytes of a fully committed buffer drops them from the front. -/
theorem consume_committed (b : BB) (n : Nat) (hri : b.ri = b.data.length) (hn : n ≤ b.data.length) :
    (b.consume n).data = b.data.drop n ∧ (b.consume n).ri = b.data.length - n := by
  simp only [BB.consume, BB.readLen, hri]
  by_cases h0 : n = 0
  · simp [h0, hri]
  · have : min n b.data.length = n := by omega
    simp only [h0, if_false, this]
    rw [if_pos (by omega)]
    exact ⟨rfl, rfl⟩

/-- `memStream.pumpWrite` + completion callback on a pending `AsyncWriteAll` of the whole destination buffer. -/
theorem pumpWrite_spec (c : Conn) (pw : PW) (hw : c.wpend = some pw) (hbuf : pw.buf = c.dst.data)
    (hri : c.dst.ri = c.dst.data.length) (hdone : pw.done ≤ pw.buf.length) :
    SameR c (pumpWrite c).1 ∧ (pumpWrite c).1.dst.cap = c.dst.cap ∧
    (((pumpWrite c).2 = { stat := .done, n := pw.buf.length, err := .nil, out := pw.buf.drop pw.done, rlen := 0, wlen := 0 } ∧
        (pumpWrite c).1.dst.data = [] ∧ (pumpWrite c).1.dst.ri = 0 ∧ (pumpWrite c).1.wpend = none) ∨
     (∃ d', pw.done ≤ d' ∧ d' < pw.buf.length ∧
        (pumpWrite c).2 = { stat := .pending, n := 0, err := .nil, out := (pw.buf.drop pw.done).take (d' - pw.done),
                            rlen := c.dst.ri, wlen := 0 } ∧
        (pumpWrite c).1.dst = c.dst ∧ (pumpWrite c).1.wpend = some { buf := pw.buf, done := d' })) := by
  obtain ⟨l1, l2, l3, l4⟩ := pumpLoop_spec c.tr.plan (pw.buf.drop pw.done) pw.done
  have hlen : (pw.buf.drop pw.done).length = pw.buf.length - pw.done := List.length_drop
  unfold pumpWrite
  rw [hw]
  simp only
  generalize hpl : pumpLoop c.tr.plan (pw.buf.drop pw.done) pw.done = o at *
  obtain ⟨r, d', plan'⟩ := o
  simp only at l1 l2 l3 l4
  cases r with
  | some total =>
    obtain ⟨t1, t2⟩ := l3 total rfl
    have ht : total = pw.buf.length := by omega
    obtain ⟨hc1, hc2⟩ := consume_committed c.dst total hri (by rw [ht, hbuf]; exact Nat.le_refl _)
    have hc1' : (c.dst.consume total).data = [] := by rw [hc1, ht, hbuf]; simp
    have hc2' : (c.dst.consume total).ri = 0 := by rw [hc2, ht, hbuf]; simp
    refine ⟨⟨rfl, rfl, rfl, rfl, rfl⟩, consume_cap _ _, Or.inl ⟨?_, hc1', hc2', rfl⟩⟩
    simp only [wobs, BB.readLen, BB.writeLen, hc1', hc2']
    have : (pw.buf.drop pw.done).take (d' - pw.done) = pw.buf.drop pw.done := by
      apply List.take_of_length_le; omega
    rw [this, ht]; rfl
  | none =>
    have := l4 rfl
    refine ⟨⟨rfl, rfl, rfl, rfl, rfl⟩, rfl, Or.inr ⟨d', l1, by omega, ?_, rfl, rfl⟩⟩
    simp only [wobs, BB.readLen, BB.writeLen, hri]
    simp

/-- `Encode` followed by `Commit(WriteLen())` on a fully committed buffer: the frame is appended and committed. -/
theorem encode_commit (limit slack : Nat) (b : BB) (p : Bytes) (hri : b.ri = b.data.length)
    (hcap : b.data.length ≤ b.cap) (hp : ¬ p.length > limit) :
    ∃ b', encode limit slack b p = (b', .ok) ∧ (b'.commit b'.writeLen).data = b.data ++ frame p ∧
      (b'.commit b'.writeLen).ri = (b.data ++ frame p).length ∧
      (b'.commit b'.writeLen).data.length ≤ (b'.commit b'.writeLen).cap ∧
      (b'.commit b'.writeLen).view = b.data ++ frame p := by
  obtain ⟨b', he, hd, hr, hc⟩ := encode_ok limit slack b p hcap hp
  have hfl : (frame p).length = 4 + p.length := by simp [frame, be32]; omega
  have hwl : b'.writeLen = 4 + p.length := by
    simp only [BB.writeLen, hd, hr, hri, List.length_append, hfl]; omega
  have hcm : b'.commit b'.writeLen = { b' with ri := b'.data.length } := by
    simp only [BB.commit, hwl]
    rw [if_neg (by omega)]
    simp only [hd, hr, hri, List.length_append, hfl]
    congr 1; omega
  refine ⟨b', he, ?_, ?_, ?_, ?_⟩
  · rw [hcm]; exact hd
  · rw [hcm]; show b'.data.length = _; rw [hd]
  · rw [hcm]; exact hc
  · rw [hcm]; simp only [BB.view]; rw [List.take_length]; exact hd

/-- The monitor fields the write side never touches. -/
def SameRS (s s' : S) : Prop :=
  s'.limit = s.limit ∧ s'.inb = s.inb ∧ s'.eof = s.eof ∧ s'.rpend = s.rpend ∧ s'.cap = s.cap ∧ s'.rejected = s.rejected

theorem take_isPrefixOf (l : Bytes) (n : Nat) : (l.take n).isPrefixOf l = true :=
  List.isPrefixOf_iff_prefix.mpr (List.take_prefix n l)

theorem self_isPrefixOf (l : Bytes) : l.isPrefixOf l = true :=
  List.isPrefixOf_iff_prefix.mpr (List.prefix_refl l)

/-- `pump`, write side. -/
theorem onPumpWrite_refines (c : Conn) (s : S) (hW : RW c s) :
    ∃ s', onPumpWrite s (pumpWrite c).2 = some s' ∧ RW (pumpWrite c).1 s' ∧ SameR c (pumpWrite c).1 ∧ SameRS s s' := by
  cases hw : c.wpend with
  | none =>
    obtain ⟨i1, i2⟩ := hW.idle hw
    have hp : pumpWrite c = (c, wobs c .none 0 .nil []) := by simp [pumpWrite, hw]
    rw [hp]
    refine ⟨s, ?_, hW, ⟨rfl, rfl, rfl, rfl, rfl⟩, ⟨rfl, rfl, rfl, rfl, rfl, rfl⟩⟩
    simp [onPumpWrite, wobs, i1]
  | some pw =>
    obtain ⟨b1, b2, b3, b4⟩ := hW.busy pw hw
    obtain ⟨hsame, hcap, hcase⟩ := pumpWrite_spec c pw hw b2 hW.ri b3
    rcases hcase with ⟨ho, hd, hr, hwp⟩ | ⟨d', hd1, hd2, ho, hdst, hwp⟩
    · rw [ho]
      refine ⟨{ s with owed := [], wpend := none }, ?_, ⟨by rw [hr, hd]; rfl, by rw [hd]; exact Nat.zero_le _, fun _ => ⟨rfl, hd.symm⟩, fun pw' hp => by rw [hwp] at hp; cases hp⟩, hsame,
        ⟨rfl, rfl, rfl, rfl, rfl, rfl⟩⟩
      simp only [onPumpWrite, b1, writeDone, b4, self_isPrefixOf]
      simp; omega
    · rw [ho]
      have hlen : (pw.buf.drop pw.done).length = pw.buf.length - pw.done := List.length_drop
      have htl : ((pw.buf.drop pw.done).take (d' - pw.done)).length = d' - pw.done := List.length_take_of_le (by omega)
      refine ⟨{ s with owed := pw.buf.drop d' }, ?_, ⟨by rw [hdst]; exact hW.ri, by rw [hdst]; exact hW.cap, (fun hn => by rw [hwp] at hn; cases hn), ?_⟩, hsame,
        ⟨rfl, rfl, rfl, rfl, rfl, rfl⟩⟩
      · simp only [onPumpWrite, b1, b4, take_isPrefixOf, htl, List.drop_drop]
        have : pw.done + (d' - pw.done) = d' := by omega
        simp only [this, if_true]
      · intro pw' hp
        rw [hwp] at hp
        injection hp with hp
        subst hp
        exact ⟨b1, by rw [hdst]; exact b2, by show d' ≤ pw.buf.length; omega, rfl⟩

/-- `WriteNext`. -/
theorem writeNext_refines (limit slack : Nat) (c : Conn) (s : S) (p : Bytes) (hW : RW c s) (hlim : s.limit = limit) :
    ∃ s', Spec.FrameCodec.step s (.write p) (.w (writeNext limit slack c p).2) = some s' ∧ RW (writeNext limit slack c p).1 s' ∧
      SameR c (writeNext limit slack c p).1 ∧ SameRS s s' := by
  cases hw : c.wpend with
  | some pw =>
    obtain ⟨b1, _, _, _⟩ := hW.busy pw hw
    have hp : writeNext limit slack c p = (c, wobs c .busy 0 .nil []) := by simp [writeNext, hw]
    rw [hp]
    exact ⟨s, by simp [Spec.FrameCodec.step, wobs, b1], hW, ⟨rfl, rfl, rfl, rfl, rfl⟩, ⟨rfl, rfl, rfl, rfl, rfl, rfl⟩⟩
  | none =>
    obtain ⟨i1, i2⟩ := hW.idle hw
    by_cases hbig : p.length > limit
    · have hp : writeNext limit slack c p = (c, wobs c .done 0 .toobig []) := by
        simp [writeNext, hw, encode_big limit slack c.dst p hbig]
      rw [hp]
      refine ⟨s, ?_, hW, ⟨rfl, rfl, rfl, rfl, rfl⟩, ⟨rfl, rfl, rfl, rfl, rfl, rfl⟩⟩
      simp [Spec.FrameCodec.step, wobs, i1, hlim, hbig]
    · obtain ⟨b', he, hd, hr, hc, hv⟩ := encode_commit limit slack c.dst p hW.ri hW.cap hbig
      obtain ⟨l1, l2, l3, l4⟩ := writeLoop_spec c.tr.plan (c.dst.data ++ frame p) 0
      unfold writeNext
      simp only [hw, Option.isSome_none, Bool.false_eq_true, if_false, he, hv]
      generalize hwl : writeLoop c.tr.plan (c.dst.data ++ frame p) 0 = o at *
      obtain ⟨w, e, plan'⟩ := o
      simp only at l1 l2 l3 l4 ⊢
      generalize b'.commit b'.writeLen = bb at *
      have hwle : w ≤ bb.data.length := by rw [hd]; omega
      obtain ⟨hc1, hc2⟩ := consume_committed bb w (by rw [hr, hd]) hwle
      have htl : ((c.dst.data ++ frame p).take w).length = w := List.length_take_of_le (by omega)
      refine ⟨{ s with owed := (c.dst.data ++ frame p).drop w, wpend := none }, ?_,
        ⟨by rw [hc1, hc2]; simp, by rw [consume_cap, hc1]; simp; omega, fun _ => ⟨rfl, by rw [hc1, hd]⟩, fun pw hp => by cases hp⟩,
        ⟨rfl, rfl, rfl, rfl, rfl⟩, ⟨rfl, rfl, rfl, rfl, rfl, rfl⟩⟩
      simp only [Spec.FrameCodec.step, wobs, i1, hlim, i2, Option.isSome_none, Bool.false_eq_true, if_false, hbig, writeDone,
        take_isPrefixOf, htl, BB.readLen, BB.writeLen, hc1, hc2, true_and]
      rw [if_pos]
      refine ⟨l3, fun h => ?_⟩
      have hw' := l4 h
      rw [hd]
      have : w = (c.dst.data ++ frame p).length := by omega
      subst this
      simp only [List.take_length, List.drop_length, List.length_nil, Nat.sub_self, and_self]

/-- `AsyncWriteNext`. -/
theorem asyncWriteNext_refines (limit slack : Nat) (c : Conn) (s : S) (p : Bytes) (hW : RW c s) (hlim : s.limit = limit) :
    ∃ s', Spec.FrameCodec.step s (.awrite p) (.w (asyncWriteNext limit slack c p).2) = some s' ∧
      RW (asyncWriteNext limit slack c p).1 s' ∧ SameR c (asyncWriteNext limit slack c p).1 ∧ SameRS s s' := by
  cases hw : c.wpend with
  | some pw =>
    obtain ⟨b1, _, _, _⟩ := hW.busy pw hw
    have hp : asyncWriteNext limit slack c p = (c, wobs c .busy 0 .nil []) := by simp [asyncWriteNext, hw]
    rw [hp]
    exact ⟨s, by simp [Spec.FrameCodec.step, wobs, b1], hW, ⟨rfl, rfl, rfl, rfl, rfl⟩, ⟨rfl, rfl, rfl, rfl, rfl, rfl⟩⟩
  | none =>
    obtain ⟨i1, i2⟩ := hW.idle hw
    by_cases hbig : p.length > limit
    · have hp : asyncWriteNext limit slack c p = (c, wobs c .done 0 .toobig []) := by
        simp [asyncWriteNext, hw, encode_big limit slack c.dst p hbig]
      rw [hp]
      refine ⟨s, ?_, hW, ⟨rfl, rfl, rfl, rfl, rfl⟩, ⟨rfl, rfl, rfl, rfl, rfl, rfl⟩⟩
      simp [Spec.FrameCodec.step, wobs, i1, hlim, hbig]
    · obtain ⟨b', he, hd, hr, hc, hv⟩ := encode_commit limit slack c.dst p hW.ri hW.cap hbig
      unfold asyncWriteNext
      simp only [hw, Option.isSome_none, Bool.false_eq_true, if_false, he, hv]
      generalize b'.commit b'.writeLen = bb at *
      generalize hc' : ({ c with dst := bb, wpend := some { buf := c.dst.data ++ frame p, done := 0 } } : Conn) = c1
      have e_dst : c1.dst = bb := by rw [← hc']
      have e_wp : c1.wpend = some { buf := c.dst.data ++ frame p, done := 0 } := by rw [← hc']
      have e_same : SameR c c1 := by rw [← hc']; exact ⟨rfl, rfl, rfl, rfl, rfl⟩
      by_cases hdf : c.tr.deferW = true
      · simp only [hdf, if_true]
        refine ⟨{ s with owed := c.dst.data ++ frame p, wpend := some (c.dst.data ++ frame p).length }, ?_,
          ⟨(by rw [e_dst, hr, hd]), (by rw [e_dst]; exact hc), (fun hn => by rw [e_wp] at hn; cases hn), ?_⟩, e_same, ⟨rfl, rfl, rfl, rfl, rfl, rfl⟩⟩
        · simp [Spec.FrameCodec.step, wobs, i1, hlim, i2, hbig]
        · intro pw hp
          rw [e_wp] at hp; injection hp with hp; subst hp
          exact ⟨rfl, by rw [e_dst, hd], Nat.zero_le _, rfl⟩
      · simp only [hdf, Bool.false_eq_true, if_false]
        obtain ⟨hsame, hcap, hcase⟩ := pumpWrite_spec c1 _ e_wp (by rw [e_dst, hd]) (by rw [e_dst, hr, hd]) (Nat.zero_le _)
        have hsameR : SameR c (pumpWrite c1).1 := by
          obtain ⟨a1, a2, a3, a4, a5⟩ := e_same
          obtain ⟨b1, b2, b3, b4, b5⟩ := hsame
          exact ⟨b1.trans a1, b2.trans a2, b3.trans a3, b4.trans a4, b5.trans a5⟩
        simp only [List.drop_zero, Nat.sub_zero] at hcase
        rcases hcase with ⟨ho, hd', hr', hwp⟩ | ⟨d', hd1, hd2, ho, hdst, hwp⟩
        · rw [ho]
          refine ⟨{ s with owed := [], wpend := none }, ?_,
            ⟨(by rw [hr', hd']; rfl), (by rw [hd']; exact Nat.zero_le _), (fun _ => ⟨rfl, hd'.symm⟩), (fun pw' hp => by rw [hwp] at hp; cases hp)⟩,
            hsameR, ⟨rfl, rfl, rfl, rfl, rfl, rfl⟩⟩
          simp [Spec.FrameCodec.step, i1, hlim, i2, hbig, writeDone, self_isPrefixOf]
        · rw [ho]
          have htl : ((c.dst.data ++ frame p).take d').length = d' := List.length_take_of_le (by omega)
          refine ⟨{ s with owed := (c.dst.data ++ frame p).drop d', wpend := some (c.dst.data ++ frame p).length }, ?_,
            ⟨(by rw [hdst, e_dst, hr, hd]), (by rw [hdst, e_dst]; exact hc), (fun hn => by rw [hwp] at hn; cases hn), ?_⟩,
            hsameR, ⟨rfl, rfl, rfl, rfl, rfl, rfl⟩⟩
          · simp [Spec.FrameCodec.step, i1, hlim, i2, hbig, take_isPrefixOf, htl]
          · intro pw' hp
            rw [hwp] at hp; injection hp with hp; subst hp
            exact ⟨rfl, by rw [hdst, e_dst, hd], Nat.le_of_lt hd2, rfl⟩

end Sonic.Lemmas.FrameCodec
