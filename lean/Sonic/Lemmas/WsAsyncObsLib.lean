/-
Effects of the library code of the asynchronous WebSocket model on what an observer sees (for the refinement
`Props/C17.lean: C17_monitor_accepts_model`): the flush machinery (`asyncFlush`, `asyncFlushGo`, `flushDone`) changes
nothing an application or the peer observes except that it schedules completions (`Fl`), and every callback stays of
the kind it was started as (`locs`: where the library holds callbacks, with the kind of call they belong to).
-/
import Sonic.Lemmas.WsAsyncStep

/-- close a goal that is a disjunction one of whose members is a hypothesis -/
syntax "mem_or" : tactic
macro_rules
  | `(tactic| mem_or) => `(tactic| first | assumption | rfl | trivial | (apply Or.inl; mem_or) | (apply Or.inr; mem_or))

namespace Sonic.Model.WsAsync

/-- the kind of call a held callback belongs to: write side, frame read, message read, some read -/
inductive LK where
  | w | f | m | r
  deriving DecidableEq, Repr

def LK.isRd : LK → Bool
  | .w => false
  | _ => true

def RKind.lk : RKind → LK
  | .frame => .f
  | .message .. => .m

def contK : Cont → List (CbId × LK)
  | .user cb => [(cb, .w)]
  | .readStart cb rk => [(cb, rk.lk)]
  | .discard => []

def taskK : Task → List (CbId × LK)
  | .invoke cb _ isRead => [(cb, if isRead then .r else .w)]
  | .resume cb rk _ => [(cb, rk.lk)]
  | .again cb rk => [(cb, rk.lk)]
  | _ => []

def wrK (s : St) : List (CbId × LK) := match s.wr with | some w => contK w.k | none => []
def rdK (s : St) : List (CbId × LK) := match s.rd with | some (cb, rk) => [(cb, rk.lk)] | none => []

/-- every callback the library holds, with the kind of call it belongs to (`owedList` with more detail) -/
def locs (s : St) : List (CbId × LK) := s.waiters.flatMap contK ++ wrK s ++ rdK s ++ s.stack.flatMap taskK

def eraseK (p : CbId × LK) : Ow := (p.1, p.2.isRd)

theorem contK_erase (k : Cont) : (contK k).map eraseK = contCbs k := by
  cases k with
  | user cb => rfl
  | readStart cb rk => cases rk <;> rfl
  | discard => rfl

theorem taskK_erase (t : Task) : (taskK t).map eraseK = taskCbs t := by
  cases t with
  | invoke cb r isRead => cases isRead <;> rfl
  | resume cb rk ok => cases rk <;> rfl
  | again cb rk => cases rk <;> rfl
  | _ => rfl

theorem flatMap_erase {α : Type} (l : List α) (f : α → List (CbId × LK)) (g : α → List Ow)
    (h : ∀ a, (f a).map eraseK = g a) : (l.flatMap f).map eraseK = l.flatMap g := by
  induction l with
  | nil => rfl
  | cons a r ih => simp only [List.flatMap_cons, List.map_append, h, ih]

theorem owed_eq_locs (s : St) : owedList s = (locs s).map eraseK := by
  simp only [owedList, locs, List.map_append, flatMap_erase _ _ _ contK_erase, flatMap_erase _ _ _ taskK_erase]
  congr 2
  · congr 1
    simp only [wrCbs, wrK]
    cases s.wr with
    | none => rfl
    | some w => exact (contK_erase w.k).symm
  · simp only [rdCbs, rdK]
    cases s.rd with
    | none => rfl
    | some p => obtain ⟨cb, rk⟩ := p; cases rk <;> rfl

/-- What the flush machinery leaves alone. -/
def vis (s : St) := (s.ws, s.submitted, s.started, s.log, s.readBusy, s.inbox, s.rx, s.wire, s.healthy, s.rd)

/-- tasks the flush machinery schedules: completions of write-side callbacks with the flush's result, and the
continuation of a read -/
def quietT (ok : Bool) : Task → Prop
  | .invoke _ r false => r = (if ok then .ok else .err)
  | .resume _ _ ok' => ok' = ok
  | _ => False

/-- Effect of flush code run for callback `k`. -/
structure Fl (ok : Bool) (s s' : St) (k : Cont) : Prop where
  vis : vis s' = vis s
  stack : ∃ new, s'.stack = new ++ s.stack ∧ ∀ t ∈ new, quietT ok t
  rdl : ∀ p ∈ locs s', p ∈ locs s ∨ p ∈ contK k

theorem contTask_quiet (k : Cont) (ok : Bool) : ∀ t ∈ contTask k ok, quietT ok t := by
  intro t ht
  cases k with
  | user cb => simp only [contTask, List.mem_singleton] at ht; subst ht; rfl
  | readStart cb rk => simp only [contTask, List.mem_singleton] at ht; subst ht; rfl
  | discard => simp [contTask] at ht

theorem contTask_K (k : Cont) (ok : Bool) : (contTask k ok).flatMap taskK = contK k := by
  cases k <;> simp [contTask, taskK, contK]

theorem waiters_K (ws : List Cont) (ok : Bool) : (ws.flatMap (contTask · ok)).flatMap taskK = ws.flatMap contK := by
  rw [List.flatMap_assoc]
  congr 1
  funext k
  exact contTask_K k ok

theorem flushDone_fl (s : St) (k : Cont) (ok : Bool) : Fl ok s (flushDone true s k ok) k := by
  refine ⟨rfl, ⟨contTask k ok ++ s.waiters.flatMap (contTask · ok), by simp [flushDone, push], ?_⟩, ?_⟩
  · intro t ht
    rcases List.mem_append.1 ht with h | h
    · exact contTask_quiet k ok t h
    · obtain ⟨k', _, hk'⟩ := List.mem_flatMap.1 h
      exact contTask_quiet k' ok t hk'
  · intro p hp
    simp only [locs, flushDone, push, if_true, wrK, rdK, List.flatMap_append, contTask_K, waiters_K, List.flatMap_nil,
      List.nil_append, List.mem_append, or_assoc] at hp ⊢
    rcases hp with h | h | h | h | h <;> mem_or

theorem asyncFlushGo_fl (s : St) (k : Cont) : Fl true s (asyncFlushGo true s k) k := by
  unfold asyncFlushGo
  split
  · exact flushDone_fl s k true
  · rename_i f rest hp
    refine ⟨?_, ⟨[], ?_, fun _ h => by cases h⟩, ?_⟩
    · unfold startWrite; split <;> rfl
    · unfold startWrite; split <;> rfl
    · intro p hp
      have : p ∈ s.waiters.flatMap contK ∨ p ∈ contK k ∨ p ∈ rdK s ∨ p ∈ s.stack.flatMap taskK := by
        unfold startWrite at hp
        split at hp <;> simpa [locs, wrK, rdK, List.mem_append, or_assoc] using hp
      simp only [locs, List.mem_append]
      rcases this with h | h | h | h <;> mem_or

theorem asyncFlush_fl (s : St) (k : Cont) : Fl true s (asyncFlush true s k) k := by
  unfold asyncFlush
  simp only [if_true]
  split
  · refine ⟨rfl, ⟨[], rfl, fun _ h => by cases h⟩, ?_⟩
    intro p hp
    simp only [locs, wrK, rdK, List.flatMap_append, List.mem_append, List.flatMap_cons, List.flatMap_nil,
      List.append_nil, or_assoc] at hp ⊢
    rcases hp with h | h | h | h | h <;> mem_or
  · have h := asyncFlushGo_fl { s with flushing := true } k
    exact ⟨h.vis, h.stack, h.rdl⟩

/-- With a frame queued, `AsyncFlush` starts (or joins) a write and completes nothing inside the call. -/
theorem asyncFlush_nopush (s : St) (k : Cont) (hp : s.pending ≠ []) : (asyncFlush true s k).stack = s.stack := by
  unfold asyncFlush
  simp only [if_true]
  split
  · rfl
  · unfold asyncFlushGo
    split
    · rename_i h; exact absurd h hp
    · unfold startWrite; split <;> rfl

theorem Fl.fields {ok : Bool} {s s' : St} {k : Cont} (h : Fl ok s s' k) :
    s'.ws = s.ws ∧ s'.submitted = s.submitted ∧ s'.started = s.started ∧ s'.log = s.log ∧ s'.readBusy = s.readBusy ∧
    s'.inbox = s.inbox ∧ s'.rx = s.rx ∧ s'.wire = s.wire ∧ s'.healthy = s.healthy ∧ s'.rd = s.rd := by
  have := h.vis
  simp only [Sonic.Model.WsAsync.vis, Prod.mk.injEq] at this
  exact this

theorem asyncFlush_submitted (s : St) (k : Cont) : (asyncFlush true s k).submitted = s.submitted := by
  have := (asyncFlush_fl s k).vis
  simp only [vis, Prod.mk.injEq] at this
  exact this.2.1

end Sonic.Model.WsAsync
