/-
C06, composition steps 2–4: from "the reader returns the first frame ahead" (Lemmas/WsMsgRead.lean) to "the message
API delivers the messages".

* step 2 (`nextFrame_head`, `nextFrame_end`): NextFrame/AsyncNextFrame on a stream whose bytes ahead start with the
  encoding of a frame a conforming peer may send (data frame, Ping, Pong) return that frame without error, stay
  `active` and leave the rest ahead; with nothing ahead they pass on the transport's "no data".  Uses `parse_encode`
  (C07) and `hf_ok` (C08: handleFrame on a conforming frame).
* step 3 (`nm_ctls`, `nm_parts`): the assembly loop of NextMessage/asyncNextMessage over the frames of one message —
  induction over the fragment list and the control frames in front of each fragment.
* step 4 (`runMsgs_session`, `runFrames_frames`): induction over the message list / frame list of a session.
-/
import Sonic.Lemmas.WsMsgRead
import Sonic.Lemmas.WsRefine
import Sonic.Lemmas.WsEncodeSpec
import Sonic.Spec.WsMessages

set_option linter.unusedSimpArgs false

namespace Sonic.Lemmas.WsMsg
open Sonic.Model.WsBuf Sonic.Model.WsFrame Sonic.Spec.WsFrame Sonic.Model.WsMsg Sonic.Spec.WsMessages
open Sonic.Model.WsStream (Next Asm handleFrame flush canRead isControl)
open Sonic.Spec.WsStream (Err InFrame isViolation)
open Sonic.Lemmas.WsRefine (conform hf_ok)

/-- A frame a conforming peer sends to a receiver whose maximum is `max`: no reserved bits, not masked, a data frame
or a whole Ping/Pong of at most 125 bytes. -/
def FrOk (max : Nat) (f : Frame) : Prop :=
  f.rsv1 = false ∧ f.rsv2 = false ∧ f.rsv3 = false ∧ f.masked = false ∧ f.mask = [] ∧ f.payload.length ≤ max ∧
  ((f.opcode = 0 ∨ f.opcode = 1 ∨ f.opcode = 2) ∨ ((f.opcode = 9 ∨ f.opcode = 10) ∧ f.fin = true ∧ f.payload.length ≤ 125))

/-- Invariant of a stream that is reading a conforming session. -/
structure SInv (w : W) : Prop where
  ci : w.c.Inv
  mx : w.c.max = (w.m.max : Int)
  st : w.m.state = .active

theorem toIn_ok {max : Nat} {f : Frame} (h : FrOk max f) : toIn f = inFrameOf f := by
  obtain ⟨h1, h2, h3, h4, _⟩ := h
  unfold toIn inFrameOf
  rw [h1, h2, h3, h4]; rfl

theorem conforming {max : Nat} {f : Frame} (h : FrOk max f) : isViolation (inFrameOf f) = false := by
  obtain ⟨_, _, _, _, _, _, h7⟩ := h
  unfold isViolation inFrameOf Sonic.Spec.WsStream.reservedOp Sonic.Spec.WsStream.controlOp
  rcases h7 with h | ⟨h, hf, hl⟩
  · rcases h with h | h | h <;> rw [h] <;> simp
  · rcases h with h | h <;> rw [h, hf] <;> simp <;> omega

theorem conform_keeps {max : Nat} {f : Frame} (h : FrOk max f) (m : Sonic.Model.WsStream.M) :
    (conform m (inFrameOf f)).state = m.state ∧ (conform m (inFrameOf f)).max = m.max := by
  obtain ⟨_, _, _, _, _, _, h7⟩ := h
  unfold conform inFrameOf
  dsimp only
  by_cases h9 : f.opcode = 9
  · rw [if_pos h9]; split <;> exact ⟨rfl, rfl⟩
  · rw [if_neg h9]
    have h8 : f.opcode ≠ 8 := by
      rcases h7 with h | ⟨h, _⟩
      · rcases h with h | h | h <;> omega
      · rcases h with h | h <;> omega
    rw [if_neg h8]; exact ⟨rfl, rfl⟩

theorem wf_of_ok {max : Nat} {f : Frame} (h : FrOk max f) (hm : (2 * (max : Int)) + 14 ≤ Go.I64MAX) : f.WF := by
  obtain ⟨_, _, _, h4, h5, h6, h7⟩ := h
  refine ⟨?_, ?_, ?_⟩
  · rcases h7 with h | ⟨h, _⟩
    · rcases h with h | h | h <;> omega
    · rcases h with h | h <;> omega
  · rw [h4]; simpa using h5
  · unfold Go.I64MAX at hm; omega

theorem parse_nil (max : Int) : parse max [] = .needMore := by unfold parse; simp

/-- **NextFrame with a conforming frame ahead**, blocking or asynchronous. -/
theorem nextFrame_head (async : Bool) (w : W) (f : Frame) (t : List UInt8) (hS : SInv w) (hf : FrOk w.m.max f)
    (hrem : rem w = encode f ++ t) :
    nextFrame async w = .error (.buf .env) ∨
    ∃ w', nextFrame async w = .ok (w', .nil, some (inFrameOf f)) ∧ SInv w' ∧ w'.m.max = w.m.max ∧ rem w' = t := by
  obtain ⟨hci, hmx, hst⟩ := hS
  have hm2 : (2 * (w.m.max : Int)) + 14 ≤ Go.I64MAX := by rw [← hmx]; exact hci.2.2.1
  have hcr : canRead (flush w.m) = true := by unfold canRead flush; rw [hst]; rfl
  have hp : parse w.c.max (rem ({ w with m := flush w.m } : W)) = .frame f (encode f).length := by
    show parse w.c.max (rem w) = _
    rw [hrem]
    exact parse_encode _ f t (wf_of_ok hf hm2) (by rw [hmx]; exact_mod_cast hf.2.2.2.2.2.1)
  unfold nextFrame
  simp only [hcr, Bool.not_true, Bool.false_eq_true, if_false]
  unfold nextFrameInner readNext
  rcases readNextFuel_frame _ ({ w with m := flush w.m } : W) f _ hci hp (Nat.le_refl _) with he | ⟨w1, h1, i1, m1, mm1, r1⟩
  · left; rw [he]; rfl
  · right
    have hst1 : w1.m.state = .active := by rw [mm1]; exact hst
    have hh := hf_ok w1.m (inFrameOf f) (conforming hf) (Or.inl hst1)
    obtain ⟨ks, km⟩ := conform_keeps hf w1.m
    have hne1 : (Err.nil == Err.eof) = false := by decide
    simp only [h1, ebind_ok, toIn_ok hf, hh, epure, hne1, Bool.and_false, Bool.false_eq_true, if_false]
    refine ⟨_, rfl, ⟨i1, ?_, ?_⟩, ?_, ?_⟩
    · show w1.c.max = ((conform w1.m (inFrameOf f)).max : Int)
      rw [km, m1, mm1]; exact hmx
    · show (conform w1.m (inFrameOf f)).state = .active
      rw [ks]; exact hst1
    · show (conform w1.m (inFrameOf f)).max = w.m.max
      rw [km, mm1]; rfl
    · show rem ({ w1 with m := conform w1.m (inFrameOf f) } : W) = t
      have : rem ({ w1 with m := conform w1.m (inFrameOf f) } : W) = rem w1 := rfl
      rw [this, r1]
      show (rem w).drop _ = t
      rw [hrem, List.drop_left' rfl]

/-- **NextFrame with nothing ahead**: the transport's "no data" is passed on; nothing changes. -/
theorem nextFrame_end (async : Bool) (w : W) (hS : SInv w) (hrem : rem w = []) :
    nextFrame async w = .error (.buf .env) ∨
    ∃ w', nextFrame async w = .ok (w', .nodata, none) ∧ SInv w' ∧ w'.m.max = w.m.max ∧ rem w' = [] := by
  obtain ⟨hci, hmx, hst⟩ := hS
  have hcr : canRead (flush w.m) = true := by unfold canRead flush; rw [hst]; rfl
  have hp : parse w.c.max (rem ({ w with m := flush w.m } : W)) = .needMore := by
    show parse w.c.max (rem w) = _
    rw [hrem]; exact parse_nil _
  unfold nextFrame
  simp only [hcr, Bool.not_true, Bool.false_eq_true, if_false]
  unfold nextFrameInner readNext
  rcases readNextFuel_drained _ ({ w with m := flush w.m } : W) hci hp (Nat.le_refl _) with he | ⟨w1, h1, i1, m1, mm1, r1, _⟩
  · left; rw [he]; rfl
  · right
    have hne : ¬ (Err.nodata = Err.eof) := by intro h; cases h
    have hne1 : (Err.nodata == Err.eof) = false := by decide
    refine ⟨w1, ?_, ⟨i1, ?_, ?_⟩, ?_, ?_⟩
    · simp only [h1, ebind_ok, epure, hne, if_false]
      simp only [hne1, Bool.and_false, Bool.false_eq_true, if_false]
    · rw [m1, mm1]; exact hmx
    · rw [mm1]; exact hst
    · rw [mm1]; rfl
    · rw [r1]; exact hrem

/-! ## The assembly loop -/

theorem ctlFrame_ok {max : Nat} {c : Ctl} (h : CtlOk max c) : FrOk max (ctlFrame c) := by
  obtain ⟨hop, h125, hmax⟩ := h
  exact ⟨rfl, rfl, rfl, rfl, rfl, hmax, Or.inr ⟨hop, rfl, h125⟩⟩

theorem asm_ctl_nil (a : Asm) : ({ a with ctl := a.ctl ++ ctlSeen [] } : Asm) = a := by
  cases a; simp [ctlSeen]

theorem nm_fail {async : Bool} {buf fuel : Nat} {w : W} {a : Asm} {x : Fail} (h : nextFrame async w = .error x) :
    nextMessageFuel async buf (fuel + 1) w a = .error x := by
  show (nextFrame async w >>= _) = _
  rw [h]; rfl

/-- One turn of the loop when the frame API delivered a frame. -/
theorem nm_step {async : Bool} {buf fuel : Nat} {w w1 : W} {a : Asm} {f : InFrame}
    (h : nextFrame async w = .ok (w1, .nil, some f)) :
    nextMessageFuel async buf (fuel + 1) w a = onFrame (nextMessageFuel async buf fuel) buf w1 a f := by
  show (nextFrame async w >>= _) = _
  rw [h]
  simp only [ebind_ok, ne_eq, not_true_eq_false, if_false]

/-- One turn of the loop when the frame API reported an error: the loop ends with it. -/
theorem nm_stop {async : Bool} {buf fuel : Nat} {w w1 : W} {a : Asm} {e : Err} {fo : Option InFrame}
    (h : nextFrame async w = .ok (w1, e, fo)) (he : e ≠ .nil) :
    nextMessageFuel async buf (fuel + 1) w a = .ok (w1, e, a) := by
  show (nextFrame async w >>= _) = _
  rw [h]
  simp only [ebind_ok, ne_eq, he, not_false_eq_true, if_true, epure]

theorem onFrame_ctl (k : W → Asm → X (W × Err × Asm)) (buf : Nat) (w : W) (a : Asm) (f : InFrame)
    (h : isControl f.op = true) : onFrame k buf w a f = k w { a with ctl := a.ctl ++ [(f.op, f.payload)] } := by
  unfold onFrame; rw [if_pos h]

/-- A data frame that fits and obeys the fragmentation rule: copied behind what was assembled; the loop ends at FIN. -/
theorem onFrame_data (k : W → Asm → X (W × Err × Asm)) (buf : Nat) (w : W) (a : Asm) (f : InFrame)
    (hc : isControl f.op = false) (hfit : a.n + f.payload.length ≤ buf) (hmax : a.n + f.payload.length ≤ w.m.max)
    (he : (if (!a.cont) = true then (if f.op = 0 then Err.unexpCont else Err.nil)
           else (if f.op ≠ 0 then Err.expCont else Err.nil)) = Err.nil) :
    onFrame k buf w a f =
      if f.fin = true then
        .ok (w, .nil, { a with ty := if a.ty = 255 then f.op else a.ty, n := a.n + f.payload.length,
                               data := a.data ++ f.payload, cont := false })
      else k w { a with ty := if a.ty = 255 then f.op else a.ty, n := a.n + f.payload.length,
                        data := a.data ++ f.payload, cont := true } := by
  have hk : min (buf - a.n) f.payload.length = f.payload.length := by omega
  unfold onFrame
  rw [if_neg (by rw [hc]; exact Bool.false_ne_true)]
  simp only [hk, List.take_length]
  rw [if_neg (by omega), he]
  cases f.fin <;> simp

/-- Control frames in front of a fragment: each is handed to the control callback; the assembly state is untouched. -/
theorem nm_ctls (async : Bool) (buf : Nat) : ∀ (cs : List Ctl) (fuel : Nat) (w : W) (a : Asm) (t : List UInt8), SInv w →
    (∀ c ∈ cs, CtlOk w.m.max c) → rem w = (cs.map ctlFrame).flatMap encode ++ t →
    nextMessageFuel async buf (fuel + cs.length) w a = .error (.buf .env) ∨
    ∃ w', SInv w' ∧ w'.m.max = w.m.max ∧ rem w' = t ∧
      nextMessageFuel async buf (fuel + cs.length) w a =
        nextMessageFuel async buf fuel w' { a with ctl := a.ctl ++ ctlSeen cs } := by
  intro cs
  induction cs with
  | nil =>
    intro fuel w a t hS _ hrem
    right
    exact ⟨w, hS, rfl, by simpa using hrem, by rw [asm_ctl_nil]; rfl⟩
  | cons c cs ih =>
    intro fuel w a t hS hcs hrem
    have hc := hcs c (List.mem_cons_self ..)
    have hrem' : rem w = encode (ctlFrame c) ++ ((cs.map ctlFrame).flatMap encode ++ t) := by
      rw [hrem]; simp only [List.map_cons, List.flatMap_cons, List.append_assoc]
    have hfu : fuel + (c :: cs).length = (fuel + cs.length) + 1 := by simp only [List.length_cons]; omega
    rw [hfu]
    rcases nextFrame_head async w (ctlFrame c) _ hS (ctlFrame_ok hc) hrem' with he | ⟨w1, h1, S1, mx1, r1⟩
    · left; exact nm_fail he
    · have hic : isControl (inFrameOf (ctlFrame c)).op = true := by
        show isControl c.op = true
        rcases hc.1 with h | h <;> rw [h] <;> rfl
      rw [nm_step h1, onFrame_ctl _ _ _ _ _ hic]
      rcases ih fuel w1 { a with ctl := a.ctl ++ [((inFrameOf (ctlFrame c)).op, (inFrameOf (ctlFrame c)).payload)] } t S1
        (fun x hx => by rw [mx1]; exact hcs x (List.mem_cons_of_mem _ hx)) r1 with he | ⟨w', S', mx', r', e'⟩
      · left; exact he
      · right
        refine ⟨w', S', by rw [mx', mx1], r', ?_⟩
        rw [e']
        congr 1
        simp [ctlSeen, inFrameOf, ctlFrame]

/-- The payload bytes of a list of fragments. -/
def partsPayload (parts : List (List Ctl × Bytes)) : Bytes := parts.flatMap (·.2)
def partsCtls (parts : List (List Ctl × Bytes)) : List Ctl := parts.flatMap (·.1)

theorem partFrames_length_pos (ty : Nat) (first : Bool) (p : List Ctl × Bytes) (rest : List (List Ctl × Bytes)) :
    (partFrames ty first (p :: rest)).length = p.1.length + 1 + (partFrames ty false rest).length := by
  obtain ⟨cs, b⟩ := p
  simp only [partFrames, List.length_append, List.length_map, List.length_cons]; omega

/-- **The fragments of one message**, with control frames interleaved: the loop copies every fragment behind the
previous ones, keeps the type of the first, hands the control frames to the callback and stops at the FIN fragment. -/
theorem nm_parts (async : Bool) (buf ty : Nat) (hty : ty = 1 ∨ ty = 2) :
    ∀ (parts : List (List Ctl × Bytes)) (first : Bool) (fuel : Nat) (w : W) (a : Asm) (t : List UInt8),
    parts ≠ [] → SInv w → (∀ p ∈ parts, ∀ c ∈ p.1, CtlOk w.m.max c) →
    a.cont = !first → a.ty = (if first then 255 else ty) →
    a.n + (partsPayload parts).length ≤ w.m.max → a.n + (partsPayload parts).length ≤ buf →
    rem w = (partFrames ty first parts).flatMap encode ++ t → (partFrames ty first parts).length ≤ fuel →
    nextMessageFuel async buf fuel w a = .error (.buf .env) ∨
    ∃ w', nextMessageFuel async buf fuel w a =
        .ok (w', .nil, { ty := ty, n := a.n + (partsPayload parts).length, data := a.data ++ partsPayload parts,
                         cont := false, ctl := a.ctl ++ ctlSeen (partsCtls parts) }) ∧
      SInv w' ∧ w'.m.max = w.m.max ∧ rem w' = t := by
  intro parts
  induction parts with
  | nil => intro _ _ _ _ _ h; exact absurd rfl h
  | cons p rest ih =>
    intro first fuel w a t _ hS hctl hcont hty' hmax hbuf hrem hfuel
    obtain ⟨cs, b⟩ := p
    have hpay : partsPayload ((cs, b) :: rest) = b ++ partsPayload rest := by simp [partsPayload]
    have hcts : partsCtls ((cs, b) :: rest) = cs ++ partsCtls rest := by simp [partsCtls]
    rw [hpay, List.length_append] at hmax hbuf
    rw [partFrames_length_pos] at hfuel
    dsimp only at hfuel
    -- the control frames in front of the fragment
    obtain ⟨fuel1, hf1⟩ : ∃ fuel1, fuel = fuel1 + cs.length := ⟨fuel - cs.length, by omega⟩
    have hrem1 : rem w = (cs.map ctlFrame).flatMap encode ++
        (encode (dataFrame (if first then ty else 0) rest.isEmpty b) ++ ((partFrames ty false rest).flatMap encode ++ t)) := by
      rw [hrem]
      simp only [partFrames, List.flatMap_append, List.flatMap_cons, List.append_assoc]
    rw [hf1]
    rcases nm_ctls async buf cs fuel1 w a _ hS (fun c hc => hctl (cs, b) (List.mem_cons_self ..) c hc) hrem1 with he | ⟨w1, S1, mx1, r1, e1⟩
    · left; exact he
    rw [e1]
    -- the fragment itself
    obtain ⟨fuel2, hf2⟩ : ∃ fuel2, fuel1 = fuel2 + 1 := ⟨fuel1 - 1, by omega⟩
    rw [hf2]
    have hop : (if first then ty else 0) = 0 ∨ (if first then ty else 0) = 1 ∨ (if first then ty else 0) = 2 := by
      cases first
      · left; rfl
      · right; simpa using hty
    have hfr : FrOk w1.m.max (dataFrame (if first then ty else 0) rest.isEmpty b) :=
      ⟨rfl, rfl, rfl, rfl, rfl, by show b.length ≤ w1.m.max; rw [mx1]; omega, Or.inl hop⟩
    rcases nextFrame_head async w1 _ _ S1 hfr r1 with he | ⟨w2, h2, S2, mx2, r2⟩
    · left; exact nm_fail he
    have hic : isControl (inFrameOf (dataFrame (if first then ty else 0) rest.isEmpty b)).op = false := by
      show isControl (if first then ty else 0) = false
      rcases hop with h | h | h <;> rw [h] <;> rfl
    have herr : (if (!a.cont) = true then (if (if first then ty else 0) = 0 then Err.unexpCont else Err.nil)
        else (if (if first then ty else 0) ≠ 0 then Err.expCont else Err.nil)) = Err.nil := by
      rw [hcont]
      cases first
      · simp
      · simp only [Bool.not_true, Bool.not_false, if_true]
        rcases hty with h | h <;> rw [h] <;> simp
    have htyv : (if a.ty = 255 then (if first then ty else 0) else a.ty) = ty := by
      cases first
      · simp only [Bool.false_eq_true, if_false] at hty' ⊢
        rw [hty']; rcases hty with h | h <;> rw [h] <;> rfl
      · simp only [if_true] at hty' ⊢
        rw [hty']; rfl
    rw [nm_step h2, onFrame_data _ buf w2 { a with ctl := a.ctl ++ ctlSeen cs } _ hic
      (by show a.n + b.length ≤ buf; omega) (by show a.n + b.length ≤ w2.m.max; rw [mx2, mx1]; omega) herr]
    have hopv : (inFrameOf (dataFrame (if first then ty else 0) rest.isEmpty b)).op = (if first then ty else 0) := rfl
    have hpl : (inFrameOf (dataFrame (if first then ty else 0) rest.isEmpty b)).payload = b := rfl
    have hfin : (inFrameOf (dataFrame (if first then ty else 0) rest.isEmpty b)).fin = rest.isEmpty := rfl
    simp only [hopv, hpl, hfin, htyv]
    cases rest with
    | nil =>
      right
      simp only [List.isEmpty_nil, if_true]
      refine ⟨w2, ?_, S2, by rw [mx2, mx1], ?_⟩
      · simp [hpay, hcts, partsPayload, partsCtls, ctlSeen]
      · simpa [partFrames] using r2
    | cons q rest' =>
      simp only [List.isEmpty_cons, Bool.false_eq_true, if_false]
      have hfuel2 : (partFrames ty false (q :: rest')).length ≤ fuel2 := by omega
      rcases ih false fuel2 w2
          { a with ctl := a.ctl ++ ctlSeen cs, ty := ty, n := a.n + b.length, data := a.data ++ b, cont := true } t
          (by simp) S2
          (fun p hp c hc => by rw [mx2, mx1]; exact hctl p (List.mem_cons_of_mem _ hp) c hc)
          rfl (by simp)
          (by rw [mx2, mx1]; dsimp only; omega) (by dsimp only; omega) r2 hfuel2 with he | ⟨w3, h3, S3, mx3, r3⟩
      · left; exact he
      · right
        refine ⟨w3, ?_, S3, by rw [mx3, mx2, mx1], r3⟩
        rw [h3]
        simp [hpay, hcts, ctlSeen, Nat.add_assoc, List.append_assoc]

end Sonic.Lemmas.WsMsg
