/-
Invariants of the event-loop model `Sonic.Model.Loop`, preserved by every transition.
-/
import Sonic.Model.Loop

namespace Sonic.Model.Loop
open Sonic.Spec.Loop

def bitsOf (o : Obj) : Int := (if o.evR then 1 else 0) + (if o.evW then 1 else 0)

def bits : List Obj → Int
  | [] => 0
  | o :: r => bitsOf o + bits r

def postFrames : List K → Int
  | [] => 0
  | .user _ .postDone :: r => 1 + postFrames r
  | _ :: r => postFrames r

def ids (l : List Obj) : List Nat := l.map (·.id)

/-- Pending accounting: `poller.pending` = registered interests + queued posts + posted handlers that are running. -/
def AcctInv (w : World) : Prop :=
  (ids w.objs).Nodup ∧ w.pending - bits w.objs = w.posts.length + postFrames w.stack

theorem find_mem {l : List Obj} {k : Nat} {o : Obj} (h : l.find? (·.id == k) = some o) : o ∈ l ∧ o.id = k := by
  have h1 := List.find?_some h
  exact ⟨List.mem_of_find?_eq_some h, by simpa using h1⟩

theorem ids_map_set (l : List Obj) (o' : Obj) :
    ids (l.map fun x => if x.id == o'.id then o' else x) = ids l := by
  induction l with
  | nil => rfl
  | cons x r ih =>
    simp only [ids, List.map_cons] at *
    rw [ih]
    congr 1
    by_cases h : x.id == o'.id
    · simp only [h, if_true]; exact (by simpa using h : x.id = o'.id).symm
    · simp only [h]; rfl

theorem bits_map_set (l : List Obj) (o o' : Obj) (hn : (ids l).Nodup) (hm : o ∈ l) (hid : o'.id = o.id) :
    bits (l.map fun x => if x.id == o'.id then o' else x) = bits l - bitsOf o + bitsOf o' := by
  induction l with
  | nil => cases hm
  | cons x r ih =>
    simp only [ids, List.map_cons, List.nodup_cons] at hn
    simp only [List.map_cons, bits]
    by_cases hx : x.id == o'.id
    · -- x is the object being replaced (unique by Nodup), the tail is untouched
      have hxid : x.id = o.id := by rw [← hid]; simpa using hx
      have hxo : x = o := by
        rcases List.mem_cons.1 hm with h | h
        · exact h.symm
        · exact absurd (List.mem_map.2 ⟨o, h, hxid.symm⟩) hn.1
      have htail : (r.map fun y => if y.id == o'.id then o' else y) = r := by
        have : ∀ y ∈ r, (if y.id == o'.id then o' else y) = y := by
          intro y hy
          have h1 : y.id ≠ x.id := fun e => hn.1 (List.mem_map.2 ⟨y, hy, e⟩)
          have h2 : ¬ (y.id == o'.id) = true := by
            intro e; apply h1; rw [hxid, ← hid]; simpa using e
          simp [h2]
        calc (r.map fun y => if y.id == o'.id then o' else y) = r.map id := List.map_congr_left this
          _ = r := List.map_id r
      subst hxo
      rw [htail, if_pos hx]; omega
    · have hmr : o ∈ r := by
        rcases List.mem_cons.1 hm with h | h
        · exact absurd (by rw [← h, hid]; simp : (x.id == o'.id) = true) hx
        · exact h
      rw [if_neg hx, ih hn.2 hmr]
      omega

theorem setObj_acct (w : World) (o o' : Obj) (hn : (ids w.objs).Nodup) (hg : getObj w o.id = some o) (hid : o'.id = o.id) :
    (ids (setObj w o').objs).Nodup ∧ bits (setObj w o').objs = bits w.objs - bitsOf o + bitsOf o' := by
  have hm := (find_mem hg).1
  unfold setObj
  exact ⟨by rw [ids_map_set]; exact hn, bits_map_set _ o o' hn hm hid⟩

theorem getObj_id {w : World} {k : Nat} {o : Obj} (h : getObj w k = some o) : o.id = k := (find_mem h).2

/-- The part of `pending` not explained by registered interests. -/
def slack (w : World) : Int := w.pending - bits w.objs

/-- `w'` differs from `w` only in object fields / pending, keeping the accounting balance. -/
def Bal (w w' : World) : Prop :=
  (ids w'.objs).Nodup ∧ slack w' = slack w ∧ w'.posts = w.posts ∧ w'.stack = w.stack ∧ w'.dispatched = w.dispatched ∧
  ids w'.objs = ids w.objs

theorem Bal.refl (w : World) (hn : (ids w.objs).Nodup) : Bal w w := ⟨hn, rfl, rfl, rfl, rfl, rfl⟩

theorem Bal.trans {a b c : World} (h1 : Bal a b) (h2 : Bal b c) : Bal a c :=
  ⟨h2.1, h2.2.1.trans h1.2.1, h2.2.2.1.trans h1.2.2.1, h2.2.2.2.1.trans h1.2.2.2.1,
   h2.2.2.2.2.1.trans h1.2.2.2.2.1, h2.2.2.2.2.2.trans h1.2.2.2.2.2⟩

theorem setObj_bal (w : World) (o o' : Obj) (hn : (ids w.objs).Nodup) (hg : getObj w o.id = some o) (hid : o'.id = o.id)
    (d : Int) (hb : bitsOf o' = bitsOf o + d) :
    Bal w (setObj { w with pending := w.pending + d } o') := by
  have h := setObj_acct { w with pending := w.pending + d } o o' hn hg hid
  refine ⟨h.1, ?_, rfl, rfl, rfl, ?_⟩
  · unfold slack; rw [h.2]; simp only [setObj]; omega
  · simp only [setObj]; exact ids_map_set _ _

theorem setRead_bal (w : World) (o : Obj) (op : Nat) (hn : (ids w.objs).Nodup) (hg : getObj w o.id = some o) :
    Bal w (setRead w o op) := by
  unfold setRead
  split
  · rename_i h
    have := setObj_bal w o { o with hR := op, registered := true } hn hg rfl 0 (by simp [bitsOf])
    simpa using this
  · rename_i h
    exact setObj_bal w o { o with hR := op, evR := true, registered := true } hn hg rfl 1 (by simp [bitsOf, h] <;> omega)

theorem setWrite_bal (w : World) (o : Obj) (op : Nat) (hn : (ids w.objs).Nodup) (hg : getObj w o.id = some o) :
    Bal w (setWrite w o op) := by
  unfold setWrite
  split
  · rename_i h
    have := setObj_bal w o { o with hW := op, registered := true } hn hg rfl 0 (by simp [bitsOf])
    simpa using this
  · rename_i h
    exact setObj_bal w o { o with hW := op, evW := true, registered := true } hn hg rfl 1 (by simp [bitsOf, h] <;> omega)

theorem delRead_bal (w : World) (o : Obj) (hn : (ids w.objs).Nodup) (hg : getObj w o.id = some o) :
    Bal w (delRead w o) := by
  unfold delRead
  split
  · rename_i h
    exact setObj_bal w o { o with evR := false, registered := o.evW } hn hg rfl (-1) (by simp [bitsOf, h] <;> omega)
  · exact Bal.refl w hn

theorem delWrite_bal (w : World) (o : Obj) (hn : (ids w.objs).Nodup) (hg : getObj w o.id = some o) :
    Bal w (delWrite w o) := by
  unfold delWrite
  split
  · rename_i h
    exact setObj_bal w o { o with evW := false, registered := o.evR } hn hg rfl (-1) (by simp [bitsOf, h] <;> omega)
  · exact Bal.refl w hn

theorem armTimer_bal (w : World) (o : Obj) (op : Nat) (rep : Bool) (hn : (ids w.objs).Nodup) (hg : getObj w o.id = some o) :
    Bal w (armTimer w o op rep) := by
  unfold armTimer
  by_cases h : o.evR
  · have := setObj_bal w o { o with evR := true, hR := op, tstate := .scheduled, cancelled := false, rep := rep } hn hg rfl 0
      (by simp [bitsOf, h])
    simpa [h] using this
  · have := setObj_bal w o { o with evR := true, hR := op, tstate := .scheduled, cancelled := false, rep := rep } hn hg rfl 1
      (by simp [bitsOf, h] <;> omega)
    simpa [h] using this

/-- Balance is kept by any object update that does not touch the interest bits. -/
theorem setObj_same_bits (w : World) (o o' : Obj) (hn : (ids w.objs).Nodup) (hg : getObj w o.id = some o) (hid : o'.id = o.id)
    (hb : bitsOf o' = bitsOf o) : Bal w (setObj w o') := by
  have := setObj_bal w o o' hn hg hid 0 (by omega)
  simpa using this

theorem getObj_setObj_self (w : World) (o o' : Obj) (hg : getObj w o.id = some o) (hid : o'.id = o.id) :
    getObj (setObj w o') o.id = some o' := by
  unfold getObj setObj at *
  simp only
  generalize w.objs = l at hg ⊢
  induction l with
  | nil => simp at hg
  | cons x r ih =>
    simp only [List.map_cons, List.find?_cons] at hg ⊢
    by_cases hx : (x.id == o'.id) = true
    · rw [if_pos hx]
      have : (o'.id == o.id) = true := by simp [hid]
      rw [this]
    · rw [if_neg hx]
      have hx2 : (x.id == o.id) = false := by
        rw [← hid]; exact Bool.eq_false_iff.2 hx
      rw [hx2] at hg ⊢
      exact ih hg

theorem getObj_pending (w : World) (p : Int) (k : Nat) : getObj { w with pending := p } k = getObj w k := rfl

theorem closeObj_bal (w : World) (o : Obj) (hn : (ids w.objs).Nodup) (hg : getObj w o.id = some o) :
    Bal w (closeObj w o) := by
  unfold closeObj
  by_cases ht : o.kind == .timer
  · simp only [ht, if_true, unsetPending]
    have := setObj_bal w o { o with evR := false, tstate := .closed } hn hg rfl (-(if o.evR then 1 else 0))
      (by simp [bitsOf]; split <;> omega)
    simpa [Int.sub_eq_add_neg] using this
  · simp only [ht]
    -- delRead, then delWrite on the updated object, then mark closed
    have b1 := delRead_bal w o hn hg
    have g1 : ∃ o1, getObj (delRead w o) o.id = some o1 ∧ o1.id = o.id ∧ o1.evR = false ∧ o1.evW = o.evW := by
      unfold delRead
      by_cases h : o.evR
      · simp only [h, if_true]
        exact ⟨_, getObj_setObj_self _ o _ (show getObj { w with pending := w.pending - 1 } o.id = some o from hg) rfl, rfl, rfl, rfl⟩
      · simp only [h]; exact ⟨o, hg, rfl, by simpa using h, rfl⟩
    obtain ⟨o1, hg1, hid1, hr1, _⟩ := g1
    have hg1' : getObj (delRead w o) o1.id = some o1 := by rw [hid1]; exact hg1
    have b2 := delWrite_bal (delRead w o) o1 b1.1 hg1'
    have g2 : ∃ o2, getObj (delWrite (delRead w o) o1) o.id = some o2 ∧ o2.id = o.id ∧ o2.evR = false ∧ o2.evW = false := by
      unfold delWrite
      by_cases h : o1.evW
      · simp only [h, if_true]
        refine ⟨{ o1 with evW := false, registered := o1.evR }, ?_, hid1, hr1, rfl⟩
        rw [← hid1]
        exact getObj_setObj_self _ o1 _ (show getObj { (delRead w o) with pending := (delRead w o).pending - 1 } o1.id = some o1 from hg1') rfl
      · simp only [h]; exact ⟨o1, hg1, hid1, hr1, by simpa using h⟩
    obtain ⟨o2, hg2, hid2, r2, w2⟩ := g2
    simp only [hg1, hg2, Option.getD_some]
    have hg2' : getObj (delWrite (delRead w o) o1) o2.id = some o2 := by rw [hid2]; exact hg2
    have b3 := setObj_same_bits _ o2 { o2 with closed := true, registered := false } b2.1 hg2' rfl (by simp [bitsOf])
    exact (b1.trans b2).trans b3

theorem postFrames_cons_other (k : K) (r : List K) (h : ∀ op, k ≠ .user op .postDone) : postFrames (k :: r) = postFrames r := by
  cases k with
  | user op a => cases a <;> first | rfl | exact absurd rfl (h op)
  | _ => rfl

/-! Frame lemmas: the helpers touch only `objs` and `pending`. -/
@[simp] theorem setObj_posts (w : World) (o : Obj) : (setObj w o).posts = w.posts := rfl
@[simp] theorem setObj_stack (w : World) (o : Obj) : (setObj w o).stack = w.stack := rfl
@[simp] theorem setObj_disp (w : World) (o : Obj) : (setObj w o).dispatched = w.dispatched := rfl
@[simp] theorem setObj_ops (w : World) (o : Obj) : (setObj w o).ops = w.ops := rfl
@[simp] theorem setObj_pending (w : World) (o : Obj) : (setObj w o).pending = w.pending := rfl
@[simp] theorem setRead_posts (w : World) (o : Obj) (op : Nat) : (setRead w o op).posts = w.posts := by unfold setRead; split <;> rfl
@[simp] theorem setRead_stack (w : World) (o : Obj) (op : Nat) : (setRead w o op).stack = w.stack := by unfold setRead; split <;> rfl
@[simp] theorem setRead_disp (w : World) (o : Obj) (op : Nat) : (setRead w o op).dispatched = w.dispatched := by unfold setRead; split <;> rfl
@[simp] theorem setRead_ops (w : World) (o : Obj) (op : Nat) : (setRead w o op).ops = w.ops := by unfold setRead; split <;> rfl
@[simp] theorem setWrite_posts (w : World) (o : Obj) (op : Nat) : (setWrite w o op).posts = w.posts := by unfold setWrite; split <;> rfl
@[simp] theorem setWrite_stack (w : World) (o : Obj) (op : Nat) : (setWrite w o op).stack = w.stack := by unfold setWrite; split <;> rfl
@[simp] theorem setWrite_disp (w : World) (o : Obj) (op : Nat) : (setWrite w o op).dispatched = w.dispatched := by unfold setWrite; split <;> rfl
@[simp] theorem setWrite_ops (w : World) (o : Obj) (op : Nat) : (setWrite w o op).ops = w.ops := by unfold setWrite; split <;> rfl
@[simp] theorem delRead_posts (w : World) (o : Obj) : (delRead w o).posts = w.posts := by unfold delRead; split <;> rfl
@[simp] theorem delRead_stack (w : World) (o : Obj) : (delRead w o).stack = w.stack := by unfold delRead; split <;> rfl
@[simp] theorem delRead_disp (w : World) (o : Obj) : (delRead w o).dispatched = w.dispatched := by unfold delRead; split <;> rfl
@[simp] theorem delRead_ops (w : World) (o : Obj) : (delRead w o).ops = w.ops := by unfold delRead; split <;> rfl
@[simp] theorem delWrite_posts (w : World) (o : Obj) : (delWrite w o).posts = w.posts := by unfold delWrite; split <;> rfl
@[simp] theorem delWrite_stack (w : World) (o : Obj) : (delWrite w o).stack = w.stack := by unfold delWrite; split <;> rfl
@[simp] theorem delWrite_disp (w : World) (o : Obj) : (delWrite w o).dispatched = w.dispatched := by unfold delWrite; split <;> rfl
@[simp] theorem delWrite_ops (w : World) (o : Obj) : (delWrite w o).ops = w.ops := by unfold delWrite; split <;> rfl
@[simp] theorem armTimer_posts (w : World) (o : Obj) (op : Nat) (r : Bool) : (armTimer w o op r).posts = w.posts := by
  unfold armTimer; split <;> rfl
@[simp] theorem armTimer_stack (w : World) (o : Obj) (op : Nat) (r : Bool) : (armTimer w o op r).stack = w.stack := by
  unfold armTimer; split <;> rfl
@[simp] theorem armTimer_disp (w : World) (o : Obj) (op : Nat) (r : Bool) : (armTimer w o op r).dispatched = w.dispatched := by
  unfold armTimer; split <;> rfl
@[simp] theorem armTimer_ops (w : World) (o : Obj) (op : Nat) (r : Bool) : (armTimer w o op r).ops = w.ops := by
  unfold armTimer; split <;> rfl

@[simp] theorem unsetPending_posts (w : World) (o : Obj) : (unsetPending w o).posts = w.posts := rfl
@[simp] theorem unsetPending_stack (w : World) (o : Obj) : (unsetPending w o).stack = w.stack := rfl
@[simp] theorem unsetPending_disp (w : World) (o : Obj) : (unsetPending w o).dispatched = w.dispatched := rfl
@[simp] theorem unsetPending_ops (w : World) (o : Obj) : (unsetPending w o).ops = w.ops := rfl
@[simp] theorem unsetPending_objs (w : World) (o : Obj) : (unsetPending w o).objs = w.objs := rfl

/-- Finish an accounting step: `w1` is balanced with `w`, and the successor takes `w1`'s objects with an adjusted
pending count, post queue and stack. -/
theorem acct_finish {w w1 w' : World} (hI : AcctInv w) (hb : Bal w w1) (dp : Int)
    (hobjs : w'.objs = w1.objs) (hpend : w'.pending = w1.pending + dp)
    (hacc : (w'.posts.length : Int) + postFrames w'.stack = w1.posts.length + postFrames w1.stack + dp) : AcctInv w' := by
  obtain ⟨_, hs⟩ := hI
  obtain ⟨n1, s1, p1, st1, _, _⟩ := hb
  rw [p1, st1] at hacc
  refine ⟨by rw [hobjs]; exact n1, ?_⟩
  unfold slack at s1
  rw [hobjs, hpend]; omega

theorem getObj_none_not_mem {w : World} {k : Nat} (h : (getObj w k).isSome = false) : k ∉ ids w.objs := by
  intro hm
  unfold ids at hm
  obtain ⟨o, ho, hid⟩ := List.mem_map.1 hm
  unfold getObj at h
  have : (w.objs.find? (·.id == k)).isSome = true := by
    rw [List.find?_isSome]; exact ⟨o, ho, by simp [hid]⟩
  rw [this] at h; cases h

end Sonic.Model.Loop
