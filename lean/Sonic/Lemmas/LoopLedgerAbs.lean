/-
The ledger seen from the model: `absOwed w` lists, for a state of the loop model, the operations whose callback the
loop owes — one record per registered interest (the operation whose continuation is stored in the slot) and one per
queued post.  The refinement (`LoopLedgerStep.lean`) shows that the API-level ledger `Sonic.Spec.Ledger` always holds
a permutation of this list.
-/
import Sonic.Lemmas.LoopLedgerInvStep
import Sonic.Spec.Ledger

namespace Sonic.Model.Loop
open Sonic.Spec.Loop (Ev Ret Res OpKind ObjKind maxDispatch)
open Sonic.Spec.Ledger (Rec)

def recOf (ops : List OpInfo) (op obj : Nat) : Rec := ⟨op, obj, ((opIn ops op).map (·.kind)).getD .read⟩

def contrib (ops : List OpInfo) (o : Obj) : List Rec :=
  (if o.evR then [recOf ops o.hR o.id] else []) ++ (if o.evW then [recOf ops o.hW o.id] else [])

def absObjs (ops : List OpInfo) : List Obj → List Rec
  | [] => []
  | o :: r => contrib ops o ++ absObjs ops r

def absPosts (posts : List Nat) : List Rec := posts.map fun p => ⟨p, 0, .post⟩

def absOwed (w : World) : List Rec := absObjs w.ops w.objs ++ absPosts w.posts

theorem contrib_length (ops : List OpInfo) (o : Obj) : ((contrib ops o).length : Int) = bitsOf o := by
  unfold contrib bitsOf; split <;> split <;> simp

theorem absObjs_length (ops : List OpInfo) : ∀ l : List Obj, ((absObjs ops l).length : Int) = bits l
  | [] => by simp [absObjs, bits]
  | o :: r => by
    have := absObjs_length ops r
    have := contrib_length ops o
    simp only [absObjs, bits, List.length_append]; omega

theorem absOwed_length (w : World) : ((absOwed w).length : Int) = bits w.objs + w.posts.length := by
  have := absObjs_length w.ops w.objs
  simp only [absOwed, absPosts, List.length_append, List.length_map]; omega

/-- Every record of an object's contribution names that object. -/
theorem contrib_obj {ops : List OpInfo} {o : Obj} {r : Rec} (h : r ∈ contrib ops o) : r.obj = o.id := by
  unfold contrib at h
  rcases List.mem_append.1 h with h1 | h1
  · split at h1
    · simp only [List.mem_singleton] at h1; rw [h1]; rfl
    · cases h1
  · split at h1
    · simp only [List.mem_singleton] at h1; rw [h1]; rfl
    · cases h1

theorem absObjs_obj {ops : List OpInfo} : ∀ {l : List Obj} {r : Rec}, r ∈ absObjs ops l → r.obj ∈ ids l
  | [], r, h => by cases h
  | o :: rest, r, h => by
    simp only [absObjs] at h
    rcases List.mem_append.1 h with h1 | h1
    · simp only [ids, List.map_cons, List.mem_cons]; left; exact contrib_obj h1
    · have := absObjs_obj h1
      simp only [ids, List.map_cons, List.mem_cons]; right; exact this

/-- Replacing one object (unique id) replaces its contribution in place. -/
theorem absObjs_split (ops : List OpInfo) (l : List Obj) (o o' : Obj) (hn : (ids l).Nodup) (hm : o ∈ l) (hid : o'.id = o.id) :
    ∃ A B, absObjs ops l = A ++ contrib ops o ++ B ∧
      absObjs ops (l.map fun x => if x.id == o'.id then o' else x) = A ++ contrib ops o' ++ B ∧
      (∀ r ∈ A ++ B, r.obj ≠ o.id) := by
  induction l with
  | nil => cases hm
  | cons x rest ih =>
    simp only [ids, List.map_cons, List.nodup_cons] at hn
    by_cases hx : x.id == o'.id
    · have hxid : x.id = o.id := by rw [← hid]; simpa using hx
      have hxo : x = o := by
        rcases List.mem_cons.1 hm with h | h
        · exact h.symm
        · exact absurd (List.mem_map.2 ⟨o, h, hxid.symm⟩) hn.1
      have htail : (rest.map fun y => if y.id == o'.id then o' else y) = rest := by
        have : ∀ y ∈ rest, (if y.id == o'.id then o' else y) = y := by
          intro y hy
          have h1 : y.id ≠ x.id := fun e => hn.1 (List.mem_map.2 ⟨y, hy, e⟩)
          have h2 : ¬ (y.id == o'.id) = true := by
            intro e; apply h1; rw [hxid, ← hid]; simpa using e
          simp [h2]
        calc (rest.map fun y => if y.id == o'.id then o' else y) = rest.map id := List.map_congr_left this
          _ = rest := List.map_id rest
      subst hxo
      refine ⟨[], absObjs ops rest, by simp [absObjs], ?_, ?_⟩
      · simp only [List.map_cons, hx, if_true, absObjs, htail, List.nil_append]
      · intro r hr
        simp only [List.nil_append] at hr
        intro e
        have := absObjs_obj hr
        rw [e] at this
        exact hn.1 (by simpa [ids] using this)
    · have hmr : o ∈ rest := by
        rcases List.mem_cons.1 hm with h | h
        · exact absurd (by rw [← h, hid]; simp : (x.id == o'.id) = true) hx
        · exact h
      obtain ⟨A, B, h1, h2, h3⟩ := ih hn.2 hmr
      refine ⟨contrib ops x ++ A, B, ?_, ?_, ?_⟩
      · simp only [absObjs, h1, List.append_assoc]
      · simp only [List.map_cons, hx, Bool.false_eq_true, if_false, absObjs, h2, List.append_assoc]
      · intro r hr
        rcases List.mem_append.1 hr with hr | hr
        · rcases List.mem_append.1 hr with hr | hr
          · have := contrib_obj hr
            intro e
            apply hx
            rw [hid, ← e, this]; simp
          · exact h3 r (List.mem_append.2 (Or.inl hr))
        · exact h3 r (List.mem_append.2 (Or.inr hr))

theorem setObj_absObjs (w : World) (o o' : Obj) (hn : (ids w.objs).Nodup) (hg : getObj w o.id = some o) (hid : o'.id = o.id) :
    ∃ A B, absObjs w.ops w.objs = A ++ contrib w.ops o ++ B ∧ absObjs w.ops (setObj w o').objs = A ++ contrib w.ops o' ++ B ∧
      (∀ r ∈ A ++ B, r.obj ≠ o.id) :=
  absObjs_split w.ops w.objs o o' hn (find_mem hg).1 hid

/-- The table may grow: what it says about stored handlers does not change. -/
theorem absObjs_mono {ops ops' : List OpInfo} (hm : ∀ x info, opIn ops x = some info → opIn ops' x = some info) :
    ∀ (l : List Obj), (∀ o ∈ l, HObj ops o) → absObjs ops' l = absObjs ops l
  | [], _ => rfl
  | o :: rest, h => by
    have ih := absObjs_mono hm rest (fun x hx => h x (List.mem_cons_of_mem _ hx))
    have ho := h o (List.mem_cons_self ..)
    simp only [absObjs, ih]
    congr 1
    unfold contrib
    congr 1
    · split
      · rename_i he
        obtain ⟨info, h1, _⟩ := ho.1 he
        simp only [recOf, h1, hm _ _ h1]
      · rfl
    · split
      · rename_i he
        obtain ⟨info, h1, _⟩ := ho.2.1 he
        simp only [recOf, h1, hm _ _ h1]
      · rfl

/-- Every record in the model's view is the table's record of that operation. -/
theorem absOwed_canonical {w : World} (hI : LInv w) {r : Rec} (h : r ∈ absOwed w) :
    opIn w.ops r.id = some ⟨r.id, r.obj, r.kind⟩ := by
  unfold absOwed at h
  rcases List.mem_append.1 h with h1 | h1
  · -- an interest
    have : ∀ (l : List Obj), (∀ o ∈ l, HObj w.ops o) → r ∈ absObjs w.ops l → opIn w.ops r.id = some ⟨r.id, r.obj, r.kind⟩ := by
      intro l
      induction l with
      | nil => intro _ hr; cases hr
      | cons o rest ih =>
        intro hall hr
        simp only [absObjs] at hr
        rcases List.mem_append.1 hr with hr | hr
        · have ho := hall o (List.mem_cons_self ..)
          unfold contrib at hr
          rcases List.mem_append.1 hr with hr | hr
          · split at hr
            · rename_i he
              obtain ⟨info, h1, h2, _⟩ := ho.1 he
              simp only [List.mem_singleton] at hr
              have hid := opIn_id h1
              rw [hr]; simp only [recOf, h1, Option.map_some, Option.getD_some]
              rw [← h2]; cases info; simp_all
            · cases hr
          · split at hr
            · rename_i he
              obtain ⟨info, h1, h2, _⟩ := ho.2.1 he
              simp only [List.mem_singleton] at hr
              have hid := opIn_id h1
              rw [hr]; simp only [recOf, h1, Option.map_some, Option.getD_some]
              rw [← h2]; cases info; simp_all
            · cases hr
        · exact ih (fun x hx => hall x (List.mem_cons_of_mem _ hx)) hr
    exact this w.objs hI.objs h1
  · unfold absPosts at h1
    obtain ⟨p, hp, rfl⟩ := List.mem_map.1 h1
    exact hI.posts p hp

/-- Records of interests are not posts, and a timer object's record is a timer operation. -/
theorem absObjs_kind {ops : List OpInfo} : ∀ {l : List Obj} {r : Rec}, (∀ o ∈ l, HObj ops o) → (∀ o ∈ l, TimerOk o) → r ∈ absObjs ops l →
    r.kind ≠ .post ∧ ∃ o ∈ l, r.obj = o.id ∧ (o.kind = .timer → r.kind.isTimer = true)
  | [], r, _, _, h => by cases h
  | o :: rest, r, hall, hT, h => by
    simp only [absObjs] at h
    rcases List.mem_append.1 h with h1 | h1
    · have ho := hall o (List.mem_cons_self ..)
      unfold contrib at h1
      rcases List.mem_append.1 h1 with h1 | h1
      · split at h1
        · rename_i he
          obtain ⟨info, h2, _, h4, h5, _⟩ := ho.1 he
          simp only [List.mem_singleton] at h1
          rw [h1]
          simp only [recOf, h2, Option.map_some, Option.getD_some]
          exact ⟨h4, o, List.mem_cons_self .., rfl, h5⟩
        · cases h1
      · split at h1
        · rename_i he
          obtain ⟨info, h2, _, h4, _⟩ := ho.2.1 he
          simp only [List.mem_singleton] at h1
          rw [h1]
          simp only [recOf, h2, Option.map_some, Option.getD_some]
          refine ⟨h4, o, List.mem_cons_self .., rfl, fun hk => ?_⟩
          have := (hT o (List.mem_cons_self ..) hk).2
          rw [this] at he; cases he
        · cases h1
    · obtain ⟨h2, o', h3, h4⟩ := absObjs_kind (fun x hx => hall x (List.mem_cons_of_mem _ hx)) (fun x hx => hT x (List.mem_cons_of_mem _ hx)) h1
      exact ⟨h2, o', List.mem_cons_of_mem _ h3, h4⟩

end Sonic.Model.Loop
