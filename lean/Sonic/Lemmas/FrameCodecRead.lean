/-
The `ReadNext` / `AsyncReadNext` loop of the CodecConn model against the pure parser: the outcome of a
call depends only on the concatenation of what is buffered and what the transport still holds
(`unparsed`), never on how it is cut into segments or how large the buffer happens to be.
-/
import Sonic.Lemmas.FrameCodecFacts

namespace Sonic.Lemmas.FrameCodec
open Sonic.Spec.FrameCodec Sonic.Model.FrameCodec

def total (q : List Bytes) : Nat := (q.map List.length).sum

theorem tr_read_nil (t : Tr) (avail : Nat) (h : t.inq = []) :
    t.read avail = (t, if t.eof then .eof else .block) := by
  simp only [Tr.read, h]
  split <;> rfl

theorem tr_read_cons (t : Tr) (avail : Nat) (ch : Bytes) (rest : List Bytes) (h : t.inq = ch :: rest)
    (hch : ch ≠ []) (hrest : ∀ c ∈ rest, c ≠ []) (ha : 0 < avail) :
    ∃ x t', t.read avail = (t', .got x) ∧ x ≠ [] ∧ x.length ≤ avail ∧ x ++ t'.inq.flatten = t.inq.flatten ∧
      (∀ c ∈ t'.inq, c ≠ []) ∧ t'.eof = t.eof ∧ t'.plan = t.plan ∧ t'.deferW = t.deferW ∧
      total t'.inq + x.length = total t.inq := by
  have hpos : 0 < ch.length := List.length_pos_iff.mpr hch
  simp only [Tr.read, h]
  by_cases hm : min avail ch.length = ch.length
  · simp only [hm, if_true]
    refine ⟨ch, _, rfl, hch, by omega, by simp, hrest, rfl, rfl, rfl, by simp [total]; omega⟩
  · simp only [hm, if_false]
    have hk1 : 0 < min avail ch.length := by omega
    have hk2 : min avail ch.length < ch.length := by omega
    have hk3 : min avail ch.length ≤ avail := by omega
    generalize min avail ch.length = k at *
    have htl : (ch.take k).length = k := List.length_take_of_le (by omega)
    have hdl : (ch.drop k).length = ch.length - k := List.length_drop
    refine ⟨_, _, rfl, ?_, ?_, ?_, ?_, rfl, rfl, rfl, ?_⟩
    · intro hx; rw [hx] at htl; simp at htl; omega
    · omega
    · simp only [List.flatten_cons]; rw [← List.append_assoc, List.take_append_drop]
    · intro c hc
      simp at hc
      rcases hc with rfl | hc
      · intro hx; rw [hx] at hdl; simp at hdl; omega
      · exact hrest c hc
    · simp only [total, List.map_cons, List.sum_cons, htl, hdl]; omega

/-! ## the read loop -/

/-- Everything the transport has been given for reading that has not been returned as an item. -/
def unparsed (c : Conn) : Bytes := clean c.dec c.src ++ c.tr.inq.flatten

/-- Invariant of the reading half of a connection between operations. -/
structure RInv (limit : Nat) (c : Conn) : Prop where
  src : SrcInv c.dec c.src
  chunks : ∀ ch ∈ c.tr.inq, ch ≠ []
  pend : c.rpend = true → c.dec.decodeReset = false ∧ c.src.data.length < c.src.cap ∧
          front limit (clean c.dec c.src) = .incomplete

/-- The parts of a connection the read side never touches. -/
def SameW (c c' : Conn) : Prop :=
  c'.dst = c.dst ∧ c'.wpend = c.wpend ∧ c'.tr.plan = c.tr.plan ∧ c'.tr.eof = c.tr.eof ∧ c'.tr.deferW = c.tr.deferW

/-- Postcondition of a completed (or suspended) read call started in `c`. -/
structure ROut (limit : Nat) (async : Bool) (c c' : Conn) (s : RStat) : Prop where
  inv : RInv limit c'
  same : SameW c c'
  item : ∀ p rest, front limit (unparsed c) = .item p rest → s = .item p ∧ unparsed c' = rest ∧ c'.rpend = false
  big : front limit (unparsed c) = .tooBig →
          s = .err .toobig ∧ unparsed c' = unparsed c ∧ c'.src.cap = c.src.cap ∧ c'.rpend = false
  inc : front limit (unparsed c) = .incomplete → unparsed c' = unparsed c ∧ c'.tr.inq = [] ∧
          (if c.tr.eof then s = .err .eof ∧ c'.rpend = false
           else if async then s = .pending ∧ c'.rpend = true else s = .err .wouldblock ∧ c'.rpend = false)

theorem sameW_refl (c : Conn) : SameW c c := ⟨rfl, rfl, rfl, rfl, rfl⟩

theorem sameW_trans {a b c : Conn} (h1 : SameW a b) (h2 : SameW b c) : SameW a c := by
  obtain ⟨a1, a2, a3, a4, a5⟩ := h1
  obtain ⟨b1, b2, b3, b4, b5⟩ := h2
  exact ⟨b1.trans a1, b2.trans a2, b3.trans a3, b4.trans a4, b5.trans a5⟩

/-- The transport read issued after `ErrNeedMore` (or completed by `pump`), with nothing queued. -/
theorem transportRead_empty (async : Bool) (c : Conn) (h : c.tr.inq = []) :
    transportRead async c =
      if c.tr.eof then ({ c with rpend := false }, .done (.err .eof))
      else if async then ({ c with rpend := true }, .done .pending) else (c, .done (.err .wouldblock)) := by
  unfold transportRead
  rw [tr_read_nil _ _ h]
  cases c.tr.eof <;> cases async <;> simp

/-- The same with a segment queued: it moves at least one byte into the buffer and nothing is lost. -/
theorem transportRead_some (limit : Nat) (async : Bool) (c : Conn) (hsrc : SrcInv c.dec c.src)
    (hres : c.dec.decodeReset = false) (hroom : c.src.data.length < c.src.cap)
    (hch : ∀ ch ∈ c.tr.inq, ch ≠ []) (hne : c.tr.inq ≠ []) :
    ∃ c2, transportRead async c = (c2, .again) ∧ RInv limit c2 ∧ c2.rpend = false ∧ unparsed c2 = unparsed c ∧
      total c2.tr.inq < total c.tr.inq ∧ SameW c c2 ∧ c2.src.cap = c.src.cap := by
  obtain ⟨ch, rest, hq⟩ := List.exists_cons_of_ne_nil hne
  · have hch' := hch
    rw [hq] at hch'
    obtain ⟨x, t', hread, hx, hxl, hflat, hcs, he, hp, hd, htot⟩ :=
      tr_read_cons c.tr (c.src.cap - c.src.data.length) ch rest hq (hch' ch (by simp))
        (fun c hc => hch' c (by simp [hc])) (by omega)
    have hxpos : 0 < x.length := List.length_pos_iff.mpr hx
    refine ⟨{ c with tr := t', src := c.src.append x, rpend := false }, ?_, ?_, rfl, ?_, ?_, ?_, rfl⟩
    · unfold transportRead; rw [hread]
    · refine ⟨⟨?_, ?_, hsrc.cap4, ?_, ?_⟩, hcs, ?_⟩
      · have := hsrc.ri_le; simp [BB.append]; omega
      · simp [BB.append]; omega
      · intro hh; rw [hres] at hh; cases hh
      · intro hh; exact hsrc.clean_ri hh
      · intro hh; cases hh
    · simp only [unparsed, clean, hres, BB.append, Bool.false_eq_true, if_false]
      rw [List.append_assoc, hflat]
    · show total t'.inq < total c.tr.inq; omega
    · exact ⟨rfl, rfl, hp, he, hd⟩

theorem rout_empty (limit : Nat) (async : Bool) (c c' : Conn) (s : RStat) (hinv' : RInv limit c')
    (hsame : SameW c c') (hun : unparsed c' = unparsed c) (hq' : c'.tr.inq = [])
    (hfU : front limit (unparsed c) = .incomplete)
    (hs : if c.tr.eof then s = .err .eof ∧ c'.rpend = false
          else if async then s = .pending ∧ c'.rpend = true else s = .err .wouldblock ∧ c'.rpend = false) :
    ROut limit async c c' s := by
  refine ⟨hinv', hsame, ?_, ?_, ?_⟩
  · intro p rest hh; rw [hfU] at hh; cases hh
  · intro hh; rw [hfU] at hh; cases hh
  · intro _; exact ⟨hun, hq', hs⟩

theorem readLoop_spec (limit : Nat) (async : Bool) :
    ∀ (fuel : Nat) (env : List Nat) (c : Conn), RInv limit c → c.rpend = false → total c.tr.inq < fuel →
      ROut limit async c (readLoop limit async fuel env c).1 (readLoop limit async fuel env c).2 := by
  intro fuel
  induction fuel with
  | zero => intro env c _ _ h; omega
  | succ f ih =>
    intro env c hinv hrp hfuel
    obtain ⟨hsrc', hitem, hbig, hinc⟩ := decode_spec limit (env.headD 0) hinv.src
    unfold readLoop readTurn
    generalize hdec : decode limit (env.headD 0) c.dec c.src = o at *
    obtain ⟨d', b', r⟩ := o
    simp only at hsrc' hitem hbig hinc
    have hU : unparsed c = clean c.dec c.src ++ c.tr.inq.flatten := rfl
    cases hf : front limit (clean c.dec c.src) with
    | item p rest =>
      obtain ⟨hr, hcl, hcap⟩ := hitem p rest hf
      subst hr
      simp only
      have hfu := front_item_append c.tr.inq.flatten hf
      refine ⟨⟨hsrc', hinv.chunks, fun hh => by rw [hrp] at hh; cases hh⟩, ⟨rfl, rfl, rfl, rfl, rfl⟩, ?_, ?_, ?_⟩
      · intro p' rest' hh
        rw [hU, hfu] at hh
        injection hh with h1 h2
        exact ⟨by rw [h1], by simp only [unparsed]; rw [hcl, h2], hrp⟩
      · intro hh; rw [hU, hfu] at hh; cases hh
      · intro hh; rw [hU, hfu] at hh; cases hh
    | tooBig =>
      obtain ⟨hr, hcl, hcap⟩ := hbig hf
      subst hr
      simp only
      have hfu := front_tooBig_append c.tr.inq.flatten hf
      refine ⟨⟨hsrc', hinv.chunks, fun hh => by rw [hrp] at hh; cases hh⟩, ⟨rfl, rfl, rfl, rfl, rfl⟩, ?_, ?_, ?_⟩
      · intro p' rest' hh; rw [hU, hfu] at hh; cases hh
      · intro _
        exact ⟨rfl, by simp only [unparsed]; rw [hcl], hcap, hrp⟩
      · intro hh; rw [hU, hfu] at hh; cases hh
    | incomplete =>
      obtain ⟨hr, hdata, hres, hroom, hcapge, hcapeq⟩ := hinc hf
      subst hr
      simp only
      generalize hc1 : ({ c with src := b', dec := d' } : Conn) = c1
      have e_dec : c1.dec = d' := by rw [← hc1]
      have e_src : c1.src = b' := by rw [← hc1]
      have e_tr : c1.tr = c.tr := by rw [← hc1]
      have e_rp : c1.rpend = c.rpend := by rw [← hc1]
      have e_same : SameW c c1 := by rw [← hc1]; exact ⟨rfl, rfl, rfl, rfl, rfl⟩
      have e_un : unparsed c1 = unparsed c := by
        simp only [unparsed, e_dec, e_src, e_tr, clean, hres, hdata, Bool.false_eq_true, if_false]
      by_cases hq : c.tr.inq = []
      · rw [transportRead_empty async c1 (by rw [e_tr]; exact hq)]
        have hUc : unparsed c = clean c.dec c.src := by rw [hU, hq]; simp
        have hfU : front limit (unparsed c) = .incomplete := by rw [hUc]; exact hf
        have hclean1 : clean c1.dec c1.src = clean c.dec c.src := by
          simp only [e_dec, e_src, clean, hres, hdata, Bool.false_eq_true, if_false]
        have he1 : c1.tr.eof = c.tr.eof := by rw [e_tr]
        have hsrc1 : SrcInv c1.dec c1.src := by rw [e_dec, e_src]; exact hsrc'
        have hch1 : ∀ ch ∈ c1.tr.inq, ch ≠ [] := by rw [e_tr]; exact hinv.chunks
        have hq1 : c1.tr.inq = [] := by rw [e_tr]; exact hq
        have hrp1 : c1.rpend = false := by rw [e_rp]; exact hrp
        have hpend1 : c1.dec.decodeReset = false ∧ c1.src.data.length < c1.src.cap ∧ front limit (clean c1.dec c1.src) = .incomplete := by
          rw [hclean1, e_dec, e_src]; exact ⟨hres, hroom, hf⟩
        obtain ⟨a1, a2, a3, a4, a5⟩ := e_same
        rw [he1]
        cases he : c.tr.eof
        · cases async
          · simp only [Bool.false_eq_true, if_false]
            exact rout_empty limit false c c1 _ ⟨hsrc1, hch1, fun hh => by rw [hrp1] at hh; cases hh⟩ ⟨a1, a2, a3, a4, a5⟩ e_un hq1 hfU
              (by simp [he, hrp1])
          · simp only [Bool.false_eq_true, if_false, if_true]
            exact rout_empty limit true c _ _ ⟨hsrc1, hch1, fun _ => hpend1⟩ ⟨a1, a2, a3, a4, a5⟩ e_un hq1 hfU (by simp [he])
        · simp only [if_true]
          exact rout_empty limit async c _ _ ⟨hsrc1, hch1, fun hh => by cases hh⟩ ⟨a1, a2, a3, a4, a5⟩ e_un hq1 hfU (by simp [he])
      · obtain ⟨c2, hrd, hinv2, hrp2, hun2, htot2, hsame2, hcap2⟩ :=
          transportRead_some limit async c1 (by rw [e_dec, e_src]; exact hsrc') (by rw [e_dec]; exact hres)
            (by rw [e_src]; exact hroom) (by rw [e_tr]; exact hinv.chunks) (by rw [e_tr]; exact hq)
        rw [hrd]
        simp only
        rw [e_tr] at htot2
        have hout := ih env.tail c2 hinv2 hrp2 (by omega)
        have hun : unparsed c2 = unparsed c := hun2.trans e_un
        have hsame : SameW c c2 := sameW_trans e_same hsame2
        refine ⟨hout.inv, sameW_trans hsame hout.same, ?_, ?_, ?_⟩
        · intro p rest hh; exact hout.item p rest (by rw [hun]; exact hh)
        · intro hh
          obtain ⟨o1, o2, o3, o4⟩ := hout.big (by rw [hun]; exact hh)
          refine ⟨o1, o2.trans hun, ?_, o4⟩
          rw [o3, hcap2, e_src]
          apply hcapeq
          by_cases hl : (clean c.dec c.src).length < 4
          · exact hl
          · have := front_tooBig_of_append (by omega) (hU ▸ hh)
            rw [hf] at this; cases this
        · intro hh
          obtain ⟨o1, o2, o3⟩ := hout.inc (by rw [hun]; exact hh)
          rw [hsame.2.2.2.1] at o3
          exact ⟨o1.trans hun, o2, o3⟩

end Sonic.Lemmas.FrameCodec
