/-
Facts about the C17 property monitor (`Sonic.Spec.WsAsync`) used by the refinement proof: the ledger operations, what
an accepted `enter` event does to the monitor state (`step_enter`, `entered`), matching the wire against the frames
owed (`matchWire_ok`) and gathering message fragments (`takeData_frags`).
-/
import Sonic.Spec.WsAsync

namespace Sonic.Spec.WsAsync
open Sonic.Spec.WsStream (Bytes InFrame StreamState replyCode isViolation u16 controlOp)

theorem findCb_some {s : S} {id : Nat} {c : Cb} (h : findCb s id = some c) : c ∈ s.cbs ∧ c.id = id := by
  unfold findCb at h
  exact ⟨List.mem_of_find?_eq_some h, by simpa using List.find?_some h⟩

theorem findCb_isSome_of_mem {s : S} {c : Cb} (h : c ∈ s.cbs) : (findCb s c.id).isSome = true := by
  unfold findCb
  rw [List.find?_isSome]
  exact ⟨c, h, by simp⟩

theorem findCb_none {s : S} {id : Nat} (h : findCb s id = none) : ∀ c ∈ s.cbs, c.id ≠ id := by
  unfold findCb at h
  rw [List.find?_eq_none] at h
  intro c hc e
  exact h c hc (by simp [e])

theorem mem_setCb {s : S} {c x : Cb} : x ∈ (setCb s c).cbs ↔ x = c ∨ (x ∈ s.cbs ∧ x.id ≠ c.id) := by
  simp [setCb, List.mem_filter]

/-- add frames owed to the wire -/
def addW (s : S) (ws : List Want) : S := { s with expect := s.expect ++ ws }

theorem addW_nil (s : S) : addW s [] = s := by simp [addW]

theorem pushReply_eq (s : S) (f : InFrame) : pushReply s f = addW s (replyFor s.last f).toList := by
  unfold pushReply
  cases replyFor s.last f with
  | none => simp [addW]
  | some w => rfl

/-- the frames a completed read obliges the client to send -/
def failW (isRead : Bool) (last st : StreamState) (res : Res) : List Want :=
  if isRead && last == .active && st == .closedByUs then
    (if res == .proto then [.closeCode 1002] else if res == .tooBig then [.closeCode 1001] else [])
  else []

theorem pushFailure_eq (s : S) (res : Res) (st : StreamState) : pushFailure s res st = addW s (failW true s.last st res) := by
  unfold pushFailure failW
  simp only [Bool.true_and]
  split
  · split
    · rfl
    · split
      · rfl
      · simp [addW]
  · simp [addW]

def enterPush (k : Kind) (last st : StreamState) (res : Res) (frame : Option InFrame) : List Want :=
  (match frame with
   | some f => if k == .read && res == .ok then (replyFor last f).toList else []
   | none => []) ++ failW k.isRead last st res

/-- the monitor after an accepted `enter`, given the state `s1` after the delivery check -/
def entered (s1 : S) (c : Cb) (cb : Nat) (res : Res) (frame : Option InFrame) (st : StreamState) : S :=
  let s3 := addW s1 (enterPush c.kind s1.last st res frame)
  { (setCb s3 { c with done := true }) with stack := .handler cb :: s3.stack, last := st,
                                             healthy := s3.healthy && res != .err }

def deliver (s : S) (k : Kind) (res : Res) (frame : Option InFrame) (data : Option Bytes) : M S :=
  match k, data with
  | .readMsg, some d => deliverMsg s res d
  | .readMsg, none => deliverMsg s res []
  | _, _ => if k == .read then deliverFrame s res frame else pure s

theorem s3_none (s1 : S) (k : Kind) (res : Res) (st : StreamState) :
    (if k.isRead = true then pushFailure s1 res st else s1) = addW s1 (enterPush k s1.last st res none) := by
  unfold enterPush
  cases hk : k.isRead with
  | true => simp only [if_true]; rw [pushFailure_eq]; rfl
  | false => simp [failW, addW]

theorem s3_some (s1 : S) (k : Kind) (res : Res) (f : InFrame) (st : StreamState) :
    (if k.isRead = true then pushFailure (if (k == Kind.read && res == Res.ok) = true then pushReply s1 f else s1) res st
      else (if (k == Kind.read && res == Res.ok) = true then pushReply s1 f else s1)) =
      addW s1 (enterPush k s1.last st res (some f)) := by
  have e2 : (if (k == Kind.read && res == Res.ok) = true then pushReply s1 f else s1) =
      addW s1 (if k == .read && res == .ok then (replyFor s1.last f).toList else []) := by
    split
    · exact pushReply_eq s1 f
    · exact (addW_nil s1).symm
  rw [e2]
  unfold enterPush
  cases hk : k.isRead with
  | true =>
    simp only [if_true]
    rw [pushFailure_eq]
    simp [addW, List.append_assoc]
  | false =>
    simp only [Bool.false_eq_true, if_false]
    simp [failW, addW]

theorem step_enter {m : S} {cb : Nat} {res : Res} {frame : Option InFrame} {data : Option Bytes} {st : StreamState}
    {c : Cb} {s1 : S} (hf : findCb m cb = some c) (hd : c.done = false)
    (h1 : (!c.kind.isRead && c.returned && res != .ok && m.healthy) = false)
    (h2 : (!c.kind.isRead && !c.returned && (res == .cancelled || res == .eof) && m.last == .active) = false)
    (hdel : deliver m c.kind res frame data = .ok s1) :
    step m (.enter cb res frame data st) = .ok (entered s1 c cb res frame st) := by
  unfold deliver at hdel
  cases frame with
  | none =>
    simp only [step, hf, hd, Bool.false_eq_true, if_false, h1, h2]
    split
    · rename_i d hk
      simp only [hk] at hdel
      rw [hdel]
      simp only [bind, Except.bind, pure, Except.pure]
      rw [s3_none]
      rfl
    · rename_i hk
      simp only [hk] at hdel
      rw [hdel]
      simp only [bind, Except.bind, pure, Except.pure]
      rw [s3_none]
      rfl
    · rename_i k' d' hn1 hn2
      split at hdel
      · rename_i d hk; exact absurd rfl (hn1 d hk)
      · rename_i hk; exact absurd rfl (hn2 hk)
      · by_cases hr : (c.kind == Kind.read) = true
        · rw [if_pos hr] at hdel ⊢
          rw [hdel]
          simp only [bind, Except.bind, pure, Except.pure]
          rw [s3_none]
          rfl
        · rw [if_neg hr] at hdel ⊢
          simp only [bind, Except.bind, pure, Except.pure] at hdel ⊢
          cases hdel
          rw [s3_none]
          rfl
  | some f =>
    simp only [step, hf, hd, Bool.false_eq_true, if_false, h1, h2]
    split
    · rename_i d hk
      simp only [hk] at hdel
      rw [hdel]
      simp only [bind, Except.bind, pure, Except.pure]
      rw [s3_some]
      rfl
    · rename_i hk
      simp only [hk] at hdel
      rw [hdel]
      simp only [bind, Except.bind, pure, Except.pure]
      rw [s3_some]
      rfl
    · rename_i k' d' hn1 hn2
      split at hdel
      · rename_i d hk; exact absurd rfl (hn1 d hk)
      · rename_i hk; exact absurd rfl (hn2 hk)
      · by_cases hr : (c.kind == Kind.read) = true
        · rw [if_pos hr] at hdel ⊢
          rw [hdel]
          simp only [bind, Except.bind, pure, Except.pure]
          rw [s3_some]
          rfl
        · rw [if_neg hr] at hdel ⊢
          simp only [bind, Except.bind, pure, Except.pure] at hdel ⊢
          cases hdel
          rw [s3_some]
          rfl

theorem matchWire_ok (rest : List Want) : ∀ (l : List (Want × WireFrame)), (∀ x ∈ l, x.1.matches x.2 = true) →
    matchWire (l.map (·.1) ++ rest) (l.map (·.2)) = .ok rest
  | [], _ => by cases rest <;> rfl
  | x :: l, h => by
    have hx := h x (List.mem_cons_self ..)
    simp only [List.map_cons, List.cons_append, matchWire, hx, if_true]
    exact matchWire_ok rest l (fun y hy => h y (List.mem_cons_of_mem _ hy))

def payloadsOf (fs : List InFrame) : Bytes := fs.flatMap (·.payload)

theorem takeData_frags (rest : List InFrame) : ∀ (frags : List InFrame) (acc : Bytes) (n : Nat),
    (∀ g ∈ frags, controlOp g.op = false ∧ g.fin = false) → frags.length < n →
    takeData n (frags ++ rest) acc = takeData (n - frags.length) rest (acc ++ payloadsOf frags)
  | [], acc, n, _, _ => by simp [payloadsOf]
  | g :: frags, acc, n + 1, h, hn => by
    obtain ⟨h1, h2⟩ := h g (List.mem_cons_self ..)
    simp only [List.cons_append, takeData, h1, h2, Bool.false_eq_true, if_false, List.length_cons]
    rw [takeData_frags rest frags (acc ++ g.payload) n (fun y hy => h y (List.mem_cons_of_mem _ hy))
      (by simpa using hn)]
    simp [payloadsOf, List.append_assoc]

end Sonic.Spec.WsAsync
