/-
`LInv` (LoopLedgerInv.lean) is preserved by every transition of the loop model.
-/
import Sonic.Lemmas.LoopLedgerInv

namespace Sonic.Model.Loop
open Sonic.Spec.Loop (Ev Ret Res OpKind ObjKind maxDispatch)

theorem armTimer_objs (w : World) (o : Obj) (op : Nat) (rep : Bool) :
    (armTimer w o op rep).objs = (setObj w { o with evR := true, hR := op, tstate := .scheduled, cancelled := false, rep := rep }).objs := by
  unfold armTimer; split <;> rfl

theorem armTimer_rest (w : World) (o : Obj) (op : Nat) (rep : Bool) :
    (armTimer w o op rep).posts = w.posts ∧ (armTimer w o op rep).ops = w.ops ∧ (armTimer w o op rep).stack = w.stack := by
  unfold armTimer; split <;> exact ⟨rfl, rfl, rfl⟩

theorem armTimer_linv {w : World} {o : Obj} {op : Nat} {rep : Bool} {info : OpInfo} (hI : LInv w) (hg : getObj w o.id = some o)
    (hop : opIn w.ops op = some info) (hobj : info.obj = o.id) (hk : info.kind.isTimer = true) (hkt : o.kind = .timer) :
    LInv (armTimer w o op rep) := by
  have hr := armTimer_rest w o op rep
  refine linv_setObj (w1 := w) hI rfl (armTimer_objs w o op rep) hr.1 hr.2.1 ?_ (fun f hf => Or.inl (by rw [hr.2.2] at hf; exact hf))
  refine hobj_setR (o := o) (op := op) (info := info) (hobj_of_getObj hI hg) rfl rfl ⟨rfl, rfl⟩ ⟨rfl, rfl⟩ hop hobj ?_ (fun _ => ⟨hk, rfl⟩)
    (fun hnt => absurd hkt hnt)
  intro hp; rw [hp] at hk; cases hk

theorem applyAfter_linv (w : World) (op : Nat) (a : After) (hI : LInv w) (hf : FrameOk w.ops (.user op a)) : LInv (applyAfter w op a) := by
  cases a with
  | none => exact hI
  | decDisp => exact linv_same hI rfl rfl rfl (fun f hf => Or.inl hf)
  | postDone => exact linv_same hI rfl rfl rfl (fun f hf => Or.inl hf)
  | timerDone k rep cb =>
    simp only [applyAfter]
    cases hg : getObj w k with
    | none => exact hI
    | some o =>
      simp only
      have hid := getObj_id hg
      have ho := hobj_of_getObj hI hg
      repeat' split
      all_goals first
        | exact hI
        | (refine linv_setObj (w1 := w) (o' := { o with cancelled := false }) hI rfl rfl rfl rfl ?_ (fun f hf => Or.inl hf)
           exact hobj_keep ho rfl rfl (Or.inr ⟨rfl, rfl⟩) (Or.inr ⟨rfl, rfl⟩) (fun _ => Or.inl rfl))
        | (rename_i hrep _ _
           have hb : rep = true ∧ o.kind = .timer := by
             cases rep with
             | true => exact ⟨rfl, by simpa using hrep⟩
             | false => simp at hrep
           obtain ⟨hr, hkt⟩ := hb
           subst hr
           exact armTimer_linv hI (by rw [hid]; exact hg) hf (by rw [hid]) rfl hkt)

theorem delRead_linv {w : World} {o : Obj} (hI : LInv w) (hg : getObj w o.id = some o) (st : List K)
    (hst : ∀ f ∈ st, f ∈ w.stack ∨ FrameOk w.ops f) : LInv { (delRead w o) with stack := st } := by
  unfold delRead
  split
  · refine linv_setObj (w1 := { w with pending := w.pending - 1 }) (o' := { o with evR := false, registered := o.evW }) hI rfl rfl rfl rfl ?_ hst
    exact hobj_keep (hobj_of_getObj hI hg) rfl rfl (Or.inl rfl) (Or.inr ⟨rfl, rfl⟩) (fun he => by cases he)
  · exact linv_same hI rfl rfl rfl hst

theorem delWrite_linv {w : World} {o : Obj} (hI : LInv w) (hg : getObj w o.id = some o) (st : List K)
    (hst : ∀ f ∈ st, f ∈ w.stack ∨ FrameOk w.ops f) : LInv { (delWrite w o) with stack := st } := by
  unfold delWrite
  split
  · refine linv_setObj (w1 := { w with pending := w.pending - 1 }) (o' := { o with evW := false, registered := o.evR }) hI rfl rfl rfl rfl ?_ hst
    exact hobj_keep (hobj_of_getObj hI hg) rfl rfl (Or.inr ⟨rfl, rfl⟩) (Or.inl rfl) (fun _ => Or.inr rfl)
  · exact linv_same hI rfl rfl rfl hst

/-- frames below the top one stay, new frames without table facts are fine -/
theorem sub_of_tail {w : World} {f : K} {rest : List K} (hst : w.stack = f :: rest) (new : List K) (hnew : ∀ g ∈ new, FrameOk w.ops g) :
    ∀ g ∈ new ++ rest, g ∈ w.stack ∨ FrameOk w.ops g := by
  intro g hg
  rcases List.mem_append.1 hg with h | h
  · exact Or.inr (hnew g h)
  · left; rw [hst]; exact List.mem_cons_of_mem _ h

theorem cancelStep_linv (w w' : World) (k : Nat) (phase : Phase) (rest : List K) (e : Ev)
    (hst : w.stack = .cancelCall k phase :: rest) (hI : LInv w) (h : cancelStep w k phase rest e = some w') : LInv w' := by
  unfold cancelStep at h
  cases hg : getObj w k with
  | none => simp [hg] at h
  | some o =>
    simp only [hg] at h
    have hid := getObj_id hg
    have hg' : getObj w o.id = some o := by rw [hid]; exact hg
    cases e with
    | enter op res n data early =>
      simp only at h
      repeat' split at h
      all_goals first
        | (cases h; done)
        | (cases h
           exact delRead_linv hI hg' _ (sub_of_tail hst [.user op .none, .cancelCall k .writes] (by intro g hg; simp at hg; rcases hg with rfl | rfl <;> trivial)))
        | (cases h
           exact delWrite_linv hI hg' _ (sub_of_tail hst [.user op .none, .cancelCall k .done] (by intro g hg; simp at hg; rcases hg with rfl | rfl <;> trivial)))
    | ret r =>
      simp only at h
      repeat' split at h
      all_goals first
        | (cases h; done)
        | (cases h; exact linv_same hI rfl rfl rfl (sub_of_tail hst [] (by intro g hg; cases hg)))
    | _ => simp at h

theorem opIn_id {ops : List OpInfo} {x : Nat} {info : OpInfo} (h : opIn ops x = some info) : info.id = x := by
  have := List.find?_some h
  simpa using this

theorem pollDispatch_linv (w w' : World) (op : Nat) (any : Bool) (rest : List K)
    (hst : w.stack = .pollCall any :: rest) (hI : LInv w) (h : pollDispatch w op rest = some w') : LInv w' := by
  unfold pollDispatch at h
  cases hop : getOp w op with
  | none => simp [hop] at h
  | some info =>
    simp only [hop] at h
    have hiid : info.id = op := opIn_id hop
    split at h
    · -- posted handler
      repeat' split at h
      all_goals first
        | (cases h; done)
        | (cases h
           rename_i hps _
           refine ⟨hI.objs, fun p hp => hI.posts p (by rw [hps]; exact List.mem_cons_of_mem _ hp), ?_⟩
           exact fun f hf => by
             have := sub_of_tail hst [.user op .postDone, .pollCall true] (by intro g hg; simp at hg; rcases hg with rfl | rfl <;> trivial) f hf
             rcases this with h1 | h1
             · exact hI.frames f h1
             · exact h1)
    · cases hg : getObj w info.obj with
      | none => simp [hg] at h
      | some o =>
        simp only [hg] at h
        have hid := getObj_id hg
        have hg' : getObj w o.id = some o := by rw [hid]; exact hg
        repeat' split at h
        all_goals first
          | (cases h; done)
          | (cases h
             refine linv_setObj (w1 := { w with pending := w.pending - 1 }) (o' := { o with evR := false, tstate := .ready }) hI rfl rfl rfl rfl ?_ ?_
             · exact hobj_keep (hobj_of_getObj hI hg') rfl rfl (Or.inl rfl) (Or.inr ⟨rfl, rfl⟩) (fun he => by cases he)
             · refine sub_of_tail hst [.user op (.timerDone o.id (info.kind == OpKind.timerRep) o.cancels), .pollCall true] ?_
               intro g hg
               simp only [List.mem_cons, List.mem_nil_iff, or_false] at hg
               rcases hg with rfl | rfl
               · cases hk : (info.kind == OpKind.timerRep) with
                 | false => trivial
                 | true =>
                   have hkk : info.kind = .timerRep := by simpa using hk
                   show opIn w.ops op = some ⟨op, o.id, .timerRep⟩
                   rw [← getOp_eq, hop, hid, ← hiid, ← hkk]
               · trivial)
          | (cases h
             exact delRead_linv hI hg' _ (sub_of_tail hst [.user op .none, .pollCall true] (by intro g hg; simp at hg; rcases hg with rfl | rfl <;> trivial)))
          | (cases h
             exact delWrite_linv hI hg' _ (sub_of_tail hst [.user op .none, .pollCall true] (by intro g hg; simp at hg; rcases hg with rfl | rfl <;> trivial)))

theorem setRead_linv {w : World} {o : Obj} {op : Nat} {info : OpInfo} (hI : LInv w) (hg : getObj w o.id = some o) (st : List K)
    (hst : ∀ f ∈ st, f ∈ w.stack ∨ FrameOk w.ops f) (hop : opIn w.ops op = some info) (hobj : info.obj = o.id)
    (hnp : info.kind ≠ .post) (hnt : o.kind ≠ .timer) (hr : info.kind.isRead = true) : LInv { (setRead w o op) with stack := st } := by
  unfold setRead
  split
  · rename_i he
    refine linv_setObj (w1 := w) (o' := { o with hR := op, registered := true }) hI rfl rfl rfl rfl ?_ hst
    exact hobj_setR (o := o) (op := op) (info := info) (hobj_of_getObj hI hg) rfl rfl ⟨he, rfl⟩ ⟨rfl, rfl⟩ hop hobj hnp (fun hk => absurd hk hnt) (fun _ => hr)
  · refine linv_setObj (w1 := { w with pending := w.pending + 1 }) (o' := { o with hR := op, evR := true, registered := true }) hI rfl rfl rfl rfl ?_ hst
    exact hobj_setR (o := o) (op := op) (info := info) (hobj_of_getObj hI hg) rfl rfl ⟨rfl, rfl⟩ ⟨rfl, rfl⟩ hop hobj hnp (fun hk => absurd hk hnt) (fun _ => hr)

theorem setWrite_linv {w : World} {o : Obj} {op : Nat} {info : OpInfo} (hI : LInv w) (hg : getObj w o.id = some o) (st : List K)
    (hst : ∀ f ∈ st, f ∈ w.stack ∨ FrameOk w.ops f) (hop : opIn w.ops op = some info) (hobj : info.obj = o.id)
    (hnp : info.kind ≠ .post) (hnt : o.kind ≠ .timer) (hw : info.kind.isWrite = true) : LInv { (setWrite w o op) with stack := st } := by
  unfold setWrite
  split
  · rename_i he
    refine linv_setObj (w1 := w) (o' := { o with hW := op, registered := true }) hI rfl rfl rfl rfl ?_ hst
    exact hobj_setW (o := o) (op := op) (info := info) (hobj_of_getObj hI hg) rfl rfl hnt ⟨he, rfl⟩ ⟨rfl, rfl⟩ hop hobj hnp hw
  · refine linv_setObj (w1 := { w with pending := w.pending + 1 }) (o' := { o with hW := op, evW := true, registered := true }) hI rfl rfl rfl rfl ?_ hst
    exact hobj_setW (o := o) (op := op) (info := info) (hobj_of_getObj hI hg) rfl rfl hnt ⟨rfl, rfl⟩ ⟨rfl, rfl⟩ hop hobj hnp hw

theorem closeObj_linv {w : World} {o : Obj} (hI : LInv w) (hg : getObj w o.id = some o) (st : List K)
    (hst : ∀ f ∈ st, f ∈ w.stack ∨ FrameOk w.ops f) : LInv { (closeObj w o) with stack := st } := by
  unfold closeObj
  split
  · refine linv_setObj (w1 := unsetPending w o) (o' := { o with evR := false, tstate := .closed }) hI rfl rfl rfl rfl ?_ hst
    exact hobj_keep (hobj_of_getObj hI hg) rfl rfl (Or.inl rfl) (Or.inr ⟨rfl, rfl⟩) (fun he => by cases he)
  · refine linv_setObj (w1 := { w with pending := w.pending - ((if o.evR then 1 else 0) + (if o.evW then 1 else 0)) })
      (o' := { o with evR := false, evW := false, closed := true, registered := false }) hI rfl rfl rfl rfl ?_ hst
    exact hobj_keep (hobj_of_getObj hI hg) rfl rfl (Or.inl rfl) (Or.inl rfl) (fun he => by cases he)

theorem isIO_not_post {k : OpKind} (h : k.isIO = true) : k ≠ .post := by
  intro hk; rw [hk] at h; simp [OpKind.isIO, OpKind.isRead, OpKind.isWrite] at h

/-- A fresh operation is recorded and a frame is pushed. -/
theorem linv_grow {w : World} {i0 : OpInfo} {f : K} (hI : LInv w) (hf : (getOp w i0.id).isSome = false)
    (hfo : FrameOk (i0 :: w.ops) f) : LInv { w with ops := i0 :: w.ops, stack := f :: w.stack } := by
  have hm : ∀ x info, opIn w.ops x = some info → opIn (i0 :: w.ops) x = some info := fun x info hx => opIn_cons_fresh hf hx
  refine ⟨fun o ho => hobj_mono hm (hI.objs o ho), fun p hp => hm _ _ (hI.posts p hp), ?_⟩
  intro g hg
  simp only [List.mem_cons] at hg
  rcases hg with rfl | hg
  · exact hfo
  · exact frameOk_mono hm (hI.frames g hg)

set_option hygiene false in
macro "linv_pop" : tactic =>
  `(tactic| first
    | (cases h; done)
    | (cases h; exact linv_same hI rfl rfl rfl (sub_of_tail hst [] (by intro g hg; cases hg))))

/-- **`LInv` is preserved by every transition of the loop model.** -/
theorem step_linv (w w' : World) (e : Ev) (hI : LInv w) (h : step w e = some w') : LInv w' := by
  unfold step at h
  split at h
  · -- object creation
    repeat' split at h
    all_goals first
      | (cases h; done)
      | (cases h
         refine ⟨?_, hI.posts, hI.frames⟩
         intro o hm
         simp only [List.mem_cons] at hm
         rcases hm with rfl | hm
         · exact ⟨fun he => by simp at he, fun he => by simp at he, fun _ he => by simp at he⟩
         · exact hI.objs o hm)
  · rename_i op after rest op' hst
    split at h
    · cases h
      have hf : FrameOk w.ops (.user op after) := hI.frames _ (by rw [hst]; exact List.mem_cons_self ..)
      exact applyAfter_linv _ op after (linv_same hI rfl rfl rfl (sub_of_tail hst [] (by intro g hg; cases hg))) hf
    · cases h
  · rename_i k phase rest hst
    exact cancelStep_linv w w' k phase rest _ hst hI h
  · rename_i op k kind rest op' res n data early hst
    have hf : FrameOk w.ops (.startCall op k kind false) := hI.frames _ (by rw [hst]; exact List.mem_cons_self ..)
    cases hg : getObj w k with
    | none => simp [hg] at h
    | some o =>
      simp only [hg] at h
      repeat' split at h
      all_goals first
        | (cases h; done)
        | (cases h
           refine linv_same hI rfl rfl rfl (sub_of_tail hst [_, _] ?_)
           intro g hg
           simp only [List.mem_cons, List.mem_nil_iff, or_false] at hg
           rcases hg with rfl | rfl
           · trivial
           · exact hf)
  · rename_i op k kind completed rest r hst
    have hf : FrameOk w.ops (.startCall op k kind completed) := hI.frames _ (by rw [hst]; exact List.mem_cons_self ..)
    cases hg : getObj w k with
    | none =>
      simp only [hg] at h
      repeat' split at h
      all_goals linv_pop
    | some o =>
      simp only [hg] at h
      have hid := getObj_id hg
      have hg' : getObj w o.id = some o := by rw [hid]; exact hg
      repeat' split at h
      all_goals first
        | linv_pop
        | (cases h
           rename_i hc _
           simp only [Bool.or_eq_true, not_or, Bool.not_eq_true, beq_eq_false_iff_ne] at hc
           first
             | (rename_i hrd
                exact setRead_linv hI hg' _ (sub_of_tail hst [] (by intro g hg; cases hg)) hf.1 (by rw [hid]) (isIO_not_post hf.2) hc.2 hrd)
             | (rename_i hrd
                have hw : kind.isWrite = true := by
                  have := hf.2; simp only [OpKind.isIO, Bool.or_eq_true] at this
                  rcases this with h1 | h1
                  · exact absurd h1 hrd
                  · exact h1
                exact setWrite_linv hI hg' _ (sub_of_tail hst [] (by intro g hg; cases hg)) hf.1 (by rw [hid]) (isIO_not_post hf.2) hc.2 hw))
  · rename_i k rest isNil hst
    cases hg : getObj w k with
    | none => simp [hg] at h
    | some o =>
      simp only [hg] at h
      have hid := getObj_id hg
      have hg' : getObj w o.id = some o := by rw [hid]; exact hg
      repeat' split at h
      all_goals first
        | linv_pop
        | (cases h; exact closeObj_linv hI hg' _ (sub_of_tail hst [] (by intro g hg; cases hg)))
  · rename_i op k rep ticks rest op' res n data early hst
    have hf : FrameOk w.ops (.schedCall op k rep ticks false) := hI.frames _ (by rw [hst]; exact List.mem_cons_self ..)
    cases hg : getObj w k with
    | none => simp [hg] at h
    | some o =>
      simp only [hg] at h
      have hid := getObj_id hg
      have hg' : getObj w o.id = some o := by rw [hid]; exact hg
      repeat' split at h
      all_goals first
        | (cases h; done)
        | (cases h
           refine linv_setObj (w1 := w) (o' := { o with cancelled := false }) hI rfl rfl rfl rfl ?_ (sub_of_tail hst [_, _] ?_)
           · exact hobj_keep (hobj_of_getObj hI hg') rfl rfl (Or.inr ⟨rfl, rfl⟩) (Or.inr ⟨rfl, rfl⟩) (fun _ => Or.inl rfl)
           · intro g hg
             simp only [List.mem_cons, List.mem_nil_iff, or_false] at hg
             rcases hg with rfl | rfl
             · trivial
             · exact hf)
  · rename_i op k rep ticks completed rest isNil hst
    have hf : FrameOk w.ops (.schedCall op k rep ticks completed) := hI.frames _ (by rw [hst]; exact List.mem_cons_self ..)
    cases hg : getObj w k with
    | none => simp [hg] at h
    | some o =>
      simp only [hg] at h
      have hid := getObj_id hg
      have hg' : getObj w o.id = some o := by rw [hid]; exact hg
      repeat' split at h
      all_goals first
        | linv_pop
        | (cases h
           have hb := armTimer_linv (rep := rep) hI hg' hf (by rw [hid]) (by cases rep <;> rfl) (by rename_i hcc; simp only [Bool.and_eq_true, beq_iff_eq] at hcc; exact hcc.2)
           have hr := armTimer_rest w o op rep
           exact linv_same hb rfl rfl rfl (fun g hg => Or.inl (by rw [hr.2.2, hst]; exact List.mem_cons_of_mem _ hg)))
  · rename_i k rest isNil hst
    cases hg : getObj w k with
    | none => simp [hg] at h
    | some o =>
      simp only [hg] at h
      have hid := getObj_id hg
      have hg' : getObj w o.id = some o := by rw [hid]; exact hg
      repeat' split at h
      all_goals first
        | linv_pop
        | (cases h
           refine linv_setObj (w1 := unsetPending w o) (o' := { o with evR := false, cancelled := true, cancels := o.cancels + 1, tstate := .ready })
             hI rfl rfl rfl rfl ?_ (sub_of_tail hst [] (by intro g hg; cases hg))
           exact hobj_keep (hobj_of_getObj hI hg') rfl rfl (Or.inl rfl) (Or.inr ⟨rfl, rfl⟩) (fun he => by cases he))
  · rename_i k rest b hst
    cases hg : getObj w k with
    | none => simp [hg] at h
    | some o =>
      simp only [hg] at h
      repeat' split at h
      all_goals linv_pop
  · rename_i op rest isNil hst
    have hf : FrameOk w.ops (.postCall op) := hI.frames _ (by rw [hst]; exact List.mem_cons_self ..)
    repeat' split at h
    all_goals first
      | (cases h; done)
      | (cases h
         refine ⟨hI.objs, ?_, fun g hg => hI.frames g (by rw [hst]; exact List.mem_cons_of_mem _ hg)⟩
         intro p hp
         rcases List.mem_append.1 hp with h1 | h1
         · exact hI.posts p h1
         · simp only [List.mem_singleton] at h1; rw [h1]; exact hf)
  · rename_i any rest op res n data early hst
    exact pollDispatch_linv w w' op any rest hst hI h
  · rename_i any rest n res hst
    repeat' split at h
    all_goals linv_pop
  · rename_i any rest n hst
    repeat' split at h
    all_goals linv_pop
  · rename_i rest p q d hst
    repeat' split at h
    all_goals linv_pop
  · rename_i rest r hst
    linv_pop
  · -- calls made from user code
    repeat' split at h
    all_goals first
      | (cases h; done)
      | (rename_i hc
         cases h
         simp only [Bool.or_eq_true, not_or, Bool.not_eq_true] at hc
         exact linv_grow hI hc.1.1 ⟨opIn_cons_self _ _, by simpa using hc.2⟩)
      | (rename_i hc hr
         cases h
         simp only [Bool.or_eq_true, not_or, Bool.not_eq_true] at hc
         subst hr
         exact linv_grow hI hc.1 (opIn_cons_self _ _))
      | (rename_i hc hr
         cases h
         simp only [Bool.or_eq_true, not_or, Bool.not_eq_true] at hc
         have hr' := Bool.eq_false_iff.2 hr
         subst hr'
         exact linv_grow hI hc.1 (opIn_cons_self _ _))
      | (rename_i hc
         cases h
         exact linv_grow hI (by simpa using hc) (opIn_cons_self _ _))
      | (cases h; exact linv_same hI rfl rfl rfl (fun g hg => by
           simp only [push, List.mem_cons] at hg
           rcases hg with rfl | hg
           · exact Or.inr trivial
           · exact Or.inl hg))
      | (cases h
         rename_i hst
         exact linv_same hI rfl rfl rfl (fun g hg => Or.inl (by rw [hst]; exact List.mem_cons_of_mem _ hg)))

end Sonic.Model.Loop
