/-
Facts about the handshake model (`Sonic.Model.WsHandshake`): the blank-line search and the
read-until-terminator loop of `upgrade`, for every segmentation of the response.
-/
import Sonic.Model.WsHandshake

namespace Sonic.Lemmas.WsHandshake
open Sonic.Spec.WsHandshake Sonic.Model.WsHandshake

theorem startsBlank_length {u : Bytes} (h : startsBlank u = true) : 4 ≤ u.length := by
  match u with
  | [] | [_] | [_, _] | [_, _, _] => simp [startsBlank] at h
  | _ :: _ :: _ :: _ :: _ => simp

theorem startsBlank_append {u : Bytes} (v : Bytes) (h : 4 ≤ u.length) : startsBlank (u ++ v) = startsBlank u := by
  match u, h with
  | a :: b :: c :: d :: r, _ => simp [startsBlank]

theorem headEnd_cons (x : UInt8) (xs : Bytes) :
    headEnd (x :: xs) = if startsBlank (x :: xs) then some 4 else (headEnd xs).map (· + 1) := rfl

theorem headEnd_bounds : ∀ {u : Bytes} {k : Nat}, headEnd u = some k → 4 ≤ k ∧ k ≤ u.length := by
  intro u
  induction u with
  | nil => intro k h; cases h
  | cons x xs ih =>
    intro k h
    rw [headEnd_cons] at h
    split at h
    · rename_i hs
      injection h with h; subst h
      exact ⟨Nat.le_refl _, startsBlank_length hs⟩
    · cases hx : headEnd xs with
      | none => rw [hx] at h; cases h
      | some j =>
        rw [hx] at h
        injection h with h; subst h
        have := ih hx
        simp; omega

theorem headEnd_append_some : ∀ {u : Bytes} {k : Nat} (v : Bytes), headEnd u = some k → headEnd (u ++ v) = some k := by
  intro u
  induction u with
  | nil => intro k v h; cases h
  | cons x xs ih =>
    intro k v h
    have hb := headEnd_bounds h
    rw [List.cons_append, headEnd_cons, ← List.cons_append, startsBlank_append v (by omega)]
    rw [headEnd_cons] at h
    split at h
    · rename_i hs; rw [if_pos hs]; exact h
    · rename_i hs
      rw [if_neg hs]
      cases hx : headEnd xs with
      | none => rw [hx] at h; cases h
      | some j => rw [ih v hx]; rw [hx] at h; exact h

theorem headEnd_none_short {u : Bytes} (h : u.length < 4) : headEnd u = none := by
  cases hu : headEnd u with
  | none => rfl
  | some k => have := headEnd_bounds hu; omega

/-- The incremental search of `upgrade` finds what a search of the whole buffer finds. -/
theorem headEnd_incremental : ∀ (a b : Bytes), headEnd a = none →
    headEnd (a ++ b) = (headEnd ((a ++ b).drop (a.length - 3))).map (· + (a.length - 3)) := by
  intro a
  induction a with
  | nil => intro b _; simp
  | cons x xs ih =>
    intro b h
    by_cases hl : (x :: xs).length ≤ 3
    · have : (x :: xs).length - 3 = 0 := by omega
      rw [this]; simp
    · have hl4 : 4 ≤ (x :: xs).length := by omega
      rw [headEnd_cons] at h
      have hs : startsBlank (x :: xs) = false := by
        cases hsb : startsBlank (x :: xs)
        · rfl
        · rw [hsb] at h; simp at h
      rw [hs] at h
      simp only [Bool.false_eq_true, if_false] at h
      have hxs : headEnd xs = none := by
        cases hx : headEnd xs with
        | none => rfl
        | some j => rw [hx] at h; cases h
      rw [List.cons_append, headEnd_cons, ← List.cons_append, startsBlank_append b hl4, hs]
      simp only [Bool.false_eq_true, if_false]
      rw [ih b hxs]
      have e1 : (x :: xs).length - 3 = (xs.length - 3) + 1 := by
        simp only [List.length_cons] at hl4 ⊢; omega
      rw [e1, List.cons_append, List.drop_succ_cons]
      cases headEnd (List.drop (xs.length - 3) (xs ++ b)) with
      | none => rfl
      | some j => simp; omega

/-- The read-until-terminator loop, for every way the transport cuts the stream (`cuts`) and every capacity growth:
it stops exactly at the first blank line of `buf ++ rest` (the bytes of the stream in order), having lost nothing;
if there is no blank line it ends with EOF (server closed) or keeps waiting. -/
theorem readLoop_spec (P : Params) (hgrow : ∀ c, c < P.grow c) :
    ∀ (fuel : Nat) (buf : Bytes) (cap : Nat) (w : Wire),
      headEnd buf = none → buf.length ≤ cap → buf.length + w.rest.length < maxHandshakeResponseLength →
      w.rest.length < fuel →
      (∀ k, headEnd (buf ++ w.rest) = some k →
        ∃ buf' cap' w', readLoop P fuel buf cap w = .found k buf' cap' w' ∧ buf' ++ w'.rest = buf ++ w.rest ∧
          k ≤ buf'.length ∧ w'.closed = w.closed) ∧
      (headEnd (buf ++ w.rest) = none → readLoop P fuel buf cap w = if w.closed then .eof else .blocked) := by
  intro fuel
  induction fuel with
  | zero => intro buf cap w _ _ _ h; omega
  | succ f ih =>
    intro buf cap w hno hlen hsmall hfuel
    unfold readLoop
    have hnl : ¬ (buf.length = cap ∧ cap ≥ maxHandshakeResponseLength) := by omega
    rw [if_neg hnl]
    simp only
    generalize hcap1 : (if buf.length = cap then P.grow cap else cap) = cap1
    have hroom : buf.length < cap1 := by
      rw [← hcap1]; split
      · rename_i he; have := hgrow cap; omega
      · omega
    cases hrest : w.rest with
    | nil =>
      simp only
      rw [hrest, List.append_nil] at *
      exact ⟨(fun k hk => by rw [hno] at hk; cases hk), fun _ => trivial⟩
    | cons x xs =>
      simp only
      have hwant1 : 1 ≤ wantOf w.cuts (x :: xs).length := by
        unfold wantOf; split
        · split
          · simp
          · omega
        · simp
      generalize hn : min (wantOf w.cuts (x :: xs).length) (min (cap1 - buf.length) (x :: xs).length) = n
      have hn1 : 1 ≤ n := by rw [← hn]; simp only [List.length_cons] at hwant1 ⊢; omega
      have hn2 : n ≤ (x :: xs).length := by rw [← hn]; omega
      have hn3 : buf.length + n ≤ cap1 := by rw [← hn]; omega
      have hsplit : buf ++ (x :: xs).take n ++ (x :: xs).drop n = buf ++ (x :: xs) := by
        rw [List.append_assoc, List.take_append_drop]
      have hinc : findFrom (buf.length - 3) (buf ++ (x :: xs).take n) = headEnd (buf ++ (x :: xs).take n) := by
        unfold findFrom; exact (headEnd_incremental buf _ hno).symm
      rw [hinc]
      have hdl : ((x :: xs).drop n).length = (x :: xs).length - n := List.length_drop
      have htl : ((x :: xs).take n).length = n := List.length_take_of_le hn2
      rw [hrest] at hsmall hfuel
      cases hfound : headEnd (buf ++ (x :: xs).take n) with
      | some resLen =>
        simp only
        have hfull : headEnd (buf ++ (x :: xs)) = some resLen := by
          rw [← hsplit]; exact headEnd_append_some _ hfound
        refine ⟨fun k hk => ?_, (fun hk => by rw [hfull] at hk; cases hk)⟩
        rw [hfull] at hk; injection hk with hk; subst hk
        exact ⟨_, _, _, rfl, hsplit, (headEnd_bounds hfound).2, rfl⟩
      | none =>
        simp only
        have := ih (buf ++ (x :: xs).take n) cap1 { w with rest := (x :: xs).drop n, cuts := w.cuts.tail } hfound
          (by rw [List.length_append, htl]; exact hn3)
          (by simp only [List.length_append, htl, hdl]; omega)
          (by simp only [hdl]; omega)
        simp only [hsplit] at this
        exact this

end Sonic.Lemmas.WsHandshake
