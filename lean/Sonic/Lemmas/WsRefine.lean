/-
Simulation lemmas for C08/C15: every branch of the model of stream.go is matched by the RFC 6455 monitor.
-/
import Sonic.Lemmas.WsOut

namespace Sonic.Lemmas.WsRefine
open Sonic.Spec.WsStream Sonic.Model.WsStream Sonic.Lemmas.WsOut

/-! ## What `handleFrame` does, in two cases -/

/-- Effect of a frame that violates the framing rules. -/
def violated (m : M) : M :=
  { (if m.state == .active then prepareClose m (u16 1002) else m) with state := .closedByUs }

/-- Payload of the Close reply. -/
def replyPayload (p : Bytes) : Bytes :=
  if p.length ≥ 2 then
    if !utf8Valid (p.drop 2) then u16 1002
    else if !validCloseCode (closeCodeOf p) then u16 1002
    else p
  else if p.length > 0 then u16 1002
  else u16 1000

/-- Effect of a conforming frame. -/
def conform (m : M) (f : InFrame) : M :=
  if f.op = 9 then (if m.state = .active then prepareWrite m (pong f.payload) else m)
  else if f.op = 8 then
    match m.state with
    | .active => prepareClose { m with state := .closedByPeer } (replyPayload f.payload)
    | .closedByUs => { m with state := .closeAcked }
    | _ => m
  else m

theorem hf_viol (m : M) (f : InFrame) (h : isViolation f = true) :
    ∃ e, handleFrame m f = some (violated m, e) ∧ e.isProto = true := by
  obtain ⟨fin, rsv, op, masked, payload⟩ := f
  simp only [isViolation, reservedOp, controlOp, Bool.or_eq_true, Bool.and_eq_true, bne_iff_ne, ne_eq,
    decide_eq_true_eq, Bool.not_eq_true'] at h
  unfold handleFrame verifyFrame
  by_cases h1 : rsv = 0
  · by_cases h2 : masked = true
    · subst h1; subst h2; simp [violated, Err.isProto]
    · have h2' : masked = false := by simpa using h2
      subst h1; subst h2'
      simp only [not_true_eq_false, Bool.false_eq_true, false_or] at h
      simp only [bne_self_eq_false, Bool.false_eq_true, if_false, if_true]
      by_cases hc : op = 8 ∨ op = 9 ∨ op = 10
      · have hv : fin = false ∨ payload.length > 125 := by
          rcases h with (⟨ha, hb⟩ | ha) | ⟨_, hb⟩
          · omega
          · omega
          · exact hb
        have hic : isControl op = true := by
          rcases hc with h | h | h <;> subst h <;> rfl
        simp only [hic, if_true]
        unfold handleControlFrame
        rcases hv with hv | hv
        · subst hv; simp [violated, Err.isProto]
        · cases fin <;> simp [hv, violated, Err.isProto]
      · have hic : isControl op = false := by
          simp only [isControl, Bool.or_eq_false_iff, beq_eq_false_iff_ne]; omega
        have hr : isReserved op = true := by
          simp only [isReserved, Bool.and_eq_true, bne_iff_ne, ne_eq]
          rcases h with (⟨ha, hb⟩ | ha) | ⟨ha, _⟩ <;> omega
        simp [hic, handleDataFrame, hr, violated, Err.isProto]
  · simp [h1, violated, Err.isProto]

/-- A frame that is no violation is a whole control frame of at most 125 bytes or a text/binary/continuation frame. -/
theorem conforming_cases (f : InFrame) (h : isViolation f = false) :
    f.rsv = 0 ∧ f.masked = false ∧
    (((f.op = 8 ∨ f.op = 9 ∨ f.op = 10) ∧ f.fin = true ∧ f.payload.length ≤ 125) ∨ (f.op = 0 ∨ f.op = 1 ∨ f.op = 2)) := by
  obtain ⟨fin, rsv, op, masked, payload⟩ := f
  simp only [isViolation, reservedOp, controlOp, Bool.or_eq_false_iff, Bool.and_eq_false_imp, bne_eq_false_iff_eq,
    decide_eq_false_iff_not, decide_eq_true_eq, Bool.not_eq_false'] at h
  obtain ⟨⟨⟨h1, h2⟩, h3, h4⟩, h5⟩ := h
  refine ⟨h1, h2, ?_⟩
  show ((op = 8 ∨ op = 9 ∨ op = 10) ∧ fin = true ∧ payload.length ≤ 125) ∨ (op = 0 ∨ op = 1 ∨ op = 2)
  by_cases hc : 8 ≤ op
  · left
    have := h5 hc
    refine ⟨by omega, ?_, ?_⟩
    · cases fin <;> simp_all
    · cases fin <;> simp_all <;> omega
  · right; omega

theorem hf_ok (m : M) (f : InFrame) (h : isViolation f = false) (hs : m.state = .active ∨ m.state = .closedByUs) :
    handleFrame m f = some (conform m f, .nil) := by
  obtain ⟨h1, h2, h3⟩ := conforming_cases f h
  obtain ⟨fin, rsv, op, masked, payload⟩ := f
  simp only at h1 h2 h3
  subst h1; subst h2
  unfold handleFrame verifyFrame
  simp only [bne_self_eq_false, Bool.false_eq_true, if_false, if_true]
  rcases h3 with ⟨hop, hfin, hlen⟩ | hop
  · subst hfin
    have hic : isControl op = true := by rcases hop with h | h | h <;> subst h <;> rfl
    have hl : ¬ (payload.length > 125) := by omega
    simp only [hic, if_true]
    unfold handleControlFrame conform
    rcases hop with h | h | h <;> subst h
    · rcases hs with hs | hs
      · by_cases a : 2 ≤ payload.length <;> by_cases b : utf8Valid (payload.drop 2) = false <;>
          by_cases c : validCloseCode (closeCodeOf payload) = false <;> by_cases d : 0 < payload.length <;>
          simp [hs, hl, replyPayload, prepareClose, prepareWrite, a, b, c, d]
      · simp [hs, hl]
    · rcases hs with hs | hs <;> simp [hs, hl, pong]
    · simp [hl]
  · have hic : isControl op = false := by
      simp only [isControl, Bool.or_eq_false_iff, beq_eq_false_iff_ne]; omega
    have hr : isReserved op = false := by
      rcases hop with h | h | h <;> subst h <;> rfl
    have h9 : op ≠ 9 := by omega
    have h8 : op ≠ 8 := by omega
    simp [hic, handleDataFrame, hr, conform, h9, h8]

/-! ## The coupling between model and monitor (without the wire bookkeeping) -/

structure Q (m : M) (s : S) : Prop where
  max : s.max = m.max
  inq : s.inq = m.inq
  rerr : s.rerr = m.rerr
  eof : s.eof = m.eof
  st : stateOk s.stage s.ended m.state = true
  ex : matchExact s.expect (out m) = true
  cl : closeLast (out m) = true
  nc : m.state = .active → noClose (out m)

theorem opened_iff {m : M} {s : S} (h : Q m s) : s.stage = .opened ↔ m.state = .active := by
  have := h.st
  cases hs : s.stage <;> cases hm : m.state <;> simp [stateOk, hs, hm] at this ⊢

theorem closing_iff {m : M} {s : S} (h : Q m s) : s.stage = .closing ↔ m.state = .closedByUs := by
  have := h.st
  cases hs : s.stage <;> cases hm : m.state <;> simp [stateOk, hs, hm] at this ⊢

theorem readable_eq {m : M} {s : S} (h : Q m s) : s.readable = canRead m := by
  have := h.st
  cases hs : s.stage <;> cases hm : m.state <;> simp [stateOk, hs, hm, S.readable, canRead] at this ⊢ <;> rfl

theorem canRead_cases {m : M} (h : canRead m = true) : m.state = .active ∨ m.state = .closedByUs := by
  simpa [canRead] using h

theorem out_flush (m : M) : out (flush m) = out m := by simp [out, flush]

theorem Q_flush {m : M} {s : S} (h : Q m s) : Q (flush m) s :=
  ⟨h.max, h.inq, h.rerr, h.eof, h.st, by rw [out_flush]; exact h.ex, by rw [out_flush]; exact h.cl,
   fun ha => by rw [out_flush]; exact h.nc ha⟩

theorem out_prepareWrite (m : M) (f : OutFrame) : out (prepareWrite m f) = out m ++ [{ f with masked := true }] := by
  simp [out, prepareWrite]

theorem u16_take (c : Nat) : (u16 c).take 2 = u16 c := rfl

theorem Q_violated {m : M} {s : S} (h : Q m s) (hr : canRead m = true) : Q (violated m) (violate s) := by
  rcases canRead_cases hr with ha | hc
  · have hso : s.stage = .opened := (opened_iff h).2 ha
    have hnc := h.nc ha
    have e1 : violate s = { s.push (.closeCode 1002) with stage := .closing } := by simp [violate, hso]
    have e2 : violated m = { prepareClose m (u16 1002) with state := .closedByUs } := by simp [violated, ha]
    rw [e1, e2]
    refine ⟨h.max, h.inq, h.rerr, h.eof, ?_, ?_, ?_, ?_⟩
    · simp [stateOk]
    · show matchExact (s.expect ++ [_]) (out (prepareWrite m _)) = true
      rw [out_prepareWrite]
      exact matchExact_snoc h.ex (by simp [Expect.matches, u16_take])
    · show closeLast (out (prepareWrite m _)) = true
      rw [out_prepareWrite]
      exact closeLast_snoc _ hnc
    · intro hx; simp at hx
  · have hsc : s.stage = .closing := (closing_iff h).2 hc
    have hv : violated m = m := by
      cases m; simp only [violated] at hc ⊢; simp_all
    have hs : violate s = s := by simp [violate, hsc]
    rw [hv, hs]; exact h

theorem u16_code (a b : UInt8) : u16 (a.toNat * 256 + b.toNat) = [a, b] := by
  have hb : b.toNat < 256 := UInt8.toNat_lt b
  have h1 : (a.toNat * 256 + b.toNat) / 256 = a.toNat := by omega
  have h2 : (a.toNat * 256 + b.toNat) % 256 = b.toNat := by omega
  simp [u16, h1, h2]

/-- The Close reply of the model carries the status code the monitor asks for. -/
theorem reply_match (p : Bytes) : (replyPayload p).take 2 = u16 (replyCode p) := by
  unfold replyPayload replyCode
  match p with
  | [] => simp [u16_take]
  | [a] => simp [u16_take]
  | a :: b :: r =>
    have h0 : ¬ (r.length + 1 + 1 < 2) := by omega
    by_cases h1 : utf8Valid r = true <;> by_cases h2 : validCloseCode (a.toNat * 256 + b.toNat) = true <;>
      simp [h0, h1, h2, u16_take, closeCodeOf, u16_code]

theorem Q_conform {m : M} {s : S} (h : Q m s) (hr : canRead m = true) (f : InFrame) :
    Q (conform m f) (recv s f) := by
  unfold conform recv
  by_cases h9 : f.op = 9
  · simp only [h9, if_true]
    by_cases ha : m.state = .active
    · have hso : s.stage = .opened := (opened_iff h).2 ha
      simp only [ha, hso, if_true]
      refine ⟨h.max, h.inq, h.rerr, h.eof, h.st, ?_, ?_, ?_⟩
      · show matchExact (s.expect ++ [_]) (out (prepareWrite m _)) = true
        rw [out_prepareWrite]
        exact matchExact_snoc h.ex (by simp [Expect.matches, pong])
      · rw [out_prepareWrite]; exact closeLast_snoc _ (h.nc ha)
      · intro _
        rw [out_prepareWrite]
        exact noClose_append (h.nc ha) (noClose_single (by simp [OutFrame.isClose, pong]))
    · have hso : ¬ s.stage = .opened := fun x => ha ((opened_iff h).1 x)
      simp only [ha, hso, if_false]; exact h
  · simp only [h9, if_false]
    by_cases h8 : f.op = 8
    · simp only [h8, if_true]
      rcases canRead_cases hr with ha | hc
      · have hso : s.stage = .opened := (opened_iff h).2 ha
        simp only [ha, hso]
        refine ⟨h.max, h.inq, h.rerr, h.eof, ?_, ?_, ?_, ?_⟩
        · simp [stateOk, prepareClose, prepareWrite]
        · show matchExact (s.expect ++ [_]) (out (prepareWrite { m with state := .closedByPeer } _)) = true
          rw [out_prepareWrite]
          exact matchExact_snoc h.ex (by simp [Expect.matches, reply_match])
        · show closeLast (out (prepareWrite { m with state := .closedByPeer } _)) = true
          rw [out_prepareWrite]; exact closeLast_snoc _ (h.nc ha)
        · intro hx; simp [prepareClose, prepareWrite] at hx
      · have hsc : s.stage = .closing := (closing_iff h).2 hc
        simp only [hc, hsc]
        exact ⟨h.max, h.inq, h.rerr, h.eof, by simp [stateOk], h.ex, h.cl, fun hx => by simp at hx⟩
    · simp only [h8, if_false]; exact h

/-! ## One frame: `nextFrame` against the monitor's `receive` -/

/-- The wire only grows. -/
def Ext (m m' : M) : Prop := ∃ w, m'.wire = m.wire ++ w

theorem Ext.refl (m : M) : Ext m m := ⟨[], by simp⟩
theorem Ext.trans {a b c : M} (h1 : Ext a b) (h2 : Ext b c) : Ext a c := by
  obtain ⟨w1, e1⟩ := h1; obtain ⟨w2, e2⟩ := h2
  exact ⟨w1 ++ w2, by rw [e2, e1, List.append_assoc]⟩
theorem Ext.flush (m : M) : Ext m (flush m) := ⟨m.pending, rfl⟩

/-- What `nextFrame` returned, against what the monitor says was received. -/
def GotOk : Got → Err → Option InFrame → Prop
  | .stop w, e, fo => e ≠ .nil ∧ retOk w (.frame e fo) = true ∧ ∀ ty n d ctl, retOk w (.msg e ty n d true ctl) = true
  | .violated, e, _ => e.isProto = true
  | .frame f, e, fo => e = .nil ∧ fo = some f

theorem nfi {m : M} {s : S} (h : Q m s) (hr : canRead m = true) :
    ∃ m' e fo, nextFrameInner m = some (m', e, fo) ∧ Q m' (receive s).1 ∧ m'.wire = m.wire ∧
      GotOk (receive s).2 e fo ∧ (e = .eof → m'.state = .terminated) := by
  have hre : s.readable = true := by rw [readable_eq h]; exact hr
  obtain ⟨smax, stage, ended, sinq, srerr, seof, expect, seen, sc⟩ := s
  have h1 := h.max; have h2 := h.inq; have h3 := h.rerr; have h4 := h.eof
  simp only at h1 h2 h3 h4
  subst h1 h2 h3 h4
  unfold nextFrameInner readNext receive rx
  simp only [hre, Bool.not_true, Bool.false_eq_true, if_false]
  cases hq : m.inq with
  | nil =>
    simp only
    by_cases he : m.rerr = true
    · simp only [he, if_true]
      refine ⟨_, _, _, rfl, ?_, rfl, ?_, ?_⟩
      · exact ⟨rfl, (by first | rfl | exact hq.symm), rfl, rfl, h.st, h.ex, h.cl, h.nc⟩
      · simp [GotOk, retOk]
      · intro hx; cases hx
    · have he' : m.rerr = false := by simpa using he
      simp only [he', Bool.false_eq_true, if_false]
      by_cases hf : m.eof = true
      · simp only [hf, if_true]
        refine ⟨_, _, _, rfl, ?_, rfl, ?_, ?_⟩
        · exact ⟨rfl, (by first | rfl | exact hq.symm), he'.symm, rfl, by simp [stateOk], h.ex, h.cl, fun hx => by simp at hx⟩
        · simp [GotOk, retOk, close1006]
        · intro _; rfl
      · have hf' : m.eof = false := by simpa using hf
        simp only [hf', Bool.false_eq_true, if_false]
        refine ⟨_, _, _, rfl, ?_, rfl, ?_, ?_⟩
        · exact ⟨rfl, (by first | rfl | exact hq.symm), he'.symm, hf'.symm, h.st, h.ex, h.cl, h.nc⟩
        · simp [GotOk, retOk]
        · intro hx; cases hx
  | cons f rest =>
    simp only
    by_cases hov : f.payload.length > m.max
    · simp only [hov, if_true]
      refine ⟨_, _, _, rfl, ?_, rfl, ?_, ?_⟩
      · exact ⟨rfl, (by first | rfl | exact hq.symm), rfl, rfl, h.st, h.ex, h.cl, h.nc⟩
      · simp [GotOk, retOk]
      · intro hx; cases hx
    · simp only [hov, if_false]
      have hQ' : Q { m with inq := rest } (⟨m.max, stage, ended, rest, m.rerr, m.eof, expect, seen, sc⟩ : S) :=
        ⟨rfl, rfl, rfl, rfl, h.st, h.ex, h.cl, h.nc⟩
      have hr' : canRead { m with inq := rest } = true := hr
      by_cases hv : isViolation f = true
      · obtain ⟨e, he, hp⟩ := hf_viol { m with inq := rest } f hv
        simp only [hv, if_true, he]
        refine ⟨_, _, _, rfl, Q_violated hQ' hr', ?_, hp, ?_⟩
        · simp only [violated]; split <;> rfl
        · intro hx; subst hx; simp [Err.isProto] at hp
      · have hv' : isViolation f = false := by simpa using hv
        have he := hf_ok { m with inq := rest } f hv' (canRead_cases hr')
        simp only [hv', Bool.false_eq_true, if_false, he]
        refine ⟨_, _, _, rfl, Q_conform hQ' hr' f, ?_, ⟨rfl, rfl⟩, ?_⟩
        · unfold conform
          repeat' split
          all_goals rfl
        · intro hx; cases hx

theorem rx_frame (s : S) :
    (rx s).2.seen = s.seen ∧ (rx s).2.sentClose = s.sentClose ∧ (rx s).2.max = s.max := by
  unfold rx
  repeat' split
  all_goals exact ⟨rfl, rfl, rfl⟩

theorem violate_frame (s : S) :
    (violate s).seen = s.seen ∧ (violate s).sentClose = s.sentClose ∧ (violate s).max = s.max := by
  unfold violate S.push
  split <;> exact ⟨rfl, rfl, rfl⟩

theorem recv_frame (s : S) (f : InFrame) :
    (recv s f).seen = s.seen ∧ (recv s f).sentClose = s.sentClose ∧ (recv s f).max = s.max := by
  unfold recv S.push
  repeat' split
  all_goals exact ⟨rfl, rfl, rfl⟩

theorem receive_frame (s : S) :
    (receive s).1.seen = s.seen ∧ (receive s).1.sentClose = s.sentClose ∧ (receive s).1.max = s.max := by
  have h := rx_frame s
  unfold receive
  rcases hrx : rx s with ⟨r, s'⟩
  rw [hrx] at h
  simp only at h
  cases r with
  | frame f =>
    simp only
    split
    · have := violate_frame s'; exact ⟨this.1.trans h.1, this.2.1.trans h.2.1, this.2.2.trans h.2.2⟩
    · have := recv_frame s' f; exact ⟨this.1.trans h.1, this.2.1.trans h.2.1, this.2.2.trans h.2.2⟩
  | _ => exact h

theorem state_self (m : M) (st : StreamState) (h : m.state = st) : { m with state := st } = m := by
  cases m; simp_all

theorem nf {m : M} {s : S} (h : Q m s) (async : Bool) :
    ∃ m' e fo, nextFrame async m = some (m', e, fo) ∧ Q m' (receive s).1 ∧ Ext m m' ∧ GotOk (receive s).2 e fo := by
  have hf := Q_flush h
  by_cases hr : canRead (flush m) = true
  · obtain ⟨m', e, fo, h1, h2, h3, h4, h5⟩ := nfi hf hr
    refine ⟨m', e, fo, ?_, h2, ⟨m.pending, by rw [h3]; rfl⟩, h4⟩
    unfold nextFrame
    simp only [hr, Bool.not_true, Bool.false_eq_true, if_false, h1]
    by_cases hc : (!async && e == .eof) = true
    · have he : e = .eof := by
        simp only [Bool.and_eq_true, beq_iff_eq] at hc; exact hc.2
      simp only [hc, if_true, state_self m' .terminated (h5 he)]
    · have hc' : (!async && e == .eof) = false := by simpa using hc
      simp only [hc', Bool.false_eq_true, if_false]
  · have hr' : canRead (flush m) = false := by simpa using hr
    have hre : s.readable = false := by rw [readable_eq hf]; exact hr'
    have hrec : receive s = ({ s with ended := true }, .stop .eos) := by
      unfold receive rx; simp [hre]
    rw [hrec]
    unfold nextFrame
    simp only [hr', Bool.not_false, if_true]
    refine ⟨_, _, _, rfl, ?_, ?_, ?_⟩
    · have hst := hf.st
      have hna : (flush m).state ≠ .active := by
        intro hx; simp [canRead, hx] at hr'
      have hnc : (flush m).state ≠ .closedByUs := by
        intro hx; simp [canRead, hx] at hr'
      cases async
      · refine ⟨hf.max, hf.inq, hf.rerr, hf.eof, ?_, hf.ex, hf.cl, hf.nc⟩
        show stateOk s.stage true (flush m).state = true
        revert hst hna hnc
        generalize (flush m).state = st
        cases s.stage <;> cases st <;> simp [stateOk]
      · refine ⟨hf.max, hf.inq, hf.rerr, hf.eof, ?_, hf.ex, hf.cl, fun hx => by simp at hx⟩
        show stateOk s.stage true .terminated = true
        revert hst hna hnc
        generalize (flush m).state = st
        cases s.stage <;> cases st <;> simp [stateOk]
    · cases async
      · exact Ext.flush m
      · exact ⟨m.pending, rfl⟩
    · simp [GotOk, retOk]

end Sonic.Lemmas.WsRefine
