/-
Simulation lemmas for C08/C15: every branch of the model of stream.go is matched by the RFC 6455 monitor.
-/
import Sonic.Lemmas.WsOut

set_option linter.unusedSimpArgs false

namespace Sonic.Lemmas.WsRefine
open Sonic.Spec.WsStream Sonic.Model.WsStream Sonic.Lemmas.WsOut

/-! ## What `handleFrame` does, in two cases -/

/-- Effect of a frame that violates the framing rules. -/
def violated (m : M) : M :=
  { (if m.state == .active then prepareClose m (u16 1002) else m) with state := .closedByUs }

/-- Payload of the Close reply. -/
def replyPayload (p : Bytes) : Bytes :=
  if p.length ≥ 2 then
    if !utf8Valid (p.drop 2) then u16 1002
    else if !validCloseCode (closeCodeOf p) then u16 1002
    else p
  else if p.length > 0 then u16 1002
  else u16 1000

/-- Effect of a conforming frame. -/
def conform (m : M) (f : InFrame) : M :=
  if f.op = 9 then (if m.state = .active then prepareWrite m (pong f.payload) else m)
  else if f.op = 8 then
    match m.state with
    | .active => prepareClose { m with state := .closedByPeer } (replyPayload f.payload)
    | .closedByUs => { m with state := .closeAcked }
    | _ => m
  else m

theorem hf_viol (m : M) (f : InFrame) (h : isViolation f = true) :
    ∃ e, handleFrame m f = some (violated m, e) ∧ e.isProto = true := by
  obtain ⟨fin, rsv, op, masked, payload⟩ := f
  simp only [isViolation, reservedOp, controlOp, Bool.or_eq_true, Bool.and_eq_true, bne_iff_ne, ne_eq,
    decide_eq_true_eq, Bool.not_eq_true'] at h
  unfold handleFrame verifyFrame
  by_cases h1 : rsv = 0
  · by_cases h2 : masked = true
    · subst h1; subst h2; simp [violated, Err.isProto]
    · have h2' : masked = false := by simpa using h2
      subst h1; subst h2'
      simp only [not_true_eq_false, Bool.false_eq_true, false_or] at h
      simp only [bne_self_eq_false, Bool.false_eq_true, if_false, if_true]
      by_cases hc : op = 8 ∨ op = 9 ∨ op = 10
      · have hv : fin = false ∨ payload.length > 125 := by
          rcases h with (⟨ha, hb⟩ | ha) | ⟨_, hb⟩
          · omega
          · omega
          · exact hb
        have hic : isControl op = true := by
          rcases hc with h | h | h <;> subst h <;> rfl
        simp only [hic, if_true]
        unfold handleControlFrame
        rcases hv with hv | hv
        · subst hv; simp [violated, Err.isProto]
        · cases fin <;> simp [hv, violated, Err.isProto]
      · have hic : isControl op = false := by
          simp only [isControl, Bool.or_eq_false_iff, beq_eq_false_iff_ne]; omega
        have hr : isReserved op = true := by
          simp only [isReserved, Bool.and_eq_true, bne_iff_ne, ne_eq]
          rcases h with (⟨ha, hb⟩ | ha) | ⟨ha, _⟩ <;> omega
        simp [hic, handleDataFrame, hr, violated, Err.isProto]
  · simp [h1, violated, Err.isProto]

/-- A frame that is no violation is a whole control frame of at most 125 bytes or a text/binary/continuation frame. -/
theorem conforming_cases (f : InFrame) (h : isViolation f = false) :
    f.rsv = 0 ∧ f.masked = false ∧
    (((f.op = 8 ∨ f.op = 9 ∨ f.op = 10) ∧ f.fin = true ∧ f.payload.length ≤ 125) ∨ (f.op = 0 ∨ f.op = 1 ∨ f.op = 2)) := by
  obtain ⟨fin, rsv, op, masked, payload⟩ := f
  simp only [isViolation, reservedOp, controlOp, Bool.or_eq_false_iff, Bool.and_eq_false_imp, bne_eq_false_iff_eq,
    decide_eq_false_iff_not, decide_eq_true_eq, Bool.not_eq_false'] at h
  obtain ⟨⟨⟨h1, h2⟩, h3, h4⟩, h5⟩ := h
  refine ⟨h1, h2, ?_⟩
  show ((op = 8 ∨ op = 9 ∨ op = 10) ∧ fin = true ∧ payload.length ≤ 125) ∨ (op = 0 ∨ op = 1 ∨ op = 2)
  by_cases hc : 8 ≤ op
  · left
    have := h5 hc
    refine ⟨by omega, ?_, ?_⟩
    · cases fin <;> simp_all
    · cases fin <;> simp_all <;> omega
  · right; omega

theorem hf_ok (m : M) (f : InFrame) (h : isViolation f = false) (hs : m.state = .active ∨ m.state = .closedByUs) :
    handleFrame m f = some (conform m f, .nil) := by
  obtain ⟨h1, h2, h3⟩ := conforming_cases f h
  obtain ⟨fin, rsv, op, masked, payload⟩ := f
  simp only at h1 h2 h3
  subst h1; subst h2
  unfold handleFrame verifyFrame
  simp only [bne_self_eq_false, Bool.false_eq_true, if_false, if_true]
  rcases h3 with ⟨hop, hfin, hlen⟩ | hop
  · subst hfin
    have hic : isControl op = true := by rcases hop with h | h | h <;> subst h <;> rfl
    have hl : ¬ (payload.length > 125) := by omega
    simp only [hic, if_true]
    unfold handleControlFrame conform
    rcases hop with h | h | h <;> subst h
    · rcases hs with hs | hs
      · by_cases a : 2 ≤ payload.length <;> by_cases b : utf8Valid (payload.drop 2) = false <;>
          by_cases c : validCloseCode (closeCodeOf payload) = false <;> by_cases d : 0 < payload.length <;>
          simp [hs, hl, replyPayload, prepareClose, prepareWrite, a, b, c, d]
      · simp [hs, hl]
    · rcases hs with hs | hs <;> simp [hs, hl, pong]
    · simp [hl]
  · have hic : isControl op = false := by
      simp only [isControl, Bool.or_eq_false_iff, beq_eq_false_iff_ne]; omega
    have hr : isReserved op = false := by
      rcases hop with h | h | h <;> subst h <;> rfl
    have h9 : op ≠ 9 := by omega
    have h8 : op ≠ 8 := by omega
    simp [hic, handleDataFrame, hr, conform, h9, h8]

/-! ## The coupling between model and monitor (without the wire bookkeeping) -/

structure Q (m : M) (s : S) : Prop where
  max : s.max = m.max
  inq : s.inq = m.inq
  rerr : s.rerr = m.rerr
  eof : s.eof = m.eof
  st : stateOk s.stage s.ended m.state = true
  ex : matchExact s.expect (out m) = true
  cl : closeLast (out m) = true
  nc : m.state = .active → noClose (out m)

theorem opened_iff {m : M} {s : S} (h : Q m s) : s.stage = .opened ↔ m.state = .active := by
  have := h.st
  cases hs : s.stage <;> cases hm : m.state <;> simp [stateOk, hs, hm] at this ⊢

theorem closing_iff {m : M} {s : S} (h : Q m s) : s.stage = .closing ↔ m.state = .closedByUs := by
  have := h.st
  cases hs : s.stage <;> cases hm : m.state <;> simp [stateOk, hs, hm] at this ⊢

theorem readable_eq {m : M} {s : S} (h : Q m s) : s.readable = canRead m := by
  have := h.st
  cases hs : s.stage <;> cases hm : m.state <;> simp [stateOk, hs, hm, S.readable, canRead] at this ⊢ <;> rfl

theorem canRead_cases {m : M} (h : canRead m = true) : m.state = .active ∨ m.state = .closedByUs := by
  simpa [canRead] using h

theorem out_flush (m : M) : out (flush m) = out m := by simp [out, flush]

theorem Q_flush {m : M} {s : S} (h : Q m s) : Q (flush m) s :=
  ⟨h.max, h.inq, h.rerr, h.eof, h.st, by rw [out_flush]; exact h.ex, by rw [out_flush]; exact h.cl,
   fun ha => by rw [out_flush]; exact h.nc ha⟩

theorem out_prepareWrite (m : M) (f : OutFrame) : out (prepareWrite m f) = out m ++ [{ f with masked := true }] := by
  simp [out, prepareWrite]

theorem u16_take (c : Nat) : (u16 c).take 2 = u16 c := rfl

theorem Q_violated {m : M} {s : S} (h : Q m s) (hr : canRead m = true) : Q (violated m) (violate s) := by
  rcases canRead_cases hr with ha | hc
  · have hso : s.stage = .opened := (opened_iff h).2 ha
    have hnc := h.nc ha
    have e1 : violate s = { s.push (.closeCode 1002) with stage := .closing } := by simp [violate, hso]
    have e2 : violated m = { prepareClose m (u16 1002) with state := .closedByUs } := by simp [violated, ha]
    rw [e1, e2]
    refine ⟨h.max, h.inq, h.rerr, h.eof, ?_, ?_, ?_, ?_⟩
    · simp [stateOk]
    · show matchExact (s.expect ++ [_]) (out (prepareWrite m _)) = true
      rw [out_prepareWrite]
      exact matchExact_snoc h.ex (by simp [Expect.matches, u16_take])
    · show closeLast (out (prepareWrite m _)) = true
      rw [out_prepareWrite]
      exact closeLast_snoc _ hnc
    · intro hx; simp at hx
  · have hsc : s.stage = .closing := (closing_iff h).2 hc
    have hv : violated m = m := by
      cases m; simp only [violated] at hc ⊢; simp_all
    have hs : violate s = s := by simp [violate, hsc]
    rw [hv, hs]; exact h

theorem u16_code (a b : UInt8) : u16 (a.toNat * 256 + b.toNat) = [a, b] := by
  have hb : b.toNat < 256 := UInt8.toNat_lt b
  have h1 : (a.toNat * 256 + b.toNat) / 256 = a.toNat := by omega
  have h2 : (a.toNat * 256 + b.toNat) % 256 = b.toNat := by omega
  simp [u16, h1, h2]

/-- The Close reply of the model carries the status code the monitor asks for. -/
theorem reply_match (p : Bytes) : (replyPayload p).take 2 = u16 (replyCode p) := by
  unfold replyPayload replyCode
  match p with
  | [] => simp [u16_take]
  | [a] => simp [u16_take]
  | a :: b :: r =>
    have h0 : ¬ (r.length + 1 + 1 < 2) := by omega
    by_cases h1 : utf8Valid r = true <;> by_cases h2 : validCloseCode (a.toNat * 256 + b.toNat) = true <;>
      simp [h0, h1, h2, u16_take, closeCodeOf, u16_code]

theorem Q_conform {m : M} {s : S} (h : Q m s) (hr : canRead m = true) (f : InFrame) :
    Q (conform m f) (recv s f) := by
  unfold conform recv
  by_cases h9 : f.op = 9
  · simp only [h9, if_true]
    by_cases ha : m.state = .active
    · have hso : s.stage = .opened := (opened_iff h).2 ha
      simp only [ha, hso, if_true]
      refine ⟨h.max, h.inq, h.rerr, h.eof, h.st, ?_, ?_, ?_⟩
      · show matchExact (s.expect ++ [_]) (out (prepareWrite m _)) = true
        rw [out_prepareWrite]
        exact matchExact_snoc h.ex (by simp [Expect.matches, pong])
      · rw [out_prepareWrite]; exact closeLast_snoc _ (h.nc ha)
      · intro _
        rw [out_prepareWrite]
        exact noClose_append (h.nc ha) (noClose_single (by simp [OutFrame.isClose, pong]))
    · have hso : ¬ s.stage = .opened := fun x => ha ((opened_iff h).1 x)
      simp only [ha, hso, if_false]; exact h
  · simp only [h9, if_false]
    by_cases h8 : f.op = 8
    · simp only [h8, if_true]
      rcases canRead_cases hr with ha | hc
      · have hso : s.stage = .opened := (opened_iff h).2 ha
        simp only [ha, hso]
        refine ⟨h.max, h.inq, h.rerr, h.eof, ?_, ?_, ?_, ?_⟩
        · simp [stateOk, prepareClose, prepareWrite]
        · show matchExact (s.expect ++ [_]) (out (prepareWrite { m with state := .closedByPeer } _)) = true
          rw [out_prepareWrite]
          exact matchExact_snoc h.ex (by simp [Expect.matches, reply_match])
        · show closeLast (out (prepareWrite { m with state := .closedByPeer } _)) = true
          rw [out_prepareWrite]; exact closeLast_snoc _ (h.nc ha)
        · intro hx; simp [prepareClose, prepareWrite] at hx
      · have hsc : s.stage = .closing := (closing_iff h).2 hc
        simp only [hc, hsc]
        exact ⟨h.max, h.inq, h.rerr, h.eof, by simp [stateOk], h.ex, h.cl, fun hx => by simp at hx⟩
    · simp only [h8, if_false]; exact h

/-! ## One frame: `nextFrame` against the monitor's `receive` -/

/-- The wire only grows. -/
def Ext (m m' : M) : Prop := ∃ w, m'.wire = m.wire ++ w

theorem Ext.refl (m : M) : Ext m m := ⟨[], by simp⟩
theorem Ext.trans {a b c : M} (h1 : Ext a b) (h2 : Ext b c) : Ext a c := by
  obtain ⟨w1, e1⟩ := h1; obtain ⟨w2, e2⟩ := h2
  exact ⟨w1 ++ w2, by rw [e2, e1, List.append_assoc]⟩
theorem Ext.flush (m : M) : Ext m (flush m) := ⟨m.pending, rfl⟩

/-- What `nextFrame` returned, against what the monitor says was received. -/
def GotOk : Got → Err → Option InFrame → Prop
  | .stop w, e, fo => e ≠ .nil ∧ retOk w (.frame e fo) = true ∧ ∀ ty n d ctl, retOk w (.msg e ty n d true ctl) = true
  | .violated, e, _ => e.isProto = true
  | .frame f, e, fo => e = .nil ∧ fo = some f

theorem nfi {m : M} {s : S} (h : Q m s) (hr : canRead m = true) :
    ∃ m' e fo, nextFrameInner m = some (m', e, fo) ∧ Q m' (receive s).1 ∧ m'.wire = m.wire ∧
      GotOk (receive s).2 e fo ∧ (e = .eof → m'.state = .terminated) := by
  have hre : s.readable = true := by rw [readable_eq h]; exact hr
  obtain ⟨smax, stage, ended, sinq, srerr, seof, expect, seen, sc⟩ := s
  have h1 := h.max; have h2 := h.inq; have h3 := h.rerr; have h4 := h.eof
  simp only at h1 h2 h3 h4
  subst h1 h2 h3 h4
  unfold nextFrameInner readNext receive rx
  simp only [hre, Bool.not_true, Bool.false_eq_true, if_false]
  cases hq : m.inq with
  | nil =>
    simp only
    by_cases he : m.rerr = true
    · simp only [he, if_true]
      refine ⟨_, _, _, rfl, ?_, rfl, ?_, ?_⟩
      · exact ⟨rfl, (by first | rfl | exact hq.symm), rfl, rfl, h.st, h.ex, h.cl, h.nc⟩
      · simp [GotOk, retOk]
      · intro hx; cases hx
    · have he' : m.rerr = false := by simpa using he
      simp only [he', Bool.false_eq_true, if_false]
      by_cases hf : m.eof = true
      · simp only [hf, if_true]
        refine ⟨_, _, _, rfl, ?_, rfl, ?_, ?_⟩
        · exact ⟨rfl, (by first | rfl | exact hq.symm), he'.symm, rfl, by simp [stateOk], h.ex, h.cl, fun hx => by simp at hx⟩
        · simp [GotOk, retOk, close1006]
        · intro _; rfl
      · have hf' : m.eof = false := by simpa using hf
        simp only [hf', Bool.false_eq_true, if_false]
        refine ⟨_, _, _, rfl, ?_, rfl, ?_, ?_⟩
        · exact ⟨rfl, (by first | rfl | exact hq.symm), he'.symm, hf'.symm, h.st, h.ex, h.cl, h.nc⟩
        · simp [GotOk, retOk]
        · intro hx; cases hx
  | cons f rest =>
    simp only
    by_cases hov : f.payload.length > m.max
    · simp only [hov, if_true]
      refine ⟨_, _, _, rfl, ?_, rfl, ?_, ?_⟩
      · exact ⟨rfl, (by first | rfl | exact hq.symm), rfl, rfl, h.st, h.ex, h.cl, h.nc⟩
      · simp [GotOk, retOk]
      · intro hx; cases hx
    · simp only [hov, if_false]
      have hQ' : Q { m with inq := rest } (⟨m.max, stage, ended, rest, m.rerr, m.eof, expect, seen, sc⟩ : S) :=
        ⟨rfl, rfl, rfl, rfl, h.st, h.ex, h.cl, h.nc⟩
      have hr' : canRead { m with inq := rest } = true := hr
      by_cases hv : isViolation f = true
      · obtain ⟨e, he, hp⟩ := hf_viol { m with inq := rest } f hv
        simp only [hv, if_true, he]
        refine ⟨_, _, _, rfl, Q_violated hQ' hr', ?_, hp, ?_⟩
        · simp only [violated]; split <;> rfl
        · intro hx; subst hx; simp [Err.isProto] at hp
      · have hv' : isViolation f = false := by simpa using hv
        have he := hf_ok { m with inq := rest } f hv' (canRead_cases hr')
        simp only [hv', Bool.false_eq_true, if_false, he]
        refine ⟨_, _, _, rfl, Q_conform hQ' hr' f, ?_, ⟨rfl, rfl⟩, ?_⟩
        · unfold conform
          repeat' split
          all_goals rfl
        · intro hx; cases hx

theorem rx_frame (s : S) :
    (rx s).2.seen = s.seen ∧ (rx s).2.sentClose = s.sentClose ∧ (rx s).2.max = s.max := by
  unfold rx
  repeat' split
  all_goals exact ⟨rfl, rfl, rfl⟩

theorem violate_frame (s : S) :
    (violate s).seen = s.seen ∧ (violate s).sentClose = s.sentClose ∧ (violate s).max = s.max := by
  unfold violate S.push
  split <;> exact ⟨rfl, rfl, rfl⟩

theorem recv_frame (s : S) (f : InFrame) :
    (recv s f).seen = s.seen ∧ (recv s f).sentClose = s.sentClose ∧ (recv s f).max = s.max := by
  unfold recv S.push
  repeat' split
  all_goals exact ⟨rfl, rfl, rfl⟩

theorem receive_frame (s : S) :
    (receive s).1.seen = s.seen ∧ (receive s).1.sentClose = s.sentClose ∧ (receive s).1.max = s.max := by
  have h := rx_frame s
  unfold receive
  rcases hrx : rx s with ⟨r, s'⟩
  rw [hrx] at h
  simp only at h
  cases r with
  | frame f =>
    simp only
    split
    · have := violate_frame s'; exact ⟨this.1.trans h.1, this.2.1.trans h.2.1, this.2.2.trans h.2.2⟩
    · have := recv_frame s' f; exact ⟨this.1.trans h.1, this.2.1.trans h.2.1, this.2.2.trans h.2.2⟩
  | _ => exact h

theorem state_self (m : M) (st : StreamState) (h : m.state = st) : { m with state := st } = m := by
  cases m; simp_all

theorem nf {m : M} {s : S} (h : Q m s) (async : Bool) :
    ∃ m' e fo, nextFrame async m = some (m', e, fo) ∧ Q m' (receive s).1 ∧ Ext m m' ∧ GotOk (receive s).2 e fo := by
  have hf := Q_flush h
  by_cases hr : canRead (flush m) = true
  · obtain ⟨m', e, fo, h1, h2, h3, h4, h5⟩ := nfi hf hr
    refine ⟨m', e, fo, ?_, h2, ⟨m.pending, by rw [h3]; rfl⟩, h4⟩
    unfold nextFrame
    simp only [hr, Bool.not_true, Bool.false_eq_true, if_false, h1]
    by_cases hc : (!async && e == .eof) = true
    · have he : e = .eof := by
        simp only [Bool.and_eq_true, beq_iff_eq] at hc; exact hc.2
      simp only [hc, if_true, state_self m' .terminated (h5 he)]
    · have hc' : (!async && e == .eof) = false := by simpa using hc
      simp only [hc', Bool.false_eq_true, if_false]
  · have hr' : canRead (flush m) = false := by simpa using hr
    have hre : s.readable = false := by rw [readable_eq hf]; exact hr'
    have hrec : receive s = ({ s with ended := true }, .stop .eos) := by
      unfold receive rx; simp [hre]
    rw [hrec]
    unfold nextFrame
    simp only [hr', Bool.not_false, if_true]
    refine ⟨_, _, _, rfl, ?_, ?_, ?_⟩
    · have hst := hf.st
      have hna : (flush m).state ≠ .active := by
        intro hx; simp [canRead, hx] at hr'
      have hnc : (flush m).state ≠ .closedByUs := by
        intro hx; simp [canRead, hx] at hr'
      cases async
      · refine ⟨hf.max, hf.inq, hf.rerr, hf.eof, ?_, hf.ex, hf.cl, hf.nc⟩
        show stateOk s.stage true (flush m).state = true
        revert hst hna hnc
        generalize (flush m).state = st
        cases s.stage <;> cases st <;> simp [stateOk]
      · refine ⟨hf.max, hf.inq, hf.rerr, hf.eof, ?_, hf.ex, hf.cl, fun hx => by simp at hx⟩
        show stateOk s.stage true .terminated = true
        revert hst hna hnc
        generalize (flush m).state = st
        cases s.stage <;> cases st <;> simp [stateOk]
    · cases async
      · exact Ext.flush m
      · exact ⟨m.pending, rfl⟩
    · simp [GotOk, retOk]

theorem receive_conf {s : S} {f : InFrame} (h : (receive s).2 = .frame f) : isViolation f = false := by
  unfold receive at h
  rcases hrx : rx s with ⟨r, s'⟩
  rw [hrx] at h
  cases r with
  | frame g =>
    simp only at h
    by_cases hv : isViolation g = true
    · simp [hv] at h
    · simp only [hv] at h
      have : g = f := by injection h
      subst this; simpa using hv
  | _ => simp at h

/-! ## Close / AsyncClose -/

theorem close_inactive (m : M) (code : Nat) (reason : Bytes) (h : m.state ≠ .active) : (close m code reason).1 = m := by
  unfold close
  cases hm : m.state <;> simp_all

theorem close_err_inactive (m : M) (code : Nat) (reason : Bytes) (h : m.state ≠ .active) :
    (close m code reason).2 ≠ .nil := by
  unfold close
  cases hm : m.state <;> simp_all

theorem Q_close {m : M} {s : S} (h : Q m s) (ha : m.state = .active) (code : Nat) (reason : Bytes) (x : Expect)
    (hx : x.matches { fin := true, op := 8, masked := true, payload := u16 code ++ reason } = true) :
    Q (close m code reason).1 { s.push x with stage := .closing } ∧ (close m code reason).2 = .nil ∧
      Ext m (close m code reason).1 ∧ (close m code reason).1.state = .closedByUs := by
  have e : close m code reason = (flush (prepareClose { m with state := .closedByUs } (u16 code ++ reason)), .nil) := by
    unfold close; simp [ha]
  rw [e]
  refine ⟨⟨h.max, h.inq, h.rerr, h.eof, by simp [stateOk, flush, prepareClose, prepareWrite], ?_, ?_, ?_⟩, rfl, ?_, rfl⟩
  · rw [out_flush]
    show matchExact (s.expect ++ [x]) (out (prepareWrite { m with state := .closedByUs } _)) = true
    rw [out_prepareWrite]
    exact matchExact_snoc h.ex hx
  · rw [out_flush]
    show closeLast (out (prepareWrite { m with state := .closedByUs } _)) = true
    rw [out_prepareWrite]
    exact closeLast_snoc _ (h.nc ha)
  · intro hx; simp [flush, prepareClose, prepareWrite] at hx
  · exact ⟨m.pending ++ [{ fin := true, op := 8, masked := true, payload := u16 code ++ reason }],
      by simp [flush, prepareClose, prepareWrite]⟩

/-! ## NextMessage / AsyncNextMessage against the monitor's message assembly -/

def AsmRel (a : Asm) (ty : Option Nat) : Prop :=
  a.n = a.data.length ∧
  ((a.ty = 255 ∧ a.cont = false ∧ ty = none) ∨ (a.ty ≠ 255 ∧ a.cont = true ∧ ty = some a.ty))

theorem isControl_of (op : Nat) (h : op = 8 ∨ op = 9 ∨ op = 10) : isControl op = true ∧ controlOp op = true := by
  rcases h with h | h | h <;> subst h <;> exact ⟨rfl, rfl⟩

theorem notControl_of (op : Nat) (h : op = 0 ∨ op = 1 ∨ op = 2) : isControl op = false ∧ controlOp op = false := by
  rcases h with h | h | h <;> subst h <;> exact ⟨rfl, rfl⟩

theorem nm (async : Bool) (buf : Nat) (cn : Bool) : ∀ (fuel : Nat) (m : M) (s : S) (a : Asm) (ty : Option Nat),
    Q m s → AsmRel a ty → a.n ≤ buf →
    ∃ m' e a', nextMessage async buf fuel m a = some (m', e, a') ∧ Ext m m' ∧
      (readMsg cn buf fuel s ty a.data).1.seen = s.seen ∧
      (readMsg cn buf fuel s ty a.data).1.sentClose = s.sentClose ∧
      (cn = (m'.state == .closedByUs) →
        Q m' (readMsg cn buf fuel s ty a.data).1 ∧
        retOk (readMsg cn buf fuel s ty a.data).2 (.msg e a'.ty a'.n a'.data true a'.ctl) = true) := by
  intro fuel
  induction fuel with
  | zero =>
    intro m s a ty hQ _ _
    exact ⟨m, .other, a, rfl, Ext.refl m, rfl, rfl, fun _ => ⟨hQ, by simp [readMsg, retOk]⟩⟩
  | succ fuel ih =>
    intro m s a ty hQ hA hn
    obtain ⟨m1, e, fo, h1, hQ1, hE1, hG⟩ := nf hQ async
    have hfr := receive_frame s
    have hconf := @receive_conf s
    rcases hrec : receive s with ⟨s1, g⟩
    rw [hrec] at hQ1 hG hfr hconf
    simp only at hQ1 hG hfr hconf
    rw [nextMessage, readMsg]
    simp only [h1, hrec]
    cases g with
    | stop w =>
      obtain ⟨hne, _, hmsg⟩ := hG
      simp only [ne_eq, hne, not_false_eq_true, if_true]
      exact ⟨m1, e, a, rfl, hE1, hfr.1, hfr.2.1, fun _ => ⟨hQ1, hmsg _ _ _ _⟩⟩
    | violated =>
      have hne : e ≠ .nil := by intro hx; subst hx; simp [GotOk, Err.isProto] at hG
      simp only [ne_eq, hne, not_false_eq_true, if_true]
      refine ⟨m1, e, a, rfl, hE1, hfr.1, hfr.2.1, fun _ => ⟨hQ1, ?_⟩⟩
      have hp : e.isProto = true := hG
      simp [retOk, hp, hA.1]
    | frame f =>
      obtain ⟨he, hfo⟩ := hG
      subst he; subst hfo
      simp only [ne_eq, not_true_eq_false, if_false]
      obtain ⟨_, _, hops⟩ := conforming_cases f (hconf rfl)
      rcases hops with ⟨hop, _, _⟩ | hop
      · obtain ⟨hc1, hc2⟩ := isControl_of f.op hop
        simp only [hc1, hc2, if_true]
        obtain ⟨m', e', a', h2, hE2, hs1, hs2, hrest⟩ :=
          ih m1 s1 { a with ctl := a.ctl ++ [(f.op, f.payload)] } ty hQ1 hA hn
        exact ⟨m', e', a', h2, hE1.trans hE2, hs1.trans hfr.1, hs2.trans hfr.2.1, hrest⟩
      · obtain ⟨hc1, hc2⟩ := notControl_of f.op hop
        simp only [hc1, hc2, Bool.false_eq_true, if_false]
        have hmax : s1.max = m1.max := hQ1.max
        have han : a.n = a.data.length := hA.1
        by_cases hbig : a.n + f.payload.length > buf ∨ a.n + f.payload.length > m1.max
        · have hm : (a.n + min (buf - a.n) f.payload.length > m1.max ∨
              min (buf - a.n) f.payload.length ≠ f.payload.length) := by omega
          have hs : (decide ((a.data ++ f.payload).length > buf) || decide ((a.data ++ f.payload).length > s1.max)) = true := by
            simp only [Bool.or_eq_true, decide_eq_true_eq, List.length_append]
            rw [hmax, ← han]; exact hbig
          simp only [hm, hs, if_true]
          by_cases ha : m1.state = .active
          · obtain ⟨hQc, _, hEc, hst⟩ := Q_close hQ1 ha 1001 tooBigReason .closeAny (by simp [Expect.matches])
            have hso : s1.stage = .opened := (opened_iff hQ1).2 ha
            refine ⟨_, _, _, rfl, hE1.trans hEc, ?_, ?_, ?_⟩
            · simp only [hso]; split <;> exact hfr.1
            · simp only [hso]; split <;> exact hfr.2.1
            · intro hcn
              have hcn' : cn = true := by rw [hcn, hst]; rfl
              simp only [hso, hcn', Bool.and_self, decide_true, if_true]
              exact ⟨hQc, by simp [retOk]⟩
          · have hso : ¬ s1.stage = .opened := fun hx => ha ((opened_iff hQ1).1 hx)
            rw [close_inactive m1 _ _ ha]
            refine ⟨_, _, _, rfl, hE1, ?_, ?_, ?_⟩
            · simp only [hso, decide_false, Bool.false_and, Bool.false_eq_true, if_false]; exact hfr.1
            · simp only [hso, decide_false, Bool.false_and, Bool.false_eq_true, if_false]; exact hfr.2.1
            · intro _
              simp only [hso, decide_false, Bool.false_and, Bool.false_eq_true, if_false]
              exact ⟨hQ1, by simp [retOk]⟩
        · have hk : min (buf - a.n) f.payload.length = f.payload.length := by omega
          have hm : ¬ (a.n + f.payload.length > m1.max) := by omega
          have hs : (decide ((a.data ++ f.payload).length > buf) || decide ((a.data ++ f.payload).length > s1.max)) = false := by
            simp only [Bool.or_eq_false_iff, decide_eq_false_iff_not, List.length_append]
            rw [hmax, ← han]; omega
          simp only [hk, hm, hs, if_false, Bool.false_eq_true, List.take_length, ne_eq, not_true_eq_false, or_false]
          have hn' : a.n + f.payload.length ≤ buf := by omega
          have hlen : a.n + f.payload.length = (a.data ++ f.payload).length := by
            rw [List.length_append, han]
          rcases hA.2 with ⟨hty, hcont, htn⟩ | ⟨hty, hcont, hts⟩
          · subst htn
            simp only [hty, hcont, if_true, Bool.not_false, Option.isNone_none, Bool.true_and, decide_eq_true_eq,
              Option.isSome_none, Bool.false_and, Bool.false_eq_true, if_false, Option.getD_none]
            by_cases h0 : f.op = 0
            · simp only [h0, if_true]
              refine ⟨_, _, _, rfl, hE1, hfr.1, hfr.2.1, fun _ => ⟨hQ1, by simp [retOk]⟩⟩
            · simp only [h0, if_false]
              cases hfin : f.fin
              · -- not the last fragment: go on
                simp only [Bool.not_false, ne_eq, not_true_eq_false, Bool.true_eq_false, or_self, if_false,
                  Bool.false_eq_true]
                have hA' : AsmRel (⟨f.op, a.n + f.payload.length, a.data ++ f.payload, true, a.ctl⟩ : Asm) (some f.op) :=
                  ⟨hlen, Or.inr ⟨by simp only; omega, rfl, rfl⟩⟩
                obtain ⟨m', e', a', h2, hE2, hs1, hs2, hrest⟩ := ih m1 s1 _ (some f.op) hQ1 hA' hn'
                exact ⟨m', e', a', h2, hE1.trans hE2, hs1.trans hfr.1, hs2.trans hfr.2.1, hrest⟩
              · simp only [Bool.not_true, ne_eq, not_true_eq_false, or_true, if_true]
                refine ⟨_, _, _, rfl, hE1, hfr.1, hfr.2.1, fun _ => ⟨hQ1, ?_⟩⟩
                simp [retOk, hlen]
          · subst hts
            simp only [hty, hcont, if_false, Bool.not_true, Bool.false_eq_true, Option.isNone_some, Bool.false_and,
              Option.isSome_some, Bool.true_and, decide_eq_true_eq, Option.getD_some]
            by_cases h0 : f.op = 0
            · simp only [h0, ne_eq, not_true_eq_false, if_false]
              cases hfin : f.fin
              · simp only [Bool.not_false, ne_eq, not_true_eq_false, Bool.true_eq_false, or_self, if_false,
                  Bool.false_eq_true]
                have hA' : AsmRel (⟨a.ty, a.n + f.payload.length, a.data ++ f.payload, true, a.ctl⟩ : Asm) (some a.ty) :=
                  ⟨hlen, Or.inr ⟨hty, rfl, rfl⟩⟩
                obtain ⟨m', e', a', h2, hE2, hs1, hs2, hrest⟩ := ih m1 s1 _ (some a.ty) hQ1 hA' hn'
                exact ⟨m', e', a', h2, hE1.trans hE2, hs1.trans hfr.1, hs2.trans hfr.2.1, hrest⟩
              · simp only [Bool.not_true, ne_eq, not_true_eq_false, or_true, if_true]
                refine ⟨_, _, _, rfl, hE1, hfr.1, hfr.2.1, fun _ => ⟨hQ1, ?_⟩⟩
                simp [retOk, hlen]
            · simp only [h0, ne_eq, not_false_eq_true, if_true]
              refine ⟨_, _, _, rfl, hE1, hfr.1, hfr.2.1, fun _ => ⟨hQ1, by simp [retOk]⟩⟩

/-! ## One operation -/

/-- Full coupling: `Q` plus the monitor's bookkeeping of what it has seen on the wire. -/
def R (m : M) (s : S) : Prop :=
  Q m s ∧ s.seen = m.wire.length ∧ s.sentClose = m.wire.any OutFrame.isClose

/-- The application writes text or binary messages, and does not itself send Close frames through WriteFrame
(closing is what `Close` is for). -/
def OpOk : Op → Prop
  | .write _ ty _ => ty = 1 ∨ ty = 2
  | .writeFrame _ _ op _ => op < 16 ∧ op ≠ 8
  | _ => True

instance : DecidablePred OpOk := fun op => by cases op <;> unfold OpOk <;> exact inferInstance

theorem post_wire {m m' : M} {w : List OutFrame} (h : m'.wire = m.wire ++ w) : (post m m').wire = w := by
  simp [post, h]

theorem finish {m m' : M} {s s' : S} (hR : R m s) (hQ' : Q m' s') (hE : Ext m m')
    (h1 : s'.seen = s.seen) (h2 : s'.sentClose = s.sentClose) :
    postOk s' (post m m') = true ∧ R m' (commit s' (post m m')) := by
  obtain ⟨w, hw⟩ := hE
  obtain ⟨_, hseen, hsent⟩ := hR
  have hpw : (post m m').wire = w := post_wire hw
  have hex := hQ'.ex
  have hcl := hQ'.cl
  unfold out at hex hcl
  rw [hw] at hex hcl
  have hlen := matchExact_length hex
  simp only [List.length_append] at hlen
  constructor
  · unfold postOk
    rw [hpw]
    simp only [Bool.and_eq_true, beq_iff_eq]
    refine ⟨⟨⟨hQ'.st, ?_⟩, ?_⟩, ?_⟩
    · show s'.seen + w.length + m'.pending.length = s'.expect.length
      rw [h1, hseen, hlen]
    · rw [h1, hseen]; exact matchAll_of_exact m.wire w m'.pending hex
    · rw [h2, hsent]; exact discipline_of_closeLast m.wire w m'.pending hcl
  · refine ⟨⟨hQ'.max, hQ'.inq, hQ'.rerr, hQ'.eof, hQ'.st, hQ'.ex, hQ'.cl, hQ'.nc⟩, ?_, ?_⟩
    · show s'.seen + (post m m').wire.length = m'.wire.length
      rw [hpw, hw, h1, hseen, List.length_append]
    · show (s'.sentClose || (post m m').wire.any OutFrame.isClose) = m'.wire.any OutFrame.isClose
      rw [hpw, hw, h2, hsent, List.any_append]

theorem accept_of {m m' : M} {s s' : S} {op : Op} {r : Ret} {want : Want}
    (hR : R m s) (hadv : advance s (m'.state == .closedByUs) op = (s', want)) (hret : retOk want r = true)
    (hQ' : Q m' s') (hE : Ext m m') (h1 : s'.seen = s.seen) (h2 : s'.sentClose = s.sentClose) :
    ∃ s'', Spec.WsStream.step s op (.ok r (post m m')) = some s'' ∧ R m' s'' := by
  obtain ⟨hp, hR'⟩ := finish hR hQ' hE h1 h2
  refine ⟨commit s' (post m m'), ?_, hR'⟩
  unfold Spec.WsStream.step
  have : (post m m').state = m'.state := rfl
  simp only [this, hadv, hret, hp, Bool.and_self, if_true]

theorem Q_push_write {m : M} {s : S} (h : Q m s) (ha : m.state = .active) (f : OutFrame) (hm : f.masked = true)
    (hc : f.isClose = false) : Q (flush (prepareWrite m f)) (s.push (.frame f)) ∧ Ext m (flush (prepareWrite m f)) := by
  have hf : ({ f with masked := true } : OutFrame) = f := by cases f; simp_all
  refine ⟨⟨h.max, h.inq, h.rerr, h.eof, h.st, ?_, ?_, ?_⟩, ?_⟩
  · rw [out_flush, out_prepareWrite, hf]
    exact matchExact_snoc h.ex (by simp [Expect.matches])
  · rw [out_flush, out_prepareWrite]; exact closeLast_snoc _ (h.nc ha)
  · intro _
    rw [out_flush, out_prepareWrite, hf]
    exact noClose_append (h.nc ha) (noClose_single hc)
  · exact ⟨m.pending ++ [{ f with masked := true }], by simp [flush, prepareWrite]⟩

theorem step_refines (m : M) (s : S) (op : Op) (hR : R m s) (hop : OpOk op) :
    ∃ s', Spec.WsStream.step s op (Model.WsStream.step m op).2 = some s' ∧ R (Model.WsStream.step m op).1 s' := by
  have hQ := hR.1
  cases op with
  | peer f =>
    exact accept_of (m' := { m with inq := m.inq ++ [f] }) (s' := { s with inq := s.inq ++ [f] }) hR rfl rfl
      ⟨hQ.max, by simp [hQ.inq], hQ.rerr, hQ.eof, hQ.st, hQ.ex, hQ.cl, hQ.nc⟩ (Ext.refl m) rfl rfl
  | eof =>
    exact accept_of (m' := { m with eof := true }) (s' := { s with eof := true }) hR rfl rfl
      ⟨hQ.max, hQ.inq, hQ.rerr, rfl, hQ.st, hQ.ex, hQ.cl, hQ.nc⟩ (Ext.refl m) rfl rfl
  | ioerr =>
    exact accept_of (m' := { m with rerr := true }) (s' := { s with rerr := true }) hR rfl rfl
      ⟨hQ.max, hQ.inq, rfl, hQ.eof, hQ.st, hQ.ex, hQ.cl, hQ.nc⟩ (Ext.refl m) rfl rfl
  | nextFrame async =>
    obtain ⟨m', e, fo, h1, hQ', hE, hG⟩ := nf hQ async
    have hfr := receive_frame s
    simp only [Model.WsStream.step, h1]
    rcases hrec : receive s with ⟨s1, g⟩
    rw [hrec] at hQ' hG hfr
    simp only at hQ' hG hfr
    cases g with
    | stop w =>
      exact accept_of hR (s' := s1) (want := w) (by simp [advance, readFrame, hrec]) hG.2.1 hQ' hE hfr.1 hfr.2.1
    | violated =>
      exact accept_of hR (s' := s1) (want := .violation []) (by simp [advance, readFrame, hrec])
        (by simp only [retOk]; exact hG) hQ' hE hfr.1 hfr.2.1
    | frame f =>
      obtain ⟨he, hfo⟩ := hG
      subst he; subst hfo
      exact accept_of hR (s' := s1) (want := .deliverFrame f) (by simp [advance, readFrame, hrec])
        (by simp [retOk]) hQ' hE hfr.1 hfr.2.1
  | nextMsg async buf =>
    have hA : AsmRel ({} : Asm) none := ⟨rfl, Or.inl ⟨rfl, rfl, rfl⟩⟩
    obtain ⟨m', e, a', h1, _, _, _, _⟩ := nm async buf false (m.inq.length + 2) m s {} none hQ hA (Nat.zero_le _)
    obtain ⟨m'', e', a'', h1', hE, hs1, hs2, hrest⟩ :=
      nm async buf (m'.state == .closedByUs) (m.inq.length + 2) m s {} none hQ hA (Nat.zero_le _)
    rw [h1] at h1'
    injection h1' with h1'
    injection h1' with hm he
    injection he with he ha
    subst hm; subst he; subst ha
    obtain ⟨hQ', hret⟩ := hrest rfl
    simp only [Model.WsStream.step, h1]
    refine accept_of hR (s' := (readMsg (m'.state == .closedByUs) buf (s.inq.length + 2) s none []).1)
      (want := (readMsg (m'.state == .closedByUs) buf (s.inq.length + 2) s none []).2) ?_ ?_ ?_ hE ?_ ?_
    · simp [advance]
    · rw [hQ.inq]; exact hret
    · rw [hQ.inq]; exact hQ'
    · rw [hQ.inq]; exact hs1
    · rw [hQ.inq]; exact hs2
  | write async ty payload =>
    simp only [Model.WsStream.step, write]
    by_cases hbig : payload.length > m.max
    · simp only [hbig, if_true]
      have hnb : ¬ payload.length ≤ s.max := by rw [hQ.max]; omega
      exact accept_of hR (s' := s) (want := .refused) (by simp [advance, hnb]) (by simp [retOk]) hQ (Ext.refl m) rfl rfl
    · simp only [hbig, if_false]
      have hnb : payload.length ≤ s.max := by rw [hQ.max]; omega
      by_cases ha : m.state = .active
      · have hso : s.stage = .opened := (opened_iff hQ).2 ha
        have hty : ty % 16 = ty := by rcases hop with h | h <;> subst h <;> rfl
        simp only [ha, beq_self_eq_true, if_true, hty]
        obtain ⟨hQ', hE⟩ := Q_push_write hQ ha { fin := true, op := ty, masked := true, payload := payload } rfl
          (by rcases hop with h | h <;> subst h <;> rfl)
        exact accept_of hR (want := .accepted) (by simp [advance, hso, hnb]) (by simp [retOk]) hQ' hE rfl rfl
      · have hso : ¬ s.stage = .opened := fun hx => ha ((opened_iff hQ).1 hx)
        have hb : (m.state == StreamState.active) = false := by simpa using ha
        simp only [hb, Bool.false_eq_true, if_false]
        exact accept_of hR (s' := s) (want := .refused) (by simp [advance, hso]) (by simp [retOk]) hQ (Ext.refl m) rfl rfl
  | writeFrame async fin op payload =>
    simp only [Model.WsStream.step, writeFrame]
    by_cases ha : m.state = .active
    · have hso : s.stage = .opened := (opened_iff hQ).2 ha
      have hty : op % 16 = op := Nat.mod_eq_of_lt hop.1
      simp only [ha, beq_self_eq_true, if_true, hty]
      obtain ⟨hQ', hE⟩ := Q_push_write hQ ha { fin := fin, op := op, masked := true, payload := payload } rfl
        (by simp [OutFrame.isClose, hop.2])
      exact accept_of hR (want := .accepted) (by simp [advance, hso]) (by simp [retOk]) hQ' hE rfl rfl
    · have hso : ¬ s.stage = .opened := fun hx => ha ((opened_iff hQ).1 hx)
      have hb : (m.state == StreamState.active) = false := by simpa using ha
      simp only [hb, Bool.false_eq_true, if_false]
      exact accept_of hR (s' := s) (want := .refused) (by simp [advance, hso]) (by simp [retOk]) hQ (Ext.refl m) rfl rfl
  | flush async =>
    exact accept_of hR (m' := flush m) (s' := s) (want := .accepted) (by simp [advance]) (by simp [retOk])
      (Q_flush hQ) (Ext.flush m) rfl rfl
  | close async code reason =>
    simp only [Model.WsStream.step]
    by_cases ha : m.state = .active
    · have hso : s.stage = .opened := (opened_iff hQ).2 ha
      obtain ⟨hQ', he, hE, _⟩ := Q_close hQ ha code reason
        (.frame { fin := true, op := 8, masked := true, payload := u16 code ++ reason }) (by simp [Expect.matches])
      exact accept_of hR (want := .accepted) (by simp [advance, hso]) (by simp [retOk, he]) hQ' hE rfl rfl
    · have hso : ¬ s.stage = .opened := fun hx => ha ((opened_iff hQ).1 hx)
      have hm' := close_inactive m code reason ha
      have he := close_err_inactive m code reason ha
      rcases hc : close m code reason with ⟨m', e⟩
      rw [hc] at hm' he
      simp only at hm' he
      subst hm'
      exact accept_of hR (s' := s) (want := .refused) (by simp [advance, hso]) (by simp [retOk, he]) hQ (Ext.refl _) rfl rfl

end Sonic.Lemmas.WsRefine
