/-
Helper lemmas for C11: the two simulation steps.
 1. `step_refines1`: one step of the implementation model (`Sonic.Model.Mirrored.step` over the
    definitions regenerated from mirrored_buffer.go) is accepted by the compact ring monitor.
 2. `compact_step_sound`: a step the compact monitor accepts is accepted by the reference
    (cell-queue) monitor.
-/
import Sonic.Lemmas.MirroredFacts

namespace Sonic.Props.C11
open Sonic.Gen.MirroredBuffer Sonic.Spec.Mirrored Sonic.Model.Mirrored
open Sonic.Spec.Bip (imin cells mem_cells)

/-! ## Part 1: the implementation model is accepted by the compact ring monitor -/

/-- Coupling between implementation state and (compact) monitor state. -/
def R1 (m : St) (c : C) : Prop :=
  m.cLo = c.cLo ∧ m.cLen = c.cLen ∧ m.mem = c.mem ∧
  ((m.buf = none ∧ c.live = false) ∨
   (∃ b, m.buf = some b ∧ Inv b ∧ c.live = true ∧ c.size = b.size ∧ c.next = b.tail ∧ c.used = b.used))

theorem cstep_dead (c : C) (h : c.live = false) (op : Op) (hop : ∀ r p, op ≠ .new r p) :
    cstep c op .nobuf = some c := by
  cases op <;> simp [cstep, h] <;> exact absurd rfl (hop _ _)

theorem inv_commit (b : MirroredBuffer) (n : Int) (hi : Inv b) (hn : 0 ≤ n) : Inv (b.Commit n).1 := by
  rw [commit_facts b n hi hn]
  have hk0 : 0 ≤ imin n (b.size - b.used) := imin_nonneg hn (by unfold Inv at hi; omega)
  have hk1 := imin_le_right n (b.size - b.used)
  unfold Inv at *
  dsimp only
  have h1 : 0 ≤ (b.tail + imin n (b.size - b.used)) % b.size := Int.emod_nonneg _ (by omega)
  have h2 : (b.tail + imin n (b.size - b.used)) % b.size < b.size := Int.emod_lt_of_pos _ (by omega)
  refine ⟨by omega, by omega, by omega, by omega, by omega, by omega, h1, h2, ?_⟩
  rw [hi.2.2.2.2.2.2.2.2, Int.emod_add_emod, Int.add_assoc]

theorem inv_consume (b : MirroredBuffer) (n : Int) (hi : Inv b) (hn : 0 ≤ n) : Inv (b.Consume n).1 := by
  rw [consume_facts b n hi hn]
  have hk0 : 0 ≤ imin n b.used := imin_nonneg hn (by unfold Inv at hi; omega)
  have hk1 := imin_le_right n b.used
  unfold Inv at *
  dsimp only
  have h1 : 0 ≤ (b.head + imin n b.used) % b.size := Int.emod_nonneg _ (by omega)
  have h2 : (b.head + imin n b.used) % b.size < b.size := Int.emod_lt_of_pos _ (by omega)
  refine ⟨by omega, by omega, by omega, by omega, h1, h2, by omega, by omega, ?_⟩
  rw [hi.2.2.2.2.2.2.2.2, Int.emod_add_emod]
  congr 1; omega

theorem inv_reset (b : MirroredBuffer) (hi : Inv b) : Inv b.Reset := by
  rw [reset_facts]
  unfold Inv at *
  dsimp only
  simp only [Int.add_zero, Int.zero_emod]
  and_intros <;> first | trivial | omega

/-- One step of the implementation model is accepted by the compact monitor and preserves the coupling. -/
theorem step_refines1 (m : St) (c : C) (op : Op) (hR : R1 m c) (hop : OpOk op) :
    ∃ c', cstep c op (Model.Mirrored.step m op).2 = some c' ∧ R1 (Model.Mirrored.step m op).1 c' := by
  obtain ⟨hlo, hlen, hmem, hbuf⟩ := hR
  -- `new` does not look at the old state
  by_cases hnew : ∃ r p, op = .new r p
  · obtain ⟨req, page, rfl⟩ := hnew
    obtain ⟨hp, hp', hreq⟩ := hop
    simp only [Model.Mirrored.step]
    cases hrs : roundSize page req with
    | none => exact ⟨cdead, rfl, rfl, rfl, rfl, Or.inl ⟨rfl, rfl⟩⟩
    | some size =>
      obtain ⟨f1, f2, f3, f4, f5⟩ := roundSize_facts page req size hp hp' hreq hrs
      by_cases hmap : mappable size = true
      · simp only [hmap, if_true]
        have hok : NewOk req page size := ⟨hp, f1, f2, f3, f4⟩
        refine ⟨cfresh size, by simp [cstep, hok], rfl, rfl, rfl, Or.inr ⟨mk size, rfl, ?_, rfl, rfl, rfl, rfl⟩⟩
        exact inv_mk size f1 (mappable_facts size f1 f5 hmap)
      · simp only [hmap]
        exact ⟨cdead, rfl, rfl, rfl, rfl, Or.inl ⟨rfl, rfl⟩⟩
  · have hnn : ∀ r p, op ≠ .new r p := fun r p h => hnew ⟨r, p, h⟩
    rcases hbuf with ⟨hb, hl⟩ | ⟨b, hb, hi, hl, hsz, hnx, hus⟩
    · -- no buffer: every operation answers `nobuf`
      have hs : Model.Mirrored.step m op = (m, .nobuf) := by
        cases op <;> first | exact absurd rfl (hnn _ _) | simp [Model.Mirrored.step, hb]
      rw [hs]
      exact ⟨c, cstep_dead c hl op hnn, hlo, hlen, hmem, Or.inl ⟨hb, hl⟩⟩
    · have hi0 := hi
      unfold Inv at hi0
      have hfree : c.free = b.size - b.used := by unfold C.free; rw [hsz, hus]
      cases op with
      | new r p => exact absurd rfl (hnn r p)
      | claim n =>
        obtain ⟨hv, hk, hkl⟩ := claim_facts b n hi hop
        have hk0 : 0 ≤ imin n (b.size - b.used) := imin_nonneg hop (by omega)
        have hk1 := imin_le_right n (b.size - b.used)
        simp only [Model.Mirrored.step, hb, hv]
        by_cases hz : (b.Claim n).hi - (b.Claim n).lo ≤ 0
        · have hok : CClaimOk c n 0 0 := ⟨by rw [hfree]; omega, Or.inl rfl⟩
          simp only [hz, if_true, Bool.true_eq_false, if_false]
          refine ⟨{ c with cLo := 0, cLen := 0 }, by simp [cstep, hl, hok], rfl, rfl, hmem,
            Or.inr ⟨b, rfl, hi, hl, hsz, hnx, hus⟩⟩
        · have hlo' := hkl (by omega)
          have hok : CClaimOk c n (b.Claim n).lo ((b.Claim n).hi - (b.Claim n).lo) := by
            refine ⟨by rw [hfree]; exact hk, Or.inr ⟨by omega, by rw [hsz]; omega, ?_⟩⟩
            rw [hlo', hsz, hnx]; exact Int.emod_eq_of_lt (by omega) (by omega)
          simp only [hz, if_false, Bool.true_eq_false]
          refine ⟨{ c with cLo := (b.Claim n).lo, cLen := (b.Claim n).hi - (b.Claim n).lo },
            by simp [cstep, hl, hok], rfl, rfl, hmem, Or.inr ⟨b, rfl, hi, hl, hsz, hnx, hus⟩⟩
      | commit n =>
        have hinv := inv_commit b n hi hop
        have hf := commit_facts b n hi hop
        simp only [Model.Mirrored.step, hb]
        rw [hf] at hinv ⊢
        dsimp only at hinv ⊢
        refine ⟨{ c with used := c.used + imin n (b.size - b.used), next := (c.next + imin n (b.size - b.used)) % c.size },
          by simp [cstep, hl, hfree], hlo, hlen, hmem, Or.inr ⟨_, rfl, hinv, hl, hsz, ?_, ?_⟩⟩
        · show (c.next + _) % c.size = (b.tail + _) % b.size
          rw [hnx, hsz]
        · show c.used + _ = b.used + _
          rw [hus]
      | consume n =>
        have hinv := inv_consume b n hi hop
        have hf := consume_facts b n hi hop
        simp only [Model.Mirrored.step, hb]
        rw [hf] at hinv ⊢
        dsimp only at hinv ⊢
        refine ⟨{ c with used := c.used - imin n b.used }, by simp [cstep, hl, hus], hlo, hlen, hmem,
          Or.inr ⟨_, rfl, hinv, hl, hsz, hnx, ?_⟩⟩
        show c.used - _ = b.used - _
        rw [hus]
      | free =>
        simp only [Model.Mirrored.step, hb]
        refine ⟨c, by simp [cstep, hl, hfree, free_facts b hi], hlo, hlen, hmem, Or.inr ⟨b, hb, hi, hl, hsz, hnx, hus⟩⟩
      | used =>
        simp only [Model.Mirrored.step, hb]
        refine ⟨c, by simp [cstep, hl, hus, MirroredBuffer.UsedSpace], hlo, hlen, hmem, Or.inr ⟨b, hb, hi, hl, hsz, hnx, hus⟩⟩
      | full =>
        simp only [Model.Mirrored.step, hb]
        refine ⟨c, by simp [cstep, hl, hus, hsz, MirroredBuffer.Full], hlo, hlen, hmem, Or.inr ⟨b, hb, hi, hl, hsz, hnx, hus⟩⟩
      | size =>
        simp only [Model.Mirrored.step, hb]
        refine ⟨c, by simp [cstep, hl, hsz, MirroredBuffer.Size], hlo, hlen, hmem, Or.inr ⟨b, hb, hi, hl, hsz, hnx, hus⟩⟩
      | reset =>
        simp only [Model.Mirrored.step, hb]
        refine ⟨{ c with used := 0, next := 0 }, by simp [cstep, hl], hlo, hlen, hmem,
          Or.inr ⟨b.Reset, rfl, inv_reset b hi, hl, hsz, rfl, rfl⟩⟩
      | write seed =>
        simp only [Model.Mirrored.step, hb]
        refine ⟨{ c with mem := store c.mem c.size c.cLo c.cLen seed }, by simp [cstep, hl], hlo, hlen, ?_,
          Or.inr ⟨b, rfl, hi, hl, hsz, hnx, hus⟩⟩
        show store m.mem b.size m.cLo m.cLen seed = store c.mem c.size c.cLo c.cLen seed
        rw [hmem, hsz, hlo, hlen]
      | read off len =>
        simp only [Model.Mirrored.step, hb]
        refine ⟨c, by simp [cstep, hl, hsz, hmem], hlo, hlen, hmem, Or.inr ⟨b, hb, hi, hl, hsz, hnx, hus⟩⟩
      | prefault =>
        simp only [Model.Mirrored.step, hb]
        refine ⟨{ c with mem := zeros c.size }, by simp [cstep, hl], hlo, hlen, ?_,
          Or.inr ⟨b, rfl, hi, hl, hsz, hnx, hus⟩⟩
        show zeros b.size = zeros c.size
        rw [hsz]
      | destroy =>
        simp only [Model.Mirrored.step, hb]
        exact ⟨cdead, by simp [cstep, hl], rfl, rfl, rfl, Or.inl ⟨rfl, rfl⟩⟩

theorem run_accepted1 (m : St) (c : C) (ops : List Op) (hR : R1 m c) (hops : ∀ op ∈ ops, OpOk op) :
    caccepts c (run m ops) = true := by
  induction ops generalizing m c with
  | nil => rfl
  | cons op r ih =>
    obtain ⟨c', h1, h2⟩ := step_refines1 m c op hR (hops op (List.mem_cons_self ..))
    simp only [run, caccepts, h1]
    exact ih _ _ h2 (fun o ho => hops o (List.mem_cons_of_mem _ ho))

/-! ## Part 2: what the compact monitor accepts, the reference (cell-queue) monitor accepts -/

/-- The compact state stands for the reference state whose queue is the `used` ring cells that end
just before `next`. -/
def R2 (c : C) (s : S) : Prop :=
  s.live = c.live ∧ s.size = c.size ∧ s.next = c.next ∧ s.cLo = c.cLo ∧ s.cLen = c.cLen ∧ s.mem = c.mem ∧
  s.q = ringCells c.size (c.next - c.used) c.used ∧
  (c.live = true → 0 < c.size ∧ 0 ≤ c.used ∧ c.used ≤ c.size ∧ 0 ≤ c.next ∧ c.next < c.size)

theorem R2_dead : R2 cdead dead :=
  ⟨rfl, rfl, rfl, rfl, rfl, rfl, rfl, fun h => absurd h (by simp [cdead])⟩

theorem R2_fresh (size : Int) (h : 0 < size) : R2 (cfresh size) (fresh size) :=
  ⟨rfl, rfl, rfl, rfl, rfl, rfl, rfl, fun _ => ⟨h, Int.le_refl 0, by show (0:Int) ≤ size; omega, Int.le_refl 0, h⟩⟩

theorem step_dead (s : S) (h : s.live = false) (op : Op) (hop : ∀ r p, op ≠ .new r p) (ob : Obs) :
    Spec.Mirrored.step s op ob = if ob = .nobuf then some s else none := by
  cases op <;> first | exact absurd rfl (hop _ _) | (cases ob <;> simp [Spec.Mirrored.step, h])

theorem cstep_dead' (c : C) (h : c.live = false) (op : Op) (hop : ∀ r p, op ≠ .new r p) (ob : Obs) :
    cstep c op ob = if ob = .nobuf then some c else none := by
  cases op <;> first | exact absurd rfl (hop _ _) | (cases ob <;> simp [cstep, h])

/-- One accepted step of the compact monitor is an accepted step of the reference monitor. -/
theorem compact_step_sound (c c' : C) (s : S) (op : Op) (ob : Obs) (hR : R2 c s) (hop : OpOk op)
    (hc : cstep c op ob = some c') : ∃ s', Spec.Mirrored.step s op ob = some s' ∧ R2 c' s' := by
  obtain ⟨hlive, hsz, hnx, hlo, hlen, hmem, hq, hwf⟩ := hR
  by_cases hnew : ∃ r p, op = .new r p
  · obtain ⟨req, page, rfl⟩ := hnew
    cases ob with
    | created size =>
      by_cases hok : NewOk req page size
      · simp only [cstep, hok, if_true, Option.some.injEq] at hc
        subst hc
        exact ⟨fresh size, by simp [Spec.Mirrored.step, hok], R2_fresh size hok.2.1⟩
      · simp [cstep, hok] at hc
    | refused =>
      simp only [cstep, Option.some.injEq] at hc
      subst hc
      exact ⟨dead, rfl, R2_dead⟩
    | _ => simp [cstep] at hc
  · have hnn : ∀ r p, op ≠ .new r p := fun r p h => hnew ⟨r, p, h⟩
    by_cases hl : c.live = false
    · rw [cstep_dead' c hl op hnn] at hc
      rw [step_dead s (by rw [hlive]; exact hl) op hnn]
      by_cases hob : ob = .nobuf
      · rw [if_pos hob] at hc ⊢
        have : c' = c := (Option.some.inj hc).symm
        subst this
        exact ⟨s, rfl, hlive, hsz, hnx, hlo, hlen, hmem, hq, hwf⟩
      · rw [if_neg hob] at hc; exact absurd hc (by simp)
    · have hl : c.live = true := by cases h : c.live <;> simp_all
      have hsl : s.live = true := by rw [hlive]; exact hl
      obtain ⟨w1, w2, w3, w4, w5⟩ := hwf hl
      have husd : s.used = c.used := by
        unfold S.used; rw [hq, length_ringCells]; omega
      have hfree : s.free = c.free := by unfold S.free C.free; rw [husd, hsz]
      cases op with
      | new r p => exact absurd rfl (hnn r p)
      | claim n =>
        cases ob with
        | view lo len =>
          by_cases hok : CClaimOk c n lo len
          · simp only [cstep, hl, hok, if_true, Bool.true_eq_false, if_false, Option.some.injEq] at hc
            subst hc
            have hok' : ClaimOk s n lo len := by
              obtain ⟨h1, h2⟩ := hok
              refine ⟨by rw [hfree]; exact h1, ?_⟩
              rcases h2 with h2 | ⟨h2, h3, h4⟩
              · exact Or.inl h2
              · refine Or.inr ⟨h2, by rw [hsz]; exact h3, by rw [hsz, hnx]; exact h4, ?_⟩
                rw [hq, hsz]
                have hle : len ≤ c.size - c.used := by rw [h1]; exact imin_le_right _ _
                exact ring_disjoint (by omega) (by rw [h4, Int.emod_eq_of_lt w4 w5])
            exact ⟨{ s with cLo := lo, cLen := len }, by simp [Spec.Mirrored.step, hsl, hok'],
              hlive.trans hl, hsz, hnx, rfl, rfl, hmem, hq, fun _ => ⟨w1, w2, w3, w4, w5⟩⟩
          · simp [cstep, hl, hok] at hc
        | _ => simp [cstep, hl] at hc
      | commit n =>
        cases ob with
        | int k =>
          by_cases hk : k = imin n c.free
          · simp only [cstep, hl, hk, if_true, Bool.true_eq_false, if_false, Option.some.injEq] at hc
            subst hc
            have hk0 : 0 ≤ imin n c.free := imin_nonneg hop (by unfold C.free; omega)
            have hk1 : imin n c.free ≤ c.size - c.used := imin_le_right _ _
            refine ⟨{ s with q := s.q ++ ringCells s.size s.next k, next := (s.next + k) % s.size },
              by simp [Spec.Mirrored.step, hsl, hk, hfree], hlive.trans hl, hsz, ?_, hlo, hlen, hmem, ?_, fun _ => ?_⟩
            · show (s.next + k) % s.size = (c.next + imin n c.free) % c.size
              rw [hnx, hsz, hk]
            · show s.q ++ ringCells s.size s.next k = ringCells c.size ((c.next + imin n c.free) % c.size - (c.used + imin n c.free)) (c.used + imin n c.free)
              rw [hq, hsz, hnx, hk]
              have h1 := @ringCells_append c.size (c.next - c.used) c.used (imin n c.free) w2 hk0
              rw [show c.next - c.used + c.used = c.next by omega] at h1
              rw [h1]
              apply ringCells_congr
              rw [Int.emod_sub_emod]
              congr 1; omega
            · exact ⟨w1, by show 0 ≤ c.used + _; omega, by show c.used + _ ≤ c.size; omega,
                Int.emod_nonneg _ (by omega), Int.emod_lt_of_pos _ w1⟩
          · simp [cstep, hl, hk] at hc
        | _ => simp [cstep, hl] at hc
      | consume n =>
        cases ob with
        | int k =>
          by_cases hk : k = imin n c.used
          · simp only [cstep, hl, hk, if_true, Bool.true_eq_false, if_false, Option.some.injEq] at hc
            subst hc
            have hk0 : 0 ≤ imin n c.used := imin_nonneg hop w2
            have hk1 : imin n c.used ≤ c.used := imin_le_right _ _
            refine ⟨{ s with q := s.q.drop k.toNat }, by simp [Spec.Mirrored.step, hsl, hk, husd],
              hlive.trans hl, hsz, hnx, hlo, hlen, hmem, ?_, fun _ => ?_⟩
            · show s.q.drop k.toNat = ringCells c.size (c.next - (c.used - imin n c.used)) (c.used - imin n c.used)
              rw [hq, hk, drop_ringCells hk0 hk1]
              congr 1; omega
            · exact ⟨w1, by show 0 ≤ c.used - _; omega, by show c.used - _ ≤ c.size; omega, w4, w5⟩
          · simp [cstep, hl, hk] at hc
        | _ => simp [cstep, hl] at hc
      | used =>
        cases ob with
        | int v =>
          by_cases hv : v = c.used
          · simp only [cstep, hl, hv, if_true, Bool.true_eq_false, if_false, Option.some.injEq] at hc
            subst hc
            exact ⟨s, by simp [Spec.Mirrored.step, hsl, hv, husd], hlive, hsz, hnx, hlo, hlen, hmem, hq, hwf⟩
          · simp [cstep, hl, hv] at hc
        | _ => simp [cstep, hl] at hc
      | free =>
        cases ob with
        | int v =>
          by_cases hv : v = c.free
          · simp only [cstep, hl, hv, if_true, Bool.true_eq_false, if_false, Option.some.injEq] at hc
            subst hc
            exact ⟨s, by simp [Spec.Mirrored.step, hsl, hv, hfree], hlive, hsz, hnx, hlo, hlen, hmem, hq, hwf⟩
          · simp [cstep, hl, hv] at hc
        | _ => simp [cstep, hl] at hc
      | full =>
        cases ob with
        | bool v =>
          by_cases hv : v = decide (c.used = c.size)
          · simp only [cstep, hl, hv, if_true, Bool.true_eq_false, if_false, Option.some.injEq] at hc
            subst hc
            exact ⟨s, by simp [Spec.Mirrored.step, hsl, hv, husd, hsz], hlive, hsz, hnx, hlo, hlen, hmem, hq, hwf⟩
          · simp [cstep, hl, hv] at hc
        | _ => simp [cstep, hl] at hc
      | size =>
        cases ob with
        | int v =>
          by_cases hv : v = c.size
          · simp only [cstep, hl, hv, if_true, Bool.true_eq_false, if_false, Option.some.injEq] at hc
            subst hc
            exact ⟨s, by simp [Spec.Mirrored.step, hsl, hv, hsz], hlive, hsz, hnx, hlo, hlen, hmem, hq, hwf⟩
          · simp [cstep, hl, hv] at hc
        | _ => simp [cstep, hl] at hc
      | reset =>
        cases ob with
        | unit =>
          simp only [cstep, hl, Bool.true_eq_false, if_false, Option.some.injEq] at hc
          subst hc
          refine ⟨{ s with q := [], next := 0 }, by simp [Spec.Mirrored.step, hsl], hlive.trans hl, hsz, rfl, hlo, hlen, hmem, ?_,
            fun _ => ⟨w1, Int.le_refl 0, by show (0:Int) ≤ c.size; omega, Int.le_refl 0, w1⟩⟩
          show [] = ringCells c.size (0 - 0) 0
          rw [ringCells_nonpos (Int.le_refl 0)]
        | _ => simp [cstep, hl] at hc
      | write seed =>
        cases ob with
        | unit =>
          simp only [cstep, hl, Bool.true_eq_false, if_false, Option.some.injEq] at hc
          subst hc
          refine ⟨{ s with mem := store s.mem s.size s.cLo s.cLen seed }, by simp [Spec.Mirrored.step, hsl],
            hlive.trans hl, hsz, hnx, hlo, hlen, ?_, hq, fun _ => ⟨w1, w2, w3, w4, w5⟩⟩
          show store s.mem s.size s.cLo s.cLen seed = store c.mem c.size c.cLo c.cLen seed
          rw [hmem, hsz, hlo, hlen]
        | _ => simp [cstep, hl] at hc
      | read off len =>
        cases ob with
        | bytes bs =>
          by_cases hv : bs = (if ReadIn c.size off len then load c.mem c.size off len else [])
          · simp only [cstep, hl, ← hv, if_true, Bool.true_eq_false, if_false, Option.some.injEq] at hc
            subst hc
            exact ⟨s, by simp [Spec.Mirrored.step, hsl, hsz, hmem, ← hv], hlive, hsz, hnx, hlo, hlen, hmem, hq, hwf⟩
          · simp [cstep, hl, hv] at hc
        | _ => simp [cstep, hl] at hc
      | prefault =>
        cases ob with
        | unit =>
          simp only [cstep, hl, Bool.true_eq_false, if_false, Option.some.injEq] at hc
          subst hc
          refine ⟨{ s with mem := zeros s.size }, by simp [Spec.Mirrored.step, hsl],
            hlive.trans hl, hsz, hnx, hlo, hlen, ?_, hq, fun _ => ⟨w1, w2, w3, w4, w5⟩⟩
          show zeros s.size = zeros c.size
          rw [hsz]
        | _ => simp [cstep, hl] at hc
      | destroy =>
        cases ob with
        | released mapped file =>
          by_cases hv : mapped = false ∧ file = false
          · simp only [cstep, hl, hv, and_self, if_true, Bool.true_eq_false, if_false, Option.some.injEq] at hc
            subst hc
            exact ⟨dead, by simp [Spec.Mirrored.step, hsl, hv], R2_dead⟩
          · simp [cstep, hl, hv] at hc
        | _ => simp [cstep, hl] at hc

end Sonic.Props.C11
