/-
`AcctInv` (pending accounting) is preserved by every transition of the loop model.
-/
import Sonic.Lemmas.LoopInv

namespace Sonic.Model.Loop
open Sonic.Spec.Loop (Ev Ret Res OpKind ObjKind maxDispatch)

theorem applyAfter_acct (w : World) (op : Nat) (a : After) (rest : List K)
    (hI : AcctInv { w with stack := .user op a :: rest }) :
    AcctInv (applyAfter { w with stack := rest } op a) := by
  have hn := hI.1
  cases a with
  | none =>
    exact acct_finish hI (Bal.refl _ hn) 0 rfl (by simp [applyAfter]) (by simp [applyAfter, postFrames])
  | decDisp =>
    exact acct_finish hI (Bal.refl _ hn) 0 rfl (by simp [applyAfter]) (by simp [applyAfter, postFrames])
  | postDone =>
    exact acct_finish hI (Bal.refl _ hn) (-1) rfl (by simp [applyAfter]; omega) (by simp [applyAfter, postFrames]; omega)
  | timerDone k rep cb =>
    simp only [applyAfter]
    cases hg : getObj { w with stack := rest } k with
    | none => exact acct_finish hI (Bal.refl _ hn) 0 rfl (by simp) (by simp [postFrames])
    | some o =>
      simp only
      have hid := getObj_id hg
      have hg' : getObj { w with stack := .user op (.timerDone k rep cb) :: rest } o.id = some o := by rw [hid]; exact hg
      repeat' split
      all_goals first
        | exact acct_finish hI (Bal.refl _ hn) 0 rfl (by simp) (by simp [postFrames])
        | exact acct_finish hI (setObj_same_bits _ o { o with cancelled := false } hn hg' rfl (by simp [bitsOf])) 0 rfl
            (by simp [setObj]) (by simp [setObj, postFrames])
        | exact acct_finish hI (armTimer_bal _ o op true hn hg') 0 (by simp [armTimer, setObj]; split <;> rfl)
            (by simp [armTimer, setObj]; split <;> rfl) (by simp [postFrames])

theorem cancelStep_acct (w w' : World) (k : Nat) (phase : Phase) (rest : List K) (e : Ev)
    (hst : w.stack = .cancelCall k phase :: rest) (hI : AcctInv w) (h : cancelStep w k phase rest e = some w') : AcctInv w' := by
  have hn := hI.1
  unfold cancelStep at h
  cases hg : getObj w k with
  | none => simp [hg] at h
  | some o =>
    simp only [hg] at h
    have hg' : getObj w o.id = some o := by rw [getObj_id hg]; exact hg
    cases e with
    | enter op res n data early =>
      simp only at h
      split at h
      · split at h
        · cases h
          have b := delRead_bal w o hn hg'
          exact acct_finish hI b 0 rfl (by simp) (by simp [hst, postFrames])
        · cases h
      · split at h
        · split at h
          · cases h
            have b := delWrite_bal w o hn hg'
            exact acct_finish hI b 0 rfl (by simp) (by simp [hst, postFrames])
          · cases h
        · cases h
    | ret r =>
      simp only at h
      split at h
      · cases h
      · cases h
        exact acct_finish hI (Bal.refl w hn) 0 rfl (by simp) (by simp [hst, postFrames])
    | _ => simp at h

theorem pollDispatch_acct (w w' : World) (op : Nat) (any : Bool) (rest : List K)
    (hst : w.stack = .pollCall any :: rest) (hI : AcctInv w) (h : pollDispatch w op rest = some w') : AcctInv w' := by
  have hn := hI.1
  unfold pollDispatch at h
  cases hop : getOp w op with
  | none => simp [hop] at h
  | some info =>
    simp only [hop] at h
    split at h
    · -- posted handler
      repeat' split at h
      all_goals first
        | (cases h; done)
        | (cases h
           rename_i p ps hps heq
           exact acct_finish hI (Bal.refl w hn) 0 rfl (by simp) (by simp [hst, hps, postFrames]; omega))
    · cases hg : getObj w info.obj with
      | none => simp [hg] at h
      | some o =>
        simp only [hg] at h
        have hg' : getObj w o.id = some o := by rw [getObj_id hg]; exact hg
        repeat' split at h
        all_goals first
          | (cases h; done)
          | (cases h
             rename_i hcond
             have hev : o.evR = true := by
               simp only [Bool.and_eq_true] at hcond; exact hcond.1.2
             have b := setObj_bal w o { o with evR := false, tstate := .ready } hn hg' rfl (-1) (by simp [bitsOf, hev] <;> omega)
             exact acct_finish hI b 0 rfl (by simp [setObj]; omega) (by simp [hst, postFrames]))
          | (cases h; exact acct_finish hI (delRead_bal w o hn hg') 0 rfl (by simp) (by simp [hst, postFrames]))
          | (cases h; exact acct_finish hI (delWrite_bal w o hn hg') 0 rfl (by simp) (by simp [hst, postFrames]))

theorem push_acct (w : World) (k : K) (hI : AcctInv w) (hk : ∀ op, k ≠ .user op .postDone) : AcctInv (push w k) :=
  acct_finish hI (Bal.refl w hI.1) 0 rfl (by simp [push]) (by simp [push, postFrames_cons_other k _ hk])

set_option hygiene false in
/-- Close one fully split branch `h : some X = some w'` (or `none = some w'`) of an accounting case. -/
macro "acct_branch" hst:term : tactic =>
  `(tactic| first
    | (cases h; done)
    | (cases h; exact acct_finish hI (Bal.refl w hn) 0 rfl (by simp) (by simp [$hst:term, postFrames]))
    | (cases h; exact acct_finish hI (Bal.refl w hn) 1 rfl (by simp) (by simp [$hst:term, postFrames]; omega)))

/-- **Pending accounting is an invariant of the loop model.** -/
theorem step_acct (w w' : World) (e : Ev) (hI : AcctInv w) (h : step w e = some w') : AcctInv w' := by
  have hn := hI.1
  unfold step at h
  split at h
  · -- object creation
    rename_i k kind hst
    split at h
    · cases h
    · cases h
      rename_i hnone
      have hnot := getObj_none_not_mem (by simpa using hnone)
      refine ⟨?_, ?_⟩
      · simp only [ids, List.map_cons, List.nodup_cons]; exact ⟨hnot, hn⟩
      · have := hI.2
        simp only [bits, bitsOf]; simp; omega
  · -- handler returns
    rename_i op after rest op' hst
    split at h
    · cases h
      apply applyAfter_acct
      have : { w with stack := K.user op after :: rest } = w := by rw [← hst]
      rw [this]; exact hI
    · cases h
  · rename_i k phase rest hst
    exact cancelStep_acct w w' k phase rest _ hst hI h
  · -- inline callback inside a start call
    rename_i op k kind rest op' res n data early hst
    cases hg : getObj w k with
    | none => simp [hg] at h
    | some o =>
      simp only [hg] at h
      repeat' split at h
      all_goals acct_branch hst
  · -- start call returns
    rename_i op k kind completed rest r hst
    cases hg : getObj w k with
    | none =>
      simp only [hg] at h
      repeat' split at h
      all_goals acct_branch hst
    | some o =>
      simp only [hg] at h
      have hg' : getObj w o.id = some o := by rw [getObj_id hg]; exact hg
      repeat' split at h
      all_goals first
        | acct_branch hst
        | (cases h; exact acct_finish hI (setRead_bal w o op hn hg') 0 rfl (by simp) (by simp [hst, postFrames]))
        | (cases h; exact acct_finish hI (setWrite_bal w o op hn hg') 0 rfl (by simp) (by simp [hst, postFrames]))
  · -- Close
    rename_i k rest isNil hst
    cases hg : getObj w k with
    | none => simp [hg] at h
    | some o =>
      simp only [hg] at h
      have hg' : getObj w o.id = some o := by rw [getObj_id hg]; exact hg
      repeat' split at h
      all_goals first
        | acct_branch hst
        | (cases h; exact acct_finish hI (closeObj_bal w o hn hg') 0 rfl (by simp) (by
              have b := closeObj_bal w o hn hg'; rw [b.2.2.1, b.2.2.2.1]; simp [hst, postFrames]))
  · -- zero-delay ScheduleOnce runs the callback inline
    rename_i op k rep ticks rest op' res n data early hst
    cases hg : getObj w k with
    | none => simp [hg] at h
    | some o =>
      simp only [hg] at h
      have hg' : getObj w o.id = some o := by rw [getObj_id hg]; exact hg
      repeat' split at h
      all_goals first
        | acct_branch hst
        | (cases h
           exact acct_finish hI (setObj_same_bits w o { o with cancelled := false } hn hg' rfl (by simp [bitsOf])) 0 rfl
             (by simp) (by simp [hst, postFrames]))
  · -- Schedule* returns
    rename_i op k rep ticks completed rest isNil hst
    cases hg : getObj w k with
    | none => simp [hg] at h
    | some o =>
      simp only [hg] at h
      have hg' : getObj w o.id = some o := by rw [getObj_id hg]; exact hg
      repeat' split at h
      all_goals first
        | acct_branch hst
        | (cases h; exact acct_finish hI (armTimer_bal w o op rep hn hg') 0 rfl (by simp) (by simp [hst, postFrames]))
  · -- Timer.Cancel
    rename_i k rest isNil hst
    cases hg : getObj w k with
    | none => simp [hg] at h
    | some o =>
      simp only [hg] at h
      have hg' : getObj w o.id = some o := by rw [getObj_id hg]; exact hg
      repeat' split at h
      all_goals first
        | acct_branch hst
        | (cases h
           have b := setObj_bal w o { o with evR := false, cancelled := true, cancels := o.cancels + 1, tstate := .ready } hn hg' rfl
             (-(if o.evR then 1 else 0)) (by simp [bitsOf]; split <;> omega)
           exact acct_finish hI b 0 rfl (by simp [unsetPending]; omega) (by simp [hst, postFrames, unsetPending]))
  · -- Scheduled()
    rename_i k rest b hst
    cases hg : getObj w k with
    | none => simp [hg] at h
    | some o =>
      simp only [hg] at h
      repeat' split at h
      all_goals acct_branch hst
  · -- Post returns
    rename_i op rest isNil hst
    split at h
    · cases h; exact acct_finish hI (Bal.refl w hn) 1 rfl (by simp) (by simp [hst, postFrames]; omega)
    · cases h
  · -- the poller dispatches a handler
    rename_i any rest op res n data early hst
    exact pollDispatch_acct w w' op any rest hst hI h
  · rename_i any rest n res hst
    repeat' split at h
    all_goals acct_branch hst
  · rename_i any rest n hst
    repeat' split at h
    all_goals acct_branch hst
  · rename_i rest p q d hst
    repeat' split at h
    all_goals acct_branch hst
  · rename_i rest r hst
    acct_branch hst
  · -- calls made from user code
    repeat' split at h
    all_goals first
      | (cases h; done)
      | (cases h; exact push_acct w _ hI (by intro op; simp))
      | (cases h; rename_i hst; exact acct_finish hI (Bal.refl w hn) 0 rfl (by simp) (by rw [hst]; simp [postFrames]))
      | (cases h; exact acct_finish hI (Bal.refl w hn) 0 rfl (by simp) (by simp [postFrames]))

end Sonic.Model.Loop
