/-
Every label of the asynchronous WebSocket model (serialised flushes) preserves the invariant `Inv`.
-/
import Sonic.Lemmas.WsAsyncInv

namespace Sonic.Model.WsAsync

/-- The invariant of the model: serialisation (`Core`), wire order (`Wire`), and the callback ledger — every callback
handed to the API is either in the invocation log or owed exactly once; ids are not reused; at most one owed callback
is a reader, exactly when a read is outstanding. -/
structure Inv (s : St) : Prop where
  core : Core s
  wire : Wire s
  cbs : ∀ c, s.started.count c = s.log.count c + (owedList s).countP (·.1 == c)
  nodup : s.started.Nodup
  reads : (owedList s).countP (·.2) = if s.readBusy then 1 else 0

theorem init_inv : Inv {} :=
  ⟨⟨rfl, fun _ => rfl, rfl, fun _ h => by cases h⟩, ⟨fun _ => rfl, fun _ => rfl⟩, fun _ => rfl, List.nodup_nil, rfl⟩

theorem inv_of_eff {s0 s' : St} {add : List Ow} (e : Eff s0 s' add)
    (hcbs : ∀ c, s0.started.count c = s0.log.count c + ((owedList s0).countP (·.1 == c) + add.countP (·.1 == c)))
    (hnd : s0.started.Nodup)
    (hreads : (owedList s0).countP (·.2) + add.countP (·.2) = if s0.readBusy then 1 else 0) : Inv s' :=
  ⟨e.core, e.wire, fun c => by rw [e.started, e.log, e.owed]; exact hcbs c, e.started ▸ hnd,
   by rw [e.owed, e.readBusy]; exact hreads⟩

theorem owed_stack (s : St) (st : List Task) (P : Ow → Bool) :
    (owedList { s with stack := st }).countP P + (s.stack.flatMap taskCbs).countP P =
      (owedList s).countP P + (st.flatMap taskCbs).countP P := by
  simp only [owedList, wrCbs, rdCbs, List.countP_append]
  omega

/-- Changing only the control stack by entries that owe nothing keeps the invariant. -/
theorem inv_stack {s : St} (h : Inv s) (st : List Task) (hst : st.flatMap taskCbs = s.stack.flatMap taskCbs) :
    Inv { s with stack := st } := by
  have ho : ∀ P, (owedList { s with stack := st }).countP P = (owedList s).countP P := fun P => by
    have := owed_stack s st P; rw [hst] at this; omega
  exact ⟨⟨h.core.flushWr, h.core.idle, h.core.notOver, h.core.one⟩, ⟨h.wire.frames, h.wire.bytes⟩,
    fun c => by rw [ho]; exact h.cbs c, h.nodup, by rw [ho]; exact h.reads⟩

/-- A call that hands a fresh write-side callback `cb` to the library. -/
theorem begin_write_inv {s s' : St} (h : Inv s) (cb : CbId) (hnew : cb ∉ s.started)
    (e : Eff { s with stack := .ret :: s.stack, started := s.started ++ [cb] } s' [(cb, false)]) : Inv s' := by
  have h1 := inv_stack h (.ret :: s.stack) (by simp [List.flatMap_cons, taskCbs])
  refine inv_of_eff e (fun c => ?_) ?_ ?_
  · have := h1.cbs c
    simp only [List.count_append, List.count_singleton, List.countP_cons, List.countP_nil] at this ⊢
    show _ = _ + ((owedList { s with stack := Task.ret :: s.stack }).countP _ + _)
    omega
  · exact List.nodup_append.2 ⟨h.nodup, by simp, fun x hx y hy => by simp at hy; subst hy; exact fun e => hnew (e ▸ hx)⟩
  · have := h1.reads
    show (owedList { s with stack := Task.ret :: s.stack }).countP _ + _ = _
    simpa using this

/-- A call that hands a fresh read callback `cb` to the library while no read is outstanding. -/
theorem begin_read_inv {s s' : St} (h : Inv s) (cb : CbId) (hnew : cb ∉ s.started) (hrb : s.readBusy = false)
    (e : Eff { s with stack := .ret :: s.stack, started := s.started ++ [cb], readBusy := true } s' [(cb, true)]) : Inv s' := by
  have h1 := inv_stack h (.ret :: s.stack) (by simp [List.flatMap_cons, taskCbs])
  refine inv_of_eff e (fun c => ?_) ?_ ?_
  · have := h1.cbs c
    simp only [List.count_append, List.count_singleton, List.countP_cons, List.countP_nil] at this ⊢
    show _ = _ + ((owedList { s with stack := Task.ret :: s.stack }).countP _ + _)
    omega
  · exact List.nodup_append.2 ⟨h.nodup, by simp, fun x hx y hy => by simp at hy; subst hy; exact fun e => hnew (e ▸ hx)⟩
  · have h0 : (owedList { s with stack := Task.ret :: s.stack }).countP (·.2) = 0 := by
      have := h1.reads
      simp only [hrb, Bool.false_eq_true, if_false] at this
      exact this
    show (owedList { s with stack := Task.ret :: s.stack }).countP (·.2) + _ = _
    rw [h0]; rfl

theorem core_same {s s0 : St} (hc : Core s) (h1 : s0.flushing = s.flushing) (h2 : s0.wr = s.wr) (h3 : s0.waiters = s.waiters)
    (h4 : s0.overwritten = s.overwritten) : Core s0 :=
  ⟨by rw [h1, h2]; exact hc.flushWr, by rw [h1, h3]; exact hc.idle, by rw [h4]; exact hc.notOver, by rw [h2]; exact hc.one⟩

theorem wire_same {s s0 : St} (hw : Wire s) (h1 : s0.healthy = s.healthy) (h2 : s0.wire = s.wire) (h3 : s0.wr = s.wr)
    (h4 : s0.pending = s.pending) (h5 : s0.submitted = s.submitted) (h6 : s0.bytes = s.bytes) : Wire s0 :=
  ⟨by simp only [wrBuf, h1, h2, h3, h4, h5]; exact hw.frames, by simp only [wrDone, h1, h2, h3, h6]; exact hw.bytes⟩

theorem write_eff {s : St} (hc : Core s) (hw : Wire s) (f : OutFrame) (cb : CbId) :
    Eff s (if s.ws = .active then asyncFlush true (prepare s f) (.user cb) else push s [.invoke cb .cancelled false]) [(cb, false)] := by
  split
  · have h1 := prepare_eff hc hw f
    exact (h1.trans (asyncFlush_eff h1.core h1.wire (.user cb))).of_eq (by simp [contCbs])
  · exact (push_eff hc hw _).of_eq (by simp [taskCbs])

theorem beginCall_inv {s : St} (h : Inv s) (a : Action) (hok : callOk s a = true) : Inv (beginCall true s a) := by
  have hc : ∀ cb, Core { s with stack := .ret :: s.stack, started := s.started ++ [cb] } :=
    fun _ => core_same h.core rfl rfl rfl rfl
  have hw : ∀ cb, Wire { s with stack := .ret :: s.stack, started := s.started ++ [cb] } :=
    fun _ => wire_same h.wire rfl rfl rfl rfl rfl rfl
  have hcr : ∀ cb, Core { s with stack := .ret :: s.stack, started := s.started ++ [cb], readBusy := true } :=
    fun _ => core_same h.core rfl rfl rfl rfl
  have hwr : ∀ cb, Wire { s with stack := .ret :: s.stack, started := s.started ++ [cb], readBusy := true } :=
    fun _ => wire_same h.wire rfl rfl rfl rfl rfl rfl
  cases a with
  | poll => exact inv_stack h _ (by simp [List.flatMap_cons, taskCbs])
  | read cb =>
    simp only [callOk, Action.cb?, Action.isRead, Bool.and_eq_true, Bool.not_eq_true', Bool.true_and] at hok
    exact begin_read_inv h cb (by simpa using hok.1) hok.2 (asyncFlush_eff (hcr cb) (hwr cb) (.readStart cb .frame))
  | readMsg cb room =>
    simp only [callOk, Action.cb?, Action.isRead, Bool.and_eq_true, Bool.not_eq_true', Bool.true_and] at hok
    exact begin_read_inv h cb (by simpa using hok.1) hok.2 (asyncFlush_eff (hcr cb) (hwr cb) (.readStart cb (.message room false)))
  | write cb size =>
    simp only [callOk, Action.cb?, Action.isRead, Bool.not_eq_true', Bool.false_and, Bool.not_false, Bool.and_true] at hok
    exact begin_write_inv h cb (by simpa using hok) (write_eff (hc cb) (hw cb) _ cb)
  | writeTooBig cb =>
    simp only [callOk, Action.cb?, Action.isRead, Bool.not_eq_true', Bool.false_and, Bool.not_false, Bool.and_true] at hok
    exact begin_write_inv h cb (by simpa using hok) ((push_eff (hc cb) (hw cb) _).of_eq (by simp [taskCbs]))
  | writeFrame cb size =>
    simp only [callOk, Action.cb?, Action.isRead, Bool.not_eq_true', Bool.false_and, Bool.not_false, Bool.and_true] at hok
    exact begin_write_inv h cb (by simpa using hok) (write_eff (hc cb) (hw cb) _ cb)
  | flush cb =>
    simp only [callOk, Action.cb?, Action.isRead, Bool.not_eq_true', Bool.false_and, Bool.not_false, Bool.and_true] at hok
    exact begin_write_inv h cb (by simpa using hok) ((asyncFlush_eff (hc cb) (hw cb) (.user cb)).of_eq (by simp [contCbs]))
  | close cb size =>
    simp only [callOk, Action.cb?, Action.isRead, Bool.not_eq_true', Bool.false_and, Bool.not_false, Bool.and_true] at hok
    exact begin_write_inv h cb (by simpa using hok)
      ((asyncClose_eff (hc cb) (hw cb) _ (.user cb) (Or.inl ⟨cb, rfl⟩)).of_eq (by simp [contCbs]))

/-- Popping the control stack's top entry `t` (which owes `taskCbs t`) and running library code that owes `add`
instead: the ledger is kept if `add` owes the same as `t`. -/
theorem inv_replace {s s' : St} (h : Inv s) {t : Task} {rest : List Task} (hst : s.stack = t :: rest) {add : List Ow}
    (e : Eff { s with stack := rest } s' add) (hadd : ∀ P : Ow → Bool, add.countP P = (taskCbs t).countP P) : Inv s' := by
  have ho : ∀ P, (owedList { s with stack := rest }).countP P + (taskCbs t).countP P = (owedList s).countP P := fun P => by
    have := owed_stack s rest P
    rw [hst] at this
    simp only [List.flatMap_cons, List.countP_append] at this
    omega
  refine inv_of_eff e (fun c => ?_) h.nodup ?_
  · rw [hadd, ho]; exact h.cbs c
  · rw [hadd, ho]; exact h.reads

theorem rd_none_of_reader_on_stack {s : St} (h : Inv s) {cb : CbId} {t : Task} {rest : List Task} (hst : s.stack = t :: rest)
    (ht : taskCbs t = [(cb, true)]) : s.rd = none := by
  have := h.reads
  cases hrd : s.rd with
  | none => rfl
  | some p =>
    exfalso
    obtain ⟨c', k'⟩ := p
    simp [owedList, rdCbs, hrd, hst, List.flatMap_cons, ht, List.countP_append] at this
    split at this <;> omega

theorem owed_clear_wr {s s1 : St} {w : WSlot} (hwr : s.wr = some w) (h1 : s1.waiters = s.waiters) (h2 : s1.wr = none)
    (h3 : s1.rd = s.rd) (h4 : s1.stack = s.stack) (P : Ow → Bool) :
    (owedList s1).countP P + (contCbs w.k).countP P = (owedList s).countP P := by
  simp only [owedList, wrCbs, rdCbs, h1, h2, h3, h4, hwr, List.countP_append, List.countP_nil]
  omega

theorem owed_clear_rd {s s1 : St} {cb : CbId} {rk : RKind} (hrd : s.rd = some (cb, rk)) (h1 : s1.waiters = s.waiters)
    (h2 : s1.wr = s.wr) (h3 : s1.rd = none) (h4 : s1.stack = s.stack) (P : Ow → Bool) :
    (owedList s1).countP P + [((cb, true) : Ow)].countP P = (owedList s).countP P := by
  simp only [owedList, wrCbs, rdCbs, h1, h2, h3, h4, hrd, List.countP_append, List.countP_nil]
  omega

/-- A reactor hands what it owed (`add`) to library code that owes the same again. -/
theorem inv_handover {s s1 s' : St} (h : Inv s) {add : List Ow} (e : Eff s1 s' add)
    (hs : s1.started = s.started) (hl : s1.log = s.log) (hr : s1.readBusy = s.readBusy)
    (ho : ∀ P : Ow → Bool, (owedList s1).countP P + add.countP P = (owedList s).countP P) : Inv s' := by
  refine inv_of_eff e (fun c => ?_) (hs ▸ h.nodup) ?_
  · rw [ho, hs, hl]; exact h.cbs c
  · rw [ho, hr]; exact h.reads

theorem step_inv {prog : CbId → List Action} {s s' : St} {l : Label} (h : Inv s) (hs : step true prog s l = some s') : Inv s' := by
  cases l with
  | call a =>
    simp only [step] at hs
    split at hs
    · split at hs
      · cases hs; exact beginCall_inv h a (by assumption)
      · cases hs
    · rename_i a' rest hst
      split at hs
      · rename_i hc
        cases hs
        exact beginCall_inv (inv_stack h rest (by rw [hst]; simp [List.flatMap_cons, taskCbs])) a hc.2
      · cases hs
    · cases hs
  | skip a =>
    simp only [step] at hs
    split at hs
    · rename_i a' rest hst
      split at hs
      · cases hs; exact inv_stack h rest (by rw [hst]; simp [List.flatMap_cons, taskCbs])
      · cases hs
    · cases hs
  | ret =>
    simp only [step] at hs
    split at hs
    · rename_i rest hst; cases hs; exact inv_stack h rest (by rw [hst]; simp [List.flatMap_cons, taskCbs])
    · rename_i rest hst; cases hs; exact inv_stack h rest (by rw [hst]; simp [List.flatMap_cons, taskCbs])
    · cases hs
  | exit cb =>
    simp only [step] at hs
    split at hs
    · rename_i cb' rest hst
      split at hs
      · cases hs; exact inv_stack h rest (by rw [hst]; simp [List.flatMap_cons, taskCbs])
      · cases hs
    · cases hs
  | ctl =>
    simp only [step] at hs
    split at hs
    · rename_i rest hst; cases hs; exact inv_stack h rest (by rw [hst]; simp [List.flatMap_cons, taskCbs])
    · cases hs
  | enter cb r =>
    simp only [step] at hs
    split at hs
    · rename_i cb' r' isRead rest hst
      split at hs
      · rename_i hcr
        cases hs
        obtain ⟨rfl, rfl⟩ := hcr
        have hpop : ∀ P : Ow → Bool, (owedList { s with stack := (prog cb).map Task.call ++ Task.exit cb :: rest }).countP P
            + (if P (cb, isRead) then 1 else 0) = (owedList s).countP P := fun P => by
          have := owed_stack s ((prog cb).map Task.call ++ Task.exit cb :: rest) P
          rw [hst] at this
          simp only [List.flatMap_cons, List.flatMap_append, calls_cbs, taskCbs, List.countP_append, List.countP_cons,
            List.countP_nil, List.nil_append] at this
          omega
        refine ⟨core_same h.core rfl rfl rfl rfl, wire_same h.wire rfl rfl rfl rfl rfl rfl, fun c => ?_, h.nodup, ?_⟩
        · have h1 := h.cbs c
          have h2 := hpop (·.1 == c)
          show s.started.count c = (s.log ++ [cb]).count c + (owedList { s with stack := _ }).countP _
          simp only [List.count_append, List.count_singleton] at *
          omega
        · have h1 := h.reads
          have h2 := hpop (·.2)
          show (owedList { s with stack := _ }).countP (·.2) = if (if isRead then false else s.readBusy) then 1 else 0
          cases isRead with
          | false =>
            simp only [Bool.false_eq_true, if_false, Nat.add_zero] at h2 ⊢
            rw [h2]; exact h1
          | true =>
            simp only [if_true, Bool.false_eq_true, if_false] at h2 ⊢
            split at h1 <;> omega
      · cases hs
    · cases hs
  | tau =>
    simp only [step] at hs
    split at hs
    · rename_i cb rk ok rest hst
      cases hs
      have hrd := rd_none_of_reader_on_stack (cb := cb) h hst (by simp [taskCbs])
      exact inv_replace h hst
        (resumeRead_eff (s := { s with stack := rest }) (core_same h.core rfl rfl rfl rfl)
          (wire_same h.wire rfl rfl rfl rfl rfl rfl) hrd cb rk ok)
        (fun P => by simp [taskCbs])
    · rename_i cb rk rest hst
      cases hs
      exact inv_replace h hst
        (asyncFlush_eff (s := { s with stack := rest }) (core_same h.core rfl rfl rfl rfl)
          (wire_same h.wire rfl rfl rfl rfl rfl rfl) (.readStart cb rk))
        (fun P => by simp [taskCbs, contCbs])
    · cases hs
  | wrote n =>
    simp only [step] at hs
    split at hs
    · rename_i rest w hst hwr
      have hfl : s.flushing = true := by rw [h.core.flushWr, hwr]; rfl
      split at hs
      · split at hs
        · rename_i hle heq
          cases hs
          -- the buffer is complete: the frame is on the wire, asyncFlush goes on
          have hwire : Wire { s with bytes := s.bytes ++ ((bufBytes w.buf).drop w.sofar).take n, wr := none, wire := s.wire ++ w.buf } := by
            constructor
            · intro hh
              have := h.wire.frames hh
              simp only [wrBuf, hwr] at this
              simpa [wrBuf] using this
            · intro hh
              have := h.wire.bytes hh
              simp only [wrDone, hwr] at this
              show s.bytes ++ _ = bufBytes (s.wire ++ w.buf) ++ wrDone _
              rw [this, bufBytes_append, List.append_assoc, ← List.take_add, heq, List.take_of_length_le (by rw [bufBytes_length]; exact Nat.le_refl _)]
              simp [wrDone]
          exact inv_handover h (asyncFlushGo_eff (s := { s with bytes := _, wr := none, wire := _ }) rfl hfl h.core.notOver hwire w.k)
            rfl rfl rfl (owed_clear_wr hwr rfl rfl rfl rfl)
        · rename_i hle hne
          cases hs
          have ho : owedList { s with bytes := s.bytes ++ ((bufBytes w.buf).drop w.sofar).take n, wr := some { w with sofar := w.sofar + n } } = owedList s := by
            simp [owedList, wrCbs, rdCbs, hwr]
          refine ⟨⟨by rw [hfl]; rfl, h.core.idle, h.core.notOver, ?_⟩, ⟨?_, ?_⟩, fun c => by rw [ho]; exact h.cbs c, h.nodup, by rw [ho]; exact h.reads⟩
          · intro w' hw'
            simp only [Option.some.injEq] at hw'
            subst hw'
            exact h.core.one w hwr
          · intro hh
            have := h.wire.frames hh
            simp only [wrBuf, hwr] at this
            simpa [wrBuf] using this
          · intro hh
            have := h.wire.bytes hh
            simp only [wrDone, hwr] at this
            show s.bytes ++ _ = bufBytes s.wire ++ (bufBytes w.buf).take (w.sofar + n)
            rw [this, List.append_assoc, ← List.take_add]
      · cases hs
    · cases hs
  | wrErr =>
    simp only [step] at hs
    split at hs
    · rename_i rest w hst hwr
      cases hs
      exact inv_handover h (flushDone_eff (s := { s with wr := none, healthy := false }) rfl h.core.notOver
          ⟨fun hh => absurd hh (by decide : ¬ (false = true)), fun hh => absurd hh (by decide : ¬ (false = true))⟩ w.k false)
        rfl rfl rfl (owed_clear_wr hwr rfl rfl rfl rfl)
    · cases hs
  | rdGot fs =>
    simp only [step] at hs
    split at hs
    · rename_i rest cb rk hst hrd
      split at hs
      · split at hs
        · cases hs; exact h
        · rename_i f more
          cases hs
          exact inv_handover h (onFrame_eff (s := { s with rd := none, inbox := more }) (core_same h.core rfl rfl rfl rfl)
              (wire_same h.wire rfl rfl rfl rfl rfl rfl) cb rk f)
            rfl rfl rfl (owed_clear_rd hrd rfl rfl rfl rfl)
      · cases hs
    · cases hs
  | rdEof =>
    simp only [step] at hs
    split at hs
    · rename_i rest cb rk hst hrd
      cases hs
      exact inv_handover h ((push_eff (s := { s with rd := none, ws := .terminated }) (core_same h.core rfl rfl rfl rfl)
          (wire_same h.wire rfl rfl rfl rfl rfl rfl) _).of_eq (by simp [taskCbs]))
        rfl rfl rfl (owed_clear_rd hrd rfl rfl rfl rfl)
    · cases hs
  | rdErr =>
    simp only [step] at hs
    split at hs
    · rename_i rest cb rk hst hrd
      cases hs
      exact inv_handover h ((push_eff (s := { s with rd := none, healthy := false }) (core_same h.core rfl rfl rfl rfl)
          ⟨fun hh => absurd hh (by decide : ¬ (false = true)), fun hh => absurd hh (by decide : ¬ (false = true))⟩ _).of_eq (by simp [taskCbs]))
        rfl rfl rfl (owed_clear_rd hrd rfl rfl rfl rfl)
    · cases hs

/-- The invariant holds in every reachable state. -/
theorem reach_inv {prog : CbId → List Action} {s : St} (h : Reach prog s) : Inv s := by
  induction h with
  | init => exact init_inv
  | step l _ hs ih => exact step_inv ih hs

end Sonic.Model.WsAsync
