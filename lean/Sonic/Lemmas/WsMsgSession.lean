/-
C06, composition step 4: whole sessions.  Induction over the message list (message API) and over the frame list
(frame API) of a session, from a fresh stream whose transport holds any segmentation of the session's byte stream.
-/
import Sonic.Lemmas.WsMsgDeliver

set_option linter.unusedSimpArgs false

namespace Sonic.Lemmas.WsMsg
open Sonic.Model.WsBuf Sonic.Model.WsFrame Sonic.Spec.WsFrame Sonic.Model.WsMsg Sonic.Spec.WsMessages
open Sonic.Model.WsStream (Next Asm)
open Sonic.Spec.WsStream (Err InFrame)

/-! ## Loop bounds of the model are large enough -/

theorem encode_length_ge (f : Frame) : 2 ≤ (encode f).length := by
  unfold encode lenBytes
  simp only [List.length_cons, List.length_append]
  split
  · simp only [List.length_cons, List.length_nil]; omega
  · split <;> simp <;> omega

theorem flatMap_encode_length : ∀ (fs : List Frame), 2 * fs.length ≤ (fs.flatMap encode).length
  | [] => by simp
  | f :: r => by
    have := encode_length_ge f
    have := flatMap_encode_length r
    simp only [List.flatMap_cons, List.length_append, List.length_cons]; omega

theorem rem_length_le (w : W) : (rem w).length ≤ w.c.buf.data.length + (w.chunks.map List.length).sum := by
  unfold rem Codec.unconsumed
  rw [List.length_append, List.length_drop, List.length_flatten]
  omega

theorem frames_le_msgFuel (w : W) (fs : List Frame) (t : List UInt8) (h : rem w = fs.flatMap encode ++ t) :
    fs.length + 2 ≤ msgFuel w := by
  have h1 := rem_length_le w
  have h2 := flatMap_encode_length fs
  rw [h, List.length_append] at h1
  unfold msgFuel; omega

/-! ## One message, and the end of the session -/

/-- What the message API reports for a delivered message. -/
def asmOf (m : Sent) : Asm :=
  { ty := m.ty, n := m.payload.length, data := m.payload, cont := false, ctl := ctlSeen m.ctls }

/-- What it reports when only control frames were left. -/
def asmEnd (tail : List Ctl) : Asm := { ctl := ctlSeen tail }

theorem nextMessage_msg (async : Bool) (buf : Nat) (w : W) (m : Sent) (t : List UInt8) (hS : SInv w)
    (hm : SentOk w.m.max buf m) (hrem : rem w = m.frames.flatMap encode ++ t) :
    nextMessage async buf w = .error (.buf .env) ∨
    ∃ w', nextMessage async buf w = .ok (w', .nil, asmOf m) ∧ SInv w' ∧ w'.m.max = w.m.max ∧ rem w' = t := by
  obtain ⟨hty, hne, hmax, hbuf, hctl⟩ := hm
  have hfu := frames_le_msgFuel w m.frames t hrem
  unfold nextMessage
  rcases nm_parts async buf m.ty hty m.parts true (msgFuel w) w {} t hne hS
      (fun p hp c hc => hctl c (by unfold Sent.ctls; exact List.mem_flatMap.mpr ⟨p, hp, hc⟩))
      rfl rfl (by show 0 + m.payload.length ≤ _; omega) (by show 0 + m.payload.length ≤ _; omega) hrem
      (by unfold Sent.frames at hfu; omega) with he | ⟨w', h', S', mx', r'⟩
  · left; exact he
  · right
    refine ⟨w', ?_, S', mx', r'⟩
    rw [h']
    simp [asmOf, partsPayload, partsCtls, Sent.payload, Sent.ctls]

theorem nextMessage_end (async : Bool) (buf : Nat) (w : W) (tail : List Ctl) (hS : SInv w)
    (hctl : ∀ c ∈ tail, CtlOk w.m.max c) (hrem : rem w = (tail.map ctlFrame).flatMap encode) :
    nextMessage async buf w = .error (.buf .env) ∨
    ∃ w', nextMessage async buf w = .ok (w', .nodata, asmEnd tail) ∧ SInv w' ∧ w'.m.max = w.m.max ∧ rem w' = [] := by
  have hfu := frames_le_msgFuel w (tail.map ctlFrame) [] (by rw [hrem, List.append_nil])
  rw [List.length_map] at hfu
  obtain ⟨fuel, hf⟩ : ∃ fuel, msgFuel w = (fuel + 1) + tail.length := ⟨msgFuel w - tail.length - 1, by omega⟩
  unfold nextMessage
  rw [hf]
  rcases nm_ctls async buf tail (fuel + 1) w {} [] hS hctl (by rw [hrem, List.append_nil]) with he | ⟨w1, S1, mx1, r1, e1⟩
  · left; exact he
  rw [e1]
  rcases nextFrame_end async w1 S1 r1 with he | ⟨w2, h2, S2, mx2, r2⟩
  · left; exact nm_fail he
  · right
    refine ⟨w2, ?_, S2, by rw [mx2, mx1], r2⟩
    rw [nm_stop h2 (by intro h; cases h)]
    simp [asmEnd]

/-! ## Sessions -/

theorem wire_cons (m : Sent) (ms : List Sent) (tail : List Ctl) :
    wire { msgs := m :: ms, tail := tail } = m.frames.flatMap encode ++ wire { msgs := ms, tail := tail } := by
  unfold wire Session.frames
  simp only [List.flatMap_cons, List.flatMap_append, List.append_assoc]

theorem wire_nil (tail : List Ctl) : wire { msgs := [], tail := tail } = (tail.map ctlFrame).flatMap encode := by
  unfold wire Session.frames; simp

/-- What the message API reports over the whole session. -/
def delivered (s : Session) : List (Err × Asm) :=
  s.msgs.map (fun m => (Err.nil, asmOf m)) ++ [(Err.nodata, asmEnd s.tail)]

/-- **The message API over a whole session** (induction over the message list). -/
theorem runMsgs_session (async : Bool) (buf : Nat) : ∀ (msgs : List Sent) (tail : List Ctl) (k : Nat) (w : W), SInv w →
    InScope w.m.max buf { msgs := msgs, tail := tail } → rem w = wire { msgs := msgs, tail := tail } →
    msgs.length + 1 ≤ k →
    runMsgs async buf k w = .error (.buf .env) ∨
    ∃ w', runMsgs async buf k w = .ok (delivered { msgs := msgs, tail := tail }, w') := by
  intro msgs
  induction msgs with
  | nil =>
    intro tail k w hS hsc hrem hk
    obtain ⟨k', rfl⟩ : ∃ k', k = k' + 1 := ⟨k - 1, by simp at hk; omega⟩
    rw [wire_nil] at hrem
    unfold runMsgs
    rcases nextMessage_end async buf w tail hS hsc.2 hrem with he | ⟨w', h', _, _, _⟩
    · left; rw [he]; rfl
    · right
      rw [h']
      simp only [ebind_ok, ne_eq]
      rw [if_pos (by intro h; cases h)]
      exact ⟨w', rfl⟩
  | cons m ms ih =>
    intro tail k w hS hsc hrem hk
    obtain ⟨k', rfl⟩ : ∃ k', k = k' + 1 := ⟨k - 1, by simp at hk; omega⟩
    rw [wire_cons] at hrem
    have hm : SentOk w.m.max buf m := hsc.1 m (List.mem_cons_self ..)
    unfold runMsgs
    rcases nextMessage_msg async buf w m _ hS hm hrem with he | ⟨w1, h1, S1, mx1, r1⟩
    · left; rw [he]; rfl
    · rw [h1]
      simp only [ebind_ok, ne_eq, not_true_eq_false, if_false]
      rcases ih tail k' w1 S1 (by rw [mx1]; exact ⟨fun x hx => hsc.1 x (List.mem_cons_of_mem _ hx), hsc.2⟩) r1
        (by simp at hk ⊢; omega) with he | ⟨w', h'⟩
      · left; rw [he]; rfl
      · right
        rw [h']
        exact ⟨w', by simp [delivered]⟩

/-- **The frame API over any list of conforming frames** (induction over the frame list). -/
theorem runFrames_frames (async : Bool) : ∀ (fs : List Frame) (k : Nat) (w : W), SInv w →
    (∀ f ∈ fs, FrOk w.m.max f) → rem w = fs.flatMap encode → fs.length + 1 ≤ k →
    runFrames async k w = .error (.buf .env) ∨
    ∃ w', runFrames async k w =
      .ok (fs.map (fun f => (Err.nil, some (inFrameOf f))) ++ [(Err.nodata, none)], w') := by
  intro fs
  induction fs with
  | nil =>
    intro k w hS _ hrem hk
    obtain ⟨k', rfl⟩ : ∃ k', k = k' + 1 := ⟨k - 1, by simp at hk; omega⟩
    unfold runFrames
    rcases nextFrame_end async w hS (by simpa using hrem) with he | ⟨w', h', _, _, _⟩
    · left; rw [he]; rfl
    · right
      rw [h']
      simp only [ebind_ok, ne_eq]
      rw [if_pos (by intro h; cases h)]
      exact ⟨w', rfl⟩
  | cons f fs ih =>
    intro k w hS hok hrem hk
    obtain ⟨k', rfl⟩ : ∃ k', k = k' + 1 := ⟨k - 1, by simp at hk; omega⟩
    unfold runFrames
    rcases nextFrame_head async w f _ hS (hok f (List.mem_cons_self ..)) (by rw [hrem, List.flatMap_cons]) with he | ⟨w1, h1, S1, mx1, r1⟩
    · left; rw [he]; rfl
    · rw [h1]
      simp only [ebind_ok, ne_eq, not_true_eq_false, if_false]
      rcases ih k' w1 S1 (fun g hg => by rw [mx1]; exact hok g (List.mem_cons_of_mem _ hg)) r1 (by simp at hk ⊢; omega) with he | ⟨w', h'⟩
      · left; rw [he]; rfl
      · right
        rw [h']
        exact ⟨w', by simp⟩

/-! ## The frames of an in-scope session are conforming -/

theorem partFrames_ok (max ty : Nat) (hty : ty = 1 ∨ ty = 2) : ∀ (parts : List (List Ctl × Bytes)) (first : Bool),
    (partsPayload parts).length ≤ max → (∀ p ∈ parts, ∀ c ∈ p.1, CtlOk max c) →
    ∀ f ∈ partFrames ty first parts, FrOk max f := by
  intro parts
  induction parts with
  | nil => intro _ _ _ f hf; simp [partFrames] at hf
  | cons p rest ih =>
    intro first hlen hctl f hf
    obtain ⟨cs, b⟩ := p
    have hpay : partsPayload ((cs, b) :: rest) = b ++ partsPayload rest := by simp [partsPayload]
    rw [hpay, List.length_append] at hlen
    simp only [partFrames, List.mem_append, List.mem_map, List.mem_cons] at hf
    rcases hf with ⟨c, hc, rfl⟩ | rfl | hf
    · exact ctlFrame_ok (hctl (cs, b) (List.mem_cons_self ..) c hc)
    · refine ⟨rfl, rfl, rfl, rfl, rfl, by show b.length ≤ max; omega, Or.inl ?_⟩
      show (if first then ty else 0) = 0 ∨ (if first then ty else 0) = 1 ∨ (if first then ty else 0) = 2
      cases first
      · left; rfl
      · right; simpa using hty
    · exact ih false (by omega) (fun q hq c hc => hctl q (List.mem_cons_of_mem _ hq) c hc) f hf

theorem session_frames_ok {max buf : Nat} {s : Session} (h : InScope max buf s) : ∀ f ∈ s.frames, FrOk max f := by
  intro f hf
  unfold Session.frames at hf
  rcases List.mem_append.mp hf with hf | hf
  · obtain ⟨m, hm, hfm⟩ := List.mem_flatMap.mp hf
    obtain ⟨hty, _, hmax, _, hctl⟩ := h.1 m hm
    exact partFrames_ok max m.ty hty m.parts true hmax
      (fun p hp c hc => hctl c (by unfold Sent.ctls; exact List.mem_flatMap.mpr ⟨p, hp, hc⟩)) f hfm
  · obtain ⟨c, hc, rfl⟩ := List.mem_map.mp hf
    exact ctlFrame_ok (h.2 c hc)

/-- Every message has at least one frame. -/
theorem msgs_le_frames {max buf : Nat} {s : Session} (h : InScope max buf s) : s.msgs.length ≤ s.frames.length := by
  have key : ∀ (l : List Sent), (∀ m ∈ l, SentOk max buf m) → l.length ≤ (l.map fun m => m.frames.length).sum := by
    intro l
    induction l with
    | nil => intro _; simp
    | cons m r ih =>
      intro hh
      have hm := hh m (List.mem_cons_self ..)
      have hr := ih (fun x hx => hh x (List.mem_cons_of_mem _ hx))
      have : 1 ≤ m.frames.length := by
        obtain ⟨_, hne, _⟩ := hm
        unfold Sent.frames
        cases hp : m.parts with
        | nil => exact absurd hp hne
        | cons p q => rw [partFrames_length_pos]; omega
      simp only [List.map_cons, List.sum_cons, List.length_cons]; omega
  have := key s.msgs h.1
  unfold Session.frames
  rw [List.length_append, List.length_flatMap]
  omega

/-! ## Frame API and message API tell the same story -/

theorem assemble_cons (f : InFrame) (r : List InFrame) (cur : Option (Nat × Bytes)) :
    assemble (f :: r) cur =
      if Sonic.Spec.WsStream.controlOp f.op then assemble r cur
      else if f.fin then
        ((match cur with | some c => c.1 | none => f.op), (match cur with | some c => c.2 | none => []) ++ f.payload) :: assemble r none
      else assemble r (some ((match cur with | some c => c.1 | none => f.op), (match cur with | some c => c.2 | none => []) ++ f.payload)) := rfl

theorem assemble_ctls (max : Nat) : ∀ (cs : List Ctl) (rest : List InFrame) (cur : Option (Nat × Bytes)),
    (∀ c ∈ cs, CtlOk max c) → assemble ((cs.map ctlFrame).map inFrameOf ++ rest) cur = assemble rest cur := by
  intro cs
  induction cs with
  | nil => intro rest cur _; rfl
  | cons c cs ih =>
    intro rest cur h
    have hc := h c (List.mem_cons_self ..)
    have hop : Sonic.Spec.WsStream.controlOp (inFrameOf (ctlFrame c)).op = true := by
      show Sonic.Spec.WsStream.controlOp c.op = true
      rcases hc.1 with h | h <;> rw [h] <;> rfl
    simp only [List.map_cons, List.cons_append, assemble, hop, if_true]
    exact ih rest cur (fun x hx => h x (List.mem_cons_of_mem _ hx))

theorem assemble_parts (max ty : Nat) (hty : ty = 1 ∨ ty = 2) : ∀ (parts : List (List Ctl × Bytes)) (first : Bool)
    (acc : Bytes) (rest : List InFrame), parts ≠ [] → (∀ p ∈ parts, ∀ c ∈ p.1, CtlOk max c) →
    assemble ((partFrames ty first parts).map inFrameOf ++ rest) (if first then none else some (ty, acc)) =
      (ty, (if first then [] else acc) ++ partsPayload parts) :: assemble rest none := by
  intro parts
  induction parts with
  | nil => intro _ _ _ h; exact absurd rfl h
  | cons p q ih =>
    intro first acc rest _ hctl
    obtain ⟨cs, b⟩ := p
    have hpay : partsPayload ((cs, b) :: q) = b ++ partsPayload q := by simp [partsPayload]
    have hnc : Sonic.Spec.WsStream.controlOp (if first then ty else 0) = false := by
      cases first
      · rfl
      · rcases hty with h | h <;> rw [h] <;> rfl
    simp only [partFrames, List.map_append, List.map_cons, List.append_assoc, List.cons_append]
    rw [assemble_ctls max cs _ _ (fun c hc => hctl (cs, b) (List.mem_cons_self ..) c hc)]
    have hop : (inFrameOf (dataFrame (if first then ty else 0) q.isEmpty b)).op = (if first then ty else 0) := rfl
    have hfin : (inFrameOf (dataFrame (if first then ty else 0) q.isEmpty b)).fin = q.isEmpty := rfl
    have hpl : (inFrameOf (dataFrame (if first then ty else 0) q.isEmpty b)).payload = b := rfl
    rw [assemble_cons]
    simp only [hop, hfin, hpl, hnc, Bool.false_eq_true, if_false]
    cases q with
    | nil =>
      simp only [List.isEmpty_nil, if_true, partFrames, List.map_nil, List.nil_append, hpay, partsPayload, List.flatMap_nil,
        List.append_nil]
      cases first <;> simp
    | cons r q' =>
      simp only [List.isEmpty_cons, Bool.false_eq_true, if_false]
      have := ih false ((if first then [] else acc) ++ b) rest (by simp) (fun x hx c hc => hctl x (List.mem_cons_of_mem _ hx) c hc)
      simp only [Bool.false_eq_true, if_false] at this
      cases first
      · simp only [Bool.false_eq_true, if_false] at this ⊢
        rw [this, hpay, List.append_assoc]
      · simp only [if_true, List.nil_append] at this ⊢
        rw [this, hpay]

/-- Reassembling what the frame API delivers (RFC 6455 5.4) gives what the message API delivers: the same messages,
same types, same payloads, in the same order. -/
theorem assemble_session {max buf : Nat} : ∀ (msgs : List Sent) (tail : List Ctl), InScope max buf { msgs := msgs, tail := tail } →
    assemble (({ msgs := msgs, tail := tail } : Session).frames.map inFrameOf) none = msgs.map fun m => (m.ty, m.payload) := by
  intro msgs
  induction msgs with
  | nil =>
    intro tail h
    have := assemble_ctls max tail [] none h.2
    simpa [Session.frames, assemble] using this
  | cons m ms ih =>
    intro tail h
    obtain ⟨hty, hne, _, _, hctl⟩ := h.1 m (List.mem_cons_self ..)
    have hrest := ih tail ⟨fun x hx => h.1 x (List.mem_cons_of_mem _ hx), h.2⟩
    have := assemble_parts max m.ty hty m.parts true [] ((({ msgs := ms, tail := tail } : Session).frames).map inFrameOf) hne
      (fun p hp c hc => hctl c (by unfold Sent.ctls; exact List.mem_flatMap.mpr ⟨p, hp, hc⟩))
    simp only [if_true, List.nil_append] at this
    have hfr : ({ msgs := m :: ms, tail := tail } : Session).frames = m.frames ++ ({ msgs := ms, tail := tail } : Session).frames := by
      simp [Session.frames]
    rw [hfr, List.map_append]
    unfold Sent.frames
    rw [this, hrest]
    simp [Sent.payload, partsPayload]

/-! ## A fresh stream -/

theorem init_inv (max : Nat) (cap : Int) (chunks : List (List UInt8)) (rooms : List Int)
    (h : 2 * (max : Int) + 14 ≤ Go.I64MAX ∧ 14 ≤ cap ∧ cap ≤ Go.I64MAX) :
    SInv (W.init max cap chunks rooms) ∧ (W.init max cap chunks rooms).m.max = max ∧
      rem (W.init max cap chunks rooms) = chunks.flatten := by
  obtain ⟨h1, h2, h3⟩ := h
  refine ⟨⟨⟨⟨rfl, Int.le_refl _, Int.le_refl _, ?_, h3, rfl⟩, h2, h1, fun hr => by cases hr⟩, rfl, rfl⟩, rfl, ?_⟩
  · show (0 : Int) ≤ cap; omega
  · unfold rem Codec.unconsumed Codec.held W.init Codec.new
    simp [Buf.new]

end Sonic.Lemmas.WsMsg
