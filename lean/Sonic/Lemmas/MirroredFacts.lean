/-
Helper lemmas for C11: the index invariant of `Sonic.Gen.MirroredBuffer` (regenerated from
bytes/mirrored_buffer.go) and, per method, what it computes under that invariant — with the 64-bit
wrap-around discharged and Go's `%` (`Int.tmod`) turned into the mathematical `%`.
-/
import Sonic.Model.Mirrored
import Sonic.Lemmas.Ring

namespace Sonic.Props.C11
open Sonic.Gen.MirroredBuffer Sonic.Spec.Mirrored Sonic.Model.Mirrored
open Sonic.Spec.Bip (imin)

/-- Index invariant of the implementation state, for an arbitrary positive size (no power of two,
no page multiple assumed): the ring positions are inside the ring and `tail` is `used` positions
after `head`.  `2 * size` fits an `int` because the constructor has mapped `2 * size` bytes. -/
def Inv (b : MirroredBuffer) : Prop :=
  0 < b.size ∧ 2 * b.size ≤ Go.I64MAX ∧
  0 ≤ b.used ∧ b.used ≤ b.size ∧
  0 ≤ b.head ∧ b.head < b.size ∧ 0 ≤ b.tail ∧ b.tail < b.size ∧
  b.tail = (b.head + b.used) % b.size
instance (b : MirroredBuffer) : Decidable (Inv b) := by unfold Inv; exact inferInstance

theorem inv_mk (size : Int) (h0 : 0 < size) (h1 : 2 * size ≤ Go.I64MAX) : Inv (mk size) := by
  unfold Inv mk
  unfold Go.I64MAX at *
  simp only [Int.add_zero, Int.zero_emod]
  and_intros <;> first | trivial | omega

theorem add_eq {a b : Int} (h1 : Go.I64MIN ≤ a + b) (h2 : a + b ≤ Go.I64MAX) : Go.add a b = a + b :=
  Go.add_id ⟨h1, h2⟩
theorem sub_eq {a b : Int} (h1 : Go.I64MIN ≤ a - b) (h2 : a - b ≤ Go.I64MAX) : Go.sub a b = a - b :=
  Go.sub_id ⟨h1, h2⟩
theorem mul2_eq {a : Int} (h1 : 0 ≤ a) (h2 : 2 * a ≤ Go.I64MAX) : Go.mul 2 a = 2 * a := by
  unfold Go.mul; exact Go.wrap64_id ⟨by unfold Go.I64MIN; omega, h2⟩
theorem mod_eq {a b : Int} (h : 0 ≤ a) : Go.mod a b = a % b := Int.tmod_eq_emod_of_nonneg h

theorem free_facts (b : MirroredBuffer) (hi : Inv b) : b.FreeSpace = b.size - b.used := by
  unfold Inv Go.I64MAX at hi
  unfold MirroredBuffer.FreeSpace
  exact sub_eq (by unfold Go.I64MIN; omega) (by unfold Go.I64MAX; omega)

/-- `Claim n` does not change the buffer; it returns `min n free` bytes of the double mapping
starting at `tail`, or nil. -/
theorem claim_facts (b : MirroredBuffer) (n : Int) (hi : Inv b) (hn : 0 ≤ n) :
    let k := imin n (b.size - b.used)
    (b.Claim n).valid = true ∧ (b.Claim n).hi - (b.Claim n).lo = k ∧
    (0 < k → (b.Claim n).lo = b.tail) := by
  intro k
  have hk : k = if n ≤ b.size - b.used then n else b.size - b.used := rfl
  have hi0 := hi
  unfold Inv Go.I64MAX at hi0
  have hm := mul2_eq (a := b.size) (by omega) hi.2.1
  simp only [MirroredBuffer.Claim, free_facts b hi, hm]
  dsimp only [Go.View.slice, Go.View.whole, Go.View.nil]
  simp only [Option.getD_some, Option.getD_none, Bool.true_and]
  repeat' split
  all_goals (simp only [Bool.and_eq_true, decide_eq_true_eq]; and_intros <;> (intros; first | trivial | omega))

/-- `Commit n` moves `tail` forward by `k = min n free` ring positions and returns `k`. -/
theorem commit_facts (b : MirroredBuffer) (n : Int) (hi : Inv b) (hn : 0 ≤ n) :
    let k := imin n (b.size - b.used)
    b.Commit n = ({ b with used := b.used + k, tail := (b.tail + k) % b.size }, k) := by
  intro k
  have hk : k = if n ≤ b.size - b.used then n else b.size - b.used := rfl
  have hi0 := hi
  unfold Inv Go.I64MAX at hi0
  suffices h : ∀ r, b.Commit n = r →
      r = ({ b with used := b.used + k, tail := (b.tail + k) % b.size }, k) from h _ rfl
  intro r hr
  simp only [MirroredBuffer.Commit, free_facts b hi] at hr
  repeat' isplit
  all_goals subst hr
  all_goals first
    | (have hkn : k = n := by omega
       rw [hkn, add_eq (by unfold Go.I64MIN; omega) (by unfold Go.I64MAX; omega),
         add_eq (by unfold Go.I64MIN; omega) (by unfold Go.I64MAX; omega), mod_eq (by omega)])
    | (have hkf : k = b.size - b.used := by omega
       rw [hkf, add_eq (by unfold Go.I64MIN; omega) (by unfold Go.I64MAX; omega),
         add_eq (by unfold Go.I64MIN; omega) (by unfold Go.I64MAX; omega), mod_eq (by omega)])

/-- `Consume n` moves `head` forward by `k = min n used` ring positions and returns `k`. -/
theorem consume_facts (b : MirroredBuffer) (n : Int) (hi : Inv b) (hn : 0 ≤ n) :
    let k := imin n b.used
    b.Consume n = ({ b with used := b.used - k, head := (b.head + k) % b.size }, k) := by
  intro k
  have hk : k = if n ≤ b.used then n else b.used := rfl
  have hi0 := hi
  unfold Inv Go.I64MAX at hi0
  have hz : b.head % b.size = b.head := Int.emod_eq_of_lt (by omega) (by omega)
  have hb : b = { b with used := b.used - 0, head := (b.head + 0) % b.size } := by
    simp only [Int.sub_zero, Int.add_zero, hz]
  suffices h : ∀ r, b.Consume n = r →
      r = ({ b with used := b.used - k, head := (b.head + k) % b.size }, k) from h _ rfl
  intro r hr
  simp only [MirroredBuffer.Consume, MirroredBuffer.UsedSpace] at hr
  repeat' isplit
  all_goals subst hr
  all_goals first
    | (have hk0 : k = 0 := by omega
       rw [hk0]; exact Prod.ext hb rfl)
    | (have hkn : k = n := by omega
       rw [hkn, sub_eq (by unfold Go.I64MIN; omega) (by unfold Go.I64MAX; omega),
         add_eq (by unfold Go.I64MIN; omega) (by unfold Go.I64MAX; omega), mod_eq (by omega)])
    | (have hku : k = b.used := by omega
       rw [hku, sub_eq (by unfold Go.I64MIN; omega) (by unfold Go.I64MAX; omega),
         add_eq (by unfold Go.I64MIN; omega) (by unfold Go.I64MAX; omega), mod_eq (by omega)])

theorem reset_facts (b : MirroredBuffer) : b.Reset = { b with head := 0, tail := 0, used := 0 } := rfl

/-! ### The constructor's size rounding (`Model.Mirrored.roundSize`) -/

/-- An accepted request is rounded up to the next multiple of the page size. -/
theorem roundSize_facts (page req size : Int) (hp : 0 < page) (hp' : page ≤ Go.I64MAX)
    (hr : Go.InI64 req) (h : roundSize page req = some size) :
    0 < size ∧ size % page = 0 ∧ req ≤ size ∧ size < req + page ∧ size ≤ 9223372036854775807 := by
  unfold Go.InI64 Go.I64MIN Go.I64MAX at *
  unfold roundSize at h
  simp only at h
  by_cases hneg : req < 0
  · -- Go's `%` takes the sign of the dividend: a negative request is never rounded, and is rejected
    have h1 : Go.mod req page ≤ 0 := by
      have h2 : 0 ≤ Int.tmod (-req) page := Int.tmod_nonneg page (by omega)
      rw [Int.neg_tmod] at h2
      unfold Go.mod; omega
    rw [if_neg (show ¬ Go.mod req page > 0 by omega), if_pos (show req ≤ 0 by omega)] at h
    exact absurd h (by simp)
  · have hmod : Go.mod req page = req % page := mod_eq (by omega)
    have hlt : req % page < page := Int.emod_lt_of_pos req hp
    have hge : 0 ≤ req % page := Int.emod_nonneg req (by omega)
    rw [hmod] at h
    by_cases hrem : req % page > 0
    · rw [if_pos hrem, sub_eq (by unfold Go.I64MIN; omega) (by unfold Go.I64MAX; omega)] at h
      -- the addition may leave the int64 range; then the result is negative and rejected
      by_cases hov : req + (page - req % page) ≤ 9223372036854775807
      · rw [add_eq (by unfold Go.I64MIN; omega) (by unfold Go.I64MAX; omega)] at h
        by_cases hle : req + (page - req % page) ≤ 0
        · rw [if_pos hle] at h; exact absurd h (by simp)
        · rw [if_neg hle] at h
          have hs : size = req + (page - req % page) := (Option.some.inj h).symm
          refine ⟨by omega, ?_, by omega, by omega, by omega⟩
          have hd : req % page + req / page * page = req := Int.emod_add_ediv_mul req page
          have : size = (req / page + 1) * page := by rw [Int.add_mul]; omega
          rw [this, Int.mul_emod_left]
      · have hwrap : Go.add req (page - req % page) ≤ 0 := by
          unfold Go.add Go.wrap64; omega
        rw [if_pos hwrap] at h; exact absurd h (by simp)
    · rw [if_neg hrem] at h
      by_cases hle : req ≤ 0
      · rw [if_pos hle] at h; exact absurd h (by simp)
      · rw [if_neg hle] at h
        have hs : size = req := (Option.some.inj h).symm
        exact ⟨by omega, by rw [hs]; omega, by omega, by omega, by omega⟩

/-- Every positive request that can be rounded inside the `int` range is accepted. -/
theorem roundSize_accepts (page req : Int) (hp : 0 < page) (hr : 0 < req)
    (hfit : req + page ≤ 9223372036854775807) : ∃ size, roundSize page req = some size := by
  unfold roundSize
  simp only
  have hmod : Go.mod req page = req % page := mod_eq (by omega)
  have hlt : req % page < page := Int.emod_lt_of_pos req hp
  have hge : 0 ≤ req % page := Int.emod_nonneg req (by omega)
  rw [hmod]
  by_cases hrem : req % page > 0
  · rw [if_pos hrem, sub_eq (by unfold Go.I64MIN; omega) (by unfold Go.I64MAX; omega),
      add_eq (by unfold Go.I64MIN; omega) (by unfold Go.I64MAX; omega), if_neg (by omega)]
    exact ⟨_, rfl⟩
  · rw [if_neg hrem, if_neg (by omega)]
    exact ⟨_, rfl⟩

theorem mappable_facts (size : Int) (h0 : 0 < size) (h1 : size ≤ 9223372036854775807)
    (h : mappable size = true) : 2 * size ≤ Go.I64MAX := by
  unfold mappable Go.mul Go.wrap64 at h
  unfold Go.I64MAX
  simp only [decide_eq_true_eq] at h
  omega

end Sonic.Props.C11
