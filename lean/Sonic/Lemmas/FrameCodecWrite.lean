/-
The writing half of the CodecConn model: the blocking and asynchronous transport write loops and `Encode`.
-/
import Sonic.Lemmas.FrameCodecRead

namespace Sonic.Lemmas.FrameCodec
open Sonic.Spec.FrameCodec Sonic.Model.FrameCodec

/-! ## the write side -/

theorem writeLoop_spec : ∀ (plan : List Nat) (rest : Bytes) (acc : Nat),
    acc ≤ (writeLoop plan rest acc).1 ∧ (writeLoop plan rest acc).1 ≤ acc + rest.length ∧
    ((writeLoop plan rest acc).2.1 = .nil ∨ (writeLoop plan rest acc).2.1 = .wouldblock) ∧
    ((writeLoop plan rest acc).2.1 = .nil → (writeLoop plan rest acc).1 = acc + rest.length) := by
  intro plan
  induction plan with
  | nil =>
    intro rest acc
    cases rest <;> simp [writeLoop]
  | cons k plan ih =>
    intro rest acc
    cases rest with
    | nil => simp [writeLoop]
    | cons x xs =>
      unfold writeLoop
      by_cases hk : k = 0
      · simp [hk]
      · simp only [hk, if_false]
        obtain ⟨h1, h2, h3, h4⟩ := ih ((x :: xs).drop (min k (x :: xs).length)) (acc + min k (x :: xs).length)
        have hl : ((x :: xs).drop (min k (x :: xs).length)).length = (x :: xs).length - min k (x :: xs).length := List.length_drop
        refine ⟨by omega, by omega, h3, fun h => ?_⟩
        have := h4 h
        omega

theorem pumpLoop_spec : ∀ (plan : List Nat) (rest : Bytes) (done : Nat),
    done ≤ (pumpLoop plan rest done).2.1 ∧ (pumpLoop plan rest done).2.1 ≤ done + rest.length ∧
    (∀ t, (pumpLoop plan rest done).1 = some t → t = done + rest.length ∧ (pumpLoop plan rest done).2.1 = done + rest.length) ∧
    ((pumpLoop plan rest done).1 = none → (pumpLoop plan rest done).2.1 < done + rest.length) := by
  intro plan
  induction plan with
  | nil => intro rest done; simp [pumpLoop]
  | cons k plan ih =>
    intro rest done
    unfold pumpLoop
    have hl : (rest.drop (min k rest.length)).length = rest.length - min k rest.length := List.length_drop
    by_cases h1 : rest.drop (min k rest.length) = []
    · simp only [h1, if_true]
      rw [h1] at hl; simp at hl
      refine ⟨by omega, by omega, ?_, by simp⟩
      intro t ht; injection ht with ht; omega
    · simp only [h1, if_false]
      have hpos : 0 < (rest.drop (min k rest.length)).length := List.length_pos_iff.mpr h1
      by_cases h2 : min k rest.length = 0
      · simp only [h2, if_true]
        refine ⟨by omega, by omega, by simp, fun _ => by omega⟩
      · simp only [h2, if_false]
        obtain ⟨i1, i2, i3, i4⟩ := ih (rest.drop (min k rest.length)) (done + min k rest.length)
        refine ⟨by omega, by omega, ?_, ?_⟩
        · intro t ht
          obtain ⟨j1, j2⟩ := i3 t ht
          omega
        · intro hn; have := i4 hn; omega

theorem encode_big (limit slack : Nat) (b : BB) (p : Bytes) (h : p.length > limit) :
    encode limit slack b p = (b, .tooBig) := by
  unfold encode; rw [if_pos h]

theorem encode_ok (limit slack : Nat) (b : BB) (p : Bytes) (hcap : b.data.length ≤ b.cap) (hp : ¬ p.length > limit) :
    ∃ b', encode limit slack b p = (b', .ok) ∧ b'.data = b.data ++ frame p ∧ b'.ri = b.ri ∧
      b'.data.length ≤ b'.cap := by
  have hroom := reserve_room b (headerLen + p.length) slack hcap
  have e_data := reserve_data b (headerLen + p.length) slack
  have e_ri := reserve_ri b (headerLen + p.length) slack
  unfold encode
  rw [if_neg hp]
  simp only
  generalize b.reserve (headerLen + p.length) slack = bb at *
  rw [e_data]
  have h1 : ¬ bb.cap - b.data.length < headerLen := by unfold headerLen at *; omega
  have h2 : headerLen + p.length ≤ bb.cap - b.data.length := by omega
  rw [if_neg h1, if_pos h2]
  refine ⟨_, rfl, ?_, ?_, ?_⟩
  · simp [BB.append, e_data, frame]
  · simp [BB.append, e_ri]
  · simp [BB.append, e_data, be32, headerLen] at *; omega

end Sonic.Lemmas.FrameCodec
