/-
Step-by-step simulation: model transition ⇒ ledger transition, coupling kept.
-/
import Sonic.Lemmas.LoopLedgerStep

namespace Sonic.Model.Loop
open Sonic.Spec.Loop (Ev Ret Res OpKind ObjKind maxDispatch)
open Sonic.Spec.Ledger (Rec LFrame L killFrames timerOn)

abbrev lstep := Sonic.Spec.Ledger.step

theorem absOwed_eq {w w' : World} (ho : w'.objs = w.objs) (hp : w'.posts = w.posts) (hops : w'.ops = w.ops) : absOwed w' = absOwed w := by
  unfold absOwed; rw [ho, hp, hops]

/-- A fresh operation is recorded: the model's view of the ledger does not change. -/
theorem absOwed_grow {w : World} {i0 : OpInfo} (hI : LInv w) (st : List K) (hf : (getOp w i0.id).isSome = false) :
    absOwed { w with ops := i0 :: w.ops, stack := st } = absOwed w := by
  unfold absOwed
  simp only
  rw [absObjs_mono (fun x info hx => opIn_cons_fresh hf hx) w.objs hI.objs]

theorem stackRel_grow {w : World} {i0 : OpInfo} {st0 st : List K} {lst : List LFrame} (h : StackRel w st lst) :
    StackRel { w with ops := i0 :: w.ops, stack := st0 } st lst :=
  stackRel_tsame (w := w) (w' := { w with ops := i0 :: w.ops, stack := st0 }) (tsame_objs rfl) h

theorem stackRel_of_objs {w w' : World} {st : List K} {lst : List LFrame} (ho : w'.objs = w.objs) (h : StackRel w st lst) :
    StackRel w' st lst := stackRel_tsame (tsame_objs ho) h

theorem stackRel_of_tsame {w w' : World} {st : List K} {lst : List LFrame} (ht : TSame w w') (h : StackRel w st lst) :
    StackRel w' st lst := stackRel_tsame ht h

/-- Nothing but the stack (and the counters) changed. -/
theorem sim_same {w w' : World} {l l' : L} (hS : Sim w l) (ho : w'.objs = w.objs) (hp : w'.posts = w.posts) (hops : w'.ops = w.ops)
    (howed : l'.owed = l.owed) (hst : StackRel w w'.stack l'.stack) : Sim w' l' :=
  ⟨by rw [howed, absOwed_eq ho hp hops]; exact hS.owed, stackRel_tsame (tsame_objs ho) hst⟩

theorem sim_top {w : World} {l : L} (hS : Sim w l) {k : K} {rest : List K} (hst : w.stack = k :: rest) :
    ∃ f lrest, l.stack = f :: lrest ∧ FrameRel w k f ∧ StackRel w rest lrest := by
  have := hS.stack; rw [hst] at this; exact stackRel_cons this

theorem mem_absObjs {ops : List OpInfo} {r : Rec} {o : Obj} : ∀ {l : List Obj}, o ∈ l → r ∈ contrib ops o → r ∈ absObjs ops l
  | [], hm, _ => by cases hm
  | x :: rest, hm, hr => by
    simp only [absObjs]
    rcases List.mem_cons.1 hm with h | h
    · subst h; exact List.mem_append.2 (Or.inl hr)
    · exact List.mem_append.2 (Or.inr (mem_absObjs h hr))

theorem isWrite_not_isRead {k : OpKind} (h : k.isWrite = true) : k.isRead = false := by
  cases k <;> simp [OpKind.isWrite, OpKind.isRead] at h ⊢

/-- The usage precondition at the return of a starting call: no operation of the same direction is owed on the object,
so the interest is not registered yet. -/
theorem usage_no_interest {w : World} {l : L} (hS : Sim w l) (hI : LInv w) {o : Obj} {op k : Nat} {kind : OpKind} {lrest : List LFrame} {r : Ret}
    (hg : getObj w k = some o) (hnt : o.kind ≠ .timer) (hl : l.stack = .start ⟨op, k, kind⟩ false :: lrest)
    (hU : Sonic.Spec.Ledger.usageOk l (.ret r) = true) :
    (kind.isRead = true → o.evR = false) ∧ (kind.isRead = false → o.evW = false) := by
  have hid := getObj_id hg
  have hm := getObj_mem hg
  have ho := hI.objs o hm
  simp only [Sonic.Spec.Ledger.usageOk, hl, List.all_eq_true] at hU
  constructor
  · intro hrd
    cases he : o.evR with
    | false => rfl
    | true =>
      obtain ⟨info, h1, h2, h3, _, h5⟩ := ho.1 he
      have hr0 : recOf w.ops o.hR o.id ∈ absOwed w :=
        List.mem_append.2 (Or.inl (mem_absObjs hm (by unfold contrib; rw [he]; simp)))
      have := hU _ (hS.owed.mem_iff.2 hr0)
      simp only [recOf, h1, Option.map_some, Option.getD_some, hid, beq_self_eq_true, Bool.true_and] at this
      rw [h5 hnt, hrd] at this
      simp [h3] at this
  · intro hrd
    cases he : o.evW with
    | false => rfl
    | true =>
      obtain ⟨info, h1, h2, h3, h4⟩ := ho.2.1 he
      have hr0 : recOf w.ops o.hW o.id ∈ absOwed w :=
        List.mem_append.2 (Or.inl (mem_absObjs hm (by unfold contrib; rw [he]; simp)))
      have := hU _ (hS.owed.mem_iff.2 hr0)
      simp only [recOf, h1, Option.map_some, Option.getD_some, hid, beq_self_eq_true, Bool.true_and] at this
      rw [isWrite_not_isRead h4, hrd] at this
      simp [h3] at this

/-- An owed record is found by its id (records of one operation coincide). -/
theorem findOwed_of_mem {w : World} {l : L} (hS : Sim w l) (hI : LInv w) {r0 : Rec} (hmem : r0 ∈ absOwed w) :
    Sonic.Spec.Ledger.findOwed l r0.id = some r0 := by
  have hm : r0 ∈ l.owed := hS.owed.mem_iff.2 hmem
  unfold Sonic.Spec.Ledger.findOwed
  cases hf : l.owed.find? (·.id == r0.id) with
  | none =>
    have := List.find?_eq_none.1 hf r0 hm
    simp at this
  | some r1 =>
    have h1 : r1 ∈ l.owed := List.mem_of_find?_eq_some hf
    have h2 : r1.id = r0.id := by simpa using List.find?_some hf
    have c1 := absOwed_canonical hI (hS.owed.mem_iff.1 h1)
    have c0 := absOwed_canonical hI hmem
    rw [h2, c0] at c1
    have := Option.some.inj c1
    cases r0; cases r1
    simp only [OpInfo.mk.injEq] at this
    simp_all

/-- Removing one registered interest: the ledger finds the operation and the views stay permutations of each other. -/
theorem sim_remove_interest {w w1 : World} {l : L} (hA : AcctInv w) (hI : LInv w) (hS : Sim w l) {o o' : Obj} {r0 : Rec}
    (h1 : w1.objs = w.objs) (h1o : w1.ops = w.ops) (h1p : w1.posts = w.posts) (hg' : getObj w o.id = some o) (hid : o'.id = o.id)
    (hc : (contrib w.ops o).Perm (r0 :: contrib w.ops o')) (st : List K) :
    Sonic.Spec.Ledger.findOwed l r0.id = some r0 ∧ (l.owed.erase r0).Perm (absOwed { (setObj w1 o') with stack := st }) := by
  have hmem : r0 ∈ absOwed w :=
    List.mem_append.2 (Or.inl (mem_absObjs (getObj_mem hg') (hc.mem_iff.2 (List.mem_cons_self ..))))
  refine ⟨findOwed_of_mem hS hI hmem, ?_⟩
  have hrem := absObjs_remove (w := w) (w1 := w1) (o := o) (o' := o') (r := r0) h1 h1o hA.1 hg' hid hc
  have h2 : (absOwed w).Perm (r0 :: absOwed { (setObj w1 o') with stack := st }) := by
    show (absObjs w.ops w.objs ++ absPosts w.posts).Perm (r0 :: (absObjs (setObj w1 o').ops (setObj w1 o').objs ++ absPosts (setObj w1 o').posts))
    have e1 : (setObj w1 o').ops = w.ops := h1o
    have e2 : (setObj w1 o').posts = w.posts := h1p
    rw [e1, e2]
    exact List.Perm.append_right _ hrem
  have := (hS.owed.trans h2).erase r0
  simpa using this

theorem isRead_ne_timerRep {k : OpKind} (h : k.isRead = true) : k ≠ .timerRep := by
  intro e; rw [e] at h; simp [OpKind.isRead] at h

theorem isWrite_ne_timerRep {k : OpKind} (h : k.isWrite = true) : k ≠ .timerRep := by
  intro e; rw [e] at h; simp [OpKind.isWrite] at h

theorem hasCancel_not_timer {k : ObjKind} (h : hasCancel k = true) : k ≠ .timer := by
  intro e; rw [e] at h; simp [hasCancel] at h

/-- The read interest of `o` is removed and its stored handler `op` is entered (by the poller or by Cancel). -/
theorem sim_enter_read {w : World} {l : L} (hA : AcctInv w) (hI : LInv w) (hS : Sim w l) {o : Obj} {op : Nat} (hg' : getObj w o.id = some o)
    (he : o.evR = true) (hop : op = o.hR) (hnt : o.kind ≠ .timer) {a : After} (ha : ∀ k cb, a ≠ .timerDone k true cb)
    {below : K} {rest : List K} {lbelow : LFrame} {lrest : List LFrame} (hl : l.stack = lbelow :: lrest)
    (hlb : ∀ r e, lbelow ≠ .start r e) (hlb2 : ∀ r e, lbelow ≠ .sched r e)
    (hfb : ∀ w', FrameRel w' below lbelow) (hr : StackRel w rest lrest) {res : Res} {n : Int} {data : List UInt8} {early : Bool} :
    ∃ l', lstep l (.enter op res n data early) = some l' ∧ Sim { (delRead w o) with stack := .user op a :: below :: rest } l' := by
  obtain ⟨info, h1, h2, h3, _, h5⟩ := (hI.objs o (getObj_mem hg')).1 he
  have hdel : delRead w o = setObj { w with pending := w.pending - 1 } { o with evR := false, registered := o.evW } := by
    unfold delRead; rw [he]; simp
  have hc : (contrib w.ops o).Perm (recOf w.ops o.hR o.id :: contrib w.ops { o with evR := false, registered := o.evW }) := by
    unfold contrib; simp [he]
  obtain ⟨hfind, hperm⟩ := sim_remove_interest (w1 := { w with pending := w.pending - 1 }) (o' := { o with evR := false, registered := o.evW })
    hA hI hS rfl rfl rfl hg' rfl hc (.user op a :: below :: rest)
  have hkind : (recOf w.ops o.hR o.id).kind ≠ .timerRep := by
    simp only [recOf, h1, Option.map_some, Option.getD_some]; exact isRead_ne_timerRep (h5 hnt)
  refine ⟨{ owed := l.owed.erase (recOf w.ops o.hR o.id),
            stack := .handler (recOf w.ops o.hR o.id) ((recOf w.ops o.hR o.id).kind == .timerRep) :: lbelow :: lrest }, ?_, ?_, ?_⟩
  · subst hop
    have hfind' : Sonic.Spec.Ledger.findOwed l o.hR = some (recOf w.ops o.hR o.id) := hfind
    cases lbelow <;> first
      | exact absurd rfl (hlb _ _)
      | exact absurd rfl (hlb2 _ _)
      | simp [lstep, Sonic.Spec.Ledger.step, hl, hfind']
  · rw [hdel]; exact hperm
  · rw [hdel]
    have ht : TSame w (setObj { w with pending := w.pending - 1 } { o with evR := false, registered := o.evW }) :=
      tsame_setObj (w1 := { w with pending := w.pending - 1 }) rfl hg' rfl rfl rfl id Iff.rfl
    refine ⟨fr_user_plain (by rw [hop]; rfl) ha (fun hk => absurd hk hkind), hfb _, ?_⟩
    exact stackRel_of_tsame (w := w) (fun j x hx hk => ht j x hx hk) hr

/-- Same for the write interest. -/
theorem sim_enter_write {w : World} {l : L} (hA : AcctInv w) (hI : LInv w) (hS : Sim w l) {o : Obj} {op : Nat} (hg' : getObj w o.id = some o)
    (he : o.evW = true) (hop : op = o.hW) {a : After} (ha : ∀ k cb, a ≠ .timerDone k true cb)
    {below : K} {rest : List K} {lbelow : LFrame} {lrest : List LFrame} (hl : l.stack = lbelow :: lrest)
    (hlb : ∀ r e, lbelow ≠ .start r e) (hlb2 : ∀ r e, lbelow ≠ .sched r e)
    (hfb : ∀ w', FrameRel w' below lbelow) (hr : StackRel w rest lrest) {res : Res} {n : Int} {data : List UInt8} {early : Bool} :
    ∃ l', lstep l (.enter op res n data early) = some l' ∧ Sim { (delWrite w o) with stack := .user op a :: below :: rest } l' := by
  obtain ⟨info, h1, h2, h3, h4⟩ := (hI.objs o (getObj_mem hg')).2.1 he
  have hdel : delWrite w o = setObj { w with pending := w.pending - 1 } { o with evW := false, registered := o.evR } := by
    unfold delWrite; rw [he]; simp
  have hc : (contrib w.ops o).Perm (recOf w.ops o.hW o.id :: contrib w.ops { o with evW := false, registered := o.evR }) := by
    unfold contrib; simp [he]
  obtain ⟨hfind, hperm⟩ := sim_remove_interest (w1 := { w with pending := w.pending - 1 }) (o' := { o with evW := false, registered := o.evR })
    hA hI hS rfl rfl rfl hg' rfl hc (.user op a :: below :: rest)
  have hkind : (recOf w.ops o.hW o.id).kind ≠ .timerRep := by
    simp only [recOf, h1, Option.map_some, Option.getD_some]; exact isWrite_ne_timerRep h4
  refine ⟨{ owed := l.owed.erase (recOf w.ops o.hW o.id),
            stack := .handler (recOf w.ops o.hW o.id) ((recOf w.ops o.hW o.id).kind == .timerRep) :: lbelow :: lrest }, ?_, ?_, ?_⟩
  · subst hop
    have hfind' : Sonic.Spec.Ledger.findOwed l o.hW = some (recOf w.ops o.hW o.id) := hfind
    cases lbelow <;> first
      | exact absurd rfl (hlb _ _)
      | exact absurd rfl (hlb2 _ _)
      | simp [lstep, Sonic.Spec.Ledger.step, hl, hfind']
  · rw [hdel]; exact hperm
  · rw [hdel]
    have ht : TSame w (setObj { w with pending := w.pending - 1 } { o with evW := false, registered := o.evR }) :=
      tsame_setObj (w1 := { w with pending := w.pending - 1 }) rfl hg' rfl rfl rfl id Iff.rfl
    refine ⟨fr_user_plain (by rw [hop]; rfl) ha (fun hk => absurd hk hkind), hfb _, ?_⟩
    exact stackRel_of_tsame (w := w) (fun j x hx hk => ht j x hx hk) hr

/-- Frames other than handler frames are related independently of the state. -/
theorem frameRel_nonhandler {w w' : World} {k0 : K} {f : LFrame} (hnh : ∀ r live, f ≠ .handler r live) (hf : FrameRel w k0 f) :
    FrameRel w' k0 f := by
  cases k0 with
  | user op a =>
    obtain ⟨r, live, he, _⟩ := fr_user hf
    exact absurd he (hnh r live)
  | _ => cases f <;> first | exact hf | exact absurd rfl (hnh _ _)

/-- Close / Cancel of timer `k`: every running repeating callback of `k` stops repeating, in the model (the counter moved or the
timer is closed) and in the ledger (`killFrames`). -/
theorem stackRel_kill {w w' : World} {k : Nat}
    (hk : ∀ o, getObj w k = some o → o.kind = .timer → ∃ o', getObj w' k = some o' ∧ o'.kind = .timer ∧ o.cancels ≤ o'.cancels ∧
       (o'.cancelled = true → o.cancels < o'.cancels ∨ (o.cancelled = true ∧ o'.cancels = o.cancels)) ∧
       (o.cancels < o'.cancels ∨ o'.tstate = .closed))
    (hother : ∀ j o, j ≠ k → getObj w j = some o → o.kind = .timer → ∃ o', getObj w' j = some o' ∧ o'.kind = .timer ∧
       o'.cancels = o.cancels ∧ (o'.cancelled = true → o.cancelled = true) ∧ (o'.tstate = .closed ↔ o.tstate = .closed)) :
    ∀ {st : List K} {lst : List LFrame}, StackRel w st lst → StackRel w' st (killFrames k lst)
  | [], [], _ => trivial
  | [], _ :: _, hs => hs.elim
  | _ :: _, [], hs => hs.elim
  | k0 :: ks, f :: fs, hs => by
    have ih := stackRel_kill hk hother hs.2
    have hf := hs.1
    cases f with
    | handler r live =>
      simp only [killFrames]
      refine ⟨?_, ih⟩
      cases k0 with
      | user op a =>
        obtain ⟨r', live', he, hid, hcase⟩ := fr_user hf
        cases he
        rcases hcase with ⟨j, cb, ha, hr, hlive⟩ | ⟨ha, hkk⟩
        · subst ha
          subst hr
          obtain ⟨o, hg, hkt, h1, h2, h3⟩ := hlive
          by_cases hj : j = k
          · subst hj
            obtain ⟨o', hg', hkt', hc1, hc2, hc3⟩ := hk o hg hkt
            have : (live && !timerOn j ⟨op, j, .timerRep⟩) = false := by simp [timerOn, OpKind.isTimer]
            rw [this]
            refine ⟨rfl, o', hg', hkt', by omega, ?_, ?_⟩
            · intro hx
              rcases hc2 hx with h4 | ⟨h4, h5⟩
              · omega
              · have := h2 h4; omega
            · constructor
              · intro e; cases e
              · rintro ⟨e1, e2⟩
                rcases hc3 with h4 | h4
                · omega
                · exact absurd h4 e2
          · obtain ⟨o', hg', hkt', hc1, hc2, hc3⟩ := hother j o hj hg hkt
            have : (live && !timerOn k ⟨op, j, .timerRep⟩) = live := by
              have : (j == k) = false := by simpa using hj
              simp [timerOn, this]
            rw [this]
            refine ⟨rfl, o', hg', hkt', by rw [hc1]; exact h1, fun hx => by rw [hc1]; exact h2 (hc2 hx), ?_⟩
            rw [h3, hc1]
            constructor
            · rintro ⟨a, b⟩; exact ⟨a, fun e => b (hc3.1 e)⟩
            · rintro ⟨a, b⟩; exact ⟨a, fun e => b (hc3.2 e)⟩
        · exact fr_user_plain hid ha (fun hx => by rw [hkk hx]; rfl)
      | _ => exact hf.elim
    | start r e => simp only [killFrames]; exact ⟨frameRel_nonhandler (by intro r live e; cases e) hf, ih⟩
    | sched r e => simp only [killFrames]; exact ⟨frameRel_nonhandler (by intro r live e; cases e) hf, ih⟩
    | post op => simp only [killFrames]; exact ⟨frameRel_nonhandler (by intro r live e; cases e) hf, ih⟩
    | close obj => simp only [killFrames]; exact ⟨frameRel_nonhandler (by intro r live e; cases e) hf, ih⟩
    | tcancel obj => simp only [killFrames]; exact ⟨frameRel_nonhandler (by intro r live e; cases e) hf, ih⟩
    | pending => simp only [killFrames]; exact ⟨frameRel_nonhandler (by intro r live e; cases e) hf, ih⟩
    | other => simp only [killFrames]; exact ⟨frameRel_nonhandler (by intro r live e; cases e) hf, ih⟩

/-- All interests of one object go away: the ledger filters its records out. -/
theorem sim_clear_obj {w w1 : World} {l : L} (hA : AcctInv w) (hT : TimerInv w) (hI : LInv w) (hS : Sim w l) {o o' : Obj}
    (h1 : w1.objs = w.objs) (h1o : w1.ops = w.ops) (h1p : w1.posts = w.posts) (hg' : getObj w o.id = some o) (hid : o'.id = o.id)
    (hc' : contrib w.ops o' = []) (P : Rec → Bool) (hP1 : ∀ r ∈ contrib w.ops o, P r = false)
    (hP2 : ∀ r : Rec, r.obj ≠ o.id → P r = true) (hP3 : ∀ r : Rec, r.kind = .post → P r = true) (st : List K) :
    (l.owed.filter P).Perm (absOwed { (setObj w1 o') with stack := st }) := by
  have hn1 : (ids w1.objs).Nodup := by rw [h1]; exact hA.1
  have hg1 : getObj w1 o.id = some o := by unfold getObj at *; rw [h1]; exact hg'
  obtain ⟨A, B, e1, e2, e3⟩ := setObj_absObjs w1 o o' hn1 hg1 hid
  rw [h1o, h1] at e1
  rw [h1o] at e2
  have hfil : (absOwed w).filter P = absOwed { (setObj w1 o') with stack := st } := by
    show (absObjs w.ops w.objs ++ absPosts w.posts).filter P = absObjs (setObj w1 o').ops (setObj w1 o').objs ++ absPosts (setObj w1 o').posts
    have e4 : (setObj w1 o').ops = w.ops := h1o
    have e5 : (setObj w1 o').posts = w.posts := h1p
    rw [e4, e5, e2, e1, hc']
    simp only [List.filter_append, List.append_nil]
    have hA' : A.filter P = A := List.filter_eq_self.2 (fun r hr => hP2 r (e3 r (List.mem_append.2 (Or.inl hr))))
    have hB' : B.filter P = B := List.filter_eq_self.2 (fun r hr => hP2 r (e3 r (List.mem_append.2 (Or.inr hr))))
    have hC' : (contrib w.ops o).filter P = [] := List.filter_eq_nil_iff.2 (fun r hr => by rw [hP1 r hr]; simp)
    have hD' : (absPosts w.posts).filter P = absPosts w.posts := List.filter_eq_self.2 (fun r hr => by
      unfold absPosts at hr
      obtain ⟨p, _, rfl⟩ := List.mem_map.1 hr
      exact hP3 _ rfl)
    rw [hA', hB', hC', hD']; simp
  rw [← hfil]
  exact hS.owed.filter P

theorem other_setObj {w w1 : World} {o' : Obj} (h1 : w1.objs = w.objs) :
    ∀ j x, j ≠ o'.id → getObj w j = some x → x.kind = .timer → ∃ x', getObj (setObj w1 o') j = some x' ∧ x'.kind = .timer ∧
      x'.cancels = x.cancels ∧ (x'.cancelled = true → x.cancelled = true) ∧ (x'.tstate = .closed ↔ x.tstate = .closed) := by
  intro j x hj hx hk
  refine ⟨x, ?_, hk, rfl, id, Iff.rfl⟩
  rw [getObj_setObj_ne w1 o' j hj]
  unfold getObj at *; rw [h1]; exact hx

theorem other_same {w w' : World} (ho : w'.objs = w.objs) (k : Nat) :
    ∀ j x, j ≠ k → getObj w j = some x → x.kind = .timer → ∃ x', getObj w' j = some x' ∧ x'.kind = .timer ∧
      x'.cancels = x.cancels ∧ (x'.cancelled = true → x.cancelled = true) ∧ (x'.tstate = .closed ↔ x.tstate = .closed) := by
  intro j x _ hx hk
  refine ⟨x, ?_, hk, rfl, id, Iff.rfl⟩
  unfold getObj at *; rw [ho]; exact hx

/-- Records contributed by a timer object are timer operations of that object. -/
theorem contrib_timer {w : World} (hI : LInv w) (hT : TimerInv w) {o : Obj} (hm : o ∈ w.objs) (hk : o.kind = .timer) {r : Rec}
    (hr : r ∈ contrib w.ops o) : r.obj = o.id ∧ r.kind.isTimer = true ∧ r.kind ≠ .post := by
  have hto := hT o hm hk
  have ho := hI.objs o hm
  unfold contrib at hr
  rw [hto.2] at hr
  simp only [Bool.false_eq_true, if_false, List.append_nil] at hr
  split at hr
  · rename_i he
    obtain ⟨info, h1, _, h3, h4, _⟩ := ho.1 he
    simp only [List.mem_singleton] at hr
    rw [hr]
    simp only [recOf, h1, Option.map_some, Option.getD_some]
    exact ⟨trivial, h4 hk, h3⟩
  · cases hr

/-- Records contributed by any object are not posts. -/
theorem contrib_not_post {w : World} (hI : LInv w) {o : Obj} (hm : o ∈ w.objs) {r : Rec} (hr : r ∈ contrib w.ops o) :
    r.obj = o.id ∧ r.kind ≠ .post := by
  have ho := hI.objs o hm
  refine ⟨contrib_obj hr, ?_⟩
  unfold contrib at hr
  rcases List.mem_append.1 hr with h | h
  · split at h
    · rename_i he
      obtain ⟨info, h1, _, h3, _⟩ := ho.1 he
      simp only [List.mem_singleton] at h
      rw [h]; simp only [recOf, h1, Option.map_some, Option.getD_some]; exact h3
    · cases h
  · split at h
    · rename_i he
      obtain ⟨info, h1, _, h3, _⟩ := ho.2.1 he
      simp only [List.mem_singleton] at h
      rw [h]; simp only [recOf, h1, Option.map_some, Option.getD_some]; exact h3
    · cases h

/-- No handler frame in the ledger's stack: no user frame in the model's, in particular no running posted handler. -/
theorem postFrames_of_quiet {w : World} : ∀ {st : List K} {lst : List LFrame}, StackRel w st lst →
    Sonic.Spec.Ledger.quiet lst = true → postFrames st = 0
  | [], [], _, _ => rfl
  | [], _ :: _, hs, _ => hs.elim
  | _ :: _, [], hs, _ => hs.elim
  | k0 :: ks, f :: fs, hs, hq => by
    simp only [Sonic.Spec.Ledger.quiet, List.any_cons, Bool.not_or, Bool.and_eq_true, Bool.not_eq_true'] at hq
    have ih := postFrames_of_quiet hs.2 (by simp only [Sonic.Spec.Ledger.quiet, hq.2]; rfl)
    cases k0 with
    | user op a =>
      obtain ⟨r, live, he, _⟩ := fr_user hs.1
      rw [he] at hq; simp [Sonic.Spec.Ledger.isHandler] at hq
    | _ => simpa [postFrames] using ih

/-- The posts among the model's view of the ledger are exactly the queued posts. -/
theorem absOwed_posts {w : World} (hI : LInv w) (hT : TimerInv w) :
    ((absOwed w).filter (·.kind == .post)).length = w.posts.length := by
  unfold absOwed
  rw [List.filter_append]
  have h1 : (absObjs w.ops w.objs).filter (·.kind == .post) = [] := by
    apply List.filter_eq_nil_iff.2
    intro r hr
    have := (absObjs_kind hI.objs hT hr).1
    simpa using this
  have h2 : (absPosts w.posts).filter (·.kind == .post) = absPosts w.posts := by
    apply List.filter_eq_self.2
    intro r hr
    unfold absPosts at hr
    obtain ⟨p, _, rfl⟩ := List.mem_map.1 hr
    rfl
  rw [h1, h2]; simp [absPosts]

/-- Whether a schedule is armed on timer `k`, read off the ledger. -/
theorem owed_any_timer {w : World} {l : L} (hA : AcctInv w) (hT : TimerInv w) (hI : LInv w) (hS : Sim w l) {k : Nat} {o : Obj}
    (hg : getObj w k = some o) (hkt : o.kind = .timer) : l.owed.any (timerOn k) = o.evR := by
  have hid := getObj_id hg
  have hg' : getObj w o.id = some o := by rw [hid]; exact hg
  have hm := getObj_mem hg
  rw [hS.owed.any_eq]
  obtain ⟨A, B, e1, _, e3⟩ := setObj_absObjs w o o hA.1 hg' rfl
  have hA' : A.any (timerOn k) = false := by
    apply List.any_eq_false.2
    intro r hr
    have := e3 r (List.mem_append.2 (Or.inl hr))
    have : (r.obj == k) = false := by rw [← hid]; simpa using this
    simp [timerOn, this]
  have hB' : B.any (timerOn k) = false := by
    apply List.any_eq_false.2
    intro r hr
    have := e3 r (List.mem_append.2 (Or.inr hr))
    have : (r.obj == k) = false := by rw [← hid]; simpa using this
    simp [timerOn, this]
  have hP' : (absPosts w.posts).any (timerOn k) = false := by
    apply List.any_eq_false.2
    intro r hr
    unfold absPosts at hr
    obtain ⟨p, _, rfl⟩ := List.mem_map.1 hr
    simp [timerOn, OpKind.isTimer]
  have hto := hT o hm hkt
  have hC' : (contrib w.ops o).any (timerOn k) = o.evR := by
    cases he : o.evR with
    | false => unfold contrib; simp [he, hto.2]
    | true =>
      apply List.any_eq_true.2
      have hne : contrib w.ops o ≠ [] := by unfold contrib; simp [he]
      obtain ⟨r, hr⟩ := List.exists_mem_of_ne_nil _ hne
      obtain ⟨h1, h2, _⟩ := contrib_timer hI hT hm hkt hr
      exact ⟨r, hr, by simp [timerOn, h1, hid, h2]⟩
  unfold absOwed
  rw [e1]
  simp only [List.any_append, hA', hB', hP', hC', Bool.false_or, Bool.or_false]

theorem applyAfter_plain (w0 : World) (op : Nat) {a : After} (ha : ∀ k cb, a ≠ .timerDone k true cb) :
    (applyAfter w0 op a).objs = w0.objs ∧ (applyAfter w0 op a).posts = w0.posts ∧ (applyAfter w0 op a).ops = w0.ops ∧
    (applyAfter w0 op a).stack = w0.stack := by
  cases a with
  | none => exact ⟨rfl, rfl, rfl, rfl⟩
  | decDisp => exact ⟨rfl, rfl, rfl, rfl⟩
  | postDone => exact ⟨rfl, rfl, rfl, rfl⟩
  | timerDone k rep cb =>
    cases rep with
    | true => exact absurd rfl (ha k cb)
    | false =>
      simp only [applyAfter]
      cases getObj w0 k <;> simp

set_option hygiene false in
/-- a call returns, nothing else changes: the ledger frame `f` is one that `ret` simply pops -/
macro "sim_pop" hfr:term : tactic =>
  `(tactic| (obtain ⟨f, lrest, hl, hf, hr⟩ := sim_top hS hst
             have hf' := $hfr hf
             subst hf'
             cases h
             refine ⟨{ l with stack := lrest }, ?_, sim_same hS rfl rfl rfl rfl hr⟩
             simp only [lstep, Sonic.Spec.Ledger.step, hl]))

theorem step_sim (w w' : World) (l : L) (e : Ev) (hA : AcctInv w) (hT : TimerInv w) (hI : LInv w) (hS : Sim w l)
    (hU : Sonic.Spec.Ledger.usageOk l e = true) (h : step w e = some w') : ∃ l', lstep l e = some l' ∧ Sim w' l' := by
  unfold step at h
  split at h
  · -- object creation
    rename_i k kind hst
    repeat' split at h
    all_goals first
      | (cases h; done)
      | (cases h
         refine ⟨l, rfl, ?_, ?_⟩
         · have : absOwed { w with objs := { id := k, kind := kind } :: w.objs } = absOwed w := by
             simp [absOwed, absObjs, contrib]
           rw [this]; exact hS.owed
         · have h0 := hS.stack
           rw [hst] at h0
           rw [stackRel_nil h0]
           show StackRel _ w.stack []
           rw [hst]; trivial)
  · -- a handler returns
    rename_i op after rest op' hst
    obtain ⟨f, lrest, hl, hf, hr⟩ := sim_top hS hst
    obtain ⟨r, live, he, hrid, hcase⟩ := fr_user hf
    subst he
    split at h
    · rename_i hop
      have hop' : op = op' := by simpa using hop
      subst hop'
      cases h
      rcases hcase with ⟨k, cb, ha, hrr, hlive⟩ | ⟨ha, hkk⟩
      · -- the callback of a repeating schedule
        subst ha
        subst hrr
        obtain ⟨o, hg, hkt, h1, h2, h3⟩ := hlive
        have hid := getObj_id hg
        have hg' : getObj w o.id = some o := by rw [hid]; exact hg
        have hm := getObj_mem hg
        have hto := hT o hm hkt
        have hany := owed_any_timer hA hT hI hS hg hkt
        have hfo : FrameOk w.ops (.user op (.timerDone k true cb)) := hI.frames _ (by rw [hst]; exact List.mem_cons_self ..)
        have hg0 : getObj { w with stack := rest } k = some o := hg
        have hk1 : (o.kind != ObjKind.timer) = false := by rw [hkt]; rfl
        simp only [applyAfter, hg0, hk1, Bool.not_true, Bool.or_self, Bool.false_eq_true, if_false]
        by_cases hc : (o.cancelled || o.cancels != cb) = true
        · -- cancelled while the callback ran: not armed again
          rw [if_pos hc]
          have hlf : live = false := by
            cases hl' : live with
            | false => rfl
            | true =>
              have := (h3.1 hl').1
              simp only [Bool.or_eq_true, bne_iff_ne, ne_eq] at hc
              rcases hc with hc | hc
              · have := h2 hc; omega
              · exact absurd this hc
          subst hlf
          refine ⟨{ l with stack := lrest }, ?_, ?_, ?_⟩
          · simp [lstep, Sonic.Spec.Ledger.step, hl]
          · show l.owed.Perm (absObjs w.ops (setObj { w with stack := rest } { o with cancelled := false }).objs ++ absPosts w.posts)
            rw [absObjs_same (w := w) (w1 := { w with stack := rest }) (o := o) (o' := { o with cancelled := false }) rfl rfl hA.1 hg' rfl rfl]
            exact hS.owed
          · have ht : TSame w (setObj { w with stack := rest } { o with cancelled := false }) :=
              tsame_setObj (w1 := { w with stack := rest }) rfl hg' rfl rfl rfl (fun hx => by cases hx) Iff.rfl
            exact stackRel_of_tsame (w := w) (fun j x hx hk => ht j x hx hk) hr
        · rw [if_neg hc]
          simp only [Bool.or_eq_true, bne_iff_ne, ne_eq, not_or, Bool.not_eq_true, Decidable.not_not] at hc
          obtain ⟨hcf, hcc⟩ := hc
          by_cases hrd : (o.tstate == TState.ready) = true
          · -- armed again
            rw [if_pos hrd]
            have hts : o.tstate = .ready := by simpa using hrd
            have hlt : live = true := h3.2 ⟨hcc, by rw [hts]; intro e; cases e⟩
            subst hlt
            have hev : o.evR = false := by rw [hto.1, hts]; rfl
            have hrec : recOf w.ops op o.id = ⟨op, k, .timerRep⟩ := by
              simp only [recOf, show opIn w.ops op = some _ from hfo, Option.map_some, Option.getD_some, hid]
            have harm : armTimer { w with stack := rest } o op true = setObj { w with pending := w.pending + 1, stack := rest }
                { o with evR := true, hR := op, tstate := .scheduled, cancelled := false, rep := true } := by
              unfold armTimer; rw [hev]; simp
            refine ⟨{ owed := ⟨op, k, .timerRep⟩ :: l.owed, stack := lrest }, ?_, ?_, ?_⟩
            · simp [lstep, Sonic.Spec.Ledger.step, hl, hany, hev]
            · rw [harm]
              show (_ :: l.owed).Perm (absObjs w.ops (setObj { w with pending := w.pending + 1, stack := rest }
                { o with evR := true, hR := op, tstate := .scheduled, cancelled := false, rep := true }).objs ++ absPosts w.posts)
              have hadd := absObjs_add (w := w) (w1 := { w with pending := w.pending + 1, stack := rest }) (o := o)
                (o' := { o with evR := true, hR := op, tstate := .scheduled, cancelled := false, rep := true })
                (r := ⟨op, k, .timerRep⟩) rfl rfl hA.1 hg' rfl
                (by unfold contrib; simp only [hev, hto.2, hrec]; simp)
              exact (List.Perm.cons _ hS.owed).trans (List.Perm.append_right _ hadd).symm
            · rw [harm]
              have ht : TSame w (setObj { w with pending := w.pending + 1, stack := rest }
                  { o with evR := true, hR := op, tstate := .scheduled, cancelled := false, rep := true }) :=
                tsame_setObj (w1 := { w with pending := w.pending + 1, stack := rest }) rfl hg' rfl rfl rfl (fun hx => by cases hx)
                  ⟨(fun e => by cases e), (fun e => by rw [hts] at e; cases e)⟩
              exact stackRel_of_tsame (w := w) (fun j x hx hk => ht j x hx hk) hr
          · -- another schedule is armed, or the timer was closed: the repeating schedule ends
            rw [if_neg hrd]
            have hnr : o.tstate ≠ .ready := by simpa using hrd
            have hcond : (live && !(l.owed.any (timerOn k))) = false := by
              rw [hany, hto.1]
              cases hts : o.tstate with
              | ready => exact absurd hts hnr
              | scheduled => simp
              | closed =>
                have : live = false := by
                  cases hl' : live with
                  | false => rfl
                  | true => exact absurd hts (h3.1 hl').2
                simp [this]
            refine ⟨{ l with stack := lrest }, ?_, sim_same hS rfl rfl rfl rfl hr⟩
            simp only [Bool.and_eq_false_imp] at hcond
            cases hl' : live with
            | false => simp [lstep, Sonic.Spec.Ledger.step, hl, hl']
            | true =>
              have := hcond hl'
              simp only [Bool.not_eq_eq_eq_not, Bool.not_false] at this
              simp [lstep, Sonic.Spec.Ledger.step, hl, hl', this]
      · -- any other handler: nothing is armed
        obtain ⟨e1, e2, e3, e4⟩ := applyAfter_plain { w with stack := rest } op ha
        have hcond : (r.kind == .timerRep && live) = false := by
          cases hk : (r.kind == OpKind.timerRep) with
          | false => rfl
          | true => rw [hkk (by simpa using hk)]; rfl
        refine ⟨{ l with stack := lrest }, ?_, sim_same hS e1 e2 e3 rfl (by rw [e4]; exact hr)⟩
        simp [lstep, Sonic.Spec.Ledger.step, hl, hrid, hcond]
    · cases h
  · -- inside Cancel
    rename_i e x0 e2 k phase rest hst
    obtain ⟨f, lrest, hl, hf, hr⟩ := sim_top hS hst
    have hf' := fr_cancel hf
    subst hf'
    unfold cancelStep at h
    cases hg : getObj w k with
    | none => simp [hg] at h
    | some o =>
      simp only [hg] at h
      have hid := getObj_id hg
      have hg' : getObj w o.id = some o := by rw [hid]; exact hg
      cases e with
      | enter op res n data early =>
        simp only at h
        split at h
        · rename_i hcR
          simp only [Bool.and_eq_true, beq_iff_eq] at hcR
          split at h
          · rename_i hcond
            simp only [Bool.and_eq_true, beq_iff_eq] at hcond
            cases h
            exact sim_enter_read (below := .cancelCall k .writes) hA hI hS hg' hcR.1.2 hcond.1 (hasCancel_not_timer hcR.1.1) (by intro k cb e; cases e) hl
              (by intro r e x; cases x) (by intro r e x; cases x) (fun _ => trivial) hr
          · cases h
        · split at h
          · rename_i hcW
            simp only [Bool.and_eq_true, beq_iff_eq, bne_iff_ne] at hcW
            split at h
            · rename_i hcond
              simp only [Bool.and_eq_true, beq_iff_eq] at hcond
              cases h
              exact sim_enter_write (below := .cancelCall k .done) hA hI hS hg' hcW.1.2 hcond.1 (by intro k cb e; cases e) hl
                (by intro r e x; cases x) (by intro r e x; cases x) (fun _ => trivial) hr
            · cases h
          · cases h
      | ret r =>
        simp only at h
        split at h
        · cases h
        · cases h
          refine ⟨{ l with stack := lrest }, ?_, sim_same hS rfl rfl rfl rfl hr⟩
          simp [lstep, Sonic.Spec.Ledger.step, hl]
      | _ => simp at h
  · -- a starting call completes its operation inline (or reports a registration failure)
    rename_i op k kind rest op' res n data early hst
    obtain ⟨f, lrest, hl, hf, hr⟩ := sim_top hS hst
    have hf' := fr_start hf
    subst hf'
    by_cases hop : op = op'
    · subst hop
      cases hg : getObj w k with
      | none => simp [hg] at h
      | some o =>
        simp only [hg, bne_self_eq_false, Bool.false_eq_true, if_false] at h
        repeat' split at h
        all_goals first
          | (cases h; done)
          | (cases h
             refine ⟨{ l with stack := .handler ⟨op, k, kind⟩ false :: .start ⟨op, k, kind⟩ true :: lrest }, ?_, sim_same hS rfl rfl rfl rfl ?_⟩
             · simp [lstep, Sonic.Spec.Ledger.step, hl]
             · exact ⟨fr_user_plain rfl (by intro k cb e; cases e) (fun _ => rfl), ⟨rfl, rfl⟩, hr⟩)
    · have : (op != op') = true := by simpa using hop
      simp [this] at h
  · -- a starting call returns
    rename_i op k kind completed rest r hst
    obtain ⟨f, lrest, hl, hf, hr⟩ := sim_top hS hst
    have hf' := fr_start hf
    subst hf'
    have hfo : FrameOk w.ops (.startCall op k kind completed) := hI.frames _ (by rw [hst]; exact List.mem_cons_self ..)
    cases hc : completed with
    | true =>
      subst hc
      simp only [if_true] at h
      cases h
      refine ⟨{ l with stack := lrest }, ?_, sim_same hS rfl rfl rfl rfl hr⟩
      simp [lstep, Sonic.Spec.Ledger.step, hl]
    | false =>
      subst hc
      simp only [Bool.false_eq_true, if_false] at h
      cases hg : getObj w k with
      | none => simp [hg] at h
      | some o =>
        simp only [hg] at h
        have hid := getObj_id hg
        have hg' : getObj w o.id = some o := by rw [hid]; exact hg
        split at h
        · cases h
        · rename_i hcl
          simp only [Bool.or_eq_true, not_or, Bool.not_eq_true, beq_eq_false_iff_ne] at hcl
          have hnt : o.kind ≠ .timer := hcl.2
          have hus := usage_no_interest hS hI hg hnt hl hU
          have hrec : recOf w.ops op o.id = ⟨op, k, kind⟩ := by
            simp only [recOf, hfo.1, Option.map_some, Option.getD_some, hid]
          split at h
          · -- read direction: the interest is registered now
            rename_i hrd
            have he : o.evR = false := hus.1 hrd
            cases h
            refine ⟨{ owed := ⟨op, k, kind⟩ :: l.owed, stack := lrest }, ?_, ?_, ?_⟩
            · simp [lstep, Sonic.Spec.Ledger.step, hl]
            · have hsr : setRead w o op = setObj { w with pending := w.pending + 1 } { o with hR := op, evR := true, registered := true } := by
                unfold setRead; rw [he]; simp
              rw [hsr]
              show (⟨op, k, kind⟩ :: l.owed).Perm (absObjs w.ops (setObj { w with pending := w.pending + 1 } { o with hR := op, evR := true, registered := true }).objs ++ absPosts w.posts)
              have hadd := absObjs_add (w := w) (w1 := { w with pending := w.pending + 1 }) (o := o)
                (o' := { o with hR := op, evR := true, registered := true }) (r := ⟨op, k, kind⟩) rfl rfl hA.1 hg' rfl
                (by unfold contrib; simp only [he, hrec]; simp)
              exact (List.Perm.cons _ hS.owed).trans (List.Perm.append_right _ hadd).symm
            · have hsr : (setRead w o op).objs = (setObj { w with pending := w.pending + 1 } { o with hR := op, evR := true, registered := true }).objs := by
                unfold setRead; rw [he]; simp
              have ht : TSame w (setObj { w with pending := w.pending + 1 } { o with hR := op, evR := true, registered := true }) :=
                tsame_setObj (w1 := { w with pending := w.pending + 1 }) rfl hg' rfl rfl rfl id Iff.rfl
              refine stackRel_of_tsame (w := w) ?_ hr
              intro j x hx hk
              obtain ⟨x', h1, h2⟩ := ht j x hx hk
              exact ⟨x', by unfold getObj at h1 ⊢; rw [show (_ : World).objs = _ from hsr]; exact h1, h2⟩
          · rename_i hrd
            have hrd' : kind.isRead = false := by simpa using hrd
            have he : o.evW = false := hus.2 hrd'
            cases h
            refine ⟨{ owed := ⟨op, k, kind⟩ :: l.owed, stack := lrest }, ?_, ?_, ?_⟩
            · simp [lstep, Sonic.Spec.Ledger.step, hl]
            · have hsr : setWrite w o op = setObj { w with pending := w.pending + 1 } { o with hW := op, evW := true, registered := true } := by
                unfold setWrite; rw [he]; simp
              rw [hsr]
              show (⟨op, k, kind⟩ :: l.owed).Perm (absObjs w.ops (setObj { w with pending := w.pending + 1 } { o with hW := op, evW := true, registered := true }).objs ++ absPosts w.posts)
              have hadd := absObjs_add (w := w) (w1 := { w with pending := w.pending + 1 }) (o := o)
                (o' := { o with hW := op, evW := true, registered := true }) (r := ⟨op, k, kind⟩) rfl rfl hA.1 hg' rfl
                (by unfold contrib; simp only [he, hrec]; simp)
              exact (List.Perm.cons _ hS.owed).trans (List.Perm.append_right _ hadd).symm
            · have hsr : (setWrite w o op).objs = (setObj { w with pending := w.pending + 1 } { o with hW := op, evW := true, registered := true }).objs := by
                unfold setWrite; rw [he]; simp
              have ht : TSame w (setObj { w with pending := w.pending + 1 } { o with hW := op, evW := true, registered := true }) :=
                tsame_setObj (w1 := { w with pending := w.pending + 1 }) rfl hg' rfl rfl rfl id Iff.rfl
              refine stackRel_of_tsame (w := w) ?_ hr
              intro j x hx hk
              obtain ⟨x', h1, h2⟩ := ht j x hx hk
              exact ⟨x', by unfold getObj at h1 ⊢; rw [show (_ : World).objs = _ from hsr]; exact h1, h2⟩
  · -- Close returns
    rename_i k rest isNil hst
    obtain ⟨f, lrest, hl, hf, hr⟩ := sim_top hS hst
    have hf' := fr_close hf
    subst hf'
    cases hg : getObj w k with
    | none => simp [hg] at h
    | some o =>
      simp only [hg] at h
      have hid := getObj_id hg
      have hg' : getObj w o.id = some o := by rw [hid]; exact hg
      have hm := getObj_mem hg
      let P : Rec → Bool := fun x => !(x.obj == k && x.kind != .post)
      have hP2 : ∀ r : Rec, r.obj ≠ o.id → P r = true := by
        intro r hr; have : (r.obj == k) = false := by rw [← hid]; simpa using hr
        simp [P, this]
      have hP3 : ∀ r : Rec, r.kind = .post → P r = true := by intro r hr; simp [P, hr]
      have hP1 : ∀ r ∈ contrib w.ops o, P r = false := by
        intro r hr
        obtain ⟨h1, h2⟩ := contrib_not_post hI hm hr
        simp [P, h1, hid, h2]
      by_cases hal : (if (o.kind == ObjKind.timer) = true then false else o.closed) = true
      · -- already closed
        rw [if_pos hal] at h
        cases isNil with
        | true => simp at h
        | false =>
          simp only [Bool.false_eq_true, if_false] at h
          cases h
          refine ⟨{ l with stack := lrest }, ?_, sim_same hS rfl rfl rfl rfl hr⟩
          simp [lstep, Sonic.Spec.Ledger.step, hl]
      · rw [if_neg hal] at h
        cases isNil with
        | false => simp at h
        | true =>
          simp only [Bool.not_true, Bool.false_eq_true, if_false] at h
          by_cases hcl : (o.kind == ObjKind.timer && o.tstate == TState.closed) = true
          · -- a timer that is closed already: nothing changes
            rw [if_pos hcl] at h
            simp only [Bool.and_eq_true, beq_iff_eq] at hcl
            obtain ⟨hkt, hts⟩ := hcl
            cases h
            have hto := hT o hm hkt
            have he : o.evR = false := by rw [hto.1, hts]; rfl
            have hc0 : contrib w.ops o = [] := by unfold contrib; simp [he, hto.2]
            refine ⟨{ owed := l.owed.filter P, stack := killFrames k lrest }, ?_, ?_, ?_⟩
            · simp [lstep, Sonic.Spec.Ledger.step, hl, P]
            · have := sim_clear_obj (w1 := w) (o' := o) hA hT hI hS rfl rfl rfl hg' rfl hc0 P hP1 hP2 hP3 rest
              have e : absOwed { (setObj w o) with stack := rest } = absOwed { w with stack := rest } := by
                show absObjs w.ops (setObj w o).objs ++ absPosts w.posts = absObjs w.ops w.objs ++ absPosts w.posts
                rw [absObjs_same (w1 := w) (o := o) (o' := o) rfl rfl hA.1 hg' rfl rfl]
              rw [e] at this; exact this
            · refine stackRel_kill (w := w) (w' := { w with stack := rest }) ?_ (other_same rfl k) hr
              intro x hx hxk
              rw [hg] at hx; cases hx
              exact ⟨o, hg, hkt, Nat.le_refl _, fun hc => Or.inr ⟨hc, rfl⟩, Or.inr hts⟩
          · rw [if_neg hcl] at h
            cases h
            unfold closeObj
            split
            · -- an open timer
              rename_i hkt
              have hkt' : o.kind = .timer := by simpa using hkt
              have hto := hT o hm hkt'
              refine ⟨{ owed := l.owed.filter P, stack := killFrames k lrest }, ?_, ?_, ?_⟩
              · simp [lstep, Sonic.Spec.Ledger.step, hl, P]
              · exact sim_clear_obj (w1 := unsetPending w o) (o' := { o with evR := false, tstate := .closed }) hA hT hI hS rfl rfl rfl hg' rfl
                  (by unfold contrib; simp [hto.2]) P hP1 hP2 hP3 rest
              · refine stackRel_kill (w := w) ?_ ?_ hr
                · intro x hx hxk
                  rw [hg] at hx; cases hx
                  refine ⟨{ o with evR := false, tstate := .closed }, ?_, hkt', Nat.le_refl _, fun hc => Or.inr ⟨hc, rfl⟩, Or.inr rfl⟩
                  rw [← hid]; exact getObj_setObj_self (unsetPending w o) o _ hg' rfl
                · intro j x hj hx hxk
                  exact other_setObj (w1 := unsetPending w o) (o' := { o with evR := false, tstate := .closed }) rfl j x (by rw [show ({ o with evR := false, tstate := TState.closed } : Obj).id = k from hid]; exact hj) hx hxk
            · rename_i hkt
              have hnt : o.kind ≠ .timer := by simpa using hkt
              refine ⟨{ owed := l.owed.filter P, stack := killFrames k lrest }, ?_, ?_, ?_⟩
              · simp [lstep, Sonic.Spec.Ledger.step, hl, P]
              · exact sim_clear_obj (w1 := { w with pending := w.pending - ((if o.evR then 1 else 0) + (if o.evW then 1 else 0)) })
                  (o' := { o with evR := false, evW := false, closed := true, registered := false }) hA hT hI hS rfl rfl rfl hg' rfl
                  (by unfold contrib; simp) P hP1 hP2 hP3 rest
              · refine stackRel_kill (w := w) ?_ ?_ hr
                · intro x hx hxk
                  rw [hg] at hx; cases hx
                  exact absurd hxk hnt
                · intro j x hj hx hxk
                  exact other_setObj (w1 := { w with pending := w.pending - ((if o.evR then 1 else 0) + (if o.evW then 1 else 0)) })
                    (o' := { o with evR := false, evW := false, closed := true, registered := false }) rfl j x
                    (by rw [show ({ o with evR := false, evW := false, closed := true, registered := false } : Obj).id = k from hid]; exact hj) hx hxk
  · -- ScheduleOnce with a zero delay runs the callback inside the call
    rename_i op k rep ticks rest op' res n data early hst
    obtain ⟨f, lrest, hl, hf, hr⟩ := sim_top hS hst
    have hf' := fr_sched hf
    subst hf'
    cases hg : getObj w k with
    | none => simp [hg] at h
    | some o =>
      simp only [hg] at h
      have hid := getObj_id hg
      have hg' : getObj w o.id = some o := by rw [hid]; exact hg
      split at h
      · rename_i hc
        simp only [Bool.and_eq_true, beq_iff_eq, Bool.not_eq_true', decide_eq_true_eq] at hc
        obtain ⟨⟨⟨⟨hop, hrep⟩, _⟩, _⟩, _⟩ := hc
        subst hop
        cases h
        refine ⟨{ l with stack := .handler ⟨op, k, if rep then .timerRep else .timerOnce⟩ false :: .sched ⟨op, k, if rep then .timerRep else .timerOnce⟩ true :: lrest }, ?_, ?_, ?_⟩
        · simp [lstep, Sonic.Spec.Ledger.step, hl]
        · show l.owed.Perm (absObjs w.ops (setObj w { o with cancelled := false }).objs ++ absPosts w.posts)
          rw [absObjs_same (w1 := w) (o := o) (o' := { o with cancelled := false }) rfl rfl hA.1 hg' rfl rfl]; exact hS.owed
        · have ht : TSame w (setObj w { o with cancelled := false }) :=
            tsame_setObj (w1 := w) rfl hg' rfl rfl rfl (fun hx => by cases hx) Iff.rfl
          refine ⟨fr_user_plain rfl (by intro k cb e; cases e) (fun _ => rfl), ⟨rfl, rfl⟩, ?_⟩
          exact stackRel_of_tsame (w := w) (fun k x hx hk => ht k x hx hk) hr
      · cases h
  · -- Schedule* returns
    rename_i op k rep ticks completed rest isNil hst
    obtain ⟨f, lrest, hl, hf, hr⟩ := sim_top hS hst
    have hf' := fr_sched hf
    subst hf'
    have hfo : FrameOk w.ops (.schedCall op k rep ticks completed) := hI.frames _ (by rw [hst]; exact List.mem_cons_self ..)
    cases hg : getObj w k with
    | none => simp [hg] at h
    | some o =>
      simp only [hg] at h
      have hid := getObj_id hg
      have hg' : getObj w o.id = some o := by rw [hid]; exact hg
      cases hc : completed with
      | true =>
        subst hc
        simp only [if_true] at h
        cases isNil with
        | false => simp at h
        | true =>
          simp only [if_true] at h
          cases h
          refine ⟨{ l with stack := lrest }, ?_, sim_same hS rfl rfl rfl rfl hr⟩
          simp [lstep, Sonic.Spec.Ledger.step, hl]
      | false =>
        subst hc
        simp only [Bool.false_eq_true, if_false] at h
        split at h
        · cases isNil with
          | true => simp at h
          | false =>
            simp only [Bool.false_eq_true, if_false] at h
            cases h
            refine ⟨{ l with stack := lrest }, ?_, sim_same hS rfl rfl rfl rfl hr⟩
            simp [lstep, Sonic.Spec.Ledger.step, hl]
        · rename_i hready
          simp only [Bool.or_eq_true, not_or, Bool.not_eq_true, bne_eq_false_iff_eq] at hready
          have hts : o.tstate = .ready := hready.2
          split at h
          · cases h
          · split at h
            · rename_i hnk
              simp only [Bool.and_eq_true, beq_iff_eq] at hnk
              obtain ⟨hn, hkt⟩ := hnk
              subst hn
              have hto := hT o (getObj_mem hg) hkt
              have he : o.evR = false := by rw [hto.1, hts]; rfl
              have hrec : recOf w.ops op o.id = ⟨op, k, if rep then .timerRep else .timerOnce⟩ := by
                simp only [recOf, show opIn w.ops op = some _ from hfo, Option.map_some, Option.getD_some, hid]
              have harm : armTimer w o op rep = setObj { w with pending := w.pending + 1 }
                  { o with evR := true, hR := op, tstate := .scheduled, cancelled := false, rep := rep } := by
                unfold armTimer; rw [he]; simp
              cases h
              refine ⟨{ owed := ⟨op, k, if rep then .timerRep else .timerOnce⟩ :: l.owed, stack := lrest }, ?_, ?_, ?_⟩
              · simp [lstep, Sonic.Spec.Ledger.step, hl]
              · rw [harm]
                show (_ :: l.owed).Perm (absObjs w.ops (setObj { w with pending := w.pending + 1 }
                  { o with evR := true, hR := op, tstate := .scheduled, cancelled := false, rep := rep }).objs ++ absPosts w.posts)
                have hadd := absObjs_add (w := w) (w1 := { w with pending := w.pending + 1 }) (o := o)
                  (o' := { o with evR := true, hR := op, tstate := .scheduled, cancelled := false, rep := rep })
                  (r := ⟨op, k, if rep then .timerRep else .timerOnce⟩) rfl rfl hA.1 hg' rfl
                  (by unfold contrib; simp only [he, hto.2, hrec]; simp)
                exact (List.Perm.cons _ hS.owed).trans (List.Perm.append_right _ hadd).symm
              · rw [harm]
                have ht : TSame w (setObj { w with pending := w.pending + 1 }
                    { o with evR := true, hR := op, tstate := .scheduled, cancelled := false, rep := rep }) :=
                  tsame_setObj (w1 := { w with pending := w.pending + 1 }) rfl hg' rfl rfl rfl (fun hx => by cases hx)
                    ⟨(fun e => by cases e), (fun e => by rw [hts] at e; cases e)⟩
                exact stackRel_of_tsame (w := w) (fun j x hx hk => ht j x hx hk) hr
            · cases h
  · -- Timer.Cancel returns
    rename_i k rest isNil hst
    obtain ⟨f, lrest, hl, hf, hr⟩ := sim_top hS hst
    have hf' := fr_tcancel hf
    subst hf'
    cases hg : getObj w k with
    | none => simp [hg] at h
    | some o =>
      simp only [hg] at h
      have hid := getObj_id hg
      have hg' : getObj w o.id = some o := by rw [hid]; exact hg
      have hm := getObj_mem hg
      split at h
      · cases h
      · rename_i hc0
        have hc1 : isNil = true ∧ o.kind = .timer := by
          cases isNil <;> simp_all
        obtain ⟨hn, hkt⟩ := hc1
        subst hn
        have hto := hT o hm hkt
        let P : Rec → Bool := fun x => !(timerOn k x)
        have hP2 : ∀ r : Rec, r.obj ≠ o.id → P r = true := by
          intro r hr; have : (r.obj == k) = false := by rw [← hid]; simpa using hr
          simp [P, timerOn, this]
        have hP3 : ∀ r : Rec, r.kind = .post → P r = true := by intro r hr; simp [P, timerOn, hr, OpKind.isTimer]
        have hP1 : ∀ r ∈ contrib w.ops o, P r = false := by
          intro r hr
          obtain ⟨h1, h2, _⟩ := contrib_timer hI hT hm hkt hr
          simp [P, timerOn, h1, hid, h2]
        split at h
        · -- closed: nothing changes
          rename_i hts
          have hts' : o.tstate = .closed := by simpa using hts
          cases h
          have he : o.evR = false := by rw [hto.1, hts']; rfl
          have hcn : contrib w.ops o = [] := by unfold contrib; simp [he, hto.2]
          refine ⟨{ owed := l.owed.filter P, stack := killFrames k lrest }, ?_, ?_, ?_⟩
          · simp [lstep, Sonic.Spec.Ledger.step, hl, P]
          · have := sim_clear_obj (w1 := w) (o' := o) hA hT hI hS rfl rfl rfl hg' rfl hcn P hP1 hP2 hP3 rest
            have e : absOwed { (setObj w o) with stack := rest } = absOwed { w with stack := rest } := by
              show absObjs w.ops (setObj w o).objs ++ absPosts w.posts = absObjs w.ops w.objs ++ absPosts w.posts
              rw [absObjs_same (w1 := w) (o := o) (o' := o) rfl rfl hA.1 hg' rfl rfl]
            rw [e] at this; exact this
          · refine stackRel_kill (w := w) (w' := { w with stack := rest }) ?_ (other_same rfl k) hr
            intro x hx hxk
            rw [hg] at hx; cases hx
            exact ⟨o, hg, hkt, Nat.le_refl _, fun hc => Or.inr ⟨hc, rfl⟩, Or.inr hts'⟩
        · cases h
          refine ⟨{ owed := l.owed.filter P, stack := killFrames k lrest }, ?_, ?_, ?_⟩
          · simp [lstep, Sonic.Spec.Ledger.step, hl, P]
          · exact sim_clear_obj (w1 := unsetPending w o) (o' := { o with evR := false, cancelled := true, cancels := o.cancels + 1, tstate := .ready })
              hA hT hI hS rfl rfl rfl hg' rfl (by unfold contrib; simp [hto.2]) P hP1 hP2 hP3 rest
          · refine stackRel_kill (w := w) ?_ ?_ hr
            · intro x hx hxk
              rw [hg] at hx; cases hx
              refine ⟨{ o with evR := false, cancelled := true, cancels := o.cancels + 1, tstate := .ready }, ?_, hkt, Nat.le_succ _,
                fun _ => Or.inl (Nat.lt_succ_self _), Or.inl (Nat.lt_succ_self _)⟩
              rw [← hid]; exact getObj_setObj_self (unsetPending w o) o _ hg' rfl
            · intro j x hj hx hxk
              exact other_setObj (w1 := unsetPending w o) (o' := { o with evR := false, cancelled := true, cancels := o.cancels + 1, tstate := .ready }) rfl j x
                (by rw [show ({ o with evR := false, cancelled := true, cancels := o.cancels + 1, tstate := TState.ready } : Obj).id = k from hid]; exact hj) hx hxk
  · -- Scheduled() returns
    rename_i k rest b hst
    cases hg : getObj w k with
    | none => simp [hg] at h
    | some o =>
      simp only [hg] at h
      repeat' split at h
      all_goals first
        | (cases h; done)
        | sim_pop fr_scheduled
  · -- Post returns
    rename_i op rest isNil hst
    obtain ⟨f, lrest, hl, hf, hr⟩ := sim_top hS hst
    have hf' := fr_post hf
    subst hf'
    split at h
    · rename_i hn
      subst hn
      cases h
      refine ⟨{ owed := ⟨op, 0, .post⟩ :: l.owed, stack := lrest }, ?_, ?_, ?_⟩
      · simp [lstep, Sonic.Spec.Ledger.step, hl]
      · show (⟨op, 0, .post⟩ :: l.owed).Perm (absObjs w.ops w.objs ++ absPosts (w.posts ++ [op]))
        have : absPosts (w.posts ++ [op]) = absPosts w.posts ++ [⟨op, 0, .post⟩] := by simp [absPosts]
        rw [this, ← List.append_assoc]
        exact (List.Perm.cons _ hS.owed).trans (List.perm_append_singleton _ _).symm
      · exact stackRel_of_objs (w := w) rfl hr
    · cases h
  · -- the poller dispatches a handler
    rename_i any rest op res n data early hst
    obtain ⟨f, lrest, hl, hf, hr⟩ := sim_top hS hst
    have hf' := fr_poll hf
    subst hf'
    unfold pollDispatch at h
    cases hop : getOp w op with
    | none => simp [hop] at h
    | some info =>
      simp only [hop] at h
      have hiid : info.id = op := opIn_id hop
      split at h
      · -- a posted handler
        split at h
        · rename_i p ps hps
          split at h
          · rename_i hp
            have hp' : p = op := by simpa using hp
            subst hp'
            cases h
            have hmem : (⟨p, 0, .post⟩ : Rec) ∈ absOwed w := by
              refine List.mem_append.2 (Or.inr ?_)
              unfold absPosts; rw [hps]; simp
            have hfind := findOwed_of_mem hS hI hmem
            have hperm : (absOwed w).Perm (⟨p, 0, .post⟩ :: absOwed { w with posts := ps, stack := .user p .postDone :: .pollCall true :: rest }) := by
              show (absObjs w.ops w.objs ++ absPosts w.posts).Perm (_ :: (absObjs w.ops w.objs ++ absPosts ps))
              rw [hps]
              simp only [absPosts, List.map_cons]
              exact List.perm_middle
            refine ⟨{ owed := l.owed.erase ⟨p, 0, .post⟩, stack := .handler ⟨p, 0, .post⟩ false :: .other :: lrest }, ?_, ?_, ?_⟩
            · have hfind' : Sonic.Spec.Ledger.findOwed l p = some ⟨p, 0, .post⟩ := hfind
              simp [lstep, Sonic.Spec.Ledger.step, hl, hfind']
            · have := (hS.owed.trans hperm).erase ⟨p, 0, .post⟩
              simpa using this
            · exact ⟨fr_user_plain rfl (by intro k cb e; cases e) (fun hk => by cases hk), trivial, stackRel_of_objs (w := w) rfl hr⟩
          · cases h
        · cases h
      · cases hg : getObj w info.obj with
        | none => simp [hg] at h
        | some o =>
          simp only [hg] at h
          have hid := getObj_id hg
          have hg' : getObj w o.id = some o := by rw [hid]; exact hg
          split at h
          · -- a timer fires
            split at h
            · rename_i hisT hcond
              simp only [Bool.and_eq_true, beq_iff_eq] at hcond
              obtain ⟨⟨hkt, he⟩, hhr⟩ := hcond
              cases h
              have hto := hT o (getObj_mem hg) hkt
              have hho := hI.objs o (getObj_mem hg)
              have hcf : o.cancelled = false := hho.2.2 hkt he
              have hopr : opIn w.ops o.hR = some info := by rw [hhr]; exact hop
              have hrec : recOf w.ops o.hR o.id = ⟨op, o.id, info.kind⟩ := by
                rw [hhr]; simp only [recOf, show opIn w.ops op = some info from hop, Option.map_some, Option.getD_some]
              have hc : (contrib w.ops o).Perm (recOf w.ops o.hR o.id :: contrib w.ops { o with evR := false, tstate := .ready }) := by
                unfold contrib; simp [he, hto.2]
              obtain ⟨hfind, hperm⟩ := sim_remove_interest (w1 := { w with pending := w.pending - 1 }) (o' := { o with evR := false, tstate := .ready })
                hA hI hS rfl rfl rfl hg' rfl hc (.user op (.timerDone o.id (info.kind == OpKind.timerRep) o.cancels) :: .pollCall true :: rest)
              rw [hrec] at hfind hperm
              have hfind' : Sonic.Spec.Ledger.findOwed l op = some ⟨op, o.id, info.kind⟩ := hfind
              have ht : TSame w (setObj { w with pending := w.pending - 1 } { o with evR := false, tstate := .ready }) :=
                tsame_setObj (w1 := { w with pending := w.pending - 1 }) rfl hg' rfl rfl rfl id
                  ⟨(fun e => by cases e), (fun e => by rw [hto.1] at he; rw [e] at he; cases he)⟩
              refine ⟨{ owed := l.owed.erase ⟨op, o.id, info.kind⟩,
                        stack := .handler ⟨op, o.id, info.kind⟩ (info.kind == .timerRep) :: .other :: lrest }, ?_, hperm, ?_⟩
              · simp [lstep, Sonic.Spec.Ledger.step, hl, hfind']
              · refine ⟨?_, trivial, stackRel_of_tsame (w := w) (fun j x hx hk => ht j x hx hk) hr⟩
                cases hk : (info.kind == OpKind.timerRep) with
                | false =>
                  exact fr_user_plain rfl (by intro k cb e; cases e) (fun _ => rfl)
                | true =>
                  have hkk : info.kind = .timerRep := by simpa using hk
                  refine ⟨by rw [hkk], { o with evR := false, tstate := .ready }, ?_, hkt, Nat.le_refl _, ?_, ?_⟩
                  · exact getObj_setObj_self { w with pending := w.pending - 1 } o _ hg' rfl
                  · intro hx; rw [hcf] at hx; cases hx
                  · exact ⟨fun _ => ⟨rfl, by intro e; cases e⟩, fun _ => rfl⟩
            · cases h
          · split at h
            · cases h
            · rename_i hnk
              have hnt : o.kind ≠ .timer := by simpa using hnk
              split at h
              · split at h
                · rename_i hcond
                  simp only [Bool.and_eq_true, beq_iff_eq] at hcond
                  cases h
                  exact sim_enter_read (below := .pollCall true) hA hI hS hg' hcond.1 hcond.2.symm hnt (by intro k cb e; cases e) hl
                    (by intro r e x; cases x) (by intro r e x; cases x) (fun _ => trivial) hr
                · cases h
              · split at h
                · rename_i hcond
                  simp only [Bool.and_eq_true, beq_iff_eq] at hcond
                  cases h
                  exact sim_enter_write (below := .pollCall true) hA hI hS hg' hcond.1 hcond.2.symm (by intro k cb e; cases e) hl
                    (by intro r e x; cases x) (by intro r e x; cases x) (fun _ => trivial) hr
                · cases h
  · -- poll returns
    rename_i any rest n res hst
    repeat' split at h
    all_goals first
      | (cases h; done)
      | sim_pop fr_poll
  · rename_i any rest n hst
    repeat' split at h
    all_goals first
      | (cases h; done)
      | sim_pop fr_poll
  · -- Pending() / Posted() observed
    rename_i rest p q d hst
    obtain ⟨f, lrest, hl, hf, hr⟩ := sim_top hS hst
    have hf' := fr_pending hf
    subst hf'
    split at h
    · rename_i hc
      simp only [Bool.and_eq_true, beq_iff_eq] at hc
      obtain ⟨⟨hp, hq⟩, _⟩ := hc
      cases h
      refine ⟨{ l with stack := lrest }, ?_, sim_same hS rfl rfl rfl rfl hr⟩
      have hlen : (l.owed.length : Int) = bits w.objs + w.posts.length := by
        rw [hS.owed.length_eq]; exact absOwed_length w
      have hpo : Sonic.Spec.Ledger.postsOwed l = w.posts.length := by
        unfold Sonic.Spec.Ledger.postsOwed
        rw [(hS.owed.filter _).length_eq]; exact absOwed_posts hI hT
      by_cases hqt : Sonic.Spec.Ledger.quiet lrest = true
      · have hpf : postFrames w.stack = 0 := by
          rw [hst]; simpa [postFrames] using postFrames_of_quiet hr hqt
        have hacc := hA.2
        have h1 : p = (l.owed.length : Int) := by rw [hp, hlen]; omega
        have h2 : q = (Sonic.Spec.Ledger.postsOwed l : Int) := by rw [hq, hpo]
        simp [lstep, Sonic.Spec.Ledger.step, hl, h1, h2]
      · have : Sonic.Spec.Ledger.quiet lrest = false := by simpa using hqt
        simp [lstep, Sonic.Spec.Ledger.step, hl, this]
    · cases h
  · rename_i rest r hst
    sim_pop fr_otherc
  · -- calls made from user code
    repeat' split at h
    all_goals first
      | (cases h; done)
      | (rename_i hc
         cases h
         simp only [Bool.or_eq_true, not_or, Bool.not_eq_true] at hc
         refine ⟨_, rfl, ?_, ⟨⟨rfl, rfl⟩, stackRel_grow hS.stack⟩⟩
         rw [absOwed_grow hI _ hc.1.1]; exact hS.owed)
      | (rename_i hc hr
         cases h
         simp only [Bool.or_eq_true, not_or, Bool.not_eq_true] at hc
         refine ⟨_, rfl, ?_, ⟨⟨by simp [hr], rfl⟩, stackRel_grow hS.stack⟩⟩
         rw [absOwed_grow hI _ hc.1]; exact hS.owed)
      | (rename_i hc
         cases h
         refine ⟨_, rfl, ?_, ⟨rfl, stackRel_grow hS.stack⟩⟩
         rw [absOwed_grow hI _ (by simpa using hc)]; exact hS.owed)
      | (cases h
         exact ⟨_, rfl, sim_same hS rfl rfl rfl rfl ⟨by first | trivial | rfl, hS.stack⟩⟩)
      | (rename_i hst
         sim_pop fr_finish)

end Sonic.Model.Loop