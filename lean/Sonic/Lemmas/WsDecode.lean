/-
Facts about the model of `FrameCodec.Decode` (`Model/WsFrame.lean`) over the ByteBuffer model
(`Model/WsBuf.lean`): under the buffer invariant every checked slice/index succeeds, and `decodeBody`
has a closed form that follows the RFC parser test by test.
-/
import Sonic.Model.WsFrame
import Sonic.Lemmas.WsParse

namespace Sonic.Model.WsFrame
open Sonic.Model.WsBuf Sonic.Spec.WsFrame

@[simp] theorem ebind_ok {ε α β} (a : α) (f : α → Except ε β) : (Except.ok a >>= f) = f a := rfl
@[simp] theorem ebind_err {ε α β} (e : ε) (f : α → Except ε β) : (Except.error e >>= f) = .error e := rfl
@[simp] theorem epure {ε α} (a : α) : (pure a : Except ε α) = .ok a := rfl
@[simp] theorem ethrow {ε α} (e : ε) : (throw e : Except ε α) = .error e := rfl

/-! ## ByteBuffer -/

theorem ReadLen_eq {b : Buf} (hI : b.Inv) : b.ReadLen = .ok b.ri := by
  obtain ⟨hsi, h1, h2, h3, h4, h5⟩ := hI
  unfold Buf.ReadLen Buf.sliceLen
  rw [if_pos (by omega), hsi]; simp

theorem WriteLen_eq {b : Buf} (hI : b.Inv) : b.WriteLen = .ok (b.wi - b.ri) := by
  obtain ⟨hsi, h1, h2, h3, h4, h5⟩ := hI
  unfold Buf.WriteLen Buf.sliceLen
  rw [if_pos (by omega)]; simp

theorem SaveLen_eq {b : Buf} (hI : b.Inv) : b.SaveLen = .ok 0 := by
  obtain ⟨hsi, h1, h2, h3, h4, h5⟩ := hI
  unfold Buf.SaveLen Buf.sliceLen
  rw [if_pos (by omega), hsi]; simp

/-- The read area after a successful `PrepareRead(n)`. -/
def bump (b : Buf) (n : Int) : Buf := { b with ri := if b.ri < n then n else b.ri }

@[simp] theorem bump_data (b : Buf) (n : Int) : (bump b n).data = b.data := rfl
@[simp] theorem bump_wi (b : Buf) (n : Int) : (bump b n).wi = b.wi := rfl
@[simp] theorem bump_cap (b : Buf) (n : Int) : (bump b n).cap = b.cap := rfl
@[simp] theorem bump_si (b : Buf) (n : Int) : (bump b n).si = b.si := rfl

theorem bump_inv {b : Buf} {n : Int} (hI : b.Inv) (hn : n ≤ b.wi) : (bump b n).Inv := by
  obtain ⟨hsi, h1, h2, h3, h4, h5⟩ := hI
  unfold bump Buf.Inv
  dsimp only
  refine ⟨hsi, ?_, ?_, h3, h4, h5⟩ <;> split <;> omega

theorem bump_ri_ge (b : Buf) (n : Int) : n ≤ (bump b n).ri := by unfold bump; dsimp only; split <;> omega
theorem bump_ri_le (b : Buf) (n : Int) : b.ri ≤ (bump b n).ri := by unfold bump; dsimp only; split <;> omega

theorem prep_ok {b : Buf} {n : Int} (hI : b.Inv) (h0 : 0 ≤ n) (hn : n ≤ b.wi) :
    b.PrepareRead n = .ok (bump b n, false) := by
  have hI' := hI
  obtain ⟨hsi, h1, h2, h3, h4, h5⟩ := hI'
  unfold Buf.PrepareRead bump
  rw [ReadLen_eq hI, WriteLen_eq hI]
  have hs : Go.sub n b.ri = n - b.ri := by
    rw [Go.sub_id]
    unfold Go.InI64 Go.I64MIN Go.I64MAX at *; omega
  simp only [ebind_ok, hs, epure]
  clear hs
  by_cases hlt : b.ri < n
  · rw [if_pos (by omega), if_pos (by omega), if_pos hlt]
    unfold Buf.Commit
    rw [if_neg (by omega)]
    dsimp only
    rw [if_neg (by omega)]
    have e : b.ri + (n - b.ri) = n := by omega
    rw [e]
  · rw [if_neg (by omega), if_neg hlt]

theorem prep_needMore {b : Buf} {n : Int} (hI : b.Inv) (hn : b.wi < n) (hn' : n ≤ Go.I64MAX) :
    b.PrepareRead n = .ok (b, true) := by
  have hI' := hI
  obtain ⟨hsi, h1, h2, h3, h4, h5⟩ := hI'
  unfold Buf.PrepareRead
  rw [ReadLen_eq hI, WriteLen_eq hI]
  have hs : Go.sub n b.ri = n - b.ri := by
    rw [Go.sub_id]
    unfold Go.InI64 Go.I64MIN Go.I64MAX at *; omega
  simp only [ebind_ok, hs, epure]
  clear hs
  rw [if_pos (by omega), if_neg (by omega)]

theorem dataPrefix_ok {b : Buf} {n : Nat} (hI : b.Inv) (hn : (n : Int) ≤ b.ri) :
    b.dataPrefix n = .ok (b.data.take n) := by
  obtain ⟨hsi, h1, h2, h3, h4, h5⟩ := hI
  unfold Buf.dataPrefix
  rw [if_neg (by omega), if_neg (by omega), if_neg (by omega), hsi]
  simp

/-! ## Bytes -/

theorem and7f (b : UInt8) : (b &&& 0x7f).toNat = b.toNat % 128 := by
  rw [UInt8.toNat_and]; exact Nat.and_two_pow_sub_one_eq_mod b.toNat 7

theorem and0f (b : UInt8) : (b &&& 0x0f).toNat = b.toNat % 16 := by
  rw [UInt8.toNat_and]; exact Nat.and_two_pow_sub_one_eq_mod b.toNat 4

set_option maxRecDepth 100000 in
theorem bit80 (b : UInt8) : ((b &&& 0x80) != 0) = decide (b.toNat ≥ 128) := by
  have h : ∀ n : Nat, n < 256 → (((UInt8.ofNat n) &&& 0x80) != 0) = decide (n ≥ 128) := by decide
  simpa using h b.toNat b.toNat_lt

set_option maxRecDepth 100000 in
theorem bit40 (b : UInt8) : ((b &&& 0x40) != 0) = decide (b.toNat / 64 % 2 = 1) := by
  have h : ∀ n : Nat, n < 256 → (((UInt8.ofNat n) &&& 0x40) != 0) = decide (n / 64 % 2 = 1) := by decide
  simpa using h b.toNat b.toNat_lt

set_option maxRecDepth 100000 in
theorem bit20 (b : UInt8) : ((b &&& 0x20) != 0) = decide (b.toNat / 32 % 2 = 1) := by
  have h : ∀ n : Nat, n < 256 → (((UInt8.ofNat n) &&& 0x20) != 0) = decide (n / 32 % 2 = 1) := by decide
  simpa using h b.toNat b.toNat_lt

set_option maxRecDepth 100000 in
theorem bit10 (b : UInt8) : ((b &&& 0x10) != 0) = decide (b.toNat / 16 % 2 = 1) := by
  have h : ∀ n : Nat, n < 256 → (((UInt8.ofNat n) &&& 0x10) != 0) = decide (n / 16 % 2 = 1) := by decide
  simpa using h b.toNat b.toNat_lt

theorem beUint_eq (l : List UInt8) : beUint l = beNat l := rfl

theorem foldl_lt (l : List UInt8) (acc : Nat) :
    l.foldl (fun acc b => acc * 256 + b.toNat) acc < (acc + 1) * 256 ^ l.length := by
  induction l generalizing acc with
  | nil => simp
  | cons b t ih =>
    simp only [List.foldl_cons, List.length_cons]
    have h1 := ih (acc * 256 + b.toNat)
    have hb := b.toNat_lt
    have h2 : (acc * 256 + b.toNat + 1) ≤ (acc + 1) * 256 := by omega
    calc _ < (acc * 256 + b.toNat + 1) * 256 ^ t.length := h1
      _ ≤ (acc + 1) * 256 * 256 ^ t.length := Nat.mul_le_mul_right _ h2
      _ = (acc + 1) * 256 ^ (t.length + 1) := by rw [Nat.pow_succ, Nat.mul_assoc, Nat.mul_comm 256]

theorem beNat_lt (l : List UInt8) : beNat l < 256 ^ l.length := by
  have := foldl_lt l 0; simpa [beNat] using this

theorem u64ToInt_eq (v : Nat) (h : v < 18446744073709551616) :
    u64ToInt v = if v < 9223372036854775808 then (v : Int) else (v : Int) - 18446744073709551616 := by
  unfold u64ToInt
  rw [BitVec.toInt_ofNat']
  unfold Int.bmod
  simp only [Nat.reducePow]
  split <;> split <;> omega

/-! ## Frame accessors on a byte list with a complete header -/

theorem idx_ok {f : FrameBytes} {i : Nat} (h : i < f.length) : idx f i = .ok (f.getD i 0) := by
  unfold idx; rw [if_pos h]; rfl

theorem ext_eq {f : FrameBytes} (h : 2 ≤ f.length) : ExtendedPayloadLengthBytes f = .ok (extLen (byteAt f 1)) := by
  unfold ExtendedPayloadLengthBytes
  rw [idx_ok (by omega)]
  simp only [ebind_ok, epure]
  have hb := and7f (f.getD 1 0)
  unfold extLen byteAt
  by_cases h1 : (f.getD 1 0 &&& 0x7f) = 127
  · have : (f.getD 1 0).toNat % 128 = 127 := by rw [← hb, h1]; rfl
    rw [if_pos (by simpa using h1), if_pos this]
  · have n1 : ¬ (f.getD 1 0).toNat % 128 = 127 := by
      intro hc; apply h1; apply UInt8.toNat_inj.mp; rw [hb, hc]; rfl
    rw [if_neg (by simpa using h1), if_neg n1]
    by_cases h2 : (f.getD 1 0 &&& 0x7f) = 126
    · have : (f.getD 1 0).toNat % 128 = 126 := by rw [← hb, h2]; rfl
      rw [if_pos (by simpa using h2), if_pos this]
    · have n2 : ¬ (f.getD 1 0).toNat % 128 = 126 := by
        intro hc; apply h2; apply UInt8.toNat_inj.mp; rw [hb, hc]; rfl
      rw [if_neg (by simpa using h2), if_neg n2]

theorem isMasked_eq {f : FrameBytes} (h : 2 ≤ f.length) : IsMasked f = .ok (decide (byteAt f 1 ≥ 128)) := by
  unfold IsMasked
  rw [idx_ok (by omega)]
  simp only [ebind_ok, epure, bit80]; rfl

theorem slice_ok {f : FrameBytes} {lo hi : Nat} (h : lo ≤ hi) (h' : hi ≤ f.length) :
    slice f lo hi = .ok ((f.drop lo).take (hi - lo)) := by
  unfold slice; rw [if_pos ⟨h, h'⟩]; rfl

/-- The Go value of `PayloadLength()`. -/
def plOf (f : FrameBytes) : Int :=
  if extLen (byteAt f 1) = 8 then u64ToInt (declLen f) else (declLen f : Int)

theorem payloadLength_eq {f : FrameBytes} (h : 2 ≤ f.length) (he : 2 + extLen (byteAt f 1) ≤ f.length) :
    PayloadLength f = .ok (plOf f) := by
  unfold PayloadLength plOf declLen
  rw [idx_ok (by omega)]
  simp only [ebind_ok, epure]
  have hb := and7f (f.getD 1 0)
  unfold extLen byteAt at *
  by_cases h1 : (f.getD 1 0 &&& 0x7f) = 127
  · have : (f.getD 1 0).toNat % 128 = 127 := by rw [← hb, h1]; rfl
    rw [if_pos this] at he
    rw [if_pos (by simpa using h1), if_pos this]
    rw [slice_ok (by unfold frameHeaderLength; omega) (by unfold frameHeaderLength; omega)]
    simp [frameHeaderLength, beUint_eq]
  · have n1 : ¬ (f.getD 1 0).toNat % 128 = 127 := by
      intro hc; apply h1; apply UInt8.toNat_inj.mp; rw [hb, hc]; rfl
    rw [if_neg (by simpa using h1), if_neg n1]
    by_cases h2 : (f.getD 1 0 &&& 0x7f) = 126
    · have : (f.getD 1 0).toNat % 128 = 126 := by rw [← hb, h2]; rfl
      rw [if_neg n1, if_pos this] at he
      rw [if_pos (by simpa using h2), if_pos this]
      rw [slice_ok (by unfold frameHeaderLength; omega) (by unfold frameHeaderLength; omega)]
      simp [frameHeaderLength, beUint_eq]
    · have n2 : ¬ (f.getD 1 0).toNat % 128 = 126 := by
        intro hc; apply h2; apply UInt8.toNat_inj.mp; rw [hb, hc]; rfl
      rw [if_neg (by simpa using h2), if_neg n2, hb]
      simp

theorem declLen_lt (f : FrameBytes) : declLen f < 18446744073709551616 := by
  unfold declLen
  split
  · omega
  · have := beNat_lt ((f.drop 2).take (extLen (byteAt f 1)))
    have h8 := extLen_le (byteAt f 1)
    have hl : ((f.drop 2).take (extLen (byteAt f 1))).length ≤ 8 := by
      rw [List.length_take]; omega
    calc _ < 256 ^ _ := this
      _ ≤ 256 ^ 8 := Nat.pow_le_pow_right (by omega) hl
      _ = 18446744073709551616 := by decide

theorem declLen_small {f : FrameBytes} (h : extLen (byteAt f 1) ≠ 8) : declLen f < 65536 := by
  unfold declLen
  unfold extLen at *
  by_cases h127 : byteAt f 1 % 128 = 127
  · rw [if_pos h127] at h; exact absurd rfl h
  · rw [if_neg h127]
    by_cases h126 : byteAt f 1 % 128 = 126
    · rw [if_pos h126, if_neg (by omega)]
      have := beNat_lt ((f.drop 2).take 2)
      have hl : ((f.drop 2).take 2).length ≤ 2 := by rw [List.length_take]; omega
      calc _ < 256 ^ _ := this
        _ ≤ 256 ^ 2 := Nat.pow_le_pow_right (by omega) hl
        _ = 65536 := by decide
    · rw [if_neg h126, if_pos rfl]; omega

/-- The codec's test `payloadLength < 0 || payloadLength > max` is the RFC test `declared > max`. -/
theorem tooBig_iff {f : FrameBytes} {max : Int} (hmax : max ≤ Go.I64MAX) :
    (plOf f < 0 ∨ plOf f > max) ↔ (declLen f : Int) > max := by
  unfold plOf
  have hlt := declLen_lt f
  unfold Go.I64MAX at hmax
  split
  · rw [u64ToInt_eq _ hlt]; split <;> omega
  · omega

theorem plOf_eq {f : FrameBytes} {max : Int} (hmax : max ≤ Go.I64MAX) (h : ¬ (declLen f : Int) > max) :
    plOf f = declLen f := by
  unfold plOf
  have hlt := declLen_lt f
  unfold Go.I64MAX at hmax
  split
  · rw [u64ToInt_eq _ hlt]; split <;> omega
  · rfl

/-! ## Prefixes of the received bytes -/

theorem byteAt_take {P : List UInt8} {n i : Nat} (h : i < n) (h' : i < P.length) : byteAt (P.take n) i = byteAt P i := by
  conv => rhs; rw [← List.take_append_drop n P]
  rw [byteAt_append (by rw [List.length_take]; omega)]

theorem declLen_take {P : List UInt8} {n : Nat} (h2 : 2 ≤ P.length) (hn : 2 + extLen (byteAt P 1) ≤ n)
    (hP : 2 + extLen (byteAt P 1) ≤ P.length) : declLen (P.take n) = declLen P := by
  have hb : byteAt (P.take n) 1 = byteAt P 1 := byteAt_take (by omega) (by omega)
  conv => rhs; rw [← List.take_append_drop n P]
  rw [declLen_append (by rw [List.length_take]; omega) (by rw [hb, List.length_take]; omega)]

theorem hdrLen_take {P : List UInt8} {n : Nat} (h2 : 2 ≤ P.length) (hn : 2 ≤ n) : hdrLen (P.take n) = hdrLen P := by
  unfold hdrLen; rw [byteAt_take (by omega) (by omega)]

theorem frameOf_take {P : List UInt8} {n : Nat} (h2 : 2 ≤ P.length) (hn : hdrLen P + declLen P ≤ n)
    (hP : hdrLen P + declLen P ≤ P.length) : frameOf (P.take n) = frameOf P := by
  have hh : 2 + extLen (byteAt P 1) ≤ hdrLen P := by unfold hdrLen; omega
  have h1 := @hdrLen_take P n h2 (by omega)
  have h3 := @declLen_take P n h2 (by omega) (by omega)
  conv => rhs; rw [← List.take_append_drop n P]
  rw [frameOf_append (by rw [List.length_take]; omega) (by rw [h1, h3, List.length_take]; omega)]

theorem bump_of_le {b : Buf} {n : Int} (h : n ≤ b.ri) : bump b n = b := by
  unfold bump; rw [if_neg (by omega)]

/-! ## Closed form of `Decode` after the lazy reset -/

theorem readPayload_eq (c : Codec) (b : Buf) (cap' : Int) {P : List UInt8} (hP : b.data = P) (hI : b.Inv) (hd : (declLen P : Int) ≤ c.max)
    (hmax : c.max ≤ Go.I64MAX - 14) (hh : hdrLen P ≤ P.length) :
    c.readPayload b (hdrLen P : Nat) (declLen P : Nat) cap' =
      if P.length < hdrLen P + declLen P then
        (b.Reserve (declLen P : Nat) cap' >>= fun b' =>
          .ok ({ c with buf := b', frameLen := 0 }, .needMore, some ((declLen P : Nat) : Int)))
      else
        .ok ({ c with buf := bump b ((hdrLen P + declLen P : Nat) : Int),
                      frameLen := ((hdrLen P + declLen P : Nat) : Int), reset := true },
             .frame (P.take (hdrLen P + declLen P)), none) := by
  subst hP
  have hI' := hI
  obtain ⟨hsi, h1, h2, h3, h4, h5⟩ := hI'
  have h14 := hdrLen_le b.data
  have hadd : Go.add (hdrLen b.data : Nat) (declLen b.data : Nat) = ((hdrLen b.data + declLen b.data : Nat) : Int) := by
    rw [Go.add_id]
    · omega
    · unfold Go.InI64 Go.I64MIN; unfold Go.I64MAX at *; omega
  unfold Codec.readPayload
  simp only [hadd]
  by_cases hlt : b.data.length < hdrLen b.data + declLen b.data
  · rw [if_pos hlt, prep_needMore hI (by omega) (by unfold Go.I64MAX at *; omega)]
    simp only [ebind_ok, epure]
    rfl
  · rw [if_neg hlt, prep_ok hI (by omega) (by omega)]
    simp only [ebind_ok, epure]
    rw [dataPrefix_ok (bump_inv hI (by omega)) (bump_ri_ge _ _)]
    simp only [ebind_ok, bump_data, List.length_take]
    rw [Nat.min_eq_left (by omega)]
    rfl

theorem readMask_eq (c : Codec) (b : Buf) (cap' : Int) {P : List UInt8} (hP : b.data = P) (hI : b.Inv) (hd : (declLen P : Int) ≤ c.max)
    (hmax : c.max ≤ Go.I64MAX - 14) (h2 : 2 ≤ P.length) (he : 2 + extLen (byteAt P 1) ≤ P.length)
    (hri : ((2 + extLen (byteAt P 1) : Nat) : Int) ≤ b.ri) :
    c.readMask b (P.take (2 + extLen (byteAt P 1))) ((2 + extLen (byteAt P 1) : Nat) : Int)
        (declLen P : Nat) cap' =
      if P.length < hdrLen P then .ok (c.fail b .needMore)
      else c.readPayload (bump b (hdrLen P : Nat)) (hdrLen P : Nat) (declLen P : Nat) cap' := by
  subst hP
  have hI' := hI
  obtain ⟨hsi, h1, h2', h3, h4, h5⟩ := hI'
  have h8 := extLen_le (byteAt b.data 1)
  unfold Codec.readMask
  rw [isMasked_eq (by rw [List.length_take]; omega), byteAt_take (by omega) (by omega)]
  simp only [ebind_ok]
  by_cases hm : byteAt b.data 1 ≥ 128
  · have hl : hdrLen b.data = 2 + extLen (byteAt b.data 1) + 4 := by unfold hdrLen maskLen; rw [if_pos hm]
    rw [if_pos (by simpa using hm)]
    have hrs : ((2 + extLen (byteAt b.data 1) : Nat) : Int) + (frameMaskLength : Nat) = (hdrLen b.data : Nat) := by
      rw [hl]; unfold frameMaskLength; omega
    simp only [hrs]
    by_cases hlt : b.data.length < hdrLen b.data
    · rw [if_pos hlt, prep_needMore hI (by omega) (by unfold Go.I64MAX; omega)]
      simp
    · rw [if_neg hlt, prep_ok hI (by omega) (by omega)]
      simp only [ebind_ok]
      rw [dataPrefix_ok (bump_inv hI (by omega)) (bump_ri_ge _ _)]
      simp
  · have hl : hdrLen b.data = 2 + extLen (byteAt b.data 1) := by unfold hdrLen maskLen; rw [if_neg hm]; omega
    rw [if_neg (by simpa using hm), if_neg (by omega), hl, bump_of_le hri]

theorem readLength_eq (c : Codec) (b : Buf) (cap' : Int) {P : List UInt8} (hP : b.data = P) (hI : b.Inv) (hmax : c.max ≤ Go.I64MAX - 14)
    (h2 : 2 ≤ P.length) (hri : 2 ≤ b.ri) :
    c.readLength b (P.take 2) (2 : Nat) cap' =
      if P.length < 2 + extLen (byteAt P 1) then .ok (c.fail b .needMore)
      else if (declLen P : Int) > c.max then
        .ok (c.fail (bump b ((2 + extLen (byteAt P 1) : Nat) : Int)) .tooBig)
      else c.readMask (bump b ((2 + extLen (byteAt P 1) : Nat) : Int)) (P.take (2 + extLen (byteAt P 1)))
        ((2 + extLen (byteAt P 1) : Nat) : Int) (declLen P : Nat) cap' := by
  subst hP
  have hI' := hI
  obtain ⟨hsi, h1, h2', h3, h4, h5⟩ := hI'
  have h8 := extLen_le (byteAt b.data 1)
  unfold Codec.readLength
  rw [ext_eq (by rw [List.length_take]; omega), byteAt_take (by omega) (by omega)]
  simp only [ebind_ok]
  have hrs : ((2 : Nat) : Int) + (extLen (byteAt b.data 1) : Nat) = ((2 + extLen (byteAt b.data 1) : Nat) : Int) := by omega
  simp only [hrs]
  by_cases hlt : b.data.length < 2 + extLen (byteAt b.data 1)
  · rw [if_pos hlt, prep_needMore hI (by omega) (by unfold Go.I64MAX; omega)]
    simp
  · rw [if_neg hlt, prep_ok hI (by omega) (by omega)]
    simp only [ebind_ok, Bool.false_eq_true, ↓reduceIte]
    rw [dataPrefix_ok (bump_inv hI (by omega)) (bump_ri_ge _ _)]
    simp only [ebind_ok, bump_data]
    have hb1 : byteAt (b.data.take (2 + extLen (byteAt b.data 1))) 1 = byteAt b.data 1 := byteAt_take (by omega) (by omega)
    rw [payloadLength_eq (by rw [List.length_take]; omega) (by rw [hb1, List.length_take]; omega)]
    simp only [ebind_ok]
    have hdl : declLen (b.data.take (2 + extLen (byteAt b.data 1))) = declLen b.data :=
      declLen_take (by omega) (by omega) (by omega)
    have hmax' : c.max ≤ Go.I64MAX := by unfold Go.I64MAX at *; omega
    by_cases htb : (declLen b.data : Int) > c.max
    · rw [if_pos htb, if_pos ((tooBig_iff hmax').mpr (by rw [hdl]; exact htb))]
      simp
    · rw [if_neg htb, if_neg (fun hc => htb (by rw [← hdl]; exact (tooBig_iff hmax').mp hc))]
      rw [plOf_eq hmax' (by rw [hdl]; exact htb), hdl]

theorem decodeBody_eq (c : Codec) (cap' : Int) (hI : c.buf.Inv) (hmax : c.max ≤ Go.I64MAX - 14) :
    c.decodeBody cap' =
      if c.buf.data.length < 2 then .ok (c.fail c.buf .needMore)
      else c.readLength (bump c.buf 2) (c.buf.data.take 2) (2 : Nat) cap' := by
  have hI' := hI
  obtain ⟨hsi, h1, h2', h3, h4, h5⟩ := hI'
  unfold Codec.decodeBody
  by_cases hlt : c.buf.data.length < 2
  · rw [if_pos hlt]
    have : c.buf.PrepareRead (frameHeaderLength : Nat) = .ok (c.buf, true) :=
      prep_needMore hI (by unfold frameHeaderLength; omega) (by unfold Go.I64MAX frameHeaderLength; omega)
    simp only [this, ebind_ok]
    simp
  · rw [if_neg hlt]
    have : c.buf.PrepareRead (frameHeaderLength : Nat) = .ok (bump c.buf 2, false) :=
      prep_ok hI (by unfold frameHeaderLength; omega) (by unfold frameHeaderLength; omega)
    simp only [this, ebind_ok, Bool.false_eq_true, ↓reduceIte]
    have hd : (bump c.buf 2).dataPrefix (frameHeaderLength : Nat) = .ok (c.buf.data.take 2) :=
      dataPrefix_ok (bump_inv hI (by omega)) (bump_ri_ge _ _)
    simp only [hd, ebind_ok]
    rfl

/-! ## `Reserve`, `Consume`, `Write`, `ReadFrom` under the invariant -/

theorem reserve_cases {b : Buf} (n cap' : Int) (hI : b.Inv) (hfit : b.wi + n ≤ Go.I64MAX) :
    b.Reserve n cap' = .error .env ∨
    ∃ B, b.Reserve n cap' = .ok B ∧ B.Inv ∧ B.data = b.data ∧ B.wi = b.wi ∧ B.ri = b.ri ∧ b.cap ≤ B.cap ∧ n ≤ B.cap - B.wi ∧
      (n ≤ b.cap - b.wi → B.cap = b.cap) := by
  obtain ⟨hsi, h1, h2, h3, h4, h5⟩ := hI
  unfold Buf.Reserve
  dsimp only
  by_cases hg : n > b.cap - b.wi
  · rw [if_pos hg, if_neg (by omega)]
    by_cases henv : b.wi + n ≤ cap' ∧ cap' ≤ Go.I64MAX
    · right
      rw [if_neg (by simpa using henv), if_pos (by omega)]
      exact ⟨_, rfl, ⟨hsi, h1, h2, by dsimp only; omega, henv.2, h5⟩, rfl, rfl, rfl, by dsimp only; omega, by dsimp only; omega,
        fun h => by omega⟩
    · left; rw [if_pos henv]; rfl
  · right
    rw [if_neg hg, if_pos (by omega)]
    exact ⟨_, rfl, ⟨hsi, h1, h2, h3, h4, h5⟩, rfl, rfl, rfl, Int.le_refl _, by omega, fun _ => rfl⟩

theorem consume_eq {b : Buf} {n : Nat} (hI : b.Inv) (hn : (n : Int) ≤ b.ri) :
    b.Consume n = .ok { b with ri := b.ri - n, wi := b.wi - n, data := b.data.drop n } := by
  have hI' := hI
  obtain ⟨hsi, h1, h2, h3, h4, h5⟩ := hI'
  unfold Buf.Consume
  by_cases h0 : (n : Int) ≤ 0
  · rw [if_pos h0]
    have : n = 0 := by omega
    subst this
    simp
  · rw [if_neg h0, ReadLen_eq hI]
    simp only [ebind_ok]
    have e : (if (n : Int) > b.ri then b.ri else (n : Int)) = n := if_neg (by omega)
    simp only [e]
    rw [if_pos (by omega), if_pos (by omega), hsi]
    simp

theorem consume_inv {b : Buf} {n : Nat} (hI : b.Inv) (hn : (n : Int) ≤ b.ri) :
    ({ b with ri := b.ri - n, wi := b.wi - n, data := b.data.drop n } : Buf).Inv := by
  obtain ⟨hsi, h1, h2, h3, h4, h5⟩ := hI
  refine ⟨hsi, by dsimp only; omega, by dsimp only; omega, by dsimp only; omega, h4, ?_⟩
  dsimp only
  rw [List.length_drop]; omega

theorem write_cases {b : Buf} (bs : List UInt8) (cap' : Int) (hI : b.Inv) :
    b.Write bs cap' = .error .env ∨
    ∃ B, b.Write bs cap' = .ok B ∧ B.Inv ∧ B.data = b.data ++ bs ∧ B.ri = b.ri ∧ b.cap ≤ B.cap := by
  obtain ⟨hsi, h1, h2, h3, h4, h5⟩ := hI
  unfold Buf.Write
  dsimp only
  by_cases hfit : b.wi + bs.length ≤ b.cap
  · right
    rw [if_pos hfit]
    refine ⟨_, rfl, ⟨hsi, h1, by dsimp only; omega, hfit, h4, ?_⟩, rfl, rfl, Int.le_refl _⟩
    dsimp only; rw [List.length_append]; omega
  · rw [if_neg hfit]
    by_cases henv : b.wi + bs.length ≤ cap' ∧ cap' ≤ Go.I64MAX
    · right
      rw [if_pos henv]
      refine ⟨_, rfl, ⟨hsi, h1, by dsimp only; omega, henv.1, henv.2, ?_⟩, rfl, rfl, by dsimp only; omega⟩
      dsimp only; rw [List.length_append]; omega
    · left; rw [if_neg henv]; rfl

theorem readFrom_eq {b : Buf} (avail : List UInt8) (hI : b.Inv) :
    ∃ B n, b.ReadFrom avail = .ok (B, n) ∧ B.Inv ∧ n ≤ avail.length ∧ B.data = b.data ++ avail.take n ∧ B.ri = b.ri ∧ B.cap = b.cap := by
  obtain ⟨hsi, h1, h2, h3, h4, h5⟩ := hI
  unfold Buf.ReadFrom Buf.sliceLen
  rw [if_pos (by omega)]
  simp only [ebind_ok, epure]
  refine ⟨_, _, rfl, ⟨hsi, h1, by dsimp only; omega, by dsimp only; omega, h4, ?_⟩, Nat.min_le_right _ _, rfl, rfl, rfl⟩
  dsimp only
  rw [List.length_append, List.length_take]; omega

/-! ## The frame seen through the accessors -/

theorem view_eq {f : FrameBytes} (h2 : 2 ≤ f.length) (hn : f.length = hdrLen f + declLen f) :
    view f = .ok (frameOf f, f.length) := by
  have hl : hdrLen f ≤ f.length := by omega
  have he : 2 + extLen (byteAt f 1) ≤ f.length := by unfold hdrLen at hl; omega
  unfold view IsFIN IsRSV1 IsRSV2 IsRSV3 Opcode Mask Payload payloadOffset maskOffset MaskBytes
  simp only [idx_ok (show 0 < f.length by omega), isMasked_eq h2, ext_eq h2, ebind_ok, epure]
  have hmo : (if decide (byteAt f 1 ≥ 128) = true then (Except.ok frameMaskLength : M Nat) else .ok 0) = .ok (maskLen (byteAt f 1)) := by
    unfold maskLen frameMaskLength; by_cases hm : byteAt f 1 ≥ 128 <;> simp [hm]
  simp only [hmo, ebind_ok]
  have hpo : frameHeaderLength + extLen (byteAt f 1) + maskLen (byteAt f 1) = hdrLen f := rfl
  rw [hpo, slice_ok hl (Nat.le_refl _)]
  simp only [ebind_ok]
  have hpay : (f.drop (hdrLen f)).take (f.length - hdrLen f) = (f.drop (hdrLen f)).take (declLen f) := by
    rw [show f.length - hdrLen f = declLen f by omega]
  have hb0 : (f.getD 0 0).toNat = byteAt f 0 := rfl
  by_cases hm : byteAt f 1 ≥ 128
  · have hml : maskLen (byteAt f 1) = 4 := by unfold maskLen; rw [if_pos hm]
    rw [if_pos (by simpa using hm)]
    rw [slice_ok (by omega) (by unfold hdrLen at hl; unfold frameHeaderLength frameMaskLength; omega)]
    simp only [ebind_ok]
    unfold frameOf
    simp only [bit80, bit40, bit20, bit10, and0f, hpay, hb0, hml, frameHeaderLength, frameMaskLength]
    simp
  · have hml : maskLen (byteAt f 1) = 0 := by unfold maskLen; rw [if_neg hm]
    rw [if_neg (by simpa using hm)]
    unfold frameOf
    simp only [bit80, bit40, bit20, bit10, and0f, hpay, hb0, hml]
    simp

/-! ## `Decode` against the parser -/

/-- Size of the frame returned by the previous `Decode` that is still in the buffer. -/
def Codec.held (c : Codec) : Nat := if c.reset then c.frameLen.toNat else 0

/-- The bytes the next `Decode` will look at. -/
def Codec.unconsumed (c : Codec) : List UInt8 := c.buf.data.drop c.held

/-- Invariant of the codec: buffer invariant, room for a header, a sane maximum, and the frame handed out
last lies inside the read area. -/
def Codec.Inv (c : Codec) : Prop :=
  c.buf.Inv ∧ 14 ≤ c.buf.cap ∧ 2 * c.max + 14 ≤ Go.I64MAX ∧ (c.reset = true → 0 ≤ c.frameLen ∧ c.frameLen ≤ c.buf.ri)

theorem Codec.Inv.max_le {c : Codec} (h : c.Inv) : c.max ≤ Go.I64MAX - 14 := by
  obtain ⟨_, _, hm, _⟩ := h; unfold Go.I64MAX at *; omega

theorem body_frame {c : Codec} (cap' : Int) (hI : c.buf.Inv) (hmax : c.max ≤ Go.I64MAX - 14)
    {f : Frame} {n : Nat} (hp : parse c.max c.buf.data = .frame f n) :
    ∃ B, c.decodeBody cap' = .ok ({ c with buf := B, frameLen := (n : Int), reset := true }, .frame (c.buf.data.take n), none) ∧
      B.Inv ∧ B.data = c.buf.data ∧ B.cap = c.buf.cap ∧ (n : Int) ≤ B.ri := by
  obtain ⟨h2, hn, hle, hf, hd⟩ := parse_frame hp
  have hI' := hI
  obtain ⟨hsi, h1, h2', h3, h4, h5⟩ := hI'
  have hh : 2 + extLen (byteAt c.buf.data 1) ≤ hdrLen c.buf.data := by unfold hdrLen; omega
  have h14 := hdrLen_le c.buf.data
  have i1 : (bump c.buf 2).Inv := bump_inv hI (by omega)
  have i2 : (bump (bump c.buf 2) ((2 + extLen (byteAt c.buf.data 1) : Nat) : Int)).Inv := bump_inv i1 (by rw [bump_wi]; omega)
  have i3 : (bump (bump (bump c.buf 2) ((2 + extLen (byteAt c.buf.data 1) : Nat) : Int)) (hdrLen c.buf.data : Nat)).Inv :=
    bump_inv i2 (by simp only [bump_wi]; omega)
  rw [decodeBody_eq c cap' hI hmax, if_neg (by omega)]
  rw [readLength_eq c (bump c.buf 2) cap' (bump_data _ _) i1 hmax (by omega) (bump_ri_ge _ _)]
  rw [if_neg (by omega), if_neg (by omega)]
  rw [readMask_eq c (bump (bump c.buf 2) ((2 + extLen (byteAt c.buf.data 1) : Nat) : Int)) cap' (by simp only [bump_data]) i2
    (by omega) hmax (by omega) (by omega) (bump_ri_ge _ _), if_neg (by omega)]
  rw [readPayload_eq c _ cap' (by simp only [bump_data]) i3 (by omega) hmax (by omega), if_neg (by omega), ← hn]
  exact ⟨_, rfl, bump_inv i3 (by simp only [bump_wi]; omega), by simp only [bump_data], by simp only [bump_cap], bump_ri_ge _ _⟩

theorem body_tooBig {c : Codec} (cap' : Int) (hI : c.buf.Inv) (hmax : c.max ≤ Go.I64MAX - 14)
    (hp : parse c.max c.buf.data = .tooBig) :
    ∃ B, c.decodeBody cap' = .ok ({ c with buf := B, frameLen := 0 }, .tooBig, none) ∧
      B.Inv ∧ B.data = c.buf.data ∧ B.cap = c.buf.cap := by
  obtain ⟨h2, he, hd⟩ := parse_tooBig hp
  have hI' := hI
  obtain ⟨hsi, h1, h2', h3, h4, h5⟩ := hI'
  have i1 : (bump c.buf 2).Inv := bump_inv hI (by omega)
  rw [decodeBody_eq c cap' hI hmax, if_neg (by omega)]
  rw [readLength_eq c (bump c.buf 2) cap' (bump_data _ _) i1 hmax (by omega) (bump_ri_ge _ _)]
  rw [if_neg (by omega), if_pos hd]
  exact ⟨_, rfl, bump_inv i1 (by rw [bump_wi]; omega), by simp only [bump_data], by simp only [bump_cap]⟩

theorem body_needMore {c : Codec} (cap' : Int) (hI : c.buf.Inv) (hmax : c.max ≤ Go.I64MAX - 14)
    (hmax2 : 2 * c.max + 14 ≤ Go.I64MAX) (hcap : 14 ≤ c.buf.cap)
    (hp : parse c.max c.buf.data = .needMore) :
    c.decodeBody cap' = .error .env ∨
    ∃ B g, c.decodeBody cap' = .ok ({ c with buf := B, frameLen := 0 }, .needMore, g) ∧
      B.Inv ∧ B.data = c.buf.data ∧ c.buf.cap ≤ B.cap ∧ 0 < B.cap - B.wi ∧ (∀ k, g = some k → 0 ≤ k ∧ k ≤ c.max) ∧
      (g = none → B.cap = c.buf.cap) := by
  have hI' := hI
  obtain ⟨hsi, h1, h2', h3, h4, h5⟩ := hI'
  have h14 := hdrLen_le c.buf.data
  have hh : 2 + extLen (byteAt c.buf.data 1) ≤ hdrLen c.buf.data := by unfold hdrLen; omega
  rw [decodeBody_eq c cap' hI hmax]
  by_cases c1 : c.buf.data.length < 2
  · right
    rw [if_pos c1]
    exact ⟨_, none, rfl, hI, rfl, Int.le_refl _, by omega, (fun k hk => by cases hk), fun _ => rfl⟩
  rw [if_neg c1]
  have i1 : (bump c.buf 2).Inv := bump_inv hI (by omega)
  rw [readLength_eq c (bump c.buf 2) cap' (bump_data _ _) i1 hmax (by omega) (bump_ri_ge _ _)]
  by_cases c2 : c.buf.data.length < 2 + extLen (byteAt c.buf.data 1)
  · right
    rw [if_pos c2]
    exact ⟨_, none, rfl, i1, rfl, Int.le_refl _, by simp only [bump_cap, bump_wi]; omega, (fun k hk => by cases hk), fun _ => rfl⟩
  rw [if_neg c2]
  by_cases c3 : (declLen c.buf.data : Int) > c.max
  · exfalso
    rw [parse_tooBig_of (by omega) (by omega) c3] at hp; cases hp
  rw [if_neg c3]
  have i2 : (bump (bump c.buf 2) ((2 + extLen (byteAt c.buf.data 1) : Nat) : Int)).Inv := bump_inv i1 (by rw [bump_wi]; omega)
  rw [readMask_eq c (bump (bump c.buf 2) ((2 + extLen (byteAt c.buf.data 1) : Nat) : Int)) cap' (by simp only [bump_data]) i2
    (by omega) hmax (by omega) (by omega) (bump_ri_ge _ _)]
  by_cases c4 : c.buf.data.length < hdrLen c.buf.data
  · right
    rw [if_pos c4]
    exact ⟨_, none, rfl, i2, rfl, Int.le_refl _, by simp only [bump_cap, bump_wi]; omega, (fun k hk => by cases hk), fun _ => rfl⟩
  rw [if_neg c4]
  have i3 : (bump (bump (bump c.buf 2) ((2 + extLen (byteAt c.buf.data 1) : Nat) : Int)) (hdrLen c.buf.data : Nat)).Inv :=
    bump_inv i2 (by simp only [bump_wi]; omega)
  rw [readPayload_eq c _ cap' (by simp only [bump_data]) i3 (by omega) hmax (by omega)]
  by_cases c5 : c.buf.data.length < hdrLen c.buf.data + declLen c.buf.data
  · rw [if_pos c5]
    rcases reserve_cases (declLen c.buf.data : Nat) cap' i3 (by simp only [bump_wi]; omega) with he | ⟨B, hB, bi, bd, bw, br, bc, bn, _⟩
    · left; rw [he]; rfl
    · right
      rw [hB]
      refine ⟨B, _, rfl, bi, by rw [bd]; simp only [bump_data], by simpa only [bump_cap] using bc, ?_, ?_, fun h => by cases h⟩
      · have : B.wi = (c.buf.data.length : Int) := by rw [bw]; simp only [bump_wi]; omega
        omega
      · intro k hk; cases hk; omega
  · exfalso
    rw [parse_frame_of (by omega) (by omega) (by omega)] at hp; cases hp

theorem held_le {c : Codec} (hI : c.Inv) : (c.held : Int) ≤ c.buf.ri := by
  obtain ⟨hb, _, _, hr⟩ := hI
  unfold Codec.held
  split
  · rename_i h; have := hr h; omega
  · exact hb.2.1

/-- The lazy reset drops exactly the frame handed out by the previous call. -/
theorem resetDecode_eq {c : Codec} (hI : c.Inv) :
    ∃ c1, c.resetDecode = .ok c1 ∧ c1.buf.Inv ∧ c1.reset = false ∧ c1.buf.data = c.unconsumed ∧ c1.max = c.max ∧
      c1.buf.cap = c.buf.cap := by
  have hI' := hI
  obtain ⟨hb, hcap, hmax, hr⟩ := hI'
  unfold Codec.resetDecode Codec.unconsumed Codec.held
  by_cases hreset : c.reset = true
  · obtain ⟨h0, h1⟩ := hr hreset
    rw [if_pos hreset, if_pos hreset]
    generalize hk : c.frameLen.toNat = k
    have hfl : c.frameLen = (k : Int) := by omega
    rw [hfl, consume_eq hb (by omega)]
    simp only [ebind_ok, epure]
    exact ⟨_, rfl, consume_inv hb (by omega), rfl, rfl, rfl, rfl⟩
  · rw [if_neg hreset, if_neg hreset]
    exact ⟨c, rfl, hb, by simpa using hreset, by simp, rfl, rfl⟩

theorem decode_frame {c : Codec} (cap' : Int) (hI : c.Inv) {f : Frame} {n : Nat}
    (hp : parse c.max c.unconsumed = .frame f n) :
    ∃ c', c.Decode cap' = .ok (c', .frame (c.unconsumed.take n), none) ∧ c'.Inv ∧ c'.reset = true ∧ c'.frameLen = n ∧
      c'.buf.data = c.unconsumed ∧ c'.max = c.max ∧ c'.buf.cap = c.buf.cap := by
  obtain ⟨c1, h1, i1, r1, d1, m1, k1⟩ := resetDecode_eq hI
  have hmax := hI.max_le
  obtain ⟨_, hcap, hmax2, _⟩ := hI
  unfold Codec.Decode
  rw [h1]
  simp only [ebind_ok]
  obtain ⟨B, hB, bi, bd, bc, bn⟩ := body_frame cap' i1 (by rw [m1]; exact hmax) (by rw [m1, d1]; exact hp)
  rw [d1] at hB bd
  refine ⟨_, hB, ⟨bi, by dsimp only; omega, by dsimp only; rw [m1]; exact hmax2, fun _ => ⟨by dsimp only; omega, bn⟩⟩,
    rfl, rfl, bd, m1, by dsimp only; omega⟩

theorem decode_tooBig {c : Codec} (cap' : Int) (hI : c.Inv) (hp : parse c.max c.unconsumed = .tooBig) :
    ∃ c', c.Decode cap' = .ok (c', .tooBig, none) ∧ c'.Inv ∧ c'.reset = false ∧
      c'.buf.data = c.unconsumed ∧ c'.max = c.max ∧ c'.buf.cap = c.buf.cap := by
  obtain ⟨c1, h1, i1, r1, d1, m1, k1⟩ := resetDecode_eq hI
  have hmax := hI.max_le
  obtain ⟨_, hcap, hmax2, _⟩ := hI
  unfold Codec.Decode
  rw [h1]
  simp only [ebind_ok]
  obtain ⟨B, hB, bi, bd, bc⟩ := body_tooBig cap' i1 (by rw [m1]; exact hmax) (by rw [m1, d1]; exact hp)
  rw [d1] at bd
  refine ⟨_, hB, ⟨bi, by dsimp only; omega, by dsimp only; rw [m1]; exact hmax2, fun h => ?_⟩, r1, bd, m1, by dsimp only; omega⟩
  dsimp only at h; rw [r1] at h; cases h

theorem decode_needMore {c : Codec} (cap' : Int) (hI : c.Inv) (hp : parse c.max c.unconsumed = .needMore) :
    c.Decode cap' = .error .env ∨
    ∃ c' g, c.Decode cap' = .ok (c', .needMore, g) ∧ c'.Inv ∧ c'.reset = false ∧ c'.buf.data = c.unconsumed ∧ c'.max = c.max ∧
      0 < c'.buf.cap - c'.buf.wi ∧ (∀ k, g = some k → 0 ≤ k ∧ k ≤ c.max) := by
  obtain ⟨c1, h1, i1, r1, d1, m1, k1⟩ := resetDecode_eq hI
  have hmax := hI.max_le
  obtain ⟨_, hcap, hmax2, _⟩ := hI
  unfold Codec.Decode
  rw [h1]
  simp only [ebind_ok]
  rcases body_needMore cap' i1 (by rw [m1]; exact hmax) (by rw [m1]; exact hmax2) (by omega) (by rw [m1, d1]; exact hp) with he | ⟨B, g, hB, bi, bd, bc, bp, bg, _⟩
  · left; exact he
  · right
    rw [d1] at bd
    refine ⟨_, g, hB, ⟨bi, by dsimp only; omega, by dsimp only; rw [m1]; exact hmax2, fun h => ?_⟩, r1, bd, m1, bp, ?_⟩
    · dsimp only at h; rw [r1] at h; cases h
    · rw [← m1]; exact bg

end Sonic.Model.WsFrame
