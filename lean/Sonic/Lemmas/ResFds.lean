/-
Descriptor tables under a resource path: if the abstract interpreter `ResPath.run` accepts a path and ends with the
live set `live`, then for *every* initial descriptor table `T` the concrete interpretation with lowest-free allocation
succeeds and ends with `T` plus one descriptor per live descriptor-class resource.  In particular a failure path that
ends with nothing live leaves the table exactly as it found it.
-/
import Sonic.Lemmas.ResTable

namespace Sonic.Model.Resources
open Sonic.Model.ResPath

structure FdInv (T0 : List Nat) (st : List Nat × List (Nat × Nat)) (live : List Nat) : Prop where
  mem   : ∀ x, x ∈ st.1 ↔ x ∈ T0 ∨ ∃ r, (r, x) ∈ st.2
  fresh : ∀ r x, (r, x) ∈ st.2 → x ∉ T0
  keyf  : ∀ r x y, (r, x) ∈ st.2 → (r, y) ∈ st.2 → x = y
  valf  : ∀ r s x, (r, x) ∈ st.2 → (s, x) ∈ st.2 → r = s
  sub   : ∀ r x, (r, x) ∈ st.2 → r ∈ live

theorem FdInv.mono {T0 st live live'} (h : FdInv T0 st live) (hl : ∀ r, r ∈ live → r ∈ live') : FdInv T0 st live' :=
  ⟨h.mem, h.fresh, h.keyf, h.valf, fun r x hm => hl r (h.sub r x hm)⟩

theorem acqFd_inv {T0 st live} (r : Nat) (h : FdInv T0 st live) (hr : r ∉ live) :
    ∃ st', acqFd st r = some st' ∧ FdInv T0 st' (r :: live) := by
  have hno : (st.2.any (·.1 == r)) = false := by
    apply List.any_eq_false.2
    intro e he hk
    have : e.1 = r := by simpa using hk
    exact hr (this ▸ h.sub e.1 e.2 he)
  have hfree : lowestFree st.1 ∉ st.1 := by
    have := lowestFree_not_mem st.1
    simpa using this
  refine ⟨(lowestFree st.1 :: st.1, (r, lowestFree st.1) :: st.2), by simp [acqFd, hno], ?_⟩
  have hnT : lowestFree st.1 ∉ T0 := fun hm => hfree ((h.mem _).2 (Or.inl hm))
  have hnb : ∀ s, (s, lowestFree st.1) ∉ st.2 := fun s hm => hfree ((h.mem _).2 (Or.inr ⟨s, hm⟩))
  have hnk : ∀ x, (r, x) ∉ st.2 := fun x hm => hr (h.sub r x hm)
  refine ⟨?_, ?_, ?_, ?_, ?_⟩
  · intro x
    simp only [List.mem_cons, Prod.mk.injEq]
    constructor
    · rintro (rfl | hx)
      · exact Or.inr ⟨r, Or.inl ⟨rfl, rfl⟩⟩
      · rcases (h.mem x).1 hx with h1 | ⟨s, h1⟩
        · exact Or.inl h1
        · exact Or.inr ⟨s, Or.inr h1⟩
    · rintro (h1 | ⟨s, ⟨_, rfl⟩ | h1⟩)
      · exact Or.inr ((h.mem x).2 (Or.inl h1))
      · exact Or.inl rfl
      · exact Or.inr ((h.mem x).2 (Or.inr ⟨s, h1⟩))
  · intro s x hm
    simp only [List.mem_cons, Prod.mk.injEq] at hm
    rcases hm with ⟨_, rfl⟩ | hm
    · exact hnT
    · exact h.fresh s x hm
  · intro s x y hx hy
    simp only [List.mem_cons, Prod.mk.injEq] at hx hy
    rcases hx with ⟨rfl, rfl⟩ | hx <;> rcases hy with ⟨h1, rfl⟩ | hy
    · rfl
    · exact absurd hy (hnk y)
    · exact absurd (h1 ▸ hx) (hnk x)
    · exact h.keyf s x y hx hy
  · intro s t x hx hy
    simp only [List.mem_cons, Prod.mk.injEq] at hx hy
    rcases hx with ⟨rfl, rfl⟩ | hx <;> rcases hy with ⟨rfl, h2⟩ | hy
    · rfl
    · exact absurd hy (hnb t)
    · exact absurd (h2 ▸ hx) (hnb s)
    · exact h.valf s t x hx hy
  · intro s x hm
    simp only [List.mem_cons, Prod.mk.injEq] at hm
    rcases hm with ⟨rfl, _⟩ | hm
    · exact List.mem_cons_self
    · exact List.mem_cons_of_mem _ (h.sub s x hm)

theorem acqAll_inv {T0} : ∀ (rs : List (Nat × Cls)) (st : List Nat × List (Nat × Nat)) (live : List Nat), FdInv T0 st live →
    (∀ x ∈ rs, x.1 ∉ live) → ResPath.distinct (rs.map (·.1)) = true →
    ∃ st', acqAll st rs = some st' ∧ FdInv T0 st' (rs.map (·.1) ++ live)
  | [], st, live, h, _, _ => ⟨st, rfl, by simpa using h⟩
  | (r, c) :: rest, st, live, h, hn, hd => by
    simp only [List.map_cons, ResPath.distinct, Bool.and_eq_true, Bool.not_eq_true'] at hd
    have hrn : r ∉ live := hn (r, c) List.mem_cons_self
    have hrest : ∀ x ∈ rest, x.1 ∉ r :: live := by
      intro x hx hm
      rcases List.mem_cons.1 hm with h1 | h1
      · have : (rest.map (·.1)).contains r = true := by
          simp only [List.contains_eq_mem, decide_eq_true_eq]
          exact List.mem_map.2 ⟨x, hx, h1⟩
        rw [this] at hd; cases hd.1
      · exact hn x (List.mem_cons_of_mem _ hx) h1
    have hperm : ∀ z, z ∈ rest.map (·.1) ++ (r :: live) → z ∈ (r :: rest.map (·.1)) ++ live := by
      intro z hz
      simp only [List.mem_append, List.mem_cons] at hz ⊢
      rcases hz with h1 | h1 | h1
      · exact Or.inl (Or.inr h1)
      · exact Or.inl (Or.inl h1)
      · exact Or.inr h1
    cases c with
    | fd =>
      obtain ⟨st1, h1, hI1⟩ := acqFd_inv r h hrn
      obtain ⟨st2, h2, hI2⟩ := acqAll_inv rest st1 (r :: live) hI1 hrest hd.2
      exact ⟨st2, by simp only [acqAll, h1, h2], hI2.mono hperm⟩
    | path =>
      obtain ⟨st2, h2, hI2⟩ := acqAll_inv rest st (r :: live) (h.mono fun z hz => List.mem_cons_of_mem _ hz) hrest hd.2
      exact ⟨st2, by simp only [acqAll, h2], hI2.mono hperm⟩
    | mapping =>
      obtain ⟨st2, h2, hI2⟩ := acqAll_inv rest st (r :: live) (h.mono fun z hz => List.mem_cons_of_mem _ hz) hrest hd.2
      exact ⟨st2, by simp only [acqAll, h2], hI2.mono hperm⟩

theorem stepFd_inv {T0 st live live'} (e : Ev) (h : FdInv T0 st live) (hs : stepEv live e = some live') :
    ∃ st', stepFd st e = some st' ∧ FdInv T0 st' live' := by
  cases e with
  | acquire r c via =>
    simp only [stepEv] at hs
    split at hs
    · cases hs
    · rename_i hc
      cases hs
      have hr : r ∉ live := by simpa using hc
      cases c with
      | fd => exact acqFd_inv r h hr
      | path => exact ⟨st, rfl, h.mono fun z hz => List.mem_cons_of_mem _ hz⟩
      | mapping => exact ⟨st, rfl, h.mono fun z hz => List.mem_cons_of_mem _ hz⟩
  | call callee name rs =>
    simp only [stepEv] at hs
    split at hs
    · cases hs
    · rename_i hc
      cases hs
      simp only [Bool.or_eq_true, Bool.not_eq_true', not_or, Bool.not_eq_false] at hc
      have hn : ∀ x ∈ rs, x.1 ∉ live := by
        intro x hx hm
        have := hc.1
        simp only [List.any_eq_true, not_exists, not_and] at this
        exact this x.1 (List.mem_map.2 ⟨x, hx, rfl⟩) (by simpa using hm)
      exact acqAll_inv rs st live h hn hc.2
  | release r via =>
    simp only [stepEv] at hs
    split at hs
    · rename_i hc
      cases hs
      simp only [stepFd]
      cases hf : st.2.find? (·.1 == r) with
      | none =>
        refine ⟨st, rfl, ⟨h.mem, h.fresh, h.keyf, h.valf, ?_⟩⟩
        intro s x hm
        have hne : s ≠ r := by
          intro hsr
          have := List.find?_eq_none.1 hf (s, x) hm
          simp [hsr] at this
        exact (List.mem_erase_of_ne hne).2 (h.sub s x hm)
      | some e =>
        have hem := List.mem_of_find?_eq_some hf
        have hek : e.1 = r := by simpa using List.find?_some hf
        refine ⟨_, rfl, ⟨?_, ?_, ?_, ?_, ?_⟩⟩
        · intro x
          simp only [List.mem_filter, bne_iff_ne, ne_eq]
          constructor
          · rintro ⟨hx, hne⟩
            rcases (h.mem x).1 hx with h1 | ⟨s, h1⟩
            · exact Or.inl h1
            · refine Or.inr ⟨s, h1, ?_⟩
              intro hsr
              apply hne
              exact h.keyf r x e.2 (hsr ▸ h1) (hek ▸ hem)
          · rintro (h1 | ⟨s, h1, hsr⟩)
            · refine ⟨(h.mem x).2 (Or.inl h1), ?_⟩
              intro hxe
              exact h.fresh e.1 e.2 hem (hxe ▸ h1)
            · refine ⟨(h.mem x).2 (Or.inr ⟨s, h1⟩), ?_⟩
              intro hxe
              apply hsr
              exact (h.valf s e.1 x h1 (hxe ▸ hem)).trans hek
        · intro s x hm; exact h.fresh s x (List.mem_filter.1 hm).1
        · intro s x y hx hy; exact h.keyf s x y (List.mem_filter.1 hx).1 (List.mem_filter.1 hy).1
        · intro s t x hx hy; exact h.valf s t x (List.mem_filter.1 hx).1 (List.mem_filter.1 hy).1
        · intro s x hm
          obtain ⟨hm, hne⟩ := List.mem_filter.1 hm
          exact (List.mem_erase_of_ne (by simpa using hne)).2 (h.sub s x hm)
    · cases hs
  | releaseInvalid via => simp only [stepEv] at hs; cases hs; exact ⟨st, rfl, h⟩
  | step what ok => simp only [stepEv] at hs; cases hs; exact ⟨st, rfl, h⟩
  | mark what => simp only [stepEv] at hs; cases hs; exact ⟨st, rfl, h⟩

theorem runFds_inv {T0} : ∀ (evs : List Ev) (st : List Nat × List (Nat × Nat)) (live live' : List Nat), FdInv T0 st live →
    ResPath.run live evs = some live' → ∃ st', runFds st evs = some st' ∧ FdInv T0 st' live'
  | [], st, live, live', h, hr => by simp only [ResPath.run] at hr; cases hr; exact ⟨st, rfl, h⟩
  | e :: r, st, live, live', h, hr => by
    simp only [ResPath.run] at hr
    cases hs : stepEv live e with
    | none => simp [hs] at hr
    | some l1 =>
      simp only [hs] at hr
      obtain ⟨st1, h1, hI1⟩ := stepFd_inv e h hs
      obtain ⟨st2, h2, hI2⟩ := runFds_inv r st1 l1 live' hI1 hr
      exact ⟨st2, by simp only [runFds, h1, h2], hI2⟩

/-- A path that the abstract interpreter accepts with nothing live at the end leaves every descriptor table as it
found it, whatever was open before. -/
theorem runFds_restores (evs : List Ev) (h : ResPath.run [] evs = some []) (T : List Nat) :
    ∃ T', runFds (T, []) evs = some (T', []) ∧ ∀ x, x ∈ T' ↔ x ∈ T := by
  have h0 : FdInv T (T, []) [] :=
    { mem := fun x => by simp
      fresh := by intro r x hm; cases hm
      keyf := by intro r x y hm; cases hm
      valf := by intro r s x hm; cases hm
      sub := by intro r x hm; cases hm }
  obtain ⟨st', hrun, hI⟩ := runFds_inv evs (T, []) [] [] h0 h
  have hb : st'.2 = [] := by
    cases hb : st'.2 with
    | nil => rfl
    | cons e r =>
      have := hI.sub e.1 e.2 (by rw [hb]; exact List.mem_cons_self)
      cases this
  refine ⟨st'.1, ?_, ?_⟩
  · rw [hrun]; congr 1; exact Prod.ext rfl hb
  · intro x
    have := hI.mem x
    rw [hb] at this
    simpa using this

end Sonic.Model.Resources
