/-
The loop model refines the API-level ledger: every transition of `Sonic.Model.Loop` is matched by a transition of
`Sonic.Spec.Ledger` that keeps the coupling `Sim` (LoopLedgerRel.lean).
-/
import Sonic.Lemmas.LoopLedgerRel

namespace Sonic.Model.Loop
open Sonic.Spec.Loop (Ev Ret Res OpKind ObjKind maxDispatch)
open Sonic.Spec.Ledger (Rec LFrame L killFrames timerOn)

/-! ### Inversion of the stack relation -/

theorem stackRel_nil {w : World} {lst : List LFrame} (h : StackRel w [] lst) : lst = [] := by
  cases lst with
  | nil => rfl
  | cons _ _ => exact h.elim

theorem stackRel_cons {w : World} {k : K} {ks : List K} {lst : List LFrame} (h : StackRel w (k :: ks) lst) :
    ∃ f fs, lst = f :: fs ∧ FrameRel w k f ∧ StackRel w ks fs := by
  cases lst with
  | nil => exact h.elim
  | cons f fs => exact ⟨f, fs, rfl, h.1, h.2⟩

theorem fr_start {w : World} {op k : Nat} {kind : OpKind} {c : Bool} {f : LFrame} (h : FrameRel w (.startCall op k kind c) f) :
    f = .start ⟨op, k, kind⟩ c := by
  cases f <;> first | exact h.elim | (obtain ⟨h1, h2⟩ := h; rw [h1, h2])

theorem fr_sched {w : World} {op k : Nat} {rep : Bool} {t : Int} {c : Bool} {f : LFrame} (h : FrameRel w (.schedCall op k rep t c) f) :
    f = .sched ⟨op, k, if rep then .timerRep else .timerOnce⟩ c := by
  cases f <;> first | exact h.elim | (obtain ⟨h1, h2⟩ := h; rw [h1, h2])

theorem fr_post {w : World} {op : Nat} {f : LFrame} (h : FrameRel w (.postCall op) f) : f = .post op := by
  cases f <;> first | exact h.elim | (have : _ = op := h; rw [this])

theorem fr_close {w : World} {k : Nat} {f : LFrame} (h : FrameRel w (.closeCall k) f) : f = .close k := by
  cases f <;> first | exact h.elim | (have : _ = k := h; rw [this])

theorem fr_tcancel {w : World} {k : Nat} {f : LFrame} (h : FrameRel w (.tcancelCall k) f) : f = .tcancel k := by
  cases f <;> first | exact h.elim | (have : _ = k := h; rw [this])

theorem fr_pending {w : World} {f : LFrame} (h : FrameRel w .pendingCall f) : f = .pending := by
  cases f <;> first | exact h.elim | rfl

theorem fr_cancel {w : World} {k : Nat} {p : Phase} {f : LFrame} (h : FrameRel w (.cancelCall k p) f) : f = .other := by
  cases f <;> first | exact h.elim | rfl

theorem fr_scheduled {w : World} {k : Nat} {f : LFrame} (h : FrameRel w (.scheduledCall k) f) : f = .other := by
  cases f <;> first | exact h.elim | rfl

theorem fr_poll {w : World} {a : Bool} {f : LFrame} (h : FrameRel w (.pollCall a) f) : f = .other := by
  cases f <;> first | exact h.elim | rfl

theorem fr_otherc {w : World} {f : LFrame} (h : FrameRel w .otherCall f) : f = .other := by
  cases f <;> first | exact h.elim | rfl

theorem fr_finish {w : World} {f : LFrame} (h : FrameRel w .finishCall f) : f = .other := by
  cases f <;> first | exact h.elim | rfl

/-- What a handler frame of the model corresponds to. -/
theorem fr_user {w : World} {op : Nat} {a : After} {f : LFrame} (h : FrameRel w (.user op a) f) :
    ∃ r live, f = .handler r live ∧ r.id = op ∧
      ((∃ k cb, a = .timerDone k true cb ∧ r = ⟨op, k, .timerRep⟩ ∧ LiveRel w k cb live) ∨
       ((∀ k cb, a ≠ .timerDone k true cb) ∧ (r.kind = .timerRep → live = false))) := by
  cases a with
  | timerDone k rep cb =>
    cases rep with
    | true =>
      cases f with
      | handler r live => exact ⟨r, live, rfl, by rw [h.1], Or.inl ⟨k, cb, rfl, h.1, h.2⟩⟩
      | _ => exact h.elim
    | false =>
      cases f with
      | handler r live => exact ⟨r, live, rfl, h.1, Or.inr ⟨(by intro k' cb' e; cases e), h.2⟩⟩
      | _ => exact h.elim
  | none =>
    cases f with
    | handler r live => exact ⟨r, live, rfl, h.1, Or.inr ⟨(by intro k' cb' e; cases e), h.2⟩⟩
    | _ => exact h.elim
  | decDisp =>
    cases f with
    | handler r live => exact ⟨r, live, rfl, h.1, Or.inr ⟨(by intro k' cb' e; cases e), h.2⟩⟩
    | _ => exact h.elim
  | postDone =>
    cases f with
    | handler r live => exact ⟨r, live, rfl, h.1, Or.inr ⟨(by intro k' cb' e; cases e), h.2⟩⟩
    | _ => exact h.elim

/-- A handler frame that never re-arms (anything but the callback of a repeating schedule). -/
theorem fr_user_plain {w : World} {op : Nat} {a : After} {r : Rec} (hid : r.id = op) (ha : ∀ k cb, a ≠ .timerDone k true cb)
    (hk : r.kind = .timerRep → live = false) : FrameRel w (.user op a) (.handler r live) := by
  cases a with
  | timerDone k rep cb =>
    cases rep with
    | true => exact absurd rfl (ha k cb)
    | false => exact ⟨hid, hk⟩
  | none => exact ⟨hid, hk⟩
  | decDisp => exact ⟨hid, hk⟩
  | postDone => exact ⟨hid, hk⟩

/-! ### How an object update moves the model's view of the ledger -/

theorem absObjs_same {w w1 : World} {o o' : Obj} (h1 : w1.objs = w.objs) (h1o : w1.ops = w.ops) (hn : (ids w.objs).Nodup)
    (hg : getObj w o.id = some o) (hid : o'.id = o.id) (hc : contrib w.ops o' = contrib w.ops o) :
    absObjs w.ops (setObj w1 o').objs = absObjs w.ops w.objs := by
  have hn1 : (ids w1.objs).Nodup := by rw [h1]; exact hn
  have hg1 : getObj w1 o.id = some o := by unfold getObj at *; rw [h1]; exact hg
  obtain ⟨A, B, e1, e2, _⟩ := setObj_absObjs w1 o o' hn1 hg1 hid
  rw [h1o, h1] at e1
  rw [h1o] at e2
  rw [e2, e1, hc]

theorem absObjs_add {w w1 : World} {o o' : Obj} {r : Rec} (h1 : w1.objs = w.objs) (h1o : w1.ops = w.ops) (hn : (ids w.objs).Nodup)
    (hg : getObj w o.id = some o) (hid : o'.id = o.id) (hc : (contrib w.ops o').Perm (r :: contrib w.ops o)) :
    (absObjs w.ops (setObj w1 o').objs).Perm (r :: absObjs w.ops w.objs) := by
  have hn1 : (ids w1.objs).Nodup := by rw [h1]; exact hn
  have hg1 : getObj w1 o.id = some o := by unfold getObj at *; rw [h1]; exact hg
  obtain ⟨A, B, e1, e2, _⟩ := setObj_absObjs w1 o o' hn1 hg1 hid
  rw [h1o, h1] at e1
  rw [h1o] at e2
  rw [e2, e1]
  have : (A ++ contrib w.ops o' ++ B).Perm (A ++ (r :: contrib w.ops o) ++ B) :=
    List.Perm.append_right B (List.Perm.append_left A hc)
  refine this.trans ?_
  simp only [List.append_assoc, List.cons_append]
  exact List.perm_middle

theorem absObjs_remove {w w1 : World} {o o' : Obj} {r : Rec} (h1 : w1.objs = w.objs) (h1o : w1.ops = w.ops) (hn : (ids w.objs).Nodup)
    (hg : getObj w o.id = some o) (hid : o'.id = o.id) (hc : (contrib w.ops o).Perm (r :: contrib w.ops o')) :
    (absObjs w.ops w.objs).Perm (r :: absObjs w.ops (setObj w1 o').objs) := by
  have hn1 : (ids w1.objs).Nodup := by rw [h1]; exact hn
  have hg1 : getObj w1 o.id = some o := by unfold getObj at *; rw [h1]; exact hg
  obtain ⟨A, B, e1, e2, _⟩ := setObj_absObjs w1 o o' hn1 hg1 hid
  rw [h1o, h1] at e1
  rw [h1o] at e2
  rw [e2, e1]
  have : (A ++ contrib w.ops o ++ B).Perm (A ++ (r :: contrib w.ops o') ++ B) :=
    List.Perm.append_right B (List.Perm.append_left A hc)
  refine this.trans ?_
  simp only [List.append_assoc, List.cons_append]
  exact List.perm_middle

end Sonic.Model.Loop
