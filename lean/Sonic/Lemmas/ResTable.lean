/-
Lemmas about the descriptor-table model `Sonic.Model.Resources` (property C13): the invariant behind
"no Close ever closes a descriptor the object does not own at that moment", for arbitrary interleavings of object
creation (with any numbers the kernel may hand out) and repeated Close; and the lowest-free allocation policy.
-/
import Sonic.Model.Resources

namespace Sonic.Model.Resources

/-! ### lowest free number -/

theorem lowestFreeAux_spec (used : List Nat) : ∀ fuel n, (∀ i, i < n → used.contains i = true) →
    (∀ i, i < lowestFreeAux used fuel n → used.contains i = true) ∧ n ≤ lowestFreeAux used fuel n ∧
    (lowestFreeAux used fuel n < n + fuel → used.contains (lowestFreeAux used fuel n) = false)
  | 0, n, h => ⟨h, Nat.le_refl _, fun hlt => absurd hlt (by simp [lowestFreeAux])⟩
  | fuel + 1, n, h => by
    unfold lowestFreeAux
    split
    · rename_i hc
      have h' : ∀ i, i < n + 1 → used.contains i = true := by
        intro i hi
        rcases Nat.lt_succ_iff_lt_or_eq.1 hi with hl | he
        · exact h i hl
        · rw [he]; exact hc
      have ih := lowestFreeAux_spec used fuel (n + 1) h'
      refine ⟨ih.1, by omega, fun hlt => ih.2.2 (by omega)⟩
    · rename_i hc
      exact ⟨h, Nat.le_refl _, fun _ => by simpa using hc⟩

/-- Pigeonhole: a list that contains all of `0 … k-1` has at least `k` elements. -/
theorem length_ge_of_prefix : ∀ (k : Nat) (l : List Nat), (∀ i, i < k → i ∈ l) → k ≤ l.length
  | 0, _, _ => Nat.zero_le _
  | k + 1, l, h => by
    have hk : k ∈ l := h k (Nat.lt_succ_self k)
    have h' : ∀ i, i < k → i ∈ l.erase k := by
      intro i hi
      exact (List.mem_erase_of_ne (by omega)).2 (h i (by omega))
    have ih := length_ge_of_prefix k (l.erase k) h'
    rw [List.length_erase_of_mem hk] at ih
    have : 0 < l.length := List.length_pos_of_mem hk
    omega

/-- The lowest free number is free. -/
theorem lowestFree_not_mem (used : List Nat) : used.contains (lowestFree used) = false := by
  unfold lowestFree
  have h := lowestFreeAux_spec used used.length 0 (fun i hi => absurd hi (Nat.not_lt_zero i))
  by_cases hlt : lowestFreeAux used used.length 0 < 0 + used.length
  · exact h.2.2 hlt
  · -- every number below `used.length` is in use, and so would be `used.length`: too many elements
    cases hc : used.contains (lowestFreeAux used used.length 0) with
    | false => rfl
    | true =>
      exfalso
      have hall : ∀ i, i < lowestFreeAux used used.length 0 + 1 → i ∈ used := by
        intro i hi
        rcases Nat.lt_succ_iff_lt_or_eq.1 hi with hl | he
        · simpa using h.1 i hl
        · rw [he]; simpa using hc
      have := length_ge_of_prefix _ used hall
      omega

/-- … and it is the lowest: everything below it is in use. -/
theorem lowestFree_least (used : List Nat) (i : Nat) (h : i < lowestFree used) : used.contains i = true :=
  (lowestFreeAux_spec used used.length 0 (fun i hi => absurd hi (Nat.not_lt_zero i))).1 i h

/-! ### the Close / create invariant -/

/-- Functional table, every open object's stored numbers are its own in the table, object ids are unique, and no logged
close hit a number owned by somebody else. -/
structure Inv (w : World) : Prop where
  func : ∀ fd a b, (fd, a) ∈ w.table → (fd, b) ∈ w.table → a = b
  owns : ∀ o ∈ w.objs, o.closed = false → ∀ fd ∈ o.fds, (fd, o.id) ∈ w.table
  uniq : ∀ o ∈ w.objs, ∀ o' ∈ w.objs, o.id = o'.id → o = o'
  back : ∀ fd a, (fd, a) ∈ w.table → ∃ o ∈ w.objs, o.id = a ∧ o.closed = false ∧ fd ∈ o.fds
  log  : ∀ e ∈ w.log, e.owner = some e.obj

theorem inv_init : Inv ({} : World) where
  func := by intro fd a b h; cases h
  owns := by intro o h; cases h
  uniq := by intro o h; cases h
  back := by intro fd a h; cases h
  log := by intro e h; cases h

theorem ownerOf_eq {w : World} (hI : Inv w) {fd k : Nat} (h : (fd, k) ∈ w.table) : ownerOf w fd = some k := by
  unfold ownerOf
  cases hf : w.table.find? (·.1 == fd) with
  | none =>
    have := List.find?_eq_none.1 hf (fd, k) h
    simp at this
  | some e =>
    have hm := List.mem_of_find?_eq_some hf
    have hp := List.find?_some hf
    have he : e.1 = fd := by simpa using hp
    have : (fd, e.2) ∈ w.table := by rw [← he]; exact hm
    simp only [Option.map_some]
    exact congrArg some (hI.func fd e.2 k this h)

theorem getObj_mem {w : World} {k : Nat} {o : Obj} (h : getObj w k = some o) : o ∈ w.objs ∧ o.id = k := by
  unfold getObj at h
  exact ⟨List.mem_of_find?_eq_some h, by simpa using List.find?_some h⟩

theorem isOpen_false {w : World} {fd : Nat} (h : isOpen w fd = false) (a : Nat) : (fd, a) ∉ w.table := by
  intro hm
  unfold isOpen at h
  have := List.any_eq_false.1 h (fd, a) hm
  simp at this

/-- **Every transition preserves the invariant** — for the guarded Close of the library. -/
theorem step_inv (w w' : World) (op : Op) (hI : Inv w) (h : step true w op = some w') : Inv w' := by
  cases op with
  | new k fds =>
    simp only [step] at h
    split at h
    · cases h
    · rename_i hc
      simp only [Bool.or_eq_true, Bool.not_eq_true', not_or, Bool.not_eq_true] at hc
      obtain ⟨⟨hfresh, _⟩, hfree⟩ := hc
      cases h
      have hnone : getObj w k = none := by
        cases hg : getObj w k with
        | none => rfl
        | some o => rw [hg] at hfresh; simp at hfresh
      have hfree' : ∀ fd ∈ fds, ∀ a, (fd, a) ∉ w.table := by
        intro fd hfd a
        have h1 := List.any_eq_false.1 hfree fd hfd
        exact isOpen_false (by simpa using h1) a
      have hnew : ∀ fd a, (fd, a) ∈ fds.map (·, k) → fd ∈ fds ∧ a = k := by
        intro fd a hm
        simp only [List.mem_map, Prod.mk.injEq] at hm
        obtain ⟨x, hx, rfl, rfl⟩ := hm
        exact ⟨hx, rfl⟩
      refine ⟨?_, ?_, ?_, ?_, hI.log⟩
      · intro fd a b ha hb
        simp only [List.mem_append] at ha hb
        rcases ha with ha | ha <;> rcases hb with hb | hb
        · rw [(hnew fd a ha).2, (hnew fd b hb).2]
        · exact absurd hb (hfree' fd (hnew fd a ha).1 b)
        · exact absurd ha (hfree' fd (hnew fd b hb).1 a)
        · exact hI.func fd a b ha hb
      · intro o ho hcl fd hfd
        simp only [List.mem_cons] at ho
        simp only [List.mem_append]
        rcases ho with rfl | ho
        · left; exact List.mem_map.2 ⟨fd, hfd, rfl⟩
        · right; exact hI.owns o ho hcl fd hfd
      · intro o ho o' ho' hid
        simp only [List.mem_cons] at ho ho'
        have hk : ∀ x ∈ w.objs, x.id ≠ k := by
          intro x hx hxk
          unfold getObj at hnone
          have := List.find?_eq_none.1 hnone x hx
          simp [hxk] at this
        rcases ho with rfl | ho <;> rcases ho' with rfl | ho'
        · rfl
        · exact absurd hid.symm (hk o' ho')
        · exact absurd hid (hk o ho)
        · exact hI.uniq o ho o' ho' hid
      · intro fd a hm
        simp only [List.mem_append] at hm
        rcases hm with hm | hm
        · obtain ⟨hfd, rfl⟩ := hnew fd a hm
          exact ⟨_, List.mem_cons_self, rfl, rfl, hfd⟩
        · obtain ⟨o, ho, h1, h2, h3⟩ := hI.back fd a hm
          exact ⟨o, List.mem_cons_of_mem _ ho, h1, h2, h3⟩
  | close k =>
    simp only [step] at h
    cases hg : getObj w k with
    | none => simp [hg] at h
    | some o =>
      simp only [hg] at h
      obtain ⟨hom, hoid⟩ := getObj_mem hg
      split at h
      · cases h; exact hI
      · rename_i hc
        have hopen : o.closed = false := by
          cases hcl : o.closed with
          | false => rfl
          | true => simp [hcl] at hc
        cases h
        refine ⟨?_, ?_, ?_, ?_, ?_⟩
        · intro fd a b ha hb
          exact hI.func fd a b (List.mem_filter.1 ha).1 (List.mem_filter.1 hb).1
        · intro x hx hxc fd hfd
          simp only [List.mem_map] at hx
          obtain ⟨y, hy, rfl⟩ := hx
          by_cases hyk : y.id == k
          · simp [hyk] at hxc
          · simp only [hyk] at hxc hfd ⊢
            have hyo : (fd, y.id) ∈ w.table := hI.owns y hy hxc fd hfd
            apply List.mem_filter.2 ⟨hyo, ?_⟩
            -- `fd` is not one of `o`'s numbers: otherwise the table would give it two owners
            simp only [Bool.not_eq_true']
            cases hcon : o.fds.contains fd with
            | false => rfl
            | true =>
              exfalso
              have hfo : (fd, o.id) ∈ w.table := hI.owns o hom hopen fd (by simpa using hcon)
              have : y.id = o.id := hI.func fd y.id o.id hyo hfo
              exact hyk (by simp [this, hoid])
        · intro x hx x' hx' hid
          simp only [List.mem_map] at hx hx'
          obtain ⟨y, hy, rfl⟩ := hx
          obtain ⟨y', hy', rfl⟩ := hx'
          have hyy : y.id = y'.id := by
            by_cases h1 : y.id == k <;> by_cases h2 : y'.id == k <;> simp only [h1, h2] at hid
            · exact (by simpa using h1 : y.id = k).trans (by simpa using h2 : y'.id = k).symm
            · exact hid
            · exact hid
            · exact hid
          rw [hI.uniq y hy y' hy' hyy]
        · intro fd a hm
          obtain ⟨hm, hnc⟩ := List.mem_filter.1 hm
          obtain ⟨y, hy, h1, h2, h3⟩ := hI.back fd a hm
          have hyk : (y.id == k) = false := by
            cases hyk : y.id == k with
            | false => rfl
            | true =>
              exfalso
              have : y = o := hI.uniq y hy o hom ((by simpa using hyk : y.id = k).trans hoid.symm)
              rw [this] at h3
              simp only [Bool.not_eq_true'] at hnc
              have : o.fds.contains fd = true := by simpa using h3
              rw [this] at hnc; cases hnc
          refine ⟨_, List.mem_map.2 ⟨y, hy, rfl⟩, ?_, ?_, ?_⟩ <;> simp only [hyk] <;> first | exact h1 | exact h2 | exact h3
        · intro e he
          simp only [List.mem_append, List.mem_map] at he
          rcases he with he | ⟨fd, hfd, rfl⟩
          · exact hI.log e he
          · simp only
            exact ownerOf_eq hI (hoid ▸ hI.owns o hom hopen fd hfd)

theorem run_inv (w w' : World) (ops : List Op) (hI : Inv w) (h : run true w ops = some w') : Inv w' := by
  induction ops generalizing w with
  | nil => simp only [run] at h; cases h; exact hI
  | cons op r ih =>
    simp only [run] at h
    cases hs : step true w op with
    | none => simp [hs] at h
    | some w1 =>
      simp only [hs] at h
      exact ih w1 (step_inv w w1 op hI hs) h

end Sonic.Model.Resources
