/-
Dispatch-depth accounting of the loop model (C14): `IO.Dispatched` equals a base value (0, or what the
program stored in the public field while at top level) plus the number of inline-completion frames on the
stack, and every inline-completion frame was pushed while the counter was below `MaxCallbackDispatch`.
-/
import Sonic.Lemmas.LoopInv

namespace Sonic.Model.Loop
open Sonic.Spec.Loop (Ev Ret Res OpKind ObjKind maxDispatch)

/-- Number of inline-completion frames (the `Dispatched++ … Dispatched--` wrapper) on the stack. -/
def decFrames : List K → Int
  | [] => 0
  | .user _ .decDisp :: r => 1 + decFrames r
  | _ :: r => decFrames r

/-- Every inline-completion frame was entered with the counter below the limit. -/
def DispOk (b : Int) : List K → Prop
  | [] => True
  | .user _ .decDisp :: r => b + decFrames r < (maxDispatch : Int) ∧ DispOk b r
  | _ :: r => DispOk b r

def DispInv (b : Int) (w : World) : Prop :=
  0 ≤ b ∧ w.dispatched = b + decFrames w.stack ∧ DispOk b w.stack

/-- The program may store a value in `IO.Dispatched` (the harness does, to force the deferred path), but only at
top level and only a non-negative one. -/
def EvOk (w : World) : Ev → Prop
  | .callSetDisp n => w.stack = [] ∧ 0 ≤ n
  | _ => True

theorem decFrames_nonneg : ∀ st : List K, 0 ≤ decFrames st
  | [] => by simp [decFrames]
  | k :: r => by
    have := decFrames_nonneg r
    cases k with
    | user op a => cases a <;> simp [decFrames] <;> omega
    | _ => simpa [decFrames] using this

theorem decFrames_cons_other (k : K) (r : List K) (h : ∀ op, k ≠ .user op .decDisp) : decFrames (k :: r) = decFrames r := by
  cases k with
  | user op a => cases a <;> first | rfl | exact absurd rfl (h op)
  | _ => rfl

theorem dispOk_cons_other (b : Int) (k : K) (r : List K) (h : ∀ op, k ≠ .user op .decDisp) : DispOk b (k :: r) ↔ DispOk b r := by
  cases k with
  | user op a => cases a <;> first | exact Iff.rfl | exact absurd rfl (h op)
  | _ => exact Iff.rfl

/-- Inline-completion frames never exceed the limit. -/
theorem decFrames_le (b : Int) (hb : 0 ≤ b) : ∀ st : List K, DispOk b st → decFrames st ≤ (maxDispatch : Int)
  | [], _ => by simp [decFrames]
  | k :: r, h => by
    cases k with
    | user op a =>
      cases a with
      | decDisp => simp only [DispOk] at h; simp only [decFrames]; omega
      | none => exact decFrames_le b hb r h
      | postDone => exact decFrames_le b hb r h
      | timerDone _ _ _ => exact decFrames_le b hb r h
    | _ => exact decFrames_le b hb r h

@[simp] theorem closeObj_disp (w : World) (o : Obj) : (closeObj w o).dispatched = w.dispatched := by
  unfold closeObj
  split
  · simp [unsetPending]
  · simp
@[simp] theorem closeObj_stack (w : World) (o : Obj) : (closeObj w o).stack = w.stack := by
  unfold closeObj
  split
  · simp [unsetPending]
  · simp

theorem disp_same {b : Int} {w w' : World} (hI : DispInv b w) (hd : w'.dispatched = w.dispatched)
    (hf : decFrames w'.stack = decFrames w.stack) (hok : DispOk b w.stack → DispOk b w'.stack) : DispInv b w' :=
  ⟨hI.1, by rw [hd, hf]; exact hI.2.1, hok hI.2.2⟩

/-- pop a frame that is not an inline-completion frame -/
theorem disp_pop {b : Int} {w w' : World} {k : K} {rest : List K} (hI : DispInv b w) (hst : w.stack = k :: rest)
    (hd : w'.dispatched = w.dispatched) (hs : w'.stack = rest) (hk : ∀ op, k ≠ .user op .decDisp) : DispInv b w' := by
  refine disp_same hI hd ?_ ?_
  · rw [hs, hst, decFrames_cons_other k rest hk]
  · rw [hs, hst, dispOk_cons_other b k rest hk]; exact id

/-- replace the top frame by another one, neither being an inline-completion frame -/
theorem disp_swap {b : Int} {w w' : World} {k k' : K} {rest : List K} (hI : DispInv b w) (hst : w.stack = k :: rest)
    (hd : w'.dispatched = w.dispatched) (hs : w'.stack = k' :: rest)
    (hk : ∀ op, k ≠ .user op .decDisp) (hk' : ∀ op, k' ≠ .user op .decDisp) : DispInv b w' := by
  refine disp_same hI hd ?_ ?_
  · rw [hs, hst, decFrames_cons_other k rest hk, decFrames_cons_other k' rest hk']
  · rw [hs, hst, dispOk_cons_other b k rest hk, dispOk_cons_other b k' rest hk']; exact id

/-- push frames that are not inline-completion frames on top of a replaced top frame -/
theorem disp_push2 {b : Int} {w w' : World} {k k1 k2 : K} {rest : List K} (hI : DispInv b w) (hst : w.stack = k :: rest)
    (hd : w'.dispatched = w.dispatched) (hs : w'.stack = k1 :: k2 :: rest)
    (hk : ∀ op, k ≠ .user op .decDisp) (hk1 : ∀ op, k1 ≠ .user op .decDisp) (hk2 : ∀ op, k2 ≠ .user op .decDisp) : DispInv b w' := by
  refine disp_same hI hd ?_ ?_
  · rw [hs, hst, decFrames_cons_other k rest hk, decFrames_cons_other k1 _ hk1, decFrames_cons_other k2 rest hk2]
  · rw [hs, hst, dispOk_cons_other b k rest hk, dispOk_cons_other b k1 _ hk1, dispOk_cons_other b k2 rest hk2]; exact id

theorem disp_push {b : Int} {w w' : World} {k : K} (hI : DispInv b w)
    (hd : w'.dispatched = w.dispatched) (hs : w'.stack = k :: w.stack) (hk : ∀ op, k ≠ .user op .decDisp) : DispInv b w' := by
  refine disp_same hI hd ?_ ?_
  · rw [hs, decFrames_cons_other k _ hk]
  · rw [hs, dispOk_cons_other b k _ hk]; exact id

theorem applyAfter_disp (b : Int) (w : World) (op : Nat) (a : After) (rest : List K)
    (hI : DispInv b { w with stack := .user op a :: rest }) :
    DispInv b (applyAfter { w with stack := rest } op a) := by
  obtain ⟨hb, hd, hok⟩ := hI
  cases a with
  | none => exact ⟨hb, by simpa [applyAfter, decFrames] using hd, by simpa [applyAfter, DispOk] using hok⟩
  | decDisp =>
    refine ⟨hb, ?_, ?_⟩
    · simp only [applyAfter, decFrames] at hd ⊢; omega
    · simp only [applyAfter, DispOk] at hok ⊢; exact hok.2
  | postDone => exact ⟨hb, by simpa [applyAfter, decFrames] using hd, by simpa [applyAfter, DispOk] using hok⟩
  | timerDone k rep cb =>
    simp only [applyAfter]
    have base : DispInv b { w with stack := rest } := ⟨hb, by simpa [decFrames] using hd, by simpa [DispOk] using hok⟩
    cases hg : getObj { w with stack := rest } k with
    | none => exact base
    | some o =>
      simp only
      repeat' split
      all_goals first
        | exact base
        | exact disp_same base (by simp) (by simp) (by simp)

theorem cancelStep_disp (b : Int) (w w' : World) (k : Nat) (phase : Phase) (rest : List K) (e : Ev)
    (hst : w.stack = .cancelCall k phase :: rest) (hI : DispInv b w) (h : cancelStep w k phase rest e = some w') : DispInv b w' := by
  unfold cancelStep at h
  cases hg : getObj w k with
  | none => simp [hg] at h
  | some o =>
    simp only [hg] at h
    cases e with
    | enter op res n data early =>
      simp only at h
      repeat' split at h
      all_goals first
        | (cases h; done)
        | (cases h; exact disp_push2 hI hst (by simp) rfl (by intro; simp) (by intro; simp) (by intro; simp))
    | ret r =>
      simp only at h
      repeat' split at h
      all_goals first
        | (cases h; done)
        | (cases h; exact disp_pop hI hst (by simp) rfl (by intro; simp))
    | _ => simp at h

theorem pollDispatch_disp (b : Int) (w w' : World) (op : Nat) (any : Bool) (rest : List K)
    (hst : w.stack = .pollCall any :: rest) (hI : DispInv b w) (h : pollDispatch w op rest = some w') : DispInv b w' := by
  unfold pollDispatch at h
  cases hop : getOp w op with
  | none => simp [hop] at h
  | some info =>
    simp only [hop] at h
    repeat' split at h
    all_goals first
      | (cases h; done)
      | (cases h; exact disp_push2 hI hst (by simp) rfl (by intro; simp) (by intro; simp) (by intro; simp))

set_option hygiene false in
/-- Close one fully split branch of a dispatch-accounting case where the top frame `k` (see `hst`) is popped,
swapped, or has frames pushed over it. -/
macro "disp_branch" : tactic =>
  `(tactic| first
    | (cases h; done)
    | (cases h; exact Or.inl (disp_pop hI hst (by simp) rfl (by intro; simp)))
    | (cases h; exact Or.inl (disp_swap hI hst (by simp) rfl (by intro; simp) (by intro; simp)))
    | (cases h; exact Or.inl (disp_push2 hI hst (by simp) rfl (by intro; simp) (by intro; simp) (by intro; simp))))

/-- **Dispatch accounting is an invariant of the loop model** (the base value changes only by an explicit store
into `IO.Dispatched` at top level). -/
theorem step_disp_core (b : Int) (w w' : World) (e : Ev) (hI : DispInv b w) (hev : EvOk w e) (h : step w e = some w') :
    DispInv b w' ∨ ∃ n, e = .callSetDisp n ∧ DispInv n w' := by
  unfold step at h
  split at h
  · -- object creation
    rename_i k kind hst
    repeat' split at h
    all_goals first
      | (cases h; done)
      | (cases h; exact Or.inl (disp_same hI rfl rfl id))
  · -- handler returns
    rename_i op after rest op' hst
    split at h
    · cases h
      refine Or.inl (applyAfter_disp b w op after rest ?_)
      have : { w with stack := K.user op after :: rest } = w := by rw [← hst]
      rw [this]; exact hI
    · cases h
  · rename_i k phase rest hst
    exact Or.inl (cancelStep_disp b w w' k phase rest _ hst hI h)
  · -- inline callback inside a start call
    rename_i op k kind rest op' res n data early hst
    cases hg : getObj w k with
    | none => simp [hg] at h
    | some o =>
      simp only [hg] at h
      split at h
      · cases h
      · split at h
        · -- counted: Dispatched < Max, Dispatched++
          rename_i hc
          cases h
          obtain ⟨hb, hd, hok⟩ := hI
          have hlt : w.dispatched < (maxDispatch : Int) := by
            simp only [Bool.and_eq_true, decide_eq_true_eq] at hc; exact hc.2
          rw [hst] at hd hok
          simp only [decFrames] at hd
          simp only [DispOk] at hok
          refine Or.inl ⟨hb, ?_, ?_⟩
          · simp only [decFrames]; omega
          · simp only [DispOk, decFrames]; exact ⟨by omega, hok⟩
        · repeat' split at h
          all_goals disp_branch
  · -- start call returns
    rename_i op k kind completed rest r hst
    cases hg : getObj w k with
    | none =>
      simp only [hg] at h
      repeat' split at h
      all_goals disp_branch
    | some o =>
      simp only [hg] at h
      repeat' split at h
      all_goals disp_branch
  · -- Close
    rename_i k rest isNil hst
    cases hg : getObj w k with
    | none => simp [hg] at h
    | some o =>
      simp only [hg] at h
      repeat' split at h
      all_goals disp_branch
  · -- zero-delay ScheduleOnce runs the callback inline
    rename_i op k rep ticks rest op' res n data early hst
    cases hg : getObj w k with
    | none => simp [hg] at h
    | some o =>
      simp only [hg] at h
      repeat' split at h
      all_goals disp_branch
  · -- Schedule* returns
    rename_i op k rep ticks completed rest isNil hst
    cases hg : getObj w k with
    | none => simp [hg] at h
    | some o =>
      simp only [hg] at h
      repeat' split at h
      all_goals disp_branch
  · -- Timer.Cancel
    rename_i k rest isNil hst
    cases hg : getObj w k with
    | none => simp [hg] at h
    | some o =>
      simp only [hg] at h
      repeat' split at h
      all_goals first
        | disp_branch
        | (cases h; exact Or.inl (disp_pop hI hst (by simp [unsetPending]) rfl (by intro; simp)))
  · -- Scheduled()
    rename_i k rest bb hst
    cases hg : getObj w k with
    | none => simp [hg] at h
    | some o =>
      simp only [hg] at h
      repeat' split at h
      all_goals disp_branch
  · -- Post returns
    rename_i op rest isNil hst
    repeat' split at h
    all_goals disp_branch
  · -- the poller dispatches a handler
    rename_i any rest op res n data early hst
    exact Or.inl (pollDispatch_disp b w w' op any rest hst hI h)
  · rename_i any rest n res hst
    repeat' split at h
    all_goals disp_branch
  · rename_i any rest n hst
    repeat' split at h
    all_goals disp_branch
  · rename_i rest p q d hst
    repeat' split at h
    all_goals disp_branch
  · rename_i rest r hst
    disp_branch
  · -- calls made from user code
    split at h
    · cases h
    · split at h
      all_goals first
        | -- the explicit store into IO.Dispatched: only at top level, non-negative
          (cases h
           simp only [EvOk] at hev
           obtain ⟨hst, hn⟩ := hev
           exact Or.inr ⟨_, rfl, hn, by simp [hst, decFrames], by simp [hst, DispOk]⟩)
        | (repeat' split at h
           all_goals first
             | (cases h; done)
             | (cases h; exact Or.inl (disp_push hI rfl rfl (by intro; simp)))
             | (cases h; rename_i hst; exact Or.inl (disp_pop hI hst rfl rfl (by intro; simp))))

theorem step_disp (b : Int) (w w' : World) (e : Ev) (hI : DispInv b w) (hev : EvOk w e) (h : step w e = some w') :
    ∃ b', DispInv b' w' := by
  rcases step_disp_core b w w' e hI hev h with h1 | ⟨n, _, h2⟩
  · exact ⟨b, h1⟩
  · exact ⟨n, h2⟩

/-- Without an explicit store the base does not move. -/
theorem step_disp_same_base (b : Int) (w w' : World) (e : Ev) (hI : DispInv b w) (hev : EvOk w e) (h : step w e = some w')
    (hne : ∀ n, e ≠ .callSetDisp n) : DispInv b w' := by
  rcases step_disp_core b w w' e hI hev h with h1 | ⟨n, he, _⟩
  · exact h1
  · exact absurd he (hne n)

end Sonic.Model.Loop
