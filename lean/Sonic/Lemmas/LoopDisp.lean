/-
Dispatch-depth accounting of the loop model (C14): `IO.Dispatched` equals a base value (0, or what the
program stored in the public field while at top level) plus the number of inline-completion frames on the
stack, and every inline-completion frame was pushed while the counter was below `MaxCallbackDispatch`.
-/
import Sonic.Lemmas.LoopInv

namespace Sonic.Model.Loop
open Sonic.Spec.Loop (Ev Ret Res OpKind ObjKind maxDispatch)

/-- Number of inline-completion frames (the `Dispatched++ … Dispatched--` wrapper) on the stack. -/
def decFrames : List K → Int
  | [] => 0
  | .user _ .decDisp :: r => 1 + decFrames r
  | _ :: r => decFrames r

/-- Every inline-completion frame was entered with the counter below the limit. -/
def DispOk (b : Int) : List K → Prop
  | [] => True
  | .user _ .decDisp :: r => b + decFrames r < (maxDispatch : Int) ∧ DispOk b r
  | _ :: r => DispOk b r

def DispInv (b : Int) (w : World) : Prop :=
  0 ≤ b ∧ w.dispatched = b + decFrames w.stack ∧ DispOk b w.stack

/-- The program may store a value in `IO.Dispatched` (the harness does, to force the deferred path), but only at
top level and only a non-negative one. -/
def EvOk (w : World) : Ev → Prop
  | .callSetDisp n => w.stack = [] ∧ 0 ≤ n
  | _ => True

theorem decFrames_nonneg : ∀ st : List K, 0 ≤ decFrames st
  | [] => by simp [decFrames]
  | k :: r => by
    have := decFrames_nonneg r
    cases k with
    | user op a => cases a <;> simp [decFrames] <;> omega
    | _ => simpa [decFrames] using this

theorem decFrames_cons_other (k : K) (r : List K) (h : ∀ op, k ≠ .user op .decDisp) : decFrames (k :: r) = decFrames r := by
  cases k with
  | user op a => cases a <;> first | rfl | exact absurd rfl (h op)
  | _ => rfl

theorem dispOk_cons_other (b : Int) (k : K) (r : List K) (h : ∀ op, k ≠ .user op .decDisp) : DispOk b (k :: r) ↔ DispOk b r := by
  cases k with
  | user op a => cases a <;> first | exact Iff.rfl | exact absurd rfl (h op)
  | _ => exact Iff.rfl

/-- Inline-completion frames never exceed the limit. -/
theorem decFrames_le (b : Int) (hb : 0 ≤ b) : ∀ st : List K, DispOk b st → decFrames st ≤ (maxDispatch : Int)
  | [], _ => by simp [decFrames]
  | k :: r, h => by
    cases k with
    | user op a =>
      cases a with
      | decDisp => simp only [DispOk] at h; simp only [decFrames]; omega
      | none => exact decFrames_le b hb r h
      | postDone => exact decFrames_le b hb r h
      | timerDone _ _ => exact decFrames_le b hb r h
    | _ => exact decFrames_le b hb r h

end Sonic.Model.Loop
