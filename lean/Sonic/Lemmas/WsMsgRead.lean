/-
C06, composition step 1: `CodecConn.ReadNext` over the decoder model of C07.

For every codec state that satisfies the C07 invariant, every queue of transport segments and every capacity answer of
the runtime, the read loop (decode; on "need more" one transport read; decode again) returns the first frame of the
bytes that are still ahead (`rem`: unconsumed buffer contents followed by the queued segments) — whatever the
segmentation — and leaves exactly the bytes behind that frame; when no complete frame is ahead it drains the transport
and reports that nothing is there.  Built on `decode_frame / decode_needMore / decode_tooBig` (Lemmas/WsDecode.lean) and
prefix monotonicity of the RFC 6455 parser (Lemmas/WsParse.lean).
-/
import Sonic.Model.WsMsg
import Sonic.Lemmas.WsDecode

namespace Sonic.Lemmas.WsMsg
open Sonic.Model.WsBuf Sonic.Model.WsFrame Sonic.Spec.WsFrame Sonic.Model.WsMsg
open Sonic.Model.WsStream (Next)
open Sonic.Spec.WsStream (Err)

theorem lift_ok {α : Type} (a : α) : lift (.ok a : Sonic.Model.WsBuf.M α) = .ok a := rfl
theorem lift_err {α : Type} (p : Panic) : lift (.error p : Sonic.Model.WsBuf.M α) = .error (.buf p) := rfl

/-- The bytes ahead of the reader: received but not yet consumed, then what the transport still holds. -/
def rem (w : W) : List UInt8 := w.c.unconsumed ++ w.chunks.flatten

theorem readFrom_min {b : Buf} (avail : List UInt8) (hI : b.Inv) :
    ∃ B, b.ReadFrom avail = .ok (B, min (b.cap - b.wi).toNat avail.length) ∧ B.Inv ∧
      B.data = b.data ++ avail.take (min (b.cap - b.wi).toNat avail.length) ∧ B.ri = b.ri ∧ B.cap = b.cap := by
  obtain ⟨hsi, h1, h2, h3, h4, h5⟩ := hI
  unfold Buf.ReadFrom Buf.sliceLen
  rw [if_pos (by omega)]
  simp only [ebind_ok, epure]
  refine ⟨_, rfl, ⟨hsi, h1, by dsimp only; omega, by dsimp only; omega, h4, ?_⟩, rfl, rfl, rfl⟩
  dsimp only
  rw [List.length_append, List.length_take]; omega

/-- One transport read after "need more": the bytes ahead are the same, the loop bound decreases. -/
theorem transportRead_step (k : W → X (W × Next)) (w : W) (ch : List UInt8) (rest : List (List UInt8))
    (hI : w.c.Inv) (hr : w.c.reset = false) (hroom : 0 < w.c.buf.cap - w.c.buf.wi) (hch : w.chunks = ch :: rest) :
    ∃ w2, transportRead k w = k w2 ∧ w2.c.Inv ∧ w2.c.max = w.c.max ∧ w2.m = w.m ∧ rem w2 = rem w ∧
      readFuel w2 < readFuel w := by
  obtain ⟨hb, hcap, hmax, _⟩ := hI
  obtain ⟨B, hB, bi, bd, bri, bc⟩ := readFrom_min ch hb
  generalize hn : min (w.c.buf.cap - w.c.buf.wi).toNat ch.length = n at hB bd
  unfold transportRead
  simp only [hch, hB, lift_ok, ebind_ok]
  refine ⟨_, rfl, ⟨bi, by dsimp only; omega, hmax, fun h => by dsimp only at h; rw [hr] at h; cases h⟩, rfl, rfl, ?_, ?_⟩
  · unfold rem Codec.unconsumed Codec.held
    dsimp only
    rw [hr, hch, bd]
    simp only [Bool.false_eq_true, if_false, List.drop_zero]
    by_cases hlt : n < ch.length
    · rw [if_pos hlt]
      simp only [List.flatten_cons, List.append_assoc]
      rw [← List.append_assoc (ch.take n), List.take_append_drop]
    · rw [if_neg hlt, List.take_of_length_le (by omega)]
      simp only [List.flatten_cons, List.append_assoc]
  · unfold readFuel
    dsimp only
    rw [hch]
    by_cases hlt : n < ch.length
    · rw [if_pos hlt]
      have hpos : 0 < n := by
        have : 0 < (w.c.buf.cap - w.c.buf.wi).toNat := by omega
        omega
      simp only [List.map_cons, List.sum_cons, List.length_cons, List.length_drop]
      omega
    · rw [if_neg hlt]
      simp only [List.map_cons, List.sum_cons, List.length_cons]
      omega

theorem view_take {max : Int} {P : List UInt8} {f : Frame} {n : Nat} (hp : parse max P = .frame f n) :
    view (P.take n) = .ok (f, n) := by
  obtain ⟨h2, hn, hle, hf, hd⟩ := parse_frame hp
  have hge := hdrLen_ge P
  have hh : 2 + extLen (byteAt P 1) ≤ hdrLen P := by unfold hdrLen; omega
  have hl : (P.take n).length = n := by rw [List.length_take]; omega
  rw [view_eq (by omega) (by rw [hl, hdrLen_take h2 (by omega), declLen_take h2 (by omega) (by omega)]; exact hn), hl,
    frameOf_take h2 (by omega) (by omega), hf]

/-- **A frame is ahead**: the loop returns it, whatever the segmentation and the runtime's capacity answers. -/
theorem readNextFuel_frame : ∀ (fuel : Nat) (w : W) (f : Frame) (n : Nat), w.c.Inv →
    parse w.c.max (rem w) = .frame f n → readFuel w ≤ fuel →
    readNextFuel fuel w = .error (.buf .env) ∨
    ∃ w', readNextFuel fuel w = .ok (w', .frame (toIn f)) ∧ w'.c.Inv ∧ w'.c.max = w.c.max ∧ w'.m = w.m ∧
      rem w' = (rem w).drop n := by
  intro fuel
  induction fuel with
  | zero => intro w f n _ _ hf; unfold readFuel at hf; omega
  | succ fuel ih =>
    intro w f n hI hp hfuel
    unfold readNextFuel
    cases hpu : parse w.c.max w.c.unconsumed with
    | frame g k =>
      have := parse_append_frame (t := w.chunks.flatten) hpu
      unfold rem at hp
      rw [hp] at this
      injection this with hg hk
      subst hg; subst hk
      obtain ⟨c', hD, ci, cr, cf, cd, cm, cc⟩ := decode_frame (capFor w.c w.rooms) hI hpu
      obtain ⟨_, _, hle, _, _⟩ := parse_frame hpu
      right
      simp only [hD, lift_ok, ebind_ok, onDecoded, view_take hpu, epure]
      refine ⟨_, rfl, ci, cm, rfl, ?_⟩
      have hu' : c'.unconsumed = c'.buf.data.drop n := by
        unfold Codec.unconsumed Codec.held; rw [cr, cf]; simp
      show c'.unconsumed ++ w.chunks.flatten = (w.c.unconsumed ++ w.chunks.flatten).drop n
      rw [hu', cd, List.drop_append_of_le_length hle]
    | tooBig =>
      have := parse_append_tooBig (t := w.chunks.flatten) hpu
      unfold rem at hp
      rw [hp] at this; cases this
    | needMore =>
      rcases decode_needMore (capFor w.c w.rooms) hI hpu with he | ⟨c', g, hD, ci, cr, cd, cm, cpos, _⟩
      · left; rw [he]; rfl
      · simp only [hD, lift_ok, ebind_ok, onDecoded]
        have hun : c'.unconsumed = w.c.unconsumed := by
          unfold Codec.unconsumed Codec.held; rw [cr, cd]; simp [Codec.unconsumed, Codec.held]
        have hcs : w.chunks = [] ∨ ∃ ch rest, w.chunks = ch :: rest := by
          cases w.chunks with
          | nil => left; rfl
          | cons a b => right; exact ⟨a, b, rfl⟩
        rcases hcs with hch | ⟨ch, rest, hch⟩
        · exfalso
          unfold rem at hp
          rw [hch] at hp
          simp only [List.flatten_nil, List.append_nil] at hp
          rw [hp] at hpu; cases hpu
        · obtain ⟨w2, hk, i2, m2, mm2, r2, f2⟩ :=
            transportRead_step (readNextFuel fuel) { w with c := c' } ch rest ci cr cpos hch
          rw [hk]
          have hrem : rem ({ w with c := c' } : W) = rem w := by unfold rem; dsimp only; rw [hun]
          have hfl : readFuel ({ w with c := c' } : W) = readFuel w := rfl
          rcases ih w2 f n i2 (by rw [m2, r2, hrem]; dsimp only; rw [cm]; exact hp) (by omega) with he | ⟨w', hw', i', m', mm', r'⟩
          · left; exact he
          · right
            exact ⟨w', hw', i', by rw [m', m2]; exact cm, by rw [mm', mm2], by rw [r', r2, hrem]⟩

/-- **Nothing complete is ahead**: the loop takes everything the transport holds into the buffer and reports that the
transport has no more data. -/
theorem readNextFuel_drained : ∀ (fuel : Nat) (w : W), w.c.Inv →
    parse w.c.max (rem w) = .needMore → readFuel w ≤ fuel →
    readNextFuel fuel w = .error (.buf .env) ∨
    ∃ w', readNextFuel fuel w = .ok (w', .err .nodata) ∧ w'.c.Inv ∧ w'.c.max = w.c.max ∧ w'.m = w.m ∧
      rem w' = rem w ∧ w'.chunks = [] := by
  intro fuel
  induction fuel with
  | zero => intro w _ _ hf; unfold readFuel at hf; omega
  | succ fuel ih =>
    intro w hI hp hfuel
    unfold readNextFuel
    cases hpu : parse w.c.max w.c.unconsumed with
    | frame g k =>
      have := parse_append_frame (t := w.chunks.flatten) hpu
      unfold rem at hp
      rw [hp] at this; cases this
    | tooBig =>
      have := parse_append_tooBig (t := w.chunks.flatten) hpu
      unfold rem at hp
      rw [hp] at this; cases this
    | needMore =>
      rcases decode_needMore (capFor w.c w.rooms) hI hpu with he | ⟨c', g, hD, ci, cr, cd, cm, cpos, _⟩
      · left; rw [he]; rfl
      · simp only [hD, lift_ok, ebind_ok, onDecoded]
        have hun : c'.unconsumed = w.c.unconsumed := by
          unfold Codec.unconsumed Codec.held; rw [cr, cd]; simp [Codec.unconsumed, Codec.held]
        have hrem : rem ({ w with c := c' } : W) = rem w := by unfold rem; dsimp only; rw [hun]
        have hcs : w.chunks = [] ∨ ∃ ch rest, w.chunks = ch :: rest := by
          cases w.chunks with
          | nil => left; rfl
          | cons a b => right; exact ⟨a, b, rfl⟩
        rcases hcs with hch | ⟨ch, rest, hch⟩
        · right
          unfold transportRead
          simp only [hch, epure]
          refine ⟨_, rfl, ci, cm, rfl, ?_, rfl⟩
          unfold rem; dsimp only; rw [hun, hch]
        · obtain ⟨w2, hk, i2, m2, mm2, r2, f2⟩ :=
            transportRead_step (readNextFuel fuel) { w with c := c' } ch rest ci cr cpos hch
          rw [hk]
          have hfl : readFuel ({ w with c := c' } : W) = readFuel w := rfl
          rcases ih w2 i2 (by rw [m2, r2, hrem]; dsimp only; rw [cm]; exact hp) (by omega) with he | ⟨w', hw', i', m', mm', r', c0⟩
          · left; exact he
          · right
            exact ⟨w', hw', i', by rw [m', m2]; exact cm, by rw [mm', mm2], by rw [r', r2, hrem], c0⟩

end Sonic.Lemmas.WsMsg
