/-
List facts used by the C08/C15 proofs: the outgoing frame sequence `wire ++ pending`, "nothing follows a Close",
and the monitor's matching of obligations against frames.
-/
import Sonic.Model.WsStream

namespace Sonic.Lemmas.WsOut
open Sonic.Spec.WsStream Sonic.Model.WsStream

/-- Everything the client has submitted: flushed frames followed by the queued ones. -/
def out (m : M) : List OutFrame := m.wire ++ m.pending

def noClose (l : List OutFrame) : Prop := ∀ x ∈ l, x.isClose = false

/-- A Close frame, if any, is the last frame. -/
def closeLast : List OutFrame → Bool
  | [] => true
  | x :: r => if x.isClose then r.isEmpty else closeLast r

/-- Obligations and frames correspond one to one. -/
def matchExact : List Expect → List OutFrame → Bool
  | [], [] => true
  | e :: es, g :: gs => e.matches g && matchExact es gs
  | _, _ => false

theorem noClose_nil : noClose [] := by intro x hx; cases hx

theorem noClose_append {a b : List OutFrame} (ha : noClose a) (hb : noClose b) : noClose (a ++ b) := by
  intro x hx
  rcases List.mem_append.1 hx with h | h
  · exact ha x h
  · exact hb x h

theorem noClose_single {x : OutFrame} (h : x.isClose = false) : noClose [x] := by
  intro y hy; simp at hy; subst hy; exact h

theorem closeLast_of_noClose {l : List OutFrame} (h : noClose l) : closeLast l = true := by
  induction l with
  | nil => rfl
  | cons x r ih =>
    have hx : x.isClose = false := h x (by simp)
    simp only [closeLast, hx]
    exact ih (fun y hy => h y (by simp [hy]))

theorem closeLast_snoc {l : List OutFrame} (x : OutFrame) (h : noClose l) : closeLast (l ++ [x]) = true := by
  induction l with
  | nil => simp [closeLast]
  | cons y r ih =>
    have hy : y.isClose = false := h y (by simp)
    simp only [List.cons_append, closeLast, hy]
    exact ih (fun z hz => h z (by simp [hz]))

theorem matchExact_length : ∀ {e : List Expect} {g : List OutFrame}, matchExact e g = true → e.length = g.length
  | [], [], _ => rfl
  | [], _ :: _, h => by simp [matchExact] at h
  | _ :: _, [], h => by simp [matchExact] at h
  | _ :: es, _ :: gs, h => by
    simp only [matchExact, Bool.and_eq_true] at h
    simp [matchExact_length h.2]

theorem matchExact_append : ∀ {e : List Expect} {g : List OutFrame} {e' : List Expect} {g' : List OutFrame},
    matchExact e g = true → matchExact e' g' = true → matchExact (e ++ e') (g ++ g') = true
  | [], [], _, _, _, h' => by simpa using h'
  | [], _ :: _, _, _, h, _ => by simp [matchExact] at h
  | _ :: _, [], _, _, h, _ => by simp [matchExact] at h
  | _ :: es, _ :: gs, _, _, h, h' => by
    simp only [matchExact, Bool.and_eq_true] at h
    simp only [List.cons_append, matchExact, Bool.and_eq_true]
    exact ⟨h.1, matchExact_append h.2 h'⟩

theorem matchExact_snoc {e : List Expect} {g : List OutFrame} {x : Expect} {y : OutFrame}
    (h : matchExact e g = true) (hxy : x.matches y = true) : matchExact (e ++ [x]) (g ++ [y]) = true :=
  matchExact_append h (by simp [matchExact, hxy])

/-- The frames newly seen on the wire match the obligations that follow those already seen. -/
theorem matchAll_of_exact : ∀ {e : List Expect} (a b c : List OutFrame),
    matchExact e (a ++ b ++ c) = true → matchAll (e.drop a.length) b = true
  | e, [], [], c, _ => by cases e <;> simp [matchAll]
  | [], [], _ :: _, _, h => by simp [matchExact] at h
  | x :: es, [], y :: b, c, h => by
    simp only [List.nil_append, List.cons_append, matchExact, Bool.and_eq_true] at h
    simp only [List.length_nil, List.drop_zero, matchAll, Bool.and_eq_true]
    refine ⟨h.1, ?_⟩
    have := matchAll_of_exact (e := es) [] b c (by simpa using h.2)
    simpa using this
  | [], _ :: _, _, _, h => by simp [matchExact] at h
  | _ :: es, _ :: a, b, c, h => by
    simp only [List.cons_append, matchExact, Bool.and_eq_true] at h
    simp only [List.length_cons, List.drop_succ_cons]
    exact matchAll_of_exact a b c h.2

theorem closeLast_tail_of_any {a : List OutFrame} : ∀ {b : List OutFrame},
    closeLast (a ++ b) = true → a.any OutFrame.isClose = true → b = [] := by
  induction a with
  | nil => intro b _ h; simp at h
  | cons x r ih =>
    intro b h hany
    simp only [List.cons_append, closeLast] at h
    by_cases hx : x.isClose = true
    · simp only [hx, if_true, List.isEmpty_iff] at h
      exact (List.append_eq_nil_iff.1 h).2
    · have hx' : x.isClose = false := by simpa using hx
      simp only [hx', Bool.false_eq_true, if_false] at h
      simp only [List.any_cons, hx', Bool.false_or] at hany
      exact ih h hany

/-- If a Close is the last frame of `a ++ b ++ c`, the segment `b` obeys "nothing follows a Close". -/
theorem discipline_of_closeLast (a : List OutFrame) : ∀ (b c : List OutFrame),
    closeLast (a ++ b ++ c) = true → discipline (a.any OutFrame.isClose) b = true := by
  intro b
  induction b generalizing a with
  | nil => intro c _; simp [discipline]
  | cons y r ih =>
    intro c h
    simp only [discipline, Bool.and_eq_true, Bool.not_eq_true']
    constructor
    · cases hany : a.any OutFrame.isClose with
      | false => rfl
      | true =>
        have : y :: r ++ c = [] := closeLast_tail_of_any (by simpa [List.append_assoc] using h) hany
        simp at this
    · have h' : closeLast ((a ++ [y]) ++ r ++ c) = true := by simpa [List.append_assoc] using h
      have := ih (a ++ [y]) c h'
      simpa [List.any_append, Bool.or_comm] using this

theorem any_isClose_append (a b : List OutFrame) :
    (a ++ b).any OutFrame.isClose = (a.any OutFrame.isClose || b.any OutFrame.isClose) := by
  simp [List.any_append]

end Sonic.Lemmas.WsOut
