/-
Held completions (C09): an asynchronous write-out of the read area (`ByteBuffer.AsyncWriteTo`) whose writer completes later, with
calls on the buffer in between. Stated over the three-list specification `Sonic.Spec.ByteBuffer` (which the index-level model
refines: `C09_refines`); the implementation side is exercised by the `bytebuffer` direct monitor of the harness (completion held
back, Write / WriteByte / Commit in between, byte-list oracle).
-/
import Sonic.Spec.ByteBuffer

namespace Sonic.Lemmas.ByteBufferHeld
open Sonic.Spec.ByteBuffer


/-- Calls that may be made while an asynchronous write-out of the read area is in flight without moving the bytes handed to the
writer: they only append to the write area or move bytes from it to the end of the read area. -/
def HeldOk : Op → Prop
  | .commit _ | .write _ | .writeByte _ | .writeString _ => True
  | _ => False

/-- The completion of the write-out: the `n` bytes that were handed to the writer leave the read area. -/
def completed (s : S) (n : Nat) : S := { s with readable := s.readable.drop n }

theorem held_step (s s' : S) (r : Ret) (op : Op) (n : Nat) (hop : HeldOk op) (hn : n ≤ s.readable.length)
    (h : eff s op = some (s', r)) :
    eff (completed s n) op = some (completed s' n, r) ∧ n ≤ s'.readable.length := by
  cases op <;> simp [HeldOk] at hop <;> simp only [eff, Option.some.injEq, Prod.mk.injEq] at h ⊢ <;>
    obtain ⟨rfl, rfl⟩ := h <;> simp [completed, List.drop_append_of_le_length hn] <;> omega

def runEff : S → List Op → Option S
  | s, [] => some s
  | s, op :: r => match eff s op with
      | some (s', _) => runEff s' r
      | none => none

theorem held_prefix (s s' : S) (r : Ret) (op : Op) (n : Nat) (hop : HeldOk op) (hn : n ≤ s.readable.length)
    (h : eff s op = some (s', r)) : s'.readable.take n = s.readable.take n ∧ s'.saved = s.saved := by
  cases op <;> simp [HeldOk] at hop <;> simp only [eff, Option.some.injEq, Prod.mk.injEq] at h <;>
    obtain ⟨rfl, rfl⟩ := h <;> simp [List.take_append_of_le_length hn]

/-- **A write-out whose completion is held back** (AsyncWriteTo over a writer that completes later): whatever calls of the
`HeldOk` kind are made in between, completing afterwards is the same as completing first — the `n` bytes handed to the writer
are still the first `n` bytes of the read area when the completion arrives, they are what leaves, everything committed meanwhile
stays readable in order, and the save area is untouched. -/
theorem held_completion_commutes (ops : List Op) (s s1 : S) (n : Nat) (hops : ∀ op ∈ ops, HeldOk op)
    (hn : n ≤ s.readable.length) (h : runEff s ops = some s1) :
    runEff (completed s n) ops = some (completed s1 n) ∧ s1.readable.take n = s.readable.take n ∧ s1.saved = s.saved := by
  induction ops generalizing s with
  | nil => simp [runEff] at h ⊢; subst h; simp
  | cons op r ih =>
    simp only [runEff] at h ⊢
    cases he : eff s op with
    | none => simp [he] at h
    | some p =>
      obtain ⟨s', ret⟩ := p
      simp only [he] at h
      have hop := hops op (by simp)
      obtain ⟨h1, h2⟩ := held_step s s' ret op n hop hn he
      obtain ⟨h3, h4⟩ := held_prefix s s' ret op n hop hn he
      obtain ⟨i1, i2, i3⟩ := ih s' (fun o ho => hops o (by simp [ho])) h2 h
      simp only [h1]
      exact ⟨i1, by rw [i2, h3], by rw [i3, h4]⟩

example : runEff { saved := [9], readable := [1, 2], pending := [3, 4], cap := 16 } [.write [5], .commit 2, .writeByte 6]
    = some { saved := [9], readable := [1, 2, 3, 4], pending := [5, 6], cap := 16 } := by decide

end Sonic.Lemmas.ByteBufferHeld
