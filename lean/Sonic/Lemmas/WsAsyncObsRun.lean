/-
The refinement over whole runs: every observed step of the asynchronous WebSocket model is accepted by the C17 monitor
and keeps the coupling (`step_sim`), hence every observed run is accepted (`run_sim`).
-/
import Sonic.Lemmas.WsAsyncObsFrame

set_option linter.unusedSimpArgs false

namespace Sonic.Model.WsAsyncObs
open Sonic.Model.WsAsync
open Sonic.Spec.WsStream (Bytes StreamState replyCode closeCodeOf u16 isViolation controlOp reservedOp)
open Sonic.Spec.WsAsync (Cb Ev Kind Want WireFrame findCb setCb enterPush failW addW entered deliver replyFor pattern)

variable {max : Nat} {prog : CbId → List Action}

theorem sim_call {s s' : St} {o : Ob} {m : MS} {c : Call} (hI : Inv s) (h : Coup max s o m [])
    (hs : step true prog s (.call (c.action max)) = some s') :
    ∃ m', mrun m [c.ev] = .ok m' ∧ Coup max s' (obCall o c (s'.submitted.drop s.submitted.length)) m' [] := by
  simp only [step] at hs
  split at hs
  · rename_i hst
    split at hs
    · rename_i hok
      cases hs
      exact sim_begin hI h (fun t ht => by rw [hst] at ht; cases ht) (last_of_not_window h (by rw [hst]; rfl)) hok
    · cases hs
  · rename_i a' rest hst
    split at hs
    · rename_i hok
      cases hs
      have hstk := h.stk
      rw [hst, List.filterMap_cons] at hstk
      have hl : m.last = stOf s.ws := last_of_not_window h (by rw [hst]; rfl)
      have h0 : Coup max { s with stack := rest } o m [] :=
        coup_pop h hst rfl m rfl rfl rfl rfl rfl rfl hstk hl (fun c hc => ⟨c, hc, rfl, rfl, rfl⟩) (fun c hc => ⟨c, hc, rfl⟩)
      have hI0 : Inv { s with stack := rest } := inv_stack hI rest (by rw [hst]; simp [List.flatMap_cons, taskCbs])
      exact sim_begin hI0 h0 (fun t ht => h.spec t (by rw [hst]; exact ht)) hl hok.2
    · cases hs
  · cases hs

theorem sim_tau {s s' : St} {o : Ob} {m : MS} (hI : Inv s) (h : Coup max s o m []) (hs : step true prog s .tau = some s') :
    Coup max s' (match s.stack with
      | .resume _ _ ok :: _ =>
        if ok && s.ws.canRead then
          match o.inboxC with
          | g :: rest => took s s' { o with inboxC := rest } g
          | [] => o
        else { o with cur := none }
      | _ => o) m [] := by
  simp only [step] at hs
  split at hs
  · rename_i cb rk ok rest hst
    cases hs
    simp only [hst]
    by_cases hc : (ok && s.ws.canRead) = true
    · rw [if_pos hc]
      simp only [Bool.and_eq_true] at hc
      obtain ⟨hok, hcan⟩ := hc
      have hrd : s.rd = none := rd_none_of_reader_on_stack (cb := cb) hI hst (by simp [taskCbs])
      have hinb := h.inb
      cases hic : o.inboxC with
      | nil =>
        rw [hic] at hinb
        have hib : s.inbox = [] := hinb.symm
        have : resumeRead true { s with stack := rest } cb rk ok = { s with stack := rest, rd := some (cb, rk) } := by
          simp [resumeRead, hok, hcan, readNext, hib]
        rw [this]
        exact sim_resume_arm h hst hcan
      | cons g restC =>
        rw [hic] at hinb
        have hib : s.inbox = absFrame g :: restC.map absFrame := hinb.symm
        have hres : resumeRead true { s with stack := rest } cb rk ok =
            onFrame true { s with stack := rest, rd := s.rd, inbox := restC.map absFrame } cb rk (absFrame g) := by
          simp [resumeRead, hok, hcan, readNext, hib]
        rw [hres]
        have h1 := coup_take (g := g) (restC := restC) (net' := o.net) s.rd h (by rw [hic]) (Or.inr rfl)
        have hstk := h.stk
        rw [hst, List.filterMap_cons] at hstk
        have hl : m.last = stOf s.ws := last_of_not_window h (by rw [hst]; rfl)
        have h2 := coup_pop (s := { s with rd := s.rd, inbox := restC.map absFrame }) h1 hst rfl m rfl rfl rfl rfl rfl rfl hstk hl
          (fun c hc => ⟨c, hc, rfl, rfl, rfl⟩) (fun c hc => ⟨c, hc, rfl⟩)
        have hloc : ((cb, rk.lk) : CbId × LK) ∈ locs s := by
          simp only [locs, hst, List.flatMap_cons, taskK, List.mem_append, List.mem_cons]; mem_or
        exact sim_onframe (s0 := { s with stack := rest, rd := s.rd, inbox := restC.map absFrame })
          (o0 := { o with inboxC := restC, net := o.net }) h2
          (fun t ht => h.spec t (by rw [hst]; exact ht)) hl hcan (h.chain _ hloc) (h.rdr2 _ hloc (by cases rk <;> rfl)) hrd
    · rw [if_neg hc]
      have : resumeRead true { s with stack := rest } cb rk ok =
          push { s with stack := rest, ws := .terminated } [.invoke cb (if ok then .eof else .err) true] := by
        simp only [resumeRead, if_neg hc]
      rw [this]
      exact sim_resume_fail hI h hst
  · rename_i cb rk rest hst
    cases hs
    simp only [hst]
    exact sim_again h hst
  · cases hs

theorem sim_rdGot {s s' : St} {o : Ob} {m : MS} {k : Nat} (h : Coup max s o m [])
    (hs : step true prog s (.rdGot ((o.net.take k).map absFrame)) = some s') :
    Coup max s' (match o.net.take k with
      | [] => o
      | g :: rest => took s s' { o with net := o.net.drop k, inboxC := rest } g) m [] := by
  simp only [step] at hs
  split at hs
  · rename_i rest cb rk hst hrd
    split at hs
    · rename_i hemp
      cases htk : o.net.take k with
      | nil =>
        rw [htk] at hs
        simp only [List.map_nil] at hs
        cases hs
        exact h
      | cons g restC =>
        rw [htk] at hs
        simp only [List.map_cons] at hs
        cases hs
        have hinb := h.inb
        have hib : s.inbox = [] := by simpa using hemp
        have hic : o.inboxC = [] := by
          rw [hib] at hinb
          exact List.map_eq_nil_iff.1 hinb
        have hq : o.inboxC ++ o.net = g :: restC ++ o.net.drop k := by
          rw [hic, List.nil_append, ← htk, List.take_append_drop]
        have h1 := coup_take (g := g) (restC := restC) (net' := o.net.drop k) none h hq (Or.inl rfl)
        have hl : m.last = stOf s.ws := last_of_not_window h (by rw [hst]; rfl)
        have hloc : ((cb, rk.lk) : CbId × LK) ∈ locs s := by
          simp only [locs, rdK, hrd, List.mem_append, List.mem_singleton]; mem_or
        have hns := all_not_special h hst rfl
        exact sim_onframe (s0 := { s with rd := none, inbox := restC.map absFrame })
          (o0 := { o with inboxC := restC, net := o.net.drop k }) h1 hns hl
          (h.rdCan (by rw [hrd]; rfl)) (h.chain _ hloc) (h.rdr2 _ hloc (by cases rk <;> rfl)) rfl
    · cases hs
  · cases hs

/-- **One observed step**: the monitor accepts the events of the step, and the coupling (and the model's invariant) is
kept. -/
theorem step_sim {s s' : St} {o o' : Ob} {m : MS} {l : OLabel} {evs : List Ev} (hI : Inv s) (h : Coup max s o m [])
    (hs : ostep max prog s o l = some (s', o', evs)) : ∃ m', mrun m evs = .ok m' ∧ Coup max s' o' m' [] ∧ Inv s' := by
  cases l with
  | call c =>
    simp only [ostep] at hs
    split at hs
    · cases hs
    · rename_i s1 hst
      simp only [Option.some.injEq, Prod.mk.injEq] at hs
      obtain ⟨rfl, rfl, rfl⟩ := hs
      obtain ⟨m', h1, h2⟩ := sim_call hI h hst
      exact ⟨m', h1, h2, step_inv hI hst⟩
  | skip a =>
    simp only [ostep, Option.map_eq_some_iff, Prod.mk.injEq] at hs
    obtain ⟨s1, hst, rfl, rfl, rfl⟩ := hs
    obtain ⟨m', h1, h2⟩ := sim_skip h hst
    exact ⟨m', h1, h2, step_inv hI hst⟩
  | ret =>
    simp only [ostep, Option.map_eq_some_iff, Prod.mk.injEq] at hs
    obtain ⟨s1, hst, rfl, rfl, rfl⟩ := hs
    obtain ⟨m', h1, h2⟩ := sim_ret h hst
    exact ⟨m', h1, h2, step_inv hI hst⟩
  | enter cb r =>
    simp only [ostep, Option.map_eq_some_iff, Prod.mk.injEq] at hs
    obtain ⟨s1, hst, rfl, rfl, rfl⟩ := hs
    obtain ⟨m', h1, h2⟩ := sim_enter hI (step_inv hI hst) h hst
    exact ⟨m', h1, h2, step_inv hI hst⟩
  | exit cb =>
    simp only [ostep, Option.map_eq_some_iff, Prod.mk.injEq] at hs
    obtain ⟨s1, hst, rfl, rfl, rfl⟩ := hs
    obtain ⟨m', h1, h2⟩ := sim_exit h hst
    exact ⟨m', h1, h2, step_inv hI hst⟩
  | ctl =>
    simp only [ostep, Option.map_eq_some_iff, Prod.mk.injEq] at hs
    obtain ⟨s1, hst, rfl, rfl, rfl⟩ := hs
    obtain ⟨m', h1, h2⟩ := sim_ctl h hst
    exact ⟨m', h1, h2, step_inv hI hst⟩
  | tau =>
    simp only [ostep, Option.map_eq_some_iff] at hs
    obtain ⟨s1, hst, hs2⟩ := hs
    have h2 := sim_tau hI h hst
    have hI1 := step_inv hI hst
    split at hs2
    · rename_i cb rk ok rest hstk
      rw [hstk] at h2
      simp only [] at h2
      split at hs2
      · rename_i hc
        rw [if_pos hc] at h2
        split at hs2
        · rename_i g restC hic
          rw [hic] at h2
          simp only [Prod.mk.injEq] at hs2
          obtain ⟨rfl, rfl, rfl⟩ := hs2
          exact ⟨m, rfl, h2, hI1⟩
        · rename_i hic
          rw [hic] at h2
          simp only [Prod.mk.injEq] at hs2
          obtain ⟨rfl, rfl, rfl⟩ := hs2
          exact ⟨m, rfl, h2, hI1⟩
      · rename_i hc
        rw [if_neg hc] at h2
        simp only [Prod.mk.injEq] at hs2
        obtain ⟨rfl, rfl, rfl⟩ := hs2
        exact ⟨m, rfl, h2, hI1⟩
    · rename_i hne
      simp only [Prod.mk.injEq] at hs2
      obtain ⟨rfl, rfl, rfl⟩ := hs2
      split at h2
      · rename_i cb rk ok rest hstk
        exact absurd hstk (hne cb rk ok rest)
      · exact ⟨m, rfl, h2, hI1⟩
  | wrote n =>
    simp only [ostep, Option.map_eq_some_iff, Prod.mk.injEq] at hs
    obtain ⟨s1, hst, rfl, rfl, rfl⟩ := hs
    exact ⟨m, rfl, sim_wrote h hst, step_inv hI hst⟩
  | wrErr =>
    simp only [ostep, Option.map_eq_some_iff, Prod.mk.injEq] at hs
    obtain ⟨s1, hst, rfl, rfl, rfl⟩ := hs
    obtain ⟨m', h1, h2⟩ := sim_wrErr h hst
    exact ⟨m', h1, h2, step_inv hI hst⟩
  | rdGot k =>
    simp only [ostep, Option.map_eq_some_iff] at hs
    obtain ⟨s1, hst, hs2⟩ := hs
    have h2 := sim_rdGot h hst
    split at hs2
    · rename_i htk
      rw [htk] at h2
      simp only [Prod.mk.injEq] at hs2
      obtain ⟨rfl, rfl, rfl⟩ := hs2
      exact ⟨m, rfl, h2, step_inv hI hst⟩
    · rename_i g restC htk
      rw [htk] at h2
      simp only [Prod.mk.injEq] at hs2
      obtain ⟨rfl, rfl, rfl⟩ := hs2
      exact ⟨m, rfl, h2, step_inv hI hst⟩
  | rdEof =>
    simp only [ostep, Option.map_eq_some_iff, Prod.mk.injEq] at hs
    obtain ⟨s1, hst, rfl, rfl, rfl⟩ := hs
    exact ⟨m, rfl, sim_rdEof h hst, step_inv hI hst⟩
  | rdErr =>
    simp only [ostep, Option.map_eq_some_iff, Prod.mk.injEq] at hs
    obtain ⟨s1, hst, rfl, rfl, rfl⟩ := hs
    obtain ⟨m', h1, h2⟩ := sim_rdErr h hst
    exact ⟨m', h1, h2, step_inv hI hst⟩
  | peer g =>
    simp only [ostep, Option.some.injEq, Prod.mk.injEq] at hs
    obtain ⟨rfl, rfl, rfl⟩ := hs
    obtain ⟨m', h1, h2⟩ := sim_peer (g := g) h
    exact ⟨m', h1, h2, hI⟩
  | peerEof =>
    simp only [ostep, Option.some.injEq, Prod.mk.injEq] at hs
    obtain ⟨rfl, rfl, rfl⟩ := hs
    obtain ⟨m', h1, h2⟩ := sim_peerEof h
    exact ⟨m', h1, h2, hI⟩
  | drain k =>
    simp only [ostep] at hs
    split at hs
    · rename_i hg
      simp only [Option.some.injEq, Prod.mk.injEq] at hs
      obtain ⟨rfl, rfl, rfl⟩ := hs
      obtain ⟨m', h1, h2⟩ := sim_drain (k := k) hI h hg.1 hg.2
      exact ⟨m', h1, h2, hI⟩
    · cases hs
  | finish =>
    simp only [ostep] at hs
    split at hs
    · rename_i hg
      simp only [Option.some.injEq, Prod.mk.injEq] at hs
      obtain ⟨rfl, rfl, rfl⟩ := hs
      obtain ⟨m', h1, h2⟩ := sim_finish hI h hg.1 hg.2.1 hg.2.2
      exact ⟨m', h1, h2, hI⟩
    · cases hs

theorem mrun_append {m m1 m2 : MS} : ∀ {a b : List Ev}, mrun m a = .ok m1 → mrun m1 b = .ok m2 → mrun m (a ++ b) = .ok m2
  | [], b, h1, h2 => by
    simp only [mrun, Sonic.Spec.WsAsync.run, Except.ok.injEq] at h1
    subst h1
    exact h2
  | e :: a, b, h1, h2 => by
    simp only [mrun, Sonic.Spec.WsAsync.run, List.cons_append] at h1 ⊢
    cases hst : Sonic.Spec.WsAsync.step m e with
    | error k => rw [hst] at h1; cases h1
    | ok m' =>
      rw [hst] at h1
      simp only [] at h1 ⊢
      exact mrun_append (a := a) h1 h2

/-- **Refinement over whole runs**: from coupled states, the monitor accepts the events of every observed run. -/
theorem run_sim : ∀ (ls : List OLabel) (s : St) (o : Ob) (m : MS) (evs : List Ev), Inv s → Coup max s o m [] →
    otrace max prog s o ls = some evs → ∃ m', mrun m evs = .ok m'
  | [], s, o, m, evs, _, _, h => by
    simp only [otrace, Option.some.injEq] at h
    subst h
    exact ⟨m, rfl⟩
  | l :: r, s, o, m, evs, hI, hC, h => by
    simp only [otrace] at h
    split at h
    · cases h
    · rename_i s' o' ev1 hst
      simp only [Option.map_eq_some_iff] at h
      obtain ⟨ev2, hr, rfl⟩ := h
      obtain ⟨m1, h1, hC1, hI1⟩ := step_sim hI hC hst
      obtain ⟨m2, h2⟩ := run_sim r s' o' m1 ev2 hI1 hC1 hr
      exact ⟨m2, mrun_append h1 h2⟩

/-- An observed step is the model's transition with the label the observed label stands for. -/
theorem ostep_model {s s' : St} {o o' : Ob} {l : OLabel} {evs : List Ev} {lab : Label}
    (hs : ostep max prog s o l = some (s', o', evs)) (hl : l.label max o = some lab) : step true prog s lab = some s' := by
  cases l <;> simp only [OLabel.label, Option.some.injEq, reduceCtorEq] at hl <;> subst hl <;> simp only [ostep] at hs
  case call c =>
    split at hs
    · cases hs
    · rename_i s1 hst
      simp only [Option.some.injEq, Prod.mk.injEq] at hs
      rw [hst, hs.1]
  case tau =>
    simp only [Option.map_eq_some_iff] at hs
    obtain ⟨s1, hst, hs2⟩ := hs
    rw [hst]
    congr 1
    split at hs2
    · split at hs2
      · split at hs2 <;> (simp only [Prod.mk.injEq] at hs2; exact hs2.1)
      · simp only [Prod.mk.injEq] at hs2; exact hs2.1
    · simp only [Prod.mk.injEq] at hs2; exact hs2.1
  case rdGot k =>
    simp only [Option.map_eq_some_iff] at hs
    obtain ⟨s1, hst, hs2⟩ := hs
    rw [hst]
    congr 1
    split at hs2 <;> (simp only [Prod.mk.injEq] at hs2; exact hs2.1)
  all_goals
    simp only [Option.map_eq_some_iff, Prod.mk.injEq] at hs
    obtain ⟨s1, hst, rfl, _⟩ := hs
    exact hst

/-- The observation function is total on the model's transitions: whatever label the model can take is observed. -/
theorem ostep_total {s s' : St} {o : Ob} {l : OLabel} {lab : Label} (hl : l.label max o = some lab)
    (hs : step true prog s lab = some s') : ∃ o' evs, ostep max prog s o l = some (s', o', evs) := by
  cases l <;> simp only [OLabel.label, Option.some.injEq, reduceCtorEq] at hl <;> subst hl <;> simp only [ostep, hs, Option.map_some]
  case tau =>
    split
    · split
      · split <;> exact ⟨_, _, rfl⟩
      · exact ⟨_, _, rfl⟩
    · exact ⟨_, _, rfl⟩
  case rdGot k => split <;> exact ⟨_, _, rfl⟩
  all_goals exact ⟨_, _, rfl⟩

end Sonic.Model.WsAsyncObs
