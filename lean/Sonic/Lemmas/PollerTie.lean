/-
Tie T for the poller bookkeeping of the event loop (C03).

`Sonic.Gen.Poller` is regenerated on every run from `internal/poll_linux.go` (`setRW`, `SetRead`, `SetWrite`, `DelRead`,
`DelWrite`, `Del`; the event mask is a `BitVec 32` with the source's `& |= ^=`, `pending` an `Int` with 64-bit wrap, the
`epoll_ctl` wrappers `add / modify / del` answer from an oracle).  This file proves, for every slot state and every
oracle, what those functions do to the two interest bits and to `pending`, and that this is exactly what the helpers of
the hand-written loop model `Sonic.Model.Loop` (`setRead`, `setWrite`, `delRead`, `delWrite`, `closeObj`, `armTimer`,
`unsetPending`) do to `(evR, evW, pending)`.
-/
import Sonic.Gen.Poller
import Sonic.Lemmas.LoopInv

namespace Sonic.Lemmas.PollerTie
open Sonic.Gen.Poller
open Sonic.Model.Loop
open Sonic.Spec.Loop (ObjKind)

/-! ### Bit masks: facts for any width and any two flags -/
section Bits
variable {n : Nat}

theorem or_and_self (e f : BitVec n) : (e ||| f) &&& f = f := by
  ext i hi
  simp only [BitVec.getElem_and, BitVec.getElem_or]
  cases e[i] <;> cases f[i] <;> rfl

theorem or_and_other (e f g : BitVec n) (hd : f &&& g = 0) : (e ||| f) &&& g = e &&& g := by
  ext i hi
  have h2 := congrArg (fun x => x[i]) hd
  simp only [BitVec.getElem_and, BitVec.getElem_or] at h2 ⊢
  revert h2
  cases e[i] <;> cases f[i] <;> cases g[i] <;> simp

theorem xor_and_self (e f : BitVec n) (h : e &&& f = f) : (e ^^^ f) &&& f = 0 := by
  ext i hi
  have h2 := congrArg (fun x => x[i]) h
  simp only [BitVec.getElem_and, BitVec.getElem_xor] at h2 ⊢
  revert h2
  cases e[i] <;> cases f[i] <;> simp

theorem xor_and_other (e f g : BitVec n) (hd : f &&& g = 0) : (e ^^^ f) &&& g = e &&& g := by
  ext i hi
  have h2 := congrArg (fun x => x[i]) hd
  simp only [BitVec.getElem_and, BitVec.getElem_xor] at h2 ⊢
  revert h2
  cases e[i] <;> cases f[i] <;> cases g[i] <;> simp

/-- Clearing a flag that is set: `&^` and `^` agree. -/
theorem andnot_eq_xor (e f : BitVec n) (h : e &&& f = f) : e &&& ~~~f = e ^^^ f := by
  ext i hi
  have h2 := congrArg (fun x => x[i]) h
  simp only [BitVec.getElem_and, BitVec.getElem_xor, BitVec.getElem_not] at h2 ⊢
  revert h2
  cases e[i] <;> cases f[i] <;> simp

theorem zero_and (f : BitVec n) : (0 : BitVec n) &&& f = 0 := by
  ext i hi
  simp

end Bits

/-! ### The two flags, as read from the source on this run -/

theorem flags_disjoint : PollerReadEvent &&& PollerWriteEvent = 0 := by decide
theorem flags_disjoint' : PollerWriteEvent &&& PollerReadEvent = 0 := by decide
theorem read_ne_zero : PollerReadEvent ≠ 0 := by decide
theorem write_ne_zero : PollerWriteEvent ≠ 0 := by decide

/-! ### The oracle -/

/-- The answer the next external call gets. -/
def ans (o : List Go.Error) : Go.Error := o.headD Go.Error.nil

theorem ext_eq (s : poller) (f : Ext) (args : List Int) :
    s.ext f args = ({ s with oracle := s.oracle.tail, calls := (f, args) :: s.calls }, ans s.oracle) := rfl

/-! ### What the generated functions do to the mask, `pending`, the oracle and the call log (raw form) -/

/-- `setRW` for an arbitrary flag: nothing at all if the flag is set; otherwise exactly one `epoll_ctl` (`add` iff the mask
was empty, with the new mask), and — if it succeeds — the flag is or-ed in and `pending` incremented; if it fails the mask
and `pending` are as before and the error is returned. -/
theorem setRW_facts (s : poller) (fd : Int) (f : BitVec 32) :
    (s.slot_Events &&& f = f → s.setRW fd f = (s, Go.Error.nil)) ∧
    (s.slot_Events &&& f ≠ f →
        (s.setRW fd f).1.oracle = s.oracle.tail ∧ (s.setRW fd f).1.slot_Fd = s.slot_Fd ∧
        (s.setRW fd f).1.calls =
          ((if s.slot_Events = 0 then Ext.add else Ext.modify), [fd, Int.ofNat (s.slot_Events ||| f).toNat]) :: s.calls) ∧
    (s.slot_Events &&& f ≠ f → ans s.oracle = .nil →
        (s.setRW fd f).1.slot_Events = s.slot_Events ||| f ∧ (s.setRW fd f).1.pending = Go.add s.pending 1 ∧
        (s.setRW fd f).2 = Go.Error.nil) ∧
    (s.slot_Events &&& f ≠ f → ans s.oracle ≠ .nil →
        (s.setRW fd f).1.slot_Events = s.slot_Events ∧ (s.setRW fd f).1.pending = s.pending ∧
        (s.setRW fd f).2 = ans s.oracle) := by
  simp only [poller.setRW, ext_eq]
  by_cases hans : ans s.oracle = .nil <;> by_cases h0 : s.slot_Events = 0 <;> by_cases hf : s.slot_Events &&& f = f <;> simp_all

/-- `DelRead`: nothing at all if the read flag is clear; otherwise `pending` is decremented and the flag xor-ed out whatever
the one `epoll_ctl` (`modify` with the remaining mask, or `del` when nothing remains) answers; its answer is returned. -/
theorem DelRead_facts (s : poller) :
    (s.slot_Events &&& PollerReadEvent ≠ PollerReadEvent → s.DelRead = (s, .nil)) ∧
    (s.slot_Events &&& PollerReadEvent = PollerReadEvent →
       s.DelRead.1.slot_Events = s.slot_Events ^^^ PollerReadEvent ∧ s.DelRead.1.pending = Go.add s.pending (-1) ∧
       s.DelRead.2 = ans s.oracle ∧ s.DelRead.1.oracle = s.oracle.tail ∧ s.DelRead.1.slot_Fd = s.slot_Fd ∧
       s.DelRead.1.calls =
         (if s.slot_Events ^^^ PollerReadEvent ≠ 0
          then (Ext.modify, [s.slot_Fd, Int.ofNat (s.slot_Events ^^^ PollerReadEvent).toNat])
          else (Ext.del, [s.slot_Fd])) :: s.calls) := by
  simp only [poller.DelRead, ext_eq]
  by_cases h0 : s.slot_Events ^^^ PollerReadEvent = 0 <;> by_cases hf : s.slot_Events &&& PollerReadEvent = PollerReadEvent <;>
    simp_all [andnot_eq_xor]

theorem DelWrite_facts (s : poller) :
    (s.slot_Events &&& PollerWriteEvent ≠ PollerWriteEvent → s.DelWrite = (s, .nil)) ∧
    (s.slot_Events &&& PollerWriteEvent = PollerWriteEvent →
       s.DelWrite.1.slot_Events = s.slot_Events ^^^ PollerWriteEvent ∧ s.DelWrite.1.pending = Go.add s.pending (-1) ∧
       s.DelWrite.2 = ans s.oracle ∧ s.DelWrite.1.oracle = s.oracle.tail ∧ s.DelWrite.1.slot_Fd = s.slot_Fd ∧
       s.DelWrite.1.calls =
         (if s.slot_Events ^^^ PollerWriteEvent ≠ 0
          then (Ext.modify, [s.slot_Fd, Int.ofNat (s.slot_Events ^^^ PollerWriteEvent).toNat])
          else (Ext.del, [s.slot_Fd])) :: s.calls) := by
  simp only [poller.DelWrite, ext_eq]
  by_cases h0 : s.slot_Events ^^^ PollerWriteEvent = 0 <;> by_cases hf : s.slot_Events &&& PollerWriteEvent = PollerWriteEvent <;>
    simp_all [andnot_eq_xor]

theorem SetRead_eq (s : poller) : s.SetRead = s.setRW s.slot_Fd PollerReadEvent := by
  simp only [poller.SetRead]
theorem SetWrite_eq (s : poller) : s.SetWrite = s.setRW s.slot_Fd PollerWriteEvent := by
  simp only [poller.SetWrite]

/-- `Del` is `DelRead` then `DelWrite` (both always attempted); it reports the second error only if the first is nil. -/
theorem Del_eq (s : poller) :
    s.Del = (s.DelRead.1.DelWrite.1, if s.DelRead.2 = .nil then s.DelRead.1.DelWrite.2 else .nil) := by
  simp only [poller.Del]
  split <;> rfl

/-! ### Abstraction: the two interest bits and the pending count -/

/-- The read interest is set — the very test the source uses (`events & flag == flag`). -/
def rd (s : poller) : Bool := decide (s.slot_Events &&& PollerReadEvent = PollerReadEvent)
def wr (s : poller) : Bool := decide (s.slot_Events &&& PollerWriteEvent = PollerWriteEvent)

/-- Number of interests set in the slot's mask. -/
def nbits (s : poller) : Int := (if rd s then 1 else 0) + (if wr s then 1 else 0)

/-- `pending` is an `int64`; the statements below are about counts that are at least two steps away from its ends. -/
def PendOk (s : poller) : Prop := Go.I64MIN + 2 ≤ s.pending ∧ s.pending + 2 ≤ Go.I64MAX
instance (s : poller) : Decidable (PendOk s) := by unfold PendOk; exact inferInstance

theorem add_one {p : Int} (h1 : Go.I64MIN ≤ p) (h2 : p + 1 ≤ Go.I64MAX) : Go.add p 1 = p + 1 := by
  unfold Go.add Go.wrap64; unfold Go.I64MIN Go.I64MAX at *; omega
theorem add_neg_one {p : Int} (h1 : Go.I64MIN + 1 ≤ p) (h2 : p ≤ Go.I64MAX) : Go.add p (-1) = p - 1 := by
  unfold Go.add Go.wrap64; unfold Go.I64MIN Go.I64MAX at *; omega

theorem rd_true {s : poller} : rd s = true ↔ s.slot_Events &&& PollerReadEvent = PollerReadEvent := by
  simp only [rd, decide_eq_true_eq]
theorem wr_true {s : poller} : wr s = true ↔ s.slot_Events &&& PollerWriteEvent = PollerWriteEvent := by
  simp only [wr, decide_eq_true_eq]
theorem rd_false {s : poller} : rd s = false ↔ s.slot_Events &&& PollerReadEvent ≠ PollerReadEvent := by
  simp only [rd, decide_eq_false_iff_not]
theorem wr_false {s : poller} : wr s = false ↔ s.slot_Events &&& PollerWriteEvent ≠ PollerWriteEvent := by
  simp only [wr, decide_eq_false_iff_not]

theorem rd_of_events {s s' : poller} (h : s'.slot_Events &&& PollerReadEvent = s.slot_Events &&& PollerReadEvent) : rd s' = rd s := by
  simp only [rd, h]
theorem wr_of_events {s s' : poller} (h : s'.slot_Events &&& PollerWriteEvent = s.slot_Events &&& PollerWriteEvent) : wr s' = wr s := by
  simp only [wr, h]

/-- An empty mask has no interest set. -/
theorem rd_wr_of_zero {s : poller} (h : s.slot_Events = 0) : rd s = false ∧ wr s = false := by
  constructor
  · rw [rd_false, h, zero_and]; exact fun e => read_ne_zero e.symm
  · rw [wr_false, h, zero_and]; exact fun e => write_ne_zero e.symm

/-! ### The generated functions on the abstraction -/

/-- `SetRead`, all cases. -/
theorem SetRead_abs (s : poller) :
    (rd s = true → s.SetRead = (s, .nil)) ∧
    (rd s = false → ans s.oracle = .nil →
        rd s.SetRead.1 = true ∧ wr s.SetRead.1 = wr s ∧ s.SetRead.1.pending = Go.add s.pending 1 ∧ s.SetRead.2 = .nil) ∧
    (rd s = false → ans s.oracle ≠ .nil →
        s.SetRead.1.slot_Events = s.slot_Events ∧ s.SetRead.1.pending = s.pending ∧ s.SetRead.2 = ans s.oracle) := by
  rw [SetRead_eq]
  have F := setRW_facts s s.slot_Fd PollerReadEvent
  refine ⟨fun h => F.1 (rd_true.1 h), fun h hok => ?_, fun h hf => F.2.2.2 (rd_false.1 h) hf⟩
  obtain ⟨he, hp, hr⟩ := F.2.2.1 (rd_false.1 h) hok
  refine ⟨?_, ?_, hp, hr⟩
  · rw [rd_true, he]; exact or_and_self _ _
  · apply wr_of_events; rw [he]; exact or_and_other _ _ _ flags_disjoint

theorem SetWrite_abs (s : poller) :
    (wr s = true → s.SetWrite = (s, .nil)) ∧
    (wr s = false → ans s.oracle = .nil →
        wr s.SetWrite.1 = true ∧ rd s.SetWrite.1 = rd s ∧ s.SetWrite.1.pending = Go.add s.pending 1 ∧ s.SetWrite.2 = .nil) ∧
    (wr s = false → ans s.oracle ≠ .nil →
        s.SetWrite.1.slot_Events = s.slot_Events ∧ s.SetWrite.1.pending = s.pending ∧ s.SetWrite.2 = ans s.oracle) := by
  rw [SetWrite_eq]
  have F := setRW_facts s s.slot_Fd PollerWriteEvent
  refine ⟨fun h => F.1 (wr_true.1 h), fun h hok => ?_, fun h hf => F.2.2.2 (wr_false.1 h) hf⟩
  obtain ⟨he, hp, hr⟩ := F.2.2.1 (wr_false.1 h) hok
  refine ⟨?_, ?_, hp, hr⟩
  · rw [wr_true, he]; exact or_and_self _ _
  · apply rd_of_events; rw [he]; exact or_and_other _ _ _ flags_disjoint'

/-- `DelRead`, all cases, whatever the system call answers. -/
theorem DelRead_abs (s : poller) :
    (rd s = false → s.DelRead = (s, .nil)) ∧
    (rd s = true →
        rd s.DelRead.1 = false ∧ wr s.DelRead.1 = wr s ∧ s.DelRead.1.pending = Go.add s.pending (-1) ∧
        s.DelRead.2 = ans s.oracle ∧ s.DelRead.1.oracle = s.oracle.tail) := by
  have F := DelRead_facts s
  refine ⟨fun h => F.1 (rd_false.1 h), fun h => ?_⟩
  obtain ⟨he, hp, hr, ho, _⟩ := F.2 (rd_true.1 h)
  refine ⟨?_, ?_, hp, hr, ho⟩
  · rw [rd_false, he, xor_and_self _ _ (rd_true.1 h)]; exact fun e => read_ne_zero e.symm
  · apply wr_of_events; rw [he]; exact xor_and_other _ _ _ flags_disjoint

theorem DelWrite_abs (s : poller) :
    (wr s = false → s.DelWrite = (s, .nil)) ∧
    (wr s = true →
        wr s.DelWrite.1 = false ∧ rd s.DelWrite.1 = rd s ∧ s.DelWrite.1.pending = Go.add s.pending (-1) ∧
        s.DelWrite.2 = ans s.oracle ∧ s.DelWrite.1.oracle = s.oracle.tail) := by
  have F := DelWrite_facts s
  refine ⟨fun h => F.1 (wr_false.1 h), fun h => ?_⟩
  obtain ⟨he, hp, hr, ho, _⟩ := F.2 (wr_true.1 h)
  refine ⟨?_, ?_, hp, hr, ho⟩
  · rw [wr_false, he, xor_and_self _ _ (wr_true.1 h)]; exact fun e => write_ne_zero e.symm
  · apply rd_of_events; rw [he]; exact xor_and_other _ _ _ flags_disjoint'

/-! ### The poller's view of one slot, shared by the generated code and the loop model -/

/-- What the accounting is about: the two interest bits of one slot and the poller's pending count. -/
structure PView where
  evR : Bool
  evW : Bool
  pending : Int
  deriving DecidableEq, Repr

namespace PView
def setRead (v : PView) : PView := if v.evR then v else { v with evR := true, pending := v.pending + 1 }
def setWrite (v : PView) : PView := if v.evW then v else { v with evW := true, pending := v.pending + 1 }
def delRead (v : PView) : PView := if v.evR then { v with evR := false, pending := v.pending - 1 } else v
def delWrite (v : PView) : PView := if v.evW then { v with evW := false, pending := v.pending - 1 } else v
def del (v : PView) : PView :=
  { evR := false, evW := false, pending := v.pending - ((if v.evR then 1 else 0) + (if v.evW then 1 else 0)) }
theorem del_eq (v : PView) : v.del = v.delRead.delWrite := by
  cases v with
  | mk r w p => cases r <;> cases w <;> simp [del, delRead, delWrite] <;> omega
end PView

/-- The view the generated state gives. -/
def absOf (s : poller) : PView := { evR := rd s, evW := wr s, pending := s.pending }

/-- The view the loop model gives of object `o` in world `w`. -/
def viewOf (w : World) (o : Obj) : PView := { evR := o.evR, evW := o.evW, pending := w.pending }

/-- The view of the object with identifier `k`, if there is one. -/
def viewAt (w : World) (k : Nat) : Option PView := (getObj w k).map (viewOf w)

theorem pendOk_of_abs {s : poller} : PendOk s ↔ (Go.I64MIN + 2 ≤ (absOf s).pending ∧ (absOf s).pending + 2 ≤ Go.I64MAX) := Iff.rfl

/-- Generated `SetRead` with a succeeding system call is `PView.setRead`. -/
theorem SetRead_view (s : poller) (hp : PendOk s) (hok : ans s.oracle = .nil) :
    absOf s.SetRead.1 = (absOf s).setRead ∧ s.SetRead.2 = .nil := by
  have F := SetRead_abs s
  cases h : rd s with
  | true => rw [F.1 h]; simp [PView.setRead, absOf, h]
  | false =>
    obtain ⟨h1, h2, h3, h4⟩ := F.2.1 h hok
    refine ⟨?_, h4⟩
    simp only [absOf, PView.setRead, h, h1, h2, h3]
    rw [add_one (by unfold PendOk at hp; omega) (by unfold PendOk at hp; omega)]
    simp

theorem SetWrite_view (s : poller) (hp : PendOk s) (hok : ans s.oracle = .nil) :
    absOf s.SetWrite.1 = (absOf s).setWrite ∧ s.SetWrite.2 = .nil := by
  have F := SetWrite_abs s
  cases h : wr s with
  | true => rw [F.1 h]; simp [PView.setWrite, absOf, h]
  | false =>
    obtain ⟨h1, h2, h3, h4⟩ := F.2.1 h hok
    refine ⟨?_, h4⟩
    simp only [absOf, PView.setWrite, h, h1, h2, h3]
    rw [add_one (by unfold PendOk at hp; omega) (by unfold PendOk at hp; omega)]
    simp

/-- Generated `SetRead` / `SetWrite` with a failing system call: the view is unchanged and the error is reported. -/
theorem Set_fail_view (s : poller) (hf : ans s.oracle ≠ .nil) :
    (absOf s.SetRead.1 = absOf s ∧ (rd s = false → s.SetRead.2 = ans s.oracle)) ∧
    (absOf s.SetWrite.1 = absOf s ∧ (wr s = false → s.SetWrite.2 = ans s.oracle)) := by
  constructor
  · have F := SetRead_abs s
    cases h : rd s with
    | true => rw [F.1 h]; simp
    | false =>
      obtain ⟨h1, h2, h3⟩ := F.2.2 h hf
      exact ⟨by simp only [absOf, rd, wr, h1, h2], fun _ => h3⟩
  · have F := SetWrite_abs s
    cases h : wr s with
    | true => rw [F.1 h]; simp
    | false =>
      obtain ⟨h1, h2, h3⟩ := F.2.2 h hf
      exact ⟨by simp only [absOf, rd, wr, h1, h2], fun _ => h3⟩

/-- Generated `DelRead` is `PView.delRead`, for every oracle. -/
theorem DelRead_view (s : poller) (h1 : Go.I64MIN + 1 ≤ s.pending) (h2 : s.pending ≤ Go.I64MAX) :
    absOf s.DelRead.1 = (absOf s).delRead := by
  have F := DelRead_abs s
  cases h : rd s with
  | false => rw [F.1 h]; simp [PView.delRead, absOf, h]
  | true =>
    obtain ⟨a, b, c, _, _⟩ := F.2 h
    simp only [absOf, PView.delRead, h, a, b, c]
    rw [add_neg_one h1 h2]
    simp

theorem DelWrite_view (s : poller) (h1 : Go.I64MIN + 1 ≤ s.pending) (h2 : s.pending ≤ Go.I64MAX) :
    absOf s.DelWrite.1 = (absOf s).delWrite := by
  have F := DelWrite_abs s
  cases h : wr s with
  | false => rw [F.1 h]; simp [PView.delWrite, absOf, h]
  | true =>
    obtain ⟨a, b, c, _, _⟩ := F.2 h
    simp only [absOf, PView.delWrite, h, a, b, c]
    rw [add_neg_one h1 h2]
    simp

theorem delRead_pending (v : PView) : v.pending - 1 ≤ v.delRead.pending ∧ v.delRead.pending ≤ v.pending := by
  unfold PView.delRead; split <;> simp <;> omega

/-- Generated `Del` is `PView.del`, for every oracle: both directions are always removed. -/
theorem Del_view (s : poller) (hp : PendOk s) : absOf s.Del.1 = (absOf s).del := by
  rw [Del_eq, PView.del_eq]
  simp only
  unfold PendOk at hp
  have hr := DelRead_view s (by omega) (by omega)
  have hb := delRead_pending (absOf s)
  have hpend : s.DelRead.1.pending = (absOf s).delRead.pending := by rw [← hr]; rfl
  have hsp : (absOf s).pending = s.pending := rfl
  rw [DelWrite_view s.DelRead.1 (by omega) (by omega), hr]

/-! ### The loop model's helpers on the same view -/

theorem viewAt_setObj (w : World) (o o' : Obj) (hg : getObj w o.id = some o) (hid : o'.id = o.id) :
    viewAt (setObj w o') o.id = some (viewOf w o') := by
  unfold viewAt
  rw [getObj_setObj_self w o o' hg hid]
  rfl

theorem model_setRead_view (w : World) (o : Obj) (op : Nat) (hg : getObj w o.id = some o) :
    viewAt (setRead w o op) o.id = some (viewOf w o).setRead := by
  unfold setRead
  split
  · rename_i h
    rw [viewAt_setObj w o _ hg (by rfl)]; simp [viewOf, PView.setRead, h]
  · rename_i h
    have hg' : getObj { w with pending := w.pending + 1 } o.id = some o := hg
    rw [viewAt_setObj _ o _ hg' (by rfl)]; simp [viewOf, PView.setRead, h]

theorem model_setWrite_view (w : World) (o : Obj) (op : Nat) (hg : getObj w o.id = some o) :
    viewAt (setWrite w o op) o.id = some (viewOf w o).setWrite := by
  unfold setWrite
  split
  · rename_i h
    rw [viewAt_setObj w o _ hg (by rfl)]; simp [viewOf, PView.setWrite, h]
  · rename_i h
    have hg' : getObj { w with pending := w.pending + 1 } o.id = some o := hg
    rw [viewAt_setObj _ o _ hg' (by rfl)]; simp [viewOf, PView.setWrite, h]

theorem model_armTimer_view (w : World) (o : Obj) (op : Nat) (rep : Bool) (hg : getObj w o.id = some o) :
    viewAt (armTimer w o op rep) o.id = some (viewOf w o).setRead := by
  unfold armTimer
  by_cases h : o.evR
  · simp only [h, if_true]
    rw [viewAt_setObj w o _ hg (by rfl)]; simp [viewOf, PView.setRead, h]
  · simp only [h, Bool.false_eq_true, ↓reduceIte]
    have hg' : getObj { w with pending := w.pending + 1 } o.id = some o := hg
    rw [viewAt_setObj _ o _ hg' (by rfl)]; simp [viewOf, PView.setRead, h]

theorem model_delRead_view (w : World) (o : Obj) (hg : getObj w o.id = some o) :
    viewAt (delRead w o) o.id = some (viewOf w o).delRead := by
  unfold delRead
  split
  · rename_i h
    have hg' : getObj { w with pending := w.pending - 1 } o.id = some o := hg
    rw [viewAt_setObj _ o _ hg' (by rfl)]; simp [viewOf, PView.delRead, h]
  · rename_i h
    unfold viewAt; rw [hg]; simp [viewOf, PView.delRead, h]

theorem model_delWrite_view (w : World) (o : Obj) (hg : getObj w o.id = some o) :
    viewAt (delWrite w o) o.id = some (viewOf w o).delWrite := by
  unfold delWrite
  split
  · rename_i h
    have hg' : getObj { w with pending := w.pending - 1 } o.id = some o := hg
    rw [viewAt_setObj _ o _ hg' (by rfl)]; simp [viewOf, PView.delWrite, h]
  · rename_i h
    unfold viewAt; rw [hg]; simp [viewOf, PView.delWrite, h]

/-- `closeObj` on anything but a timer is `poller.Del`. -/
theorem model_closeObj_view (w : World) (o : Obj) (hk : o.kind ≠ .timer) (hg : getObj w o.id = some o) :
    viewAt (closeObj w o) o.id = some (viewOf w o).del := by
  unfold closeObj
  have hk' : (o.kind == ObjKind.timer) = false := by simpa using hk
  simp only [hk', Bool.false_eq_true, ↓reduceIte]
  have hg' : getObj { w with pending := w.pending - ((if o.evR then 1 else 0) + (if o.evW then 1 else 0)) } o.id = some o := hg
  rw [viewAt_setObj _ o _ hg' (by rfl)]
  rfl

/-- Closing or cancelling a timer (`internal.Timer.Unset` → `poller.Del`): `unsetPending`, after which the model clears
`evR`. A timer slot never has the write interest. -/
theorem model_unset_view (w : World) (o o' : Obj) (hW : o.evW = false) (hR' : o'.evR = false) (hW' : o'.evW = false) :
    viewOf (unsetPending w o) o' = (viewOf w o).del := by
  simp [viewOf, unsetPending, PView.del, hW, hR', hW']

end Sonic.Lemmas.PollerTie
