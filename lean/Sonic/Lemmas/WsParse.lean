/-
Facts about the RFC 6455 parser of `Spec/WsFrame.lean`: what a `frame` answer means, and prefix
monotonicity (once the parser has answered `frame` or `tooBig`, more bytes do not change the answer) —
the reason why the frame sequence does not depend on how the bytes were split.
-/
import Sonic.Spec.WsFrame

namespace Sonic.Spec.WsFrame

theorem byteAt_append {bs t : List UInt8} {i : Nat} (h : i < bs.length) : byteAt (bs ++ t) i = byteAt bs i := by
  unfold byteAt
  rw [List.getD_eq_getElem?_getD, List.getD_eq_getElem?_getD, List.getElem?_append_left h]

theorem extLen_le (b : Nat) : extLen b ≤ 8 := by
  unfold extLen; split
  · omega
  · split <;> omega
theorem maskLen_le (b : Nat) : maskLen b ≤ 4 := by unfold maskLen; split <;> omega

theorem hdrLen_le (bs : List UInt8) : hdrLen bs ≤ 14 := by
  unfold hdrLen; have := extLen_le (byteAt bs 1); have := maskLen_le (byteAt bs 1); omega

theorem hdrLen_ge (bs : List UInt8) : 2 ≤ hdrLen bs := by unfold hdrLen; omega

theorem declLen_append {bs t : List UInt8} (h2 : 2 ≤ bs.length) (h : 2 + extLen (byteAt bs 1) ≤ bs.length) :
    declLen (bs ++ t) = declLen bs := by
  unfold declLen
  rw [byteAt_append (by omega)]
  split
  · rfl
  · rw [List.drop_append_of_le_length (by omega), List.take_append_of_le_length (by rw [List.length_drop]; omega)]

theorem hdrLen_append {bs t : List UInt8} (h2 : 2 ≤ bs.length) : hdrLen (bs ++ t) = hdrLen bs := by
  unfold hdrLen; rw [byteAt_append (by omega)]

theorem frameOf_append {bs t : List UInt8} (h2 : 2 ≤ bs.length) (h : hdrLen bs + declLen bs ≤ bs.length) :
    frameOf (bs ++ t) = frameOf bs := by
  have hh : 2 + extLen (byteAt bs 1) ≤ bs.length := by unfold hdrLen at h; omega
  have hm : 2 + extLen (byteAt bs 1) + maskLen (byteAt bs 1) ≤ bs.length := by unfold hdrLen at h; omega
  unfold frameOf
  simp only [hdrLen_append h2, declLen_append h2 hh]
  rw [byteAt_append (by omega), byteAt_append (by omega)]
  rw [List.drop_append_of_le_length (by omega), List.take_append_of_le_length (by rw [List.length_drop]; omega)]
  rw [List.drop_append_of_le_length (by unfold hdrLen; omega), List.take_append_of_le_length (by rw [List.length_drop]; omega)]

/-- What a `frame` answer says. -/
theorem parse_frame {max : Int} {bs : List UInt8} {f : Frame} {n : Nat} (h : parse max bs = .frame f n) :
    2 ≤ bs.length ∧ n = hdrLen bs + declLen bs ∧ n ≤ bs.length ∧ f = frameOf bs ∧ (declLen bs : Int) ≤ max := by
  unfold parse at h
  split at h; · cases h
  split at h; · cases h
  split at h; · cases h
  split at h; · cases h
  split at h; · cases h
  injection h with h1 h2
  exact ⟨by omega, h2.symm, by omega, h1.symm, by omega⟩

theorem parse_tooBig {max : Int} {bs : List UInt8} (h : parse max bs = .tooBig) :
    2 ≤ bs.length ∧ 2 + extLen (byteAt bs 1) ≤ bs.length ∧ (declLen bs : Int) > max := by
  unfold parse at h
  split at h; · cases h
  split at h; · cases h
  split at h
  · exact ⟨by omega, by omega, by assumption⟩
  split at h; · cases h
  split at h; · cases h
  cases h

theorem parse_frame_of {max : Int} {bs : List UInt8} (h2 : 2 ≤ bs.length) (hd : (declLen bs : Int) ≤ max)
    (hn : hdrLen bs + declLen bs ≤ bs.length) : parse max bs = .frame (frameOf bs) (hdrLen bs + declLen bs) := by
  have : 2 + extLen (byteAt bs 1) ≤ hdrLen bs := by unfold hdrLen; omega
  unfold parse
  rw [if_neg (by omega), if_neg (by omega), if_neg (by omega), if_neg (by omega), if_neg (by omega)]

theorem parse_tooBig_of {max : Int} {bs : List UInt8} (h2 : 2 ≤ bs.length) (he : 2 + extLen (byteAt bs 1) ≤ bs.length)
    (hd : (declLen bs : Int) > max) : parse max bs = .tooBig := by
  unfold parse
  rw [if_neg (by omega), if_neg (by omega), if_pos hd]

/-- A yielded frame is never above the maximum and its payload has the declared length. -/
theorem frameOf_payload_length {bs : List UInt8} (h : hdrLen bs + declLen bs ≤ bs.length) :
    (frameOf bs).payload.length = declLen bs := by
  unfold frameOf; simp only [List.length_take, List.length_drop]; omega

theorem parse_frame_bounded {max : Int} {bs : List UInt8} {f : Frame} {n : Nat} (h : parse max bs = .frame f n) :
    (f.payload.length : Int) ≤ max := by
  obtain ⟨_, hn, hle, hf, hd⟩ := parse_frame h
  rw [hf, frameOf_payload_length (by omega)]; exact hd

/-- Prefix monotonicity. -/
theorem parse_append_frame {max : Int} {bs t : List UInt8} {f : Frame} {n : Nat} (h : parse max bs = .frame f n) :
    parse max (bs ++ t) = .frame f n := by
  obtain ⟨h2, hn, hle, hf, hd⟩ := parse_frame h
  have hh : 2 + extLen (byteAt bs 1) ≤ bs.length := by unfold hdrLen at hn; omega
  have := @parse_frame_of max (bs ++ t) (by rw [List.length_append]; omega)
    (by rw [declLen_append h2 hh]; exact hd)
    (by rw [declLen_append h2 hh, hdrLen_append h2, List.length_append]; omega)
  rw [this, frameOf_append h2 (by omega), hdrLen_append h2, declLen_append h2 hh, hf, hn]

theorem parse_append_tooBig {max : Int} {bs t : List UInt8} (h : parse max bs = .tooBig) :
    parse max (bs ++ t) = .tooBig := by
  obtain ⟨h2, he, hd⟩ := parse_tooBig h
  exact parse_tooBig_of (by rw [List.length_append]; omega) (by rw [byteAt_append (by omega), List.length_append]; omega)
    (by rw [declLen_append h2 he]; exact hd)

end Sonic.Spec.WsFrame
