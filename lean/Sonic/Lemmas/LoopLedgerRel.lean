/-
Coupling between a state of the loop model and a state of the API-level ledger (`Sonic.Spec.Ledger`).
-/
import Sonic.Lemmas.LoopLedgerAbs

namespace Sonic.Model.Loop
open Sonic.Spec.Loop (Ev Ret Res OpKind ObjKind maxDispatch)
open Sonic.Spec.Ledger (Rec LFrame L killFrames timerOn)

/-- The callback of a repeating schedule of timer `k` started when the Cancel counter was `cb`; `live` says that it
will be armed again when it returns (no Cancel since, timer not closed). -/
def LiveRel (w : World) (k cb : Nat) (live : Bool) : Prop :=
  ∃ o, getObj w k = some o ∧ o.kind = .timer ∧ cb ≤ o.cancels ∧ (o.cancelled = true → cb < o.cancels) ∧
    (live = true ↔ (o.cancels = cb ∧ o.tstate ≠ .closed))

def FrameRel (w : World) : K → LFrame → Prop
  | .startCall op k kind c, .start r e => r = ⟨op, k, kind⟩ ∧ e = c
  | .schedCall op k rep _ c, .sched r e => r = ⟨op, k, if rep then .timerRep else .timerOnce⟩ ∧ e = c
  | .postCall op, .post op' => op' = op
  | .closeCall k, .close k' => k' = k
  | .tcancelCall k, .tcancel k' => k' = k
  | .pendingCall, .pending => True
  | .cancelCall _ _, .other => True
  | .scheduledCall _, .other => True
  | .pollCall _, .other => True
  | .otherCall, .other => True
  | .finishCall, .other => True
  | .user op (.timerDone k true cb), .handler r live => r = ⟨op, k, .timerRep⟩ ∧ LiveRel w k cb live
  | .user op _, .handler r live => r.id = op ∧ (r.kind = .timerRep → live = false)
  | _, _ => False

def StackRel (w : World) : List K → List LFrame → Prop
  | [], [] => True
  | k :: ks, f :: fs => FrameRel w k f ∧ StackRel w ks fs
  | _, _ => False

structure Sim (w : World) (l : L) : Prop where
  owed : l.owed.Perm (absOwed w)
  stack : StackRel w w.stack l.stack

/-- What `FrameRel` reads of the objects is unchanged (or changed in the harmless direction). -/
def TSame (w w' : World) : Prop :=
  ∀ k o, getObj w k = some o → o.kind = .timer → ∃ o', getObj w' k = some o' ∧ o'.kind = .timer ∧ o'.cancels = o.cancels ∧
    (o'.cancelled = true → o.cancelled = true) ∧ (o'.tstate = .closed ↔ o.tstate = .closed)

theorem liveRel_tsame {w w' : World} (h : TSame w w') {k cb : Nat} {live : Bool} (hl : LiveRel w k cb live) : LiveRel w' k cb live := by
  obtain ⟨o, hg, hk, h1, h2, h3⟩ := hl
  obtain ⟨o', hg', hk', hc, hcc, hcl⟩ := h k o hg hk
  refine ⟨o', hg', hk', by rw [hc]; exact h1, fun hx => by rw [hc]; exact h2 (hcc hx), ?_⟩
  rw [h3, hc]
  constructor
  · rintro ⟨a, b⟩; exact ⟨a, fun e => b (hcl.1 e)⟩
  · rintro ⟨a, b⟩; exact ⟨a, fun e => b (hcl.2 e)⟩

theorem frameRel_tsame {w w' : World} (h : TSame w w') {k : K} {f : LFrame} (hf : FrameRel w k f) : FrameRel w' k f := by
  cases k with
  | user op a =>
    cases a with
    | timerDone kk rep cb =>
      cases rep with
      | true =>
        cases f with
        | handler r live => exact ⟨hf.1, liveRel_tsame h hf.2⟩
        | _ => exact hf
      | false => cases f <;> exact hf
    | _ => cases f <;> exact hf
  | _ => cases f <;> exact hf

theorem stackRel_tsame {w w' : World} (h : TSame w w') : ∀ {st : List K} {lst : List LFrame}, StackRel w st lst → StackRel w' st lst
  | [], [], _ => trivial
  | [], _ :: _, hs => hs.elim
  | _ :: _, [], hs => hs.elim
  | _ :: _, _ :: _, hs => ⟨frameRel_tsame h hs.1, stackRel_tsame h hs.2⟩

theorem tsame_objs {w w' : World} (h : w'.objs = w.objs) : TSame w w' := by
  intro k o hg hk
  refine ⟨o, ?_, hk, rfl, id, Iff.rfl⟩
  unfold getObj at *; rw [h]; exact hg

theorem getObj_setObj_ne (w : World) (o' : Obj) (k : Nat) (hne : k ≠ o'.id) : getObj (setObj w o') k = getObj w k := by
  unfold getObj setObj
  simp only
  generalize w.objs = l
  induction l with
  | nil => rfl
  | cons x r ih =>
    simp only [List.map_cons, List.find?_cons]
    by_cases hx : (x.id == o'.id) = true
    · rw [if_pos hx]
      have h1 : (o'.id == k) = false := by
        cases h : (o'.id == k) with
        | false => rfl
        | true => exact absurd (by simpa using h : o'.id = k).symm hne
      have h2 : (x.id == k) = false := by
        have : x.id = o'.id := by simpa using hx
        rw [this]; exact h1
      rw [h1, h2]; exact ih
    · rw [if_neg hx]
      cases hk : (x.id == k) with
      | true => rfl
      | false => exact ih

/-- One object replaced by one that looks the same to `FrameRel`. -/
theorem tsame_setObj {w w1 : World} {o o' : Obj} (h1 : w1.objs = w.objs) (hg : getObj w o.id = some o) (hid : o'.id = o.id) (hk : o'.kind = o.kind)
    (hc : o'.cancels = o.cancels) (hcc : o'.cancelled = true → o.cancelled = true) (hcl : o'.tstate = .closed ↔ o.tstate = .closed) :
    TSame w (setObj w1 o') := by
  intro k x hgx hkx
  have hg1 : getObj w1 o.id = some o := by unfold getObj at *; rw [h1]; exact hg
  by_cases hkk : k = o'.id
  · rw [hkk, hid, hg] at hgx
    cases hgx
    refine ⟨o', ?_, by rw [hk]; exact hkx, hc, hcc, hcl⟩
    rw [hkk, hid]; exact getObj_setObj_self w1 o o' hg1 hid
  · refine ⟨x, ?_, hkx, rfl, id, Iff.rfl⟩
    rw [getObj_setObj_ne w1 o' k hkk]
    unfold getObj at *; rw [h1]; exact hgx

theorem tsame_stack {w : World} (st : List K) : TSame w { w with stack := st } := tsame_objs (w := w) (w' := { w with stack := st }) rfl

theorem stackRel_stack {w : World} {st0 st : List K} {lst : List LFrame} (h : StackRel w st lst) :
    StackRel { w with stack := st0 } st lst := stackRel_tsame (w := w) (w' := { w with stack := st0 }) (tsame_objs rfl) h

end Sonic.Model.Loop
