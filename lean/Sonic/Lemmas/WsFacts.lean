/-
Direct facts about the model of stream.go used by the clause-by-clause theorems of C08 and C15.
-/
import Sonic.Lemmas.WsRefine

set_option linter.unusedSimpArgs false

namespace Sonic.Lemmas.WsFacts
open Sonic.Spec.WsStream Sonic.Model.WsStream Sonic.Lemmas.WsOut Sonic.Lemmas.WsRefine

/-- The transport hands over the first queued frame. -/
def deq (m : M) (rest : List InFrame) : M := { m with inq := rest }

theorem nfi_conform (m : M) (f : InFrame) (rest : List InFrame) (hq : m.inq = f :: rest)
    (hr : canRead m = true) (hconf : isViolation f = false) (hmax : f.payload.length ≤ m.max) :
    nextFrameInner m = some (conform (deq m rest) f, .nil, some f) := by
  have hgt : ¬ f.payload.length > m.max := by omega
  have hh := hf_ok (deq m rest) f hconf (canRead_cases hr)
  unfold deq at hh ⊢
  unfold nextFrameInner readNext
  simp only [hq, hgt, if_false, hh]

theorem nfi_violation (m : M) (f : InFrame) (rest : List InFrame) (hq : m.inq = f :: rest)
    (hv : isViolation f = true) (hmax : f.payload.length ≤ m.max) :
    ∃ e, e.isProto = true ∧ nextFrameInner m = some (violated (deq m rest), e, some f) := by
  have hgt : ¬ f.payload.length > m.max := by omega
  obtain ⟨e, hh, hp⟩ := hf_viol (deq m rest) f hv
  refine ⟨e, hp, ?_⟩
  unfold deq at hh ⊢
  unfold nextFrameInner readNext
  simp only [hq, hgt, if_false, hh]

/-- Reading a conforming frame that is within the maximum: the frame is returned without error and `conform`
describes the effect. -/
theorem nextFrame_conform (m : M) (async : Bool) (f : InFrame) (rest : List InFrame) (hq : m.inq = f :: rest)
    (hr : canRead (flush m) = true) (hconf : isViolation f = false) (hmax : f.payload.length ≤ m.max) :
    nextFrame async m = some (conform (deq (flush m) rest) f, .nil, some f) := by
  have h := nfi_conform (flush m) f rest hq hr hconf hmax
  unfold nextFrame
  simp only [hr, Bool.not_true, Bool.false_eq_true, if_false, h]
  simp

/-- Reading a frame that violates the framing rules: a protocol error is returned and `violated` describes the effect. -/
theorem nextFrame_violation (m : M) (async : Bool) (f : InFrame) (rest : List InFrame) (hq : m.inq = f :: rest)
    (hr : canRead (flush m) = true) (hv : isViolation f = true) (hmax : f.payload.length ≤ m.max) :
    ∃ e, e.isProto = true ∧ nextFrame async m = some (violated (deq (flush m) rest), e, some f) := by
  obtain ⟨e, hp, h⟩ := nfi_violation (flush m) f rest hq hv hmax
  refine ⟨e, hp, ?_⟩
  have hne : (e == Err.eof) = false := by
    cases e <;> simp [Err.isProto] at hp ⊢
  unfold nextFrame
  simp only [hr, Bool.not_true, Bool.false_eq_true, if_false, h, hne, Bool.and_false]

/-- After the closing handshake (or an abnormal end) every read reports end-of-stream without touching the transport. -/
theorem nextFrame_gated (m : M) (async : Bool) (hr : canRead m = false) :
    ∃ m', nextFrame async m = some (m', .eof, none) ∧ m'.inq = m.inq ∧ out m' = out m ∧
      m'.state = (if async then .terminated else m.state) := by
  have hr' : canRead (flush m) = false := hr
  unfold nextFrame
  simp only [hr', Bool.not_false, if_true]
  cases async
  · exact ⟨_, rfl, rfl, out_flush m, rfl⟩
  · exact ⟨_, rfl, rfl, out_flush m, rfl⟩

theorem closeLast_count : ∀ {l : List OutFrame}, closeLast l = true → (l.filter OutFrame.isClose).length ≤ 1
  | [], _ => by simp
  | x :: r, h => by
    simp only [closeLast] at h
    by_cases hx : x.isClose = true
    · simp only [hx, if_true, List.isEmpty_iff] at h
      subst h; simp [hx]
    · have hx' : x.isClose = false := by simpa using hx
      simp only [hx', Bool.false_eq_true, if_false] at h
      simp only [List.filter_cons, hx', Bool.false_eq_true, if_false]
      exact closeLast_count h

theorem closeLast_nothing_after : ∀ {l : List OutFrame}, closeLast l = true →
    ∀ pre x post, l = pre ++ x :: post → x.isClose = true → post = []
  | [], _, pre, x, post, he, _ => by simp at he
  | y :: r, h, pre, x, post, he, hx => by
    simp only [closeLast] at h
    cases pre with
    | nil =>
      simp only [List.nil_append, List.cons.injEq] at he
      obtain ⟨hy, hr⟩ := he
      subst hy; subst hr
      simpa [hx] using h
    | cons z pre' =>
      simp only [List.cons_append, List.cons.injEq] at he
      obtain ⟨hy, hr⟩ := he
      by_cases hyc : y.isClose = true
      · simp only [hyc, if_true, List.isEmpty_iff] at h
        subst h; simp at hr
      · have hy' : y.isClose = false := by simpa using hyc
        simp only [hy', Bool.false_eq_true, if_false] at h
        exact closeLast_nothing_after h pre' x post hr hx

end Sonic.Lemmas.WsFacts
