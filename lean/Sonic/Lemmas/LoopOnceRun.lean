/-
Exactly-once, lifted from single transitions to whole histories.
-/
import Sonic.Lemmas.LoopKinds
import Sonic.Lemmas.LoopAcct

namespace Sonic.Model.Loop
open Sonic.Spec.Loop (Ev Ret Res OpKind ObjKind maxDispatch)

/-- number of times the callback of `x` is entered in an event list -/
def enterCount (x : Nat) : List Ev → Int
  | [] => 0
  | e :: r => entersOf x e + enterCount x r

theorem kindOk_step {w w' : World} {e : Ev} (hk : KindOk w) (h : step w e = some w') : KindOk w' := by
  obtain ⟨hmono, hframes⟩ := step_kinds w w' e h
  intro op k c hm
  rcases hframes op k c hm with h1 | ⟨info, h2, h3⟩
  · obtain ⟨info, h2, h3⟩ := hk op k c h1
    exact ⟨info, hmono _ _ h2, h3⟩
  · exact ⟨info, hmono _ _ h2, h3⟩

/-- number of calls that start operation `x` in an event list (ids are chosen by the program: fresh ones) -/
def startCount (x : Nat) : List Ev → Int
  | [] => 0
  | e :: r => startsOf x e + startCount x r

theorem getOp_mono_run {w w' : World} {evs : List Ev} (h : run w evs = some w') :
    ∀ x info, getOp w x = some info → getOp w' x = some info := by
  induction evs generalizing w with
  | nil => simp only [run] at h; cases h; exact fun _ _ hx => hx
  | cons e r ih =>
    simp only [run] at h
    cases hs : step w e with
    | none => simp [hs] at h
    | some w1 =>
      simp only [hs] at h
      intro x info hx
      exact ih h x info ((step_kinds w w1 e hs).1 x info hx)

/-- A step re-arms `x` only if `x` is recorded as a repeating timer. -/
theorem rearms_only_rep (x : Nat) (w : World) (e : Ev) (hk : KindOk w) (hr : rearmsOf x w e ≠ 0) :
    ∃ info, getOp w x = some info ∧ info.kind = .timerRep := by
  cases e with
  | exit op =>
    simp only [rearmsOf] at hr
    split at hr
    · rename_i op' k c rest hst
      by_cases hx : op = x ∧ op' = x
      · have := hk op' k c (by rw [hst]; exact List.mem_cons_self ..)
        rw [hx.2] at this; exact this
      · simp [hx] at hr
    · exact absurd rfl hr
  | _ => exact absurd rfl hr

/-- **Reference accounting over a whole history**, for an operation that is not a repeating timer. -/
theorem run_refs (x : Nat) : ∀ (evs : List Ev) (w w' : World), run w evs = some w' → AcctInv w → KindOk w →
    (∀ info, getOp w' x = some info → info.kind ≠ .timerRep) →
    refs w' x + enterCount x evs ≤ refs w x + startCount x evs
  | [], w, w', h, _, _, _ => by simp only [run] at h; cases h; simp [enterCount, startCount]
  | e :: r, w, w', h, hI, hk, hnr => by
    simp only [run] at h
    cases hs : step w e with
    | none => simp [hs] at h
    | some w1 =>
      simp only [hs] at h
      have ih := run_refs x r w1 w' h (step_acct w w1 e hI hs) (kindOk_step hk hs) hnr
      have h1 := step_refs x w w1 e hI.1 hs
      have h0 : rearmsOf x w e = 0 := by
        by_cases hz : rearmsOf x w e = 0
        · exact hz
        · obtain ⟨info, hg, hrep⟩ := rearms_only_rep x w e hk hz
          have hg1 := (step_kinds w w1 e hs).1 x info hg
          exact absurd hrep (hnr info (getOp_mono_run h x info hg1))
      simp only [enterCount, startCount]
      omega

end Sonic.Model.Loop
