/-
The RFC 6455 parser inverts the reference encoder (`Spec.WsFrame.encode`): for every FIN/RSV/opcode/mask
combination and every payload length class.
-/
import Sonic.Lemmas.WsFrames

namespace Sonic.Spec.WsFrame

theorem length_beBytes (k n : Nat) : (beBytes k n).length = k := by
  induction k with
  | zero => rfl
  | succ k ih => simp [beBytes, ih]

theorem foldl_acc (l : List UInt8) (acc : Nat) :
    l.foldl (fun acc b => acc * 256 + b.toNat) acc = acc * 256 ^ l.length + l.foldl (fun acc b => acc * 256 + b.toNat) 0 := by
  induction l generalizing acc with
  | nil => simp
  | cons b t ih =>
    simp only [List.foldl_cons, List.length_cons]
    rw [ih (acc * 256 + b.toNat), ih (0 * 256 + b.toNat)]
    rw [Nat.add_mul, Nat.pow_succ, Nat.zero_mul, Nat.zero_add, Nat.mul_assoc, Nat.mul_comm 256, Nat.add_assoc]

theorem beNat_cons (b : UInt8) (l : List UInt8) : beNat (b :: l) = b.toNat * 256 ^ l.length + beNat l := by
  unfold beNat
  rw [List.foldl_cons, foldl_acc]; simp

theorem beNat_beBytes (k n : Nat) : beNat (beBytes k n) = n % 256 ^ k := by
  induction k with
  | zero => simp [beBytes, beNat, Nat.mod_one]
  | succ k ih =>
    unfold beBytes
    rw [beNat_cons, length_beBytes, ih, UInt8.toNat_ofNat']
    have h256 : n / 256 ^ k % 256 % 2 ^ 8 = n / 256 ^ k % 256 :=
      Nat.mod_eq_of_lt (by have := Nat.mod_lt (n / 256 ^ k) (by decide : 256 > 0); omega)
    rw [h256, Nat.pow_succ, Nat.mod_mul, Nat.mul_comm, Nat.add_comm]

/-- A byte string laid out as header bytes, extended length, key, payload parses to exactly that frame. -/
theorem parse_layout (max : Int) (b0 b1 : UInt8) (E mk pay t : List UInt8)
    (hE : E.length = extLen b1.toNat) (hmk : mk.length = maskLen b1.toNat)
    (hlen : (if extLen b1.toNat = 0 then b1.toNat % 128 else beNat E) = pay.length)
    (hmax : (pay.length : Int) ≤ max) :
    parse max (b0 :: b1 :: (E ++ mk ++ pay ++ t)) =
      .frame { fin := b0.toNat ≥ 128, rsv1 := b0.toNat / 64 % 2 = 1, rsv2 := b0.toNat / 32 % 2 = 1, rsv3 := b0.toNat / 16 % 2 = 1,
               opcode := b0.toNat % 16, masked := b1.toNat ≥ 128, mask := mk, payload := pay }
        (2 + E.length + mk.length + pay.length) := by
  have hb0 : byteAt (b0 :: b1 :: (E ++ mk ++ pay ++ t)) 0 = b0.toNat := by simp [byteAt]
  have hb1 : byteAt (b0 :: b1 :: (E ++ mk ++ pay ++ t)) 1 = b1.toNat := by simp [byteAt]
  have hd : declLen (b0 :: b1 :: (E ++ mk ++ pay ++ t)) = pay.length := by
    unfold declLen
    rw [hb1, ← hlen]
    split
    · rfl
    · simp only [List.drop_succ_cons, List.drop_zero, List.append_assoc]
      rw [← hE, List.take_left']
      rfl
  have hh : hdrLen (b0 :: b1 :: (E ++ mk ++ pay ++ t)) = 2 + E.length + mk.length := by
    unfold hdrLen; rw [hb1, hE, hmk]
  have := @parse_frame_of max (b0 :: b1 :: (E ++ mk ++ pay ++ t)) (by simp) (by rw [hd]; exact hmax)
    (by rw [hd, hh]; simp only [List.length_cons, List.length_append]; omega)
  rw [this, hd, hh]
  congr 1
  unfold frameOf
  simp only [hb0, hb1, hd, hh]
  have d2 : ∀ k, (b0 :: b1 :: (E ++ mk ++ pay ++ t)).drop (2 + k) = (E ++ mk ++ pay ++ t).drop k := by
    intro k; rw [Nat.add_comm]; rfl
  have e1 : ((b0 :: b1 :: (E ++ mk ++ pay ++ t)).drop (2 + extLen b1.toNat)).take (maskLen b1.toNat) = mk := by
    rw [d2, ← hE, ← hmk]
    simp only [List.append_assoc]
    rw [List.drop_left', List.take_left'] <;> rfl
  have e2 : ((b0 :: b1 :: (E ++ mk ++ pay ++ t)).drop (2 + E.length + mk.length)).take pay.length = pay := by
    rw [Nat.add_assoc, d2]
    simp only [List.append_assoc]
    rw [← List.append_assoc, List.drop_left' (by rw [List.length_append]), List.take_left' rfl]
  rw [e1, e2]

theorem b0_fields (fin r1 r2 r3 : Bool) (op : Nat) (hop : op < 16) :
    128 * b2n fin + 64 * b2n r1 + 32 * b2n r2 + 16 * b2n r3 + op % 16 < 256 ∧
    decide (128 * b2n fin + 64 * b2n r1 + 32 * b2n r2 + 16 * b2n r3 + op % 16 ≥ 128) = fin ∧
    decide ((128 * b2n fin + 64 * b2n r1 + 32 * b2n r2 + 16 * b2n r3 + op % 16) / 64 % 2 = 1) = r1 ∧
    decide ((128 * b2n fin + 64 * b2n r1 + 32 * b2n r2 + 16 * b2n r3 + op % 16) / 32 % 2 = 1) = r2 ∧
    decide ((128 * b2n fin + 64 * b2n r1 + 32 * b2n r2 + 16 * b2n r3 + op % 16) / 16 % 2 = 1) = r3 ∧
    (128 * b2n fin + 64 * b2n r1 + 32 * b2n r2 + 16 * b2n r3 + op % 16) % 16 = op := by
  cases fin <;> cases r1 <;> cases r2 <;> cases r3 <;> simp only [b2n, Bool.false_eq_true, if_false, if_true] <;>
    refine ⟨by omega, ?_, ?_, ?_, ?_, by omega⟩ <;> simp <;> omega

/-- **The parser inverts the encoder**, whatever follows the frame on the wire. -/
theorem parse_encode (max : Int) (f : Frame) (t : List UInt8) (hwf : f.WF) (hmax : (f.payload.length : Int) ≤ max) :
    parse max (encode f ++ t) = .frame f (encode f).length := by
  obtain ⟨hop, hmask, hlen⟩ := hwf
  obtain ⟨fin, r1, r2, r3, op, m, mask, pay⟩ := f
  dsimp only at hop hmask hlen hmax
  obtain ⟨hlt, hfin, hr1, hr2, hr3, hopc⟩ := b0_fields fin r1 r2 r3 op hop
  have hb0 : (UInt8.ofNat (128 * b2n fin + 64 * b2n r1 + 32 * b2n r2 + 16 * b2n r3 + op % 16)).toNat =
      128 * b2n fin + 64 * b2n r1 + 32 * b2n r2 + 16 * b2n r3 + op % 16 := by
    rw [UInt8.toNat_ofNat']; exact Nat.mod_eq_of_lt hlt
  have hmk : (if m = true then mask else []).length = if m = true then 4 else 0 := by
    cases m <;> simp_all
  have hmk' : (if m = true then mask else []) = mask := by cases m <;> simp_all
  have hm2 : b2n m ≤ 1 := by cases m <;> simp [b2n]
  have hmge : ∀ L, L < 128 → decide (128 * b2n m + L ≥ 128) = m := by
    intro L hL; cases m <;> simp [b2n] <;> omega
  unfold encode lenBytes
  dsimp only
  by_cases c1 : pay.length ≤ 125
  · rw [if_pos c1]
    have hb1 : (UInt8.ofNat (128 * b2n m + pay.length)).toNat = 128 * b2n m + pay.length := by
      rw [UInt8.toNat_ofNat']; exact Nat.mod_eq_of_lt (by omega)
    have hext : extLen (128 * b2n m + pay.length) = 0 := by unfold extLen; rw [if_neg (by omega), if_neg (by omega)]
    have := parse_layout max (UInt8.ofNat (128 * b2n fin + 64 * b2n r1 + 32 * b2n r2 + 16 * b2n r3 + op % 16))
      (UInt8.ofNat (128 * b2n m + pay.length)) [] (if m = true then mask else []) pay t
      (by rw [hb1, hext]; rfl)
      (by rw [hb1, hmk]; unfold maskLen; cases m <;> simp [b2n] <;> omega)
      (by rw [hb1, hext, if_pos rfl]; omega) hmax
    simp only [List.nil_append, List.cons_append, List.append_assoc] at this ⊢
    rw [this, hb0, hb1, hfin, hr1, hr2, hr3, hopc, hmge _ (by omega), hmk']
    simp only [List.length_cons, List.length_append, List.length_nil]
    congr 1; omega
  · rw [if_neg c1]
    by_cases c2 : pay.length ≤ 65535
    · rw [if_pos c2]
      have hb1 : (UInt8.ofNat (128 * b2n m + 126)).toNat = 128 * b2n m + 126 := by
        rw [UInt8.toNat_ofNat']; exact Nat.mod_eq_of_lt (by omega)
      have hext : extLen (128 * b2n m + 126) = 2 := by unfold extLen; rw [if_neg (by omega), if_pos (by omega)]
      have := parse_layout max (UInt8.ofNat (128 * b2n fin + 64 * b2n r1 + 32 * b2n r2 + 16 * b2n r3 + op % 16))
        (UInt8.ofNat (128 * b2n m + 126)) (beBytes 2 pay.length) (if m = true then mask else []) pay t
        (by rw [hb1, hext, length_beBytes])
        (by rw [hb1, hmk]; unfold maskLen; cases m <;> simp [b2n])
        (by rw [hb1, hext, if_neg (by omega), beNat_beBytes]; exact Nat.mod_eq_of_lt (by omega)) hmax
      simp only [List.cons_append, List.append_assoc] at this ⊢
      rw [this, hb0, hb1, hfin, hr1, hr2, hr3, hopc, hmge _ (by omega), hmk', length_beBytes]
      simp only [List.length_cons, List.length_append, length_beBytes]
      congr 1; omega
    · rw [if_neg c2]
      have hb1 : (UInt8.ofNat (128 * b2n m + 127)).toNat = 128 * b2n m + 127 := by
        rw [UInt8.toNat_ofNat']; exact Nat.mod_eq_of_lt (by omega)
      have hext : extLen (128 * b2n m + 127) = 8 := by unfold extLen; rw [if_pos (by omega)]
      have h64 : pay.length < 256 ^ 8 := by
        have : (2:Nat) ^ 63 < 256 ^ 8 := by decide
        omega
      have := parse_layout max (UInt8.ofNat (128 * b2n fin + 64 * b2n r1 + 32 * b2n r2 + 16 * b2n r3 + op % 16))
        (UInt8.ofNat (128 * b2n m + 127)) (beBytes 8 pay.length) (if m = true then mask else []) pay t
        (by rw [hb1, hext, length_beBytes])
        (by rw [hb1, hmk]; unfold maskLen; cases m <;> simp [b2n])
        (by rw [hb1, hext, if_neg (by omega), beNat_beBytes]; exact Nat.mod_eq_of_lt h64) hmax
      simp only [List.cons_append, List.append_assoc] at this ⊢
      rw [this, hb0, hb1, hfin, hr1, hr2, hr3, hopc, hmge _ (by omega), hmk', length_beBytes]
      simp only [List.length_cons, List.length_append, length_beBytes]
      congr 1; omega

/-- The frame sequence of the concatenated encodings of a list of frames is that list. -/
theorem frames_encode (max : Int) : ∀ (fs : List Frame), (∀ f ∈ fs, f.WF ∧ (f.payload.length : Int) ≤ max) →
    frames max (fs.flatMap encode) = (fs, .needMore) := by
  intro fs
  induction fs with
  | nil => intro _; exact frames_needMore (by unfold parse; simp)
  | cons f r ih =>
    intro h
    obtain ⟨hwf, hm⟩ := h f (List.mem_cons_self ..)
    have hp := parse_encode max f (r.flatMap encode) hwf hm
    rw [List.flatMap_cons, frames_frame hp, List.drop_left' rfl, ih (fun g hg => h g (List.mem_cons_of_mem _ hg))]

end Sonic.Spec.WsFrame
