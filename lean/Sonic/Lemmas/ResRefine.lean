/-
Refinement: the descriptor-table model's observable behaviour is accepted by the property monitor
`Sonic.Spec.Resources`, for every operation list (coupling: the monitor's set of open descriptors is the model's table).
-/
import Sonic.Lemmas.ResTable
import Sonic.Spec.Resources

namespace Sonic.Model.Resources
open Sonic.Spec.Resources (sortNat insertSorted)

theorem mem_insertSorted (a x : Nat) : ∀ l, x ∈ insertSorted a l ↔ x = a ∨ x ∈ l
  | [] => by simp [insertSorted]
  | b :: r => by
    unfold insertSorted
    split
    · simp
    · simp only [List.mem_cons, mem_insertSorted a x r]
      constructor
      · rintro (h | h | h)
        · exact Or.inr (Or.inl h)
        · exact Or.inl h
        · exact Or.inr (Or.inr h)
      · rintro (h | h | h)
        · exact Or.inr (Or.inl h)
        · exact Or.inl h
        · exact Or.inr (Or.inr h)

theorem mem_sortNat (x : Nat) : ∀ l, x ∈ sortNat l ↔ x ∈ l
  | [] => by simp [sortNat]
  | a :: r => by
    have ih := mem_sortNat x r
    unfold sortNat at ih ⊢
    simp only [List.foldr_cons, mem_insertSorted, ih, List.mem_cons]

/-- What the harness observes of the model after an operation: all open descriptors, ascending. -/
def aliveOf (w : World) : List Nat := sortNat (w.table.map (·.1))

def specOp : Op → Sonic.Spec.Resources.Op
  | .new k _ => .new k ""
  | .close k => .close k

def obsOf (w' : World) : Op → Sonic.Spec.Resources.Obs
  | .new _ fds => .created fds (aliveOf w')
  | .close _ => .closed (aliveOf w')

/-- The model's trace of an operation list (`none` if an operation is impossible). -/
def trace (w : World) : List Op → Option (List (Sonic.Spec.Resources.Op × Sonic.Spec.Resources.Obs))
  | [] => some []
  | op :: r => match step true w op with
    | none => none
    | some w' => (trace w' r).map ((specOp op, obsOf w' op) :: ·)

theorem step_refines (w w' : World) (s : Sonic.Spec.Resources.S) (op : Op) (hI : Inv w) (hR : s.open_ = w.table)
    (h : step true w op = some w') :
    ∃ s', Sonic.Spec.Resources.step s (specOp op) (obsOf w' op) = .ok s' ∧ s'.open_ = w'.table := by
  cases op with
  | new k fds =>
    simp only [step] at h
    split at h
    · cases h
    · rename_i hc
      simp only [Bool.or_eq_true, Bool.not_eq_true', not_or, Bool.not_eq_true] at hc
      cases h
      have hfree : (fds.any fun fd => w.table.any (·.1 == fd)) = false := hc.2
      simp only [specOp, obsOf, Sonic.Spec.Resources.step, hR, hfree, Bool.false_eq_true, if_false, aliveOf,
        Sonic.Spec.Resources.fdsOf]
      exact ⟨_, by simp, rfl⟩
  | close k =>
    simp only [step] at h
    cases hg : getObj w k with
    | none => simp [hg] at h
    | some o =>
      simp only [hg] at h
      obtain ⟨hom, hoid⟩ := getObj_mem hg
      -- the entries the monitor attributes to `k` are exactly the ones the model removes
      have hothers : w'.table = w.table.filter (·.2 != k) := by
        split at h
        · rename_i hc
          cases h
          have hcl : o.closed = true := by simpa using hc
          -- a closed object owns nothing: filtering by owner changes nothing
          symm
          apply List.filter_eq_self.2
          intro e he
          obtain ⟨y, hy, h1, h2, _⟩ := hI.back e.1 e.2 he
          simp only [bne_iff_ne, ne_eq]
          intro hek
          have : y = o := hI.uniq y hy o hom (by rw [h1, hek, hoid])
          rw [this, hcl] at h2; cases h2
        · rename_i hc
          have hopen : o.closed = false := by
            cases hcl : o.closed with
            | false => rfl
            | true => simp [hcl] at hc
          cases h
          apply List.filter_congr
          intro e he
          cases hcon : o.fds.contains e.1 with
          | true =>
            have hfo : (e.1, o.id) ∈ w.table := hI.owns o hom hopen e.1 (by simpa using hcon)
            have : e.2 = o.id := hI.func e.1 e.2 o.id he hfo
            simp [this, hoid]
          | false =>
            obtain ⟨y, hy, h1, h2, h3⟩ := hI.back e.1 e.2 he
            have : e.2 ≠ k := by
              intro hek
              have : y = o := hI.uniq y hy o hom (by rw [h1, hek, hoid])
              rw [this] at h3
              have : o.fds.contains e.1 = true := by simpa using h3
              rw [this] at hcon; cases hcon
            simp [this]
      have hfunc := hI.func
      simp only [specOp, obsOf, Sonic.Spec.Resources.step, hR, aliveOf, hothers]
      have h1 : ((w.table.filter (·.2 != k)).any fun e =>
          !(sortNat ((w.table.filter (·.2 != k)).map (·.1))).contains e.1) = false := by
        apply List.any_eq_false.2
        intro e he
        have : e.1 ∈ sortNat ((w.table.filter (·.2 != k)).map (·.1)) :=
          (mem_sortNat _ _).2 (List.mem_map.2 ⟨e, he, rfl⟩)
        simp [this]
      have h2 : ((w.table.filter (·.2 == k)).any fun e =>
          (sortNat ((w.table.filter (·.2 != k)).map (·.1))).contains e.1) = false := by
        apply List.any_eq_false.2
        intro e he
        obtain ⟨hem, hek⟩ := List.mem_filter.1 he
        intro hcon
        have hmem : e.1 ∈ sortNat ((w.table.filter (·.2 != k)).map (·.1)) := by simpa using hcon
        obtain ⟨e', he', hfst⟩ := List.mem_map.1 ((mem_sortNat _ _).1 hmem)
        obtain ⟨hem', hek'⟩ := List.mem_filter.1 he'
        have : e'.2 = e.2 := hfunc e.1 e'.2 e.2 (by rw [← hfst]; exact hem') hem
        simp only [bne_iff_ne, ne_eq] at hek'
        exact hek' (this.trans (by simpa using hek))
      simp only [h1, h2, Bool.false_eq_true, if_false]
      exact ⟨_, by simp, rfl⟩

/-- **The monitor accepts everything the model can do.** -/
theorem trace_accepted (ops : List Op) : ∀ (w : World) (s : Sonic.Spec.Resources.S) (tr), Inv w → s.open_ = w.table →
    trace w ops = some tr → Sonic.Spec.Resources.accepts s tr = true := by
  induction ops with
  | nil => intro w s tr _ _ h; simp only [trace] at h; cases h; rfl
  | cons op r ih =>
    intro w s tr hI hR h
    simp only [trace] at h
    cases hs : step true w op with
    | none => simp [hs] at h
    | some w' =>
      simp only [hs] at h
      cases ht : trace w' r with
      | none => simp [ht] at h
      | some tr' =>
        simp only [ht, Option.map_some] at h
        cases h
        obtain ⟨s', hs', hR'⟩ := step_refines w w' s op hI hR hs
        simp only [Sonic.Spec.Resources.accepts, hs']
        exact ih w' s' tr' (step_inv w w' op hI hs) hR' ht

end Sonic.Model.Resources
