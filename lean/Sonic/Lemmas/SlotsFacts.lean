/-
Facts about the hand-written slot model (`Sonic.Model.Slots`) used by the C20 refinement proof:
the save-area methods of the buffer, the sorted container, the offsetter and the sequencer against
a ghost description of the index (`GE`: sequence number, original index, bytes; oldest first).
-/
import Sonic.Lemmas.Fenwick

namespace Sonic.Lemmas.SlotsFacts
open Sonic.Gen.Slot Sonic.Spec.Slots Sonic.Model.Slots Sonic.Lemmas.Fenwick

/-! ## Bytes -/

theorem flat_append (p q : List (Int × Bytes)) : flat (p ++ q) = flat p ++ flat q := by
  induction p with
  | nil => rfl
  | cons x r ih => simp [flat, ih]

theorem slice_mid (A B C : Bytes) : slice (A ++ B ++ C) A.length B.length = some B := by
  unfold slice
  rw [if_pos (by simp only [List.length_append]; omega)]
  simp only [Int.toNat_natCast, List.append_assoc, List.drop_left, List.take_left]

theorem saveLen_le (n : Int) (avail : Nat) : saveLen n avail ≤ avail := by
  unfold saveLen; split
  · omega
  · split <;> omega

/-! ## byte_buffer.go -/

/-- The buffer holds save area `sv`, then read area `rd`, and an empty write area. -/
def BufOk (b : Buf) (sv rd : Bytes) : Prop :=
  b.data = sv ++ rd ∧ b.si = sv.length ∧ b.ri = b.data.length

theorem write_commit_spec (b : Buf) (sv rd bytes : Bytes) (h : BufOk b sv rd) :
    BufOk ((b.write bytes).commit bytes.length) sv (rd ++ bytes) := by
  obtain ⟨hd, hs, hr⟩ := h
  unfold Buf.write Buf.commit Buf.wi
  by_cases hb : (bytes.length : Int) ≤ 0
  · have : bytes = [] := List.eq_nil_of_length_eq_zero (by omega)
    subst this
    simp [BufOk, hd, hs, hr]
  · rw [if_neg hb]
    refine ⟨by simp [hd], hs, ?_⟩
    simp only [hr, hd, List.length_append, Int.natCast_add]
    split <;> omega

/-- `Save(n)` moves the first `saveLen n |rd|` readable bytes to the end of the save area and
returns the slot that addresses them (`Slot{0, 0}` when nothing is saved). -/
theorem save_spec (b : Buf) (sv rd : Bytes) (n : Int) (h : BufOk b sv rd) :
    BufOk (b.save n).1 (sv ++ rd.take (saveLen n rd.length)) (rd.drop (saveLen n rd.length)) ∧
    (b.save n).2 = (if saveLen n rd.length = 0 then ⟨0, 0⟩ else ⟨sv.length, saveLen n rd.length⟩) := by
  obtain ⟨hd, hs, hr⟩ := h
  have hrl : b.ri - b.si = rd.length := by
    rw [hr, hs, hd]; simp only [List.length_append, Int.natCast_add]; omega
  have hk := saveLen_le n rd.length
  unfold Buf.save
  simp only [hrl]
  by_cases h1 : n ≤ 0
  · have e : saveLen n rd.length = 0 := by unfold saveLen; rw [if_pos h1]
    have e2 : (if n > (rd.length : Int) then (rd.length : Int) else n) ≤ 0 := by split <;> omega
    rw [if_pos e2, e]
    simp [BufOk, hd, hs, hr]
  · by_cases h2 : n > (rd.length : Int)
    · have e : saveLen n rd.length = rd.length := by unfold saveLen; rw [if_neg h1, if_pos h2]
      rw [if_pos h2, e]
      by_cases h3 : (rd.length : Int) ≤ 0
      · have : rd = [] := List.eq_nil_of_length_eq_zero (by omega)
        subst this
        simp [BufOk, hd, hs, hr]
      · rw [if_neg h3, if_neg (by omega)]
        refine ⟨⟨by simp [hd], by simp [hs], by simp [hr]⟩, by simp [hs]⟩
    · have e : saveLen n rd.length = n.toNat := by unfold saveLen; rw [if_neg h1, if_neg h2]
      rw [if_neg h2, if_neg h1, e, if_neg (by omega)]
      refine ⟨⟨by simp [hd], ?_, by simp [hr]⟩, ?_⟩
      · simp only [hs, List.length_append, List.length_take, Int.natCast_add]
        have : min n.toNat rd.length = n.toNat := by omega
        rw [this]; omega
      · simp only [hs]; congr 1; omega

/-- `Write(bytes); Commit(len bytes); Save(n)`. -/
theorem feed_spec (b : Buf) (sv rd bytes : Bytes) (n : Int) (h : BufOk b sv rd) :
    BufOk (feed b bytes n).1 (sv ++ (rd ++ bytes).take (saveLen n (rd ++ bytes).length))
      ((rd ++ bytes).drop (saveLen n (rd ++ bytes).length)) ∧
    (feed b bytes n).2 = (if saveLen n (rd ++ bytes).length = 0 then ⟨0, 0⟩
      else ⟨sv.length, saveLen n (rd ++ bytes).length⟩) :=
  save_spec _ sv (rd ++ bytes) n (write_commit_spec b sv rd bytes h)

/-- A slot of length zero is discarded without touching the buffer. -/
theorem discard_zero (b : Buf) (slot : Slot) (h : slot.Length = 0) : b.discard slot = some (b, 0) := by
  unfold Buf.discard; rw [if_pos (by omega)]

/-- `SavedSlot` / `Discard` of the slot that addresses the part `B` of the save area `A ++ B ++ C`. -/
theorem discard_spec (b : Buf) (A B C rd : Bytes) (h : BufOk b (A ++ B ++ C) rd) :
    b.savedSlot ⟨A.length, B.length⟩ = some B ∧
    ∃ b' r, b.discard ⟨A.length, B.length⟩ = some (b', r) ∧ BufOk b' (A ++ C) rd := by
  obtain ⟨hd, hs, hr⟩ := h
  constructor
  · unfold Buf.savedSlot
    rw [hd, List.append_assoc (A ++ B)]
    exact slice_mid A B (C ++ rd)
  · by_cases hB : B = []
    · subst hB
      refine ⟨b, 0, discard_zero b _ rfl, ?_⟩
      simpa [BufOk] using And.intro hd (And.intro hs hr)
    · have hlen : 0 < B.length := List.length_pos_iff.mpr hB
      unfold Buf.discard
      simp only
      rw [if_neg (by omega), if_pos (by
        unfold Buf.wi; rw [hd]; simp only [List.length_append, Int.natCast_add]; omega)]
      refine ⟨_, _, rfl, ?_, ?_, ?_⟩
      · have e1 : (A.length : Int).toNat = A.length := by simp
        have e2 : ((A.length : Int) + (B.length : Int)).toNat = (A ++ B).length := by simp; omega
        simp only [e1, e2, hd]
        rw [List.append_assoc A B C, List.append_assoc A (B ++ C) rd, List.take_left]
        rw [← List.append_assoc A (B ++ C) rd, ← List.append_assoc A B C, List.append_assoc (A ++ B) C rd, List.drop_left]
        simp
      · simp only [hs, List.length_append, Int.natCast_add]; omega
      · simp only [hr, hd, List.length_append, Int.natCast_add]
        have e1 : (A.length : Int).toNat = A.length := by simp
        have e2 : ((A.length : Int) + (B.length : Int)).toNat = (A ++ B).length := by simp; omega
        rw [e1, e2]
        rw [List.append_assoc A B C, List.append_assoc A (B ++ C) rd, List.take_left]
        rw [← List.append_assoc A (B ++ C) rd, ← List.append_assoc A B C, List.append_assoc (A ++ B) C rd, List.drop_left]
        simp only [List.length_append, Int.natCast_add]; omega

theorem slice_zero (xs : Bytes) (idx : Int) (h0 : 0 ≤ idx) (h1 : idx ≤ xs.length) : slice xs idx 0 = some [] := by
  unfold slice
  rw [if_pos ⟨h0, Int.le_refl 0, by omega⟩]
  simp

/-- `SavedSlot` / `Discard` of a slot that addresses the part `B` of the save area `A ++ B ++ C`;
for an empty `B` any index inside the save area will do. -/
theorem discard_at (b : Buf) (A B C rd : Bytes) (idx : Int) (h : BufOk b (A ++ B ++ C) rd)
    (hi : B ≠ [] → idx = A.length) (h0 : 0 ≤ idx) (h1 : idx ≤ (A ++ B ++ C).length) :
    slice (A ++ B ++ C) idx B.length = some B ∧ b.savedSlot ⟨idx, B.length⟩ = some B ∧
    ∃ b' r, b.discard ⟨idx, B.length⟩ = some (b', r) ∧ BufOk b' (A ++ C) rd := by
  by_cases hB : B = []
  · subst hB
    refine ⟨slice_zero _ _ h0 h1, ?_, b, 0, discard_zero b _ rfl, by simpa using h⟩
    unfold Buf.savedSlot
    exact slice_zero _ _ h0 (by rw [h.1]; simp only [List.length_append] at h1 ⊢; omega)
  · rw [hi hB]
    obtain ⟨h2, h3⟩ := discard_spec b A B C rd h
    exact ⟨slice_mid A B C, h2, h3⟩

/-! ## sequenced_slots.go -/

/-- The container is kept in strictly ascending order of sequence numbers. -/
def SortedSeq (l : List SSlot) : Prop := l.Pairwise (fun x y => x.seq < y.seq)

/-- `sort.Search` by its contract: everything before the index is smaller, the element at it is not. -/
theorem search_split (slots : List SSlot) (seq : Int) :
    ∃ l r, slots = l ++ r ∧ l.length = search slots seq ∧ (∀ e ∈ l, e.seq < seq) ∧
      (∀ e r', r = e :: r' → seq ≤ e.seq) := by
  induction slots with
  | nil => exact ⟨[], [], rfl, rfl, by simp, by simp⟩
  | cons x xs ih =>
    obtain ⟨l, r, h1, h2, h3, h4⟩ := ih
    unfold search at h2 ⊢
    rw [List.findIdx_cons]
    by_cases hx : x.seq ≥ seq
    · refine ⟨[], x :: xs, rfl, by simp [hx], by simp, ?_⟩
      intro e r' he
      simp only [List.cons.injEq] at he
      rw [← he.1]; exact hx
    · refine ⟨x :: l, r, by rw [h1]; rfl, by simp [hx, h2], ?_, h4⟩
      intro e he
      rcases List.mem_cons.mp he with rfl | he
      · omega
      · exact h3 e he

theorem sorted_split {l r : List SSlot} {e : SSlot} (h : SortedSeq (l ++ e :: r)) :
    (∀ x ∈ l, x.seq < e.seq) ∧ (∀ x ∈ r, e.seq < x.seq) ∧ SortedSeq (l ++ r) := by
  unfold SortedSeq at h ⊢
  rw [List.pairwise_append] at h
  obtain ⟨h1, h2, h3⟩ := h
  rw [List.pairwise_cons] at h2
  refine ⟨fun x hx => h3 x hx e (List.mem_cons_self ..), h2.1, ?_⟩
  rw [List.pairwise_append]
  exact ⟨h1, h2.2, fun a ha b hb => h3 a ha b (List.mem_cons_of_mem _ hb)⟩

/-- `Pop` on a sorted container: a miss leaves it alone, a hit removes exactly that element. -/
theorem containerPop_spec (slots : List SSlot) (seq : Int) (hs : SortedSeq slots) :
    ((¬ ∃ e ∈ slots, e.seq = seq) ∧ containerPop slots seq = (slots, ⟨0, 0⟩, false)) ∨
    (∃ l e r, slots = l ++ e :: r ∧ e.seq = seq ∧ containerPop slots seq = (l ++ r, e.slot, true)) := by
  obtain ⟨l, r, h1, h2, h3, h4⟩ := search_split slots seq
  unfold containerPop
  simp only [← h2]
  subst h1
  cases r with
  | nil =>
    left
    refine ⟨?_, by simp⟩
    rintro ⟨e, he, hq⟩
    simp only [List.append_nil] at he
    have := h3 e he; omega
  | cons e r' =>
    have hge := h4 e r' rfl
    have hget : (l ++ e :: r')[l.length]? = some e := by simp
    rw [hget]
    by_cases hq : e.seq = seq
    · right
      refine ⟨l, e, r', rfl, hq, ?_⟩
      simp only [hq, if_true, List.take_left]
      have : List.drop (l.length + 1) (l ++ e :: r') = r' := by
        rw [List.drop_append]; simp
      rw [this]
    · left
      obtain ⟨s1, s2, _⟩ := sorted_split hs
      refine ⟨?_, by simp [hq]⟩
      rintro ⟨x, hx, hxq⟩
      rcases List.mem_append.mp hx with hx | hx
      · have := h3 x hx; omega
      · rcases List.mem_cons.mp hx with rfl | hx
        · exact hq hxq
        · have := s2 x hx; omega

/-- `Push` on a sorted container. -/
theorem containerPush_spec (maxSlots : Int) (slots : List SSlot) (seq : Int) (slot : Slot) (hs : SortedSeq slots) :
    ((∃ e ∈ slots, e.seq = seq) ∧ containerPush maxSlots slots seq slot = (slots, false, false)) ∨
    ((¬ ∃ e ∈ slots, e.seq = seq) ∧ (slots.length : Int) ≥ maxSlots ∧
      containerPush maxSlots slots seq slot = (slots, false, true)) ∨
    ((¬ ∃ e ∈ slots, e.seq = seq) ∧ ¬ (slots.length : Int) ≥ maxSlots ∧
      ∃ l r, slots = l ++ r ∧ containerPush maxSlots slots seq slot = (l ++ ⟨slot, seq⟩ :: r, true, false) ∧
        SortedSeq (l ++ ⟨slot, seq⟩ :: r)) := by
  obtain ⟨l, r, h1, h2, h3, h4⟩ := search_split slots seq
  unfold containerPush
  simp only [← h2]
  subst h1
  cases r with
  | nil =>
    have hno : ¬ ∃ e ∈ l ++ ([] : List SSlot), e.seq = seq := by
      rintro ⟨e, he, hq⟩
      simp only [List.append_nil] at he
      have := h3 e he; omega
    right
    simp only [List.append_nil, ge_iff_le, Nat.le_refl, if_true] at hno ⊢
    by_cases hm : maxSlots ≤ (l.length : Int)
    · left; exact ⟨hno, hm, by rw [if_pos hm]⟩
    · right
      refine ⟨hno, hm, l, [], by simp, by rw [if_neg hm], ?_⟩
      unfold SortedSeq at hs ⊢
      simp only [List.append_nil] at hs
      rw [List.pairwise_append]
      exact ⟨hs, by simp, fun a ha b hb => by
        simp only [List.mem_singleton] at hb; subst hb; exact h3 a ha⟩
  | cons e r' =>
    have hge := h4 e r' rfl
    have hlt : ¬ l.length ≥ (l ++ e :: r').length := by simp
    rw [if_neg hlt]
    have hget : (l ++ e :: r').getD l.length ⟨slot, seq⟩ = e := by
      simp [List.getD_eq_getElem?_getD]
    rw [hget]
    obtain ⟨s1, s2, s3⟩ := sorted_split hs
    by_cases hq : e.seq = seq
    · left
      exact ⟨⟨e, by simp, hq⟩, by simp [hq]⟩
    · right
      have hno : ¬ ∃ x ∈ l ++ e :: r', x.seq = seq := by
        rintro ⟨x, hx, hxq⟩
        rcases List.mem_append.mp hx with hx | hx
        · have := h3 x hx; omega
        · rcases List.mem_cons.mp hx with rfl | hx
          · exact hq hxq
          · have := s2 x hx; omega
      rw [if_pos hq]
      by_cases hm : ((l ++ e :: r').length : Int) ≥ maxSlots
      · left; exact ⟨hno, hm, by rw [if_pos hm]⟩
      · right
        refine ⟨hno, hm, l, e :: r', rfl, ?_, ?_⟩
        · rw [if_neg hm, List.take_left, List.drop_left]
        · unfold SortedSeq at hs ⊢
          rw [List.pairwise_append] at hs ⊢
          obtain ⟨p1, p2, p3⟩ := hs
          refine ⟨p1, ?_, ?_⟩
          · rw [List.pairwise_cons]
            refine ⟨?_, p2⟩
            intro a ha
            rcases List.mem_cons.mp ha with rfl | ha
            · show seq < a.seq; omega
            · have := s2 a ha; show seq < a.seq; omega
          · intro a ha b hb
            rcases List.mem_cons.mp hb with rfl | hb
            · exact h3 a ha
            · exact p3 a ha b hb

/-! ## The ghost description of the index -/

/-- One parked packet: its sequence number, the *original* index the offsetter stored for it
(position in the stream of all bytes saved since the index was last empty) and its bytes. -/
structure GE where
  seq : Int
  o : Nat
  bytes : Bytes

def toParked (G : List GE) : List (Int × Bytes) := G.map (fun g => (g.seq, g.bytes))
def toSSlot (g : GE) : SSlot := ⟨⟨(g.o : Int), (g.bytes.length : Int)⟩, g.seq⟩
/-- Length of the save area that holds exactly these packets. -/
def glen (G : List GE) : Nat := (flat (toParked G)).length

theorem glen_nil : glen [] = 0 := rfl
theorem glen_cons (g : GE) (r : List GE) : glen (g :: r) = g.bytes.length + glen r := by
  simp [glen, toParked, flat]
theorem glen_append (G1 G2 : List GE) : glen (G1 ++ G2) = glen G1 + glen G2 := by
  induction G1 with
  | nil => simp [glen_nil]
  | cons g r ih => rw [List.cons_append, glen_cons, glen_cons, ih]; omega

theorem toParked_append (G1 G2 : List GE) : toParked (G1 ++ G2) = toParked G1 ++ toParked G2 := by
  simp [toParked]

theorem lookup_toParked_none (G : List GE) (seq : Int) (h : ¬ ∃ g ∈ G, g.seq = seq) :
    (toParked G).lookup seq = none := by
  induction G with
  | nil => rfl
  | cons g r ih =>
    have h1 : ¬ g.seq = seq := fun hq => h ⟨g, List.mem_cons_self .., hq⟩
    have h2 : ¬ ∃ g ∈ r, g.seq = seq := fun ⟨x, hx, hq⟩ => h ⟨x, List.mem_cons_of_mem _ hx, hq⟩
    show List.lookup seq ((g.seq, g.bytes) :: toParked r) = none
    rw [List.lookup_cons]
    have : (seq == g.seq) = false := by simp; omega
    rw [this]; exact ih h2

theorem lookup_toParked_some (G1 G2 : List GE) (g : GE) (h : ∀ x ∈ G1, x.seq ≠ g.seq) :
    (toParked (G1 ++ g :: G2)).lookup g.seq = some g.bytes := by
  induction G1 with
  | nil => show List.lookup g.seq ((g.seq, g.bytes) :: toParked G2) = _; simp
  | cons x r ih =>
    show List.lookup g.seq ((x.seq, x.bytes) :: toParked (r ++ g :: G2)) = _
    rw [List.lookup_cons]
    have h1 := h x (List.mem_cons_self ..)
    have : (g.seq == x.seq) = false := by simp; omega
    rw [this]; exact ih (fun y hy => h y (List.mem_cons_of_mem _ hy))

theorem without_toParked (G1 G2 : List GE) (g : GE) (h1 : ∀ x ∈ G1, x.seq ≠ g.seq) (h2 : ∀ x ∈ G2, x.seq ≠ g.seq) :
    without (toParked (G1 ++ g :: G2)) g.seq = toParked (G1 ++ G2) := by
  unfold without toParked
  simp only [List.map_append, List.map_cons, List.filter_append, List.filter_cons]
  have e0 : ((g.seq != g.seq) = true) = False := by simp
  rw [if_neg (by simp)]
  congr 1
  · apply List.filter_eq_self.mpr
    intro p hp
    obtain ⟨x, hx, rfl⟩ := List.mem_map.mp hp
    simpa using h1 x hx
  · apply List.filter_eq_self.mpr
    intro p hp
    obtain ⟨x, hx, rfl⟩ := List.mem_map.mp hp
    simpa using h2 x hx

/-- Every non-empty packet sits where the tree says: original index = current position + everything
discarded at or before it. `pos` is the current position of the head of the list. (The original
index of an empty packet carries no information: `Save` reports `Slot{0, 0}` for it.) -/
def Placed (a : Nat → Int) : Int → List GE → Prop
  | _, [] => True
  | pos, g :: r => (g.bytes ≠ [] → (g.o : Int) = pos + psum a (g.o + 1)) ∧ Placed a (pos + g.bytes.length) r

theorem placed_append (a : Nat → Int) (G1 G2 : List GE) : ∀ pos,
    Placed a pos (G1 ++ G2) ↔ Placed a pos G1 ∧ Placed a (pos + glen G1) G2 := by
  induction G1 with
  | nil => intro pos; simp [Placed, glen_nil]
  | cons g r ih =>
    intro pos
    simp only [List.cons_append, Placed, ih, glen_cons, Int.natCast_add]
    rw [show pos + ↑g.bytes.length + ↑(glen r) = pos + (↑g.bytes.length + ↑(glen r)) by omega]
    exact and_assoc.symm

theorem placed_range (a : Nat → Int) (G : List GE) : ∀ pos, Placed a pos G → ∀ g ∈ G, g.bytes ≠ [] →
    pos ≤ (g.o : Int) - psum a (g.o + 1) ∧ (g.o : Int) - psum a (g.o + 1) + g.bytes.length ≤ pos + glen G := by
  induction G with
  | nil => intro pos _ g hg; cases hg
  | cons x r ih =>
    intro pos hp g hg hne
    obtain ⟨h1, h2⟩ := hp
    rw [glen_cons]
    rcases List.mem_cons.mp hg with rfl | hg
    · have := h1 hne
      simp only [Int.natCast_add]; omega
    · have := ih _ h2 g hg hne
      simp only [Int.natCast_add]; omega

/-- Re-placing after the tree changed by a constant on the packets concerned. -/
theorem placed_shift (a a' : Nat → Int) (c : Int) (G : List GE) : ∀ pos,
    (∀ g ∈ G, g.bytes ≠ [] → psum a' (g.o + 1) = psum a (g.o + 1) + c) → Placed a pos G → Placed a' (pos - c) G := by
  induction G with
  | nil => intro pos _ _; trivial
  | cons x r ih =>
    intro pos hc hp
    obtain ⟨h1, h2⟩ := hp
    refine ⟨?_, ?_⟩
    · intro hne
      rw [hc x (List.mem_cons_self ..) hne]; have := h1 hne; omega
    · have := ih (pos + x.bytes.length) (fun g hg => hc g (List.mem_cons_of_mem _ hg)) h2
      rw [show pos - c + ↑x.bytes.length = pos + ↑x.bytes.length - c by omega]; exact this

/-- Bytes of the parked packets whose original index is at least `x`. -/
def liveFrom : List GE → Nat → Int
  | [], _ => 0
  | g :: r, x => (if x ≤ g.o then (g.bytes.length : Int) else 0) + liveFrom r x

theorem liveFrom_append (G1 G2 : List GE) (x : Nat) : liveFrom (G1 ++ G2) x = liveFrom G1 x + liveFrom G2 x := by
  induction G1 with
  | nil => simp [liveFrom]
  | cons g r ih => simp only [List.cons_append, liveFrom, ih]; omega

theorem liveFrom_nonneg (G : List GE) (x : Nat) : 0 ≤ liveFrom G x := by
  induction G with
  | nil => exact Int.le_refl 0
  | cons g r ih => simp only [liveFrom]; split <;> omega

theorem liveFrom_zero (G : List GE) (x : Nat) (h : ∀ g ∈ G, g.bytes ≠ [] → g.o < x) : liveFrom G x = 0 := by
  induction G with
  | nil => rfl
  | cons g r ih =>
    simp only [liveFrom]
    rw [ih (fun y hy => h y (List.mem_cons_of_mem _ hy))]
    by_cases hb : g.bytes = []
    · simp [hb]
    · have := h g (List.mem_cons_self ..) hb
      rw [if_neg (by omega)]; rfl

/-! ## slot.go (regenerated definition) -/

/-- `OffsetSlot` subtracts the offset clamped to `[0, slot.Index]`.  The proof explores whatever
`if` structure the regenerated definition has, so a reordering of the clamps does not break it. -/
theorem offsetSlot_eq (off : Int) (slot : Slot) (h0 : 0 ≤ off) (h1 : 0 ≤ slot.Index) (h2 : slot.Index ≤ Go.I64MAX) :
    OffsetSlot off slot = ⟨slot.Index - (if off > slot.Index then slot.Index else off), slot.Length⟩ := by
  have key : ∀ x : Int, 0 ≤ x → x ≤ slot.Index → Go.sub slot.Index x = slot.Index - x := by
    intro x hx0 hx1
    apply Go.sub_id
    unfold Go.InI64 Go.I64MIN Go.I64MAX; unfold Go.I64MAX at h2; omega
  by_cases h : off > slot.Index
  · rw [if_pos h]
    unfold OffsetSlot
    dsimp only
    repeat' split
    all_goals first
      | (exfalso; omega)
      | (congr 1; rw [key] <;> omega)
  · rw [if_neg h]
    unfold OffsetSlot
    dsimp only
    repeat' split
    all_goals first
      | (exfalso; omega)
      | (congr 1; rw [key] <;> omega)

/-! ## slot_offsetter.go against the ghost description -/

/-- The tree describes the discarded lengths `a` (by original index) and the parked packets `G`. -/
structure OffOk (t : Tree) (a : Nat → Int) (G : List GE) : Prop where
  fen : Fen t a
  nonneg : ∀ x, 0 ≤ a x
  supp : ∀ x, t.length ≤ x → a x = 0
  /-- everything discarded lies inside the stream of bytes saved since the last reset -/
  bound : ∀ x, a x ≠ 0 → (x : Int) < glen G + psum a t.length
  inTree : ∀ g ∈ G, g.o < t.length
  placed : Placed a 0 G
  ordered : G.Pairwise (fun g1 g2 => g1.bytes ≠ [] → g2.bytes ≠ [] → g1.o < g2.o)
  zbound : ∀ g ∈ G, g.bytes = [] → (g.o : Int) ≤ glen G + psum a t.length
  /-- the slots (parked or discarded) that start at or after `x` fit between `x` and the end of the stream -/
  packed : ∀ x : Nat, (x : Int) ≤ glen G + psum a t.length →
    psum a t.length - psum a x + liveFrom G x ≤ glen G + psum a t.length - x

/-- The index `Save` reports for a packet: the end of the save area, or 0 for an empty packet. -/
def sidx (G : List GE) (pkt : Bytes) : Int := if pkt = [] then 0 else glen G

theorem sidx_le (G : List GE) (pkt : Bytes) : 0 ≤ sidx G pkt ∧ sidx G pkt ≤ glen G := by
  unfold sidx; split <;> omega

theorem off_reset (t : Tree) : OffOk t.reset (fun _ => 0) [] := by
  constructor
  · exact fen_reset t
  · intro x; exact Int.le_refl 0
  · intro x _; rfl
  · intro x hx; exact absurd rfl hx
  · intro g hg; cases hg
  · trivial
  · exact List.Pairwise.nil
  · intro g hg; cases hg
  · intro x hx
    simp only [psum_zero, glen_nil, liveFrom] at hx ⊢
    omega

theorem off_new (n : Int) : OffOk (Tree.new n) (fun _ => 0) [] := by
  have := off_reset (Tree.new n)
  have e : (Tree.new n).reset = Tree.new n := by simp [Tree.reset, Tree.new]
  rw [e] at this; exact this

/-- `Add` of the slot `Save` just returned for `pkt`. -/
theorem off_add (t : Tree) (a : Nat → Int) (G : List GE) (h : OffOk t a G) (key : Int) (pkt : Bytes) :
    offsetterAdd t ⟨sidx G pkt, pkt.length⟩ =
      (if sidx G pkt + psum a t.length ≥ t.length then none else some ⟨sidx G pkt + psum a t.length, pkt.length⟩) ∧
    (¬ sidx G pkt + psum a t.length ≥ t.length →
      OffOk t a (G ++ [⟨key, (sidx G pkt + psum a t.length).toNat, pkt⟩])) := by
  have htot : t.sum = psum a t.length := sum_spec _ _ h.fen
  have htot0 : 0 ≤ psum a t.length := psum_nonneg a h.nonneg _
  obtain ⟨hs0, hs1⟩ := sidx_le G pkt
  constructor
  · unfold offsetterAdd Tree.size
    simp only [htot]
  · intro hlt
    have ho : ((sidx G pkt + psum a t.length).toNat : Int) = sidx G pkt + psum a t.length := by omega
    have hon : (sidx G pkt + psum a t.length).toNat < t.length := by omega
    have hglen : glen (G ++ [⟨key, (sidx G pkt + psum a t.length).toNat, pkt⟩]) = glen G + pkt.length := by
      rw [glen_append, glen_cons, glen_nil]; simp
    have hbefore : ∀ g ∈ G, g.bytes ≠ [] → (g.o : Int) < (glen G : Int) + psum a t.length := by
      intro g hg hne
      have hr := placed_range a G 0 h.placed g hg hne
      have hm := psum_mono a h.nonneg (show g.o + 1 ≤ t.length from h.inTree g hg)
      have hne : 0 < g.bytes.length := List.length_pos_iff.mpr hne
      omega
    constructor
    · exact h.fen
    · exact h.nonneg
    · exact h.supp
    · intro x hx
      have := h.bound x hx
      rw [hglen]; simp only [Int.natCast_add]; omega
    · intro g hg
      rcases List.mem_append.mp hg with hg | hg
      · exact h.inTree g hg
      · simp only [List.mem_singleton] at hg; subst hg; exact hon
    · rw [placed_append]
      refine ⟨h.placed, ?_, trivial⟩
      intro hne
      have hsx : sidx G pkt = glen G := by unfold sidx; rw [if_neg hne]
      -- everything discarded lies before the new original index
      have hvan : ∀ x, (sidx G pkt + psum a t.length).toNat ≤ x → a x = 0 := by
        intro x hx
        apply Classical.byContradiction
        intro hne'
        have := h.bound x hne'; omega
      have hps : psum a ((sidx G pkt + psum a t.length).toNat + 1) = psum a t.length :=
        (psum_const a _ hvan (Nat.le_succ _)).trans (psum_const a _ hvan (Nat.le_of_lt hon)).symm
      show (((sidx G pkt + psum a t.length).toNat : Nat) : Int) = 0 + ↑(glen G) + psum a _
      rw [hps]; omega
    · rw [List.pairwise_append]
      refine ⟨h.ordered, by simp, ?_⟩
      intro g hg b hb hne1 hne2
      simp only [List.mem_singleton] at hb; subst hb
      have := hbefore g hg hne1
      have hsx : sidx G pkt = glen G := by unfold sidx; rw [if_neg hne2]
      show g.o < (sidx G pkt + psum a t.length).toNat
      omega
    · intro g hg hz
      rw [hglen]
      rcases List.mem_append.mp hg with hg | hg
      · have := h.zbound g hg hz
        simp only [Int.natCast_add]; omega
      · simp only [List.mem_singleton] at hg; subst hg
        show (((sidx G pkt + psum a t.length).toNat : Nat) : Int) ≤ _
        simp only [Int.natCast_add]; omega
    · intro x hx
      rw [hglen] at hx ⊢
      rw [liveFrom_append]
      simp only [liveFrom, Int.natCast_add] at hx ⊢
      by_cases hp : pkt = []
      · subst hp
        have := h.packed x (by simpa using hx)
        simp only [List.length_nil, Int.natCast_zero] at hx ⊢
        split <;> omega
      · have hsx : sidx G pkt = glen G := by unfold sidx; rw [if_neg hp]
        by_cases hxv : (x : Int) ≤ glen G + psum a t.length
        · have := h.packed x hxv
          split <;> omega
        · -- beyond the old end of the stream nothing starts except the new packet itself
          have hvan : ∀ y, (sidx G pkt + psum a t.length).toNat ≤ y → a y = 0 := by
            intro y hy
            apply Classical.byContradiction
            intro hne'
            have := h.bound y hne'; omega
          have hpx : psum a x = psum a t.length :=
            (psum_const a _ hvan (show (sidx G pkt + psum a t.length).toNat ≤ x by omega)).trans
              (psum_const a _ hvan (Nat.le_of_lt hon)).symm
          have hlz : liveFrom G x = 0 := liveFrom_zero G x (fun g hg hne => by
            have := hbefore g hg hne; omega)
          rw [hpx, hlz, if_neg (by omega)]
          omega

/-- `Offset` of a parked packet's stored slot: the slot returned addresses the packet's current
position (for an empty packet: some position inside the save area), the discard is recorded. -/
theorem off_offset (t : Tree) (a : Nat → Int) (G1 G2 : List GE) (g : GE) (h : OffOk t a (G1 ++ g :: G2))
    (hI : (t.length : Int) ≤ Go.I64MAX) :
    ∃ idx : Int, offsetterOffset t ⟨g.o, g.bytes.length⟩ = some (t.add g.o g.bytes.length, ⟨idx, g.bytes.length⟩) ∧
      (g.bytes ≠ [] → idx = glen G1) ∧ 0 ≤ idx ∧ idx ≤ glen (G1 ++ g :: G2) ∧
      OffOk (t.add g.o g.bytes.length) (upd a g.o g.bytes.length) (G1 ++ G2) ∧
      psum (upd a g.o g.bytes.length) t.length = psum a t.length + g.bytes.length := by
  have hgin : g ∈ G1 ++ g :: G2 := by simp
  have hon : g.o < t.length := h.inTree g hgin
  have hpl := h.placed
  rw [placed_append] at hpl
  obtain ⟨hp1, hpg, hp2⟩ := hpl
  simp only [Int.zero_add] at hpg hp2
  have hord := h.ordered
  rw [List.pairwise_append, List.pairwise_cons] at hord
  obtain ⟨ho1, ⟨hog2, ho2⟩, ho3⟩ := hord
  have hP0 : 0 ≤ psum a (g.o + 1) := psum_nonneg a h.nonneg _
  have hPle : psum a (g.o + 1) ≤ psum a t.length := psum_mono a h.nonneg hon
  have hgl : (glen (G1 ++ g :: G2) : Int) = glen G1 + g.bytes.length + glen G2 := by
    rw [glen_append, glen_cons]; simp only [Int.natCast_add]; omega
  have hgl' : (glen (G1 ++ G2) : Int) = glen G1 + glen G2 := by
    rw [glen_append]; simp only [Int.natCast_add]
  have hpsn : psum (upd a g.o ↑g.bytes.length) t.length = psum a t.length + g.bytes.length := by
    rw [psum_upd, if_pos hon]
  have hsub : ∀ x ∈ G1 ++ G2, x ∈ G1 ++ g :: G2 := by
    intro x hx
    rcases List.mem_append.mp hx with h1 | h1
    · exact List.mem_append_left _ h1
    · exact List.mem_append_right _ (List.mem_cons_of_mem _ h1)
  refine ⟨(g.o : Int) - (if psum a (g.o + 1) > (g.o : Int) then (g.o : Int) else psum a (g.o + 1)), ?_, ?_, ?_, ?_, ?_, hpsn⟩
  · unfold offsetterOffset Tree.size
    dsimp only
    rw [if_neg (by omega)]
    simp only [Int.toNat_natCast]
    rw [sumUntil_spec t a h.fen g.o hon, offsetSlot_eq _ _ hP0 (by dsimp only; omega) (by dsimp only; omega)]
  · intro hne
    have := hpg hne
    rw [if_neg (by omega)]; omega
  · split <;> omega
  · by_cases hne : g.bytes = []
    · -- an empty packet: its index only has to stay inside the save area
      by_cases hcl : psum a (g.o + 1) > (g.o : Int)
      · rw [if_pos hcl]; omega
      · rw [if_neg hcl]
        have hz := h.zbound g hgin hne
        by_cases heq : (g.o : Int) = glen (G1 ++ g :: G2) + psum a t.length
        · -- at the very end of the stream: everything discarded lies before it
          have hvan : ∀ y, g.o ≤ y → a y = 0 := by
            intro y hy
            apply Classical.byContradiction
            intro hne'
            have := h.bound y hne'; omega
          have hps : psum a (g.o + 1) = psum a t.length :=
            (psum_const a _ hvan (Nat.le_succ _)).trans (psum_const a _ hvan (Nat.le_of_lt hon)).symm
          omega
        · have hpk := h.packed (g.o + 1) (by simp only [Int.natCast_add, Int.natCast_one]; omega)
          have := liveFrom_nonneg (G1 ++ g :: G2) (g.o + 1)
          simp only [Int.natCast_add, Int.natCast_one] at hpk
          omega
    · have := hpg hne
      rw [if_neg (by omega)]; omega
  · -- the invariant for the remaining packets
    constructor
    · exact fen_add _ _ h.fen _ _
    · intro x; unfold upd; split
      · have := h.nonneg x; omega
      · exact h.nonneg x
    · intro x hx
      rw [add_length] at hx
      unfold upd; rw [if_neg (by omega)]; exact h.supp x hx
    · intro x hx
      rw [add_length, hpsn, hgl']
      by_cases hxo : x = g.o ∧ g.bytes ≠ []
      · obtain ⟨rfl, hne⟩ := hxo
        have := hpg hne
        have : 0 < g.bytes.length := List.length_pos_iff.mpr hne
        omega
      · have hax : a x ≠ 0 := by
          unfold upd at hx
          by_cases hxg : x = g.o
          · rw [if_pos hxg] at hx
            have : g.bytes = [] := Classical.byContradiction fun hne => hxo ⟨hxg, hne⟩
            rw [this] at hx; simpa using hx
          · rw [if_neg hxg] at hx; exact hx
        have := h.bound x hax
        rw [hgl] at this; omega
    · intro x hx
      rw [add_length]; exact h.inTree x (hsub x hx)
    · rw [placed_append]
      constructor
      · have := placed_shift a (upd a g.o g.bytes.length) 0 G1 0 (by
          intro x hx hne
          rw [psum_upd]
          by_cases hg0 : g.bytes = []
          · rw [hg0]; simp
          · rw [if_neg (by have := ho3 x hx g (List.mem_cons_self ..) hne hg0; omega)]) hp1
        simpa using this
      · have := placed_shift a (upd a g.o g.bytes.length) g.bytes.length G2 _ (by
          intro x hx hne
          rw [psum_upd]
          by_cases hg0 : g.bytes = []
          · rw [hg0]; simp
          · rw [if_pos (by have := hog2 x hx hg0 hne; omega)]) hp2
        rw [show (0 : Int) + ↑(glen G1) = ↑(glen G1) + ↑g.bytes.length - ↑g.bytes.length by omega]
        exact this
    · rw [List.pairwise_append]
      exact ⟨ho1, ho2, fun x hx y hy => ho3 x hx y (List.mem_cons_of_mem _ hy)⟩
    · intro x hx hz
      rw [add_length, hpsn, hgl']
      have := h.zbound x (hsub x hx) hz
      rw [hgl] at this; omega
    · intro x hx
      rw [add_length, hpsn, hgl'] at hx ⊢
      have := h.packed x (by rw [hgl]; omega)
      rw [hgl, liveFrom_append] at this
      simp only [liveFrom] at this
      rw [liveFrom_append, psum_upd]
      by_cases hxg : x ≤ g.o
      · rw [if_pos hxg] at this
        rw [if_neg (by omega)]; omega
      · rw [if_neg hxg] at this
        rw [if_pos (by omega)]; omega

/-! ## slot_sequencer.go against the ghost description -/

structure IdxOk (q : Seqr) (a : Nat → Int) (G : List GE) : Prop where
  nLo : 0 ≤ q.maxBytes
  nHi : q.maxBytes ≤ Go.I64MAX
  treeLen : (q.tree.length : Int) = q.maxBytes
  sorted : SortedSeq q.slots
  mem : ∀ e, e ∈ q.slots ↔ e ∈ G.map toSSlot
  len : q.slots.length = G.length
  nodup : G.Pairwise (fun g1 g2 => g1.seq ≠ g2.seq)
  bytes : q.bytes = glen G
  off : OffOk q.tree a G

theorem idx_dup_iff {q : Seqr} {a : Nat → Int} {G : List GE} (h : IdxOk q a G) (seq : Int) :
    (∃ e ∈ q.slots, e.seq = seq) ↔ (∃ g ∈ G, g.seq = seq) := by
  constructor
  · rintro ⟨e, he, hq⟩
    obtain ⟨g, hg, rfl⟩ := List.mem_map.mp ((h.mem e).mp he)
    exact ⟨g, hg, hq⟩
  · rintro ⟨g, hg, hq⟩
    exact ⟨toSSlot g, (h.mem _).mpr (List.mem_map.mpr ⟨g, hg, rfl⟩), hq⟩

/-- `Push` of the slot `Save` just returned for the packet `pkt` (it sits at the end of the save
area; an empty packet is reported as `Slot{0, 0}`): one of the two byte/index limits, a duplicate,
the slot limit, or acceptance. -/
theorem push_spec (q : Seqr) (a : Nat → Int) (G : List GE) (h : IdxOk q a G) (seq : Int) (pkt : Bytes) :
    ((glen G : Int) + pkt.length > q.maxBytes ∧ q.push seq ⟨sidx G pkt, pkt.length⟩ = (q, false, true)) ∨
    (sidx G pkt + psum a q.tree.length ≥ q.maxBytes ∧ q.push seq ⟨sidx G pkt, pkt.length⟩ = (q, false, true)) ∨
    (¬ (glen G : Int) + pkt.length > q.maxBytes ∧ (∃ g ∈ G, g.seq = seq) ∧
      q.push seq ⟨sidx G pkt, pkt.length⟩ = (q, false, false)) ∨
    (¬ (∃ g ∈ G, g.seq = seq) ∧ (G.length : Int) ≥ q.maxSlots ∧ q.push seq ⟨sidx G pkt, pkt.length⟩ = (q, false, true)) ∨
    (¬ (glen G : Int) + pkt.length > q.maxBytes ∧ ¬ (∃ g ∈ G, g.seq = seq) ∧ ¬ (G.length : Int) ≥ q.maxSlots ∧
      ∃ q', q.push seq ⟨sidx G pkt, pkt.length⟩ = (q', true, false) ∧
        IdxOk q' a (G ++ [⟨seq, (sidx G pkt + psum a q.tree.length).toNat, pkt⟩]) ∧
        q'.maxBytes = q.maxBytes ∧ q'.maxSlots = q.maxSlots ∧ q'.tree = q.tree) := by
  have htot0 : 0 ≤ psum a q.tree.length := psum_nonneg a h.off.nonneg _
  obtain ⟨hs0, hs1⟩ := sidx_le G pkt
  obtain ⟨hadd, hoff'⟩ := off_add q.tree a G h.off seq pkt
  rw [h.treeLen] at hadd hoff'
  unfold Seqr.push
  dsimp only
  by_cases hb : (glen G : Int) + pkt.length > q.maxBytes
  · left; exact ⟨hb, by rw [if_pos (by rw [h.bytes]; exact hb)]⟩
  · rw [if_neg (by rw [h.bytes]; exact hb), hadd]
    by_cases ha : sidx G pkt + psum a q.tree.length ≥ q.maxBytes
    · right; left; exact ⟨ha, by rw [if_pos ha]⟩
    · rw [if_neg ha]
      right; right
      dsimp only
      rcases containerPush_spec q.maxSlots q.slots seq ⟨sidx G pkt + psum a q.tree.length, pkt.length⟩ h.sorted with
        ⟨hd, he⟩ | ⟨hd, hm, he⟩ | ⟨hd, hm, l, r, hl, he, hso⟩
      · left
        refine ⟨hb, (idx_dup_iff h seq).mp hd, ?_⟩
        rw [he]; simp
      · right; left
        refine ⟨fun hx => hd ((idx_dup_iff h seq).mpr hx), by rw [← h.len]; exact hm, ?_⟩
        rw [he]; simp
      · right; right
        have hnd : ¬ ∃ g ∈ G, g.seq = seq := fun hx => hd ((idx_dup_iff h seq).mpr hx)
        refine ⟨hb, hnd, by rw [← h.len]; exact hm,
          { q with slots := l ++ ⟨⟨sidx G pkt + psum a q.tree.length, pkt.length⟩, seq⟩ :: r,
                   bytes := q.bytes + pkt.length }, by rw [he]; simp, ?_, rfl, rfl, rfl⟩
        have ho : ((sidx G pkt + psum a q.tree.length).toNat : Int) = sidx G pkt + psum a q.tree.length := by omega
        constructor
        · exact h.nLo
        · exact h.nHi
        · exact h.treeLen
        · exact hso
        · intro e
          show e ∈ l ++ _ :: r ↔ _
          simp only [List.map_append, List.map_cons, List.map_nil, List.mem_append, List.mem_cons, List.not_mem_nil, or_false]
          rw [← h.mem e, hl, List.mem_append]
          have : toSSlot ⟨seq, (sidx G pkt + psum a q.tree.length).toNat, pkt⟩ =
              ⟨⟨sidx G pkt + psum a q.tree.length, pkt.length⟩, seq⟩ := by
            unfold toSSlot; simp only [ho]
          rw [this]
          constructor
          · rintro (h1 | h1 | h1)
            · exact Or.inl (Or.inl h1)
            · exact Or.inr h1
            · exact Or.inl (Or.inr h1)
          · rintro ((h1 | h1) | h1)
            · exact Or.inl h1
            · exact Or.inr (Or.inr h1)
            · exact Or.inr (Or.inl h1)
        · show (l ++ _ :: r).length = _
          have := h.len; rw [hl] at this
          simp only [List.length_append, List.length_cons, List.length_nil] at this ⊢; omega
        · rw [List.pairwise_append]
          refine ⟨h.nodup, by simp, ?_⟩
          intro g hg b hb
          simp only [List.mem_singleton] at hb; subst hb
          exact fun hq => hnd ⟨g, hg, hq⟩
        · show q.bytes + (pkt.length : Int) = _
          rw [h.bytes, glen_append, glen_cons, glen_nil]; simp only [Int.natCast_add]; omega
        · exact hoff' ha

/-- `Pop` of a sequence number that is not parked: a miss, nothing changes. -/
theorem pop_miss (q : Seqr) (a : Nat → Int) (G : List GE) (h : IdxOk q a G) (seq : Int)
    (hno : ¬ ∃ g ∈ G, g.seq = seq) : q.pop seq = some (q, ⟨0, 0⟩, false) := by
  unfold Seqr.pop
  rcases containerPop_spec q.slots seq h.sorted with ⟨_, he⟩ | ⟨l, e, r, hl, hq, _⟩
  · rw [he]; simp
  · exfalso
    exact hno ((idx_dup_iff h seq).mp ⟨e, by rw [hl]; simp, hq⟩)

theorem nodup_unique {G1 G2 : List GE} {g : GE}
    (h : (G1 ++ g :: G2).Pairwise (fun g1 g2 => g1.seq ≠ g2.seq)) :
    (∀ x ∈ G1, x.seq ≠ g.seq) ∧ (∀ x ∈ G2, x.seq ≠ g.seq) := by
  rw [List.pairwise_append, List.pairwise_cons] at h
  obtain ⟨_, ⟨h2, _⟩, h3⟩ := h
  exact ⟨fun x hx => h3 x hx g (List.mem_cons_self ..), fun x hx hq => h2 x hx hq.symm⟩

/-- `Pop` of a parked packet: the slot returned addresses the packet's current position in the
save area (the sum of the lengths of the older packets still parked; for an empty packet some
position inside the save area), and the index afterwards describes the remaining packets. -/
theorem pop_hit (q : Seqr) (a : Nat → Int) (G1 G2 : List GE) (g : GE) (h : IdxOk q a (G1 ++ g :: G2)) :
    ∃ q' a' idx, q.pop g.seq = some (q', ⟨idx, g.bytes.length⟩, true) ∧
      (g.bytes ≠ [] → idx = glen G1) ∧ 0 ≤ idx ∧ idx ≤ glen (G1 ++ g :: G2) ∧
      IdxOk q' a' (G1 ++ G2) ∧ q'.maxBytes = q.maxBytes ∧ q'.maxSlots = q.maxSlots ∧
      psum a' q'.tree.length = (if G1 ++ G2 = [] then 0 else psum a q.tree.length + g.bytes.length) := by
  obtain ⟨hu1, hu2⟩ := nodup_unique h.nodup
  have hgin : g ∈ G1 ++ g :: G2 := by simp
  obtain ⟨idx, hoff, hidx1, hidx2, hidx3, hoff', hpsn⟩ := off_offset q.tree a G1 G2 g h.off
    (by rw [h.treeLen]; exact h.nHi)
  -- the container
  rcases containerPop_spec q.slots g.seq h.sorted with ⟨hno, _⟩ | ⟨l, e, r, hl, hq, he⟩
  · exact absurd ((idx_dup_iff h g.seq).mpr ⟨g, hgin, rfl⟩) hno
  · have hsl := h.sorted
    rw [hl] at hsl
    obtain ⟨s1, s2, s3⟩ := sorted_split hsl
    have hee : e = toSSlot g := by
      obtain ⟨g', hg', rfl⟩ := List.mem_map.mp ((h.mem e).mp (by rw [hl]; simp))
      have hq' : g'.seq = g.seq := hq
      rcases List.mem_append.mp hg' with hx | hx
      · exact absurd hq' (hu1 g' hx)
      · rcases List.mem_cons.mp hx with rfl | hx
        · rfl
        · exact absurd hq' (hu2 g' hx)
    have hlen : (l ++ r).length = (G1 ++ G2).length := by
      have := h.len; rw [hl] at this
      simp only [List.length_append, List.length_cons] at this ⊢; omega
    have hempty : ((l ++ r).length = 0) ↔ (G1 ++ G2 = []) := by
      rw [hlen]; exact List.length_eq_zero_iff
    have hoff2 : offsetterOffset q.tree e.slot =
        some (q.tree.add g.o g.bytes.length, ⟨idx, g.bytes.length⟩) := by
      rw [hee]; exact hoff
    unfold Seqr.pop
    rw [he]
    dsimp only
    rw [if_pos rfl, hoff2]
    dsimp only
    refine ⟨_, if G1 ++ G2 = [] then (fun _ => 0) else upd a g.o g.bytes.length, idx, rfl, hidx1, hidx2, hidx3, ?_, rfl, rfl, ?_⟩
    · have hmem : ∀ x, x ∈ l ++ r ↔ x ∈ (G1 ++ G2).map toSSlot := by
        intro x
        constructor
        · intro hx
          have hx' : x ∈ q.slots := by
            rw [hl]; rcases List.mem_append.mp hx with h1 | h1
            · exact List.mem_append_left _ h1
            · exact List.mem_append_right _ (List.mem_cons_of_mem _ h1)
          obtain ⟨g', hg', rfl⟩ := List.mem_map.mp ((h.mem x).mp hx')
          refine List.mem_map.mpr ⟨g', ?_, rfl⟩
          rcases List.mem_append.mp hg' with h1 | h1
          · exact List.mem_append_left _ h1
          · rcases List.mem_cons.mp h1 with rfl | h1
            · exfalso
              rw [← hee] at hx
              rcases List.mem_append.mp hx with h2 | h2
              · exact Int.lt_irrefl _ (s1 e h2)
              · exact Int.lt_irrefl _ (s2 e h2)
            · exact List.mem_append_right _ h1
        · intro hx
          obtain ⟨g', hg', rfl⟩ := List.mem_map.mp hx
          have hg'' : g' ∈ G1 ++ g :: G2 := by
            rcases List.mem_append.mp hg' with h1 | h1
            · exact List.mem_append_left _ h1
            · exact List.mem_append_right _ (List.mem_cons_of_mem _ h1)
          have hin : toSSlot g' ∈ q.slots := (h.mem _).mpr (List.mem_map.mpr ⟨g', hg'', rfl⟩)
          rw [hl] at hin
          rcases List.mem_append.mp hin with h1 | h1
          · exact List.mem_append_left _ h1
          · rcases List.mem_cons.mp h1 with h1 | h1
            · exfalso
              have : g'.seq = g.seq := by rw [hee] at h1; exact congrArg SSlot.seq h1
              rcases List.mem_append.mp hg' with h2 | h2
              · exact hu1 g' h2 this
              · exact hu2 g' h2 this
            · exact List.mem_append_right _ h1
      have hnodup : (G1 ++ G2).Pairwise (fun g1 g2 => g1.seq ≠ g2.seq) := by
        have := h.nodup
        rw [List.pairwise_append, List.pairwise_cons] at this
        rw [List.pairwise_append]
        exact ⟨this.1, this.2.1.2, fun x hx y hy => this.2.2 x hx y (List.mem_cons_of_mem _ hy)⟩
      have hbytes : q.bytes - (g.bytes.length : Int) = glen (G1 ++ G2) := by
        rw [h.bytes, glen_append, glen_append, glen_cons]; simp only [Int.natCast_add]; omega
      by_cases hE : G1 ++ G2 = []
      · -- drained: the offsetter is reset
        have hE' : (l ++ r).length = 0 := hempty.mpr hE
        rw [if_pos hE', if_pos hE]
        rw [hE] at hmem hlen hbytes
        constructor
        · exact h.nLo
        · exact h.nHi
        · show ((Tree.reset _).length : Int) = _; rw [reset_length, add_length]; exact h.treeLen
        · exact s3
        · rw [hE]; exact hmem
        · rw [hE]; exact hlen
        · rw [hE]; exact List.Pairwise.nil
        · rw [hE]; exact hbytes
        · rw [hE]; exact off_reset _
      · have hE' : ¬ (l ++ r).length = 0 := fun hx => hE (hempty.mp hx)
        rw [if_neg hE', if_neg hE]
        constructor
        · exact h.nLo
        · exact h.nHi
        · show ((Tree.add _ _ _).length : Int) = _; rw [add_length]; exact h.treeLen
        · exact s3
        · exact hmem
        · exact hlen
        · exact hnodup
        · exact hbytes
        · exact hoff'
    · by_cases hE : G1 ++ G2 = []
      · have hE' : (l ++ r).length = 0 := hempty.mpr hE
        rw [if_pos hE', if_pos hE, if_pos hE]; exact psum_zero _
      · have hE' : ¬ (l ++ r).length = 0 := fun hx => hE (hempty.mp hx)
        rw [if_neg hE', if_neg hE, if_neg hE]
        show psum _ (Tree.add _ _ _).length = _
        rw [add_length]; exact hpsn

end Sonic.Lemmas.SlotsFacts
