/-
Per-object invariant of the loop model for timers: a timer's read interest is registered exactly while its state
is `scheduled` (so `Scheduled()` tells whether a callback is still due, and a closed or cancelled timer has no
interest the poller could dispatch).
-/
import Sonic.Lemmas.LoopInv

namespace Sonic.Model.Loop
open Sonic.Spec.Loop (Ev Ret Res OpKind ObjKind maxDispatch)

def TimerOk (o : Obj) : Prop := o.kind = .timer → (o.evR = (o.tstate == .scheduled) ∧ o.evW = false)

def TimerInv (w : World) : Prop := ∀ o ∈ w.objs, TimerOk o

theorem timerInv_setObj {w : World} {o' : Obj} (hI : TimerInv w) (ho : TimerOk o') : TimerInv (setObj w o') := by
  intro o hm
  unfold setObj at hm
  simp only [List.mem_map] at hm
  obtain ⟨x, hx, rfl⟩ := hm
  split
  · exact ho
  · exact hI x hx

theorem timerInv_objs {w w' : World} (hI : TimerInv w) (h : w'.objs = w.objs) : TimerInv w' := by
  intro o hm; rw [h] at hm; exact hI o hm

theorem timerOk_not_timer {o : Obj} (h : o.kind ≠ .timer) : TimerOk o := fun hk => absurd hk h

theorem setRead_timer {w : World} {o : Obj} {op : Nat} (hI : TimerInv w) (hk : o.kind ≠ .timer) : TimerInv (setRead w o op) := by
  unfold setRead; split
  · exact timerInv_setObj hI (timerOk_not_timer hk)
  · exact timerInv_setObj (timerInv_objs hI rfl) (timerOk_not_timer hk)

theorem setWrite_timer {w : World} {o : Obj} {op : Nat} (hI : TimerInv w) (hk : o.kind ≠ .timer) : TimerInv (setWrite w o op) := by
  unfold setWrite; split
  · exact timerInv_setObj hI (timerOk_not_timer hk)
  · exact timerInv_setObj (timerInv_objs hI rfl) (timerOk_not_timer hk)

theorem delRead_timer {w : World} {o : Obj} (hI : TimerInv w) (hk : o.kind ≠ .timer) : TimerInv (delRead w o) := by
  unfold delRead; split
  · exact timerInv_setObj (timerInv_objs hI rfl) (timerOk_not_timer hk)
  · exact hI

theorem delWrite_timer {w : World} {o : Obj} (hI : TimerInv w) (hk : o.kind ≠ .timer) : TimerInv (delWrite w o) := by
  unfold delWrite; split
  · exact timerInv_setObj (timerInv_objs hI rfl) (timerOk_not_timer hk)
  · exact hI

theorem armTimer_timer {w : World} {o : Obj} {op : Nat} {rep : Bool} (hI : TimerInv w) (ho : TimerOk o) :
    TimerInv (armTimer w o op rep) := by
  unfold armTimer
  apply timerInv_setObj
  · split
    · exact hI
    · exact timerInv_objs hI rfl
  · intro hk; exact ⟨by simp, (ho hk).2⟩

theorem getObj_mem {w : World} {k : Nat} {o : Obj} (h : getObj w k = some o) : o ∈ w.objs := (find_mem h).1

theorem closeObj_timer {w : World} {o : Obj} (hI : TimerInv w) (ho : TimerOk o) : TimerInv (closeObj w o) := by
  unfold closeObj
  split
  · apply timerInv_setObj (timerInv_objs hI rfl)
    intro hk; exact ⟨by simp, (ho hk).2⟩
  · rename_i hk
    apply timerInv_setObj (timerInv_objs hI rfl)
    exact timerOk_not_timer (by simpa using hk)

theorem applyAfter_timer (w : World) (op : Nat) (a : After) (hI : TimerInv w) : TimerInv (applyAfter w op a) := by
  cases a with
  | none => exact hI
  | decDisp => exact timerInv_objs hI rfl
  | postDone => exact timerInv_objs hI rfl
  | timerDone k rep cb =>
    simp only [applyAfter]
    cases hg : getObj w k with
    | none => exact hI
    | some o =>
      simp only
      have ho := hI o (getObj_mem hg)
      repeat' split
      all_goals first
        | exact hI
        | (apply timerInv_setObj hI; intro hk; exact ho hk)
        | exact armTimer_timer hI ho

theorem cancelStep_timer (w w' : World) (k : Nat) (phase : Phase) (rest : List K) (e : Ev)
    (hI : TimerInv w) (h : cancelStep w k phase rest e = some w') : TimerInv w' := by
  unfold cancelStep at h
  cases hg : getObj w k with
  | none => simp [hg] at h
  | some o =>
    simp only [hg] at h
    have hnt : hasCancel o.kind = true → o.kind ≠ .timer := by
      intro hc hk; rw [hk] at hc; simp [hasCancel] at hc
    cases e with
    | enter op res n data early =>
      simp only at h
      repeat' split at h
      all_goals first
        | (cases h; done)
        | (cases h
           rename_i hc _
           simp only [Bool.and_eq_true] at hc
           first
             | exact timerInv_objs (delRead_timer hI (hnt hc.1.1)) rfl
             | exact timerInv_objs (delWrite_timer hI (hnt hc.1.1)) rfl)
        | (cases h
           rename_i _ hc _
           simp only [Bool.and_eq_true] at hc
           exact timerInv_objs (delWrite_timer hI (hnt hc.1.1)) rfl)
    | ret r =>
      simp only at h
      repeat' split at h
      all_goals first
        | (cases h; done)
        | (cases h; exact timerInv_objs hI rfl)
    | _ => simp at h

theorem pollDispatch_timer (w w' : World) (op : Nat) (rest : List K) (hI : TimerInv w)
    (h : pollDispatch w op rest = some w') : TimerInv w' := by
  unfold pollDispatch at h
  cases hop : getOp w op with
  | none => simp [hop] at h
  | some info =>
    simp only [hop] at h
    split at h
    · repeat' split at h
      all_goals first
        | (cases h; done)
        | (cases h; exact timerInv_objs hI rfl)
    · cases hg : getObj w info.obj with
      | none => simp [hg] at h
      | some o =>
        simp only [hg] at h
        have ho := hI o (getObj_mem hg)
        repeat' split at h
        all_goals first
          | (cases h; done)
          | (cases h
             apply timerInv_objs (w := setObj { w with pending := w.pending - 1 } { o with evR := false, tstate := .ready }) _ rfl
             apply timerInv_setObj (timerInv_objs hI rfl)
             intro hk; exact ⟨by simp, (ho hk).2⟩)
          | (cases h
             rename_i hnk _ _
             exact timerInv_objs (delRead_timer hI (by simpa using hnk)) rfl)
          | (cases h
             rename_i hnk _ _
             exact timerInv_objs (delWrite_timer hI (by simpa using hnk)) rfl)

set_option hygiene false in
macro "timer_branch" : tactic =>
  `(tactic| first
    | (cases h; done)
    | (cases h; exact timerInv_objs hI rfl))

/-- **The timer invariant is preserved by every transition of the loop model.** -/
theorem step_timer (w w' : World) (e : Ev) (hI : TimerInv w) (h : step w e = some w') : TimerInv w' := by
  unfold step at h
  split at h
  · -- object creation: a new object has no interest and is in state ready
    repeat' split at h
    all_goals first
      | (cases h; done)
      | (cases h
         intro o hm
         simp only [List.mem_cons] at hm
         rcases hm with rfl | hm
         · intro _; exact ⟨by simp, rfl⟩
         · exact hI o hm)
  · rename_i op after rest op' hst
    split at h
    · cases h; exact applyAfter_timer _ op after (timerInv_objs hI rfl)
    · cases h
  · rename_i k phase rest hst
    exact cancelStep_timer w w' k phase rest _ hI h
  · rename_i op k kind rest op' res n data early hst
    cases hg : getObj w k with
    | none => simp [hg] at h
    | some o =>
      simp only [hg] at h
      repeat' split at h
      all_goals timer_branch
  · rename_i op k kind completed rest r hst
    cases hg : getObj w k with
    | none =>
      simp only [hg] at h
      repeat' split at h
      all_goals timer_branch
    | some o =>
      simp only [hg] at h
      repeat' split at h
      all_goals first
        | timer_branch
        | (cases h
           rename_i hc _
           simp only [Bool.or_eq_true, not_or, Bool.not_eq_true, beq_eq_false_iff_ne] at hc
           first
             | exact timerInv_objs (setRead_timer hI hc.2) rfl
             | exact timerInv_objs (setWrite_timer hI hc.2) rfl)
  · rename_i k rest isNil hst
    cases hg : getObj w k with
    | none => simp [hg] at h
    | some o =>
      simp only [hg] at h
      have ho := hI o (getObj_mem hg)
      repeat' split at h
      all_goals first
        | timer_branch
        | (cases h; exact timerInv_objs (closeObj_timer hI ho) rfl)
  · rename_i op k rep ticks rest op' res n data early hst
    cases hg : getObj w k with
    | none => simp [hg] at h
    | some o =>
      simp only [hg] at h
      have ho := hI o (getObj_mem hg)
      repeat' split at h
      all_goals first
        | timer_branch
        | (cases h
           apply timerInv_objs (w := setObj w { o with cancelled := false }) _ rfl
           apply timerInv_setObj hI
           intro hk; exact ho hk)
  · rename_i op k rep ticks completed rest isNil hst
    cases hg : getObj w k with
    | none => simp [hg] at h
    | some o =>
      simp only [hg] at h
      have ho := hI o (getObj_mem hg)
      repeat' split at h
      all_goals first
        | timer_branch
        | (cases h; exact timerInv_objs (armTimer_timer hI ho) rfl)
  · rename_i k rest isNil hst
    cases hg : getObj w k with
    | none => simp [hg] at h
    | some o =>
      simp only [hg] at h
      have ho := hI o (getObj_mem hg)
      repeat' split at h
      all_goals first
        | timer_branch
        | (cases h
           apply timerInv_objs (w := setObj (unsetPending w o) { o with evR := false, cancelled := true, cancels := o.cancels + 1, tstate := .ready }) _ rfl
           apply timerInv_setObj (timerInv_objs hI rfl)
           intro hk; exact ⟨by simp, (ho hk).2⟩)
  · rename_i k rest b hst
    cases hg : getObj w k with
    | none => simp [hg] at h
    | some o =>
      simp only [hg] at h
      repeat' split at h
      all_goals timer_branch
  · repeat' split at h
    all_goals timer_branch
  · rename_i any rest op res n data early hst
    exact pollDispatch_timer w w' op rest hI h
  · repeat' split at h
    all_goals timer_branch
  · repeat' split at h
    all_goals timer_branch
  · repeat' split at h
    all_goals timer_branch
  · timer_branch
  · repeat' split at h
    all_goals first
      | timer_branch
      | (cases h; exact timerInv_objs hI (by simp [push]))

end Sonic.Model.Loop
