/-
Helper lemmas for C09: the coupling `R` between the implementation model of byte_buffer.go
(`Sonic.Model.ByteBuffer`) and the three-list specification (`Sonic.Spec.ByteBuffer`), and, per
method, what the model computes under that coupling.
-/
import Sonic.Model.ByteBuffer

namespace Sonic.Props.C09
open Sonic.Spec.ByteBuffer Sonic.Model.ByteBuffer

/-- Coupling between the implementation model and the three lists: the indices are the cumulative
lengths, the bytes are the concatenation, the length fits the capacity. -/
def R (b : BB) (s : S) : Prop :=
  b.si = s.saved.length ∧ b.ri = (s.saved.length : Int) + s.readable.length ∧
  b.wi = (s.saved.length : Int) + s.readable.length + s.pending.length ∧
  b.data = s.saved ++ s.readable ++ s.pending ∧ b.wi ≤ b.cap ∧ b.cap ≤ Go.I64MAX ∧ s.cap = b.cap ∧ s.void = false

/-- Linear arithmetic after exposing the int64 bounds. -/
macro "arith" : tactic =>
  `(tactic| ((try simp only [Go.InI64, Go.I64MIN, Go.I64MAX, MaxAlloc, true_and, and_true] at *); (try dsimp only at *); omega))

theorem sub_eq {a b : Int} (h1 : Go.I64MIN ≤ a - b) (h2 : a - b ≤ Go.I64MAX) : Go.sub a b = a - b :=
  Go.sub_id ⟨h1, h2⟩
theorem add_eq {a b : Int} (h1 : Go.I64MIN ≤ a + b) (h2 : a + b ≤ Go.I64MAX) : Go.add a b = a + b :=
  Go.add_id ⟨h1, h2⟩

/-! ### Lists -/

theorem copyWithin_remove (A B C : List UInt8) :
    (copyWithin (A ++ B ++ C) A.length (A.length + B.length) (A.length + B.length + C.length)).take (A.length + C.length)
      = A ++ C := by
  unfold copyWithin
  simp [List.take_append]
  exact List.take_of_length_le (by omega)

/-- Removing `B` from `A ++ B ++ C`: what `copy` followed by the reslice does in `Consume`/`Discard`. -/
theorem remove_eq (A B C : List UInt8) (i j hi n : Int)
    (hi1 : i = A.length) (hj : j = (A.length : Int) + B.length) (hhi : hi = (A.length : Int) + B.length + C.length)
    (hn : n = (A.length : Int) + C.length) :
    (copyWithin (A ++ B ++ C) i.toNat j.toNat hi.toNat).take n.toNat = A ++ C := by
  have e1 : i.toNat = A.length := by omega
  have e2 : j.toNat = A.length + B.length := by omega
  have e3 : hi.toNat = A.length + B.length + C.length := by omega
  have e4 : n.toNat = A.length + C.length := by omega
  rw [e1, e2, e3, e4, copyWithin_remove]

/-- `data[lo:hi]` of `A ++ B ++ C` is `B` when `lo`, `hi` are the cumulative lengths. -/
theorem mid_eq (A B C : List UInt8) (lo hi : Int) (hlo : lo = A.length) (hhi : hi = (A.length : Int) + B.length) :
    ((A ++ B ++ C).take hi.toNat).drop lo.toNat = B := by
  have e1 : lo.toNat = A.length := by omega
  have e2 : hi.toNat = (A ++ B).length := by simp; omega
  rw [e1, e2, List.take_left' rfl, List.drop_left' rfl]

/-- The clamp `if n > len then len else n` of a positive `n` against a list length, as a `Nat`. -/
theorem clamp_pos (n : Int) (l : List UInt8) (hn : 0 < n) :
    ∃ m : Nat, (if n > (l.length : Int) then (l.length : Int) else n) = m ∧ m ≤ l.length ∧
      l.drop n.toNat = l.drop m ∧ l.take n.toNat = l.take m ∧ (l ≠ [] → 0 < m) ∧ m = min n.toNat l.length := by
  by_cases h : n > (l.length : Int)
  · refine ⟨l.length, by rw [if_pos h], Nat.le_refl _, ?_, ?_, ?_, by omega⟩
    · rw [List.drop_of_length_le (by omega), List.drop_of_length_le (Nat.le_refl _)]
    · rw [List.take_of_length_le (by omega), List.take_of_length_le (Nat.le_refl _)]
    · intro hl; exact List.length_pos_iff.mpr hl
  · refine ⟨n.toNat, by rw [if_neg h]; omega, by omega, rfl, rfl, fun _ => by omega, by omega⟩

theorem split3 (l : List UInt8) (i k : Nat) :
    l = l.take i ++ (l.drop i).take k ++ l.drop (i + k) := by
  rw [List.append_assoc, ← List.drop_drop, List.take_append_drop, List.take_append_drop]

/-! ### Accessors under the coupling -/

theorem readLen_R {b : BB} {s : S} (hR : R b s) : b.ReadLen = some (s.readable.length : Int) := by
  obtain ⟨h1, h2, h3, h4, h5, h6, h7, h8⟩ := hR
  unfold BB.ReadLen
  rw [if_pos (show b.sliceOk b.si b.ri from ⟨by omega, by omega, by omega⟩), sub_eq (by arith) (by arith)]
  congr 1; omega

theorem writeLen_R {b : BB} {s : S} (hR : R b s) : b.WriteLen = some (s.pending.length : Int) := by
  obtain ⟨h1, h2, h3, h4, h5, h6, h7, h8⟩ := hR
  unfold BB.WriteLen
  rw [if_pos (show b.sliceOk b.ri b.wi from ⟨by omega, by omega, by omega⟩), sub_eq (by arith) (by arith)]
  congr 1; omega

theorem saveLen_R {b : BB} {s : S} (hR : R b s) : b.SaveLen = some (s.saved.length : Int) := by
  obtain ⟨h1, h2, h3, h4, h5, h6, h7, h8⟩ := hR
  unfold BB.SaveLen
  rw [if_pos (show b.sliceOk 0 b.si from ⟨by omega, by omega, by omega⟩), sub_eq (by arith) (by arith)]
  congr 1; omega

theorem reslice_eq {b : BB} {n : Int} (h0 : 0 ≤ n) (h1 : n ≤ b.cap) :
    b.reslice n = some { b with data := b.data.take n.toNat } := by
  unfold BB.reslice
  rw [if_pos (show b.sliceOk 0 n from ⟨Int.le_refl 0, h0, h1⟩)]

theorem len_R {b : BB} {s : S} (hR : R b s) : b.len = s.len := by
  obtain ⟨h1, h2, h3, h4, h5, h6, h7, h8⟩ := hR
  unfold BB.len S.len; rw [h4]; simp only [List.length_append]; omega

theorem wi_R {b : BB} {s : S} (hR : R b s) : b.wi = s.len := by
  obtain ⟨h1, h2, h3, h4, h5, h6, h7, h8⟩ := hR
  unfold S.len; omega

/-- Reading the buffer back gives exactly the three lists. -/
theorem dump_R {b : BB} {s : S} (hR : R b s) :
    b.dump = some { saved := s.saved, readable := s.readable, pending := s.pending,
                    len := s.len, cap := b.cap, reserved := b.cap - s.len } := by
  have hl := len_R hR
  have hw := wi_R hR
  unfold BB.dump
  rw [saveLen_R hR, readLen_R hR, writeLen_R hR]
  obtain ⟨h1, h2, h3, h4, h5, h6, h7, h8⟩ := hR
  dsimp only
  rw [if_pos (by omega), sub_eq (by arith) (by arith)]
  unfold BB.bytes
  rw [h4]
  have e1 := mid_eq [] s.saved (s.readable ++ s.pending) 0 b.si rfl (by simp; omega)
  have e2 := mid_eq s.saved s.readable s.pending b.si b.ri h1 h2
  have e3 := mid_eq (s.saved ++ s.readable) s.pending [] b.ri b.wi (by simp; omega) (by simp; omega)
  simp only [List.nil_append, List.append_nil, List.append_assoc] at e1 e2 e3 ⊢
  rw [e1, e2, e3, hl, hw]

end Sonic.Props.C09
